(* Proofs about Rt/RtMetaDefs.v: the parson object model (get-after-set, frame), the runtime's metadata
   state machine, and C02's clause "the metadata is complete". *)
From OV Require Import Base.CInt Emu.LoaderMetaDefs Emu.VersionDefs Rt.RtMetaDefs.
From OV Require Emu.MetaDefs.
From Coq Require Import ZifyBool.
Local Open Scope Z_scope.
Ltac Zify.zify_post_hook ::= Z.div_mod_to_equations.

(* ------------------------------------------------------------------ objects *)
Lemma fget_freplace_same fs k v x : fget fs k = Some x -> fget (freplace fs k v) k = Some v.
Proof.
  induction fs as [|[k' v'] r IH]; cbn [fget freplace]; [discriminate|].
  destruct (str_dec k' k) as [E|E]; cbn [fget].
  - intros _. destruct (str_dec k' k); [reflexivity|contradiction].
  - intros H. destruct (str_dec k' k); [contradiction|auto].
Qed.

Lemma fget_freplace_other fs k v k2 : k2 <> k -> fget (freplace fs k v) k2 = fget fs k2.
Proof.
  intros N. induction fs as [|[k' v'] r IH]; cbn [fget freplace]; [reflexivity|].
  destruct (str_dec k' k) as [E|E]; cbn [fget].
  - subst k'. destruct (str_dec k k2); [congruence|reflexivity].
  - destruct (str_dec k' k2); [reflexivity|exact IH].
Qed.

Lemma fget_app fs l k : fget (fs ++ l) k = match fget fs k with Some x => Some x | None => fget l k end.
Proof.
  induction fs as [|[k' v'] r IH]; cbn [fget app]; [reflexivity|].
  destruct (str_dec k' k); [reflexivity|exact IH].
Qed.

Lemma fget_fset_same fs k v : fget (fset fs k v) k = Some v.
Proof.
  unfold fset. destruct (fget fs k) eqn:E.
  - eapply fget_freplace_same; eauto.
  - rewrite fget_app, E. cbn [fget]. destruct (str_dec k k); [reflexivity|contradiction].
Qed.

Lemma fget_fset_other fs k v k2 : k2 <> k -> fget (fset fs k v) k2 = fget fs k2.
Proof.
  intros N. unfold fset. destruct (fget fs k) eqn:E.
  - apply fget_freplace_other; auto.
  - rewrite fget_app. destruct (fget fs k2); [reflexivity|].
    cbn [fget]. destruct (str_dec k k2); [congruence|reflexivity].
Qed.

(* ------------------------------------------------------------------ dotted paths *)
Lemma pget_nil_fields p : pget [] p = None.
Proof. destruct p as [|c [|c2 r]]; reflexivity. Qed.

Lemma pget_head fs1 fs2 c q : fget fs1 c = fget fs2 c -> pget fs1 (c :: q) = pget fs2 (c :: q).
Proof. intros H. destruct q; cbn [pget]; rewrite H; reflexivity. Qed.

(* unfolding equations (cbn would unfold the recursive call as well) *)
Lemma pget_one fs c : pget fs [c] = fget fs c.
Proof. reflexivity. Qed.
Lemma pget_cons2 fs c c2 rest :
  pget fs (c :: c2 :: rest) = match fget fs c with Some (jobj fs') => pget fs' (c2 :: rest) | _ => None end.
Proof. reflexivity. Qed.
Lemma pset_one fs c v : pset fs [c] v = Some (fset fs c v).
Proof. reflexivity. Qed.
Lemma pset_cons2 fs c c2 rest v :
  pset fs (c :: c2 :: rest) v =
  match fget fs c with
  | Some (jobj fs') => match pset fs' (c2 :: rest) v with Some fs'' => Some (freplace fs c (jobj fs'')) | None => None end
  | Some _ => None
  | None => match pset [] (c2 :: rest) v with Some n => Some (fs ++ [(c, jobj n)]) | None => None end
  end.
Proof. reflexivity. Qed.

(* get-after-set: a successful dotset is visible under the same name *)
Lemma pset_pget_same : forall p fs v fs', pset fs p v = Some fs' -> pget fs' p = Some v.
Proof.
  induction p as [|c rest IH]; intros fs v fs' H; [discriminate|].
  destruct rest as [|c2 rest].
  - rewrite pset_one in H. injection H as <-. rewrite pget_one. apply fget_fset_same.
  - rewrite pset_cons2 in H. rewrite pget_cons2.
    destruct (fget fs c) as [[| | | | |o]|] eqn:E; try discriminate.
    + destruct (pset o (c2 :: rest) v) as [o'|] eqn:P; [|discriminate]. injection H as <-.
      erewrite fget_freplace_same by eauto. eapply IH; eauto.
    + destruct (pset [] (c2 :: rest) v) as [n|] eqn:P; [|discriminate]. injection H as <-.
      rewrite fget_app, E. cbn [fget]. destruct (str_dec c c); [|contradiction]. eapply IH; eauto.
Qed.

(* two names that part at some component *)
Inductive diverge : list str -> list str -> Prop :=
| div_here a b p q : a <> b -> diverge (a :: p) (b :: q)
| div_next a p q : diverge p q -> diverge (a :: p) (a :: q).

Lemma diverge_nil_r p : ~ diverge p [].
Proof. intros H. inversion H. Qed.
Lemma diverge_nil_l p : ~ diverge [] p.
Proof. intros H. inversion H. Qed.

(* frame: names that part from the one set keep their value *)
Lemma pset_pget_other : forall p fs v fs' q, pset fs p v = Some fs' -> diverge p q -> pget fs' q = pget fs q.
Proof.
  induction p as [|c rest IH]; intros fs v fs' q H D; [discriminate|].
  destruct rest as [|c2 rest].
  - rewrite pset_one in H. injection H as <-.
    inversion D as [a b p0 q0 N|a p0 q0 D']; subst.
    + apply pget_head. apply fget_fset_other. congruence.
    + exfalso. eapply diverge_nil_l; eauto.
  - rewrite pset_cons2 in H.
    inversion D as [a b p0 q0 N|a p0 q0 D']; subst.
    + apply pget_head.
      destruct (fget fs c) as [[| | | | |o]|] eqn:E; try discriminate.
      * destruct (pset o (c2 :: rest) v) as [o'|]; [|discriminate]. injection H as <-.
        apply fget_freplace_other. congruence.
      * destruct (pset [] (c2 :: rest) v) as [n|]; [|discriminate]. injection H as <-.
        rewrite fget_app. destruct (fget fs b); [reflexivity|]. cbn [fget].
        destruct (str_dec c b); [congruence|reflexivity].
    + destruct q0 as [|d q0]; [exfalso; eapply diverge_nil_r; eauto|].
      rewrite !pget_cons2.
      destruct (fget fs c) as [[| | | | |o]|] eqn:E; try discriminate.
      * destruct (pset o (c2 :: rest) v) as [o'|] eqn:P; [|discriminate]. injection H as <-.
        erewrite fget_freplace_same by eauto. eapply IH; eauto.
      * destruct (pset [] (c2 :: rest) v) as [n|] eqn:P; [|discriminate]. injection H as <-.
        rewrite fget_app, E. cbn [fget]. destruct (str_dec c c); [|contradiction].
        erewrite IH by eauto. apply pget_nil_fields.
Qed.

(* every proper prefix of a name that was set names an object afterwards *)
Lemma pset_prefix_object : forall p c fs v fs', p <> [] -> pset fs (p ++ [c]) v = Some fs' ->
  exists o, pget fs' p = Some (jobj o).
Proof.
  induction p as [|a rest IH]; intros c fs v fs' N H; [contradiction|].
  destruct rest as [|b rest].
  - cbn [app] in H. rewrite pset_cons2, pset_one in H. rewrite pget_one.
    destruct (fget fs a) as [[| | | | |o]|] eqn:E; try discriminate.
    + injection H as <-. erewrite fget_freplace_same by eauto. eauto.
    + injection H as <-. rewrite fget_app, E. cbn [fget]. destruct (str_dec a a); [eauto|contradiction].
  - change ((a :: b :: rest) ++ [c]) with (a :: b :: (rest ++ [c])) in H.
    rewrite pset_cons2 in H. rewrite pget_cons2.
    destruct (fget fs a) as [[| | | | |o]|] eqn:E; try discriminate.
    + destruct (pset o (b :: rest ++ [c]) v) as [o'|] eqn:P; [|discriminate]. injection H as <-.
      erewrite fget_freplace_same by eauto. eapply (IH c o v o'); [discriminate|exact P].
    + destruct (pset [] (b :: rest ++ [c]) v) as [n|] eqn:P; [|discriminate]. injection H as <-.
      rewrite fget_app, E. cbn [fget]. destruct (str_dec a a); [|contradiction].
      eapply (IH c [] v n); [discriminate|exact P].
Qed.

(* a two-component name under an existing object can always be set *)
Lemma pset2_some fs a b0 b x v : pget fs [a; b0] = Some x -> exists fs', pset fs [a; b] v = Some fs'.
Proof.
  rewrite pget_cons2, pset_cons2. destruct (fget fs a) as [[| | | | |o]|]; try discriminate. intros _.
  rewrite pset_one. eauto.
Qed.
Lemma pset3_some fs a b c r v : pget fs [a; b] = Some (jobj r) -> exists fs', pset fs [a; b; c] v = Some fs'.
Proof.
  rewrite pget_cons2, pset_cons2. destruct (fget fs a) as [[| | | | |o]|]; try discriminate.
  rewrite pget_one. intros E. rewrite pset_cons2, E, pset_one. eauto.
Qed.

(* ------------------------------------------------------------------ the attribute API (B.3) *)
Lemma attr_get_set_same fs k v fs' : attr_set fs k v = Some fs' -> attr_get fs' k = Some v.
Proof. unfold attr_set, attr_get, dotset, dotget. apply pset_pget_same. Qed.

Lemma attr_get_set_other fs k v fs' k2 :
  attr_set fs k v = Some fs' -> diverge (split_dots k) (split_dots k2) -> attr_get fs' k2 = attr_get fs k2.
Proof. unfold attr_set, attr_get, dotset, dotget. apply pset_pget_other. Qed.

Lemma attr_has_set fs k v fs' : attr_set fs k v = Some fs' -> attr_has fs' k = true.
Proof. intros H. unfold attr_has. fold (attr_get fs' k). rewrite (attr_get_set_same _ _ _ _ H). reflexivity. Qed.

Lemma attr_get_has_after_set fs k v fs' :
  attr_set fs k v = Some fs' -> attr_get fs' k = Some v /\ attr_has fs' k = true.
Proof. intros H. split; [eapply attr_get_set_same|eapply attr_has_set]; exact H. Qed.

Lemma split_dots_cons k : exists c rest, split_dots k = c :: rest.
Proof. unfold split_dots. destruct (split_dots_ne k). eauto. Qed.

(* top-level frame: members other than the first component of the name are untouched *)
Lemma pset_top_other fs c rest v fs' c2 : pset fs (c :: rest) v = Some fs' -> c2 <> c -> fget fs' c2 = fget fs c2.
Proof.
  intros H N. rewrite <- !pget_one. eapply pset_pget_other; eauto. apply div_here. congruence.
Qed.

(* B.2, what the code guarantees: an attribute whose first component is neither "ovni" nor "version" leaves
   both members exactly as they were *)
Lemma user_attr_keeps_reserved fs k v fs' :
  user_key k = true -> attr_set fs k v = Some fs' ->
  fget fs' k_ovni = fget fs k_ovni /\ fget fs' k_version = fget fs k_version.
Proof.
  unfold user_key, attr_set, dotset. destruct (split_dots k) as [|c rest]; [discriminate|].
  destruct (str_dec c k_ovni); [discriminate|]. destruct (str_dec c k_version); [discriminate|].
  intros _ H. split; eapply pset_top_other; eauto.
Qed.

(* ------------------------------------------------------------------ facts a tree satisfies *)
Definition holds (fs : fields) (l : list (list str * json)) : Prop :=
  Forall (fun pv => pget fs (fst pv) = Some (snd pv)) l.

Lemma holds_pset fs p v fs' l :
  pset fs p v = Some fs' -> Forall (fun pv => diverge p (fst pv)) l -> holds fs l -> holds fs' l.
Proof.
  intros H D. unfold holds. induction l as [|pv l IH]; intros A; constructor; inversion A; inversion D; subst.
  - erewrite pset_pget_other; eauto.
  - auto.
Qed.

Definition core_list (c : cfg) (app : Z) (loom : str) (pid tid : Z) : list (list str * json) :=
  [([k_version], jnum 3);
   ([k_ovni; k_part], jstr k_thread);
   ([k_ovni; k_loom], jstr loom);
   ([k_ovni; k_pid], jnum pid);
   ([k_ovni; k_tid], jnum tid);
   ([k_ovni; k_app_id], jnum app);
   ([k_ovni; k_lib; k_version], jstr (c_lib_version c));
   ([k_ovni; k_lib; k_commit], jstr (c_lib_commit c))].

Ltac kneq := let H := fresh in intro H; vm_compute in H; discriminate H.
Ltac div1 := first [ apply div_here; solve [kneq | congruence] | apply div_next ].
Ltac forall_list := repeat (apply Forall_cons; [cbn [fst]|]); try apply Forall_nil.
Ltac divs := forall_list; repeat div1.

Section Run.
Variable c : cfg.
Variables (app : Z) (loom : str) (pid : Z).
Hypothesis cfg_ok : version_parse (Some (c_model_version c)) <> None.

Definition core tid := core_list c app loom pid tid.
Definition has_req (fs : fields) := exists r, pget fs [k_ovni; k_require] = Some (jobj r).
Definition unfinished (fs : fields) := pget fs [k_ovni; k_finished] = None.
(* only ovni_thread_free sets these *)
Definition pristine (fs : fields) :=
  pget fs [k_ovni; k_rank] = None /\ pget fs [k_ovni; k_nranks] = None /\ pget fs [k_ovni; k_loom_cpus] = None.
Definition complete (tid : Z) (j : json) :=
  exists fs, j = jobj fs /\ holds fs (core tid) /\ has_req fs /\ pget fs [k_ovni; k_finished] = Some (jnum 1).

Lemma complete_meta_ok tid j :
  complete tid j -> 0 < app -> 0 < pid -> 0 < tid -> existsb (Z.eqb SLASH) loom = false ->
  meta_check (to_loader_meta j) true = MetaOk /\ finished_mark j = JNum 1.
Proof.
  intros (fs & -> & H & (r & R) & F) Ha Hp Ht Hl.
  unfold holds, core, core_list in H.
  repeat match goal with A : Forall _ (_ :: _) |- _ => inversion A; clear A; subst end.
  cbn [fst snd] in *.
  unfold finished_mark, to_loader_meta.
  repeat match goal with A : pget _ _ = _ |- _ => rewrite A; clear A end.
  cbn [jv]. unfold meta_check.
  cbn [m_parses m_is_object m_version m_part m_loom m_pid m_tid m_app_id m_finished m_require m_lib_version m_lib_commit
       negb j_present j_number j_string j_is_object].
  change (3 =? METADATA_VERSION) with true. cbn [negb].
  change (list_Z_eqb k_thread str_thread) with true. cbn [negb].
  rewrite Hl.
  destruct (pid <=? 0) eqn:E1; [lia|]. destruct (app <=? 0) eqn:E2; [lia|]. destruct (tid <=? 0) eqn:E3; [lia|].
  cbn [andb]. change (1 =? 1) with true. cbn [negb]. auto.
Qed.

Definition nofin (j : json) : Prop := finished_mark j = JMissing.

Lemma nofin_obj fs : unfinished fs -> nofin (jobj fs).
Proof. unfold unfinished, nofin, finished_mark, to_loader_meta. cbn [m_finished]. intros ->. reflexivity. Qed.

Lemma require_ovni_eq fs v :
  require_tree fs k_ovni v =
  match version_parse (Some v) with None => None | Some _ => pset fs [k_ovni; k_require; k_ovni] (jstr v) end.
Proof. reflexivity. Qed.

(* ovni_thread_init: the tree stored and the tree kept *)
Lemma init_trees s tid : st_app s = app -> st_loom s = loom -> st_pid s = pid ->
  exists fs0 fs1, populate c s tid = Some fs0 /\ require_tree fs0 k_ovni (c_model_version c) = Some fs1 /\
    holds fs1 (core tid) /\ has_req fs1 /\ unfinished fs1 /\ nofin (jobj fs0) /\ pristine fs1.
Proof.
  destruct s as [pr a l p ts]. cbn [st_app st_loom st_pid]. intros -> -> ->.
  eexists. eexists. split; [vm_compute; reflexivity|].
  rewrite require_ovni_eq. destruct (version_parse (Some (c_model_version c))); [|contradiction].
  split; [vm_compute; reflexivity|].
  split; [repeat constructor|].
  split; [eexists; reflexivity|].
  split; [reflexivity|]. split; [reflexivity|]. repeat split.
Qed.

Lemma holds_ovni_obj fs tid : holds fs (core tid) -> pget fs [k_ovni; k_part] = Some (jstr k_thread).
Proof. intros H. inversion H as [|? ? _ H2]; subst. inversion H2; subst. assumption. Qed.

(* ovni_thread_require by a live thread with a well-formed model and version *)
Lemma require_ok fs tid m v :
  holds fs (core tid) -> has_req fs -> unfinished fs -> pristine fs ->
  live_op_ok (Require m v) = true ->
  exists fs', require_tree fs m v = Some fs' /\ holds fs' (core tid) /\ has_req fs' /\ unfinished fs' /\ pristine fs'.
Proof.
  intros H (r & R) U (Q1 & Q2 & Q3) L. unfold live_op_ok in L.
  apply andb_prop in L as [_ L]. apply andb_prop in L as [L L4]. apply andb_prop in L as [L L3].
  apply andb_prop in L as [L1 L2].
  unfold require_tree.
  apply negb_true_iff in L1. rewrite L1.
  destruct (length m <=? 1)%nat eqn:E1; [apply Nat.leb_le in E1; apply Nat.ltb_lt in L2; lia|].
  destruct (version_parse (Some v)); [|discriminate].
  destruct (128 <=? 13 + Z.of_nat (length m)) eqn:E2; [lia|].
  destruct (pset3_some fs k_ovni k_require m r (jstr v) R) as (fs' & P).
  exists fs'. split; [exact P|]. split; [|split; [|split]].
  - eapply holds_pset; [exact P| |exact H]. divs.
  - apply (pset_prefix_object [k_ovni; k_require] m fs (jstr v) fs'); [discriminate|exact P].
  - unfold unfinished. erewrite pset_pget_other; [exact U|exact P|]. repeat div1.
  - repeat split; (erewrite pset_pget_other; [eassumption|exact P|]; repeat div1).
Qed.

(* a user attribute leaves the reserved part alone *)
Lemma attr_ok fs tid k v fs' :
  holds fs (core tid) -> has_req fs -> unfinished fs -> pristine fs ->
  user_key k = true -> attr_set fs k v = Some fs' ->
  holds fs' (core tid) /\ has_req fs' /\ unfinished fs' /\ pristine fs'.
Proof.
  intros H (r & R) U (Q1 & Q2 & Q3) K P. unfold user_key, attr_set, dotset in *.
  destruct (split_dots k) as [|a rest]; [discriminate|].
  destruct (str_dec a k_ovni) as [|N1]; [discriminate|]. destruct (str_dec a k_version) as [|N2]; [discriminate|].
  split; [|split; [|split]].
  - eapply holds_pset; [exact P| |exact H]. forall_list; apply div_here; congruence.
  - exists r. erewrite pset_pget_other; [exact R|exact P|]. apply div_here; congruence.
  - unfold unfinished. erewrite pset_pget_other; [exact U|exact P|]. apply div_here; congruence.
  - repeat split; (erewrite pset_pget_other; [eassumption|exact P|]; apply div_here; congruence).
Qed.

(* a step of ovni_thread_free's tree updates: "ovni.<x>" for x outside the core keeps everything else *)
Lemma free_step fs tid x v :
  holds fs (core tid) -> has_req fs ->
  x <> k_part -> x <> k_loom -> x <> k_pid -> x <> k_tid -> x <> k_app_id -> x <> k_lib -> x <> k_require ->
  exists fs', pset fs [k_ovni; x] v = Some fs' /\ holds fs' (core tid) /\ has_req fs' /\
              (forall y, y <> x -> pget fs' [k_ovni; y] = pget fs [k_ovni; y]) /\ pget fs' [k_ovni; x] = Some v.
Proof.
  intros H (r & R) N1 N2 N3 N4 N5 N6 N7.
  destruct (pset2_some fs k_ovni k_part x _ v (holds_ovni_obj _ _ H)) as (fs' & P).
  exists fs'. split; [exact P|]. split; [|split; [|split]].
  - eapply holds_pset; [exact P| |exact H].
    forall_list; first [apply div_here; kneq | apply div_next; apply div_here; congruence].
  - exists r. erewrite pset_pget_other; [exact R|exact P|]. apply div_next, div_here. congruence.
  - intros y Ny. eapply pset_pget_other; [exact P|]. apply div_next, div_here. congruence.
  - eapply pset_pget_same; eauto.
Qed.

Lemma free_tree_ok t tid :
  holds (t_meta t) (core tid) -> has_req (t_meta t) ->
  exists fs', free_tree t = Some fs' /\ complete tid (jobj fs').
Proof.
  intros H R. unfold free_tree.
  assert (S1 : exists fs1, (match t_rank t with
                            | Some (r, n) => psets (t_meta t) [([k_ovni; k_rank], jnum r); ([k_ovni; k_nranks], jnum n)]
                            | None => Some (t_meta t) end) = Some fs1 /\ holds fs1 (core tid) /\ has_req fs1).
  { destruct (t_rank t) as [[r n]|]; [|eauto].
    destruct (free_step (t_meta t) tid k_rank (jnum r) H R) as (f1 & P1 & H1 & R1 & _); try discriminate.
    destruct (free_step f1 tid k_nranks (jnum n) H1 R1) as (f2 & P2 & H2 & R2 & _); try discriminate.
    exists f2. cbn [psets]. rewrite P1, P2. auto. }
  destruct S1 as (fs1 & -> & H1 & R1).
  assert (S2 : exists fs2, (match t_cpus t with
                            | [] => Some fs1
                            | _ :: _ => pset fs1 [k_ovni; k_loom_cpus] (jarr (map cpu_json (t_cpus t))) end) = Some fs2
                           /\ holds fs2 (core tid) /\ has_req fs2).
  { destruct (t_cpus t) as [|x l]; [eauto|].
    destruct (free_step fs1 tid k_loom_cpus (jarr (map cpu_json (x :: l))) H1 R1) as (f & P & H2 & R2 & _); try discriminate.
    eauto. }
  destruct S2 as (fs2 & -> & H2 & R2).
  destruct (free_step fs2 tid k_finished (jnum 1) H2 R2) as (f & P & H3 & R3 & _ & F); try discriminate.
  exists f. split; [exact P|]. exists f. auto.
Qed.

(* ------------------------------------------------------------------ what ovni_thread_free adds, read back by the merge *)
Lemma cpus_roundtrip cs : all_some (map cpu_of_json (map cpu_json cs)) = Some cs.
Proof.
  induction cs as [|[i p] r IH]; [reflexivity|].
  cbn [map]. change (cpu_of_json (cpu_json (i, p))) with (Some (i, p)). cbn [all_some]. rewrite IH. reflexivity.
Qed.

(* On the tree of a live thread in which rank, nranks and loom_cpus are still unset (only ovni_thread_free sets
   them; user attributes cannot, C02_user_attr_keeps_reserved), the store of ovni_thread_free reads back, through
   the emulator's look-ups, as exactly the identity of the thread, the rank set by this thread and the CPUs this
   thread registered, in order. *)
Lemma free_tree_stream_meta t tid :
  holds (t_meta t) (core tid) -> has_req (t_meta t) ->
  pget (t_meta t) [k_ovni; k_rank] = None -> pget (t_meta t) [k_ovni; k_nranks] = None ->
  pget (t_meta t) [k_ovni; k_loom_cpus] = None ->
  exists fs', free_tree t = Some fs' /\
    to_stream_meta (jobj fs') =
    Some (smeta loom pid tid app (t_rank t) (t_cpus t)) /\ complete tid (jobj fs').
Proof.
  intros H R N1 N2 N3. unfold free_tree, smeta.
  assert (S1 : exists fs1, (match t_rank t with
                            | Some (r, n) => psets (t_meta t) [([k_ovni; k_rank], jnum r); ([k_ovni; k_nranks], jnum n)]
                            | None => Some (t_meta t) end) = Some fs1 /\ holds fs1 (core tid) /\ has_req fs1 /\
                           pget fs1 [k_ovni; k_loom_cpus] = None /\
                           pget fs1 [k_ovni; k_rank] = (match t_rank t with Some (r, _) => Some (jnum r) | None => None end) /\
                           pget fs1 [k_ovni; k_nranks] = (match t_rank t with Some (_, n) => Some (jnum n) | None => None end)).
  { destruct (t_rank t) as [[r n]|]; [|exists (t_meta t); auto 10].
    destruct (free_step (t_meta t) tid k_rank (jnum r) H R) as (f1 & P1 & H1 & R1 & O1 & G1); try kneq.
    destruct (free_step f1 tid k_nranks (jnum n) H1 R1) as (f2 & P2 & H2 & R2 & O2 & G2); try kneq.
    exists f2. cbn [psets]. rewrite P1, P2. split; [reflexivity|]. split; [exact H2|]. split; [exact R2|].
    split; [rewrite O2 by kneq; rewrite O1 by kneq; exact N3|].
    split; [rewrite O2 by kneq; exact G1|exact G2]. }
  destruct S1 as (fs1 & -> & H1 & R1 & C1 & K1 & K2).
  assert (S2 : exists fs2, (match t_cpus t with
                            | [] => Some fs1
                            | _ :: _ => pset fs1 [k_ovni; k_loom_cpus] (jarr (map cpu_json (t_cpus t))) end) = Some fs2
                           /\ holds fs2 (core tid) /\ has_req fs2 /\
                           pget fs2 [k_ovni; k_rank] = pget fs1 [k_ovni; k_rank] /\
                           pget fs2 [k_ovni; k_nranks] = pget fs1 [k_ovni; k_nranks] /\
                           pget fs2 [k_ovni; k_loom_cpus] =
                             (match t_cpus t with [] => None | _ :: _ => Some (jarr (map cpu_json (t_cpus t))) end)).
  { destruct (t_cpus t) as [|x l]; [exists fs1; auto 10|].
    destruct (free_step fs1 tid k_loom_cpus (jarr (map cpu_json (x :: l))) H1 R1) as (f & P & H2 & R2 & O & G); try kneq.
    exists f. split; [exact P|]. split; [exact H2|]. split; [exact R2|].
    split; [apply O; kneq|]. split; [apply O; kneq|exact G]. }
  destruct S2 as (fs2 & -> & H2 & R2 & K3 & K4 & C2).
  destruct (free_step fs2 tid k_finished (jnum 1) H2 R2) as (f & P & H3 & R3 & O & G); try kneq.
  exists f. split; [exact P|]. split; [|exists f; auto].
  unfold holds, core, core_list in H3.
  repeat match goal with A : Forall _ (_ :: _) |- _ => inversion A; clear A; subst end.
  cbn [fst snd] in *.
  unfold to_stream_meta.
  rewrite (O k_loom_cpus) by kneq. rewrite (O k_rank) by kneq. rewrite (O k_nranks) by kneq.
  rewrite C2, K3, K4, K1, K2.
  repeat match goal with A : pget f _ = _ |- _ => rewrite A; clear A end.
  destruct (t_rank t) as [[r n]|]; destruct (t_cpus t) as [|x l]; cbn [num_of]; try reflexivity;
    rewrite cpus_roundtrip; reflexivity.
Qed.

(* ------------------------------------------------------------------ the state machine *)
Definition live_ok (t : thread) (tid : Z) : Prop :=
  t_ready t = true /\ t_finished t = false /\ t_tid t = tid /\
  holds (t_meta t) (core tid) /\ has_req (t_meta t) /\ unfinished (t_meta t) /\ pristine (t_meta t).
Definition wr_live (ws : list (Z * json)) (tid : Z) : Prop :=
  writes_for ws tid <> [] /\ Forall nofin (writes_for ws tid).
Definition wr_done (t : thread) (ws : list (Z * json)) (tid : Z) : Prop :=
  exists earlier last, writes_for ws tid = earlier ++ [last] /\ earlier <> [] /\ Forall nofin earlier /\ complete tid last /\
    to_stream_meta last = Some (smeta loom pid tid app (t_rank t) (t_cpus t)).
Definition known (ps : pstate) (tid : Z) : bool := existsb (fun e => fst (snd e) =? tid) ps.

Record Inv (s : state) (ws : list (Z * json)) (ps : pstate) : Prop := mkInv {
  i_proc : st_proc s = PReady; i_app : st_app s = app; i_loom : st_loom s = loom; i_pid : st_pid s = pid;
  i_none : forall th, plook ps th = None -> tget (st_threads s) th = thread0;
  i_live : forall th tid, plook ps th = Some (tid, false) -> live_ok (tget (st_threads s) th) tid /\ wr_live ws tid;
  i_done : forall th tid, plook ps th = Some (tid, true) ->
           t_finished (tget (st_threads s) th) = true /\ t_ready (tget (st_threads s) th) = false /\
           wr_done (tget (st_threads s) th) ws tid;
  i_tids : forall th1 th2 tid f1 f2, plook ps th1 = Some (tid, f1) -> plook ps th2 = Some (tid, f2) -> th1 = th2;
  i_ws : forall w, In w ws -> known ps (fst w) = true
}.

Lemma tget_tset_same s th t : tget (st_threads (tset s th t)) th = t.
Proof. cbn [tset st_threads tget]. rewrite Nat.eqb_refl. reflexivity. Qed.
Lemma tget_tset_other s th t th' : th' <> th -> tget (st_threads (tset s th t)) th' = tget (st_threads s) th'.
Proof. intros N. cbn [tset st_threads tget]. destruct (Nat.eqb th th') eqn:E; [apply Nat.eqb_eq in E; congruence|reflexivity]. Qed.

Lemma writes_for_app ws t j tid :
  writes_for (ws ++ [(t, j)]) tid = if t =? tid then writes_for ws tid ++ [j] else writes_for ws tid.
Proof.
  unfold writes_for. rewrite filter_app, map_app. cbn [filter fst]. destruct (t =? tid); cbn [map snd]; [reflexivity|apply app_nil_r].
Qed.

Lemma plook_cons th x ps th' : plook ((th, x) :: ps) th' = if Nat.eqb th th' then Some x else plook ps th'.
Proof. reflexivity. Qed.

Lemma plook_known ps th tid f : plook ps th = Some (tid, f) -> known ps tid = true.
Proof.
  unfold known. induction ps as [|[n x] r IH]; cbn [plook existsb]; [discriminate|].
  destruct (Nat.eqb n th).
  - intros H. injection H as ->. cbn [fst snd]. rewrite Z.eqb_refl. reflexivity.
  - intros H. rewrite (IH H). apply orb_true_r.
Qed.

Lemma plook_in ps th x : plook ps th = Some x -> exists e, In e ps /\ fst e = th.
Proof.
  induction ps as [|[n y] r IH]; cbn [plook]; [discriminate|].
  destruct (Nat.eqb n th) eqn:E.
  - intros _. exists (n, y). split; [left; reflexivity|apply Nat.eqb_eq in E; exact E].
  - intros H. destruct (IH H) as (e & I & F). exists e. split; [right; exact I|exact F].
Qed.

Lemma writes_unknown ws ps tid :
  (forall w, In w ws -> known ps (fst w) = true) -> known ps tid = false -> writes_for ws tid = [].
Proof.
  intros K U. unfold writes_for. induction ws as [|[t j] r IH]; [reflexivity|].
  cbn [filter fst]. destruct (t =? tid) eqn:E.
  - apply Z.eqb_eq in E. subst t. specialize (K (tid, j) (or_introl eq_refl)). cbn [fst] in K. congruence.
  - apply IH. intros w I. apply K. right. exact I.
Qed.

(* a thread-local update of a live thread, nothing written *)
Lemma inv_upd s ws ps th tid t' :
  Inv s ws ps -> plook ps th = Some (tid, false) -> live_ok t' tid -> Inv (tset s th t') ws ps.
Proof.
  intros I P L. destruct I as [I1 I2 I3 I4 I5 I6 I7 I8 I9].
  constructor; try assumption.
  - intros th' N. rewrite tget_tset_other; [auto|]. intros ->. congruence.
  - intros th' tid' P'. destruct (Nat.eq_dec th' th) as [->|N].
    + rewrite tget_tset_same. rewrite P in P'. injection P' as <-. split; [exact L|]. apply (I6 th tid P).
    + rewrite tget_tset_other by exact N. auto.
  - intros th' tid' P'. rewrite tget_tset_other; [auto|]. intros ->. congruence.
Qed.

(* a store by a live thread of a tree without "ovni.finished" *)
Lemma inv_write_live s ws ps th tid j :
  Inv s ws ps -> plook ps th = Some (tid, false) -> nofin j -> Inv s (ws ++ [(tid, j)]) ps.
Proof.
  intros I P NF. destruct I as [I1 I2 I3 I4 I5 I6 I7 I8 I9].
  constructor; try assumption.
  - intros th' tid' P'. destruct (I6 th' tid' P') as (L & W1 & W2). split; [exact L|].
    unfold wr_live. rewrite writes_for_app. destruct (tid =? tid') eqn:E; [|split; assumption].
    split; [destruct (writes_for ws tid'); discriminate|].
    apply Forall_app. split; [exact W2|constructor; [exact NF|constructor]].
  - intros th' tid' P'. destruct (I7 th' tid' P') as (A & B & W). split; [exact A|]. split; [exact B|].
    unfold wr_done. rewrite writes_for_app. destruct (tid =? tid') eqn:E; [|exact W].
    apply Z.eqb_eq in E. subst tid'. pose proof (I8 _ _ _ _ _ P P'). subst th'. congruence.
  - intros w X. apply in_app_or in X as [X|[<-|[]]]; [auto|]. cbn [fst]. eapply plook_known; eauto.
Qed.

Definition wopt (w : option (Z * json)) : list (Z * json) := match w with Some x => [x] | None => [] end.
Definition tagprop (ow : op * (Z * json)) : Prop := finished_mark (snd (snd ow)) = JNum 1 <-> fst ow = ThreadFree.
Definition wprop (o : op) (w : option (Z * json)) : Prop :=
  match w with Some x => tagprop (o, x) | None => True end.

Lemma proc_ready_inv s ws ps : Inv s ws ps -> proc_ready s = true.
Proof. intros I. unfold proc_ready. rewrite (i_proc _ _ _ I). reflexivity. Qed.

Lemma nofin_tag o x : nofin (snd x) -> o <> ThreadFree -> tagprop (o, x).
Proof. unfold nofin, tagprop. cbn [fst snd]. intros ->. split; [discriminate|contradiction]. Qed.

(* one call of a protocol-following program: it either aborts inside an attribute call, or returns, keeps the
   invariant, and stores "ovni.finished" exactly when it is ovni_thread_free *)
Lemma step_conf s ws ps th o ps' :
  Inv s ws ps -> conf_step ps th o = Some ps' ->
  (step c s th o = ODie /\ is_attr_op o = true) \/
  (exists s' w obs, step c s th o = ODone s' w obs /\ Inv s' (ws ++ wopt w) ps' /\ wprop o w).
Proof.
  intros I CS. pose proof (proc_ready_inv _ _ _ I) as PR.
  unfold conf_step in CS.
  destruct (plook ps th) as [[tid [|]]|] eqn:PL.
  - (* freed thread: nothing is allowed *)
    destruct o; discriminate.
  - (* live thread *)
    destruct (i_live _ _ _ I th tid PL) as ((Hr & Hf & Ht & Hh & Hq & Hu & Hp) & WL).
    pose proof Hp as (Hp1 & Hp2 & Hp3).
    assert (LIVE : live_ok (tget (st_threads s) th) tid) by (repeat split; assumption).
    destruct o; try discriminate;
      try (destruct (live_op_ok _) eqn:LO in CS; [|discriminate]; injection CS as <-;
           pose proof LO as LO'; unfold live_op_ok in LO'; apply andb_prop in LO' as [D LO'];
           unfold step; rewrite D; cbn [negb]; cbv beta iota zeta; try discriminate LO').
    + (* ProcSetRank *)
      rewrite PR, Hr. cbn [negb]. right. do 3 eexists. split; [reflexivity|]. split; [|exact Logic.I].
      cbn [wopt]. rewrite app_nil_r. eapply inv_upd; eauto. repeat split; assumption.
    + (* AddCpu *)
      apply andb_prop in LO' as [A B].
      destruct (index <? 0) eqn:E1; [lia|]. destruct (phyid <? 0) eqn:E2; [lia|].
      rewrite PR, Hr. cbn [negb]. right. do 3 eexists. split; [reflexivity|]. split; [|exact Logic.I].
      cbn [wopt]. rewrite app_nil_r. eapply inv_upd; eauto. repeat split; assumption.
    + (* Require *)
      rewrite Hr. cbn [negb].
      destruct (require_ok _ tid model version Hh Hq Hu Hp LO) as (fs' & -> & H1 & H2 & H3 & (H4 & H5 & H6)).
      right. do 3 eexists. split; [reflexivity|]. split; [|exact Logic.I].
      cbn [wopt]. rewrite app_nil_r. eapply inv_upd; eauto. repeat split; assumption.
    + (* AttrSetStr *)
      unfold attr_store, attr_gate. rewrite Hr, Hf. cbn [negb andb].
      destruct (attr_set _ key (jstr v)) as [fs'|] eqn:A; [|left; split; reflexivity].
      destruct (attr_ok _ tid _ _ _ Hh Hq Hu Hp LO' A) as (H1 & H2 & H3 & (H4 & H5 & H6)).
      right. do 3 eexists. split; [reflexivity|]. split; [|exact Logic.I].
      cbn [wopt]. rewrite app_nil_r. eapply inv_upd; eauto. repeat split; assumption.
    + (* AttrSetDouble *)
      unfold attr_store, attr_gate. rewrite Hr, Hf. cbn [negb andb].
      destruct (attr_set _ key (jnum v)) as [fs'|] eqn:A; [|left; split; reflexivity].
      destruct (attr_ok _ tid _ _ _ Hh Hq Hu Hp LO' A) as (H1 & H2 & H3 & (H4 & H5 & H6)).
      right. do 3 eexists. split; [reflexivity|]. split; [|exact Logic.I].
      cbn [wopt]. rewrite app_nil_r. eapply inv_upd; eauto. repeat split; assumption.
    + (* AttrSetBool *)
      unfold attr_store, attr_gate. rewrite Hr, Hf. cbn [negb andb].
      destruct (attr_set _ key (jbool b)) as [fs'|] eqn:A; [|left; split; reflexivity].
      destruct (attr_ok _ tid _ _ _ Hh Hq Hu Hp LO' A) as (H1 & H2 & H3 & (H4 & H5 & H6)).
      right. do 3 eexists. split; [reflexivity|]. split; [|exact Logic.I].
      cbn [wopt]. rewrite app_nil_r. eapply inv_upd; eauto. repeat split; assumption.
    + (* AttrSetJson *)
      unfold attr_gate. rewrite Hr, Hf. cbn [negb andb].
      destruct (json_parses v); cbn [negb]; [|left; split; reflexivity].
      unfold attr_store, attr_gate. rewrite Hr, Hf. cbn [negb andb].
      destruct (attr_set _ key v) as [fs'|] eqn:A; [|left; split; reflexivity].
      destruct (attr_ok _ tid _ _ _ Hh Hq Hu Hp LO' A) as (H1 & H2 & H3 & (H4 & H5 & H6)).
      right. do 3 eexists. split; [reflexivity|]. split; [|exact Logic.I].
      cbn [wopt]. rewrite app_nil_r. eapply inv_upd; eauto. repeat split; assumption.
    + (* AttrHas *)
      unfold attr_gate. rewrite Hr, Hf. cbn [negb andb].
      right. do 3 eexists. split; [reflexivity|]. split; [|exact Logic.I]. cbn [wopt]. rewrite app_nil_r. exact I.
    + (* AttrGetStr *)
      unfold attr_read, attr_gate. rewrite Hr, Hf. cbn [negb andb].
      destruct (attr_get _ key) as [[| | | | |]|]; try (left; split; reflexivity).
      right. do 3 eexists. split; [reflexivity|]. split; [|exact Logic.I]. cbn [wopt]. rewrite app_nil_r. exact I.
    + (* AttrGetDouble *)
      unfold attr_read, attr_gate. rewrite Hr, Hf. cbn [negb andb].
      destruct (attr_get _ key) as [[| | | | |]|]; try (left; split; reflexivity).
      right. do 3 eexists. split; [reflexivity|]. split; [|exact Logic.I]. cbn [wopt]. rewrite app_nil_r. exact I.
    + (* AttrGetBool *)
      unfold attr_read, attr_gate. rewrite Hr, Hf. cbn [negb andb].
      destruct (attr_get _ key) as [[| | | | |]|]; try (left; split; reflexivity).
      right. do 3 eexists. split; [reflexivity|]. split; [|exact Logic.I]. cbn [wopt]. rewrite app_nil_r. exact I.
    + (* AttrGetJson *)
      unfold attr_read, attr_gate. rewrite Hr, Hf. cbn [negb andb].
      destruct (attr_get _ key) as [x|]; [|left; split; reflexivity].
      right. do 3 eexists. split; [reflexivity|]. split; [|exact Logic.I]. cbn [wopt]. rewrite app_nil_r. exact I.
    + (* AttrFlush *)
      rewrite Hf, Hr. cbn [negb].
      right. do 3 eexists. split; [reflexivity|]. rewrite Ht. cbn [wopt wprop]. split.
      * eapply inv_write_live; eauto. apply nofin_obj. exact Hu.
      * apply nofin_tag; [apply nofin_obj; exact Hu|discriminate].
    + (* Flush *)
      rewrite Hr, PR. cbn [negb].
      right. do 3 eexists. split; [reflexivity|]. split; [|exact Logic.I]. cbn [wopt]. rewrite app_nil_r. exact I.
    + (* ThreadFree *)
      injection CS as <-. unfold step. cbn [in_dom negb]. cbv beta iota zeta.
      rewrite Hf, Hr. cbn [negb].
      destruct (free_tree_stream_meta _ tid Hh Hq Hp1 Hp2 Hp3) as (fs' & -> & SM & CO).
      right. do 3 eexists. split; [reflexivity|]. rewrite Ht. cbn [wopt wprop]. split.
      * destruct I as [I1 I2 I3 I4 I5 I6 I7 I8 I9].
        constructor; try assumption.
        -- intros th' N. rewrite plook_cons in N. destruct (Nat.eqb th th') eqn:E; [discriminate|].
           rewrite tget_tset_other; [auto|]. intros ->. rewrite Nat.eqb_refl in E. discriminate.
        -- intros th' tid' P'. rewrite plook_cons in P'. destruct (Nat.eqb th th') eqn:E; [discriminate|].
           assert (N : th' <> th) by (intros ->; rewrite Nat.eqb_refl in E; discriminate).
           rewrite tget_tset_other by exact N. destruct (I6 th' tid' P') as (L & W1 & W2). split; [exact L|].
           unfold wr_live. rewrite writes_for_app. destruct (tid =? tid') eqn:E2; [|split; assumption].
           apply Z.eqb_eq in E2. subst tid'. pose proof (I8 _ _ _ _ _ PL P'). congruence.
        -- intros th' tid' P'. rewrite plook_cons in P'. destruct (Nat.eqb th th') eqn:E.
           ++ apply Nat.eqb_eq in E. subst th'. injection P' as <-. rewrite tget_tset_same. cbn [t_finished t_ready].
              split; [reflexivity|]. split; [reflexivity|].
              unfold wr_done. rewrite writes_for_app, Z.eqb_refl. destruct WL as (W1 & W2).
              exists (writes_for ws tid), (jobj fs'). cbn [t_rank t_cpus]. auto 7.
           ++ assert (N : th' <> th) by (intros ->; rewrite Nat.eqb_refl in E; discriminate).
              rewrite tget_tset_other by exact N. destruct (I7 th' tid' P') as (A & B & W). split; [exact A|]. split; [exact B|].
              unfold wr_done. rewrite writes_for_app. destruct (tid =? tid') eqn:E2; [|exact W].
              apply Z.eqb_eq in E2. subst tid'. pose proof (I8 _ _ _ _ _ PL P'). congruence.
        -- intros th1 th2 t0 f1 f2 P1 P2. rewrite plook_cons in P1, P2.
           destruct (Nat.eqb th th1) eqn:E1; destruct (Nat.eqb th th2) eqn:E2.
           ++ apply Nat.eqb_eq in E1, E2. congruence.
           ++ apply Nat.eqb_eq in E1. subst th1. injection P1 as <- _. eapply I8; eauto.
           ++ apply Nat.eqb_eq in E2. subst th2. injection P2 as <- _. eapply I8; eauto.
           ++ eapply I8; eauto.
        -- intros w X. unfold known. cbn [existsb]. apply in_app_or in X as [X|[<-|[]]].
           ++ fold (known ps (fst w)). rewrite (I9 w X). apply orb_true_r.
           ++ cbn [fst snd]. rewrite Z.eqb_refl. reflexivity.
      * unfold tagprop. cbn [fst snd]. split; [reflexivity|]. intros _.
        destruct CO as (fs'' & E & H1 & H2 & H3). injection E as <-.
        unfold finished_mark, to_loader_meta. cbn [m_finished]. rewrite H3. reflexivity.
  - (* new thread: only ovni_thread_init *)
    destruct o; try discriminate.
    destruct (i32 tid && (0 <? tid) && negb (existsb (fun e => fst (snd e) =? tid) ps)) eqn:G; [|discriminate].
    injection CS as <-.
    apply andb_prop in G as [G G3]. apply andb_prop in G as [G1 G2]. apply negb_true_iff in G3. fold (known ps tid) in G3.
    pose proof (i_none _ _ _ I th PL) as T0.
    unfold step. cbn [in_dom]. rewrite G1. cbn [negb]. cbv beta iota zeta. rewrite T0. cbn [thread0 t_ready t_finished].
    destruct (tid =? 0) eqn:E0; [lia|]. rewrite PR. cbn [negb].
    destruct (init_trees s tid (i_app _ _ _ I) (i_loom _ _ _ I) (i_pid _ _ _ I)) as (fs0 & fs1 & -> & -> & H1 & H2 & H3 & H4 & (H5 & H6 & H7)).
    right. do 3 eexists. split; [reflexivity|]. cbn [wopt wprop]. split.
    + pose proof (writes_unknown ws ps tid (i_ws _ _ _ I) G3) as WN.
      destruct I as [I1 I2 I3 I4 I5 I6 I7 I8 I9].
      constructor; try assumption.
      * intros th' N. rewrite plook_cons in N. destruct (Nat.eqb th th') eqn:E; [discriminate|].
        rewrite tget_tset_other; [auto|]. intros ->. rewrite Nat.eqb_refl in E. discriminate.
      * intros th' tid' P'. rewrite plook_cons in P'. destruct (Nat.eqb th th') eqn:E.
        -- apply Nat.eqb_eq in E. subst th'. injection P' as <-. rewrite tget_tset_same.
           split; [repeat split; assumption|].
           unfold wr_live. rewrite writes_for_app, Z.eqb_refl, WN. split; [discriminate|]. constructor; [exact H4|constructor].
        -- assert (N : th' <> th) by (intros ->; rewrite Nat.eqb_refl in E; discriminate).
           rewrite tget_tset_other by exact N. destruct (I6 th' tid' P') as (L & W1 & W2). split; [exact L|].
           unfold wr_live. rewrite writes_for_app. destruct (tid =? tid') eqn:E2; [|split; assumption].
           apply Z.eqb_eq in E2. subst tid'. rewrite (plook_known _ _ _ _ P') in G3. discriminate.
      * intros th' tid' P'. rewrite plook_cons in P'. destruct (Nat.eqb th th') eqn:E; [discriminate|].
        assert (N : th' <> th) by (intros ->; rewrite Nat.eqb_refl in E; discriminate).
        rewrite tget_tset_other by exact N. destruct (I7 th' tid' P') as (A & B & W). split; [exact A|]. split; [exact B|].
        unfold wr_done. rewrite writes_for_app. destruct (tid =? tid') eqn:E2; [|exact W].
        apply Z.eqb_eq in E2. subst tid'. rewrite (plook_known _ _ _ _ P') in G3. discriminate.
      * intros th1 th2 t0 f1 f2 P1 P2. rewrite plook_cons in P1, P2.
        destruct (Nat.eqb th th1) eqn:E1; destruct (Nat.eqb th th2) eqn:E2.
        -- apply Nat.eqb_eq in E1, E2. congruence.
        -- injection P1 as <- _. rewrite (plook_known _ _ _ _ P2) in G3. discriminate.
        -- injection P2 as <- _. rewrite (plook_known _ _ _ _ P1) in G3. discriminate.
        -- eapply I8; eauto.
      * intros w X. unfold known. cbn [existsb]. apply in_app_or in X as [X|[<-|[]]].
        -- fold (known ps (fst w)). rewrite (I9 w X). apply orb_true_r.
        -- cbn [fst snd]. rewrite Z.eqb_refl. reflexivity.
    + apply nofin_tag; [exact H4|discriminate].
Qed.

(* rthread.cpus and rthread.rank only change by ovni_add_cpu / ovni_proc_set_rank of that thread (the memset of
   ovni_thread_init hits a thread that has neither) *)
Ltac brk H :=
  repeat match type of H with
         | context [if ?b then _ else _] => destruct b eqn:?
         | context [match ?x with _ => _ end] => destruct x eqn:?
         end; try discriminate H.

Lemma step_tracks s th o s' w obs :
  step c s th o = ODone s' w obs ->
  (forall tid, o = ThreadInit tid -> t_ready (tget (st_threads s) th) = false ->
     t_cpus (tget (st_threads s) th) = [] /\ t_rank (tget (st_threads s) th) = None) ->
  forall th', t_cpus (tget (st_threads s') th') = t_cpus (tget (st_threads s) th') ++ cpus_added [(th, o)] th' /\
              t_rank (tget (st_threads s') th') = rank_step (t_rank (tget (st_threads s) th')) (th, o) th'.
Proof.
  intros H F th'. unfold step in H. destruct (in_dom o); cbn [negb] in H; [|discriminate].
  unfold cpus_added, rank_step. cbn [flat_map fst snd List.app].
  destruct o; unfold attr_store, attr_read in H; brk H; injection H as <- <- <-;
    try (rewrite app_nil_r; split; reflexivity);
    try (cbn [st_threads]; rewrite app_nil_r; split; reflexivity);
    cbn [tset st_threads tget]; destruct (Nat.eqb th th') eqn:E;
    try (apply Nat.eqb_eq in E; subst th'); cbn [t_cpus t_rank with_meta];
    rewrite ?app_nil_r; try (split; reflexivity).
  destruct (F tid eq_refl eq_refl) as (F1 & F2). rewrite F1, F2. split; reflexivity.
Qed.

(* the call at which a run stopped (aborted or left the modelled domain) *)
Fixpoint stop_op (p : prog) (evs : list ev) : option op :=
  match p, evs with
  | (_, o) :: p', e :: e' => if ev_ok e then stop_op p' e' else Some o
  | _, _ => None
  end.

Definition wstate (s : state) (ws : list (Z * json)) (ps : pstate) : Prop :=
  forall th tid f, plook ps th = Some (tid, f) ->
    if f then wr_done (tget (st_threads s) th) ws tid else wr_live ws tid.

Lemma inv_wstate s ws ps : Inv s ws ps -> wstate s ws ps.
Proof.
  intros I th tid [|] P; [apply (i_done _ _ _ I th tid P)|apply (i_live _ _ _ I th tid P)].
Qed.

Lemma writes_cons th o r w obs l : writes ((th, o) :: r) (EvOk w obs :: l) = wopt w ++ writes r l.
Proof. unfold writes. cbn [tagged]. destruct w; reflexivity. Qed.

Lemma init_fresh s ws ps th o ps1 tid :
  Inv s ws ps -> conf_step ps th o = Some ps1 -> o = ThreadInit tid -> t_ready (tget (st_threads s) th) = false ->
  t_cpus (tget (st_threads s) th) = [] /\ t_rank (tget (st_threads s) th) = None.
Proof.
  intros I CS -> NR. unfold conf_step in CS. destruct (plook ps th) as [[t0 [|]]|] eqn:PL; [discriminate| |].
  - destruct (i_live _ _ _ I th t0 PL) as ((Hr & _) & _). congruence.
  - rewrite (i_none _ _ _ I th PL). split; reflexivity.
Qed.

Lemma body_run : forall body s ws ps ps' thk evs sf,
  Inv s ws ps -> conf_body ps body = Some ps' ->
  run_from c s (body ++ [(thk, ProcFini)]) = (evs, sf) ->
  (forall o, stop_op (body ++ [(thk, ProcFini)]) evs = Some o -> is_attr_op o = true) /\
  (completed evs = true ->
   length evs = length (body ++ [(thk, ProcFini)]) /\
   wstate sf (ws ++ writes (body ++ [(thk, ProcFini)]) evs) ps' /\
   Forall tagprop (tagged (body ++ [(thk, ProcFini)]) evs) /\
   forall th', t_cpus (tget (st_threads sf) th') = t_cpus (tget (st_threads s) th') ++ cpus_added body th' /\
               t_rank (tget (st_threads sf) th') = rank_from (t_rank (tget (st_threads s) th')) body th').
Proof.
  induction body as [|[th o] r IH]; intros s ws ps ps' thk evs sf I CB R.
  - cbn [conf_body] in CB. injection CB as <-. cbn [List.app run_from] in R.
    unfold step in R. cbn [in_dom negb] in R. rewrite (proc_ready_inv _ _ _ I) in R. injection R as <- <-.
    cbn [List.app stop_op ev_ok completed forallb]. split; [discriminate|]. intros _.
    split; [reflexivity|]. split; [|split; [constructor|]].
    + unfold writes. cbn [tagged map]. rewrite app_nil_r.
      intros th tid f P. exact (inv_wstate _ _ _ I th tid f P).
    + intros th'. cbn [st_threads]. unfold cpus_added, rank_from. cbn [flat_map fold_left]. rewrite app_nil_r. auto.
  - cbn [conf_body] in CB. destruct (conf_step ps th o) as [ps1|] eqn:CS; [|discriminate].
    change (((th, o) :: r) ++ [(thk, ProcFini)]) with ((th, o) :: (r ++ [(thk, ProcFini)])) in *.
    cbn [run_from] in R.
    destruct (step_conf s ws ps th o ps1 I CS) as [(D & A)|(s' & w & obs & D & I' & WP)]; rewrite D in R.
    + injection R as <- <-. cbn [stop_op ev_ok completed forallb andb]. split; [|discriminate].
      intros o' E. injection E as <-. exact A.
    + destruct (run_from c s' (r ++ [(thk, ProcFini)])) as [l sf'] eqn:R'. injection R as <- <-.
      destruct (IH s' (ws ++ wopt w) ps1 ps' thk l sf' I' CB R') as (S & C).
      cbn [stop_op ev_ok completed forallb andb]. split; [exact S|].
      intros CO. destruct (C CO) as (L & W & T & K). split; [cbn [length]; congruence|].
      rewrite writes_cons, app_assoc. split; [exact W|]. split.
      * cbn [tagged]. destruct w as [x|]; [constructor; [exact WP|exact T]|exact T].
      * intros th'. destruct (K th') as (K1 & K2).
        destruct (step_tracks s th o s' w obs D (fun tid E N => init_fresh s ws ps th o ps1 tid I CS E N) th') as (T1 & T2).
        rewrite K1, K2, T1, T2. split.
        -- rewrite <- app_assoc. f_equal. unfold cpus_added. cbn [flat_map]. rewrite app_nil_r. reflexivity.
        -- reflexivity.
Qed.

(* the protocol state after the body knows every initialised thread *)
Lemma conf_step_mono ps th o ps1 th' tid f :
  conf_step ps th o = Some ps1 -> plook ps th' = Some (tid, f) -> exists f', plook ps1 th' = Some (tid, f').
Proof.
  unfold conf_step. intros CS P.
  destruct (plook ps th) as [[t0 [|]]|] eqn:PL.
  - destruct o; discriminate.
  - assert (K : ps1 = ps \/ ps1 = (th, (t0, true)) :: ps).
    { destruct o; try discriminate; try (destruct (live_op_ok _); [|discriminate]); injection CS as <-; auto. }
    destruct K as [->| ->]; [eauto|].
    rewrite plook_cons. destruct (Nat.eqb th th') eqn:E; [|eauto].
    apply Nat.eqb_eq in E. subst th'. rewrite PL in P. injection P as <- <-. eauto.
  - destruct o; try discriminate.
    destruct (i32 tid0 && (0 <? tid0) && negb (existsb (fun e => fst (snd e) =? tid0) ps)); [|discriminate].
    injection CS as <-. rewrite plook_cons. destruct (Nat.eqb th th') eqn:E; [|eauto].
    apply Nat.eqb_eq in E. subst th'. congruence.
Qed.

Lemma conf_body_mono : forall body ps ps' th tid f,
  conf_body ps body = Some ps' -> plook ps th = Some (tid, f) -> exists f', plook ps' th = Some (tid, f').
Proof.
  induction body as [|[th0 o] r IH]; intros ps ps' th tid f CB P.
  - injection CB as <-. eauto.
  - cbn [conf_body] in CB. destruct (conf_step ps th0 o) as [ps1|] eqn:CS; [|discriminate].
    destruct (conf_step_mono _ _ _ _ _ _ _ CS P) as (f1 & P1). eapply IH; eauto.
Qed.

Lemma conf_body_inits : forall body ps ps' th tid,
  conf_body ps body = Some ps' -> In (th, ThreadInit tid) body -> exists f, plook ps' th = Some (tid, f).
Proof.
  induction body as [|[th0 o] r IH]; intros ps ps' th tid CB X; [destruct X|].
  cbn [conf_body] in CB. destruct (conf_step ps th0 o) as [ps1|] eqn:CS; [|discriminate].
  destruct X as [E|X]; [|eapply IH; eauto].
  injection E as -> ->.
  assert (P1 : plook ps1 th = Some (tid, false)).
  { unfold conf_step in CS. destruct (plook ps th) as [[t0 [|]]|]; try discriminate.
    - unfold live_op_ok in CS. rewrite andb_false_r in CS. discriminate.
    - destruct (i32 tid && (0 <? tid) && negb (existsb (fun e => fst (snd e) =? tid) ps)); [|discriminate].
      injection CS as <-. rewrite plook_cons, Nat.eqb_refl. reflexivity. }
  eapply conf_body_mono; eauto.
Qed.

Lemma all_freed_true ps th tid f : all_freed ps = true -> plook ps th = Some (tid, f) -> f = true.
Proof.
  intros A P. destruct (plook_in _ _ _ P) as (e & X & F).
  unfold all_freed in A. rewrite forallb_forall in A. specialize (A e X). rewrite F, P in A.
  destruct f; [reflexivity|discriminate].
Qed.
End Run.

(* ------------------------------------------------------------------ B.1: the metadata is complete *)
Definition last_write_complete (ws : list (Z * json)) (tid : Z) : Prop :=
  exists earlier last,
    writes_for ws tid = earlier ++ [last] /\
    earlier <> [] /\                                            (* the store of ovni_thread_init is there *)
    Forall (fun j => finished_mark j = JMissing) earlier /\     (* no earlier content of the file says finished *)
    meta_check (to_loader_meta last) true = MetaOk /\
    finished_mark last = JNum 1.

Lemma metadata_complete_gen : forall c p evs sf,
  version_parse (Some (c_model_version c)) <> None ->
  meta_conformant p = true ->
  run c p = (evs, sf) ->
  exists th0 app loom pid rest, p = (th0, ProcInit app loom pid) :: rest /\ 0 < app /\ 0 < pid /\
    existsb (Z.eqb SLASH) loom = false /\
  (* the run leaves the model's domain nowhere and aborts, if at all, inside an attribute call *)
  (forall o, stop_op p evs = Some o -> is_attr_op o = true) /\
  (completed evs = true ->
   length evs = length p /\
   (* "ovni.finished" is stored by ovni_thread_free and by no other call *)
   Forall tagprop (tagged p evs) /\
   (* every thread's file ends complete *)
   forall th tid, In (th, ThreadInit tid) p ->
     0 < tid /\ exists earlier last, writes_for (writes p evs) tid = earlier ++ [last] /\ earlier <> [] /\
       Forall nofin earlier /\ complete c app loom pid tid last /\
       to_stream_meta last = Some (smeta loom pid tid app (rank_set p th) (cpus_added p th))).
Proof.
  intros c p evs sf CFG MC R.
  unfold meta_conformant in MC.
  destruct p as [|[th0 o0] rest]; [discriminate|].
  destruct o0; try discriminate.
  apply andb_prop in MC as [MC Hm]. apply andb_prop in MC as [MC Hloom]. apply andb_prop in MC as [MC Hpid0].
  apply andb_prop in MC as [MC Happ0]. apply andb_prop in MC as [Happ32 Hpid32].
  destruct (rev rest) as [|[thk ok] rbody] eqn:RV; [discriminate|].
  destruct ok; try discriminate.
  destruct (conf_body [] (rev rbody)) as [psf|] eqn:CB; [|discriminate].
  rename Hm into H.
  assert (RE : rest = rev rbody ++ [(thk, ProcFini)]).
  { rewrite <- (rev_involutive rest), RV. reflexivity. }
  set (body := rev rbody) in *. clearbody body. subst rest.
  unfold loom_ok in Hloom. apply andb_prop in Hloom as [Hloom Hlen]. apply andb_prop in Hloom as [Hascii Hslash].
  unfold run in R. cbn [run_from] in R.
  assert (ST : step c st0 th0 (ProcInit app loom pid) = ODone (mkSt PReady app loom pid []) None None).
  { unfold step. cbn [in_dom]. rewrite Happ32, Hpid32, Hascii, Hslash, Hlen. cbn [andb orb negb].
    cbn [st0 st_proc st_threads]. unfold OVNI_MAX_HOSTNAME.
    destruct (512 <=? Z.of_nat (length loom)) eqn:E2; [lia|reflexivity]. }
  rewrite ST in R.
  apply negb_true_iff in Hslash.
  exists th0, app, loom, pid, (body ++ [(thk, ProcFini)]). split; [reflexivity|].
  split; [lia|]. split; [lia|]. split; [exact Hslash|].
  destruct (run_from c (mkSt PReady app loom pid []) (body ++ [(thk, ProcFini)])) as [l sf'] eqn:R'.
  injection R as <- <-.
  assert (I0 : Inv c app loom pid (mkSt PReady app loom pid []) [] []).
  { constructor; try reflexivity; try (intros; discriminate). intros w []. }
  destruct (body_run c app loom pid CFG body _ [] [] psf thk l sf' I0 CB R') as (S & C).
  cbn [stop_op ev_ok completed forallb andb]. split; [exact S|].
  intros CO. destruct (C CO) as (L & W & T & K).
  split; [cbn [length]; congruence|].
  rewrite writes_cons. cbn [wopt List.app tagged]. cbn [List.app] in W.
  split; [exact T|].
  intros th tid X. destruct X as [X|X]; [discriminate X|].
  apply in_app_or in X as [X|[X|[]]]; [|discriminate X].
  destruct (conf_body_inits body [] psf th tid CB X) as (f & P).
  pose proof (all_freed_true _ _ _ _ H P) as ->.
  specialize (W th tid true P). cbn in W.
  destruct W as (earlier & last & E1 & E2 & E3 & E4 & E5).
  destruct (K th) as (K1 & K2). cbn [st_threads tget thread0 t_cpus t_rank List.app] in K1, K2.
  assert (C1 : cpus_added ((th0, ProcInit app loom pid) :: body ++ [(thk, ProcFini)]) th = cpus_added body th).
  { unfold cpus_added. cbn [flat_map snd List.app]. rewrite flat_map_app. cbn [flat_map snd]. rewrite !app_nil_r. reflexivity. }
  assert (C2 : rank_set ((th0, ProcInit app loom pid) :: body ++ [(thk, ProcFini)]) th = rank_from None body th).
  { unfold rank_set, rank_from. cbn [fold_left]. rewrite fold_left_app. reflexivity. }
  rewrite K1, K2 in E5. rewrite <- C1, <- C2 in E5.
  assert (TP : 0 < tid).
  { (* from conf_step of the init *) clear - CB X.
    revert CB X. generalize (@nil (nat * (Z * bool))). induction body as [|[th1 o1] r IH]; intros ps CB X; [destruct X|].
    cbn [conf_body] in CB. destruct (conf_step ps th1 o1) as [ps1|] eqn:CS; [|discriminate].
    destruct X as [E|X]; [|eapply IH; eauto].
    injection E as -> ->. unfold conf_step in CS. destruct (plook ps th) as [[t0 [|]]|]; try discriminate.
    - unfold live_op_ok in CS. rewrite andb_false_r in CS. discriminate.
    - destruct (i32 tid && (0 <? tid) && negb (existsb (fun e => fst (snd e) =? tid) ps)) eqn:G; [|discriminate].
      apply andb_prop in G as [G _]. apply andb_prop in G as [_ G]. lia. }
  split; [exact TP|]. exists earlier, last. auto 7.
Qed.

Theorem metadata_complete : forall c p evs sf,
  version_parse (Some (c_model_version c)) <> None ->
  meta_conformant p = true ->
  run c p = (evs, sf) ->
  (* the run leaves the model's domain nowhere and aborts, if at all, inside an attribute call *)
  (forall o, stop_op p evs = Some o -> is_attr_op o = true) /\
  (completed evs = true ->
   length evs = length p /\
   (* "ovni.finished" is stored by ovni_thread_free and by no other call *)
   Forall tagprop (tagged p evs) /\
   (* every thread's file ends complete *)
   forall th tid, In (th, ThreadInit tid) p -> last_write_complete (writes p evs) tid).
Proof.
  intros c p evs sf CFG MC R.
  destruct (metadata_complete_gen c p evs sf CFG MC R) as (th0 & app & loom & pid & rest & E & A & P & S & H1 & H2).
  split; [exact H1|]. intros CO. destruct (H2 CO) as (L & T & W). split; [exact L|]. split; [exact T|].
  intros th tid X. destruct (W th tid X) as (TP & earlier & last & E1 & E2 & E3 & E4 & E5).
  destruct (complete_meta_ok c app loom pid tid last E4) as (M1 & M2); try assumption.
  exists earlier, last. auto.
Qed.



(* identity of the stream as the emulator reads it from the last write (B.4) *)
Lemma complete_identity c app loom pid tid j :
  complete c app loom pid tid j ->
  m_tid (to_loader_meta j) = JNum tid /\ m_pid (to_loader_meta j) = JNum pid /\
  m_loom (to_loader_meta j) = JStr loom /\ m_app_id (to_loader_meta j) = JNum app /\
  m_require (to_loader_meta j) = JObj /\ to_thread_req j <> None.
Proof.
  intros (fs & -> & H & (r & R) & F).
  unfold holds, core, core_list in H.
  repeat match goal with A : Forall _ (_ :: _) |- _ => inversion A; clear A; subst end.
  cbn [fst snd] in *.
  unfold to_loader_meta, to_thread_req. cbn [m_tid m_pid m_loom m_app_id m_require].
  repeat match goal with A : pget _ _ = _ |- _ => rewrite A; clear A end.
  cbn [jv]. repeat split. discriminate.
Qed.

(* ------------------------------------------------------------------ B.2: no refusal of reserved names *)
Definition ex_cfg : cfg := mkCfg [49; 46; 49; 49; 46; 48] [118; 101; 114; 105; 102] [49; 46; 49; 46; 48].
Definition ex_loom : str := [110; 111; 100; 101; 46; 49].
Definition k_ovni_finished : str := [111; 118; 110; 105; 46; 102; 105; 110; 105; 115; 104; 101; 100].
Definition k_ovni_tid : str := [111; 118; 110; 105; 46; 116; 105; 100].

Definition good_prog : prog :=
  [(0%nat, ProcInit 1 ex_loom 100); (0%nat, ThreadInit 100); (0%nat, AddCpu 0 0); (0%nat, AttrFlush);
   (0%nat, ThreadFree); (0%nat, ProcFini)].
(* the same with one attribute under "ovni." *)
Definition early_prog : prog :=
  [(0%nat, ProcInit 1 ex_loom 100); (0%nat, ThreadInit 100); (0%nat, AddCpu 0 0);
   (0%nat, AttrSetDouble k_ovni_finished 1); (0%nat, AttrFlush);
   (0%nat, ThreadFree); (0%nat, ProcFini)].
Definition clobber_prog : prog :=
  [(0%nat, ProcInit 1 ex_loom 100); (0%nat, ThreadInit 100); (0%nat, AddCpu 0 0);
   (0%nat, AttrSetDouble k_ovni_tid 0); (0%nat, AttrFlush);
   (0%nat, ThreadFree); (0%nat, ProcFini)].

(* The attribute API accepts names under "ovni.": (1) the file says finished = 1 before ovni_thread_free (what C09
   reads as "all flushed bytes are in place"), (2) the final file of a thread that did everything else right is
   refused by the emulator's gates. *)
Lemma reserved_keys_not_refused :
  meta_conformant good_prog = true /\
  (let (evs, _) := run ex_cfg early_prog in
   completed evs = true /\
   exists w, In (AttrFlush, w) (tagged early_prog evs) /\ finished_mark (snd w) = JNum 1) /\
  (let (evs, _) := run ex_cfg clobber_prog in
   completed evs = true /\
   exists last, disk (writes clobber_prog evs) 100 = Some last /\
                meta_check (to_loader_meta last) true = MetaErr MNoTid).
Proof.
  split; [vm_compute; reflexivity|]. split.
  - vm_compute. split; [reflexivity|]. eexists. split; [right; left; reflexivity|reflexivity].
  - vm_compute. split; [reflexivity|]. eexists. split; reflexivity.
Qed.

(* B.4: what the metadata of a protocol-following program gives the emulator-side hypotheses of
   C02_conformant_accepted: the stream's tid and pid are the (positive) ones of the calls, the loom and app id
   are those of ovni_proc_init, "ovni.require" is an object (model.c can probe it) *)
Theorem metadata_bridge : forall c p evs sf th0 app loom pid rest,
  version_parse (Some (c_model_version c)) <> None ->
  meta_conformant p = true -> run c p = (evs, sf) -> completed evs = true ->
  p = (th0, ProcInit app loom pid) :: rest ->
  forall th tid, In (th, ThreadInit tid) p ->
  exists last, disk (writes p evs) tid = Some last /\
    m_tid (to_loader_meta last) = JNum tid /\ tid <> 0 /\
    m_pid (to_loader_meta last) = JNum pid /\ pid <> 0 /\
    m_loom (to_loader_meta last) = JStr loom /\ m_app_id (to_loader_meta last) = JNum app /\ 0 < app /\
    m_require (to_loader_meta last) = JObj /\ to_thread_req last <> None.
Proof.
  intros c p evs sf th0 app loom pid rest CFG MC R CO E th tid X.
  destruct (metadata_complete_gen c p evs sf CFG MC R) as (th0' & app' & loom' & pid' & rest' & E' & A & P & S & H1 & H2).
  rewrite E in E'. injection E' as <- <- <- <- <-.
  destruct (H2 CO) as (L & T & W). destruct (W th tid X) as (TP & earlier & last & E1 & E2 & E3 & E4 & E5).
  destruct (complete_identity c app loom pid tid last E4) as (I1 & I2 & I3 & I4 & I5 & I6).
  exists last. split.
  - unfold disk. rewrite E1, map_app. cbn [map]. apply last_last.
  - repeat split; try assumption; lia.
Qed.


(* ------------------------------------------------------------------ item 1: every final tree reads back as expected *)
Lemma all_some_map {A B} (g : A -> option B) (h : A -> B) l :
  (forall e, In e l -> g e = Some (h e)) -> all_some (map g l) = Some (map h l).
Proof.
  induction l as [|a l IH]; intros H; [reflexivity|].
  cbn [map all_some]. rewrite (H a (or_introl eq_refl)), IH; [reflexivity|]. intros e X. apply H. right. exact X.
Qed.

Lemma in_inits p e : In e (inits p) -> In (fst e, ThreadInit (snd e)) p.
Proof.
  unfold inits. rewrite in_flat_map. intros ([th o] & X & Y). cbn [fst snd] in Y.
  destruct o; try contradiction. destruct Y as [<-|[]]. exact X.
Qed.

Theorem metadata_stream_metas : forall c p evs sf,
  version_parse (Some (c_model_version c)) <> None ->
  meta_conformant p = true -> run c p = (evs, sf) -> completed evs = true ->
  final_metas p evs = Some (expected_metas p).
Proof.
  intros c p evs sf CFG MC R CO.
  destruct (metadata_complete_gen c p evs sf CFG MC R) as (th0 & app & loom & pid & rest & E & A & P & S & H1 & H2).
  destruct (H2 CO) as (L & T & W).
  assert (EX : expected_metas p = map (fun e => smeta loom pid (snd e) app (rank_set p (fst e)) (cpus_added p (fst e))) (inits p)).
  { unfold expected_metas. rewrite E at 1. reflexivity. }
  rewrite EX. unfold final_metas, finals. rewrite map_map.
  apply all_some_map. intros e X. apply in_inits in X.
  destruct (W (fst e) (snd e) X) as (TP & earlier & last & E1 & E2 & E3 & E4 & E5).
  unfold disk. rewrite E1, map_app. cbn [map]. rewrite last_last. exact E5.
Qed.
