(* C03: the heap order of the merge and the enumeration-independent order of the streams are
   player.c:stream_cmp and trace.c:cmp_streams as translated from the source (coq/Gen/Cmp_player_gen.v). *)
From Coq Require Import ZArith List Bool Lia String.
From Coq Require Import ZifyBool.
From OV Require Import Base.CInt Emu.CmpPre Gen.Cmp_player_gen Proofs.CmpBase Emu.HeapDefs Emu.PlayerDefs.
Import ListNotations.
Local Open Scope Z_scope.

Local Open Scope string_scope.
Lemma player_preludes_as_modelled :
  cmp_streams_prelude = [] /\
  stream_cmp_prelude = ["struct stream *sa, *sb"; "sa = heap_elem(a, struct stream, hh)"; "sb = heap_elem(b, struct stream, hh)";
                        "int64_t ca = stream_lastclock(sa)"; "int64_t cb = stream_lastclock(sb)"] /\
  cmp_streams_sig = "int (struct stream *, struct stream *) | struct stream * a, struct stream * b" /\
  stream_cmp_sig = "int (heap_node_t *, heap_node_t *) | heap_node_t * a, heap_node_t * b".
Proof. repeat split; reflexivity. Qed.
Local Close Scope string_scope.

(* the player's heap is a max-heap: the comparison is inverted so that the smallest clock pops first *)
Lemma stream_cmp_core_inverted a b : stream_cmp_core a b = cmp3 b a.
Proof. unfold stream_cmp_core. three. Qed.

Lemma stream_cmp_is_model (a b : hnode) : stream_cmp_core (fst a) (fst b) = stream_cmp a b.
Proof.
  unfold stream_cmp_core, stream_cmp.
  destruct (fst a <? fst b) eqn:E1; [reflexivity|].
  destruct (fst a >? fst b) eqn:E2; destruct (fst b <? fst a) eqn:E3; try reflexivity; lia.
Qed.

Lemma strcmp_le_player : forall a b, (strcmp a b <=? 0) = str_le a b.
Proof.
  induction a as [|x a IH]; intros [|y b]; cbn [strcmp str_le]; try reflexivity.
  destruct (x <? y) eqn:E1; [reflexivity|]. destruct (y <? x) eqn:E2; [reflexivity|]. apply IH.
Qed.
Lemma cmp_streams_is_model_order a b : (cmp_streams_core a b <=? 0) = str_le a b.
Proof. unfold cmp_streams_core, get_relpath. apply strcmp_le_player. Qed.

(* DL_SORT(trace->streams, cmp_streams) *)
Fixpoint ins_stream_src (x : list Z * strm) (l : list (list Z * strm)) : list (list Z * strm) :=
  match l with
  | [] => [x]
  | y :: t => if cmp_streams_core (fst x) (fst y) <=? 0 then x :: y :: t else y :: ins_stream_src x t
  end.

Lemma sort_streams_from_source enum : sort_streams enum = fold_right ins_stream_src [] enum.
Proof.
  unfold sort_streams. induction enum as [|x l IH]; cbn [fold_right]; [reflexivity|].
  rewrite IH. generalize (fold_right ins_stream_src [] l). intro r.
  induction r as [|y t IHr]; cbn [ins_stream ins_stream_src]; [reflexivity|].
  rewrite cmp_streams_is_model_order, IHr. reflexivity.
Qed.
