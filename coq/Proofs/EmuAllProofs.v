(* The whole-emulator composition (Emu/EmuAllDefs.v): what `Files` implies, by composing the theorems of the parts. *)
From Coq Require Import ZArith List Bool Lia.
From OV Require Import Emu.EmuCoreDefs Emu.DecodeDefs Emu.MarkDefs Emu.PvDefs Emu.SysStaticDefs Emu.EmuAllDefs
  Proofs.PvProofs Proofs.PvThms Proofs.PvPrvProofs Proofs.SysStaticProofs Proofs.EmuCoreWf.
From OV Require Emu.StreamDefs Emu.LoaderMetaDefs Emu.MetaDefs Emu.VersionDefs Emu.ClkoffDefs Emu.PlayerDefs Rt.RtMetaDefs Rt.MarkJsonDefs
  Proofs.PrvProofs Proofs.PvTotalProofs.
Import ListNotations.
Local Open Scope Z_scope.

Lemma first_bad_meta_none all ss : first_bad_meta all ss = None ->
  forall s, In s ss -> LoaderMetaDefs.meta_rejected (LoaderMetaDefs.meta_check (si_meta s) (proc_has_app all s)) = false.
Proof.
  induction ss as [|x ss IH]; intros H s Hs; [contradiction|]. cbn [first_bad_meta] in H.
  destruct (LoaderMetaDefs.meta_rejected _) eqn:E; [discriminate|]. destruct Hs as [<-|Hs]; [exact E|now apply IH].
Qed.

Lemma first_bad_meta_some all ss s : In s ss ->
  LoaderMetaDefs.meta_rejected (LoaderMetaDefs.meta_check (si_meta s) (proc_has_app all s)) = true -> first_bad_meta all ss <> None.
Proof. intros Hs R N. rewrite (first_bad_meta_none all ss N s Hs) in R. discriminate. Qed.

Lemma load_all_ok ss : forall recss, load_all ss = inr recss ->
  length recss = length ss /\ forall s, In s ss -> exists recs, StreamDefs.run (si_obs s) junk0 false = StreamDefs.Run StreamDefs.VEnd recs.
Proof.
  induction ss as [|x ss IH]; intros recss H; cbn [load_all] in H.
  - injection H as <-. split; [reflexivity|intros s []].
  - destruct (StreamDefs.run (si_obs x) junk0 false) as [e|v recs] eqn:E; [discriminate|]. destruct v; try discriminate.
    destruct (load_all ss) as [p|l] eqn:El; [discriminate|]. injection H as <-. destruct (IH l eq_refl) as [L F]. split; [cbn; now rewrite L|].
    intros s [<-|Hs]; [eauto|now apply F].
Qed.

(* what the composition computed on the way to `Files` *)
Lemma all_some_forall2 {A B} (f : A -> option B) l : forall r, all_some (map f l) = Some r -> Forall2 (fun e x => f e = Some x) l r.
Proof.
  induction l as [|e l IH]; intros r H; cbn [map all_some] in H.
  - injection H as <-. constructor.
  - destruct (f e) as [x|] eqn:E; [|discriminate]. destruct (all_some (map f l)) as [t|]; [|discriminate]. injection H as <-. constructor; auto.
Qed.

Lemma forall2_impl {A B} (P Q : A -> B -> Prop) l r : (forall a b, P a b -> Q a b) -> Forall2 P l r -> Forall2 Q l r.
Proof. intros H F. induction F; constructor; auto. Qed.

Definition rev_time (r : raw_ev) : Z := let '(tm, _, _, _, _, _) := r in tm.
Definition rev_who (r : raw_ev) : nat := let '(_, who, _, _, _, _) := r in who.

Lemma raw_event_time gids s recs who tm idx r : raw_event_of gids s recs who tm idx = Some r -> rev_time r = tm /\ rev_who r = who.
Proof.
  unfold raw_event_of. destruct (nth_error recs (Z.to_nat idx)) as [[[off sz] clk]|]; [|discriminate]. intros H. injection H as <-. split; reflexivity.
Qed.

Definition decode_revs (en : list Z) (sx : static) (revs : list raw_ev) : list (Z * nat * event) :=
  map (fun r : raw_ev => let '(tm, who, (m, c, v), p, j, aux) := r in (tm, who, decode_all en (s_chans sx) m c v p j aux)) revs.

Definition accepted_run (inp : trace_input) (out : outfiles) : Prop :=
  exists sys en ms revs,
    MetaDefs.build (map si_smeta (sorted_streams inp)) = MetaDefs.Ok sys /\
    enabled_models (sorted_streams inp) (in_all inp) = Some en /\
    MarkJsonDefs.emu_types_of_trees (map si_json (streams_by_gindex sys (sorted_streams inp))) = Some ms /\
    let sx := static_of_system sys (rank_of_metas (map si_smeta (sorted_streams inp))) en ms (in_lint inp) in
    emulate sx (sys_phy sys) en ms (lint_chans (mk_chans en)) (tlabels_of sx revs) (decode_revs en sx revs) = Ok out.

(* the raw events `emulate` ran on *)
Definition delivered (inp : trace_input) (out : outfiles) (revs : list raw_ev) : Prop :=
  exists sys en ms,
    MetaDefs.build (map si_smeta (sorted_streams inp)) = MetaDefs.Ok sys /\
    let sx := static_of_system sys (rank_of_metas (map si_smeta (sorted_streams inp))) en ms (in_lint inp) in
    emulate sx (sys_phy sys) en ms (lint_chans (mk_chans en)) (tlabels_of sx revs) (decode_revs en sx revs) = Ok out.

(* `Files` is only ever the result of: every stream.json passing the loader's gates, every stream.obs structurally valid to its
   end (C12), the metadata merge building a system (C15), the model probe succeeding (C14), consistent mark definitions (C17),
   usable clock offsets and a merge without backward jumps (C03), and the emulator core + writer accepting the delivered,
   decoded events (C04-C08, C13) *)
Theorem files_means_all_valid inp out : ovniemu_model inp = Files out ->
  (forall s, In s (sorted_streams inp) ->
     LoaderMetaDefs.meta_rejected (LoaderMetaDefs.meta_check (si_meta s) (proc_has_app (sorted_streams inp) s)) = false) /\
  (forall s, In s (sorted_streams inp) -> exists recs, StreamDefs.run (si_obs s) junk0 false = StreamDefs.Run StreamDefs.VEnd recs) /\
  (exists oevs enum revs, ClkoffDefs.run_emu_table (in_clkoff inp) enum = ClkoffDefs.OOk (oevs, PlayerDefs.VOk) /\
     delivered inp out revs /\
     Forall2 (fun (e : PlayerDefs.oev) r => rev_time r = PlayerDefs.o_sclock e /\
                exists s, nth_error (sorted_streams inp) (PlayerDefs.o_id e) = Some s /\ exists sys, gindex_of sys s = Some (rev_who r)) oevs revs) /\
  accepted_run inp out.
Proof.
  unfold ovniemu_model. set (ss := sorted_streams inp).
  destruct (first_bad_meta ss ss) eqn:Em; [discriminate|].
  destruct (load_all ss) as [p|recss] eqn:El; [discriminate|].
  destruct (MetaDefs.build (map si_smeta ss)) as [sys| |] eqn:Eb; try discriminate.
  destruct (enabled_models ss (in_all inp)) as [en|] eqn:Ee; [|discriminate].
  destruct (MarkJsonDefs.emu_types_of_trees _) as [ms|] eqn:Ek; [|discriminate].
  match goal with |- context [ClkoffDefs.run_emu_table ?t ?e] => destruct (ClkoffDefs.run_emu_table t e) as [[oevs v]| |] eqn:Ec end; try discriminate.
  destruct v; try discriminate.
  match goal with |- context [all_some ?l] => destruct (all_some l) as [revs|] eqn:Er end; [|discriminate].
  match goal with |- context [emulate ?a ?b ?c ?d ?e ?f ?g] => destruct (emulate a b c d e f g) as [o|] eqn:Ex end; [|discriminate].
  intros H. injection H as <-. split; [now apply first_bad_meta_none|]. split; [now apply (load_all_ok ss recss El)|]. split.
  - eexists oevs, _, revs. split; [exact Ec|]. split; [exists sys, en, ms; auto|].
    apply all_some_forall2 in Er. eapply forall2_impl; [|exact Er]. intros e r Hr. cbv beta in Hr.
    destruct (nth_error ss (PlayerDefs.o_id e)) as [s|] eqn:Es; [|discriminate]. destruct (nth_error recss (PlayerDefs.o_id e)) as [recs|]; [|discriminate].
    destruct (gindex_of sys s) as [who|] eqn:Eg; [|discriminate]. destruct (raw_event_time _ _ _ _ _ _ _ Hr) as [T W].
    split; [exact T|]. exists s. split; [reflexivity|]. exists sys. now rewrite W.
  - exists sys, en, ms, revs. auto.
Qed.

(* C12 on the whole trace: anything structurally invalid anywhere, or metadata the loader refuses, means `Refused` *)
Theorem invalid_anywhere_refused inp :
  ((exists s, In s (sorted_streams inp) /\ forall recs, StreamDefs.run (si_obs s) junk0 false <> StreamDefs.Run StreamDefs.VEnd recs) \/
   (exists s, In s (sorted_streams inp) /\
      LoaderMetaDefs.meta_rejected (LoaderMetaDefs.meta_check (si_meta s) (proc_has_app (sorted_streams inp) s)) = true) \/
   (forall sys, MetaDefs.build (map si_smeta (sorted_streams inp)) <> MetaDefs.Ok sys)) ->
  exists why, ovniemu_model inp = Refused why.
Proof.
  intros H. destruct (ovniemu_model inp) as [w|out] eqn:E; [eauto|exfalso].
  destruct (files_means_all_valid inp out E) as (M & S & _ & A). destruct H as [(s & Hs & N)|[(s & Hs & R)|N]].
  - destruct (S s Hs) as [recs Er]. exact (N recs Er).
  - rewrite (M s Hs) in R. discriminate.
  - destruct A as (sys & _ & _ & _ & Eb & _). exact (N _ Eb).
Qed.

(* the base model is always among the enabled ones (C14: model_ovni_probe never reports "disabled") *)
From OV Require Proofs.VersionProofs.
Lemma models_by_id_facts : NoDup (map (fun m : Z * list Z * list Z => fst (fst m)) models_by_id) /\
  exists name ver, In (M_OVNI, name, ver) models_by_id.
Proof. split; [vm_compute; repeat constructor; cbn; intuition discriminate|]. vm_compute. eexists. eexists. repeat (first [left; reflexivity|right]). Qed.

Lemma enabled_has_ovni ss all en : enabled_models ss all = Some en -> memz M_OVNI en = true.
Proof.
  intros H. destruct models_by_id_facts as [N (name & ver & Hin)]. unfold enabled_models in H.
  pose proof (VersionProofs.model_probe_enabled _ _ _ _ _ N H M_OVNI name ver Hin) as [_ X].
  assert (I : In M_OVNI en) by (apply X; right; left; apply Z.eqb_refl).
  unfold memz. apply existsb_exists. exists M_OVNI. split; [exact I|apply Z.eqb_refl].
Qed.

(* C13 on the whole trace: when the composition writes files they have the text-level guarantees of C13, with the rows named
   after the system the merge built, in its order *)
Theorem files_well_formed inp out : ovniemu_model inp = Files out ->
  exists sys en ms evs sx, MetaDefs.build (map si_smeta (sorted_streams inp)) = MetaDefs.Ok sys /\
    sx = static_of_system sys (rank_of_metas (map si_smeta (sorted_streams inp))) en ms (in_lint inp) /\
    (* .prv: header(duration, rows) ++ records on rows 1..n, none later than the duration *)
    (let d := PrvProofs.last_time evs - PrvProofs.first_time evs in 0 <= d < 10 ^ 20 ->
       prv_shape (f_prv (o_th out)) d (length (MetaDefs.thread_list sys)) /\ prv_shape (f_prv (o_cpu out)) d (length (MetaDefs.cpu_list sys))) /\
    (* .row and .pcf, when the labels of the trace contain no newline *)
    (marks_ok ms -> (forall revs, tl_clean (tlabels_of sx revs)) ->
       parse_prf (f_row (o_th out)) = Some (map sys_th_label (MetaDefs.thread_list sys)) /\
       parse_prf (f_row (o_cpu out)) = Some (map sys_cpu_label (MetaDefs.cpu_list sys)) /\
       (forall ty, In ty (th_types sx) -> text_declares (f_pcf (o_th out)) ty) /\
       (forall ty, In ty (cpu_types sx) -> text_declares (f_pcf (o_cpu out)) ty)).
Proof.
  intros H. destruct (files_means_all_valid inp out H) as (_ & _ & _ & A). destruct A as (sys & en & ms & revs & Eb & Ee & Ek & Ex).
  set (sx := static_of_system sys (rank_of_metas (map si_smeta (sorted_streams inp))) en ms (in_lint inp)) in *.
  exists sys, en, ms, (decode_revs en sx revs), sx. split; [exact Eb|]. split; [reflexivity|].
  destruct (static_same_system sys (rank_of_metas (map si_smeta (sorted_streams inp))) en ms (in_lint inp)) as [S1 S2].
  assert (Lt : length (s_threads sx) = length (MetaDefs.thread_list sys)).
  { apply (f_equal (@length _)) in S1. now rewrite !map_length in S1. }
  assert (Lc : length (s_cpus sx) = length (MetaDefs.cpu_list sys)).
  { apply (f_equal (@length _)) in S2. rewrite !map_length, combine_length in S2. unfold sx in *. cbn [static_of_system s_cpus] in *.
    rewrite PvTotalProofs.sys_phy_length in S2. lia. }
  split.
  - intros d Hd. rewrite <- Lt, <- Lc. exact (prv_files_shape _ _ _ _ _ _ _ _ Ex Hd).
  - intros Mk Tl. pose proof (enabled_has_ovni _ _ _ Ee) as Ov.
    assert (Hin : inputs_ok sx (sys_phy sys) ms (tlabels_of sx revs)).
    { split; [|split; [exact Mk|apply Tl]]. unfold sx. cbn [static_of_system s_cpus]. apply PvTotalProofs.sys_phy_length. }
    destruct (row_files _ _ _ _ _ _ _ _ Hin Ex) as (R1 & R2 & _).
    destruct (row_names_of_system sys sx (sys_phy sys) (conj S1 S2)) as [N1 N2].
    destruct (types_declared sx (sys_phy sys) en ms _ _ _ out Hin eq_refl Ov Ex) as [T1 T2].
    rewrite N1 in R1. rewrite N2 in R2. auto.
Qed.


(* C03 on the whole trace: the events the emulator core and the writer process are exactly the ones the player delivered
   (after the clock offsets of the table were applied), in the player's order, each with the player's corrected clock and
   attributed to the row of its stream's thread in the built system *)
Theorem files_events_from_player inp out : ovniemu_model inp = Files out ->
  exists oevs enum revs, ClkoffDefs.run_emu_table (in_clkoff inp) enum = ClkoffDefs.OOk (oevs, PlayerDefs.VOk) /\
    delivered inp out revs /\
    Forall2 (fun (e : PlayerDefs.oev) r => rev_time r = PlayerDefs.o_sclock e /\
               exists s, nth_error (sorted_streams inp) (PlayerDefs.o_id e) = Some s /\ exists sys, gindex_of sys s = Some (rev_who r)) oevs revs.
Proof. intros H. now destruct (files_means_all_valid inp out H) as (_ & _ & X & _). Qed.
