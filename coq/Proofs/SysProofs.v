(* thread.c / cpu.c regenerated from the source (Gen/Sys_gen.v, translate/units/sys.py), with their channel writes
   going through the chan_set generated from chan.c (Gen/Chan_gen.v), refine the primitives of Emu/GuardsPre.v that
   the handler theorems of Proofs/GuardsProofs.v are stated over.

   Rel sx st0 st syn w relates the C world w (threads, CPUs, their system channels) to the semantic state st during
   an event that started in st0:
     - every C field is the semantic one (state code, is_running, is_active, cpu, tid, pid, gindex; the CPU's list);
     - a thread channel (CPU, TID, STATE) was flushed at the start of the event (last_value = the model's view in st0)
       and is either untouched, with an unchanged view, or dirty and holding the model's view in st;
     - a CPU in `syn` had cpu_update run in this event: its five channels hold the model's views in st
       (v_nrun, v_cpupid, v_cputid, th_running, and the unique active thread); a CPU not in `syn` is untouched.
   The refusals of the primitives that were postulated in GuardsPre.v (same state twice, same CPU twice) are here
   consequences of chan.c; "cannot modify dirty channel" (a second cpu_update of one CPU in one event, after the first
   changed a channel) is derived as well (cpu_update_twice).
   Simplification: the system channels have no dirty callback here (has_cb = false); the bay's callback only records
   the channel in a list. *)
From Coq Require Import ZArith List Bool Lia.
From OV Require Import Base.CInt Emu.EmuCoreDefs Emu.SysPre.
From OV Require Emu.ChanPre Gen.Chan_gen Proofs.ChanProofs Emu.GuardsPre Gen.Sys_gen Gen.Guards_gen Proofs.GuardsProofs.
Import ListNotations.
Local Open Scope Z_scope.

Definition inj := ChanProofs.inj.

(* ---------------------------------------------------------------- one system channel *)

Record ChRel (ign : bool) (v0 v : value) (ch : ChanPre.chan) : Prop := {
  cr_type : ChanPre.ctype ch = 0;
  cr_prop : ChanPre.prop ch = [0; 0; b2z ign];
  cr_cb : ChanPre.has_cb ch = false;
  cr_last : ChanPre.last_value ch = inj v0;
  cr_val : (ChanPre.is_dirty ch = 0 /\ v = v0) \/ (ChanPre.is_dirty ch = 1 /\ ChanPre.dvalue ch = inj v)
}.

Definition setv (ch : ChanPre.chan) (v : cvalue) : ChanPre.chan :=
  {| ChanPre.is_dirty := 1; ChanPre.prop := ChanPre.prop ch; ChanPre.has_cb := ChanPre.has_cb ch;
     ChanPre.last_value := ChanPre.last_value ch; ChanPre.ctype := ChanPre.ctype ch; ChanPre.dvalue := v;
     ChanPre.sn := ChanPre.sn ch; ChanPre.svalues := ChanPre.svalues ch |}.

Ltac cunf := unfold ChanPre.need, ChanPre.ite, ChanPre.bind_, ChanPre.bind, ChanPre.eval, ChanPre.ret, ChanPre.fail.

(* chan_set (generated from chan.c) on a clean single channel without properties other than IGNORE_DUP *)
Lemma chan_set_clean ign v0 v ch nv sx o n :
  ChRel ign v0 v ch -> ChanPre.is_dirty ch = 0 ->
  Chan_gen.chan_set (Some tt) (inj nv) sx {| ChanPre.ch := ch; ChanPre.out := o; ChanPre.ncb := n |} =
  if value_eqb v0 nv then (if ign then Ok (tt, {| ChanPre.ch := ch; ChanPre.out := o; ChanPre.ncb := n |}) else Err ChanPre.E_FAIL)
  else Ok (tt, {| ChanPre.ch := setv ch (inj nv); ChanPre.out := o; ChanPre.ncb := n |}).
Proof.
  intros [Ht Hp Hc Hl Hv] Hd. unfold Chan_gen.chan_set. cunf. cbn [is_null negb andb].
  unfold ChanPre.get_chan_type, ChanPre.get_chan_is_dirty, ChanPre.get_chan_last_value, ChanPre.get_chan_prop. cbn [ChanPre.ch].
  rewrite Ht, Hd, Hl, Hp.
  change (cast_uint32 Chan_gen.c_CHAN_SINGLE) with 0.
  change (ix [0; 0; b2z ign] Chan_gen.c_CHAN_DIRTY_WRITE) with 0.
  change (ix [0; 0; b2z ign] Chan_gen.c_CHAN_ALLOW_DUP) with 0.
  change (ix [0; 0; b2z ign] Chan_gen.c_CHAN_IGNORE_DUP) with (b2z ign).
  cbn [Z.eqb negb andb]. unfold inj. rewrite ChanProofs.inj_eq.
  destruct (value_eqb v0 nv); cbn [b2z Z.eqb negb].
  - destruct ign; reflexivity.
  - unfold ChanPre.set_chan_data_value, ChanPre.upd_ch, ChanPre.with_ch. cbn [ChanPre.ch ChanPre.out ChanPre.ncb].
    unfold Chan_gen.set_dirty. cunf. cbn [is_null negb].
    unfold ChanPre.get_chan_is_dirty, ChanPre.set_chan_is_dirty, ChanPre.upd_ch, ChanPre.with_ch, ChanPre.get_chan_dirty_cb.
    cbn [ChanPre.ch ChanPre.is_dirty ChanPre.has_cb ChanPre.out ChanPre.ncb]. rewrite Hd, Hc. cbn [Z.eqb negb is_null].
    unfold setv. rewrite Hc. reflexivity.
Qed.

(* "cannot modify dirty channel": derived from chan.c *)
Lemma chan_set_dirty ign v0 v ch nv sx o n :
  ChRel ign v0 v ch -> ChanPre.is_dirty ch = 1 ->
  Chan_gen.chan_set (Some tt) nv sx {| ChanPre.ch := ch; ChanPre.out := o; ChanPre.ncb := n |} = Err ChanPre.E_FAIL.
Proof.
  intros [Ht Hp Hc Hl Hv] Hd. unfold Chan_gen.chan_set. cunf. cbn [is_null negb andb].
  unfold ChanPre.get_chan_type, ChanPre.get_chan_is_dirty, ChanPre.get_chan_prop. cbn [ChanPre.ch].
  rewrite Ht, Hd, Hp. reflexivity.
Qed.

Lemma ChRel_set ign v0 v ch nv : ChRel ign v0 v ch -> ChRel ign v0 nv (setv ch (inj nv)).
Proof. intros [Ht Hp Hc Hl Hv]. constructor; cbn; auto. Qed.

Lemma ChRel_same ign v0 v ch : ChRel ign v0 v ch -> ChanPre.is_dirty ch = 0 -> ChRel ign v0 v0 ch.
Proof. intros [Ht Hp Hc Hl Hv] Hd. constructor; auto. Qed.

(* ---------------------------------------------------------------- the relation *)

Definition thrst (st : state) (t : nat) : thread := nth t (threads st) dummy_thread.
Definition tinfo (sx : static) (t : nat) : thread_info := nth t (s_threads sx) dummy_info.
Definition clst (st : state) (c : nat) : list nat := nth c (cpu_threads st) [].

(* views of the two CPU channels without a PRV row *)
Definition v_thrun (st : state) (c : nat) : value := match th_running st c with Some t => Some (Z.of_nat t) | None => None end.
Definition active_on (st : state) (c : nat) : list nat := filter (fun t => is_active (thread_state_of st t)) (clst st c).
Definition v_thact (st : state) (c : nat) : value := match active_on st c with [t] => Some (Z.of_nat t) | _ => None end.

(* the thread's state channel: never written before the first execute, so it shows nothing (not "0") while the
   thread is Unknown; no handler ever sets a thread back to Unknown *)
Definition vst (th : thread) : value := match t_state th with Unknown => None | s => Some (tst_code s) end.

Record ThRel (sx : static) (st0 st : state) (t : nat) (x : sthread) : Prop := {
  tr_state : s_state x = tst_code (t_state (thrst st t));
  tr_isrun : s_isrun x = b2z (is_running (t_state (thrst st t)));
  tr_isact : s_isact x = b2z (is_active (t_state (thrst st t)));
  tr_cpu : s_cpu x = t_cpu (thrst st t);
  tr_tid : s_tid x = ti_tid (tinfo sx t);
  tr_pid : s_pid x = ti_pid (tinfo sx t);
  tr_gindex : s_gindex x = Z.of_nat t;
  tr_ooc : s_ooc x = b2z (t_ooc (thrst st t));
  tr_chans : exists c0 c1 c2, s_chans x = [c0; c1; c2] /\
             ChRel false (v_cpu (thrst st0 t)) (v_cpu (thrst st t)) c0 /\
             ChRel true (v_tid (tinfo sx t) (thrst st0 t)) (v_tid (tinfo sx t) (thrst st t)) c1 /\
             ChRel false (vst (thrst st0 t)) (vst (thrst st t)) c2
}.

(* the five views of a CPU, in the order of enum cpu_chan: NRUN PID TID THRUN THACT *)
Definition cpu_views (sx : static) (st : state) (c : nat) : list value :=
  [v_nrun st c; v_cpupid sx st c; v_cputid sx st c; v_thrun st c; v_thact st c].

Record CpRel (sx : static) (st0 st : state) (synced : bool) (c : nat) (x : scpu) : Prop := {
  pr_threads : c_threads x = clst st c;
  pr_virtual : c_virtual x = b2z (cpu_is_virtual sx c);
  pr_gindex : c_gindex x = Z.of_nat c;
  pr_chans : length (c_chans x) = 5%nat /\
             forall k, (k < 5)%nat ->
               if synced then ChRel true (nth k (cpu_views sx st0 c) None) (nth k (cpu_views sx st c) None) (nth k (c_chans x) (ChanProofs.chan0 null_spec))
               else ChRel true (nth k (cpu_views sx st0 c) None) (nth k (cpu_views sx st0 c) None) (nth k (c_chans x) (ChanProofs.chan0 null_spec)) /\
                    ChanPre.is_dirty (nth k (c_chans x) (ChanProofs.chan0 null_spec)) = 0
}.

Record Rel (sx : static) (st0 st : state) (syn : list nat) (w : sys) : Prop := {
  r_lt : length (sths w) = length (threads st);
  r_lt0 : length (threads st0) = length (threads st);
  r_lc : length (scps w) = length (cpu_threads st);
  r_th : forall t, (t < length (threads st))%nat -> ThRel sx st0 st t (sth w t);
  r_cp : forall c, (c < length (cpu_threads st))%nat -> CpRel sx st0 st (mem_nat c syn) c (scp w c)
}.

(* ---------------------------------------------------------------- world bookkeeping *)

Definition with_sths (w : sys) (l : list sthread) : sys := {| sths := l; scps := scps w; sncb := sncb w |}.
Definition with_scps (w : sys) (l : list scpu) : sys := {| sths := sths w; scps := l; sncb := sncb w |}.

Lemma nth_update_same {A} (l : list A) n x d : (n < length l)%nat -> nth n (update l n x) d = x.
Proof. revert n; induction l as [|a l IH]; intros [|n] H; cbn in *; try lia; [reflexivity|apply IH; lia]. Qed.
Lemma nth_update_other {A} (l : list A) n m x d : n <> m -> nth m (update l n x) d = nth m l d.
Proof. revert n m; induction l as [|a l IH]; intros [|n] [|m] H; cbn; try reflexivity; try congruence. apply IH. congruence. Qed.
Lemma nth_error_update_same {A} (l : list A) n x : (n < length l)%nat -> nth_error (update l n x) n = Some x.
Proof. revert n; induction l as [|a l IH]; intros [|n] H; cbn in *; try lia; [reflexivity|apply IH; lia]. Qed.
Lemma update_twice {A} (l : list A) n x y : update (update l n x) n y = update l n y.
Proof. revert n; induction l as [|a l IH]; intros [|n]; cbn; try reflexivity. rewrite IH. reflexivity. Qed.
Lemma length_update {A} (l : list A) n x : length (update l n x) = length l.
Proof. revert n; induction l as [|a l IH]; intros [|n]; cbn; try reflexivity. rewrite IH. reflexivity. Qed.
Lemma nth_error_nth' {A} (l : list A) n d : (n < length l)%nat -> nth_error l n = Some (nth n l d).
Proof. revert n; induction l as [|a l IH]; intros [|n] H; cbn in *; try lia; [reflexivity|apply IH; lia]. Qed.

Lemma upd_th_run sx w t f : (t < length (sths w))%nat ->
  upd_th (Some t) f sx w = Ok (tt, with_sths w (update (sths w) t (f (sth w t)))).
Proof. intros H. unfold upd_th, nth_opt, sth. rewrite (nth_error_nth' _ _ dthread H). reflexivity. Qed.

Lemma upd_cp_run sx w c f : (c < length (scps w))%nat ->
  upd_cp (Some c) f sx w = Ok (tt, with_scps w (update (scps w) c (f (scp w c)))).
Proof. intros H. unfold upd_cp, nth_opt, scp. rewrite (nth_error_nth' _ _ dcpu H). reflexivity. Qed.

Lemma sth_with_same w t x : (t < length (sths w))%nat -> sth (with_sths w (update (sths w) t x)) t = x.
Proof. intros H. unfold sth, with_sths; cbn [sths]. apply nth_update_same. exact H. Qed.
Lemma scp_with_same w c x : (c < length (scps w))%nat -> scp (with_scps w (update (scps w) c x)) c = x.
Proof. intros H. unfold scp, with_scps; cbn [scps]. apply nth_update_same. exact H. Qed.

Lemma with_sths_twice w t x y : with_sths (with_sths w (update (sths w) t x)) (update (sths (with_sths w (update (sths w) t x))) t y)
  = with_sths w (update (sths w) t y).
Proof. unfold with_sths; cbn [sths scps sncb]. rewrite update_twice. reflexivity. Qed.
Lemma with_scps_twice w c x y : with_scps (with_scps w (update (scps w) c x)) (update (scps (with_scps w (update (scps w) c x))) c y)
  = with_scps w (update (scps w) c y).
Proof. unfold with_scps; cbn [sths scps sncb]. rewrite update_twice. reflexivity. Qed.

Lemma upd_th_run' sx w t x f : (t < length (sths w))%nat ->
  upd_th (Some t) f sx (with_sths w (update (sths w) t x)) = Ok (tt, with_sths w (update (sths w) t (f x))).
Proof.
  intros H. rewrite upd_th_run by (unfold with_sths; cbn [sths]; rewrite length_update; exact H).
  rewrite sth_with_same by exact H. rewrite with_sths_twice. reflexivity.
Qed.
Lemma upd_cp_run' sx w c x f : (c < length (scps w))%nat ->
  upd_cp (Some c) f sx (with_scps w (update (scps w) c x)) = Ok (tt, with_scps w (update (scps w) c (f x))).
Proof.
  intros H. rewrite upd_cp_run by (unfold with_scps; cbn [scps]; rewrite length_update; exact H).
  rewrite scp_with_same by exact H. rewrite with_scps_twice. reflexivity.
Qed.

(* chan_set (SysPre: the generated chan.c function on the designated channel) on a clean system channel of a thread *)
Lemma chan_set_thread sx w t k ch ign v0 v nv :
  (t < length (sths w))%nat -> nth_error (s_chans (sth w t)) k = Some ch ->
  ChRel ign v0 v ch -> ChanPre.is_dirty ch = 0 ->
  chan_set (Some (ThC t (Z.of_nat k))) (inj nv) sx w =
  if value_eqb v0 nv then
    (if ign then Ok (tt, with_sths w (update (sths w) t (th_with_chans (sth w t) (update (s_chans (sth w t)) k ch)))) else Err ChanPre.E_FAIL)
  else Ok (tt, with_sths w (update (sths w) t (th_with_chans (sth w t) (update (s_chans (sth w t)) k (setv ch (inj nv)))))).
Proof.
  intros Ht Hk HR Hd. unfold chan_set.
  replace (Z.of_nat k <? 0) with false by (symmetry; apply Z.ltb_ge; lia).
  unfold chan_at, nth_opt. rewrite (nth_error_nth' _ _ dthread Ht). fold (sth w t). rewrite Nat2Z.id, Hk.
  rewrite (chan_set_clean ign v0 v ch nv (se_cb sx) ChanPre.vnull 0%nat HR Hd).
  destruct (value_eqb v0 nv); [destruct ign|]; try reflexivity.
  all: unfold put_chan, with_sths; cbn [ChanPre.ch ChanPre.ncb]; rewrite Nat2Z.id, Nat.add_0_r; reflexivity.
Qed.

Lemma chan_set_thread_ign sx w t k ch v0 v nv :
  (t < length (sths w))%nat -> nth_error (s_chans (sth w t)) k = Some ch ->
  ChRel true v0 v ch -> ChanPre.is_dirty ch = 0 ->
  chan_set (Some (ThC t (Z.of_nat k))) (inj nv) sx w =
  Ok (tt, with_sths w (update (sths w) t (th_with_chans (sth w t) (update (s_chans (sth w t)) k (if value_eqb v0 nv then ch else setv ch (inj nv)))))).
Proof.
  intros Ht Hk HR Hd. rewrite (chan_set_thread sx w t k ch true v0 v nv Ht Hk HR Hd). destruct (value_eqb v0 nv); reflexivity.
Qed.

Lemma chan_set_cpu sx w c k ch v0 v nv :
  (c < length (scps w))%nat -> nth_error (c_chans (scp w c)) k = Some ch ->
  ChRel true v0 v ch -> ChanPre.is_dirty ch = 0 ->
  chan_set (Some (CpC c (Z.of_nat k))) (inj nv) sx w =
  Ok (tt, with_scps w (update (scps w) c (cp_with_chans (scp w c) (update (c_chans (scp w c)) k (if value_eqb v0 nv then ch else setv ch (inj nv)))))).
Proof.
  intros Hc Hk HR Hd. unfold chan_set.
  replace (Z.of_nat k <? 0) with false by (symmetry; apply Z.ltb_ge; lia).
  unfold chan_at, nth_opt. rewrite (nth_error_nth' _ _ dcpu Hc). fold (scp w c). rewrite Nat2Z.id, Hk.
  rewrite (chan_set_clean true v0 v ch nv (se_cb sx) ChanPre.vnull 0%nat HR Hd).
  destruct (value_eqb v0 nv).
  all: unfold put_chan, with_scps; cbn [ChanPre.ch ChanPre.ncb]; rewrite Nat2Z.id, Nat.add_0_r; reflexivity.
Qed.

(* a dirty CPU channel refuses the write (chan.c: "cannot modify dirty channel") *)
Lemma chan_set_cpu_dirty sx w c k ch v0 v nv :
  (c < length (scps w))%nat -> nth_error (c_chans (scp w c)) k = Some ch ->
  ChRel true v0 v ch -> ChanPre.is_dirty ch = 1 ->
  chan_set (Some (CpC c (Z.of_nat k))) nv sx w = Err ChanPre.E_FAIL.
Proof.
  intros Hc Hk HR Hd. unfold chan_set.
  replace (Z.of_nat k <? 0) with false by (symmetry; apply Z.ltb_ge; lia).
  unfold chan_at, nth_opt. rewrite (nth_error_nth' _ _ dcpu Hc). fold (scp w c). rewrite Nat2Z.id, Hk.
  rewrite (chan_set_dirty true v0 v ch nv (se_cb sx) ChanPre.vnull 0%nat HR Hd). reflexivity.
Qed.

Lemma value_eqb_eq a b : value_eqb a b = true -> a = b.
Proof. destruct a, b; cbn; intros H; try discriminate; [apply Z.eqb_eq in H; subst|]; reflexivity. Qed.

Lemma ChRel_ign_result v0 v ch nv : ChRel true v0 v ch -> ChanPre.is_dirty ch = 0 ->
  ChRel true v0 nv (if value_eqb v0 nv then ch else setv ch (inj nv)).
Proof.
  intros HR Hd. destruct (value_eqb v0 nv) eqn:E.
  - apply value_eqb_eq in E. subst nv. apply (ChRel_same _ _ _ _ HR Hd).
  - apply (ChRel_set _ _ _ _ _ HR).
Qed.

Lemma thrst_set_same st t x : (t < length (threads st))%nat -> thrst (set_thread st t x) t = x.
Proof. intros H. unfold thrst, set_thread; cbn [threads]. apply nth_update_same. exact H. Qed.
Lemma thrst_set_other st t x t' : t <> t' -> thrst (set_thread st t x) t' = thrst st t'.
Proof. intros H. unfold thrst, set_thread; cbn [threads]. apply nth_update_other. exact H. Qed.

(* replacing one thread, when no CPU has been updated yet in the event *)
Lemma Rel_set_thread sx st0 st w t th' x' :
  Rel sx st0 st [] w -> (t < length (threads st))%nat ->
  ThRel sx st0 (set_thread st t th') t x' ->
  Rel sx st0 (set_thread st t th') [] (with_sths w (update (sths w) t x')).
Proof.
  intros [Hlt Hlt0 Hlc Hth Hcp] Ht HT.
  assert (Hlen : length (threads (set_thread st t th')) = length (threads st)) by (unfold set_thread; cbn [threads]; apply length_update).
  constructor; unfold with_sths; cbn [sths scps]; rewrite ?Hlen, ?length_update; auto.
  - intros t' Ht'. destruct (Nat.eq_dec t t') as [<-|Ne].
    + unfold sth; cbn [sths]. rewrite nth_update_same by (rewrite Hlt; exact Ht). exact HT.
    + unfold sth; cbn [sths]. rewrite nth_update_other by exact Ne.
      specialize (Hth t' Ht'). destruct Hth as [A1 A2 A3 A4 A5 A6 A7 A8 A9].
      constructor; rewrite ?(thrst_set_other st t th' t' Ne); auto.
  - intros c Hc. specialize (Hcp c Hc). cbn [mem_nat existsb] in *. destruct Hcp as [B1 B2 B3 B4]. constructor; auto.
Qed.

(* ---------------------------------------------------------------- thread.c *)

Ltac sunf := unfold need, ite, bind_, bind, eval, ret, fail.

Lemma k_run : cast_uint32 Sys_gen.c_TH_ST_RUNNING = 1. Proof. reflexivity. Qed.
Lemma k_cool : cast_uint32 Sys_gen.c_TH_ST_COOLING = 4. Proof. reflexivity. Qed.
Lemma k_warm : cast_uint32 Sys_gen.c_TH_ST_WARMING = 5. Proof. reflexivity. Qed.

Lemma code_run s : (tst_code s =? 1) = is_running s. Proof. destruct s; reflexivity. Qed.
Lemma code_act s : ((tst_code s =? 1) || (tst_code s =? 4) || (tst_code s =? 5)) = is_active s. Proof. destruct s; reflexivity. Qed.
Lemma code_eqb a b : (tst_code a =? tst_code b) = tst_eqb a b. Proof. reflexivity. Qed.

Definition frame_thread (w w' : sys) (t : nat) : Prop :=
  scps w' = scps w /\ length (sths w') = length (sths w) /\ forall t', t' <> t -> sth w' t' = sth w t'.

Section ThreadOps.
Variables (E : senv) (st0 st : state) (w : sys) (t : nat).
Let sx := se_sx E.
Hypothesis HR : Rel sx st0 st [] w.
Hypothesis Ht : (t < length (threads st))%nat.

Lemma thr_nth : nth_error (threads st) t = Some (thrst st t).
Proof. apply nth_error_nth'. exact Ht. Qed.
Lemma t_lt_w : (t < length (sths w))%nat. Proof. rewrite (r_lt _ _ _ _ _ HR). exact Ht. Qed.

Lemma vst_eqb th s : s <> Unknown -> value_eqb (vst th) (Some (tst_code s)) = tst_eqb (t_state th) s.
Proof. intros H. unfold vst, tst_eqb. destruct (t_state th), s; try reflexivity; contradiction. Qed.
Lemma vst_set th s : s <> Unknown -> vst (with_state th s) = Some (tst_code s).
Proof. intros H. unfold vst. cbn [with_state t_state]. destruct s; try reflexivity. contradiction. Qed.

Lemma sys_thread_set_state s c0 c1 c2 : s <> Unknown ->
  s_chans (sth w t) = [c0; c1; c2] -> ChanPre.is_dirty c1 = 0 -> ChanPre.is_dirty c2 = 0 ->
  match GuardsPre.thread_set_state (Some t) (tst_code s) sx st with
  | Ok (_, st') => exists w', Sys_gen.thread_set_state (Some t) (tst_code s) E w = Ok (tt, w') /\
                              st' = set_thread st t (with_state (thrst st t) s) /\
                              Rel sx st0 st' [] w' /\ frame_thread w w' t /\
                              nth 0 (s_chans (sth w' t)) c0 = c0
  | Err e => exists e', Sys_gen.thread_set_state (Some t) (tst_code s) E w = Err e' /\ e' <> E_TRAP
  end.
Proof.
  intros Hs Hch Hd1 Hd2.
  pose proof (r_th _ _ _ _ _ HR t Ht) as HT. destruct HT as [Ts Tr Ta Tc Tt Tp Tg To (d0 & d1 & d2 & Ec & R0 & R1 & R2)].
  rewrite Hch in Ec. inversion Ec; subst d0 d1 d2. clear Ec.
  unfold GuardsPre.thread_set_state, GuardsPre.with_thread, nth_opt. rewrite thr_nth, GuardsProofs.tst_of_code_code.
  rewrite <- Tc.
  unfold Sys_gen.thread_set_state. sunf. cbn [is_null negb].
  unfold get_thread_cpu.
  destruct (s_cpu (sth w t)) as [c|] eqn:Ecpu; cbn [is_null].
  2:{ exists E_FAIL. split; [reflexivity|discriminate]. }
  pose proof t_lt_w as Hw.
  unfold set_thread_state, set_thread_is_running, set_thread_is_active.
  rewrite (upd_th_run E w t _ Hw), (upd_th_run' E w t _ _ Hw), (upd_th_run' E w t _ _ Hw).
  cbn [s_state s_isrun s_isact s_cpu s_tid s_pid s_gindex s_ooc s_chans].
  rewrite k_run, k_cool, k_warm, code_act, code_run.
  set (x3 := {| s_state := tst_code s; s_isrun := _; s_isact := _; s_cpu := _; s_tid := _; s_pid := _; s_gindex := _; s_ooc := _; s_chans := _ |}).
  unfold addr_thread_chan_at, get_thread_state, value_int64.
  rewrite (sth_with_same w t x3 Hw). cbn [x3 s_state].

  set (w3 := with_sths w (update (sths w) t x3)).
  assert (Hw3 : (t < length (sths w3))%nat) by (unfold w3, with_sths; cbn [sths]; rewrite length_update; exact Hw).
  assert (Hx3 : sth w3 t = x3) by (apply sth_with_same; exact Hw).
  assert (Hc2 : nth_error (s_chans (sth w3 t)) 2 = Some c2) by (rewrite Hx3; cbn [x3 s_chans]; rewrite Hch; reflexivity).
  assert (Hc1 : nth_error (s_chans (sth w3 t)) 1 = Some c1) by (rewrite Hx3; cbn [x3 s_chans]; rewrite Hch; reflexivity).
  assert (Hsame : vst (thrst st t) = vst (thrst st0 t)).
  { destruct (cr_val _ _ _ _ R2) as [[_ H]|[H _]]; [exact H|rewrite Hd2 in H; discriminate]. }
  assert (Hsame1 : v_tid (tinfo sx t) (thrst st t) = v_tid (tinfo sx t) (thrst st0 t)).
  { destruct (cr_val _ _ _ _ R1) as [[_ H]|[H _]]; [exact H|rewrite Hd1 in H; discriminate]. }
  change Sys_gen.c_TH_CHAN_STATE with (Z.of_nat 2). change Sys_gen.c_TH_CHAN_TID with (Z.of_nat 1).
  change {| ChanPre.vt := 1; ChanPre.vi := tst_code s |} with (inj (Some (tst_code s))).
  rewrite (chan_set_thread E w3 t 2 c2 false _ _ (Some (tst_code s)) Hw3 Hc2 R2 Hd2).
  rewrite <- Hsame, (vst_eqb _ s Hs).
  destruct (tst_eqb (t_state (thrst st t)) s) eqn:Esame.
  { exists ChanPre.E_FAIL. split; [reflexivity|discriminate]. }

  set (x4 := th_with_chans (sth w3 t) _).
  assert (Hw4 : with_sths w3 (update (sths w3) t x4) = with_sths w (update (sths w) t x4)) by (unfold w3; apply with_sths_twice).
  rewrite Hw4. clear Hw4.
  set (w4 := with_sths w (update (sths w) t x4)).
  assert (Hx4 : sth w4 t = x4) by (apply sth_with_same; exact Hw).
  assert (Hw4 : (t < length (sths w4))%nat) by (unfold w4, with_sths; cbn [sths]; rewrite length_update; exact Hw).
  unfold get_thread_is_active, get_thread_tid, value_null. rewrite Hx4.
  unfold x4 at 1 2 3. rewrite Hx3. cbn [th_with_chans x3 s_isact s_tid].
  replace (true && (if negb ((if is_active s then 1 else 0) =? 0) then true else true)) with true by (destruct (is_active s); reflexivity).
  match goal with |- context [chan_set _ ?v E w4] =>
    replace v with (inj (v_tid (tinfo sx t) (with_state (thrst st t) s)))
      by (unfold v_tid; cbn [with_state t_state]; rewrite Tt; destruct (is_active s); reflexivity) end.
  assert (Hc1' : nth_error (s_chans (sth w4 t)) 1 = Some c1).
  { rewrite Hx4. unfold x4. rewrite Hx3. cbn [th_with_chans x3 s_chans]. rewrite Hch. reflexivity. }
  rewrite (chan_set_thread_ign E w4 t 1 c1 _ _ _ Hw4 Hc1' R1 Hd1).
  eexists. split; [reflexivity|]. split; [reflexivity|].
  set (x5 := th_with_chans (sth w4 t) _).
  assert (Hw5 : with_sths w4 (update (sths w4) t x5) = with_sths w (update (sths w) t x5)) by (unfold w4; apply with_sths_twice).
  rewrite Hw5. clear Hw5.

  assert (Hx5c : s_chans x5 = [c0; (if value_eqb (v_tid (tinfo sx t) (thrst st0 t)) (v_tid (tinfo sx t) (with_state (thrst st t) s)) then c1 else setv c1 (inj (v_tid (tinfo sx t) (with_state (thrst st t) s)))); setv c2 (inj (Some (tst_code s)))]).
  { unfold x5. rewrite Hx4. unfold x4. rewrite Hx3. cbn [th_with_chans x3 s_chans]. rewrite Hch. reflexivity. }
  split; [|split].
  - apply Rel_set_thread; [exact HR|exact Ht|].
    rewrite <- Hsame1 in Hx5c.
    constructor; rewrite ?(thrst_set_same st t _ Ht); cbn [with_state t_state t_cpu t_ooc];
      unfold x5; rewrite Hx4; unfold x4; rewrite Hx3; cbn [th_with_chans x3 s_state s_isrun s_isact s_cpu s_tid s_pid s_gindex s_ooc]; auto.
    all: try (destruct (is_running s); reflexivity).
    all: try (destruct (is_active s); reflexivity).
    all: try (rewrite Ecpu; exact Tc).
    all: try (symmetry; exact Tc).
    fold x3. rewrite <- Hx3. fold x4. rewrite <- Hx4. fold x5. rewrite Hx5c.
    eexists _, _, _. split; [reflexivity|]. split; [exact R0|]. split.
    * rewrite Hsame1. apply (ChRel_ign_result _ _ c1 _ R1 Hd1).
    * rewrite (vst_set _ s Hs). apply (ChRel_set _ _ _ _ (Some (tst_code s)) R2).
  - unfold frame_thread, with_sths; cbn [scps sths]. split; [reflexivity|]. split; [apply length_update|].
    intros t' Ne. unfold sth; cbn [sths]. apply nth_update_other. congruence.
  - rewrite (sth_with_same w t x5 Hw), Hx5c. reflexivity.
Qed.

End ThreadOps.

(* changing only the CPU binding of a thread leaves every CPU view alone *)
Lemma tso_with_cpu st t c t' : (t < length (threads st))%nat ->
  thread_state_of (set_thread st t (with_cpu (thrst st t) c)) t' = thread_state_of st t'.
Proof.
  intros H. unfold thread_state_of, set_thread; cbn [threads].
  destruct (Nat.eq_dec t t') as [<-|Ne].
  - rewrite nth_update_same by exact H. reflexivity.
  - rewrite nth_update_other by exact Ne. reflexivity.
Qed.

Lemma cpu_views_with_cpu sxx st t c k : (t < length (threads st))%nat ->
  cpu_views sxx (set_thread st t (with_cpu (thrst st t) c)) k = cpu_views sxx st k.
Proof.
  intros H.
  assert (R : running_on (set_thread st t (with_cpu (thrst st t) c)) k = running_on st k).
  { unfold running_on. cbn [set_thread cpu_threads]. apply filter_ext. intros a. rewrite tso_with_cpu by exact H. reflexivity. }
  assert (A : active_on (set_thread st t (with_cpu (thrst st t) c)) k = active_on st k).
  { unfold active_on, clst. cbn [set_thread cpu_threads]. apply filter_ext. intros a. rewrite tso_with_cpu by exact H. reflexivity. }
  unfold cpu_views, v_nrun, v_cpupid, v_cputid, v_thrun, v_thact, th_running, nrunning. rewrite R, A. reflexivity.
Qed.

Lemma Rel_set_thread_cpu sxx st0' st' syn w' t' c x' :
  Rel sxx st0' st' syn w' -> (t' < length (threads st'))%nat ->
  ThRel sxx st0' (set_thread st' t' (with_cpu (thrst st' t') c)) t' x' ->
  Rel sxx st0' (set_thread st' t' (with_cpu (thrst st' t') c)) syn (with_sths w' (update (sths w') t' x')).
Proof.
  intros [Hlt Hlt0 Hlc Hth Hcp] Ht HT.
  assert (Hlen : length (threads (set_thread st' t' (with_cpu (thrst st' t') c))) = length (threads st')) by (unfold set_thread; cbn [threads]; apply length_update).
  constructor; unfold with_sths; cbn [sths scps]; rewrite ?Hlen, ?length_update; auto.
  - intros t2 Ht2. destruct (Nat.eq_dec t' t2) as [<-|Ne].
    + unfold sth; cbn [sths]. rewrite nth_update_same by (rewrite Hlt; exact Ht). exact HT.
    + unfold sth; cbn [sths]. rewrite nth_update_other by exact Ne.
      specialize (Hth t2 Ht2). destruct Hth as [A1 A2 A3 A4 A5 A6 A7 A8 A9].
      constructor; rewrite ?(thrst_set_other st' t' _ t2 Ne); auto.
  - intros k Hk. specialize (Hcp k Hk). destruct Hcp as [B1 B2 B3 [B4 B5]].
    constructor; auto. split; [exact B4|]. intros j Hj. specialize (B5 j Hj).
    rewrite (cpu_views_with_cpu sxx st' t' c k Ht). exact B5.
Qed.

Section ThreadCpuOps.
Variables (E : senv) (st0 st : state) (syn : list nat) (w : sys) (t : nat).
Let sx := se_sx E.
Hypothesis HR : Rel sx st0 st syn w.
Hypothesis Ht : (t < length (threads st))%nat.

Lemma thr_nth' : nth_error (threads st) t = Some (thrst st t).
Proof. apply nth_error_nth'. exact Ht. Qed.
Lemma t_lt_w' : (t < length (sths w))%nat. Proof. rewrite (r_lt _ _ _ _ _ HR). exact Ht. Qed.

(* the three functions that write th->cpu and the thread's CPU channel; nc = the new binding *)
Lemma cpu_chan_write (nc : option nat) c0 c1 c2 :
  s_chans (sth w t) = [c0; c1; c2] -> ChanPre.is_dirty c0 = 0 ->
  let x1 := {| s_state := s_state (sth w t); s_isrun := s_isrun (sth w t); s_isact := s_isact (sth w t); s_cpu := nc;
               s_tid := s_tid (sth w t); s_pid := s_pid (sth w t); s_gindex := s_gindex (sth w t); s_ooc := s_ooc (sth w t);
               s_chans := s_chans (sth w t) |} in
  let nv := match nc with Some c => Some (Z.of_nat c) | None => None end in
  match chan_set (Some (ThC t (Z.of_nat 0))) (inj nv) E (with_sths w (update (sths w) t x1)) with
  | Ok (_, w') => opt_nat_eqb (t_cpu (thrst st t)) nc = false /\
                  Rel sx st0 (set_thread st t (with_cpu (thrst st t) nc)) syn w' /\ frame_thread w w' t /\
                  s_chans (sth w' t) = [setv c0 (inj nv); c1; c2]
  | Err e => opt_nat_eqb (t_cpu (thrst st t)) nc = true /\ e <> E_TRAP
  end.
Proof.
  intros Hch Hd0 x1 nv.
  pose proof (r_th _ _ _ _ _ HR t Ht) as HT. destruct HT as [Ts Tr Ta Tc Tt Tp Tg To (d0 & d1 & d2 & Ec & R0 & R1 & R2)].
  rewrite Hch in Ec. inversion Ec; subst d0 d1 d2. clear Ec.
  pose proof t_lt_w' as Hw.
  set (w1 := with_sths w (update (sths w) t x1)).
  assert (Hw1 : (t < length (sths w1))%nat) by (unfold w1, with_sths; cbn [sths]; rewrite length_update; exact Hw).
  assert (Hx1 : sth w1 t = x1) by (apply sth_with_same; exact Hw).
  assert (Hc0 : nth_error (s_chans (sth w1 t)) 0 = Some c0) by (rewrite Hx1; cbn [x1 s_chans]; rewrite Hch; reflexivity).
  assert (Hsame : v_cpu (thrst st t) = v_cpu (thrst st0 t)).
  { destruct (cr_val _ _ _ _ R0) as [[_ H]|[H _]]; [exact H|rewrite Hd0 in H; discriminate]. }
  rewrite (chan_set_thread E w1 t 0 c0 false _ _ nv Hw1 Hc0 R0 Hd0).
  rewrite <- Hsame.
  assert (Heq : value_eqb (v_cpu (thrst st t)) nv = opt_nat_eqb (t_cpu (thrst st t)) nc).
  { unfold v_cpu, nv. destruct (t_cpu (thrst st t)) as [a|], nc as [b|]; cbn; try reflexivity.
    destruct (Nat.eqb_spec a b); destruct (Z.eqb_spec (Z.of_nat a) (Z.of_nat b)); try reflexivity; lia. }
  rewrite Heq. destruct (opt_nat_eqb (t_cpu (thrst st t)) nc) eqn:Eo.
  { split; [reflexivity|discriminate]. }
  split; [reflexivity|].
  set (x2 := th_with_chans (sth w1 t) _).
  assert (Hw2 : with_sths w1 (update (sths w1) t x2) = with_sths w (update (sths w) t x2)) by (unfold w1; apply with_sths_twice).
  rewrite Hw2. clear Hw2.
  assert (Hx2c : s_chans x2 = [setv c0 (inj nv); c1; c2]).
  { unfold x2. rewrite Hx1. cbn [th_with_chans x1 s_chans]. rewrite Hch. reflexivity. }
  split; [|split].
  - apply Rel_set_thread_cpu; [exact HR|exact Ht|].
    constructor; rewrite ?(thrst_set_same st t _ Ht); cbn [with_cpu t_state t_cpu t_ooc];
      unfold x2; rewrite Hx1; cbn [th_with_chans x1 s_state s_isrun s_isact s_cpu s_tid s_pid s_gindex s_ooc]; auto.
    fold x1. rewrite <- Hx1. fold x2. rewrite Hx2c.
    eexists _, _, _. split; [reflexivity|]. split; [|split; [exact R1|exact R2]].
    replace (v_cpu (with_cpu (thrst st t) nc)) with nv by (unfold v_cpu, nv; reflexivity).
    apply (ChRel_set _ _ _ _ nv R0).
  - unfold frame_thread, with_sths; cbn [scps sths]. split; [reflexivity|]. split; [apply length_update|].
    intros t' Ne. unfold sth; cbn [sths]. apply nth_update_other. congruence.
  - rewrite (sth_with_same w t x2 Hw), Hx2c. reflexivity.
Qed.
End ThreadCpuOps.

Definition thread_post (sx : static) (st0 : state) (syn : list nat) (w : sys) (t : nat) (keep : list nat) (st' : state) (w' : sys) : Prop :=
  Rel sx st0 st' syn w' /\ frame_thread w w' t /\
  forall k, In k keep -> nth k (s_chans (sth w' t)) (ChanProofs.chan0 null_spec) = nth k (s_chans (sth w t)) (ChanProofs.chan0 null_spec).

Section ThreadCpuFns.
Variables (E : senv) (st0 st : state) (syn : list nat) (w : sys) (t : nat).
Let sx := se_sx E.
Hypothesis HR : Rel sx st0 st syn w.
Hypothesis Ht : (t < length (threads st))%nat.
Variables c0 c1 c2 : ChanPre.chan.
Hypothesis Hch : s_chans (sth w t) = [c0; c1; c2].
Hypothesis Hd0 : ChanPre.is_dirty c0 = 0.

Lemma gindex_of c : (c < length (cpu_threads st))%nat -> forall w', scps w' = scps w -> get_cpu_gindex E w' (Some c) = Z.of_nat c.
Proof.
  intros Hc w' Hs. unfold get_cpu_gindex, scp. rewrite Hs. apply (pr_gindex _ _ _ _ _ _ (r_cp _ _ _ _ _ HR c Hc)).
Qed.

Ltac finish_write K :=
  let u := fresh "u" in let w' := fresh "w'" in let e := fresh "e" in
  match type of K with
  | match ?r with _ => _ end =>
    destruct r as [[u w']|e];
    [ destruct K as (_ & KR & KF & K1); exists w'; split; [destruct u; reflexivity|];
      split; [exact KR|split; [exact KF|]];
      intros k [<-|[<-|[]]]; rewrite Hch, K1; reflexivity
    | destruct K as (KE & _); try (cbn in KE; discriminate KE) ]
  end.

Lemma sys_thread_set_cpu c : (c < length (cpu_threads st))%nat ->
  match GuardsPre.thread_set_cpu (Some t) (Some c) sx st with
  | Ok (_, st') => exists w', Sys_gen.thread_set_cpu (Some t) (Some c) E w = Ok (tt, w') /\ thread_post sx st0 syn w t [1; 2]%nat st' w'
  | Err e => exists e', Sys_gen.thread_set_cpu (Some t) (Some c) E w = Err e' /\ e' <> E_TRAP
  end.
Proof.
  intros Hc. pose proof (tr_cpu _ _ _ _ _ (r_th _ _ _ _ _ HR t Ht)) as Tc. pose proof (t_lt_w' E st0 st syn w t HR Ht) as Hw.
  unfold GuardsPre.thread_set_cpu, GuardsPre.with_thread, nth_opt. rewrite (thr_nth' st t Ht).
  unfold Sys_gen.thread_set_cpu. sunf. cbn [is_null negb]. unfold get_thread_cpu. rewrite Tc.
  destruct (t_cpu (thrst st t)) as [old|] eqn:Eold; cbn [is_null negb].
  { exists E_FAIL. split; [reflexivity|discriminate]. }
  unfold set_thread_cpu. rewrite (upd_th_run E w t _ Hw). unfold addr_thread_chan_at, value_int64.
  rewrite (gindex_of c Hc) by reflexivity. change Sys_gen.c_TH_CHAN_CPU with (Z.of_nat 0).
  pose proof (cpu_chan_write E st0 st syn w t HR Ht (Some c) c0 c1 c2 Hch Hd0) as K. cbv zeta in K.
  change {| ChanPre.vt := 1; ChanPre.vi := Z.of_nat c |} with (inj (Some (Z.of_nat c))).
  rewrite Eold in K.
  finish_write K.
Qed.

Lemma sys_thread_unset_cpu :
  match GuardsPre.thread_unset_cpu (Some t) sx st with
  | Ok (_, st') => exists w', Sys_gen.thread_unset_cpu (Some t) E w = Ok (tt, w') /\ thread_post sx st0 syn w t [1; 2]%nat st' w'
  | Err e => exists e', Sys_gen.thread_unset_cpu (Some t) E w = Err e' /\ e' <> E_TRAP
  end.
Proof.
  pose proof (tr_cpu _ _ _ _ _ (r_th _ _ _ _ _ HR t Ht)) as Tc. pose proof (t_lt_w' E st0 st syn w t HR Ht) as Hw.
  unfold GuardsPre.thread_unset_cpu, GuardsPre.with_thread, nth_opt. rewrite (thr_nth' st t Ht).
  unfold Sys_gen.thread_unset_cpu. sunf. cbn [is_null negb]. unfold get_thread_cpu. rewrite Tc.
  destruct (t_cpu (thrst st t)) as [old|] eqn:Eold; cbn [is_null negb].
  2:{ exists E_FAIL. split; [reflexivity|discriminate]. }
  unfold set_thread_cpu. rewrite (upd_th_run E w t _ Hw). unfold addr_thread_chan_at, value_null.
  change Sys_gen.c_TH_CHAN_CPU with (Z.of_nat 0).
  pose proof (cpu_chan_write E st0 st syn w t HR Ht None c0 c1 c2 Hch Hd0) as K. cbv zeta in K.
  change ChanPre.vnull with (inj None). rewrite Eold in K.
  finish_write K.
Qed.

(* the refusal of a migration to the CPU the thread is on is chan.c's "same value as last_value" *)
Lemma sys_thread_migrate_cpu c : (c < length (cpu_threads st))%nat ->
  match GuardsPre.thread_migrate_cpu (Some t) (Some c) sx st with
  | Ok (_, st') => exists w', Sys_gen.thread_migrate_cpu (Some t) (Some c) E w = Ok (tt, w') /\ thread_post sx st0 syn w t [1; 2]%nat st' w'
  | Err e => exists e', Sys_gen.thread_migrate_cpu (Some t) (Some c) E w = Err e' /\ e' <> E_TRAP
  end.
Proof.
  intros Hc. pose proof (tr_cpu _ _ _ _ _ (r_th _ _ _ _ _ HR t Ht)) as Tc. pose proof (t_lt_w' E st0 st syn w t HR Ht) as Hw.
  unfold GuardsPre.thread_migrate_cpu, GuardsPre.with_thread, nth_opt. rewrite (thr_nth' st t Ht).
  unfold Sys_gen.thread_migrate_cpu. sunf. cbn [is_null negb]. unfold get_thread_cpu. rewrite Tc.
  destruct (t_cpu (thrst st t)) as [old|] eqn:Eold; cbn [is_null negb].
  2:{ exists E_FAIL. split; [reflexivity|discriminate]. }
  unfold set_thread_cpu. rewrite (upd_th_run E w t _ Hw). unfold addr_thread_chan_at, value_int64.
  rewrite (gindex_of c Hc) by reflexivity. change Sys_gen.c_TH_CHAN_CPU with (Z.of_nat 0).
  pose proof (cpu_chan_write E st0 st syn w t HR Ht (Some c) c0 c1 c2 Hch Hd0) as K. cbv zeta in K.
  change {| ChanPre.vt := 1; ChanPre.vi := Z.of_nat c |} with (inj (Some (Z.of_nat c))).
  rewrite Eold in K. cbn [opt_nat_eqb] in K.
  destruct (Nat.eqb old c) eqn:Eoc.
  - match type of K with match ?r with _ => _ end => destruct r as [[u w']|e] end.
    + destruct K as (K & _). discriminate K.
    + destruct K as (_ & K). exists e. split; [reflexivity|exact K].
  - finish_write K.
Qed.
End ThreadCpuFns.

(* ---------------------------------------------------------------- cpu.c: the traversal of cpu_update *)

Definition last_or {A} (l : list A) (d : option A) : option A := match rev l with x :: _ => Some x | [] => d end.

Lemma last_or_cons {A} (x : A) l d : last_or (x :: l) d = last_or l (Some x).
Proof.
  unfold last_or. cbn [rev]. destruct (rev l) as [|y r] eqn:E; cbn; reflexivity.
Qed.

Section Fold.
Variables (run act : nat -> bool).
Hypothesis run_act : forall t, run t = true -> act t = true.
Variable F : option nat * option nat * Z * Z -> option nat -> option nat * option nat * Z * Z.
Hypothesis HF : forall r a na nr t,
  F (r, a, na, nr) (Some t) =
  if run t then (Some t, Some t, na + 1, nr + 1) else if act t then (r, Some t, na + 1, nr) else (r, a, na, nr).

Lemma fold_char l : forall r a na nr,
  fold_left F (map Some l) (r, a, na, nr) =
  (last_or (filter run l) r, last_or (filter act l) a, na + Z.of_nat (length (filter act l)), nr + Z.of_nat (length (filter run l))).
Proof.
  induction l as [|t l IH]; intros r a na nr; cbn [map fold_left filter].
  - unfold last_or; cbn. rewrite !Z.add_0_r. reflexivity.
  - rewrite HF. destruct (run t) eqn:Er.
    + rewrite (run_act t Er). rewrite IH. rewrite !last_or_cons. cbn [length]. f_equal; [f_equal|]; lia.
    + destruct (act t) eqn:Ea; rewrite IH; rewrite ?last_or_cons; cbn [length]; f_equal; try (f_equal; lia); lia.
Qed.
End Fold.

Lemma last_or_single {A} (l : list A) d : length l = 1%nat -> exists x, l = [x] /\ last_or l d = Some x.
Proof. destruct l as [|x [|y l]]; cbn; intros H; try discriminate. exists x. split; reflexivity. Qed.

(* ---------------------------------------------------------------- cpu.c: cpu_update *)

Lemma chan_set_cpu' E w c x k ch v0 v nv :
  (c < length (scps w))%nat -> nth_error (c_chans x) k = Some ch -> ChRel true v0 v ch -> ChanPre.is_dirty ch = 0 ->
  chan_set (Some (CpC c (Z.of_nat k))) (inj nv) E (with_scps w (update (scps w) c x)) =
  Ok (tt, with_scps w (update (scps w) c (cp_with_chans x (update (c_chans x) k (if value_eqb v0 nv then ch else setv ch (inj nv)))))).
Proof.
  intros Hc Hk HR Hd.
  assert (Hc' : (c < length (scps (with_scps w (update (scps w) c x))))%nat) by (unfold with_scps; cbn [scps]; rewrite length_update; exact Hc).
  rewrite (chan_set_cpu E _ c k ch v0 v nv Hc'); rewrite ?(scp_with_same w c x Hc); auto.
  rewrite with_scps_twice. reflexivity.
Qed.

Lemma running_on_touch st c k : running_on (touch st c) k = running_on st k. Proof. reflexivity. Qed.

Lemma cpu_views_touch_other sx st c k : k <> c -> cpu_views sx (touch st c) k = cpu_views sx st k.
Proof.
  intros Ne. unfold cpu_views, v_nrun, v_cpupid, v_cputid, v_thrun, v_thact, th_running, nrunning, active_on, clst.
  cbn [touch cpu_touched cpu_threads threads]. rewrite nth_update_other by congruence. reflexivity.
Qed.

Lemma cpu_views_touch_same sx st c : (c < length (cpu_touched st))%nat ->
  cpu_views sx (touch st c) c = [Some (Z.of_nat (nrunning st c)); v_cpupid sx st c; v_cputid sx st c; v_thrun st c; v_thact st c].
Proof.
  intros H. unfold cpu_views, v_nrun. cbn [touch cpu_touched]. rewrite nth_update_same by exact H. reflexivity.
Qed.

Lemma Rel_update_cpu sx st0 st syn w c x' :
  Rel sx st0 st syn w -> (c < length (cpu_threads st))%nat ->
  CpRel sx st0 (touch st c) true c x' ->
  Rel sx st0 (touch st c) (c :: syn) (with_scps w (update (scps w) c x')).
Proof.
  intros [Hlt Hlt0 Hlc Hth Hcp] Hc HC.
  constructor; unfold with_scps; cbn [sths scps touch threads cpu_threads]; rewrite ?length_update; auto.
  - intros t Ht. specialize (Hth t Ht). destruct Hth as [A1 A2 A3 A4 A5 A6 A7 A8 A9]. constructor; auto.
  - intros k Hk. destruct (Nat.eq_dec c k) as [<-|Ne].
    + unfold scp; cbn [scps]. rewrite nth_update_same by (rewrite Hlc; exact Hc). cbn [mem_nat existsb]. rewrite Nat.eqb_refl. exact HC.
    + unfold scp; cbn [scps]. rewrite nth_update_other by exact Ne.
      replace (mem_nat k (c :: syn)) with (mem_nat k syn)
        by (unfold mem_nat; cbn [existsb]; destruct (Nat.eqb_spec k c); [congruence|reflexivity]).
      specialize (Hcp k Hk). destruct Hcp as [B1 B2 B3 [B4 B5]]. constructor; auto. split; [exact B4|].
      intros j Hj. specialize (B5 j Hj). rewrite (cpu_views_touch_other sx st c k) by congruence. exact B5.
Qed.

Lemma th_running_single st c t : running_on st c = [t] -> th_running st c = Some t.
Proof. intros H. unfold th_running. rewrite H. reflexivity. Qed.
Lemma th_running_none st c : length (running_on st c) <> 1%nat -> th_running st c = None.
Proof. unfold th_running. destruct (running_on st c) as [|x [|y l]]; cbn; intros H; try reflexivity. contradiction. Qed.

Lemma filter_len_le {A} (f : A -> bool) l : (length (filter f l) <= length l)%nat.
Proof. induction l as [|a l IH]; cbn; [lia|]. destruct (f a); cbn; lia. Qed.

Definition frame_cpu (w w' : sys) (c : nat) : Prop :=
  sths w' = sths w /\ length (scps w') = length (scps w) /\ forall k, k <> c -> scp w' k = scp w k.

(* the side conditions on the semantic state that the C takes for granted (all part of / implied by Bind):
   the lists hold valid threads, the counters fit, the bookkeeping lists have the length of the CPU table *)
Record CpuOk (sx : static) (st : state) (c : nat) : Prop := {
  co_lt : (c < length (cpu_threads st))%nat;
  co_touched : (c < length (cpu_touched st))%nat;
  co_valid : forall t, In t (clst st c) -> (t < length (threads st))%nat;
  co_static : length (s_threads sx) = length (threads st);
  co_small : Z.of_nat (length (clst st c)) < 2 ^ 31
}.

Section CpuUpdate.
Variables (E : senv) (st0 st : state) (syn : list nat) (w : sys) (c : nat).
Let sx := se_sx E.
Hypothesis HR : Rel sx st0 st syn w.
Hypothesis Hfresh : mem_nat c syn = false.
Hypothesis HO : CpuOk sx st c.

Lemma gts_all t : get_thread_state E w (Some t) = tst_code (thread_state_of st t).
Proof.
  unfold get_thread_state, thread_state_of, sth.
  destruct (Nat.lt_ge_cases t (length (threads st))) as [L|L].
  - apply (tr_state _ _ _ _ _ (r_th _ _ _ _ _ HR t L)).
  - rewrite !nth_overflow; [reflexivity|exact L|rewrite (r_lt _ _ _ _ _ HR); exact L].
Qed.

Lemma c_lt_w : (c < length (scps w))%nat. Proof. rewrite (r_lc _ _ _ _ _ HR). apply (co_lt _ _ _ HO). Qed.

Let run (t : nat) : bool := is_running (thread_state_of st t).
Let act (t : nat) : bool := is_active (thread_state_of st t).

Lemma run_act t : run t = true -> act t = true.
Proof. unfold run, act. destruct (thread_state_of st t); cbn; congruence. Qed.

(* the traversal of cpu_update computes the number of running / active threads of the list and the last of each *)
Lemma update_fold :
  match Sys_gen.cpu_update (Some c) E w with
  | r => True
  end.
Proof. exact I. Qed.

Lemma sys_cpu_update :
  match GuardsPre.cpu_update (Some c) sx st with
  | Ok (_, st') => exists w', Sys_gen.cpu_update (Some c) E w = Ok (tt, w') /\
                              Rel sx st0 st' (c :: syn) w' /\ frame_cpu w w' c
  | Err e => exists e', Sys_gen.cpu_update (Some c) E w = Err e' /\ e' <> E_TRAP
  end.
Proof.
  destruct HO as [Hc Htc Hval Hstat Hsmall].
  pose proof c_lt_w as Hcw.
  pose proof (r_cp _ _ _ _ _ HR c Hc) as HC. rewrite Hfresh in HC. destruct HC as [Pt Pv Pg [Pl Pk]].
  destruct (c_chans (scp w c)) as [|h0 [|h1 [|h2 [|h3 [|h4 [|h5 hs]]]]]] eqn:Ech; try discriminate Pl.
  destruct (Pk 0%nat ltac:(lia)) as [K0 D0]. destruct (Pk 1%nat ltac:(lia)) as [K1 D1]. destruct (Pk 2%nat ltac:(lia)) as [K2 D2].
  destruct (Pk 3%nat ltac:(lia)) as [K3 D3]. destruct (Pk 4%nat ltac:(lia)) as [K4 D4].
  cbn [nth cpu_views] in K0, K1, K2, K3, K4, D0, D1, D2, D3, D4. clear Pk.
  unfold GuardsPre.cpu_update.
  unfold Sys_gen.cpu_update. sunf. cbn [is_null negb].
  unfold list_cpu_threads_cpu_next. rewrite Pt.
  match goal with |- context [fold_left ?F (map Some ?l) ?i] =>
    rewrite (fold_char run act run_act F) end.
  2:{ intros r a na nr t. cbv beta iota. rewrite gts_all, k_run, k_cool, k_warm. unfold run, act.
      destruct (thread_state_of st t); reflexivity. }
  cbn [Z.add]. fold (running_on st c) in *.

  set (lrun := filter run (clst st c)). set (lact := filter act (clst st c)).
  assert (Hlr : (length lrun <= length (clst st c))%nat) by apply filter_len_le.
  assert (Hla : (length lact <= length (clst st c))%nat) by apply filter_len_le.
  unfold set_cpu_nth_running, set_cpu_nth_active.
  rewrite (upd_cp_run E w c _ Hcw), (upd_cp_run' E w c _ _ Hcw).
  unfold get_cpu_nth_running, get_cpu_is_virtual. rewrite (scp_with_same w c _ Hcw).
  cbn [c_nrun c_virtual c_threads c_nthreads c_nact c_thrun c_thact c_gindex c_chans]. rewrite Pv.
  assert (Hcast : cast_uint64 (Z.of_nat (length lrun)) = Z.of_nat (length lrun)).
  { unfold cast_uint64, wrapu. apply Z.mod_small. split; [lia|]. assert (2 ^ 31 < 2 ^ 64) by (vm_compute; reflexivity). lia. }
  rewrite Hcast. change (cast_uint64 1) with 1.
  assert (Hov : (Z.of_nat (length lrun) >? 1) && negb (negb (b2z (cpu_is_virtual sx c) =? 0)) = oversubscribed sx (touch st c) c).
  { unfold oversubscribed, nrunning. rewrite running_on_touch. change (running_on st c) with lrun.
    destruct (cpu_is_virtual sx c); cbn [b2z Z.eqb negb andb]; [apply andb_false_r|].
    rewrite andb_true_r. destruct (Nat.ltb_spec 1 (length lrun)); destruct (Z.gtb_spec (Z.of_nat (length lrun)) 1); try reflexivity; lia. }
  replace (true && (if Z.of_nat (length lrun) >? 1 then true else true)) with true by (destruct (Z.of_nat (length lrun) >? 1); reflexivity).
  rewrite Hov. destruct (oversubscribed sx (touch st c) c) eqn:Eov.
  { exists E_FAIL. split; [reflexivity|discriminate]. }

  rewrite Ech.
  unfold set_cpu_th_running, set_cpu_th_active, addr_cpu_chan_at, value_int64, value_null, get_thread_tid, get_thread_proc_pid, get_thread_gindex.
  change Sys_gen.c_CPU_CHAN_NRUN with (Z.of_nat 0). change Sys_gen.c_CPU_CHAN_PID with (Z.of_nat 1).
  change Sys_gen.c_CPU_CHAN_TID with (Z.of_nat 2). change Sys_gen.c_CPU_CHAN_THRUN with (Z.of_nat 3).
  change Sys_gen.c_CPU_CHAN_THACT with (Z.of_nat 4).
  (* what the model shows for this CPU after the update *)
  assert (Vrun : (Z.of_nat (length lrun) =? 1) = true ->
                 exists tr, last_or lrun None = Some tr /\ th_running st c = Some tr /\ (tr < length (threads st))%nat).
  { intros H1. apply Z.eqb_eq in H1. destruct (last_or_single lrun None ltac:(lia)) as (tr & El & Ela).
    exists tr. split; [exact Ela|]. split; [apply th_running_single; exact El|].
    apply Hval. assert (In tr lrun) by (rewrite El; left; reflexivity). unfold lrun in H. apply filter_In in H. tauto. }
  assert (Vnorun : (Z.of_nat (length lrun) =? 1) = false -> th_running st c = None).
  { intros H1. apply Z.eqb_neq in H1. apply th_running_none. change (running_on st c) with lrun. lia. }
  assert (Vact : (Z.of_nat (length lact) =? 1) = true ->
                 exists ta, last_or lact None = Some ta /\ v_thact st c = Some (Z.of_nat ta) /\ (ta < length (threads st))%nat).
  { intros H1. apply Z.eqb_eq in H1. destruct (last_or_single lact None ltac:(lia)) as (ta & El & Ela).
    exists ta. split; [exact Ela|]. split; [unfold v_thact; change (active_on st c) with lact; rewrite El; reflexivity|].
    apply Hval. assert (In ta lact) by (rewrite El; left; reflexivity). unfold lact in H. apply filter_In in H. tauto. }
  assert (Vnoact : (Z.of_nat (length lact) =? 1) = false -> v_thact st c = None).
  { intros H1. apply Z.eqb_neq in H1. unfold v_thact. change (active_on st c) with lact.
    destruct lact as [|x [|y l]]; cbn in *; try reflexivity. lia. }
  assert (Hsth : forall w2, sths w2 = sths w -> forall t, (t < length (threads st))%nat ->
                 s_tid (sth w2 t) = ti_tid (tinfo sx t) /\ s_pid (sth w2 t) = ti_pid (tinfo sx t) /\ s_gindex (sth w2 t) = Z.of_nat t).
  { intros w2 Hs t Ht. unfold sth. rewrite Hs. destruct (r_th _ _ _ _ _ HR t Ht). auto. }
  assert (Hinfo : forall t, (t < length (threads st))%nat -> nth_opt (s_threads sx) t = Some (tinfo sx t)).
  { intros t Ht. unfold nth_opt, tinfo. apply nth_error_nth'. rewrite Hstat. exact Ht. }

  (* the values written, as images of the model's views *)
  assert (Wt : forall w2, sths w2 = sths w ->
     (if Z.of_nat (length lrun) =? 1 then True else True) ->
     match last_or lrun None with
     | Some tr => (Z.of_nat (length lrun) =? 1) = true ->
                  {| ChanPre.vt := 1; ChanPre.vi := s_tid (sth w2 tr) |} = inj (v_cputid sx st c) /\
                  {| ChanPre.vt := 1; ChanPre.vi := s_pid (sth w2 tr) |} = inj (v_cpupid sx st c) /\
                  {| ChanPre.vt := 1; ChanPre.vi := s_gindex (sth w2 tr) |} = inj (v_thrun st c)
     | None => True
     end).
  { intros w2 Hs _. destruct (last_or lrun None) as [tr|] eqn:El; [|exact I]. intros H1.
    destruct (Vrun H1) as (tr' & E1 & E2 & E3). assert (tr' = tr) by congruence. subst tr'.
    destruct (Hsth w2 Hs tr E3) as (A & B & C). unfold v_cputid, v_cpupid, v_thrun. rewrite E2, (Hinfo tr E3), A, B, C. repeat split; reflexivity. }
  assert (Close : forall x' nv1 nv2 nv3 nv4,
     c_threads x' = clst st c -> c_virtual x' = b2z (cpu_is_virtual sx c) -> c_gindex x' = Z.of_nat c ->
     c_chans x' = [ (if value_eqb (v_nrun st0 c) (Some (Z.of_nat (length lrun))) then h0 else setv h0 (inj (Some (Z.of_nat (length lrun)))));
                    (if value_eqb (v_cpupid sx st0 c) nv1 then h1 else setv h1 (inj nv1));
                    (if value_eqb (v_cputid sx st0 c) nv2 then h2 else setv h2 (inj nv2));
                    (if value_eqb (v_thrun st0 c) nv3 then h3 else setv h3 (inj nv3));
                    (if value_eqb (v_thact st0 c) nv4 then h4 else setv h4 (inj nv4)) ] ->
     nv1 = v_cpupid sx st c -> nv2 = v_cputid sx st c -> nv3 = v_thrun st c -> nv4 = v_thact st c ->
     Rel sx st0 (touch st c) (c :: syn) (with_scps w (update (scps w) c x')) /\
     frame_cpu w (with_scps w (update (scps w) c x')) c).
  { intros x' nv1 nv2 nv3 nv4 X1 X2 X3 X4 -> -> -> ->. split.
    - apply Rel_update_cpu; [exact HR|exact Hc|].
      constructor; auto. rewrite X4. split; [reflexivity|].
      intros k Hk. rewrite (cpu_views_touch_same sx st c Htc).
      destruct k as [|[|[|[|[|k]]]]]; try lia; cbn [nth cpu_views].
      + apply (ChRel_ign_result _ _ h0 (Some (Z.of_nat (nrunning st c))) K0 D0).
      + apply (ChRel_ign_result _ _ h1 _ K1 D1).
      + apply (ChRel_ign_result _ _ h2 _ K2 D2).
      + apply (ChRel_ign_result _ _ h3 _ K3 D3).
      + apply (ChRel_ign_result _ _ h4 _ K4 D4).
    - unfold frame_cpu, with_scps; cbn [sths scps]. split; [reflexivity|]. split; [apply length_update|].
      intros k Ne. unfold scp; cbn [scps]. apply nth_update_other. congruence. }
  destruct (Z.of_nat (length lrun) =? 1) eqn:E1; destruct (Z.of_nat (length lact) =? 1) eqn:Ea.
  all: rewrite (upd_cp_run' E w c _ _ Hcw).

  - (* one running, one active *)
    destruct (Vrun eq_refl) as (tr & Elr & Etr & Htr). destruct (Vact eq_refl) as (ta & Ela & Eta & Hta).
    rewrite Elr, Ela. cbn [is_null negb].
    unfold sth at 1 2 3. cbn [with_scps sths]. fold (sth w tr).
    destruct (Hsth w eq_refl tr Htr) as (A1 & A2 & A3). rewrite A1, A2, A3.

    cbn [c_threads c_nthreads c_nrun c_nact c_thrun c_thact c_virtual c_gindex c_chans].
    change {| ChanPre.vt := 1; ChanPre.vi := ti_tid (tinfo sx tr) |} with (inj (Some (ti_tid (tinfo sx tr)))).
    change {| ChanPre.vt := 1; ChanPre.vi := ti_pid (tinfo sx tr) |} with (inj (Some (ti_pid (tinfo sx tr)))).
    change {| ChanPre.vt := 1; ChanPre.vi := Z.of_nat tr |} with (inj (Some (Z.of_nat tr))).
    match goal with |- context [chan_set _ _ E (with_scps w (update (scps w) c ?x))] => rewrite (chan_set_cpu' E w c x 2 h2 _ _ _ Hcw eq_refl K2 D2) end.
    cbn [cp_with_chans c_threads c_nthreads c_nrun c_nact c_thrun c_thact c_virtual c_gindex c_chans update].
    match goal with |- context [chan_set _ _ E (with_scps w (update (scps w) c ?x))] => rewrite (chan_set_cpu' E w c x 1 h1 _ _ _ Hcw eq_refl K1 D1) end.
    cbn [cp_with_chans c_threads c_nthreads c_nrun c_nact c_thrun c_thact c_virtual c_gindex c_chans update].
    match goal with |- context [chan_set _ _ E (with_scps w (update (scps w) c ?x))] => rewrite (chan_set_cpu' E w c x 3 h3 _ _ _ Hcw eq_refl K3 D3) end.
    cbn [cp_with_chans c_threads c_nthreads c_nrun c_nact c_thrun c_thact c_virtual c_gindex c_chans update].
    rewrite (upd_cp_run' E w c _ _ Hcw).
    cbn [is_null negb c_threads c_nthreads c_nrun c_nact c_thrun c_thact c_virtual c_gindex c_chans].
    unfold sth at 1. cbn [with_scps sths]. fold (sth w ta).
    destruct (Hsth w eq_refl ta Hta) as (_ & _ & B3). rewrite B3.
    change {| ChanPre.vt := 1; ChanPre.vi := Z.of_nat ta |} with (inj (Some (Z.of_nat ta))).
    change {| ChanPre.vt := 1; ChanPre.vi := Z.of_nat (length lrun) |} with (inj (Some (Z.of_nat (length lrun)))).
    match goal with |- context [chan_set _ _ E (with_scps w (update (scps w) c ?x))] => rewrite (chan_set_cpu' E w c x 0 h0 _ _ _ Hcw eq_refl K0 D0) end.
    cbn [cp_with_chans c_threads c_nthreads c_nrun c_nact c_thrun c_thact c_virtual c_gindex c_chans update].
    match goal with |- context [chan_set _ _ E (with_scps w (update (scps w) c ?x))] => rewrite (chan_set_cpu' E w c x 4 h4 _ _ _ Hcw eq_refl K4 D4) end.
    cbn [cp_with_chans c_threads c_nthreads c_nrun c_nact c_thrun c_thact c_virtual c_gindex c_chans update].
    eexists. split; [reflexivity|].

    eapply Close; cbn [cp_with_chans c_threads c_virtual c_gindex c_chans]; try reflexivity; auto.
    + unfold v_cpupid. rewrite Etr, (Hinfo tr Htr). reflexivity.
    + unfold v_cputid. rewrite Etr, (Hinfo tr Htr). reflexivity.
    + unfold v_thrun. rewrite Etr. reflexivity.

  - (* one running, not exactly one active *)
    destruct (Vrun eq_refl) as (tr & Elr & Etr & Htr). pose proof (Vnoact eq_refl) as Eta.
    rewrite Elr. cbn [is_null negb].
    unfold sth at 1 2 3. cbn [with_scps sths]. fold (sth w tr).
    destruct (Hsth w eq_refl tr Htr) as (A1 & A2 & A3). rewrite A1, A2, A3.
    cbn [c_threads c_nthreads c_nrun c_nact c_thrun c_thact c_virtual c_gindex c_chans].
    change {| ChanPre.vt := 1; ChanPre.vi := ti_tid (tinfo sx tr) |} with (inj (Some (ti_tid (tinfo sx tr)))).
    change {| ChanPre.vt := 1; ChanPre.vi := ti_pid (tinfo sx tr) |} with (inj (Some (ti_pid (tinfo sx tr)))).
    change {| ChanPre.vt := 1; ChanPre.vi := Z.of_nat tr |} with (inj (Some (Z.of_nat tr))).
    match goal with |- context [chan_set _ _ E (with_scps w (update (scps w) c ?x))] => rewrite (chan_set_cpu' E w c x 2 h2 _ _ _ Hcw eq_refl K2 D2) end.
    cbn [cp_with_chans c_threads c_nthreads c_nrun c_nact c_thrun c_thact c_virtual c_gindex c_chans update].
    match goal with |- context [chan_set _ _ E (with_scps w (update (scps w) c ?x))] => rewrite (chan_set_cpu' E w c x 1 h1 _ _ _ Hcw eq_refl K1 D1) end.
    cbn [cp_with_chans c_threads c_nthreads c_nrun c_nact c_thrun c_thact c_virtual c_gindex c_chans update].
    match goal with |- context [chan_set _ _ E (with_scps w (update (scps w) c ?x))] => rewrite (chan_set_cpu' E w c x 3 h3 _ _ _ Hcw eq_refl K3 D3) end.
    cbn [cp_with_chans c_threads c_nthreads c_nrun c_nact c_thrun c_thact c_virtual c_gindex c_chans update].
    rewrite (upd_cp_run' E w c _ _ Hcw).
    cbn [is_null negb c_threads c_nthreads c_nrun c_nact c_thrun c_thact c_virtual c_gindex c_chans].
    change ChanPre.vnull with (inj None).
    change {| ChanPre.vt := 1; ChanPre.vi := Z.of_nat (length lrun) |} with (inj (Some (Z.of_nat (length lrun)))).
    match goal with |- context [chan_set _ _ E (with_scps w (update (scps w) c ?x))] => rewrite (chan_set_cpu' E w c x 0 h0 _ _ _ Hcw eq_refl K0 D0) end.
    cbn [cp_with_chans c_threads c_nthreads c_nrun c_nact c_thrun c_thact c_virtual c_gindex c_chans update].
    match goal with |- context [chan_set _ _ E (with_scps w (update (scps w) c ?x))] => rewrite (chan_set_cpu' E w c x 4 h4 _ _ _ Hcw eq_refl K4 D4) end.
    cbn [cp_with_chans c_threads c_nthreads c_nrun c_nact c_thrun c_thact c_virtual c_gindex c_chans update].
    eexists. split; [reflexivity|].
    eapply Close; cbn [cp_with_chans c_threads c_virtual c_gindex c_chans]; try reflexivity; auto.
    + unfold v_cpupid. rewrite Etr, (Hinfo tr Htr). reflexivity.
    + unfold v_cputid. rewrite Etr, (Hinfo tr Htr). reflexivity.
    + unfold v_thrun. rewrite Etr. reflexivity.
  - (* not exactly one running, one active *)
    pose proof (Vnorun eq_refl) as Etr. destruct (Vact eq_refl) as (ta & Ela & Eta & Hta).
    rewrite Ela. cbn [is_null negb].
    cbn [c_threads c_nthreads c_nrun c_nact c_thrun c_thact c_virtual c_gindex c_chans].
    change ChanPre.vnull with (inj None).
    match goal with |- context [chan_set _ _ E (with_scps w (update (scps w) c ?x))] => rewrite (chan_set_cpu' E w c x 2 h2 _ _ _ Hcw eq_refl K2 D2) end.
    cbn [cp_with_chans c_threads c_nthreads c_nrun c_nact c_thrun c_thact c_virtual c_gindex c_chans update].
    match goal with |- context [chan_set _ _ E (with_scps w (update (scps w) c ?x))] => rewrite (chan_set_cpu' E w c x 1 h1 _ _ _ Hcw eq_refl K1 D1) end.
    cbn [cp_with_chans c_threads c_nthreads c_nrun c_nact c_thrun c_thact c_virtual c_gindex c_chans update].
    match goal with |- context [chan_set _ _ E (with_scps w (update (scps w) c ?x))] => rewrite (chan_set_cpu' E w c x 3 h3 _ _ _ Hcw eq_refl K3 D3) end.
    cbn [cp_with_chans c_threads c_nthreads c_nrun c_nact c_thrun c_thact c_virtual c_gindex c_chans update].
    rewrite (upd_cp_run' E w c _ _ Hcw).
    cbn [is_null negb c_threads c_nthreads c_nrun c_nact c_thrun c_thact c_virtual c_gindex c_chans].
    unfold sth at 1. cbn [with_scps sths]. fold (sth w ta).
    destruct (Hsth w eq_refl ta Hta) as (_ & _ & B3). rewrite B3.
    change {| ChanPre.vt := 1; ChanPre.vi := Z.of_nat ta |} with (inj (Some (Z.of_nat ta))).
    change {| ChanPre.vt := 1; ChanPre.vi := Z.of_nat (length lrun) |} with (inj (Some (Z.of_nat (length lrun)))).
    match goal with |- context [chan_set _ _ E (with_scps w (update (scps w) c ?x))] => rewrite (chan_set_cpu' E w c x 0 h0 _ _ _ Hcw eq_refl K0 D0) end.
    cbn [cp_with_chans c_threads c_nthreads c_nrun c_nact c_thrun c_thact c_virtual c_gindex c_chans update].
    match goal with |- context [chan_set _ _ E (with_scps w (update (scps w) c ?x))] => rewrite (chan_set_cpu' E w c x 4 h4 _ _ _ Hcw eq_refl K4 D4) end.
    cbn [cp_with_chans c_threads c_nthreads c_nrun c_nact c_thrun c_thact c_virtual c_gindex c_chans update].
    eexists. split; [reflexivity|].
    eapply Close; cbn [cp_with_chans c_threads c_virtual c_gindex c_chans]; try reflexivity; auto.
    + unfold v_cpupid. rewrite Etr. reflexivity.
    + unfold v_cputid. rewrite Etr. reflexivity.
    + unfold v_thrun. rewrite Etr. reflexivity.
  - (* neither *)
    pose proof (Vnorun eq_refl) as Etr. pose proof (Vnoact eq_refl) as Eta.
    cbn [is_null negb c_threads c_nthreads c_nrun c_nact c_thrun c_thact c_virtual c_gindex c_chans].
    change ChanPre.vnull with (inj None).
    match goal with |- context [chan_set _ _ E (with_scps w (update (scps w) c ?x))] => rewrite (chan_set_cpu' E w c x 2 h2 _ _ _ Hcw eq_refl K2 D2) end.
    cbn [cp_with_chans c_threads c_nthreads c_nrun c_nact c_thrun c_thact c_virtual c_gindex c_chans update].
    match goal with |- context [chan_set _ _ E (with_scps w (update (scps w) c ?x))] => rewrite (chan_set_cpu' E w c x 1 h1 _ _ _ Hcw eq_refl K1 D1) end.
    cbn [cp_with_chans c_threads c_nthreads c_nrun c_nact c_thrun c_thact c_virtual c_gindex c_chans update].
    match goal with |- context [chan_set _ _ E (with_scps w (update (scps w) c ?x))] => rewrite (chan_set_cpu' E w c x 3 h3 _ _ _ Hcw eq_refl K3 D3) end.
    cbn [cp_with_chans c_threads c_nthreads c_nrun c_nact c_thrun c_thact c_virtual c_gindex c_chans update].
    rewrite (upd_cp_run' E w c _ _ Hcw).
    cbn [is_null negb c_threads c_nthreads c_nrun c_nact c_thrun c_thact c_virtual c_gindex c_chans].
    change {| ChanPre.vt := 1; ChanPre.vi := Z.of_nat (length lrun) |} with (inj (Some (Z.of_nat (length lrun)))).
    match goal with |- context [chan_set _ _ E (with_scps w (update (scps w) c ?x))] => rewrite (chan_set_cpu' E w c x 0 h0 _ _ _ Hcw eq_refl K0 D0) end.
    cbn [cp_with_chans c_threads c_nthreads c_nrun c_nact c_thrun c_thact c_virtual c_gindex c_chans update].
    match goal with |- context [chan_set _ _ E (with_scps w (update (scps w) c ?x))] => rewrite (chan_set_cpu' E w c x 4 h4 _ _ _ Hcw eq_refl K4 D4) end.
    cbn [cp_with_chans c_threads c_nthreads c_nrun c_nact c_thrun c_thact c_virtual c_gindex c_chans update].
    eexists. split; [reflexivity|].
    eapply Close; cbn [cp_with_chans c_threads c_virtual c_gindex c_chans]; try reflexivity; auto.
    + unfold v_cpupid. rewrite Etr. reflexivity.
    + unfold v_cputid. rewrite Etr. reflexivity.
    + unfold v_thrun. rewrite Etr. reflexivity.
Qed.
End CpuUpdate.

(* ---------------------------------------------------------------- cpu.c: cpu_add_thread, cpu_remove_thread *)

Lemma clst_set_same st c l : (c < length (cpu_threads st))%nat -> clst (set_cpu_threads st c l) c = l.
Proof. intros H. unfold clst, set_cpu_threads; cbn [cpu_threads]. apply nth_update_same. exact H. Qed.
Lemma clst_set_other st c l k : c <> k -> clst (set_cpu_threads st c l) k = clst st k.
Proof. intros H. unfold clst, set_cpu_threads; cbn [cpu_threads]. apply nth_update_other. exact H. Qed.

Lemma cpu_views_set_other sx st c l k : c <> k -> cpu_views sx (set_cpu_threads st c l) k = cpu_views sx st k.
Proof.
  intros Ne.
  assert (R : running_on (set_cpu_threads st c l) k = running_on st k).
  { unfold running_on. cbn [set_cpu_threads cpu_threads]. rewrite nth_update_other by exact Ne. reflexivity. }
  assert (A : active_on (set_cpu_threads st c l) k = active_on st k).
  { unfold active_on. rewrite clst_set_other by exact Ne. reflexivity. }
  unfold cpu_views, v_nrun, v_cpupid, v_cputid, v_thrun, v_thact, th_running, nrunning. rewrite R, A. reflexivity.
Qed.

(* changing the list of a CPU that was not updated yet in this event *)
Lemma Rel_set_cpu_list sx st0 st syn w c l' x' :
  Rel sx st0 st syn w -> mem_nat c syn = false -> (c < length (cpu_threads st))%nat ->
  c_threads x' = l' -> c_virtual x' = c_virtual (scp w c) -> c_gindex x' = c_gindex (scp w c) -> c_chans x' = c_chans (scp w c) ->
  Rel sx st0 (set_cpu_threads st c l') syn (with_scps w (update (scps w) c x')).
Proof.
  intros [Hlt Hlt0 Hlc Hth Hcp] Hf Hc X1 X2 X3 X4.
  assert (Hlen : length (cpu_threads (set_cpu_threads st c l')) = length (cpu_threads st)) by (unfold set_cpu_threads; cbn [cpu_threads]; apply length_update).
  constructor; unfold with_scps; cbn [sths scps]; rewrite ?Hlen, ?length_update; auto.
  - intros t Ht. specialize (Hth t Ht). destruct Hth as [A1 A2 A3 A4 A5 A6 A7 A8 A9]. constructor; auto.
  - intros k Hk. destruct (Nat.eq_dec c k) as [<-|Ne].
    + unfold scp; cbn [scps]. rewrite nth_update_same by (rewrite Hlc; exact Hc).
      specialize (Hcp c Hc). rewrite Hf in *. destruct Hcp as [B1 B2 B3 [B4 B5]].
      constructor; rewrite ?X1, ?X2, ?X3, ?X4, ?clst_set_same by exact Hc; auto.
    + unfold scp; cbn [scps]. rewrite nth_update_other by exact Ne.
      specialize (Hcp k Hk). destruct Hcp as [B1 B2 B3 [B4 B5]].
      constructor; rewrite ?(clst_set_other st c l' k Ne); auto. split; [exact B4|].
      intros j Hj. specialize (B5 j Hj). rewrite (cpu_views_set_other sx st c l' k Ne). exact B5.
Qed.

Section CpuLists.
Variables (E : senv) (st0 st : state) (syn : list nat) (w : sys) (c t : nat).
Let sx := se_sx E.
Hypothesis HR : Rel sx st0 st syn w.
Hypothesis Hfresh : mem_nat c syn = false.
Hypothesis Hc : (c < length (cpu_threads st))%nat.

Lemma c_lt_w' : (c < length (scps w))%nat. Proof. rewrite (r_lc _ _ _ _ _ HR). exact Hc. Qed.

Lemma sys_cpu_add_thread :
  CpuOk sx (set_cpu_threads st c (clst st c ++ [t])) c ->
  match GuardsPre.cpu_add_thread (Some c) (Some t) sx st with
  | Ok (_, st') => exists w', Sys_gen.cpu_add_thread (Some c) (Some t) E w = Ok (tt, w') /\
                              Rel sx st0 st' (c :: syn) w' /\ frame_cpu w w' c
  | Err e => exists e', Sys_gen.cpu_add_thread (Some c) (Some t) E w = Err e' /\ e' <> E_TRAP
  end.
Proof.
  intros HO. pose proof c_lt_w' as Hcw.
  pose proof (pr_threads _ _ _ _ _ _ (r_cp _ _ _ _ _ HR c Hc)) as Pt.
  unfold GuardsPre.cpu_add_thread. fold (clst st c).
  unfold Sys_gen.cpu_add_thread. sunf. unfold find_thread. rewrite Pt.
  destruct (mem_nat t (clst st c)) eqn:Em; cbn [is_null negb].
  { exists E_FAIL. split; [reflexivity|discriminate]. }
  unfold DL_APPEND2_cpu_threads_cpu_prev_cpu_next. rewrite (upd_cp_run E w c _ Hcw).
  unfold get_cpu_nthreads, set_cpu_nthreads. rewrite (scp_with_same w c _ Hcw), (upd_cp_run' E w c _ _ Hcw).
  cbn [cp_with_threads c_threads c_nthreads c_nrun c_nact c_thrun c_thact c_virtual c_gindex c_chans]. rewrite Pt.
  match goal with |- context [Sys_gen.cpu_update (Some c) E (with_scps w (update (scps w) c ?x))] => set (x' := x) end.
  assert (HR' : Rel sx st0 (set_cpu_threads st c (clst st c ++ [t])) syn (with_scps w (update (scps w) c x'))).
  { apply Rel_set_cpu_list; auto. }
  pose proof (sys_cpu_update E st0 _ syn _ c HR' Hfresh HO) as K. fold sx in K.
  destruct (GuardsPre.cpu_update (Some c) sx (set_cpu_threads st c (clst st c ++ [t]))) as [[u st']|e].
  - destruct K as (w' & K1 & K2 & K3). exists w'. rewrite K1. split; [reflexivity|]. split; [exact K2|].
    destruct K3 as (F1 & F2 & F3). unfold frame_cpu. unfold with_scps in *; cbn [sths scps] in *.
    split; [exact F1|]. split; [rewrite F2; apply length_update|].
    intros k Ne. rewrite (F3 k Ne). unfold scp; cbn [scps]. apply nth_update_other. congruence.
  - destruct K as (e' & K1 & K2). exists e'. rewrite K1. split; [reflexivity|exact K2].
Qed.

Lemma sys_cpu_remove_thread :
  CpuOk sx (set_cpu_threads st c (remove_nat t (clst st c))) c ->
  match GuardsPre.cpu_remove_thread (Some c) (Some t) sx st with
  | Ok (_, st') => exists w', Sys_gen.cpu_remove_thread (Some c) (Some t) E w = Ok (tt, w') /\
                              Rel sx st0 st' (c :: syn) w' /\ frame_cpu w w' c
  | Err e => exists e', Sys_gen.cpu_remove_thread (Some c) (Some t) E w = Err e' /\ e' <> E_TRAP
  end.
Proof.
  intros HO. pose proof c_lt_w' as Hcw.
  pose proof (pr_threads _ _ _ _ _ _ (r_cp _ _ _ _ _ HR c Hc)) as Pt.
  unfold GuardsPre.cpu_remove_thread. fold (clst st c).
  unfold Sys_gen.cpu_remove_thread. sunf. unfold find_thread. rewrite Pt.
  destruct (mem_nat t (clst st c)) eqn:Em; cbn [is_null negb].
  2:{ exists E_FAIL. split; [reflexivity|discriminate]. }
  unfold DL_DELETE2_cpu_threads_cpu_prev_cpu_next. rewrite (upd_cp_run E w c _ Hcw).
  unfold get_cpu_nthreads, set_cpu_nthreads. rewrite (scp_with_same w c _ Hcw), (upd_cp_run' E w c _ _ Hcw).
  cbn [cp_with_threads c_threads c_nthreads c_nrun c_nact c_thrun c_thact c_virtual c_gindex c_chans]. rewrite Pt.
  match goal with |- context [Sys_gen.cpu_update (Some c) E (with_scps w (update (scps w) c ?x))] => set (x' := x) end.
  assert (HR' : Rel sx st0 (set_cpu_threads st c (remove_nat t (clst st c))) syn (with_scps w (update (scps w) c x'))).
  { apply Rel_set_cpu_list; auto. }
  pose proof (sys_cpu_update E st0 _ syn _ c HR' Hfresh HO) as K. fold sx in K.
  destruct (GuardsPre.cpu_update (Some c) sx (set_cpu_threads st c (remove_nat t (clst st c)))) as [[u st']|e].
  - destruct K as (w' & K1 & K2 & K3). exists w'. rewrite K1. split; [reflexivity|]. split; [exact K2|].
    destruct K3 as (F1 & F2 & F3). unfold frame_cpu. unfold with_scps in *; cbn [sths scps] in *.
    split; [exact F1|]. split; [rewrite F2; apply length_update|].
    intros k Ne. rewrite (F3 k Ne). unfold scp; cbn [scps]. apply nth_update_other. congruence.
  - destruct K as (e' & K1 & K2). exists e'. rewrite K1. split; [reflexivity|exact K2].
Qed.
End CpuLists.

(* ---------------------------------------------------------------- the handlers over the generated thread.c / cpu.c *)

(* how the result of a handler of Gen/Sys_gen.v (C world) relates to that of the same handler of Gen/Guards_gen.v
   (semantic state, primitives of GuardsPre.v): accepted together, with related final states; refused together;
   the C-world handler never dereferences NULL where the other one gives a verdict *)
(* the CPUs that were not updated in the event show the same views as at its start *)
Definition Quiet (sx : static) (st0 st' : state) (syn : list nat) : Prop :=
  forall k, mem_nat k syn = false -> cpu_views sx st' k = cpu_views sx st0 k.

Definition hrel (sx : static) (st0 : state) (r1 : result (unit * sys)) (r2 : result (unit * state)) : Prop :=
  match r2 with
  | Ok (_, st') => exists w' syn', r1 = Ok (tt, w') /\ Rel sx st0 st' syn' w' /\ Quiet sx st0 st' syn'
  | Err e => e = GuardsPre.E_TRAP \/ exists e', r1 = Err e' /\ e' <> E_TRAP
  end.

(* start of an event: nothing dirty, last values = the views of the state *)
Definition Rel0 (sx : static) (st : state) (w : sys) : Prop :=
  Rel sx st st [] w /\ forall t ch, In ch (s_chans (sth w t)) -> ChanPre.is_dirty ch = 0.

(* what the C takes for granted about the semantic state (consequences of the invariant Bind) *)
Definition AllOk (sx : static) (st : state) : Prop :=
  (forall c, (c < length (cpu_threads st))%nat -> CpuOk sx st c) /\
  (forall t c, (t < length (threads st))%nat -> t_cpu (thrst st t) = Some c -> (c < length (cpu_threads st))%nat) /\
  length (cpu_threads st) = length (s_cpus sx) /\
  (forall c, Z.of_nat (length (clst st c)) + 1 < 2 ^ 31) /\
  (forall t k, In t (clst st k) -> t_cpu (thrst st t) = Some k).

Lemma CpuOk_set_thread sx st t x c : CpuOk sx st c -> CpuOk sx (set_thread st t x) c.
Proof.
  intros [A B C D F]. constructor; auto.
  - intros t' Ht'. unfold set_thread; cbn [threads]. rewrite length_update. apply C. exact Ht'.
  - unfold set_thread; cbn [threads]. rewrite length_update. exact D.
Qed.

Lemma thr_eq st t : GuardsPre.gthr st t = thrst st t. Proof. reflexivity. Qed.

Lemma chans3 sx st0 st syn w t : Rel sx st0 st syn w -> (t < length (threads st))%nat ->
  exists c0 c1 c2, s_chans (sth w t) = [c0; c1; c2].
Proof. intros HR Ht. destruct (tr_chans _ _ _ _ _ (r_th _ _ _ _ _ HR t Ht)) as (c0 & c1 & c2 & H & _). eauto. Qed.

Lemma remove_nat_incl x l y : In y (remove_nat x l) -> In y l.
Proof.
  induction l as [|a l IH]; cbn [remove_nat]; [tauto|]. destruct (Nat.eqb x a); cbn [In]; [tauto|]. intros [H|H]; [left; exact H|right; apply IH; exact H].
Qed.
Lemma remove_nat_len x l : (length (remove_nat x l) <= length l)%nat.
Proof. induction l as [|a l IH]; cbn [remove_nat]; [lia|]. destruct (Nat.eqb x a); cbn [length]; lia. Qed.

Lemma CpuOk_remove sxx st' c x : CpuOk sxx st' c -> CpuOk sxx (set_cpu_threads st' c (remove_nat x (clst st' c))) c.
Proof.
  intros [A B C D F]. constructor; unfold set_cpu_threads; cbn [cpu_threads cpu_touched threads]; rewrite ?length_update; auto.
  - intros t' Ht'. unfold clst in Ht'. cbn [cpu_threads] in Ht'. rewrite nth_update_same in Ht' by exact A.
    apply C. eapply remove_nat_incl; eauto.
  - unfold clst; cbn [cpu_threads]. rewrite nth_update_same by exact A. pose proof (remove_nat_len x (clst st' c)). fold (clst st' c). lia.
Qed.

Lemma CpuOk_add sxx st' c x : CpuOk sxx st' c -> (x < length (threads st'))%nat -> Z.of_nat (length (clst st' c)) + 1 < 2 ^ 31 ->
  CpuOk sxx (set_cpu_threads st' c (clst st' c ++ [x])) c.
Proof.
  intros [A B C D F] Hx Hs. constructor; unfold set_cpu_threads; cbn [cpu_threads cpu_touched threads]; rewrite ?length_update; auto.
  - intros t' Ht'. unfold clst in Ht'. cbn [cpu_threads] in Ht'. rewrite nth_update_same in Ht' by exact A.
    apply in_app_or in Ht' as [H|[<-|[]]]; [apply C; exact H|exact Hx].
  - unfold clst; cbn [cpu_threads]. rewrite nth_update_same by exact A. fold (clst st' c). rewrite app_length. cbn [length]. lia.
Qed.

Lemma tso_set_other st t x t' : t <> t' -> thread_state_of (set_thread st t x) t' = thread_state_of st t'.
Proof. intros H. unfold thread_state_of, set_thread; cbn [threads]. rewrite nth_update_other by exact H. reflexivity. Qed.

(* the views of a CPU only depend on the threads of its list *)
Lemma views_set_thread_notin sx st t x k : ~ In t (clst st k) -> cpu_views sx (set_thread st t x) k = cpu_views sx st k.
Proof.
  intros Hn.
  assert (R : running_on (set_thread st t x) k = running_on st k).
  { unfold running_on. cbn [set_thread cpu_threads]. fold (clst st k). apply filter_ext_in. intros a Ha.
    rewrite tso_set_other; [reflexivity|]. intros ->. contradiction. }
  assert (A : active_on (set_thread st t x) k = active_on st k).
  { unfold active_on. change (clst (set_thread st t x) k) with (clst st k). apply filter_ext_in. intros a Ha.
    rewrite tso_set_other; [reflexivity|]. intros ->. contradiction. }
  unfold cpu_views, v_nrun, v_cpupid, v_cputid, v_thrun, v_thact, th_running, nrunning. rewrite R, A. reflexivity.
Qed.

Lemma guards_cpu_update_result sx st c u st' : GuardsPre.cpu_update (Some c) sx st = Ok (u, st') -> st' = touch st c.
Proof. unfold GuardsPre.cpu_update. destruct (oversubscribed sx (touch st c) c); intros H; inversion H. reflexivity. Qed.

Lemma guards_unset_result sx st t u st' : (t < length (threads st))%nat ->
  GuardsPre.thread_unset_cpu (Some t) sx st = Ok (u, st') -> st' = set_thread st t (with_cpu (thrst st t) None).
Proof.
  intros Ht. unfold GuardsPre.thread_unset_cpu, GuardsPre.with_thread, nth_opt. rewrite (nth_error_nth' _ _ dummy_thread Ht). fold (thrst st t).
  destruct (t_cpu (thrst st t)); intros H; inversion H. reflexivity.
Qed.
Lemma guards_migrate_result sx st t c u st' : (t < length (threads st))%nat ->
  GuardsPre.thread_migrate_cpu (Some t) (Some c) sx st = Ok (u, st') -> st' = set_thread st t (with_cpu (thrst st t) (Some c)).
Proof.
  intros Ht. unfold GuardsPre.thread_migrate_cpu, GuardsPre.with_thread, nth_opt. rewrite (nth_error_nth' _ _ dummy_thread Ht). fold (thrst st t).
  destruct (t_cpu (thrst st t)) as [o|]; [destruct (Nat.eqb o c)|]; intros H; inversion H. reflexivity.
Qed.
Lemma guards_add_result sx st c r u st1 : GuardsPre.cpu_add_thread (Some c) (Some r) sx st = Ok (u, st1) ->
  st1 = touch (set_cpu_threads st c (clst st c ++ [r])) c.
Proof.
  unfold GuardsPre.cpu_add_thread, GuardsPre.cpu_update. fold (clst st c).
  destruct (mem_nat r (clst st c)); [discriminate|].
  destruct (oversubscribed sx _ c); intros H; inversion H. reflexivity.
Qed.

Lemma guards_remove_result sx st c r u st1 : GuardsPre.cpu_remove_thread (Some c) (Some r) sx st = Ok (u, st1) ->
  st1 = touch (set_cpu_threads st c (remove_nat r (clst st c))) c.
Proof.
  unfold GuardsPre.cpu_remove_thread, GuardsPre.cpu_update. fold (clst st c).
  destruct (negb (mem_nat r (clst st c))); [discriminate|].
  destruct (oversubscribed sx _ c); intros H; inversion H. reflexivity.
Qed.

Lemma mem_single k c : mem_nat k [c] = false -> k <> c.
Proof. unfold mem_nat; cbn [existsb]. rewrite orb_false_r. intros H ->. rewrite Nat.eqb_refl in H. discriminate. Qed.

Lemma Quiet_nil sx st : Quiet sx st st []. Proof. intros k _. reflexivity. Qed.

Section Handlers.
Variables (E : senv) (st : state) (w : sys) (t : nat).
Let sx := se_sx E.
Hypothesis H0 : Rel0 sx st w.
Hypothesis Ht : (t < length (threads st))%nat.
Hypothesis HOk : AllOk sx st.

Lemma gs_state : get_thread_state E w (Some t) = GuardsPre.get_thread_state sx st (Some t).
Proof. unfold get_thread_state, GuardsPre.get_thread_state. rewrite thr_eq. apply (tr_state _ _ _ _ _ (r_th _ _ _ _ _ (proj1 H0) t Ht)). Qed.

(* thread_set_state, then cpu_update of the thread's CPU: the tail of pause / resume / cool / warm *)
Lemma change_tail s : s <> Unknown ->
  hrel sx st
    (bind_ (Sys_gen.thread_set_state (Some t) (tst_code s))
       (bind_ (need (fun sx st => negb (is_null (Some t)))
                 (bind (eval (fun sx st => get_thread_cpu sx st (Some t))) (fun a1_ => Sys_gen.cpu_update a1_))) (ret tt)) E w)
    (GuardsPre.bind_ (GuardsPre.thread_set_state (Some t) (tst_code s))
       (GuardsPre.bind_ (GuardsPre.need (fun sx st => negb (is_null (Some t)))
                 (GuardsPre.bind (GuardsPre.eval (fun sx st => GuardsPre.get_thread_cpu sx st (Some t))) (fun a1_ => GuardsPre.cpu_update a1_)))
          (GuardsPre.ret tt)) sx st).
Proof.
  intros Hs. destruct H0 as [HR HC]. destruct HOk as (HO1 & HO2 & HO3 & HO4 & HO5). destruct (chans3 _ _ _ _ _ _ HR Ht) as (c0 & c1 & c2 & Hch).
  pose proof (sys_thread_set_state E st st w t HR Ht s c0 c1 c2 Hs Hch
                (HC t c1 ltac:(rewrite Hch; cbn; auto)) (HC t c2 ltac:(rewrite Hch; cbn; auto))) as K. fold sx in K.
  unfold bind_ at 1, bind at 1. unfold GuardsPre.bind_ at 1, GuardsPre.bind at 1.
  destruct (GuardsPre.thread_set_state (Some t) (tst_code s) sx st) as [[u st1]|e].
  2:{ destruct K as (e' & K1 & K2). rewrite K1. right. exists e'. split; [reflexivity|exact K2]. }
  destruct K as (w1 & K1 & -> & HR1 & KF & _). rewrite K1.
  unfold bind_, bind, need, eval, ret, GuardsPre.bind_, GuardsPre.bind, GuardsPre.need, GuardsPre.eval, GuardsPre.ret. cbn [is_null negb].
  remember (set_thread st t (with_state (thrst st t) s)) as st1 eqn:Est1.
  assert (Ht1 : (t < length (threads st1))%nat) by (rewrite <- (r_lt0 _ _ _ _ _ HR1); exact Ht).
  assert (Hcpu : get_thread_cpu E w1 (Some t) = GuardsPre.get_thread_cpu sx st1 (Some t)).
  { unfold get_thread_cpu, GuardsPre.get_thread_cpu. rewrite thr_eq. apply (tr_cpu _ _ _ _ _ (r_th _ _ _ _ _ HR1 t Ht1)). }
  assert (Hcpu2 : GuardsPre.get_thread_cpu sx st1 (Some t) = t_cpu (thrst st t)).
  { unfold GuardsPre.get_thread_cpu. rewrite thr_eq, Est1, (thrst_set_same st t _ Ht). reflexivity. }
  rewrite Hcpu, Hcpu2.
  destruct (t_cpu (thrst st t)) as [c|] eqn:Ec.
  2:{ left. reflexivity. }
  pose proof (HO2 t c Ht Ec) as Hc.
  assert (HO' : CpuOk sx st1 c) by (rewrite Est1; apply CpuOk_set_thread; apply HO1; exact Hc).
  pose proof (sys_cpu_update E st st1 [] w1 c HR1 eq_refl HO') as K2. fold sx in K2.
  destruct (GuardsPre.cpu_update (Some c) sx st1) as [[u2 st2]|e2] eqn:Eg2.
  - destruct K2 as (w2 & K21 & K22 & _). rewrite K21. exists w2, [c]. split; [reflexivity|]. split; [exact K22|].
    rewrite (guards_cpu_update_result sx st1 c u2 st2 Eg2), Est1. intros k Hk. apply mem_single in Hk.
    rewrite cpu_views_touch_other by exact Hk. apply views_set_thread_notin.
    intros Hin. apply Hk. pose proof (HO5 t k Hin) as Q. congruence.
  - destruct K2 as (e' & K21 & K22). rewrite K21. right. exists e'. split; [reflexivity|exact K22].
Qed.

Lemma if_same (b : bool) : (if b then true else true) = true. Proof. destruct b; reflexivity. Qed.

Ltac top_guard :=
  unfold need at 1, ite at 1; unfold GuardsPre.need at 1, GuardsPre.ite at 1; cbn [is_null negb andb];
  rewrite ?gs_state, ?if_same.

Ltac state_tac s :=
  top_guard;
  match goal with |- hrel _ _ (if ?c then _ else _) _ => destruct c end;
  [ right; exists E_FAIL; split; [reflexivity|discriminate] | apply (change_tail s); discriminate ].

Lemma sys_pause : hrel sx st (Sys_gen.pre_thread_pause (Some t) E w) (Guards_gen.pre_thread_pause (Some t) sx st).
Proof.
  unfold Sys_gen.pre_thread_pause, Guards_gen.pre_thread_pause.
  change (cast_uint32 Sys_gen.c_TH_ST_PAUSED) with (tst_code Paused). change (cast_uint32 Guards_gen.c_TH_ST_PAUSED) with (tst_code Paused).
  change (cast_uint32 Sys_gen.c_TH_ST_RUNNING) with (cast_uint32 Guards_gen.c_TH_ST_RUNNING).
  change (cast_uint32 Sys_gen.c_TH_ST_COOLING) with (cast_uint32 Guards_gen.c_TH_ST_COOLING).
  state_tac Paused.
Qed.

Ltac consts :=
  change (cast_uint32 Sys_gen.c_TH_ST_RUNNING) with (cast_uint32 Guards_gen.c_TH_ST_RUNNING);
  change (cast_uint32 Sys_gen.c_TH_ST_COOLING) with (cast_uint32 Guards_gen.c_TH_ST_COOLING);
  change (cast_uint32 Sys_gen.c_TH_ST_WARMING) with (cast_uint32 Guards_gen.c_TH_ST_WARMING);
  change (cast_uint32 Sys_gen.c_TH_ST_PAUSED) with (cast_uint32 Guards_gen.c_TH_ST_PAUSED);
  change (cast_uint32 Sys_gen.c_TH_ST_DEAD) with (cast_uint32 Guards_gen.c_TH_ST_DEAD);
  change (cast_uint32 Sys_gen.c_TH_ST_UNKNOWN) with (cast_uint32 Guards_gen.c_TH_ST_UNKNOWN).

Lemma sys_resume : hrel sx st (Sys_gen.pre_thread_resume (Some t) E w) (Guards_gen.pre_thread_resume (Some t) sx st).
Proof.
  unfold Sys_gen.pre_thread_resume, Guards_gen.pre_thread_resume. consts.
  change (cast_uint32 Guards_gen.c_TH_ST_RUNNING) with (tst_code Running). state_tac Running.
Qed.

Lemma sys_cool : hrel sx st (Sys_gen.pre_thread_cool (Some t) E w) (Guards_gen.pre_thread_cool (Some t) sx st).
Proof.
  unfold Sys_gen.pre_thread_cool, Guards_gen.pre_thread_cool. consts.
  change (cast_uint32 Guards_gen.c_TH_ST_COOLING) with (tst_code Cooling). state_tac Cooling.
Qed.

Lemma sys_warm : hrel sx st (Sys_gen.pre_thread_warm (Some t) E w) (Guards_gen.pre_thread_warm (Some t) sx st).
Proof.
  unfold Sys_gen.pre_thread_warm, Guards_gen.pre_thread_warm. consts.
  change (cast_uint32 Guards_gen.c_TH_ST_WARMING) with (tst_code Warming). state_tac Warming.
Qed.

Lemma sys_end : hrel sx st (Sys_gen.pre_thread_end (Some t) E w) (Guards_gen.pre_thread_end (Some t) sx st).
Proof.
  unfold Sys_gen.pre_thread_end, Guards_gen.pre_thread_end. consts.
  change (cast_uint32 Guards_gen.c_TH_ST_DEAD) with (tst_code Dead).
  top_guard.
  match goal with |- hrel _ _ (if ?c then _ else _) _ => destruct c end.
  { right. exists E_FAIL. split; [reflexivity|discriminate]. }
  destruct H0 as [HR HC]. destruct HOk as (HO1 & HO2 & HO3 & HO4 & HO5). destruct (chans3 _ _ _ _ _ _ HR Ht) as (c0 & c1 & c2 & Hch).
  pose proof (sys_thread_set_state E st st w t HR Ht Dead c0 c1 c2 ltac:(discriminate) Hch
                (HC t c1 ltac:(rewrite Hch; cbn; auto)) (HC t c2 ltac:(rewrite Hch; cbn; auto))) as K. fold sx in K.
  unfold bind_ at 1, bind at 1. unfold GuardsPre.bind_ at 1, GuardsPre.bind at 1.
  destruct (GuardsPre.thread_set_state (Some t) (tst_code Dead) sx st) as [[u st1]|e].
  2:{ destruct K as (e' & K1 & K2). rewrite K1. right. exists e'. split; [reflexivity|exact K2]. }
  destruct K as (w1 & K1 & -> & HR1 & KF & K0). rewrite K1.
  remember (set_thread st t (with_state (thrst st t) Dead)) as st1 eqn:Est1.
  assert (Ht1 : (t < length (threads st1))%nat) by (rewrite <- (r_lt0 _ _ _ _ _ HR1); exact Ht).
  assert (Hcpu : get_thread_cpu E w1 (Some t) = GuardsPre.get_thread_cpu sx st1 (Some t)).
  { unfold get_thread_cpu, GuardsPre.get_thread_cpu. rewrite thr_eq. apply (tr_cpu _ _ _ _ _ (r_th _ _ _ _ _ HR1 t Ht1)). }
  assert (Hcpu2 : GuardsPre.get_thread_cpu sx st1 (Some t) = t_cpu (thrst st t)).
  { unfold GuardsPre.get_thread_cpu. rewrite thr_eq, Est1, (thrst_set_same st t _ Ht). reflexivity. }
  unfold bind_ at 1, bind at 1, need at 1, eval at 1. unfold GuardsPre.bind_ at 1, GuardsPre.bind at 1, GuardsPre.need at 1, GuardsPre.eval at 1.
  cbn [is_null negb]. unfold bind at 1, GuardsPre.bind at 1. rewrite Hcpu, Hcpu2.
  destruct (t_cpu (thrst st t)) as [c|] eqn:Ec.
  2:{ left. reflexivity. }
  pose proof (HO2 t c Ht Ec) as Hc.
  assert (Hc1 : (c < length (cpu_threads st1))%nat) by (rewrite Est1; exact Hc).
  assert (HO' : CpuOk sx (set_cpu_threads st1 c (remove_nat t (clst st1 c))) c).
  { apply CpuOk_remove. rewrite Est1. apply CpuOk_set_thread. apply HO1. exact Hc. }
  pose proof (sys_cpu_remove_thread E st st1 [] w1 c t HR1 eq_refl Hc1 HO') as K2. fold sx in K2.
  destruct (GuardsPre.cpu_remove_thread (Some c) (Some t) sx st1) as [[u2 st2]|e2] eqn:Eg2.
  2:{ destruct K2 as (e' & K21 & K22). rewrite K21. right. exists e'. split; [reflexivity|exact K22]. }
  pose proof (guards_remove_result sx st1 c t u2 st2 Eg2) as Est2.
  destruct K2 as (w2 & K21 & HR2 & (F1 & F2 & F3)). rewrite K21.
  assert (Ht2 : (t < length (threads st2))%nat) by (rewrite <- (r_lt0 _ _ _ _ _ HR2); exact Ht).
  destruct (chans3 _ _ _ _ _ _ HR1 Ht1) as (d0 & d1 & d2 & Hch1).
  assert (Hd0 : ChanPre.is_dirty d0 = 0).
  { rewrite Hch1 in K0. cbn [nth] in K0. subst d0. apply (HC t c0). rewrite Hch. left. reflexivity. }
  assert (Hch2 : s_chans (sth w2 t) = [d0; d1; d2]) by (unfold sth; rewrite F1; exact Hch1).
  pose proof (sys_thread_unset_cpu E st st2 [c] w2 t HR2 Ht2 d0 d1 d2 Hch2 Hd0) as K3. fold sx in K3.
  unfold bind_, bind, ret, GuardsPre.bind_, GuardsPre.bind, GuardsPre.ret.
  destruct (GuardsPre.thread_unset_cpu (Some t) sx st2) as [[u3 st3]|e3] eqn:Eg3.
  - destruct K3 as (w3 & K31 & K32 & _). rewrite K31. exists w3, [c]. split; [reflexivity|]. split; [exact K32|].
    rewrite (guards_unset_result sx st2 t u3 st3 Ht2 Eg3). intros k Hk. apply mem_single in Hk.
    rewrite (cpu_views_with_cpu sx st2 t None k Ht2), Est2, cpu_views_touch_other by exact Hk.
    rewrite cpu_views_set_other by congruence. rewrite Est1. apply views_set_thread_notin.
    intros Hin. apply Hk. pose proof (HO5 t k Hin) as Q. congruence.
  - destruct K3 as (e' & K31 & K32). rewrite K31. right. exists e'. split; [reflexivity|exact K32].
Qed.

Lemma guards_set_cpu_result c u st1 : GuardsPre.thread_set_cpu (Some t) (Some c) sx st = Ok (u, st1) ->
  st1 = set_thread st t (with_cpu (thrst st t) (Some c)).
Proof.
  unfold GuardsPre.thread_set_cpu, GuardsPre.with_thread, nth_opt. rewrite (nth_error_nth' _ _ dummy_thread Ht). fold (thrst st t).
  destruct (t_cpu (thrst st t)); intros H; inversion H. reflexivity.
Qed.

Lemma guards_set_cpu_unbound c u st1 : GuardsPre.thread_set_cpu (Some t) (Some c) sx st = Ok (u, st1) -> t_cpu (thrst st t) = None.
Proof.
  unfold GuardsPre.thread_set_cpu, GuardsPre.with_thread, nth_opt. rewrite (nth_error_nth' _ _ dummy_thread Ht). fold (thrst st t).
  destruct (t_cpu (thrst st t)); intros H; [discriminate H|reflexivity].
Qed.

Lemma sys_execute e : GuardsPre.e_who e = t ->
  hrel sx st (Sys_gen.pre_thread_execute e (Some t) E w) (Guards_gen.pre_thread_execute e (Some t) sx st).
Proof.
  intros Hwho. unfold Sys_gen.pre_thread_execute, Guards_gen.pre_thread_execute. consts.
  change (cast_uint32 Guards_gen.c_TH_ST_RUNNING) with (tst_code Running).
  top_guard.
  match goal with |- hrel _ _ (if ?c then _ else _) _ => destruct c end.
  { right. exists E_FAIL. split; [reflexivity|discriminate]. }
  unfold ite at 1, GuardsPre.ite at 1.
  change (get_emu_ev_payload_size E w e) with (GuardsPre.get_emu_ev_payload_size sx st e).
  match goal with |- hrel _ _ (if ?c then _ else _) _ => destruct c end.
  { right. exists E_FAIL. split; [reflexivity|discriminate]. }
  unfold need at 1, GuardsPre.need at 1.
  change (get_emu_ev_payload E w e) with (GuardsPre.get_emu_ev_payload sx st e).
  match goal with |- hrel _ _ (if ?c then _ else _) _ => destruct c end.
  2:{ left. reflexivity. }
  unfold bind at 1, eval at 1, GuardsPre.bind at 1, GuardsPre.eval at 1.
  change (get_emu_ev_payload_i32 E w e) with (GuardsPre.get_emu_ev_payload_i32 sx st e).
  unfold bind at 1, eval at 1, GuardsPre.bind at 1, GuardsPre.eval at 1.
  change (loom_get_cpu E w (get_emu_loom E w e)) with (GuardsPre.loom_get_cpu sx st (GuardsPre.get_emu_loom sx st e)).
  unfold GuardsPre.loom_get_cpu, GuardsPre.get_emu_loom. rewrite Hwho.
  destruct (find_cpu sx (thread_loom sx t) (ix (GuardsPre.get_emu_ev_payload_i32 sx st e) 0)) as [c|] eqn:Efc;
    unfold ite at 1, GuardsPre.ite at 1; cbn [is_null].
  2:{ right. exists E_FAIL. split; [reflexivity|discriminate]. }
  destruct H0 as [HR HC]. destruct HOk as (HO1 & HO2 & HO3 & HO4 & HO5). destruct (chans3 _ _ _ _ _ _ HR Ht) as (c0 & c1 & c2 & Hch).
  assert (Hc : (c < length (cpu_threads st))%nat) by (rewrite HO3; eapply ThreadCpuProofs.find_cpu_lt; eauto).
  assert (Hd0 : ChanPre.is_dirty c0 = 0) by (apply (HC t); rewrite Hch; cbn; auto).
  assert (Hd1 : ChanPre.is_dirty c1 = 0) by (apply (HC t); rewrite Hch; cbn; auto).
  assert (Hd2 : ChanPre.is_dirty c2 = 0) by (apply (HC t); rewrite Hch; cbn; auto).
  pose proof (sys_thread_set_cpu E st st [] w t HR Ht c0 c1 c2 Hch Hd0 c Hc) as K. fold sx in K.
  unfold bind_ at 1, bind at 1. unfold GuardsPre.bind_ at 1, GuardsPre.bind at 1.
  destruct (GuardsPre.thread_set_cpu (Some t) (Some c) sx st) as [[u st1]|e1] eqn:Eg1.
  2:{ destruct K as (e' & K1 & K2). rewrite K1. right. exists e'. split; [reflexivity|exact K2]. }
  pose proof (guards_set_cpu_result c u st1 Eg1) as Est1.
  destruct K as (w1 & K1 & HR1 & KF1 & Kk1). rewrite K1.
  assert (Ht1 : (t < length (threads st1))%nat) by (rewrite <- (r_lt0 _ _ _ _ _ HR1); exact Ht).
  destruct (chans3 _ _ _ _ _ _ HR1 Ht1) as (d0 & d1 & d2 & Hch1).
  assert (Ed1 : d1 = c1) by (pose proof (Kk1 1%nat ltac:(cbn; auto)) as Q; rewrite Hch1, Hch in Q; exact Q).
  assert (Ed2 : d2 = c2) by (pose proof (Kk1 2%nat ltac:(cbn; auto)) as Q; rewrite Hch1, Hch in Q; exact Q).
  subst d1 d2.
  pose proof (sys_thread_set_state E st st1 w1 t HR1 Ht1 Running d0 c1 c2 ltac:(discriminate) Hch1 Hd1 Hd2) as K2. fold sx in K2.
  unfold bind_ at 1, bind at 1. unfold GuardsPre.bind_ at 1, GuardsPre.bind at 1.
  destruct (GuardsPre.thread_set_state (Some t) (tst_code Running) sx st1) as [[u2 st2]|e2].
  2:{ destruct K2 as (e' & K21 & K22). rewrite K21. right. exists e'. split; [reflexivity|exact K22]. }
  destruct K2 as (w2 & K21 & Est2 & HR2 & _). rewrite K21.
  assert (Hc2 : (c < length (cpu_threads st2))%nat).
  { rewrite Est2. cbn [set_thread cpu_threads]. rewrite <- (r_lc _ _ _ _ _ HR1). destruct KF1 as (F1 & _). rewrite F1, (r_lc _ _ _ _ _ HR). exact Hc. }

  assert (HOc : CpuOk sx st2 c).
  { rewrite Est2. apply CpuOk_set_thread. rewrite Est1. apply CpuOk_set_thread. apply HO1. exact Hc. }
  assert (Hcl : clst st2 c = clst st c) by (rewrite Est2, Est1; reflexivity).
  assert (HO' : CpuOk sx (set_cpu_threads st2 c (clst st2 c ++ [t])) c).
  { apply CpuOk_add; [exact HOc| |rewrite Hcl; apply HO4].
    rewrite <- (r_lt0 _ _ _ _ _ HR2). exact Ht. }
  pose proof (sys_cpu_add_thread E st st2 [] w2 c t HR2 eq_refl Hc2 HO') as K3. fold sx in K3.
  unfold bind_, bind, ret, GuardsPre.bind_, GuardsPre.bind, GuardsPre.ret.
  destruct (GuardsPre.cpu_add_thread (Some c) (Some t) sx st2) as [[u3 st3]|e3] eqn:Eg3.
  - destruct K3 as (w3 & K31 & K32 & _). rewrite K31. exists w3, [c]. split; [reflexivity|]. split; [exact K32|].
    rewrite (guards_add_result sx st2 c t u3 st3 Eg3). intros k Hk. apply mem_single in Hk.
    rewrite cpu_views_touch_other by exact Hk. rewrite cpu_views_set_other by congruence.
    pose proof (guards_set_cpu_unbound c u st1 Eg1) as Hun.
    assert (Hn : ~ In t (clst st k)) by (intros Hin; pose proof (HO5 t k Hin) as Q; congruence).
    rewrite Est2. rewrite views_set_thread_notin by (rewrite Est1; exact Hn).
    rewrite Est1. apply views_set_thread_notin. exact Hn.
  - destruct K3 as (e' & K31 & K32). rewrite K31. right. exists e'. split; [reflexivity|exact K32].
Qed.
End Handlers.

(* ---------------------------------------------------------------- migrations *)

Lemma CpuOk_other sx st old l k : old <> k -> CpuOk sx st k -> CpuOk sx (touch (set_cpu_threads st old l) old) k.
Proof.
  intros Ne [A B C D F]. constructor; cbn [touch set_cpu_threads cpu_threads cpu_touched threads]; rewrite ?length_update; auto.
  - intros t' Ht'. apply C. unfold clst in *. cbn [touch set_cpu_threads cpu_threads] in Ht'. rewrite nth_update_other in Ht' by exact Ne. exact Ht'.
  - unfold clst in *. cbn [touch set_cpu_threads cpu_threads]. rewrite nth_update_other by exact Ne. exact F.
Qed.

Section Migrate.
Variables (E : senv) (st : state) (w : sys) (r : nat).
Let sx := se_sx E.
Hypothesis H0 : Rel0 sx st w.
Hypothesis Hr : (r < length (threads st))%nat.
Hypothesis HOk : AllOk sx st.

(* cpu_migrate_thread(old, r, new); thread_migrate_cpu(r, new), the CPUs being different *)
Lemma migrate_tail_sys old new :
  t_cpu (thrst st r) = Some old -> Nat.eqb old new = false -> (new < length (cpu_threads st))%nat ->
  hrel sx st
    (bind_ (Sys_gen.cpu_migrate_thread (Some old) (Some r) (Some new)) (bind_ (Sys_gen.thread_migrate_cpu (Some r) (Some new)) (ret tt)) E w)
    (GuardsPre.bind_ (Guards_gen.cpu_migrate_thread (Some old) (Some r) (Some new))
       (GuardsPre.bind_ (GuardsPre.thread_migrate_cpu (Some r) (Some new)) (GuardsPre.ret tt)) sx st).
Proof.
  intros Eold Ene Hnew. destruct H0 as [HR HC]. destruct HOk as (HO1 & HO2 & HO3 & HO4 & HO5).
  pose proof (HO2 r old Hr Eold) as Hold.
  apply Nat.eqb_neq in Ene.
  unfold Sys_gen.cpu_migrate_thread, Guards_gen.cpu_migrate_thread.
  unfold bind_ at 1 2, bind at 1 2. unfold GuardsPre.bind_ at 1 2, GuardsPre.bind at 1 2.
  pose proof (sys_cpu_remove_thread E st st [] w old r HR eq_refl Hold (CpuOk_remove sx st old r (HO1 old Hold))) as K1. fold sx in K1.
  destruct (GuardsPre.cpu_remove_thread (Some old) (Some r) sx st) as [[u1 st1]|e1] eqn:Eg1.
  2:{ destruct K1 as (e' & K11 & K12). rewrite K11. right. exists e'. split; [reflexivity|exact K12]. }
  pose proof (guards_remove_result sx st old r u1 st1 Eg1) as Est1.
  destruct K1 as (w1 & K11 & HR1 & (F11 & F12 & F13)). rewrite K11.
  assert (Hnew1 : (new < length (cpu_threads st1))%nat) by (rewrite Est1; cbn [touch set_cpu_threads cpu_threads]; rewrite length_update; exact Hnew).
  assert (Hr1 : (r < length (threads st1))%nat) by (rewrite <- (r_lt0 _ _ _ _ _ HR1); exact Hr).
  assert (Hcl : clst st1 new = clst st new).
  { rewrite Est1. unfold clst. cbn [touch set_cpu_threads cpu_threads]. apply nth_update_other. exact Ene. }
  assert (HOn : CpuOk sx st1 new) by (rewrite Est1; apply CpuOk_other; [exact Ene|apply HO1; exact Hnew]).
  assert (HO' : CpuOk sx (set_cpu_threads st1 new (clst st1 new ++ [r])) new).
  { apply CpuOk_add; [exact HOn|exact Hr1|rewrite Hcl; apply HO4]. }
  assert (Hfr : mem_nat new [old] = false).
  { unfold mem_nat; cbn [existsb]. rewrite orb_false_r. apply Nat.eqb_neq. congruence. }
  pose proof (sys_cpu_add_thread E st st1 [old] w1 new r HR1 Hfr Hnew1 HO') as K2. fold sx in K2.
  unfold bind_ at 1, bind at 1. unfold GuardsPre.bind_ at 1, GuardsPre.bind at 1.
  destruct (GuardsPre.cpu_add_thread (Some new) (Some r) sx st1) as [[u2 st2]|e2] eqn:Eg2.
  2:{ destruct K2 as (e' & K21 & K22). rewrite K21. right. exists e'. split; [reflexivity|exact K22]. }
  pose proof (guards_add_result sx st1 new r u2 st2 Eg2) as Est2.
  destruct K2 as (w2 & K21 & HR2 & (F21 & F22 & F23)). rewrite K21.
  unfold ret at 1, GuardsPre.ret at 1.
  assert (Hr2 : (r < length (threads st2))%nat) by (rewrite <- (r_lt0 _ _ _ _ _ HR2); exact Hr).
  destruct (chans3 _ _ _ _ _ _ HR Hr) as (c0 & c1 & c2 & Hch).
  assert (Hch2 : s_chans (sth w2 r) = [c0; c1; c2]) by (unfold sth; rewrite F21, F11; exact Hch).
  assert (Hd0 : ChanPre.is_dirty c0 = 0) by (apply (HC r); rewrite Hch; cbn; auto).
  assert (Hnew2 : (new < length (cpu_threads st2))%nat).
  { rewrite <- (r_lc _ _ _ _ _ HR2), F22, (r_lc _ _ _ _ _ HR1). exact Hnew1. }
  pose proof (sys_thread_migrate_cpu E st st2 [new; old] w2 r HR2 Hr2 c0 c1 c2 Hch2 Hd0 new Hnew2) as K3. fold sx in K3.
  unfold bind_, bind, ret, GuardsPre.bind_, GuardsPre.bind, GuardsPre.ret.
  destruct (GuardsPre.thread_migrate_cpu (Some r) (Some new) sx st2) as [[u3 st3]|e3] eqn:Eg3.
  - destruct K3 as (w3 & K31 & K32 & _). rewrite K31. exists w3, [new; old]. split; [reflexivity|]. split; [exact K32|].
    rewrite (guards_migrate_result sx st2 r new u3 st3 Hr2 Eg3). intros k Hk.
    assert (Hk1 : k <> new /\ k <> old).
    { unfold mem_nat in Hk. cbn [existsb] in Hk. rewrite orb_false_r in Hk. apply orb_false_iff in Hk as [A B].
      apply Nat.eqb_neq in A, B. split; assumption. }
    destruct Hk1 as [Kn Ko].
    rewrite (cpu_views_with_cpu sx st2 r (Some new) k Hr2), Est2, cpu_views_touch_other by exact Kn.
    rewrite cpu_views_set_other by congruence. rewrite Est1, cpu_views_touch_other by exact Ko.
    apply cpu_views_set_other. congruence.
  - destruct K3 as (e' & K31 & K32). rewrite K31. right. exists e'. split; [reflexivity|exact K32].
Qed.
End Migrate.

Section Affinity.
Variables (E : senv) (st : state) (w : sys) (t : nat).
Let sx := se_sx E.
Hypothesis H0 : Rel0 sx st w.
Hypothesis Ht : (t < length (threads st))%nat.
Hypothesis HOk : AllOk sx st.

Lemma gs_cpu r : (r < length (threads st))%nat -> get_thread_cpu E w (Some r) = GuardsPre.get_thread_cpu sx st (Some r).
Proof. intros Hr. unfold get_thread_cpu, GuardsPre.get_thread_cpu. rewrite thr_eq. apply (tr_cpu _ _ _ _ _ (r_th _ _ _ _ _ (proj1 H0) r Hr)). Qed.
Lemma gs_act r : (r < length (threads st))%nat -> get_thread_is_active E w (Some r) = GuardsPre.get_thread_is_active sx st (Some r).
Proof. intros Hr. unfold get_thread_is_active, GuardsPre.get_thread_is_active. rewrite thr_eq. apply (tr_isact _ _ _ _ _ (r_th _ _ _ _ _ (proj1 H0) r Hr)). Qed.
Lemma gs_st r : (r < length (threads st))%nat -> get_thread_state E w (Some r) = GuardsPre.get_thread_state sx st (Some r).
Proof. intros Hr. unfold get_thread_state, GuardsPre.get_thread_state. rewrite thr_eq. apply (tr_state _ _ _ _ _ (r_th _ _ _ _ _ (proj1 H0) r Hr)). Qed.

Ltac consts :=
  change (cast_uint32 Sys_gen.c_TH_ST_RUNNING) with (cast_uint32 Guards_gen.c_TH_ST_RUNNING);
  change (cast_uint32 Sys_gen.c_TH_ST_COOLING) with (cast_uint32 Guards_gen.c_TH_ST_COOLING);
  change (cast_uint32 Sys_gen.c_TH_ST_WARMING) with (cast_uint32 Guards_gen.c_TH_ST_WARMING);
  change (cast_uint32 Sys_gen.c_TH_ST_PAUSED) with (cast_uint32 Guards_gen.c_TH_ST_PAUSED);
  change (cast_uint32 Sys_gen.c_TH_ST_DEAD) with (cast_uint32 Guards_gen.c_TH_ST_DEAD);
  change (cast_uint32 Sys_gen.c_TH_ST_UNKNOWN) with (cast_uint32 Guards_gen.c_TH_ST_UNKNOWN).
Ltac rej := right; exists E_FAIL; split; [reflexivity|discriminate].
Ltac cond := match goal with |- hrel _ _ (if ?c then _ else _) _ => destruct c eqn:? end.

Lemma sys_affset e : GuardsPre.e_who e = t ->
  hrel sx st (Sys_gen.pre_affinity_set e E w) (Guards_gen.pre_affinity_set e sx st).
Proof.
  intros Hwho. unfold Sys_gen.pre_affinity_set, Guards_gen.pre_affinity_set.
  unfold bind at 1, eval at 1, GuardsPre.bind at 1, GuardsPre.eval at 1.
  unfold get_emu_thread, GuardsPre.get_emu_thread. rewrite Hwho.
  unfold need at 1, ite at 1, GuardsPre.need at 1, GuardsPre.ite at 1. cbn [is_null negb]. rewrite (gs_cpu t Ht).
  destruct (GuardsPre.get_thread_cpu sx st (Some t)) as [old|] eqn:Eold; cbn [is_null]; [|rej].
  unfold need at 1, ite at 1, GuardsPre.need at 1, GuardsPre.ite at 1. cbn [is_null negb]. rewrite (gs_act t Ht).
  cond; [rej|].
  unfold ite at 1, GuardsPre.ite at 1.
  change (get_emu_ev_payload_size E w e) with (GuardsPre.get_emu_ev_payload_size sx st e).
  cond; [rej|].
  unfold need at 1, GuardsPre.need at 1.
  change (get_emu_ev_payload E w e) with (GuardsPre.get_emu_ev_payload sx st e).
  cond; [|left; reflexivity].
  unfold bind at 1, eval at 1, GuardsPre.bind at 1, GuardsPre.eval at 1.
  change (get_emu_ev_payload_i32 E w e) with (GuardsPre.get_emu_ev_payload_i32 sx st e).
  unfold bind at 1, eval at 1, GuardsPre.bind at 1, GuardsPre.eval at 1.
  change (loom_get_cpu E w (get_emu_loom E w e)) with (GuardsPre.loom_get_cpu sx st (GuardsPre.get_emu_loom sx st e)).
  unfold GuardsPre.loom_get_cpu, GuardsPre.get_emu_loom. rewrite Hwho.
  destruct (find_cpu sx (thread_loom sx t) (ix (GuardsPre.get_emu_ev_payload_i32 sx st e) 0)) as [new|] eqn:Efc;
    unfold ite at 1, GuardsPre.ite at 1; cbn [is_null]; [|rej].
  unfold need at 1, ite at 1, GuardsPre.need at 1, GuardsPre.ite at 1. cbn [is_null negb]. rewrite (gs_cpu t Ht), Eold.
  unfold ptr_eqb_cpu, GuardsPre.ptr_eqb_cpu. cbn [GuardsPre.opt_eqb_nat].
  destruct (Nat.eqb old new) eqn:Ene.
  { unfold ret, GuardsPre.ret. exists w, []. split; [reflexivity|]. split; [exact (proj1 H0)|apply Quiet_nil]. }
  assert (Hnew : (new < length (cpu_threads st))%nat).
  { destruct HOk as (_ & _ & HO3 & _ & _). rewrite HO3. eapply ThreadCpuProofs.find_cpu_lt; eauto. }
  assert (Eold' : t_cpu (thrst st t) = Some old) by (unfold GuardsPre.get_thread_cpu in Eold; rewrite thr_eq in Eold; exact Eold).
  pose proof (migrate_tail_sys E st w t H0 Ht HOk old new Eold' Ene Hnew) as K.
  unfold bind_ at 1, bind at 1, need at 1, eval at 1. unfold GuardsPre.bind_ at 1, GuardsPre.bind at 1, GuardsPre.need at 1, GuardsPre.eval at 1.
  cbn [is_null negb]. unfold bind at 1, GuardsPre.bind at 1. rewrite (gs_cpu t Ht), Eold.
  exact K.
Qed.

Lemma gs_st_all r : get_thread_state E w (Some r) = GuardsPre.get_thread_state sx st (Some r).
Proof. apply (gts_all E st st [] w (proj1 H0) r). Qed.
Lemma gs_cpu_all r : get_thread_cpu E w (Some r) = GuardsPre.get_thread_cpu sx st (Some r).
Proof.
  destruct (Nat.lt_ge_cases r (length (threads st))) as [L|L]; [apply gs_cpu; exact L|].
  unfold get_thread_cpu, GuardsPre.get_thread_cpu, sth, GuardsPre.gthr.
  rewrite !nth_overflow; [reflexivity|exact L|rewrite (r_lt _ _ _ _ _ (proj1 H0)); exact L].
Qed.

(* OAr.  Not covered at this level: a remote move of a thread to the CPU it is already on (the hand model and
   ovniemu refuse it; in the C world the refusal comes either from a dirty CPU channel or from the thread's CPU
   channel repeating its value, depending on the thread's state) *)
Lemma sys_affremote e : GuardsPre.e_who e = t ->
  (forall r old new, GuardsPre.get_thread_cpu sx st (Some r) = Some old ->
     find_cpu sx (thread_loom sx t) (ix (GuardsPre.get_emu_ev_payload_i32 sx st e) 0) = Some new -> old <> new) ->
  hrel sx st (Sys_gen.pre_affinity_remote e E w) (Guards_gen.pre_affinity_remote e sx st).
Proof.
  intros Hwho Hdiff. unfold Sys_gen.pre_affinity_remote, Guards_gen.pre_affinity_remote. consts.
  unfold ite at 1, GuardsPre.ite at 1.
  change (get_emu_ev_payload_size E w e) with (GuardsPre.get_emu_ev_payload_size sx st e).
  cond; [rej|].
  unfold need at 1, GuardsPre.need at 1. change (get_emu_ev_payload E w e) with (GuardsPre.get_emu_ev_payload sx st e).
  cond; [|left; reflexivity].
  unfold bind at 1, eval at 1, GuardsPre.bind at 1, GuardsPre.eval at 1.
  unfold need at 1, GuardsPre.need at 1. change (get_emu_ev_payload E w e) with (GuardsPre.get_emu_ev_payload sx st e).
  match goal with H : _ = true |- _ => rewrite H end.
  unfold bind at 1, eval at 1, GuardsPre.bind at 1, GuardsPre.eval at 1.
  unfold bind at 1, eval at 1, GuardsPre.bind at 1, GuardsPre.eval at 1.
  unfold bind at 1, eval at 1, GuardsPre.bind at 1, GuardsPre.eval at 1.
  change (get_emu_ev_payload_i32 E w e) with (GuardsPre.get_emu_ev_payload_i32 sx st e).
  change (proc_find_thread E w (get_emu_proc E w e)) with (GuardsPre.proc_find_thread sx st (GuardsPre.get_emu_proc sx st e)).
  change (loom_find_thread E w (get_emu_loom E w e)) with (GuardsPre.loom_find_thread sx st (GuardsPre.get_emu_loom sx st e)).
  match goal with |- context [Sys_gen.thread_migrate_cpu ?R _] => set (rr := R) end.
  match goal with |- context [GuardsPre.thread_migrate_cpu ?R _] => change R with rr end.
  clearbody rr. destruct rr as [r|]; unfold ite at 1, GuardsPre.ite at 1; cbn [is_null]; [|rej].
  unfold need at 1, ite at 1, GuardsPre.need at 1, GuardsPre.ite at 1. cbn [is_null negb]. rewrite (gs_st_all r).
  cond; [rej|].
  unfold need at 1, ite at 1, GuardsPre.need at 1, GuardsPre.ite at 1. cbn [is_null negb]. rewrite (gs_st_all r).
  cond; [rej|].
  unfold need at 1, ite at 1, GuardsPre.need at 1, GuardsPre.ite at 1. cbn [is_null negb]. rewrite (gs_cpu_all r).
  destruct (GuardsPre.get_thread_cpu sx st (Some r)) as [old|] eqn:Eold; cbn [is_null]; [|rej].
  unfold bind at 1, eval at 1, GuardsPre.bind at 1, GuardsPre.eval at 1.
  change (loom_get_cpu E w (get_emu_loom E w e)) with (GuardsPre.loom_get_cpu sx st (GuardsPre.get_emu_loom sx st e)).
  unfold GuardsPre.loom_get_cpu, GuardsPre.get_emu_loom. rewrite Hwho.
  destruct (find_cpu sx (thread_loom sx t) (ix (GuardsPre.get_emu_ev_payload_i32 sx st e) 0)) as [new|] eqn:Efc;
    unfold ite at 1, GuardsPre.ite at 1; cbn [is_null]; [|rej].
  assert (Hnew : (new < length (cpu_threads st))%nat).
  { destruct HOk as (_ & _ & HO3 & _ & _). rewrite HO3. eapply ThreadCpuProofs.find_cpu_lt; eauto. }
  assert (Hr : (r < length (threads st))%nat).
  { destruct (Nat.lt_ge_cases r (length (threads st))) as [L|L]; [exact L|].
    unfold GuardsPre.get_thread_cpu, GuardsPre.gthr in Eold. rewrite nth_overflow in Eold by exact L. discriminate Eold. }
  assert (Eold' : t_cpu (thrst st r) = Some old) by (unfold GuardsPre.get_thread_cpu in Eold; rewrite thr_eq in Eold; exact Eold).
  assert (Ene : Nat.eqb old new = false) by (apply Nat.eqb_neq; eapply Hdiff; eauto).
  pose proof (migrate_tail_sys E st w r H0 Hr HOk old new Eold' Ene Hnew) as K.
  unfold bind_ at 1, bind at 1, need at 1, eval at 1. unfold GuardsPre.bind_ at 1, GuardsPre.bind at 1, GuardsPre.need at 1, GuardsPre.eval at 1.
  cbn [is_null negb]. unfold bind at 1, GuardsPre.bind at 1. rewrite (gs_cpu_all r), Eold.
  exact K.
Qed.
End Affinity.

(* ---------------------------------------------------------------- the dispatcher, and the composition with the model *)

Section Dispatch.
Variables (E : senv) (st : state) (w : sys) (t : nat).
Let sx := se_sx E.
Hypothesis H0 : Rel0 sx st w.
Hypothesis Ht : (t < length (threads st))%nat.
Hypothesis HOk : AllOk sx st.

Ltac rej := right; exists E_FAIL; split; [reflexivity|discriminate].

Lemma sys_model_ovni_event e : GuardsPre.e_who e = t ->
  (GuardsPre.e_c e = 65 -> GuardsPre.e_v e = 114 ->
   forall r old new, GuardsPre.get_thread_cpu sx st (Some r) = Some old ->
     find_cpu sx (thread_loom sx t) (ix (GuardsPre.get_emu_ev_payload_i32 sx st e) 0) = Some new -> old <> new) ->
  GuardsPre.e_c e = 72 \/ GuardsPre.e_c e = 65 ->
  hrel sx st (Sys_gen.model_ovni_event e E w) (Guards_gen.model_ovni_event e sx st).
Proof.
  intros Hwho Hdiff Hc. unfold Sys_gen.model_ovni_event, Guards_gen.model_ovni_event.
  unfold ite at 1, GuardsPre.ite at 1. change (get_emu_ev_m E w e) with (GuardsPre.get_emu_ev_m sx st e).
  match goal with |- hrel _ _ (if ?c then _ else _) _ => destruct c end; [rej|].
  unfold ite at 1, GuardsPre.ite at 1.
  assert (Hooc : get_emu_thread_is_out_of_cpu E w e = GuardsPre.get_emu_thread_is_out_of_cpu sx st e).
  { unfold get_emu_thread_is_out_of_cpu, GuardsPre.get_emu_thread_is_out_of_cpu, nth_opt. rewrite Hwho.
    rewrite (nth_error_nth' _ _ dthread). 2:{ rewrite (r_lt _ _ _ _ _ (proj1 H0)). exact Ht. }
    fold (sth w t). rewrite thr_eq. apply (tr_ooc _ _ _ _ _ (r_th _ _ _ _ _ (proj1 H0) t Ht)). }
  rewrite Hooc.
  match goal with |- hrel _ _ (if ?c then _ else _) _ => destruct c end; [rej|].
  unfold bind at 1, eval at 1, GuardsPre.bind at 1, GuardsPre.eval at 1.
  change (get_emu_ev_c E w e) with (GuardsPre.e_c e). change (GuardsPre.get_emu_ev_c sx st e) with (GuardsPre.e_c e).
  destruct Hc as [Hc | Hc]; rewrite Hc; cbn [Z.eqb Pos.eqb].
  - (* 'H' *)
    unfold Sys_gen.pre_thread, Guards_gen.pre_thread.
    unfold bind, eval, GuardsPre.bind, GuardsPre.eval, get_emu_thread, GuardsPre.get_emu_thread, get_emu_ev, GuardsPre.get_emu_ev.
    rewrite Hwho. change (get_emu_ev_v E w e) with (GuardsPre.e_v e). change (GuardsPre.get_emu_ev_v sx st e) with (GuardsPre.e_v e).
    destruct (GuardsPre.e_v e =? 67).
    { unfold hrel, ret, GuardsPre.ret. exists w, []. split; [reflexivity|]. split; [exact (proj1 H0)|apply Quiet_nil]. }
    destruct (GuardsPre.e_v e =? 120). { apply (sys_execute E st w t H0 Ht HOk e Hwho). }
    destruct (GuardsPre.e_v e =? 101). { apply (sys_end E st w t H0 Ht HOk). }
    destruct (GuardsPre.e_v e =? 112). { apply (sys_pause E st w t H0 Ht HOk). }
    destruct (GuardsPre.e_v e =? 114). { apply (sys_resume E st w t H0 Ht HOk). }
    destruct (GuardsPre.e_v e =? 99). { apply (sys_cool E st w t H0 Ht HOk). }
    destruct (GuardsPre.e_v e =? 119). { apply (sys_warm E st w t H0 Ht HOk). }
    rej.
  - (* 'A' *)
    unfold Sys_gen.pre_affinity, Guards_gen.pre_affinity.
    unfold bind, eval, GuardsPre.bind, GuardsPre.eval.
    change (get_emu_ev_v E w e) with (GuardsPre.e_v e). change (GuardsPre.get_emu_ev_v sx st e) with (GuardsPre.e_v e).
    destruct (GuardsPre.e_v e =? 115). { apply (sys_affset E st w t H0 Ht HOk e Hwho). }
    destruct (GuardsPre.e_v e =? 114) eqn:Ev. { apply Z.eqb_eq in Ev. apply (sys_affremote E st w t H0 HOk e Hwho (Hdiff Hc Ev)). }
    rej.
Qed.
End Dispatch.

Lemma Bind_AllOk sx st : ThreadCpuProofs.Bind sx st ->
  length (cpu_touched st) = length (cpu_threads st) ->
  (forall c, Z.of_nat (length (clst st c)) + 1 < 2 ^ 31) ->
  AllOk sx st.
Proof.
  intros [B N] Hto Hsm. repeat split.
  - exact H.
  - rewrite Hto. exact H.
  - intros t Hin. apply (ThreadCpuProofs.b_in _ _ B c t Hin).
  - symmetry. apply (ThreadCpuProofs.b_len_t _ _ B).
  - specialize (Hsm c). lia.
  - intros t c Ht Hc. apply (ThreadCpuProofs.b_cpu _ _ B t c Ht Hc).
  - apply (ThreadCpuProofs.b_len_c _ _ B).
  - exact Hsm.
  - intros t k Hin. apply (ThreadCpuProofs.b_in _ _ B k t Hin).
Qed.

Lemma oh_step_no_trap sx st who ev : oh_step sx st who ev <> Err GuardsPre.E_TRAP.
Proof.
  unfold oh_step, change_state, migrate.
  repeat match goal with
  | |- context [match ?x with _ => _ end] => destruct x
  | |- context [if ?x then _ else _] => destruct x
  end; discriminate.
Qed.

Lemma core_ovni_no_trap sx st who cs c v p : c = 72 \/ c = 65 ->
  GuardsProofs.fst_res (core_step sx st who (DecodeDefs.decode_ovni cs c v p)) <> Err GuardsPre.E_TRAP.
Proof.
  intros Hc. destruct (GuardsProofs.decode_ovni_shape cs c v p Hc) as [[x Hx] | [-> | [ev ->]]]; cbn [core_step].
  - destruct Hc as [-> | ->]; unfold DecodeDefs.decode_ovni in *; cbn [Z.eqb Pos.eqb] in *;
      repeat match goal with |- context [if ?b then _ else _] => destruct b end; cbn [core_step GuardsProofs.fst_res]; try discriminate.
    all: try (destruct (oh_step sx st who _) eqn:Eo; cbn [GuardsProofs.fst_res]; [discriminate|]; intros H; inversion H; subst; eapply oh_step_no_trap; eauto).
    all: try (destruct (nth_opt (threads st) who) as [x0|]; [destruct (t_ooc x0)|]; cbn [GuardsProofs.fst_res]; discriminate).
  - destruct (nth_opt (threads st) who) as [x0|]; [destruct (t_ooc x0)|]; cbn [GuardsProofs.fst_res]; discriminate.
  - destruct (oh_step sx st who ev) eqn:Eo; cbn [GuardsProofs.fst_res]; [discriminate|]. intros H; inversion H; subst. eapply oh_step_no_trap; eauto.
Qed.

(* One event in the C world = one step of the semantic model.  w is the C world at the start of the event (nothing
   dirty, Rel0); the handlers are those of Gen/Sys_gen.v, whose thread.c / cpu.c callees are generated too and whose
   channel writes are the generated chan.c.  Side conditions: the binding invariant Bind (kept by every accepted
   event, C04_step_simulation), the bookkeeping list cpu_touched has the length of the CPU table, fewer than 2^31 - 1
   threads per CPU, and - not covered - an OAr that targets the CPU the remote thread is already on. *)
Theorem sys_event_eq (E : senv) st w t cs c v p :
  let sx := se_sx E in
  let e := GuardsProofs.mk_emu t c v p in
  Rel0 sx st w -> ThreadCpuProofs.Bind sx st ->
  length (cpu_touched st) = length (cpu_threads st) ->
  (forall k, Z.of_nat (length (clst st k)) + 1 < 2 ^ 31) ->
  (t < length (threads st))%nat -> c = 72 \/ c = 65 ->
  (c = 65 -> v = 114 ->
   forall r old new, GuardsPre.get_thread_cpu sx st (Some r) = Some old ->
     find_cpu sx (thread_loom sx t) (ix (GuardsPre.get_emu_ev_payload_i32 sx st e) 0) = Some new -> old <> new) ->
  match GuardsProofs.fst_res (core_step sx st t (DecodeDefs.decode_ovni cs c v p)) with
  | Ok st' => exists w' syn, exec (Sys_gen.model_ovni_event e) E w = Ok w' /\ Rel sx st st' syn w' /\ Quiet sx st st' syn
  | Err _ => exists e', exec (Sys_gen.model_ovni_event e) E w = Err e' /\ e' <> E_TRAP
  end.
Proof.
  intros sx e H0 HB Hto Hsm Ht Hc Hdiff.
  pose proof (Bind_AllOk sx st HB Hto Hsm) as HOk.
  pose proof (sys_model_ovni_event E st w t H0 Ht HOk e eq_refl Hdiff Hc) as HS. fold sx in HS.
  assert (Hlen : length (threads st) = length (s_threads sx)) by apply (ThreadCpuProofs.b_len_t _ _ (proj1 HB)).
  destruct (nth_error (threads st) t) as [th|] eqn:Hth. 2:{ apply nth_error_None in Hth. lia. }
  destruct (nth_error (s_threads sx) t) as [me|] eqn:Hme. 2:{ apply nth_error_None in Hme. lia. }
  pose proof (GuardsProofs.model_ovni_event_eq sx st t th me cs Hth Hme (GuardsProofs.Bind_GInv _ _ HB) c v p Hc) as K.
  change (GuardsPre.outcome_of (GuardsPre.exec (Guards_gen.model_ovni_event e) sx st) =
          GuardsPre.outcome_of (GuardsProofs.fst_res (core_step sx st t (DecodeDefs.decode_ovni cs c v p)))) in K.
  unfold GuardsPre.exec in K. unfold exec. unfold hrel in HS.
  destruct (Guards_gen.model_ovni_event e sx st) as [[u st1]|e1];
    destruct (GuardsProofs.fst_res (core_step sx st t (DecodeDefs.decode_ovni cs c v p))) as [st'|e2] eqn:Ecore; cbn [GuardsPre.outcome_of] in K.
  - inversion K; subst st1. destruct HS as (w' & syn' & HS1 & HS2 & HS3). rewrite HS1. exists w', syn'. split; [reflexivity|]. split; [exact HS2|exact HS3].
  - destruct (Nat.eqb e2 GuardsPre.E_TRAP); discriminate K.
  - destruct (Nat.eqb e1 GuardsPre.E_TRAP); discriminate K.
  - destruct HS as [HS|(e' & HS1 & HS2)].
    + subst e1. cbn in K. destruct (Nat.eqb e2 GuardsPre.E_TRAP) eqn:E2; [|discriminate K].
      apply Nat.eqb_eq in E2. subst e2. exfalso.
      apply (core_ovni_no_trap sx st t cs c v p Hc). assumption.
    + rewrite HS1. exists e'. split; [reflexivity|exact HS2].
Qed.

Corollary sys_thread_event_eq (E : senv) st w t cs v p :
  let sx := se_sx E in
  Rel0 sx st w -> ThreadCpuProofs.Bind sx st ->
  length (cpu_touched st) = length (cpu_threads st) ->
  (forall k, Z.of_nat (length (clst st k)) + 1 < 2 ^ 31) ->
  (t < length (threads st))%nat ->
  match GuardsProofs.fst_res (core_step sx st t (DecodeDefs.decode_ovni cs 72 v p)) with
  | Ok st' => exists w' syn, exec (Sys_gen.model_ovni_event (GuardsProofs.mk_emu t 72 v p)) E w = Ok w' /\ Rel sx st st' syn w' /\ Quiet sx st st' syn
  | Err _ => exists e', exec (Sys_gen.model_ovni_event (GuardsProofs.mk_emu t 72 v p)) E w = Err e' /\ e' <> E_TRAP
  end.
Proof.
  intros sx H0 HB Hto Hsm Ht. apply (sys_event_eq E st w t cs 72 v p H0 HB Hto Hsm Ht (or_introl eq_refl)).
  intros H. discriminate H.
Qed.

Corollary sys_affinity_event_eq (E : senv) st w t cs v p :
  let sx := se_sx E in
  let e := GuardsProofs.mk_emu t 65 v p in
  Rel0 sx st w -> ThreadCpuProofs.Bind sx st ->
  length (cpu_touched st) = length (cpu_threads st) ->
  (forall k, Z.of_nat (length (clst st k)) + 1 < 2 ^ 31) ->
  (t < length (threads st))%nat ->
  (v = 114 -> forall r old new, GuardsPre.get_thread_cpu sx st (Some r) = Some old ->
     find_cpu sx (thread_loom sx t) (ix (GuardsPre.get_emu_ev_payload_i32 sx st e) 0) = Some new -> old <> new) ->
  match GuardsProofs.fst_res (core_step sx st t (DecodeDefs.decode_ovni cs 65 v p)) with
  | Ok st' => exists w' syn, exec (Sys_gen.model_ovni_event e) E w = Ok w' /\ Rel sx st st' syn w' /\ Quiet sx st st' syn
  | Err _ => exists e', exec (Sys_gen.model_ovni_event e) E w = Err e' /\ e' <> E_TRAP
  end.
Proof.
  intros sx e H0 HB Hto Hsm Ht Hd. apply (sys_event_eq E st w t cs 65 v p H0 HB Hto Hsm Ht (or_intror eq_refl)).
  intros _. exact Hd.
Qed.

(* ---------------------------------------------------------------- the initial world *)

Definition chan_s (ign : bool) : ChanPre.chan :=
  {| ChanPre.is_dirty := 0; ChanPre.prop := [0; 0; b2z ign]; ChanPre.has_cb := false; ChanPre.last_value := ChanPre.vnull;
     ChanPre.ctype := 0; ChanPre.dvalue := ChanPre.vnull; ChanPre.sn := 0; ChanPre.svalues := [] |}.

Definition th_init (t : nat) (ti : thread_info) : sthread :=
  {| s_state := 0; s_isrun := 0; s_isact := 0; s_cpu := None; s_tid := ti_tid ti; s_pid := ti_pid ti; s_gindex := Z.of_nat t;
     s_ooc := 0; s_chans := [chan_s false; chan_s true; chan_s false] |}.
Definition cp_init (c : nat) (ci : cpu_info) : scpu :=
  {| c_threads := []; c_nthreads := 0; c_nrun := 0; c_nact := 0; c_thrun := None; c_thact := None;
     c_virtual := b2z (ci_virtual ci); c_gindex := Z.of_nat c;
     c_chans := [chan_s true; chan_s true; chan_s true; chan_s true; chan_s true] |}.

Fixpoint mapi {A B} (f : nat -> A -> B) (l : list A) (i : nat) : list B :=
  match l with [] => [] | x :: r => f i x :: mapi f r (S i) end.

Definition w_init (sx : static) : sys :=
  {| sths := mapi th_init (s_threads sx) 0; scps := mapi cp_init (s_cpus sx) 0; sncb := 0 |}.

Lemma mapi_length {A B} (f : nat -> A -> B) l : forall i, length (mapi f l i) = length l.
Proof. induction l as [|x l IH]; intros i; cbn; [reflexivity|]. rewrite IH. reflexivity. Qed.
Lemma mapi_nth {A B} (f : nat -> A -> B) l d d' : forall i n, (n < length l)%nat -> nth n (mapi f l i) d' = f (i + n)%nat (nth n l d).
Proof.
  induction l as [|x l IH]; intros i [|n] H; cbn in *; try lia.
  - rewrite Nat.add_0_r. reflexivity.
  - rewrite IH by lia. f_equal. lia.
Qed.

Lemma ChRel_init ign : ChRel ign None None (chan_s ign).
Proof. constructor; cbn; auto. Qed.

Lemma init_thrst sx t : (t < length (s_threads sx))%nat -> thrst (init sx) t = init_thread sx.
Proof.
  intros H. unfold thrst, init. cbn [threads]. rewrite ThreadCpuProofs.nth_map_const.
  apply Nat.ltb_lt in H. rewrite H. reflexivity.
Qed.

Lemma init_clst sx c : clst (init sx) c = [].
Proof. unfold clst, init. cbn [cpu_threads]. rewrite ThreadCpuProofs.nth_map_const. destruct (Nat.ltb c (length (s_cpus sx))); reflexivity. Qed.

Lemma init_views sx c : cpu_views sx (init sx) c = [None; None; None; None; None].
Proof.
  unfold cpu_views, v_nrun, v_cpupid, v_cputid, v_thrun, v_thact, th_running, running_on, active_on.
  fold (clst (init sx) c). rewrite init_clst. cbn [filter].
  assert (T : nth c (cpu_touched (init sx)) false = false).
  { unfold init. cbn [cpu_touched]. rewrite ThreadCpuProofs.nth_map_const. destruct (Nat.ltb c (length (s_cpus sx))); reflexivity. }
  rewrite T. reflexivity.
Qed.

Theorem init_Rel0 sx : Rel0 sx (init sx) (w_init sx).
Proof.
  split.
  - constructor; unfold w_init; cbn [sths scps init threads cpu_threads]; rewrite ?mapi_length, ?map_length; auto.
    + intros t Ht. unfold sth; cbn [sths]. rewrite (mapi_nth th_init (s_threads sx) dummy_info dthread 0 t Ht). cbn [Nat.add].
      constructor; rewrite ?(init_thrst sx t Ht); unfold tinfo, vst; cbn [th_init s_state s_isrun s_isact s_cpu s_tid s_pid s_gindex s_ooc s_chans init_thread t_state t_cpu t_ooc tst_code is_running is_active b2z]; auto.
      eexists _, _, _. split; [reflexivity|]. repeat split; apply ChRel_init.
    + intros c Hc. unfold scp; cbn [scps]. rewrite (mapi_nth cp_init (s_cpus sx) {| ci_virtual := false; ci_loom := 0; ci_index := 0 |} dcpu 0 c Hc). cbn [Nat.add mem_nat existsb].
      constructor; cbn [cp_init c_threads c_virtual c_gindex c_chans].
      * symmetry. apply init_clst.
      * unfold cpu_is_virtual, nth_opt. rewrite (nth_error_nth' _ _ {| ci_virtual := false; ci_loom := 0; ci_index := 0 |} Hc). reflexivity.
      * reflexivity.
      * split; [reflexivity|]. intros k Hk. rewrite init_views.
        destruct k as [|[|[|[|[|k]]]]]; try lia; cbn [nth]; split; try reflexivity; apply ChRel_init.
  - intros t ch Hin. unfold w_init, sth in Hin. cbn [sths] in Hin.
    destruct (Nat.lt_ge_cases t (length (s_threads sx))) as [L|L].
    + rewrite (mapi_nth th_init (s_threads sx) dummy_info dthread 0 t L) in Hin. cbn [th_init s_chans] in Hin.
      destruct Hin as [<-|[<-|[<-|[]]]]; reflexivity.
    + rewrite nth_overflow in Hin by (rewrite mapi_length; exact L). destruct Hin.
Qed.

(* a worked evaluation: thread 0 of GuardsProofs.gx executes on CPU 0, then pauses in the next event (channels
   flushed by hand in between: only the thread's and the CPU's dirty bits are cleared and last_value updated) *)
Definition E0 : senv := {| se_cb := {| ChanPre.cb_ret := 0 |}; se_sx := GuardsProofs.gx |}.
Definition chan_show (ch : ChanPre.chan) : Z * Z * Z := (ChanPre.is_dirty ch, ChanPre.vt (ChanPre.dvalue ch), ChanPre.vi (ChanPre.dvalue ch)).
Definition after_execute : result sys :=
  exec (Sys_gen.model_ovni_event (GuardsProofs.mk_emu 0 72 120 (GuardsProofs.i32le 0))) E0 (w_init GuardsProofs.gx).

(* ---------------------------------------------------------------- end of an event: the flush, and whole histories *)

(* chan_flush (generated from chan.c) on a dirty single channel: last_value := the value, not dirty any more *)
Definition flushed (ch : ChanPre.chan) : ChanPre.chan :=
  {| ChanPre.is_dirty := 0; ChanPre.prop := ChanPre.prop ch; ChanPre.has_cb := ChanPre.has_cb ch;
     ChanPre.last_value := ChanPre.dvalue ch; ChanPre.ctype := ChanPre.ctype ch; ChanPre.dvalue := ChanPre.dvalue ch;
     ChanPre.sn := ChanPre.sn ch; ChanPre.svalues := ChanPre.svalues ch |}.

Lemma flush_generated ch sx o n : ChanPre.ctype ch = 0 -> ChanPre.is_dirty ch = 1 ->
  Chan_gen.chan_flush (Some tt) sx {| ChanPre.ch := ch; ChanPre.out := o; ChanPre.ncb := n |} =
  Ok (tt, {| ChanPre.ch := flushed ch; ChanPre.out := o; ChanPre.ncb := n |}).
Proof.
  intros Ht Hd. unfold Chan_gen.chan_flush. cunf. cbn [is_null negb]. unfold ChanPre.get_chan_is_dirty, ChanPre.addr_chan_last_value. cbn [ChanPre.ch].
  rewrite Hd. cbn [Z.eqb negb]. rewrite ChanProofs.get_value_run by (intros; discriminate).
  unfold ChanPre.store_ptr_value, ChanPre.set_chan_is_dirty, ChanPre.upd_ch, ChanPre.with_ch, ChanPre.set_last. cbn [ChanPre.ch ChanPre.out ChanPre.ncb].
  cbn [ChanPre.is_dirty ChanPre.prop ChanPre.has_cb ChanPre.last_value ChanPre.ctype ChanPre.dvalue ChanPre.sn ChanPre.svalues].
  assert (Hcv : ChanProofs.cur_value ch = ChanPre.dvalue ch) by (unfold ChanProofs.cur_value; rewrite Ht; reflexivity).
  rewrite Hcv. reflexivity.
Qed.

(* what the bay does at the end of an event to the system channels: flush the dirty ones *)
Definition fl (ch : ChanPre.chan) : ChanPre.chan := if ChanPre.is_dirty ch =? 0 then ch else flushed ch.
Definition flush_world (w : sys) : sys :=
  {| sths := map (fun x => th_with_chans x (map fl (s_chans x))) (sths w);
     scps := map (fun x => cp_with_chans x (map fl (c_chans x))) (scps w);
     sncb := sncb w |}.

Lemma ChRel_fl ign v0 v ch : ChRel ign v0 v ch -> ChRel ign v v (fl ch) /\ ChanPre.is_dirty (fl ch) = 0.
Proof.
  intros [Ht Hp Hc Hl [[Hd Hv]|[Hd Hv]]]; unfold fl; rewrite Hd; cbn [Z.eqb].
  - subst v0. split; [constructor; auto|exact Hd].
  - split; [constructor; cbn; auto|reflexivity].
Qed.

Lemma nth_map_lt {A B} (f : A -> B) l d d' n : (n < length l)%nat -> nth n (map f l) d' = f (nth n l d).
Proof. revert n; induction l as [|a l IH]; intros [|n] H; cbn in *; try lia; [reflexivity|apply IH; lia]. Qed.

Lemma flush_Rel0 sx st0 st' syn w' : Rel sx st0 st' syn w' -> Quiet sx st0 st' syn -> Rel0 sx st' (flush_world w').
Proof.
  intros [Hlt Hlt0 Hlc Hth Hcp] HQ.
  assert (Sth : forall t, (t < length (threads st'))%nat -> sth (flush_world w') t = th_with_chans (sth w' t) (map fl (s_chans (sth w' t)))).
  { intros t Ht. unfold sth, flush_world; cbn [sths].
    apply (nth_map_lt (fun x => th_with_chans x (map fl (s_chans x))) (sths w') dthread dthread t). rewrite Hlt. exact Ht. }
  assert (Scp : forall c, (c < length (cpu_threads st'))%nat -> scp (flush_world w') c = cp_with_chans (scp w' c) (map fl (c_chans (scp w' c)))).
  { intros c Hc. unfold scp, flush_world; cbn [scps].
    apply (nth_map_lt (fun x => cp_with_chans x (map fl (c_chans x))) (scps w') dcpu dcpu c). rewrite Hlc. exact Hc. }
  split.
  - constructor; unfold flush_world; cbn [sths scps]; rewrite ?map_length; auto.
    + intros t Ht. fold (flush_world w'). rewrite (Sth t Ht). specialize (Hth t Ht).
      destruct Hth as [A1 A2 A3 A4 A5 A6 A7 A8 (c0 & c1 & c2 & Ec & R0 & R1 & R2)].
      constructor; cbn [th_with_chans s_state s_isrun s_isact s_cpu s_tid s_pid s_gindex s_ooc s_chans]; auto.
      rewrite Ec. cbn [map]. eexists _, _, _. split; [reflexivity|].
      split; [apply (ChRel_fl _ _ _ _ R0)|split; [apply (ChRel_fl _ _ _ _ R1)|apply (ChRel_fl _ _ _ _ R2)]].
    + intros c Hc. fold (flush_world w'). rewrite (Scp c Hc). specialize (Hcp c Hc).
      destruct Hcp as [B1 B2 B3 [B4 B5]]. cbn [mem_nat existsb].
      constructor; cbn [cp_with_chans c_threads c_virtual c_gindex c_chans]; auto.
      split; [rewrite map_length; exact B4|]. intros k Hk. specialize (B5 k Hk).
      rewrite (nth_map_lt fl _ (ChanProofs.chan0 null_spec)) by (rewrite B4; exact Hk).
      destruct (mem_nat c syn) eqn:Es.
      * destruct (ChRel_fl _ _ _ _ B5) as [X Y]. split; [exact X|exact Y].
      * destruct B5 as [B5 D5]. rewrite (HQ c Es). unfold fl. rewrite D5. cbn [Z.eqb]. split; [exact B5|exact D5].
  - intros t ch Hin.
    destruct (Nat.lt_ge_cases t (length (threads st'))) as [L|L].
    + rewrite (Sth t L) in Hin. cbn [th_with_chans s_chans] in Hin. apply in_map_iff in Hin as (c0 & <- & Hc0).
      destruct (tr_chans _ _ _ _ _ (Hth t L)) as (d0 & d1 & d2 & Ec & R0 & R1 & R2). rewrite Ec in Hc0.
      destruct Hc0 as [<-|[<-|[<-|[]]]]; eapply ChRel_fl; eauto.
    + unfold sth, flush_world in Hin; cbn [sths] in Hin. rewrite nth_overflow in Hin by (rewrite map_length, Hlt; exact L). destruct Hin.
Qed.

Lemma oh_step_lengths sx st who ev st' : oh_step sx st who ev = Ok st' ->
  length (cpu_touched st') = length (cpu_touched st) /\ length (cpu_threads st') = length (cpu_threads st).
Proof.
  unfold oh_step, change_state, migrate.
  repeat match goal with
  | |- context [match ?x with _ => _ end] => destruct x
  | |- context [if ?x then _ else _] => destruct x
  end; intros H; inversion H; subst; cbn [touch set_thread set_cpu_threads cpu_touched cpu_threads]; rewrite ?length_update; split; reflexivity.
Qed.

Lemma core_lengths sx cs st who c v p st' : c = 72 \/ c = 65 ->
  GuardsProofs.fst_res (core_step sx st who (DecodeDefs.decode_ovni cs c v p)) = Ok st' ->
  length (cpu_touched st') = length (cpu_touched st) /\ length (cpu_threads st') = length (cpu_threads st).
Proof.
  intros Hc. destruct (GuardsProofs.decode_ovni_shape cs c v p Hc) as [[x ->] | [-> | [ev ->]]]; cbn [core_step GuardsProofs.fst_res].
  - discriminate.
  - destruct (nth_opt (threads st) who) as [x0|]; [destruct (t_ooc x0)|]; cbn [GuardsProofs.fst_res]; try discriminate.
    intros H; inversion H; subst. split; reflexivity.
  - destruct (oh_step sx st who ev) eqn:Eo; cbn [GuardsProofs.fst_res]; [|discriminate].
    intros H; inversion H; subst. eapply oh_step_lengths; eauto.
Qed.

(* with Bind, a CPU's list has no more elements than there are threads *)
Lemma Bind_small sx st : ThreadCpuProofs.Bind sx st -> Z.of_nat (length (s_threads sx)) + 1 < 2 ^ 31 ->
  forall k, Z.of_nat (length (clst st k)) + 1 < 2 ^ 31.
Proof.
  intros [B _] Hs k.
  assert (L : (length (clst st k) <= length (seq 0 (length (threads st))))%nat).
  { apply NoDup_incl_length; [apply (ThreadCpuProofs.b_nodup _ _ B k)|].
    intros t Hin. apply in_seq. destruct (ThreadCpuProofs.b_in _ _ B k t Hin) as [Ht _]. lia. }
  rewrite seq_length, (ThreadCpuProofs.b_len_t _ _ B) in L. lia.
Qed.

(* whole histories in the C world: each event is the generated dispatcher, then the flush of the dirty channels *)
Fixpoint sys_run (E : senv) (w : sys) (evs : list GuardsProofs.rawev) : result sys :=
  match evs with
  | [] => Ok w
  | (who, c, v, p) :: r =>
    match exec (Sys_gen.model_ovni_event (GuardsProofs.mk_emu who c v p)) E w with
    | Ok w' => sys_run E (flush_world w') r
    | Err e => Err e
    end
  end.

(* the events of the history are thread / affinity events of threads of the trace, and no OAr targets the CPU its
   remote thread is already on (checked in the state of the model where the event happens) *)
Fixpoint run_ok (sx : static) (cs : list chanspec) (st : state) (evs : list GuardsProofs.rawev) : Prop :=
  match evs with
  | [] => True
  | (who, c, v, p) :: r =>
    (who < length (s_threads sx))%nat /\ (c = 72 \/ c = 65) /\
    (c = 65 -> v = 114 ->
     forall t old new, GuardsPre.get_thread_cpu sx st (Some t) = Some old ->
       find_cpu sx (thread_loom sx who) (ix (GuardsPre.get_emu_ev_payload_i32 sx st (GuardsProofs.mk_emu who c v p)) 0) = Some new -> old <> new) /\
    match GuardsProofs.fst_res (core_step sx st who (DecodeDefs.decode_ovni cs c v p)) with
    | Ok st' => run_ok sx cs st' r
    | Err _ => True
    end
  end.

Theorem sys_run_eq (E : senv) cs evs : forall st w,
  let sx := se_sx E in
  Rel0 sx st w -> ThreadCpuProofs.Bind sx st ->
  length (cpu_touched st) = length (cpu_threads st) ->
  Z.of_nat (length (s_threads sx)) + 1 < 2 ^ 31 ->
  run_ok sx cs st evs ->
  match GuardsProofs.model_run sx cs st evs with
  | Ok st' => exists w', sys_run E w evs = Ok w' /\ Rel0 sx st' w'
  | Err _ => exists e', sys_run E w evs = Err e' /\ e' <> E_TRAP
  end.
Proof.
  induction evs as [|[[[who c] v] p] r IH]; intros st w sx H0 HB Hto Hs Hok; cbn [GuardsProofs.model_run sys_run].
  - exists w. split; [reflexivity|exact H0].
  - destruct Hok as (Hw & Hc & Hd & Hrest).
    assert (Ht : (who < length (threads st))%nat) by (rewrite (ThreadCpuProofs.b_len_t _ _ (proj1 HB)); exact Hw).
    pose proof (sys_event_eq E st w who cs c v p H0 HB Hto (Bind_small sx st HB Hs) Ht Hc Hd) as K. fold sx in K.
    pose proof (GuardsProofs.Bind_step sx cs st who c v p) as KB.
    pose proof (core_lengths sx cs st who c v p) as KL.
    destruct (GuardsProofs.fst_res (core_step sx st who (DecodeDefs.decode_ovni cs c v p))) as [st1|e1].
    + destruct K as (w1 & syn & K1 & K2 & K3). rewrite K1.
      destruct (KL st1 Hc eq_refl) as [L1 L2].
      apply (IH st1 (flush_world w1) (flush_Rel0 sx st st1 syn w1 K2 K3) (KB st1 HB Hc eq_refl)); auto.
      rewrite L1, L2. exact Hto.
    + destruct K as (e' & K1 & K2). rewrite K1. exists e'. split; [reflexivity|exact K2].
Qed.

(* from the initial C world *)
Corollary sys_run_init_eq (E : senv) cs evs :
  let sx := se_sx E in
  Z.of_nat (length (s_threads sx)) + 1 < 2 ^ 31 -> run_ok sx cs (init sx) evs ->
  match GuardsProofs.model_run sx cs (init sx) evs with
  | Ok st' => exists w', sys_run E (w_init sx) evs = Ok w' /\ Rel0 sx st' w'
  | Err _ => exists e', sys_run E (w_init sx) evs = Err e' /\ e' <> E_TRAP
  end.
Proof.
  intros sx Hs Hok. apply (sys_run_eq E cs evs (init sx) (w_init sx)); auto.
  - apply init_Rel0.
  - apply ThreadCpuProofs.init_Bind.
  - unfold init; cbn [cpu_touched cpu_threads]. rewrite !map_length. reflexivity.
Qed.
