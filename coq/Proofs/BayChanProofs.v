(* The channel layer of the bay model (BayDefs: chan_set / chan_push / chan_pop / chan_read / chan_flush
   with the dirty flag, last_value, the property bits and the bay's dirty callback) is what the functions
   of src/emu/chan.c GENERATED into Gen/Chan_gen.v compute, for every channel kind and every combination
   of properties, including every refusal.

   CRep relates a BayDefs channel and the C channel of ChanPre: is_dirty is the dirty flag; the three
   property words are read at the generated enum constants; the channel is registered in the bay (it has a
   dirty callback); last_value / data.value are the model values; the first n entries of the stack array
   are the model stack, bottom first, n <= MAX_CHAN_STACK; the array has MAX_CHAN_STACK cells.
   The bay's cb_chan_is_dirty (bay.c) is the append to the dirty list: it is called (ncb grows by one)
   exactly when BayDefs appends the channel to b_dirty, and it reports success. *)
From Coq Require Import ZArith List Bool Lia.
From OV Require Import Base.CInt Emu.EmuCoreDefs Emu.ChanPre Proofs.EmitProofs.
From OV Require Gen.Chan_gen Emu.BayDefs Proofs.BayBasics.
Import ListNotations.
Local Open Scope Z_scope.

Module B := BayDefs.

(* ---- small facts, kept local so that this file depends on the generated chan.c only (not on the C08 proofs) *)

(* model value <-> struct value (VALUE_NULL = 0 with payload 0, VALUE_INT64 = 1) *)
Definition inj (o : value) : cvalue :=
  match o with None => vnull | Some z => {| vt := 1; vi := z |} end.

Lemma inj_eq sx st a b : value_is_equal sx st (inj a) (inj b) = b2z (value_eqb a b).
Proof. destruct a, b; cbn; try reflexivity. Qed.

Lemma firstn_update_snoc {A} (l : list A) n x : (n < length l)%nat -> firstn (S n) (update l n x) = firstn n l ++ [x].
Proof.
  revert n; induction l as [|a l IH]; intros [|n] H; cbn in *; try lia; [reflexivity|].
  rewrite IH by lia. reflexivity.
Qed.

Lemma firstn_snoc_inv {A} (l a : list A) y k d : firstn (S k) l = a ++ [y] -> length a = k ->
  nth k l d = y /\ firstn k l = a.
Proof.
  revert l a; induction k as [|k IH]; intros l a H L.
  - destruct a; [|discriminate]. destruct l as [|x l]; cbn in H; [discriminate|]. inversion H. split; reflexivity.
  - destruct a as [|a0 a]; [discriminate|]. destruct l as [|x l]; [discriminate|].
    cbn [firstn app] in H. inversion H; subst. cbn [length] in L.
    destruct (IH l a H2 ltac:(lia)) as [K1 K2]. split; [exact K1|]. cbn [firstn]. rewrite K2. reflexivity.
Qed.

Ltac munf := unfold need, ite, bind_, bind, eval, ret, fail, exec.

Definition cmark_dirty (x : chan) : chan :=
  {| is_dirty := 1; prop := prop x; has_cb := has_cb x; last_value := last_value x;
     ctype := ctype x; dvalue := dvalue x; sn := sn x; svalues := svalues x |}.

Lemma geb_len' (n : nat) : (Z.of_nat n >=? 512) = Nat.leb MAX_CHAN_STACK n.
Proof. unfold MAX_CHAN_STACK. destruct (Nat.leb_spec 512 n); destruct (Z.geb_spec (Z.of_nat n) 512); try reflexivity; lia. Qed.

(* the value get_value / chan_read compute *)
Definition cur_value (c : chan) : cvalue :=
  if negb (negb (ctype c =? 0)) then dvalue c
  else if sn c >? 0 then ix_cvalue (svalues c) (sn c - 1) else vnull.

Lemma get_value_run sx st p : p <> None -> (forall i, p <> Some (LStackAt i)) ->
  Chan_gen.get_value (Some tt) p sx st = store_ptr_value p (fun _ _ => cur_value (ch st)) sx st.
Proof.
  intros Hp Hs. unfold Chan_gen.get_value, cur_value. munf. cbn [is_null negb andb].
  unfold get_chan_type, addr_chan_data_stack, get_chan_stack_n, get_chan_data_value, get_chan_stack_values, value_null.
  change (cast_uint32 Chan_gen.c_CHAN_SINGLE) with 0.
  destruct p as [[| i |]|]; try (exfalso; apply Hp; reflexivity); try (exfalso; eapply Hs; reflexivity).
  all: destruct (negb (negb (ctype (ch st) =? 0))); cbn [is_null negb]; unfold store_ptr_value.
  all: try reflexivity.
  all: destruct (sn (ch st) >? 0); reflexivity.
Qed.

Record CRep (b : B.chan) (c : chan) : Prop := {
  cr_dirty : is_dirty c = b2z (B.c_dirty b);
  cr_dw : ix (prop c) Chan_gen.c_CHAN_DIRTY_WRITE = b2z (B.c_dw b);
  cr_allow : ix (prop c) Chan_gen.c_CHAN_ALLOW_DUP = b2z (B.c_allow b);
  cr_ign : ix (prop c) Chan_gen.c_CHAN_IGNORE_DUP = b2z (B.c_ign b);
  cr_cb : has_cb c = true;
  cr_last : last_value c = inj (B.c_last b);
  cr_type : ctype c = (if B.c_stack b then cast_uint32 Chan_gen.c_CHAN_STACK else cast_uint32 Chan_gen.c_CHAN_SINGLE);
  cr_val : dvalue c = inj (B.c_val b);
  cr_len : length (svalues c) = MAX_CHAN_STACK;
  cr_n : sn c = Z.of_nat (length (B.c_stk b)) /\ (length (B.c_stk b) <= MAX_CHAN_STACK)%nat;
  cr_stk : firstn (length (B.c_stk b)) (svalues c) = map inj (rev (B.c_stk b))
}.

(* the rest of the bay is not touched by an operation on channel c *)
Definition same_but (b b' : B.bay) (c : nat) : Prop :=
  (forall c', c' <> c -> nth_error (B.b_chans b') c' = nth_error (B.b_chans b) c') /\
  B.b_muxes b' = B.b_muxes b /\ B.b_dcbs b' = B.b_dcbs b /\ B.b_ecbs b' = B.b_ecbs b.

(* a write: BayDefs result vs the run of the generated function *)
Definition write_rel (b : B.bay) (c : nat) (sx : cenv) (st : cstate) (m : M unit) (res : result B.bay) : Prop :=
  match res with
  | Err e => e <> B.E_WIRING /\ exists e', exec m sx st = Err e' /\ e' <> E_TRAP
  | Ok b' =>
    exists st' bch', exec m sx st = Ok st' /\ nth_error (B.b_chans b') c = Some bch' /\ CRep bch' (ch st') /\
      out st' = out st /\ same_but b b' c /\
      ((ncb st' = ncb st /\ B.b_dirty b' = B.b_dirty b) \/
       (ncb st' = S (ncb st) /\ B.b_dirty b' = B.b_dirty b ++ [c]))
  end.

(* ---------------------------------------------------------------- set_dirty in every state *)

Lemma b2z_nz b : negb (b2z b =? 0) = b.
Proof. destruct b; reflexivity. Qed.

Lemma set_dirty_gen sx st d dw :
  is_dirty (ch st) = b2z d -> ix (prop (ch st)) Chan_gen.c_CHAN_DIRTY_WRITE = b2z dw -> has_cb (ch st) = true -> cb_ret sx = 0 ->
  Chan_gen.set_dirty (Some tt) sx st =
  if d then (if dw then Ok (tt, st) else Err E_FAIL)
  else Ok (tt, {| ch := cmark_dirty (ch st); out := out st; ncb := S (ncb st) |}).
Proof.
  intros Hd Hdw Hcb Hret. unfold Chan_gen.set_dirty, cmark_dirty. munf. cbn [is_null negb].
  unfold get_chan_is_dirty, get_chan_prop. rewrite Hd, b2z_nz. destruct d.
  - rewrite Hdw, b2z_nz. destruct dw; reflexivity.
  - unfold set_chan_is_dirty, upd_ch, with_ch, get_chan_dirty_cb. cbn [ch has_cb]. rewrite Hcb. cbn [is_null negb].
    unfold call_dirty_cb, get_chan_dirty_arg. cbn [ch has_cb]. rewrite Hret. reflexivity.
Qed.

Lemma update_nth_error_id {A} (l : list A) n x : nth_error l n = Some x -> update l n x = l.
Proof. revert n. induction l as [|a l IH]; intros [|n] H; cbn in *; try discriminate; [inversion H; reflexivity|rewrite IH; auto]. Qed.

Lemma same_but_refl b c : same_but b b c.
Proof. repeat split; reflexivity. Qed.

Lemma same_but_set b c ch0 : same_but b (B.set_chan b c ch0) c.
Proof. repeat split; try reflexivity. intros c' Hne. unfold B.set_chan. cbn. apply BayBasics.nth_error_update_other. congruence. Qed.

Lemma same_but_set_dl b c ch0 l : same_but b (B.set_dirty_list (B.set_chan b c ch0) l) c.
Proof. apply same_but_set. Qed.

(* mark_dirty of BayDefs against set_dirty of chan.c, for a channel ch1 that already holds its new data *)
Lemma mark_dirty_rel b c bch1 sx st :
  (c < length (B.b_chans b))%nat -> CRep bch1 (ch st) -> cb_ret sx = 0 ->
  match B.mark_dirty b c bch1 with
  | Err e => e <> B.E_WIRING /\ Chan_gen.set_dirty (Some tt) sx st = Err E_FAIL
  | Ok b' =>
    exists st' bch', Chan_gen.set_dirty (Some tt) sx st = Ok (tt, st') /\ nth_error (B.b_chans b') c = Some bch' /\ CRep bch' (ch st') /\
      out st' = out st /\ same_but b b' c /\
      ((ncb st' = ncb st /\ B.b_dirty b' = B.b_dirty b) \/ (ncb st' = S (ncb st) /\ B.b_dirty b' = B.b_dirty b ++ [c]))
  end.
Proof.
  intros Hlt R Hret. unfold B.mark_dirty.
  rewrite (set_dirty_gen sx st (B.c_dirty bch1) (B.c_dw bch1) (cr_dirty _ _ R) (cr_dw _ _ R) (cr_cb _ _ R) Hret).
  destruct (B.c_dirty bch1) eqn:Ed.
  - destruct (B.c_dw bch1) eqn:Edw; [|split; [discriminate|reflexivity]].
    exists st, bch1. split; [reflexivity|]. split; [unfold B.set_chan; cbn; apply BayBasics.nth_error_update_same; exact Hlt|].
    split; [exact R|]. split; [reflexivity|]. split; [apply same_but_set|]. left. split; reflexivity.
  - eexists. exists (B.with_dirty bch1 true). split; [reflexivity|].
    split; [unfold B.set_dirty_list, B.set_chan; cbn; apply BayBasics.nth_error_update_same; exact Hlt|].
    split; [|split; [reflexivity|split; [apply same_but_set_dl|right; split; reflexivity]]].
    destruct R. constructor; cbn [ch cmark_dirty is_dirty prop has_cb last_value ctype dvalue svalues sn
      B.with_dirty B.c_dirty B.c_dw B.c_allow B.c_ign B.c_last B.c_stack B.c_val B.c_stk]; assumption || reflexivity.
Qed.

(* ---------------------------------------------------------------- the common prefix: type, dirty, duplicates *)

Ltac crep_fields R :=
  let H := fresh in
  pose proof (cr_dirty _ _ R) as H; pose proof (cr_dw _ _ R); pose proof (cr_allow _ _ R); pose proof (cr_ign _ _ R);
  pose proof (cr_cb _ _ R); pose proof (cr_last _ _ R); pose proof (cr_type _ _ R); pose proof (cr_val _ _ R);
  pose proof (cr_len _ _ R); pose proof (cr_n _ _ R); pose proof (cr_stk _ _ R).

(* ---------------------------------------------------------------- chan_set *)

Theorem bay_chan_set_from_source b c v bch sx st :
  nth_error (B.b_chans b) c = Some bch -> CRep bch (ch st) -> cb_ret sx = 0 ->
  write_rel b c sx st (Chan_gen.chan_set (Some tt) (inj v)) (B.chan_set b c v).
Proof.
  intros Hc R Hret. pose proof (BayBasics.nth_error_Some_lt _ _ _ Hc) as Hlt.
  unfold write_rel, B.chan_set. rewrite Hc.
  unfold Chan_gen.chan_set. munf. cbn [is_null negb andb].
  unfold get_chan_type, get_chan_is_dirty, get_chan_last_value, get_chan_prop.
  rewrite (cr_type _ _ R), (cr_dirty _ _ R), (cr_dw _ _ R), (cr_allow _ _ R), (cr_last _ _ R), !b2z_nz.
  destruct (B.c_stack bch) eqn:Es.
  { change (negb (cast_uint32 Chan_gen.c_CHAN_STACK =? cast_uint32 Chan_gen.c_CHAN_SINGLE)) with true. cbn iota.
    split; [discriminate|]. exists E_FAIL. split; [reflexivity|discriminate]. }
  rewrite Z.eqb_refl. cbn [negb].
  destruct (B.c_dirty bch) eqn:Ed; cbn [andb negb is_null].
  - destruct (B.c_dw bch) eqn:Edw; cbn [negb andb].
    2:{ split; [discriminate|]. exists E_FAIL. split; [reflexivity|discriminate]. }
    unfold B.dup_check. destruct (B.c_allow bch) eqn:Ea; cbn [negb andb].
    + (* duplicates allowed *)
      unfold set_chan_data_value, upd_ch, with_ch. cbn [ch out ncb].
      match goal with |- context [Chan_gen.set_dirty (Some tt) sx ?s] => set (st1 := s) end.
      assert (R1 : CRep (B.with_val bch v) (ch st1)).
      { destruct R. constructor; cbn [st1 ch is_dirty prop has_cb last_value ctype dvalue svalues sn
          B.with_val B.c_dirty B.c_dw B.c_allow B.c_ign B.c_last B.c_stack B.c_val B.c_stk]; assumption || reflexivity. }
      pose proof (mark_dirty_rel b c (B.with_val bch v) sx st1 Hlt R1 Hret) as K.
      destruct (B.mark_dirty b c (B.with_val bch v)) as [b'|e].
      * destruct K as (st' & bch' & E & A1 & A2 & A3 & A4 & A5). rewrite E. exists st', bch'. split; [reflexivity|]. split; [exact A1|]. split; [exact A2|]. split; [exact A3|]. split; [exact A4|exact A5].
      * destruct K as [K1 K2]. rewrite K2. split; [exact K1|]. exists E_FAIL. split; [reflexivity|discriminate].
    + rewrite inj_eq, b2z_nz. destruct (value_eqb (B.c_last bch) v) eqn:Ev.
      * rewrite (cr_ign _ _ R), b2z_nz. destruct (B.c_ign bch).
        -- exists st, bch. split; [reflexivity|]. split; [exact Hc|]. split; [exact R|]. split; [reflexivity|]. split; [apply same_but_refl|left; split; reflexivity].
        -- split; [discriminate|]. exists E_FAIL. split; [reflexivity|discriminate].
      * unfold set_chan_data_value, upd_ch, with_ch. cbn [ch out ncb].
        match goal with |- context [Chan_gen.set_dirty (Some tt) sx ?s] => set (st1 := s) end.
        assert (R1 : CRep (B.with_val bch v) (ch st1)).
        { destruct R. constructor; cbn [st1 ch is_dirty prop has_cb last_value ctype dvalue svalues sn
            B.with_val B.c_dirty B.c_dw B.c_allow B.c_ign B.c_last B.c_stack B.c_val B.c_stk]; assumption || reflexivity. }
        pose proof (mark_dirty_rel b c (B.with_val bch v) sx st1 Hlt R1 Hret) as K.
        destruct (B.mark_dirty b c (B.with_val bch v)) as [b'|e].
        -- destruct K as (st' & bch' & E & A1 & A2 & A3 & A4 & A5). rewrite E. exists st', bch'. split; [reflexivity|]. split; [exact A1|]. split; [exact A2|]. split; [exact A3|]. split; [exact A4|exact A5].
        -- destruct K as [K1 K2]. rewrite K2. split; [exact K1|]. exists E_FAIL. split; [reflexivity|discriminate].
  - unfold B.dup_check. destruct (B.c_allow bch) eqn:Ea; cbn [negb andb].
    + unfold set_chan_data_value, upd_ch, with_ch. cbn [ch out ncb].
      match goal with |- context [Chan_gen.set_dirty (Some tt) sx ?s] => set (st1 := s) end.
      assert (R1 : CRep (B.with_val bch v) (ch st1)).
      { destruct R. constructor; cbn [st1 ch is_dirty prop has_cb last_value ctype dvalue svalues sn
          B.with_val B.c_dirty B.c_dw B.c_allow B.c_ign B.c_last B.c_stack B.c_val B.c_stk]; assumption || reflexivity. }
      pose proof (mark_dirty_rel b c (B.with_val bch v) sx st1 Hlt R1 Hret) as K.
      destruct (B.mark_dirty b c (B.with_val bch v)) as [b'|e].
      * destruct K as (st' & bch' & E & A1 & A2 & A3 & A4 & A5). rewrite E. exists st', bch'. split; [reflexivity|]. split; [exact A1|]. split; [exact A2|]. split; [exact A3|]. split; [exact A4|exact A5].
      * destruct K as [K1 K2]. rewrite K2. split; [exact K1|]. exists E_FAIL. split; [reflexivity|discriminate].
    + rewrite inj_eq, b2z_nz. destruct (value_eqb (B.c_last bch) v) eqn:Ev.
      * rewrite (cr_ign _ _ R), b2z_nz. destruct (B.c_ign bch).
        -- exists st, bch. split; [reflexivity|]. split; [exact Hc|]. split; [exact R|]. split; [reflexivity|]. split; [apply same_but_refl|left; split; reflexivity].
        -- split; [discriminate|]. exists E_FAIL. split; [reflexivity|discriminate].
      * unfold set_chan_data_value, upd_ch, with_ch. cbn [ch out ncb].
        match goal with |- context [Chan_gen.set_dirty (Some tt) sx ?s] => set (st1 := s) end.
        assert (R1 : CRep (B.with_val bch v) (ch st1)).
        { destruct R. constructor; cbn [st1 ch is_dirty prop has_cb last_value ctype dvalue svalues sn
            B.with_val B.c_dirty B.c_dw B.c_allow B.c_ign B.c_last B.c_stack B.c_val B.c_stk]; assumption || reflexivity. }
        pose proof (mark_dirty_rel b c (B.with_val bch v) sx st1 Hlt R1 Hret) as K.
        destruct (B.mark_dirty b c (B.with_val bch v)) as [b'|e].
        -- destruct K as (st' & bch' & E & A1 & A2 & A3 & A4 & A5). rewrite E. exists st', bch'. split; [reflexivity|]. split; [exact A1|]. split; [exact A2|]. split; [exact A3|]. split; [exact A4|exact A5].
        -- destruct K as [K1 K2]. rewrite K2. split; [exact K1|]. exists E_FAIL. split; [reflexivity|discriminate].
Qed.

Ltac fin b c bch1 sx st1 Hlt R1 Hret :=
  let K := fresh "K" in
  pose proof (mark_dirty_rel b c bch1 sx st1 Hlt R1 Hret) as K;
  destruct (B.mark_dirty b c bch1) as [b'|e];
  [ destruct K as (st' & bch' & E & A1 & A2 & A3 & A4 & A5); rewrite E; exists st', bch';
    (split; [reflexivity|]); (split; [exact A1|]); (split; [exact A2|]); (split; [exact A3|]); (split; [exact A4|exact A5])
  | destruct K as [K1 K2]; rewrite K2; split; [exact K1|]; exists E_FAIL; split; [reflexivity|discriminate] ].

(* ---------------------------------------------------------------- chan_push *)

Lemma push_rep bch c0 v :
  CRep bch c0 -> (length (B.c_stk bch) < MAX_CHAN_STACK)%nat ->
  CRep (B.with_stk bch (v :: B.c_stk bch))
       {| is_dirty := is_dirty c0; prop := prop c0; has_cb := has_cb c0; last_value := last_value c0; ctype := ctype c0;
          dvalue := dvalue c0; sn := Z.of_nat (length (B.c_stk bch)) + 1;
          svalues := update (svalues c0) (Z.to_nat (Z.of_nat (length (B.c_stk bch)))) (inj v) |}.
Proof.
  intros R Hfull. destruct R as [D1 D2 D3 D4 D5 D6 D7 D8 D9 [D10 D10'] D11].
  constructor; cbn [is_dirty prop has_cb last_value ctype dvalue svalues sn
    B.with_stk B.c_dirty B.c_dw B.c_allow B.c_ign B.c_last B.c_stack B.c_val B.c_stk length]; try assumption.
  - rewrite BayBasics.length_update. exact D9.
  - split; lia.
  - rewrite Nat2Z.id. cbn [rev]. rewrite map_app. cbn [map]. rewrite <- D11. apply firstn_update_snoc. lia.
Qed.

Theorem bay_chan_push_from_source b c v bch sx st :
  nth_error (B.b_chans b) c = Some bch -> CRep bch (ch st) -> cb_ret sx = 0 ->
  write_rel b c sx st (Chan_gen.chan_push (Some tt) (inj v)) (B.chan_push b c v).
Proof.
  intros Hc R Hret. pose proof (BayBasics.nth_error_Some_lt _ _ _ Hc) as Hlt.
  unfold write_rel, B.chan_push. rewrite Hc.
  unfold Chan_gen.chan_push. munf. cbn [is_null negb andb].
  unfold get_chan_type, get_chan_is_dirty, get_chan_last_value, get_chan_prop, addr_chan_data_stack, get_chan_stack_n.
  destruct (cr_n _ _ R) as [Hsn Hle].
  rewrite (cr_type _ _ R), (cr_dirty _ _ R), (cr_dw _ _ R), (cr_allow _ _ R), (cr_last _ _ R), Hsn, !b2z_nz, geb_len'.
  destruct (B.c_stack bch) eqn:Es; cbn [negb].
  2:{ change (negb (cast_uint32 Chan_gen.c_CHAN_SINGLE =? cast_uint32 Chan_gen.c_CHAN_STACK)) with true. cbn iota.
      split; [discriminate|]. exists E_FAIL. split; [reflexivity|discriminate]. }
  rewrite Z.eqb_refl. cbn [negb is_null].
  assert (Hpush : forall (Hd : B.c_dirty bch && negb (B.c_dw bch) = false),
    match
      (if Nat.leb MAX_CHAN_STACK (length (B.c_stk bch)) then Err E_STACK else B.mark_dirty b c (B.with_stk bch (v :: B.c_stk bch)))
    with
    | Ok b' => exists st' bch',
        match (if Nat.leb MAX_CHAN_STACK (length (B.c_stk bch)) then Err E_FAIL
               else match set_chan_stack_n (Some tt) (fun _ _ => Z.of_nat (length (B.c_stk bch)) + 1) sx st with
                    | Ok (_, s1) => match set_chan_stack_values_at (Some tt) (fun _ _ => Z.of_nat (length (B.c_stk bch))) (fun _ _ => inj v) sx s1 with
                                    | Ok (_, s2) => match Chan_gen.set_dirty (Some tt) sx s2 with Ok (_, s3) => Ok (tt, s3) | Err e => Err e end
                                    | Err e => Err e end
                    | Err e => Err e end)
        with Ok (_, st') => Ok st' | Err e => Err e end = Ok st' /\
        nth_error (B.b_chans b') c = Some bch' /\ CRep bch' (ch st') /\ out st' = out st /\ same_but b b' c /\
        ((ncb st' = ncb st /\ B.b_dirty b' = B.b_dirty b) \/ (ncb st' = S (ncb st) /\ B.b_dirty b' = B.b_dirty b ++ [c]))
    | Err e => e <> B.E_WIRING /\ exists e',
        match (if Nat.leb MAX_CHAN_STACK (length (B.c_stk bch)) then Err E_FAIL
               else match set_chan_stack_n (Some tt) (fun _ _ => Z.of_nat (length (B.c_stk bch)) + 1) sx st with
                    | Ok (_, s1) => match set_chan_stack_values_at (Some tt) (fun _ _ => Z.of_nat (length (B.c_stk bch))) (fun _ _ => inj v) sx s1 with
                                    | Ok (_, s2) => match Chan_gen.set_dirty (Some tt) sx s2 with Ok (_, s3) => Ok (tt, s3) | Err e => Err e end
                                    | Err e => Err e end
                    | Err e => Err e end)
        with Ok (_, st') => Ok st' | Err e => Err e end = Err e' /\ e' <> E_TRAP
    end).
  { intros _. destruct (Nat.leb MAX_CHAN_STACK (length (B.c_stk bch))) eqn:Efull.
    { split; [discriminate|]. exists E_FAIL. split; [reflexivity|discriminate]. }
    apply Nat.leb_gt in Efull.
    unfold set_chan_stack_n, set_chan_stack_values_at, upd_ch, with_ch, in_range. cbn [ch svalues out ncb].
    rewrite (cr_len _ _ R).
    replace ((0 <=? Z.of_nat (length (B.c_stk bch))) && (Z.of_nat (length (B.c_stk bch)) <? Z.of_nat MAX_CHAN_STACK)) with true
      by (symmetry; apply andb_true_iff; split; [apply Z.leb_le; lia|apply Z.ltb_lt; lia]).
    unfold set_svalues. cbn [is_dirty prop has_cb last_value ctype dvalue sn svalues].
    match goal with |- context [Chan_gen.set_dirty (Some tt) sx ?s] => set (st1 := s) end.
    pose proof (push_rep bch (ch st) v R Efull) as R1. change (CRep (B.with_stk bch (v :: B.c_stk bch)) (ch st1)) in R1.
    fin b c (B.with_stk bch (v :: B.c_stk bch)) sx st1 Hlt R1 Hret. }
  destruct (B.c_dirty bch) eqn:Ed; cbn [andb negb is_null].
  - destruct (B.c_dw bch) eqn:Edw; cbn [negb andb].
    2:{ split; [discriminate|]. exists E_FAIL. split; [reflexivity|discriminate]. }
    unfold B.dup_check. destruct (B.c_allow bch) eqn:Ea; cbn [negb andb is_null].
    + apply Hpush. reflexivity.
    + rewrite inj_eq, b2z_nz. destruct (value_eqb (B.c_last bch) v) eqn:Ev.
      * rewrite (cr_ign _ _ R), b2z_nz. destruct (B.c_ign bch).
        -- exists st, bch. split; [reflexivity|]. split; [exact Hc|]. split; [exact R|]. split; [reflexivity|]. split; [apply same_but_refl|left; split; reflexivity].
        -- split; [discriminate|]. exists E_FAIL. split; [reflexivity|discriminate].
      * cbn [is_null negb]. apply Hpush. reflexivity.
  - unfold B.dup_check. destruct (B.c_allow bch) eqn:Ea; cbn [negb andb is_null].
    + apply Hpush. reflexivity.
    + rewrite inj_eq, b2z_nz. destruct (value_eqb (B.c_last bch) v) eqn:Ev.
      * rewrite (cr_ign _ _ R), b2z_nz. destruct (B.c_ign bch).
        -- exists st, bch. split; [reflexivity|]. split; [exact Hc|]. split; [exact R|]. split; [reflexivity|]. split; [apply same_but_refl|left; split; reflexivity].
        -- split; [discriminate|]. exists E_FAIL. split; [reflexivity|discriminate].
      * cbn [is_null negb]. apply Hpush. reflexivity.
Qed.

(* ---------------------------------------------------------------- chan_pop *)

Theorem bay_chan_pop_from_source b c v bch sx st :
  nth_error (B.b_chans b) c = Some bch -> CRep bch (ch st) -> cb_ret sx = 0 ->
  write_rel b c sx st (Chan_gen.chan_pop (Some tt) (inj v)) (B.chan_pop b c v).
Proof.
  intros Hc R Hret. pose proof (BayBasics.nth_error_Some_lt _ _ _ Hc) as Hlt.
  unfold write_rel, B.chan_pop. rewrite Hc.
  unfold Chan_gen.chan_pop. munf. cbn [is_null negb andb].
  unfold get_chan_type, get_chan_is_dirty, get_chan_prop, addr_chan_data_stack, get_chan_stack_n, addr_chan_stack_values_at.
  destruct (cr_n _ _ R) as [Hsn Hle]. pose proof (cr_stk _ _ R) as Hs.
  rewrite (cr_type _ _ R), (cr_dirty _ _ R), (cr_dw _ _ R), Hsn, !b2z_nz.
  destruct (B.c_stack bch) eqn:Es; cbn [negb].
  2:{ change (negb (cast_uint32 Chan_gen.c_CHAN_SINGLE =? cast_uint32 Chan_gen.c_CHAN_STACK)) with true. cbn iota.
      split; [discriminate|]. exists E_FAIL. split; [reflexivity|discriminate]. }
  rewrite Z.eqb_refl. cbn [negb is_null].
  replace (if B.c_dirty bch then true else true) with true by (destruct (B.c_dirty bch); reflexivity). cbn iota.
  destruct (B.c_dirty bch && negb (B.c_dw bch)) eqn:Edd.
  { split; [discriminate|]. exists E_FAIL. split; [reflexivity|discriminate]. }
  destruct (B.c_stk bch) as [|x rest] eqn:Er.
  { cbn [length Z.of_nat Z.leb Z.compare]. split; [discriminate|]. exists E_FAIL. split; [reflexivity|discriminate]. }
  cbn [length] in *.
  replace (Z.of_nat (S (length rest)) <=? 0) with false by (symmetry; apply Z.leb_gt; lia).
  cbn [is_null negb]. unfold load_ptr_value, ix_cvalue.
  replace (Z.to_nat (Z.of_nat (S (length rest)) - 1)) with (length rest) by lia.
  cbn [rev] in Hs. rewrite map_app in Hs. cbn [map] in Hs.
  destruct (firstn_snoc_inv _ _ _ _ vnull Hs ltac:(rewrite map_length, rev_length; reflexivity)) as [Htop Hpre].
  rewrite Htop, inj_eq, b2z_nz.
  destruct (value_eqb x v) eqn:Exv; cbn [negb].
  2:{ split; [discriminate|]. exists E_FAIL. split; [reflexivity|discriminate]. }
  unfold set_chan_stack_n, upd_ch, with_ch. cbn [ch out ncb].
  match goal with |- context [Chan_gen.set_dirty (Some tt) sx ?s] => set (st1 := s) end.
  assert (R1 : CRep (B.with_stk bch rest) (ch st1)).
  { destruct R as [D1 D2 D3 D4 D5 D6 D7 D8 D9 D10 D11].
    constructor; cbn [st1 ch is_dirty prop has_cb last_value ctype dvalue svalues sn
      B.with_stk B.c_dirty B.c_dw B.c_allow B.c_ign B.c_last B.c_stack B.c_val B.c_stk]; try assumption.
    split; lia. }
  fin b c (B.with_stk bch rest) sx st1 Hlt R1 Hret.
Qed.

(* ---------------------------------------------------------------- chan_read, chan_flush *)

Lemma cur_crep bch c0 : CRep bch c0 -> cur_value c0 = inj (B.chan_read bch).
Proof.
  intros R. unfold cur_value, B.chan_read. destruct (cr_n _ _ R) as [Hsn Hle]. pose proof (cr_stk _ _ R) as Hs.
  rewrite (cr_type _ _ R). destruct (B.c_stack bch) eqn:Es.
  - change (negb (negb (cast_uint32 Chan_gen.c_CHAN_STACK =? 0))) with false. cbn iota. rewrite Hsn.
    destruct (B.c_stk bch) as [|x rest]; [reflexivity|]. cbn [length] in *.
    replace (Z.of_nat (S (length rest)) >? 0) with true by (symmetry; apply Z.gtb_lt; lia).
    unfold ix_cvalue. replace (Z.to_nat (Z.of_nat (S (length rest)) - 1)) with (length rest) by lia.
    cbn [rev] in Hs. rewrite map_app in Hs. cbn [map] in Hs.
    destruct (firstn_snoc_inv _ _ _ _ vnull Hs ltac:(rewrite map_length, rev_length; reflexivity)) as [Htop _]. exact Htop.
  - change (negb (negb (cast_uint32 Chan_gen.c_CHAN_SINGLE =? 0))) with true. cbn iota. apply (cr_val _ _ R).
Qed.

Theorem bay_chan_read_from_source bch sx st : CRep bch (ch st) ->
  exec (Chan_gen.chan_read (Some tt) (Some LOut)) sx st = Ok {| ch := ch st; out := inj (B.chan_read bch); ncb := ncb st |}.
Proof.
  intros R. rewrite <- (cur_crep bch _ R).
  unfold Chan_gen.chan_read, cur_value. munf. cbn [is_null negb andb].
  unfold get_chan_type, addr_chan_data_stack, get_chan_stack_n, get_chan_data_value, get_chan_stack_values, value_null.
  change (cast_uint32 Chan_gen.c_CHAN_SINGLE) with 0.
  destruct (negb (negb (ctype (ch st) =? 0))); cbn [is_null negb]; unfold store_ptr_value; [reflexivity|].
  destruct (sn (ch st) >? 0); reflexivity.
Qed.

(* chan_flush as used by the third phase of bay_propagate (BayDefs.flush_all): refused on a clean channel *)
Theorem bay_chan_flush_from_source bch sx st : CRep bch (ch st) ->
  if B.c_dirty bch
  then exists st', exec (Chan_gen.chan_flush (Some tt)) sx st = Ok st' /\ CRep (B.flushed bch) (ch st') /\ out st' = out st /\ ncb st' = ncb st
  else exec (Chan_gen.chan_flush (Some tt)) sx st = Err E_FAIL.
Proof.
  intros R. pose proof (cur_crep bch _ R) as Hcur.
  unfold Chan_gen.chan_flush. munf. cbn [is_null negb]. unfold get_chan_is_dirty, addr_chan_last_value.
  rewrite (cr_dirty _ _ R), b2z_nz. destruct (B.c_dirty bch) eqn:Ed; cbn [negb]; [|reflexivity].
  rewrite get_value_run by (intros; discriminate).
  unfold store_ptr_value, set_chan_is_dirty, upd_ch, with_ch, ChanPre.set_last. cbn [ch out ncb].
  eexists. split; [reflexivity|]. split; [|split; reflexivity].
  destruct R as [D1 D2 D3 D4 D5 D6 D7 D8 D9 D10 D11].
  constructor; cbn [ch is_dirty prop has_cb last_value ctype dvalue svalues sn
    B.flushed B.c_dirty B.c_dw B.c_allow B.c_ign B.c_last B.c_stack B.c_val B.c_stk]; try assumption; try reflexivity.
Qed.

(* ---------------------------------------------------------------- the channels the wiring creates *)

(* chan_init (memset 0) + the chan_prop_set calls of thread_init_end / cpu_init_end / model_thread.c / mux_init,
   then bay_register: this C channel represents BayDefs.mk_chan *)
Definition c_chan0 (stack dw allow ign : bool) : chan :=
  {| is_dirty := 0; prop := [b2z dw; b2z allow; b2z ign]; has_cb := true; last_value := vnull;
     ctype := (if stack then 1 else 0); dvalue := vnull; sn := 0; svalues := repeat vnull MAX_CHAN_STACK |}.

Lemma mk_chan_rep stack dw allow ign : CRep (B.mk_chan stack dw allow ign) (c_chan0 stack dw allow ign).
Proof.
  constructor; cbn; try reflexivity; try (destruct stack; reflexivity); try apply repeat_length.
  split; [reflexivity|apply Nat.le_0_l].
Qed.

(* all in one, for Props/Properties_C06.v *)
Theorem bay_channels_from_source b c bch sx st :
  nth_error (B.b_chans b) c = Some bch -> CRep bch (ch st) -> cb_ret sx = 0 ->
  (forall v, write_rel b c sx st (Chan_gen.chan_set (Some tt) (inj v)) (B.chan_set b c v)) /\
  (forall v, write_rel b c sx st (Chan_gen.chan_push (Some tt) (inj v)) (B.chan_push b c v)) /\
  (forall v, write_rel b c sx st (Chan_gen.chan_pop (Some tt) (inj v)) (B.chan_pop b c v)) /\
  exec (Chan_gen.chan_read (Some tt) (Some LOut)) sx st = Ok {| ch := ch st; out := inj (B.chan_read bch); ncb := ncb st |} /\
  (if B.c_dirty bch
   then exists st', exec (Chan_gen.chan_flush (Some tt)) sx st = Ok st' /\ CRep (B.flushed bch) (ch st') /\ out st' = out st /\ ncb st' = ncb st
   else exec (Chan_gen.chan_flush (Some tt)) sx st = Err E_FAIL) /\
  (forall stack dw allow ign, CRep (B.mk_chan stack dw allow ign) (c_chan0 stack dw allow ign)).
Proof.
  intros Hc R Hret. split; [intros v; apply (bay_chan_set_from_source b c v bch); assumption|].
  split; [intros v; apply (bay_chan_push_from_source b c v bch); assumption|].
  split; [intros v; apply (bay_chan_pop_from_source b c v bch); assumption|].
  split; [apply bay_chan_read_from_source; assumption|].
  split; [apply bay_chan_flush_from_source; assumption|apply mk_chan_rep].
Qed.
