(* The creation functions GENERATED from src/emu/task.c and src/emu/body.c (Gen/TaskC_gen.v, unit taskc) compute the
   primitives the units guards and taskev use for them: EmuCoreDefs.find_task / find_type / task_create / type_create,
   and the body creation of GuardsPre.body_create (= the creation inside EmuCoreDefs.task_op's execute case). *)
From Coq Require Import ZArith List Bool Lia.
From OV Require Import Base.CInt Emu.EmuCoreDefs Emu.MarkDefs Emu.PvDefs Emu.TaskCPre.
From OV Require Gen.TaskC_gen Proofs.PvWProofs.
From Coq Require Import ZifyBool.
Import ListNotations.
Local Open Scope Z_scope.

Module G := TaskC_gen.
Module W := PvWProofs.

Lemma bind_ok {A B} (m : M A) (f : A -> M B) sx g a g' : m sx g = Ok (a, g') -> bind m f sx g = f a sx g'.
Proof. intros H. unfold bind. rewrite H. reflexivity. Qed.

Ltac cstep :=
  cbn -[Nat.ltb Nat.eqb Z.leb Z.geb Z.ltb Z.eqb slen firstn Z.to_nat length app update nth nth_error find_idx cast_uint64 cast_uint32
        cast_int32 Z.add Z.mul Z.sub render ix];
  rewrite ?Nat.ltb_irrefl, ?Nat.eqb_refl.

(* ------------------------------------------------------------------ look-ups *)
Theorem task_find_eq sx st id :
  G.task_find (get_task_info_tasks sx st tt) id sx st = Ok (find_idx (fun o => k_id o =? id) (s_tasks st), st).
Proof. unfold G.task_find, get_task_info_tasks, bind, eval, ret, hash_find_head_task. destruct (s_tasks st); reflexivity. Qed.

Theorem task_type_find_eq sx st id :
  G.task_type_find (get_task_info_types sx st tt) id sx st = Ok (find_idx (fun o => y_id o =? id) (s_types st), st).
Proof. unfold G.task_type_find, get_task_info_types, bind, eval, ret, hash_find_head_task_type. destruct (s_types st); reflexivity. Qed.

Theorem body_find_eq sx st t o id : nth_error (s_tasks st) t = Some o ->
  G.body_find (Some t) id sx st =
  Ok (match find_idx (fun b => cb_id b =? id) (k_bodies o) with Some j => Some (BAt t j) | None => None end, st).
Proof.
  intros N. unfold G.body_find, bind, eval, ret, hash_find_body_info_bodies, kget.
  assert (L : (t < length (s_tasks st))%nat) by (apply nth_error_Some; congruence).
  apply Nat.ltb_lt in L. rewrite L, N. reflexivity.
Qed.

(* ------------------------------------------------------------------ task_create *)
Definition new_task (id fl : Z) (y : nat) : ctask := {| k_id := id; k_type := Some y; k_nbodies := 0; k_flags := fl; k_bodies := [] |}.

Theorem task_create_eq sx st ty id fl : c_calloc_ok sx = true ->
  G.task_create tt ty id fl sx st =
  match find_idx (fun o => k_id o =? id) (s_tasks st) with
  | Some _ => Err E_FAIL                                       (* the task id exists *)
  | None =>
    match find_idx (fun o => y_id o =? ty) (s_types st) with
    | None => Err E_FAIL                                       (* unknown type *)
    | Some y => Ok (tt, mk (s_types st) (s_ynew st) (s_tasks st ++ [new_task id fl y]) None (s_bnew st))
    end
  end.
Proof.
  intros Hc. unfold G.task_create.
  unfold bind at 1. unfold bind at 1. unfold eval at 1. rewrite task_find_eq.
  destruct (find_idx (fun o => k_id o =? id) (s_tasks st)) as [i|]; [reflexivity|].
  unfold ite at 1. cbn [is_null negb].
  unfold bind at 1. unfold bind at 1. unfold eval at 1. rewrite task_type_find_eq.
  destruct (find_idx (fun o => y_id o =? ty) (s_types st)) as [y|]; [|reflexivity].
  unfold ite at 1. cbn [is_null].
  unfold bind_, bind, calloc_task, ite, set_task_id, set_task_type, set_task_flags, kset, hash_add_task_info_tasks_by_id, ret.
  rewrite Hc. do 6 cstep. reflexivity.
Qed.

(* ------------------------------------------------------------------ task_type_create *)
Definition unlabeled (ty : Z) : str :=
  [40; 117; 110; 108; 97; 98; 101; 108; 101; 100; 32; 116; 97; 115; 107; 32; 116; 121; 112; 101; 32] ++ dec ty ++ [41].
Definition type_label (ty : Z) (label : str) : str := if ix label 0 =? 0 then unlabeled ty else label.

Theorem task_type_create_eq sx st ty label : c_calloc_ok sx = true -> 0 <= ty < 2 ^ 32 ->
  G.task_type_create tt ty label sx st =
  match find_idx (fun o => y_id o =? ty) (s_types st) with
  | Some _ => Err E_FAIL                                       (* the type id exists *)
  | None =>
    if ty =? 0 then Err E_FAIL                                 (* type id 0 *)
    else if 512 <=? slen (type_label ty label) then Err E_FAIL (* label too long *)
    else Ok (tt, mk (s_types st ++ [{| y_id := ty; y_gid := c_gid sx (type_label ty label); y_label := type_label ty label |}])
                    None (s_tasks st) (s_knew st) (s_bnew st))
  end.
Proof.
  intros Hc Hty. unfold G.task_type_create.
  unfold bind at 1. unfold hash_find_task_info_types at 1.
  destruct (find_idx (fun o => y_id o =? ty) (s_types st)) as [i|]; [reflexivity|].
  unfold ite at 1. cbn [is_null negb].
  unfold bind_, bind, calloc_task_type, ite, need, set_task_type_id, set_task_type_gid, yset, get_task_type_id, get_task_type_label,
    yobj, yget, snprintf_f, addr_task_type_label, hash_add_task_info_types_by_id, task_get_type_gid, ret, fail.
  rewrite Hc. do 4 cstep. change (cast_uint32 0) with 0.
  destruct (ty =? 0) eqn:E0; [reflexivity|].
  unfold type_label. destruct (ix label 0 =? 0) eqn:EL.
  - do 3 cstep. unfold render. cbn [flat_map render_item]. rewrite W.pad_left0, app_nil_r. fold (unlabeled ty).
    rewrite Z.geb_leb. destruct (512 <=? slen (unlabeled ty)) eqn:E5; [reflexivity|].
    do 4 cstep. change (cast_uint64 512) with 512. rewrite W.slen_firstn by lia. reflexivity.
  - do 3 cstep. unfold render. cbn [flat_map render_item]. rewrite app_nil_r.
    rewrite Z.geb_leb. destruct (512 <=? slen label) eqn:E5; [reflexivity|].
    do 4 cstep. change (cast_uint64 512) with 512. rewrite W.slen_firstn by lia. reflexivity.
Qed.

(* ------------------------------------------------------------------ body_create *)
Definition body_name (id taskid : Z) : str :=
  [98; 111; 100; 121; 40; 105; 100; 61] ++ dec id ++ [44; 116; 97; 115; 107; 105; 100; 61] ++ dec taskid ++ [41].
Definition new_body (id fl : Z) (t' : nat) (taskid : Z) : cbody :=
  {| cb_id := id; cb_state := 1; cb_iter := 0; cb_flags := fl; cb_task := Some t'; cb_taskid := taskid; cb_name := body_name id taskid |}.
Definition add_body (o : ctask) (b : cbody) : ctask :=
  {| k_id := k_id o; k_type := k_type o; k_nbodies := k_nbodies o; k_flags := k_flags o; k_bodies := k_bodies o ++ [b] |}.

Theorem body_create_eq sx st t o task id fl : c_calloc_ok sx = true -> nth_error (s_tasks st) t = Some o ->
  (forall t', task = Some t' -> slen (body_name id (k_id (kobj st task))) < 256) ->
  G.body_create (Some t) task id fl sx st =
  if id =? 0 then Ok (None, st)                                                    (* body id 0 *)
  else match find_idx (fun b => cb_id b =? id) (k_bodies o) with
       | Some _ => Ok (None, st)                                                   (* the body id exists *)
       | None =>
         match task with
         | None => Ok (None, st)                                                   (* NULL task *)
         | Some t' =>
           Ok (Some BNew, mk (s_types st) (s_ynew st)
                             (update (s_tasks st) t (add_body o (new_body id fl t' (k_id (kobj st task))))) (s_knew st) None)
         end
       end.
Proof.
  intros Hc N NL. unfold G.body_create. unfold ite at 1. change (cast_uint32 0) with 0.
  destruct (id =? 0); [reflexivity|].
  rewrite (bind_ok _ _ _ _ _ _ (body_find_eq sx st t o id N)).
  destruct (find_idx (fun b => cb_id b =? id) (k_bodies o)) as [j|]; [reflexivity|].
  unfold ite at 1. cbn [is_null negb]. unfold ite at 1.
  destruct task as [t'|]; [|reflexivity]. cbn [is_null].
  specialize (NL t' eq_refl).
  assert (L : (t < length (s_tasks st))%nat) by (apply nth_error_Some; congruence).
  pose proof L as Lb. apply Nat.ltb_lt in Lb.
  unfold bind_, bind, calloc_body, ite, need, set_body_id, set_body_state, set_body_iteration, set_body_flags, set_body_task,
    set_body_taskid, bset, snprintf_f, addr_body_name, hash_add_body_info_bodies_by_id, kset, get_body_id, get_body_taskid, bobj,
    G.task_get_id, G.task_get_id_safe, get_task_id, ret.
  rewrite Hc. do 8 cstep.
  unfold render. cbn [flat_map render_item]. rewrite !W.pad_left0, ?app_nil_r.
  change (kobj (mk (s_types st) (s_ynew st) (s_tasks st) (s_knew st) _) (Some t')) with (kobj st (Some t')).
  fold (body_name id (k_id (kobj st (Some t')))).
  change (cast_int32 G.k_sizeof_char_256) with 256. change G.k_sizeof_char_256 with 256. rewrite Z.geb_leb.
  destruct (256 <=? slen (body_name id (k_id (kobj st (Some t'))))) eqn:E; [lia|].
  do 3 cstep. rewrite Lb, N. do 2 cstep.
  change (kget (mk (s_types st) (s_ynew st) (s_tasks st) (s_knew st) _) t') with (kget st t').
  unfold kobj, body_name in NL. rewrite W.slen_firstn by lia. change (cast_uint32 G.c_BODY_ST_CREATED) with 1.
  match goal with |- context [256 <=? ?x] => destruct (256 <=? x) eqn:E2; [lia|] end. reflexivity.
Qed.

(* ------------------------------------------------------------------ the bridge to EmuCoreDefs *)
From OV Require Import Emu.TaskCRelDefs.

Lemma find_task_filter l L P M id : forall i,
  (find_task_from l L P M id i = None <-> find (fun t => tk_id t =? id) (filter (selT L P M) l) = None).
Proof.
  induction l as [|t r IH]; intros i; cbn [find_task_from filter find]; [tauto|].
  unfold selT at 1. destruct (Nat.eqb (tk_loom t) L && (tk_pid t =? P) && (tk_model t =? M)) eqn:S; cbn [andb].
  - cbn [find]. destruct (tk_id t =? id); [split; discriminate | apply IH].
  - apply IH.
Qed.

Lemma find_type_filter l L P M id :
  find_type l L P M id = find (fun y => ty_id y =? id) (filter (selY L P M) l).
Proof.
  induction l as [|t r IH]; cbn [find_type filter find]; [reflexivity|].
  unfold selY at 1. destruct (Nat.eqb (ty_loom t) L && (ty_pid t =? P) && (ty_model t =? M)) eqn:S; cbn [andb].
  - cbn [find]. destruct (ty_id t =? id); [reflexivity | exact IH].
  - exact IH.
Qed.

Lemma forall2_find {A B} (R : A -> B -> Prop) (f : A -> bool) (g : B -> bool) a b :
  Forall2 R a b -> (forall x y, R x y -> f x = g y) ->
  match find_idx f a with
  | Some h => exists x y, nth_error a h = Some x /\ find g b = Some y /\ R x y
  | None => find g b = None
  end.
Proof.
  intros F E. induction F as [|x y a b Rxy F IH]; cbn [find_idx find]; [reflexivity|].
  rewrite <- (E x y Rxy). destruct (f x).
  - exists x, y. repeat split. exact Rxy.
  - destruct (find_idx f a) as [h|].
    + destruct IH as (x' & y' & N & Fd & R'). exists x', y'. repeat split; assumption.
    + exact IH.
Qed.

Lemma forall2_impl {A B} (R R' : A -> B -> Prop) a b : (forall x y, R x y -> R' x y) -> Forall2 R a b -> Forall2 R' a b.
Proof. intros H F. induction F; constructor; auto. Qed.

Lemma TkRep_more_types L P M ys y k t : TkRep L P M ys k t -> TkRep L P M (ys ++ [y]) k t.
Proof.
  intros (A & B & C & D & (h & y0 & K & N & Gd) & R). repeat split; try assumption; try apply R.
  exists h, y0. repeat split; try assumption. rewrite nth_error_app1; [exact N | apply nth_error_Some; congruence].
Qed.

Theorem task_create_bridge sx cx c st who ti mdl id ty fl :
  c_calloc_ok cx = true -> nth_opt (s_threads sx) who = Some ti -> Rep (ti_loom ti) (ti_pid ti) mdl c st ->
  match EmuCoreDefs.task_create sx st who mdl id ty (flagb fl 1) (flagb fl 2) (flagb fl 4) (flagb fl 8) with
  | Ok st' => exists c', G.task_create tt ty id fl cx c = Ok (tt, c') /\ Rep (ti_loom ti) (ti_pid ti) mdl c' st'
  | Err _ => G.task_create tt ty id fl cx c = Err E_FAIL
  end.
Proof.
  intros Hc TI [RY RT]. rewrite (task_create_eq cx c ty id fl Hc). unfold EmuCoreDefs.task_create. rewrite TI.
  set (L := ti_loom ti) in *. set (P := ti_pid ti) in *.
  pose proof (forall2_find _ (fun o => k_id o =? id) (fun t => tk_id t =? id) _ _ RT) as FT.
  specialize (FT ltac:(intros x y (_ & _ & _ & E & _); rewrite E; reflexivity)).
  unfold find_task. destruct (find_idx (fun o => k_id o =? id) (s_tasks c)) as [h|].
  - destruct FT as (x & y & _ & Fd & _).
    destruct (find_task_from (tasks st) L P mdl id 0) as [[i tk]|] eqn:EF; [reflexivity|].
    apply (find_task_filter (tasks st) L P mdl id 0) in EF. congruence.
  - apply (find_task_filter (tasks st) L P mdl id 0) in FT. rewrite FT.
    pose proof (forall2_find _ (fun o => y_id o =? ty) (fun y => ty_id y =? ty) _ _ RY) as FY.
    specialize (FY ltac:(intros x y (_ & _ & _ & E & _); rewrite E; reflexivity)).
    rewrite find_type_filter.
    destruct (find_idx (fun o => y_id o =? ty) (s_types c)) as [h|].
    + destruct FY as (x & y & N & Fd & RR). rewrite Fd.
      eexists. split; [reflexivity|]. split; cbn [s_types s_tasks mk tasks types set_tasks]; [exact RY|].
      rewrite filter_app. cbn [filter]. unfold selT at 2. cbn [tk_loom tk_pid tk_model].
      unfold L, P. rewrite Nat.eqb_refl, !Z.eqb_refl. cbn [andb].
      apply Forall2_app; [exact RT|]. constructor; [|constructor].
      unfold TkRep, new_task. cbn. repeat split; try reflexivity.
      exists h, x. repeat split; try assumption. apply RR.
    + rewrite FY. reflexivity.
Qed.

Theorem type_create_bridge sx cx c st who ti mdl ty label :
  c_calloc_ok cx = true -> 0 <= ty < 2 ^ 32 -> slen (type_label ty label) < 512 ->
  nth_opt (s_threads sx) who = Some ti -> Rep (ti_loom ti) (ti_pid ti) mdl c st ->
  match EmuCoreDefs.type_create sx st who mdl ty (c_gid cx (type_label ty label)) with
  | Ok st' => exists c', G.task_type_create tt ty label cx c = Ok (tt, c') /\ Rep (ti_loom ti) (ti_pid ti) mdl c' st'
  | Err _ => G.task_type_create tt ty label cx c = Err E_FAIL
  end.
Proof.
  intros Hc Hty HL TI [RY RT]. rewrite (task_type_create_eq cx c ty label Hc Hty). unfold EmuCoreDefs.type_create. rewrite TI.
  set (L := ti_loom ti) in *. set (P := ti_pid ti) in *.
  pose proof (forall2_find _ (fun o => y_id o =? ty) (fun y => ty_id y =? ty) _ _ RY) as FY.
  specialize (FY ltac:(intros x y (_ & _ & _ & E & _); rewrite E; reflexivity)).
  rewrite find_type_filter.
  destruct (find_idx (fun o => y_id o =? ty) (s_types c)) as [h|].
  - destruct FY as (x & y & _ & Fd & _). rewrite Fd. reflexivity.
  - rewrite FY. destruct (ty =? 0); [reflexivity|].
    destruct (512 <=? slen (type_label ty label)) eqn:E5; [lia|].
    eexists. split; [reflexivity|]. split; cbn [s_types s_tasks mk tasks types set_types].
    + rewrite filter_app. cbn [filter]. unfold selY at 2. cbn [ty_loom ty_pid ty_model].
      unfold L, P. rewrite Nat.eqb_refl, !Z.eqb_refl. cbn [andb].
      apply Forall2_app; [exact RY|]. constructor; [|constructor]. unfold TyRep. cbn. repeat split.
    + eapply forall2_impl; [|exact RT]. intros k t H. apply TkRep_more_types. exact H.
Qed.

Theorem find_bridge cx c st L P mdl id : Rep L P mdl c st ->
  (find_task st L P mdl id = None <-> find_idx (fun o => k_id o =? id) (s_tasks c) = None) /\
  (find_type (types st) L P mdl id = None <-> find_idx (fun o => y_id o =? id) (s_types c) = None) /\
  G.task_find (get_task_info_tasks cx c tt) id cx c = Ok (find_idx (fun o => k_id o =? id) (s_tasks c), c) /\
  G.task_type_find (get_task_info_types cx c tt) id cx c = Ok (find_idx (fun o => y_id o =? id) (s_types c), c).
Proof.
  intros [RY RT]. split; [|split; [|split; [apply task_find_eq | apply task_type_find_eq]]].
  - pose proof (forall2_find _ (fun o => k_id o =? id) (fun t => tk_id t =? id) _ _ RT
                  ltac:(intros x y (_ & _ & _ & E & _); rewrite E; reflexivity)) as FT.
    unfold find_task. rewrite (find_task_filter (tasks st) L P mdl id 0).
    destruct (find_idx (fun o => k_id o =? id) (s_tasks c)).
    + destruct FT as (x & y & _ & Fd & _). rewrite Fd. split; discriminate.
    + rewrite FT. tauto.
  - pose proof (forall2_find _ (fun o => y_id o =? id) (fun y => ty_id y =? id) _ _ RY
                  ltac:(intros x y (_ & _ & _ & E & _); rewrite E; reflexivity)) as FY.
    rewrite find_type_filter. destruct (find_idx (fun o => y_id o =? id) (s_types c)).
    + destruct FY as (x & y & _ & Fd & _). rewrite Fd. split; discriminate.
    + rewrite FY. tauto.
Qed.

(* ------------------------------------------------------------------ bodies: GuardsPre.body_create / task_op's execute case *)
Lemma find_body_ids bs : forall bs' id i, map cb_id bs = map b_id bs' ->
  (find_idx (fun b => cb_id b =? id) bs = None <-> find_body_from bs' id i = None).
Proof.
  induction bs as [|b r IH]; intros [|b' r'] id i E; cbn in E; try discriminate; cbn [find_idx find_body_from]; [tauto|].
  inversion E as [[E1 E2]]. rewrite E1. destruct (b_id b' =? id); [split; discriminate|].
  specialize (IH r' id (S i) E2). destruct (find_idx (fun b0 => cb_id b0 =? id) r); [|exact IH].
  split; [discriminate | intros H; apply IH in H; discriminate].
Qed.

(* what GuardsPre.body_create (and the creation inside EmuCoreDefs.task_op) decides for the task tk: None = refused,
   Some bs = the new table of bodies *)
Definition model_body_create (tk : task) (has_task : bool) (id : Z) : option (list body) :=
  if id =? 0 then None else
  match find_body tk id with
  | Some _ => None
  | None => if has_task then Some (tk_bodies tk ++ [{| b_id := id; b_state := BCreated; b_on := None |}]) else None
  end.

Theorem body_create_bridge cx c t o tk task id fl : c_calloc_ok cx = true -> nth_error (s_tasks c) t = Some o ->
  map cb_id (k_bodies o) = map b_id (tk_bodies tk) ->
  (forall t', task = Some t' -> slen (body_name id (k_id (kobj c task))) < 256) ->
  match model_body_create tk (match task with Some _ => true | None => false end) id with
  | None => G.body_create (Some t) task id fl cx c = Ok (None, c)
  | Some bs' =>
    exists c' o' nb, G.body_create (Some t) task id fl cx c = Ok (Some BNew, c') /\
      nth_error (s_tasks c') t = Some o' /\ k_bodies o' = k_bodies o ++ [nb] /\ map cb_id (k_bodies o') = map b_id bs' /\
      cb_state nb = 1 /\ cb_flags nb = fl /\ cb_task nb = task /\ k_id o' = k_id o /\ k_flags o' = k_flags o /\
      k_type o' = k_type o /\ s_types c' = s_types c
  end.
Proof.
  intros Hc N IDS NL. rewrite (body_create_eq cx c t o task id fl Hc N NL). unfold model_body_create, find_body.
  destruct (id =? 0); [reflexivity|].
  pose proof (find_body_ids (k_bodies o) (tk_bodies tk) id 0 IDS) as FB.
  destruct (find_idx (fun b => cb_id b =? id) (k_bodies o)) as [j|].
  - destruct (find_body_from (tk_bodies tk) id 0); [reflexivity|]. destruct FB as [_ FB]. specialize (FB eq_refl). discriminate.
  - destruct FB as [FB _]. rewrite (FB eq_refl). destruct task as [t'|]; [|reflexivity].
    assert (L : (t < length (s_tasks c))%nat) by (apply nth_error_Some; congruence).
    eexists _, _, _. split; [reflexivity|]. cbn [s_tasks s_types mk].
    split; [apply W.nth_error_update_same; exact L|]. cbn [add_body k_bodies k_id k_flags k_type new_body cb_state cb_flags cb_task].
    split; [reflexivity|]. split; [rewrite !map_app, IDS; reflexivity|]. repeat split.
Qed.
