(* Run-level refinement: the handlers never read the PRV last-value table, so the semantic run and the
   mechanical run stay in step although their tables are only equal as maps. *)
From Coq Require Import ZArith List Bool Lia Permutation.
From OV Require Import Emu.EmuCoreDefs Emu.BayDefs Proofs.EmitProofs Proofs.EmuCoreProofs Proofs.ThreadCpuProofs
  Proofs.BayEmit Proofs.BaySem Proofs.BaySys.
Import ListNotations.

Definition lift {X} (l : list (key * value)) (r : result (state * X)) : result (state * X) :=
  match r with Ok (s, x) => Ok (set_last s l, x) | Err e => Err e end.
Definition lift1 (l : list (key * value)) (r : result state) : result state :=
  match r with Ok s => Ok (set_last s l) | Err e => Err e end.

Lemma sl_set_thread st l t th : set_thread (set_last st l) t th = set_last (set_thread st t th) l. Proof. reflexivity. Qed.
Lemma sl_set_cl st l c x : set_cpu_threads (set_last st l) c x = set_last (set_cpu_threads st c x) l. Proof. reflexivity. Qed.
Lemma sl_touch st l c : touch (set_last st l) c = set_last (touch st c) l. Proof. reflexivity. Qed.
Lemma sl_set_tasks st l x : set_tasks (set_last st l) x = set_last (set_tasks st x) l. Proof. reflexivity. Qed.
Lemma sl_set_types st l x : set_types (set_last st l) x = set_last (set_types st x) l. Proof. reflexivity. Qed.
Lemma sl_oversub sx st l c : oversubscribed sx (set_last st l) c = oversubscribed sx st c. Proof. reflexivity. Qed.
Lemma sl_threads st l : threads (set_last st l) = threads st. Proof. reflexivity. Qed.
Lemma sl_cpu_threads st l : cpu_threads (set_last st l) = cpu_threads st. Proof. reflexivity. Qed.
Lemma sl_tasks st l : tasks (set_last st l) = tasks st. Proof. reflexivity. Qed.
Lemma sl_types st l : types (set_last st l) = types st. Proof. reflexivity. Qed.
Lemma sl_find_task st l a b c d : find_task (set_last st l) a b c d = find_task st a b c d. Proof. reflexivity. Qed.
Lemma sl_running_top st l a b c d : running_top (set_last st l) a b c d = running_top st a b c d. Proof. reflexivity. Qed.
Lemma sl_body_state_of st l a b c : body_state_of (set_last st l) a b c = body_state_of st a b c. Proof. reflexivity. Qed.
Lemma sl_store_body st l a b c d : store_body (set_last st l) a b c d = set_last (store_body st a b c d) l. Proof. reflexivity. Qed.
Lemma sl_raw_of st l t k : raw_of (set_last st l) t k = raw_of st t k. Proof. reflexivity. Qed.
Lemma sl_last st l : prv_last (set_last st l) = l. Proof. reflexivity. Qed.
Lemma sl_twice st l l' : set_last (set_last st l) l' = set_last st l'. Proof. reflexivity. Qed.
#[global] Hint Rewrite sl_find_task sl_running_top sl_body_state_of sl_store_body sl_raw_of sl_last sl_twice : sl.
#[global] Hint Rewrite sl_set_thread sl_set_cl sl_touch sl_set_tasks sl_set_types sl_oversub sl_threads sl_cpu_threads sl_tasks sl_types : sl.

Ltac dmatch := repeat (autorewrite with sl; match goal with
  | |- context [match ?x with _ => _ end] => destruct x eqn:?; try reflexivity
  end); autorewrite with sl; try reflexivity.

Lemma oh_step_last sx st l who e : oh_step sx (set_last st l) who e = lift1 l (oh_step sx st who e).
Proof.
  unfold oh_step, change_state, migrate, nth_opt, lift1. cbv zeta. autorewrite with sl.
  destruct (nth_error (threads st) who) as [th|]; [|reflexivity].
  destruct (t_ooc th); [reflexivity|].
  destruct e; autorewrite with sl; dmatch.
Qed.

Lemma chan_step_last sx st l who k a v : chan_step sx (set_last st l) who k a v = lift l (chan_step sx st who k a v).
Proof. unfold chan_step, nth_opt, lift. dmatch. Qed.

Lemma set_chans_last sx who ws : forall st l d, set_chans sx (set_last st l) who ws d = lift l (set_chans sx st who ws d).
Proof.
  induction ws as [|[k v] ws IH]; intros st l d; cbn [set_chans]; [reflexivity|].
  rewrite chan_step_last. destruct (chan_step sx st who k SET v) as [[s1 d1]|]; [|reflexivity]. cbn [lift]. apply IH.
Qed.

Lemma task_op_last st l who th loom pid mdl kind tid bid :
  task_op (set_last st l) who th loom pid mdl kind tid bid = lift1 l (task_op st who th loom pid mdl kind tid bid).
Proof. unfold task_op, lift1. cbv zeta. dmatch. Qed.

Lemma task_event_last sx st l who cfg mdl kind tid bid :
  task_event sx (set_last st l) who cfg mdl kind tid bid = lift l (task_event sx st who cfg mdl kind tid bid).
Proof.
  unfold task_event, nth_opt. cbv zeta. autorewrite with sl.
  destruct (nth_error (threads st) who) as [th|]; [|reflexivity].
  destruct (nth_error (s_threads sx) who) as [ti|]; [|reflexivity]. autorewrite with sl.
  destruct (find_task st (ti_loom ti) (ti_pid ti) mdl tid) as [[i0 tk0]|]; [|reflexivity].
  match goal with |- match ?o with Some _ => _ | None => _ end = _ => destruct o as [b|]; [|reflexivity] end.
  rewrite task_op_last. destruct (task_op st who th (ti_loom ti) (ti_pid ti) mdl kind tid b) as [s1|]; [|reflexivity]. cbn [lift1].
  autorewrite with sl. rewrite !chan_step_last.
  match goal with |- context [match (if ?c then ?a else ?b0) with _ => _ end] => idtac end.
  destruct (kind =? 120)%Z eqn:E120.
  - destruct (chan_step sx s1 who (tc_ss cfg) PUSH (Some (tc_ssval cfg))) as [[s2 d1]|]; [|reflexivity]. cbn [lift].
    autorewrite with sl.
    match goal with |- match ?w with Ok _ => _ | Err _ => _ end = _ => destruct w as [ws|]; [|reflexivity] end.
    rewrite set_chans_last. destruct (set_chans sx s2 who ws d1) as [[s3 d]|]; [|reflexivity]. cbn [lift]. autorewrite with sl. dmatch.
  - destruct (kind =? 101)%Z eqn:E101.
    + destruct (chan_step sx s1 who (tc_ss cfg) POP (Some (tc_ssval cfg))) as [[s2 d1]|]; [|reflexivity]. cbn [lift].
      autorewrite with sl.
      match goal with |- match ?w with Ok _ => _ | Err _ => _ end = _ => destruct w as [ws|]; [|reflexivity] end.
      rewrite set_chans_last. destruct (set_chans sx s2 who ws d1) as [[s3 d]|]; [|reflexivity]. cbn [lift]. reflexivity.
    + autorewrite with sl.
      match goal with |- match ?w with Ok _ => _ | Err _ => _ end = _ => destruct w as [ws|]; [|reflexivity] end.
      rewrite set_chans_last. destruct (set_chans sx s1 who ws []) as [[s3 d]|]; [|reflexivity]. cbn [lift]. reflexivity.
Qed.

Lemma task_create_last sx st l who mdl tid typeid par res pause relax :
  task_create sx (set_last st l) who mdl tid typeid par res pause relax = lift1 l (task_create sx st who mdl tid typeid par res pause relax).
Proof. unfold task_create, nth_opt, lift1. dmatch. Qed.

Lemma type_create_last sx st l who mdl typeid gid :
  type_create sx (set_last st l) who mdl typeid gid = lift1 l (type_create sx st who mdl typeid gid).
Proof. unfold type_create, nth_opt, lift1. dmatch. Qed.

Lemma core_step_last sx st l who ev : core_step sx (set_last st l) who ev = lift l (core_step sx st who ev).
Proof.
  destruct ev; cbn [core_step]; unfold nth_opt; autorewrite with sl.
  - rewrite oh_step_last. destruct (oh_step sx st who e); reflexivity.
  - destruct (nth_error (threads st) who) as [th|]; [|reflexivity].
    repeat match goal with |- (if ?c then _ else _) = _ => destruct c; [reflexivity|] end. apply chan_step_last.
  - destruct (nth_error (threads st) who) as [th|]; [|reflexivity]. autorewrite with sl. apply chan_step_last.
  - destruct (nth_error (threads st) who) as [th|]; [|reflexivity]. destruct (need_ok (tc_need cfg) th); [|reflexivity]. apply task_event_last.
  - destruct (nth_error (threads st) who) as [th|]; [|reflexivity]. destruct (need_ok need th); [|reflexivity].
    rewrite task_create_last. destruct (task_create sx st who mdl tid typeid par res pause relax); reflexivity.
  - destruct (nth_error (threads st) who) as [th|]; [|reflexivity]. destruct (need_ok need th); [|reflexivity].
    rewrite type_create_last. destruct (type_create sx st who mdl typeid gid); reflexivity.
  - destruct (nth_error (threads st) who) as [th|]; [|reflexivity]. destruct (t_ooc th); reflexivity.
  - reflexivity.
Qed.

(* ---------------------------------------------------------------- one semantic step on states that differ in the table only *)

Lemma state_equiv_set_last a c : state_equiv a c -> a = set_last c (prv_last a).
Proof. intros (E1 & E2 & E3 & E4 & E5 & _). destruct a, c. cbn in *. subst. reflexivity. Qed.

Lemma state_equiv_refl a : state_equiv a a.
Proof. unfold state_equiv. repeat (split; [reflexivity|]). apply last_equiv_refl. Qed.

Lemma state_equiv_trans a b c : state_equiv a b -> state_equiv b c -> state_equiv a c.
Proof.
  intros (A1 & A2 & A3 & A4 & A5 & A6) (B1 & B2 & B3 & B4 & B5 & B6).
  split; [congruence|]. split; [congruence|]. split; [congruence|]. split; [congruence|]. split; [congruence|].
  apply (last_equiv_trans _ _ _ A6 B6).
Qed.

Lemma state_equiv_sym a b : state_equiv a b -> state_equiv b a.
Proof.
  intros (A1 & A2 & A3 & A4 & A5 & A6).
  split; [congruence|]. split; [congruence|]. split; [congruence|]. split; [congruence|]. split; [congruence|].
  apply last_equiv_sym. exact A6.
Qed.

Definition SEquiv (ra rb : result (state * list line)) : Prop :=
  match ra, rb with
  | Ok (a, s1), Ok (c, s2) => state_equiv a c /\ Permutation s1 s2 /\ forall k, filter_key k s1 = filter_key k s2
  | Err _, Err _ => True
  | _, _ => False
  end.

Lemma step_equiv sx st st' who ev : state_equiv st st' -> SEquiv (step sx st who ev) (step sx st' who ev).
Proof.
  intros He. rewrite (state_equiv_set_last _ _ He). set (l := prv_last st). unfold step. rewrite core_step_last.
  destruct (core_step sx st' who ev) as [[s1 d]|] eqn:Ec; [|exact I]. cbn [lift].
  change (prv_last (set_last s1 l)) with l.
  change (all_reqs sx (set_last st' l) (set_last s1 l) d) with (all_reqs sx st' s1 d).
  assert (El : last_equiv l (prv_last s1)).
  { destruct (core_step_frame _ _ _ _ _ _ Ec) as [Hl _]. rewrite Hl. apply He. }
  pose proof (emit_all_equiv (all_reqs sx st' s1 d) l (prv_last s1) El) as R. unfold REquiv in R.
  destruct (emit_all l (all_reqs sx st' s1 d)) as [[l1 ls1]|], (emit_all (prv_last s1) (all_reqs sx st' s1 d)) as [[l2 ls2]|]; try tauto.
  destruct R as (R1 & R2 & R3). split; [|split; assumption].
  unfold state_equiv, set_last. cbn. repeat split; try reflexivity. exact R1.
Qed.

(* ---------------------------------------------------------------- whole runs *)

Definition tfilter (k : key) (tl : list (Z * line)) : list (Z * line) := filter (fun x => key_eqb (line_key (snd x)) k) tl.

Lemma tfilter_app k a b : tfilter k (a ++ b) = tfilter k a ++ tfilter k b.
Proof. apply filter_app. Qed.

Lemma tfilter_map k tm ls : tfilter k (map (fun l => (tm, l)) ls) = map (fun l => (tm, l)) (filter_key k ls).
Proof.
  unfold tfilter, filter_key. induction ls as [|x ls IH]; [reflexivity|]. cbn [map filter snd].
  destruct (key_eqb (line_key x) k); cbn [map]; rewrite IH; reflexivity.
Qed.

Theorem bay_run_refines sx : (0 < length (s_threads sx))%nat -> wf_keys sx ->
  forall evs st_s st_m b,
  state_equiv st_m st_s -> Wired sx st_m b -> (forall x, In x evs -> ev_wf (snd x)) ->
  match run_from sx st_s evs, mrun_from sx st_m b evs with
  | Ok (st', tl), Ok (st'', b', mtl) =>
    state_equiv st'' st' /\ Wired sx st'' b' /\ Permutation mtl tl /\ forall k, tfilter k mtl = tfilter k tl
  | Err _, Err _ => True
  | _, _ => False
  end.
Proof.
  intros Tpos Hkeys. induction evs as [|[[tm who] ev] evs IH]; intros st_s st_m b He W Hwf.
  - cbn. split; [exact He|]. split; [exact W|]. split; [constructor|reflexivity].
  - cbn [run_from mrun_from].
    pose proof (step_equiv sx st_m st_s who ev He) as S1.
    pose proof (bay_refines_emission_rule sx Tpos st_m b who ev Hkeys W) as S2.
    assert (Hnd : forall st1 dirty, core_step sx st_m who ev = Ok (st1, dirty) -> NoDup dirty).
    { intros st1 dirty Hc. apply (core_step_nodup sx st_m who ev st1 dirty); [|exact Hc]. apply (Hwf (tm, who, ev)). left. reflexivity. }
    specialize (S2 Hnd). unfold SEquiv in S1.
    destruct (step sx st_m who ev) as [[sa la]|], (step sx st_s who ev) as [[sb lb]|], (mstep sx st_m b who ev) as [[[sc bc] lc]|]; try tauto.
    destruct S1 as (A1 & A2 & A3). destruct S2 as (B1 & B2 & B3 & B4).
    assert (He' : state_equiv sc sb) by (apply (state_equiv_trans _ sa); assumption).
    specialize (IH sb sc bc He' B2). assert (Hwf' : forall x, In x evs -> ev_wf (snd x)) by (intros x Hx; apply Hwf; right; exact Hx).
    specialize (IH Hwf').
    destruct (run_from sx sb evs) as [[s2 tl2]|], (mrun_from sx sc bc evs) as [[[s3 b3] tl3]|]; try tauto.
    destruct IH as (C1 & C2 & C3 & C4). split; [exact C1|]. split; [exact C2|]. split.
    + apply Permutation_app; [|exact C3]. apply Permutation_map. apply (perm_trans B3 A2).
    + intros k. rewrite !tfilter_app, !tfilter_map, C4, B4, A3. reflexivity.
Qed.

(* from emu_connect on: the emulator with the real bay and the emulator with the emission rule *)
Corollary bay_emulation_refines sx evs :
  (0 < length (s_threads sx))%nat -> wf_keys sx -> init_ok_chans sx -> (forall x, In x evs -> ev_wf (snd x)) ->
  exists b, wire_init sx = Ok (b, [], []) /\
    match run_from sx (init sx) evs, mrun_from sx (init sx) b evs with
    | Ok (st', tl), Ok (st'', b', mtl) =>
      state_equiv st'' st' /\ Wired sx st'' b' /\ Permutation mtl tl /\ forall k, tfilter k mtl = tfilter k tl
    | Err _, Err _ => True
    | _, _ => False
    end.
Proof.
  intros Tpos Hkeys Hok Hwf. destruct (wire_init_wired sx Tpos Hkeys Hok) as (b & E & W). exists b. split; [exact E|].
  apply (bay_run_refines sx Tpos Hkeys evs (init sx) (init sx) b (state_equiv_refl _) W Hwf).
Qed.

(* ---------------------------------------------------------------- the side conditions hold for the specs dumped from the source *)

From OV Require Import Emu.DecodeDefs Proofs.EmuCoreWf.

Fixpoint nodup_natb (l : list nat) : bool :=
  match l with [] => true | x :: r => negb (existsb (Nat.eqb x) r) && nodup_natb r end.

Lemma nodup_natb_ok l : nodup_natb l = true -> NoDup l.
Proof.
  induction l as [|x r IH]; intros H; [constructor|]. cbn in H. apply andb_true_iff in H. destruct H as [H1 H2].
  constructor; [|apply IH; exact H2]. intros Hin. apply negb_true_iff in H1.
  assert (existsb (Nat.eqb x) r = true) by (apply existsb_exists; exists x; split; [exact Hin|apply Nat.eqb_refl]). congruence.
Qed.

Definition cfg_okb (cfg : taskcfg) : bool := nodup_natb (tc_ss cfg :: map snd (tc_chans cfg)).

Lemma cfg_okb_ok cfg mdl kind tid bid : cfg_okb cfg = true -> ev_wf (EvTask cfg mdl kind tid bid).
Proof. intros H. apply nodup_natb_ok. exact H. Qed.

Definition init_ok_chansb (cs : list chanspec) : bool :=
  forallb (fun sp => match cs_init sp with None => true | Some _ => negb (cs_stack sp) && tracked sp end) cs.

Lemma init_ok_chansb_ok sx : init_ok_chansb (s_chans sx) = true -> init_ok_chans sx.
Proof.
  unfold init_ok_chansb, init_ok_chans. intros H k Hk Hn. rewrite forallb_forall in H.
  assert (Hin : In (spec_of sx k) (s_chans sx)) by (unfold spec_of; apply nth_In; exact Hk).
  specialize (H _ Hin). destruct (cs_init (spec_of sx k)); [|congruence]. apply andb_true_iff in H. destruct H as [H1 H2].
  split; [apply negb_true_iff; exact H1|exact H2].
Qed.

(* for every subset of the compiled models: connect-time values only on tracked single channels, and the
   channels written by the nOS-V / Nanos6 task events are distinct whenever that model is enabled *)
Lemma dumped_bay_side_conditions :
  forallb (fun en => init_ok_chansb (mk_chans en) &&
                     (negb (existsb (Z.eqb M_NOSV) en) || cfg_okb (nosv_cfg (mk_chans en))) &&
                     (negb (existsb (Z.eqb M_NANOS6) en) || cfg_okb (nanos6_cfg (mk_chans en)))) (sublists all_models) = true.
Proof. vm_compute. reflexivity. Qed.
