(* C04: the PRV layer never refuses a history of thread events that the handlers accept. *)
From Coq Require Import ZArith List Bool Lia.
From OV Require Import Emu.EmuCoreDefs Emu.ThreadSpecDefs Proofs.EmitProofs Proofs.EmuCoreProofs Proofs.EmuCoreWf
  Proofs.ThreadCpuProofs Proofs.PrvProofs Proofs.LabelProofs.
Import ListNotations.
Local Open Scope Z_scope.

(* sufficient for one emission to succeed, lg being the last value emitted on the key *)
Definition emit_good (lg : option value) (f : Z) (v : value) : Prop :=
  (lg <> Some v \/ has_flag f PRV_SKIPDUP = true \/ has_flag f PRV_SKIPDUPNULL = true \/ care f = false) /\
  match v with
  | Some x => has_flag f PRV_ZERO = true \/ (if has_flag f PRV_NEXT then x + 1 else x) <> 0
  | None => True
  end.

Lemma emit_total last c r t f v :
  emit_good (last_get last (c, r, t)) f v -> exists res, emit last c r t f v = Ok res.
Proof.
  intros [Hd Hz]. unfold emit. cbv zeta. fold (care f).
  set (dup := match last_get last (c, r, t) with Some v0 => value_eqb v v0 | None => false end).
  assert (Hdup : dup = true -> last_get last (c, r, t) = Some v).
  { unfold dup. destruct (last_get last (c, r, t)) as [v0|]; [|discriminate]. intros H. apply value_eqb_eq in H. now subst. }
  destruct (care f && dup && has_flag f PRV_SKIPDUP); [eexists; reflexivity|].
  destruct (care f && dup && has_flag f PRV_SKIPDUPNULL && match v with None => true | _ => false end); [eexists; reflexivity|].
  destruct (care f && dup && negb (has_flag f PRV_SKIPDUP) && negb (has_flag f PRV_SKIPDUPNULL)) eqn:E3.
  { exfalso. apply andb_prop in E3 as [E3 Hn]. apply andb_prop in E3 as [E3 Hs]. apply andb_prop in E3 as [Hc Hdd].
    apply negb_true_iff in Hn, Hs. destruct Hd as [Hd|[Hd|[Hd|Hd]]]; try congruence. apply Hd. now apply Hdup. }
  destruct v as [x|]; [|eexists; reflexivity].
  destruct (negb (has_flag f PRV_ZERO) && ((if has_flag f PRV_NEXT then x + 1 else x) =? 0)) eqn:E4; [|eexists; reflexivity].
  exfalso. apply andb_prop in E4 as [Hzf Hx]. apply negb_true_iff in Hzf. apply Z.eqb_eq in Hx. destruct Hz; congruence.
Qed.

Lemma emit_last_other last c r t f v last' ls k' :
  emit last c r t f v = Ok (last', ls) -> k' <> (c, r, t) -> last_get last' k' = last_get last k'.
Proof.
  intros H Hk. destruct (emit_spec _ _ _ _ _ _ _ _ H) as [(_ & _ & ->)|(_ & _ & _ & ->)]; [|reflexivity].
  destruct (care f); [|reflexivity]. apply last_get_set_other. congruence.
Qed.

Lemma emit_all_total rs : forall last,
  NoDup (map req_key rs) ->
  (forall k f v, In (k, f, v) rs -> emit_good (last_get last k) f v) ->
  exists res, emit_all last rs = Ok res.
Proof.
  induction rs as [|[[[[c r] t] f] v] rs IH]; intros last Hnd Hg; cbn [emit_all]; [eexists; reflexivity|].
  cbn [map req_key fst] in Hnd. inversion Hnd as [|? ? Hnotin Hnd']; subst.
  destruct (emit_total last c r t f v (Hg _ _ _ (or_introl eq_refl))) as [[last1 l1] E1]. rewrite E1.
  destruct (IH last1 Hnd') as [[last2 l2] E2].
  - intros k f' v' Hin. rewrite (emit_last_other _ _ _ _ _ _ _ _ k E1).
    + apply Hg. now right.
    + intros ->. apply Hnotin. apply in_map_iff. exists ((c, r, t), f', v'). split; [reflexivity|exact Hin].
  - rewrite E2. eexists. reflexivity.
Qed.

(* ---------------------------------------------------------------- static side conditions *)

Definition nzv (f : Z) (v : value) : bool := match v with Some x => has_flag f PRV_ZERO || negb (x =? 0) | None => true end.
Definition spec_safeb (sp : chanspec) : bool :=
  (has_flag (cs_flags sp) PRV_SKIPDUP || has_flag (cs_flags sp) PRV_SKIPDUPNULL || negb (care (cs_flags sp))) &&
  negb (has_flag (cs_flags sp) PRV_NEXT) && nzv (cs_flags sp) (cs_init sp) && nzv (cs_flags sp) (cs_cpudef sp).

Record OhStatic (sx : static) : Prop := {
  os_ids : forall ti, In ti (s_threads sx) -> ti_tid ti <> 0 /\ ti_pid ti <> 0;   (* the loader demands tid, pid > 0 *)
  os_specs : forallb spec_safeb (s_chans sx) = true
}.

(* the raw channels of a history of thread events are the initial ones *)
Definition RawInit (sx : static) (st : state) : Prop := raws st = raws (init sx).

Lemma raw_read_init sx st t k :
  RawInit sx st -> (k < length (s_chans sx))%nat ->
  raw_read (spec_of sx k) (raw_of st t k) = None \/ raw_read (spec_of sx k) (raw_of st t k) = cs_init (spec_of sx k).
Proof.
  intros R Hk. rewrite (raw_of_same_raws (init sx) st R). unfold raw_of. cbn [init threads].
  destruct (Nat.lt_ge_cases t (length (s_threads sx))) as [Ht|Ht].
  - rewrite (nth_map_const' _ (init_thread sx) dummy_thread t Ht). cbn [init_thread t_raw].
    change empty_raw with ((fun sp => {| r_stk := []; r_val := cs_init sp |}) null_spec). rewrite map_nth. fold (spec_of sx k).
    unfold raw_read. cbn [r_stk r_val]. destruct (cs_stack (spec_of sx k)); auto.
  - assert (E : nth t (map (fun _ : thread_info => init_thread sx) (s_threads sx)) dummy_thread = dummy_thread)
      by (apply nth_overflow; rewrite map_length; exact Ht).
    rewrite E. cbn [t_raw dummy_thread]. left. unfold raw_read. destruct k; cbn; destruct (cs_stack _); reflexivity.
Qed.

Lemma spec_safe_of sx k : OhStatic sx -> (k < length (s_chans sx))%nat -> spec_safeb (spec_of sx k) = true.
Proof.
  intros O Hk. pose proof (os_specs _ O) as H. rewrite forallb_forall in H. apply H. unfold spec_of. now apply nth_In.
Qed.

Lemma tracked_good sx k lg v :
  OhStatic sx -> (k < length (s_chans sx))%nat ->
  (v = None \/ v = cs_init (spec_of sx k) \/ v = cs_cpudef (spec_of sx k)) ->
  emit_good lg (cs_flags (spec_of sx k)) v.
Proof.
  intros O Hk Hv. pose proof (spec_safe_of sx k O Hk) as S. unfold spec_safeb in S.
  apply andb_prop in S as [S Sd]. apply andb_prop in S as [S Si]. apply andb_prop in S as [Sf Sn].
  apply negb_true_iff in Sn. split.
  - apply orb_prop in Sf as [Sf|Sf]; [apply orb_prop in Sf as [Sf|Sf]|]; auto. right. right. right. now apply negb_true_iff in Sf.
  - destruct v as [x|]; [|exact I]. rewrite Sn.
    assert (N : nzv (cs_flags (spec_of sx k)) (Some x) = true) by (destruct Hv as [Hv|[Hv|Hv]]; [discriminate|rewrite Hv; assumption..]).
    cbn [nzv] in N. apply orb_prop in N as [N|N]; [now left|right]. apply negb_true_iff in N. now apply Z.eqb_neq in N.
Qed.

Lemma nth_update_dec {A} (l : list A) n m x d :
  (m = n /\ nth m (update l n x) d = x) \/ nth m (update l n x) d = nth m l d.
Proof.
  revert n m. induction l as [|a l IH]; intros n m; [right; destruct n; reflexivity|].
  destruct n as [|n], m as [|m]; cbn [update nth]; auto.
  destruct (IH n m) as [[-> E]|E]; auto.
Qed.

(* thread events never put a thread back into the Unknown state *)
Lemma oh_step_not_unknown sx st who e st1 :
  oh_step sx st who e = Ok st1 ->
  forall t, t_state (nth t (threads st1) dummy_thread) = Unknown -> t_state (nth t (threads st) dummy_thread) = Unknown.
Proof.
  intros H. unfold oh_step, change_state, migrate, nth_opt in H.
  destruct (nth_error (threads st) who) as [th|] eqn:Hn; [|discriminate].
  pose proof (nth_error_nth _ _ _ dummy_thread Hn) as Hth.
  destruct e; break_in H; inversion H; subst; clear H; intros tq Hu; cbn [threads touch set_cpu_threads set_thread] in Hu;
    repeat match type of Hu with
    | context [nth ?t (update ?l ?n ?x) ?d] =>
      let E := fresh "E" in destruct (nth_update_dec l n t x d) as [[-> E]|E]; rewrite E in Hu; clear E
    end; cbn [t_state with_state with_cpu] in Hu; try discriminate; try exact Hu.
  all: try (match goal with Hr : nth_error (threads _) ?r = Some ?rth |- _ =>
              rewrite <- (nth_error_nth _ _ _ dummy_thread Hr) in Hu end).
  all: try exact Hu.
Qed.

Lemma in_slots_shape sx s : In s (slots sx) ->
  match s with
  | STh t _ => (t < length (s_threads sx))%nat
  | STr t k => (t < length (s_threads sx))%nat /\ (k < length (s_chans sx))%nat
  | SCpu c _ => (c < length (s_cpus sx))%nat
  | SCr c k => (c < length (s_cpus sx))%nat /\ (k < length (s_chans sx))%nat
  end.
Proof.
  unfold slots. intros H. apply in_app_or in H as [H|H]; apply in_flat_map in H as [i [Hi Hs]];
    apply in_seq in Hi; apply in_app_or in Hs as [Hs|Hs].
  - cbn [In] in Hs. destruct Hs as [<-|[<-|[<-|[]]]]; lia.
  - apply in_map_iff in Hs as [k [<- Hk]]. apply in_seq in Hk. lia.
  - cbn [In] in Hs. destruct Hs as [<-|[<-|[<-|[]]]]; lia.
  - apply in_map_iff in Hs as [k [<- Hk]]. apply in_seq in Hk. lia.
Qed.

Lemma all_reqs_slot_req sx old new dirty k fl v :
  In (k, fl, v) (all_reqs sx old new dirty) ->
  exists s, In s (slots sx) /\ requested sx old new dirty s = true /\ k = key_of sx s /\ fl = flags_of sx s /\ v = view sx new s.
Proof.
  unfold all_reqs. intros H. apply in_flat_map in H as [s [Hs Hin]].
  destruct (requested sx old new dirty s) eqn:Er; [|contradiction].
  destruct Hin as [E|[]]. injection E as <- <- <-. exists s. auto.
Qed.

Lemma changed_neq a b : changed a b = true -> a <> b.
Proof. unfold changed. intros H E. subst. rewrite value_eqb_refl in H. discriminate. Qed.

Theorem oh_emit_total sx st ls who e st1 :
  wf_keys sx -> OhStatic sx -> Inv sx st ls -> RawInit sx st ->
  oh_step sx st who e = Ok st1 ->
  exists res, emit_all (prv_last st1) (all_reqs sx st st1 []) = Ok res.
Proof.
  intros Hwf O HI R H.
  destruct (oh_step_frame _ _ _ _ _ H) as [Hraws Hlast].
  assert (R1 : RawInit sx st1) by (unfold RawInit in *; congruence).
  apply emit_all_total; [now apply all_reqs_keys|].
  intros k f v Hin. destruct (all_reqs_slot_req _ _ _ _ _ _ _ Hin) as (s & Hs & Hr & -> & -> & ->).
  rewrite Hlast. pose proof (HI s Hs) as [_ HB]. cbv zeta in HB.
  pose proof (in_slots_shape sx s Hs) as Sh.
  destruct s as [t w|t k|c w|c k]; cbn [requested] in Hr.
  - (* thread system rows *)
    assert (Hc : care (flags_of sx (STh t w)) = true) by (destruct w as [|[|w]]; reflexivity).
    rewrite Hc in HB. apply changed_neq in Hr. split.
    + left. destruct HB as [HB|HB]; rewrite HB; [discriminate|]. intros E. apply Hr. now inversion E.
    + cbn [view flags_of]. destruct w as [|[|w]].
      * unfold v_cpu. destruct (t_cpu _) as [c|]; [|exact I]. right. change (has_flag PRV_NEXT PRV_NEXT) with true. cbn iota. lia.
      * unfold v_tid. destruct (is_active _); [|exact I]. right. change (has_flag 0 PRV_NEXT) with false. cbn iota.
        apply (os_ids _ O). apply nth_In. exact Sh.
      * unfold v_state. right. change (has_flag PRV_SKIPDUP PRV_NEXT) with false. cbn iota.
        destruct (t_state (nth t (threads st1) dummy_thread)) eqn:Es; cbn; try lia.
        exfalso. apply Hr. cbn [view]. unfold v_state. rewrite Es.
        now rewrite (oh_step_not_unknown _ _ _ _ _ H t Es).
  - (* tracked thread rows *)
    destruct Sh as [_ Hk]. cbn [view flags_of]. apply tracked_good; [exact O|exact Hk|].
    destruct (mode_ok _ _); [|now left]. destruct (raw_read_init sx st1 t k R1 Hk) as [E|E]; rewrite E; auto.
  - (* CPU system rows *)
    assert (Hc : care (flags_of sx (SCpu c w)) = true) by (destruct w as [|[|w]]; reflexivity).
    rewrite Hc in HB. apply changed_neq in Hr. split.
    + left. destruct HB as [HB|HB]; rewrite HB; [discriminate|]. intros E. apply Hr. now inversion E.
    + cbn [view flags_of]. destruct w as [|[|w]].
      * unfold v_cputid. destruct (th_running st1 c) as [t|]; [|exact I]. unfold nth_opt.
        destruct (nth_error (s_threads sx) t) as [ti|] eqn:En; [|exact I]. right. change (has_flag 0 PRV_NEXT) with false. cbn iota.
        apply (os_ids _ O). eapply nth_error_In; eauto.
      * unfold v_cpupid. destruct (th_running st1 c) as [t|]; [|exact I]. unfold nth_opt.
        destruct (nth_error (s_threads sx) t) as [ti|] eqn:En; [|exact I]. right. change (has_flag 0 PRV_NEXT) with false. cbn iota.
        apply (os_ids _ O). eapply nth_error_In; eauto.
      * destruct (v_nrun st1 c); [left; reflexivity|exact I].
  - (* tracked CPU rows *)
    destruct Sh as [_ Hk]. cbn [view flags_of]. apply tracked_good; [exact O|exact Hk|].
    destruct (th_running st1 c) as [t|]; [|auto]. destruct (raw_read_init sx st1 t k R1 Hk) as [E|E]; rewrite E; auto.
Qed.

(* ---------------------------------------------------------------- handlers do not look at the PRV state *)

Lemma oh_step_last sx st who e l :
  oh_step sx (set_last st l) who e = match oh_step sx st who e with Ok s => Ok (set_last s l) | Err x => Err x end.
Proof.
  destruct st as [ths cts tch tks tys pl].
  unfold oh_step, change_state, migrate, set_last, set_thread, set_cpu_threads, touch, nth_opt, oversubscribed, nrunning, running_on,
    thread_state_of; cbn [threads cpu_threads cpu_touched tasks types prv_last].
  repeat match goal with
  | |- context [match ?x with _ => _ end] =>
    match x with
    | context [match _ with _ => _ end] => fail 1
    | _ => destruct x eqn:?
    end
  end; try reflexivity.
Qed.

Lemma oh_run_last sx h : forall st l,
  oh_run sx (set_last st l) h = match oh_run sx st h with Ok s => Ok (set_last s l) | Err x => Err x end.
Proof.
  induction h as [|[who e] h IH]; intros st l; cbn [oh_run]; [reflexivity|].
  rewrite oh_step_last. destruct (oh_step sx st who e) as [s|x]; [apply IH|reflexivity].
Qed.

Definition untimed (h : list (Z * nat * ohev)) : list (nat * ohev) := map (fun '(tm, who, e) => (who, e)) h.
Definition oh_events (h : list (Z * nat * ohev)) : list (Z * nat * event) := map (fun '(tm, who, e) => (tm, who, EvOvni e)) h.

Lemma run_from_oh sx h : forall st ls,
  wf_keys sx -> OhStatic sx -> Inv sx st ls -> RawInit sx st ->
  match oh_run sx st (untimed h) with
  | Ok st' => exists st'' tl, run_from sx st (oh_events h) = Ok (st'', tl) /\ threads st'' = threads st' /\ RawInit sx st''
  | Err _ => exists x, run_from sx st (oh_events h) = Err x
  end.
Proof.
  induction h as [|[[tm who] e] h IH]; intros st ls Hwf O HI R; cbn [untimed oh_events map oh_run run_from].
  - exists st, []. auto.
  - fold (untimed h). fold (oh_events h). unfold step. cbn [core_step].
    destruct (oh_step sx st who e) as [s1|x] eqn:Eo; [|eexists; reflexivity].
    destruct (oh_emit_total sx st ls who e s1 Hwf O HI R Eo) as [[last' ls'] Ee]. rewrite Ee.
    set (st1 := set_last s1 last').
    assert (Es : step sx st who (EvOvni e) = Ok (st1, ls')) by (unfold step; cbn [core_step]; rewrite Eo, Ee; reflexivity).
    pose proof (step_inv sx st who (EvOvni e) st1 ls' ls Hwf HI Es) as HI1.
    assert (R1 : RawInit sx st1).
    { unfold RawInit in *. destruct (oh_step_frame _ _ _ _ _ Eo) as [Hr _]. change (raws st1) with (raws s1). congruence. }
    specialize (IH st1 (ls ++ ls') Hwf O HI1 R1). unfold st1 in IH at 1. rewrite oh_run_last in IH.
    destruct (oh_run sx s1 (untimed h)) as [s'|x'].
    + destruct IH as (st'' & tl & Er & Ht & Rf). rewrite Er. eexists. eexists. split; [reflexivity|]. split; [exact Ht|exact Rf].
    + destruct IH as [x2 Er]. rewrite Er. eexists. reflexivity.
Qed.

Lemma lint_ok_init sx lc st : RawInit sx st -> lint_ok sx lc st = true.
Proof.
  intros R. unfold lint_ok. apply forallb_forall. intros th Hth. apply forallb_forall. intros k _.
  assert (Hr : In (t_raw th) (raws (init sx))) by (rewrite <- R; unfold raws; now apply in_map).
  unfold raws in Hr. cbn [init threads] in Hr. rewrite map_map in Hr. apply in_map_iff in Hr as [ti [E _]].
  rewrite <- E. cbn [init_thread t_raw].
  destruct (Nat.lt_ge_cases k (length (s_chans sx))) as [Hk|Hk].
  - change {| r_stk := []; r_val := None |} with ((fun sp => {| r_stk := []; r_val := cs_init sp |}) null_spec).
    rewrite map_nth. reflexivity.
  - rewrite nth_overflow by (rewrite map_length; exact Hk). reflexivity.
Qed.

Definition is_ok {A} (r : result A) : bool := match r with Ok _ => true | Err _ => false end.

(* the complete model (handlers, propagation, PRV) accepts a history of thread events iff the documented machine does *)
Theorem run_accepts_iff_spec sx lint h :
  types_ok sx -> any_init_ok sx -> OhStatic sx ->
  is_ok (run sx lint (oh_events h)) = spec_accepts sx (untimed h).
Proof.
  intros Hty Hany O. rewrite <- emu_accepts_iff_spec. unfold emu_accepts, run.
  pose proof (run_from_oh sx h (init sx) [] (wf_keys_of_types sx Hty) O (init_inv sx (init_ok_of sx Hany)) eq_refl) as H.
  destruct (oh_run sx (init sx) (untimed h)) as [st'|x].
  - destruct H as (st'' & tl & -> & Ht & Rf).
    assert (Hd : all_dead st'' = all_dead st') by (unfold all_dead; now rewrite Ht). rewrite Hd.
    destruct (all_dead st'); cbn [negb]; [|reflexivity].
    rewrite (lint_ok_init sx lint st'' Rf). destruct (s_lint sx); reflexivity.
  - destruct H as [x' ->]. reflexivity.
Qed.

(* the flags of the dumped channel specs allow it, for every subset of the models *)
Lemma dumped_specs_safe :
  forallb (fun en => forallb spec_safeb (DecodeDefs.mk_chans en)) (sublists all_models) = true.
Proof. vm_compute. reflexivity. Qed.
