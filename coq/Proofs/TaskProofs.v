(* C07: task_execute/pause/resume/end (task_op) accept exactly the documented transitions. *)
From Coq Require Import ZArith List Bool Lia.
From OV Require Import Emu.EmuCoreDefs Emu.TaskSpecDefs Proofs.EmuCoreProofs.
Import ListNotations.
Local Open Scope Z_scope.

Lemma bstate_eqb_eq a b : bstate_eqb a b = true <-> a = b.
Proof. destruct a, b; cbn; split; intros H; try reflexivity; try discriminate. Qed.

Lemma on_me_eq (o : option nat) who :
  (match o with Some w => Nat.eqb w who | None => false end) = true <-> o = Some who.
Proof.
  destruct o as [w|]; [|split; discriminate]. rewrite Nat.eqb_eq. split; [intros ->; reflexivity|intros H; inversion H; reflexivity].
Qed.

Theorem task_op_iff st who th loom pid mdl kind tid bid :
  (exists st', task_op st who th loom pid mdl kind tid bid = Ok st') <-> legal st who th loom pid mdl kind tid bid.
Proof.
  unfold task_op, legal, K_EXEC, K_END, K_PAUSE, K_RESUME.
  destruct (find_task st loom pid mdl tid) as [[ti tk]|] eqn:Ef.
  2:{ split; [intros [s H]; discriminate|intros (ti & tk & H & _); discriminate]. }
  destruct (kind =? 120) eqn:Ex.
  - (* execute *)
    apply Z.eqb_eq in Ex. subst kind.
    split.
    + intros [s H]. exists ti, tk. split; [reflexivity|]. left. split; [reflexivity|].
      destruct (find_body tk bid) as [[bi b]|] eqn:Eb.
      * destruct (b_state b) eqn:Es; try discriminate.
        -- destruct (b_on b) eqn:Eo; [discriminate|]. split; [split; [left; reflexivity|reflexivity]|].
           destruct (running_top st loom pid th mdl) as [[tk' b']|]; [|exact I]. destruct (tk_relax tk'); [reflexivity|discriminate].
        -- destruct (tk_res tk) eqn:Er; [|discriminate].
           destruct (b_on b) eqn:Eo; [discriminate|]. split; [split; [right; split; reflexivity|reflexivity]|].
           destruct (running_top st loom pid th mdl) as [[tk' b']|]; [|exact I]. destruct (tk_relax tk'); [reflexivity|discriminate].
      * destruct (negb (tk_par tk) && negb (Nat.eqb (length (tk_bodies tk)) 0)) eqn:En; [discriminate|].
        cbn [b_state b_on] in H. split.
        -- apply andb_false_iff in En. destruct En as [En|En].
           ++ left. apply negb_false_iff in En. exact En.
           ++ right. apply negb_false_iff in En. apply Nat.eqb_eq in En. destruct (tk_bodies tk); [reflexivity|discriminate].
        -- destruct (running_top st loom pid th mdl) as [[tk' b']|]; [|exact I]. destruct (tk_relax tk'); [reflexivity|discriminate].
    + intros (ti' & tk' & Hf & [(_ & Hb & Hn) | (bi & b & Hb & Hon & Htop & [(K & _)|[(K & _)|(K & _)]])]); try discriminate.
      inversion Hf; subst ti' tk'. clear Hf.
      destruct (find_body tk bid) as [[bi b]|] eqn:Eb.
      * destruct Hb as [[Hs | [Hs Hr]] Ho]; rewrite Hs; [|rewrite Hr]; rewrite Ho;
          (destruct (running_top st loom pid th mdl) as [[tk2 b2]|]; [rewrite Hn|]; eexists; reflexivity).
      * assert (En : negb (tk_par tk) && negb (Nat.eqb (length (tk_bodies tk)) 0) = false).
        { destruct Hb as [Hp|He]; [rewrite Hp; reflexivity|rewrite He; cbn; apply andb_false_r]. }
        rewrite En. cbn [b_state b_on].
        destruct (running_top st loom pid th mdl) as [[tk2 b2]|]; [rewrite Hn|]; eexists; reflexivity.
  - (* the other three *)
    split.
    + intros [s H]. exists ti, tk. split; [reflexivity|]. right.
      destruct (find_body tk bid) as [[bi b]|] eqn:Eb; [|discriminate].
      exists bi, b. split; [reflexivity|].
      destruct (kind =? 112) eqn:Ep.
      * apply Z.eqb_eq in Ep. subst kind.
        destruct (negb (tk_pause tk)) eqn:E1; [discriminate|].
        destruct (negb (bstate_eqb (b_state b) BRunning)) eqn:E2; [discriminate|].
        destruct (negb (match b_on b with Some w => Nat.eqb w who | None => false end)) eqn:E3; [discriminate|].
        destruct (negb (is_top th mdl tid bid)) eqn:E4; [discriminate|].
        apply negb_false_iff in E1, E2, E3, E4. apply bstate_eqb_eq in E2. apply on_me_eq in E3.
        split; [exact E3|split; [exact E4|left; repeat split; assumption]].
      * destruct (kind =? 114) eqn:Er.
        -- apply Z.eqb_eq in Er. subst kind.
           destruct (negb (bstate_eqb (b_state b) BPaused)) eqn:E2; [discriminate|].
           destruct (negb (match b_on b with Some w => Nat.eqb w who | None => false end)) eqn:E3; [discriminate|].
           destruct (negb (is_top th mdl tid bid)) eqn:E4; [discriminate|].
           apply negb_false_iff in E2, E3, E4. apply bstate_eqb_eq in E2. apply on_me_eq in E3.
           split; [exact E3|split; [exact E4|right; left; split; [reflexivity|exact E2]]].
        -- destruct (kind =? 101) eqn:Ee; [|discriminate].
           apply Z.eqb_eq in Ee. subst kind.
           destruct (negb (bstate_eqb (b_state b) BRunning)) eqn:E2; [discriminate|].
           destruct (negb (match b_on b with Some w => Nat.eqb w who | None => false end)) eqn:E3; [discriminate|].
           destruct (negb (is_top th mdl tid bid)) eqn:E4; [discriminate|].
           apply negb_false_iff in E2, E3, E4. apply bstate_eqb_eq in E2. apply on_me_eq in E3.
           split; [exact E3|split; [exact E4|right; right; split; [reflexivity|exact E2]]].
    + intros (ti' & tk' & Hf & [(K & _) | (bi & b & Hb & Hon & Htop & Hk)]).
      { subst kind. discriminate. }
      inversion Hf; subst ti' tk'. clear Hf. rewrite Hb.
      assert (Hon' : (match b_on b with Some w => Nat.eqb w who | None => false end) = true) by (apply on_me_eq; exact Hon).
      rewrite Hon', Htop. cbn [negb].
      destruct Hk as [(-> & Hs & Hp) | [(-> & Hs) | (-> & Hs)]]; rewrite Hs; cbn.
      * rewrite Hp. cbn. eexists. reflexivity.
      * eexists. reflexivity.
      * eexists. reflexivity.
Qed.

(* ---------------------------------------------------------------- a body is on a stack exactly while it is running or paused *)

Definition body_ok (b : body) : Prop :=
  b_on b = None <-> (b_state b = BCreated \/ b_state b = BDead).

Definition OnInv (st : state) : Prop :=
  forall tk, In tk (tasks st) -> forall b, In b (tk_bodies tk) -> body_ok b.

Lemma in_update {A} (l : list A) n x y : In y (update l n x) -> y = x \/ In y l.
Proof.
  revert n. induction l as [|h t IH]; intros [|n] H; cbn in *; try contradiction.
  - destruct H as [<-|H]; [left; reflexivity|right; right; exact H].
  - destruct H as [<-|H]; [right; left; reflexivity|]. destruct (IH n H) as [->|H']; [left; reflexivity|right; right; exact H'].
Qed.

Lemma find_task_from_in l loom pid mdl id i j tk :
  find_task_from l loom pid mdl id i = Some (j, tk) -> In tk l /\ nth_error l (j - i) = Some tk /\ (i <= j)%nat.
Proof.
  revert i. induction l as [|t r IH]; intros i H; cbn in H; [discriminate|].
  destruct (Nat.eqb (tk_loom t) loom && (tk_pid t =? pid) && (tk_model t =? mdl) && (tk_id t =? id)).
  - inversion H; subst. split; [left; reflexivity|]. rewrite Nat.sub_diag. split; [reflexivity|lia].
  - destruct (IH (S i) H) as (Hin & Hn & Hle). split; [right; exact Hin|]. split; [|lia].
    replace (j - i)%nat with (S (j - S i)) by lia. exact Hn.
Qed.

Lemma find_body_from_in l id i j b : find_body_from l id i = Some (j, b) -> In b l.
Proof.
  revert i. induction l as [|x r IH]; intros i H; cbn in H; [discriminate|].
  destruct (b_id x =? id); [inversion H; subst; left; reflexivity|right; eapply IH; eauto].
Qed.

Lemma store_body_inv st ti tk bi b :
  OnInv st -> In tk (tasks st) -> body_ok b -> OnInv (store_body st ti tk bi b).
Proof.
  intros HI Htk Hb tk' Hin b' Hb'. unfold store_body, set_tasks in Hin. cbn [tasks] in Hin.
  apply in_update in Hin. destruct Hin as [-> | Hin]; [|apply (HI tk' Hin b' Hb')].
  unfold set_bodies in Hb'. cbn [tk_bodies] in Hb'.
  destruct bi as [i|].
  - apply in_update in Hb'. destruct Hb' as [->|Hb']; [exact Hb|apply (HI tk Htk b' Hb')].
  - apply in_app_or in Hb'. destruct Hb' as [Hb'|[<-|[]]]; [apply (HI tk Htk b' Hb')|exact Hb].
Qed.

Lemma OnInv_set_thread st t th : OnInv st -> OnInv (set_thread st t th).
Proof. intros H. exact H. Qed.

Theorem task_op_OnInv st who th loom pid mdl kind tid bid st' :
  OnInv st -> task_op st who th loom pid mdl kind tid bid = Ok st' -> OnInv st'.
Proof.
  intros HI H. unfold task_op in H.
  destruct (find_task st loom pid mdl tid) as [[ti tk]|] eqn:Ef; [|discriminate].
  unfold find_task in Ef. destruct (find_task_from_in _ _ _ _ _ _ _ _ Ef) as (Htk & _ & _).
  assert (Hrun : body_ok {| b_id := bid; b_state := BRunning; b_on := Some who |}).
  { unfold body_ok. cbn. split; [discriminate|intros [E|E]; discriminate]. }
  destruct (kind =? 120).
  - (* execute: the new/updated body is Running on who *)
    match type of H with match ?o with Some _ => _ | None => _ end = _ => destruct o as [[bi b]|]; [|discriminate] end.
    match type of H with match ?o with Some _ => _ | None => _ end = _ => destruct o as [s0|]; [|discriminate] end.
    destruct s0; try discriminate.
    destruct (b_on b); [discriminate|].
    destruct (running_top st loom pid th mdl) as [[tk' b']|].
    + destruct (tk_relax tk'); [|discriminate]. inversion H; subst. apply OnInv_set_thread. apply store_body_inv; assumption.
    + inversion H; subst. apply OnInv_set_thread. apply store_body_inv; assumption.
  - destruct (find_body tk bid) as [[bi b]|] eqn:Eb; [|discriminate].
    assert (Hon : forall s, (match b_on b with Some w => Nat.eqb w who | None => false end) = true ->
                  (s = BRunning \/ s = BPaused) -> body_ok {| b_id := bid; b_state := s; b_on := b_on b |}).
    { intros s Ho Hs. apply on_me_eq in Ho. unfold body_ok. cbn. rewrite Ho.
      split; [discriminate|intros [E|E]; destruct Hs as [-> | ->]; discriminate]. }
    assert (Hdead : body_ok {| b_id := bid; b_state := BDead; b_on := None |}).
    { unfold body_ok. cbn. split; [intros _; right; reflexivity|reflexivity]. }
    destruct (kind =? 112).
    + break_in H. inversion H; subst. apply store_body_inv; try assumption. apply Hon; [|right; reflexivity].
      match goal with E : negb (match b_on b with _ => _ end) = false |- _ => apply negb_false_iff in E; exact E end.
    + destruct (kind =? 114).
      * break_in H. inversion H; subst. apply store_body_inv; try assumption. apply Hon; [|left; reflexivity].
        match goal with E : negb (match b_on b with _ => _ end) = false |- _ => apply negb_false_iff in E; exact E end.
      * destruct (kind =? 101); [|discriminate].
        break_in H. inversion H; subst. apply OnInv_set_thread. apply store_body_inv; assumption.
Qed.

(* consequences of the iff: a body that is on some stack cannot be executed; pause/resume/end need the
   body on top of the calling thread's own stack *)
Corollary execute_needs_free_body st who th loom pid mdl tid bid st' :
  OnInv st -> task_op st who th loom pid mdl K_EXEC tid bid = Ok st' ->
  forall ti tk bi b, find_task st loom pid mdl tid = Some (ti, tk) -> find_body tk bid = Some (bi, b) ->
    b_on b = None /\ b_state b <> BRunning /\ b_state b <> BPaused.
Proof.
  intros HI H ti tk bi b Hf Hb.
  assert (L : legal st who th loom pid mdl K_EXEC tid bid) by (apply task_op_iff; eexists; exact H).
  destruct L as (ti' & tk' & Hf' & [(_ & Hb' & _) | (bi' & b' & _ & _ & _ & [(K & _)|[(K & _)|(K & _)]])]); try discriminate.
  rewrite Hf in Hf'. inversion Hf'; subst ti' tk'. rewrite Hb in Hb'. destruct Hb' as [Hs Ho].
  split; [exact Ho|]. destruct Hs as [Hs|[Hs _]]; rewrite Hs; split; discriminate.
Qed.

Corollary other_ops_need_own_top st who th loom pid mdl kind tid bid st' :
  kind <> K_EXEC -> task_op st who th loom pid mdl kind tid bid = Ok st' ->
  exists ti tk bi b, find_task st loom pid mdl tid = Some (ti, tk) /\ find_body tk bid = Some (bi, b) /\
    b_on b = Some who /\ is_top th mdl tid bid = true.
Proof.
  intros Hk H.
  assert (L : legal st who th loom pid mdl kind tid bid) by (apply task_op_iff; eexists; exact H).
  destruct L as (ti & tk & Hf & [(K & _) | (bi & b & Hb & Ho & Ht & _)]); [contradiction|].
  exists ti, tk, bi, b. repeat split; assumption.
Qed.

Corollary parallel_cannot_pause st who th loom pid mdl tid bid st' ti tk :
  find_task st loom pid mdl tid = Some (ti, tk) -> tk_pause tk = false ->
  task_op st who th loom pid mdl K_PAUSE tid bid = Ok st' -> False.
Proof.
  intros Hf Hp H.
  assert (L : legal st who th loom pid mdl K_PAUSE tid bid) by (apply task_op_iff; eexists; exact H).
  destruct L as (ti' & tk' & Hf' & [(K & _) | (bi & b & Hb & Ho & Ht & [(_ & _ & Hp')|[(K & _)|(K & _)]])]); try discriminate.
  rewrite Hf in Hf'. inversion Hf'; subst. congruence.
Qed.

(* ---------------------------------------------------------------- the invariant holds in every reachable state *)

Lemma OnInv_tasks st st' : tasks st' = tasks st -> OnInv st -> OnInv st'.
Proof. intros E H tk Hin. rewrite E in Hin. apply (H tk Hin). Qed.

Lemma change_state_tasks sx st who th ok new st1 : change_state sx st who th ok new = Ok st1 -> tasks st1 = tasks st.
Proof. unfold change_state. intros H. break_in H; inversion H; subst; reflexivity. Qed.

Lemma migrate_tasks sx st t th old new st1 : migrate sx st t th old new = Ok st1 -> tasks st1 = tasks st.
Proof. unfold migrate. intros H. break_in H; inversion H; subst; reflexivity. Qed.

Lemma oh_step_tasks sx st who e st1 : oh_step sx st who e = Ok st1 -> tasks st1 = tasks st.
Proof.
  intros H. unfold oh_step, nth_opt in H.
  destruct (nth_error (threads st) who) as [th|]; [|discriminate].
  destruct (t_ooc th); [discriminate|].
  destruct e; try (eapply change_state_tasks; eauto; fail).
  - break_in H; inversion H; subst; reflexivity.
  - break_in H; inversion H; subst; reflexivity.
  - destruct (t_cpu th) as [old|]; [|discriminate].
    destruct (negb (is_active (t_state th))); [discriminate|].
    destruct (find_cpu sx (thread_loom sx who) cpuidx) as [new|]; [|discriminate].
    destruct (Nat.eqb old new); [inversion H; reflexivity|eapply migrate_tasks; eauto].
  - destruct (find_remote sx who tid) as [r|]; [|discriminate].
    destruct (nth_error (threads st) r) as [rth|]; [|discriminate].
    destruct (t_state rth); try discriminate;
      (destruct (t_cpu rth) as [old|]; [|discriminate];
       destruct (find_cpu sx (thread_loom sx who) cpuidx) as [new|]; [|discriminate];
       destruct (Nat.eqb old new); [discriminate|]; eapply migrate_tasks; eauto).
Qed.

Lemma chan_step_tasks sx st who k a v st1 d : chan_step sx st who k a v = Ok (st1, d) -> tasks st1 = tasks st.
Proof. unfold chan_step. intros H. break_in H; inversion H; subst; reflexivity. Qed.

Lemma set_chans_tasks sx who ws : forall st d0 st1 d, set_chans sx st who ws d0 = Ok (st1, d) -> tasks st1 = tasks st.
Proof.
  induction ws as [|[k v] ws IH]; intros st d0 st1 d H; cbn [set_chans] in H; [inversion H; reflexivity|].
  destruct (chan_step sx st who k SET v) as [[st' d1]|] eqn:E; [|discriminate].
  rewrite (IH _ _ _ _ H). eapply chan_step_tasks; eauto.
Qed.

Lemma task_event_OnInv sx st who cfg mdl kind tid bid st1 dirty :
  OnInv st -> task_event sx st who cfg mdl kind tid bid = Ok (st1, dirty) -> OnInv st1.
Proof.
  unfold task_event, nth_opt. intros HI H.
  destruct (nth_error (threads st) who) as [th|]; [|discriminate].
  destruct (nth_error (s_threads sx) who) as [ti|]; [|discriminate].
  destruct (find_task st (ti_loom ti) (ti_pid ti) mdl tid) as [[i0 tk0]|]; [|discriminate].
  match type of H with match ?o with Some _ => _ | None => _ end = _ => destruct o as [b|]; [|discriminate] end.
  destruct (task_op st who th (ti_loom ti) (ti_pid ti) mdl kind tid b) as [s1|] eqn:Eop; [|discriminate].
  pose proof (task_op_OnInv _ _ _ _ _ _ _ _ _ _ HI Eop) as H1.
  match type of H with match ?ssr with Ok _ => _ | Err _ => _ end = _ => destruct ssr as [[s2 d1]|] eqn:Ess; [|discriminate] end.
  assert (T2 : tasks s2 = tasks s1).
  { destruct (kind =? 120); [eapply chan_step_tasks; eauto|]. destruct (kind =? 101); [eapply chan_step_tasks; eauto|]. inversion Ess; reflexivity. }
  match type of H with match ?w with Ok _ => _ | Err _ => _ end = _ => destruct w as [ws|]; [|discriminate] end.
  destruct (set_chans sx s2 who ws d1) as [[s3 d]|] eqn:Esc; [|discriminate].
  pose proof (set_chans_tasks _ _ _ _ _ _ _ Esc) as T3.
  assert (H3 : OnInv s3) by (apply (OnInv_tasks s1); [congruence|exact H1]).
  break_in H; inversion H; subst; exact H3.
Qed.

Theorem core_step_OnInv sx st who ev st1 dirty :
  OnInv st -> core_step sx st who ev = Ok (st1, dirty) -> OnInv st1.
Proof.
  intros HI H. unfold core_step, nth_opt in H. destruct ev.
  - destruct (oh_step sx st who e) as [s|] eqn:E; [|discriminate]. inversion H; subst.
    apply (OnInv_tasks st); [eapply oh_step_tasks; eauto|exact HI].
  - destruct (nth_error (threads st) who) as [th|]; [|discriminate].
    break_in H; (apply (OnInv_tasks st); [eapply chan_step_tasks; eauto|exact HI]).
  - destruct (nth_error (threads st) who) as [th|]; [|discriminate].
    apply (OnInv_tasks st); [|exact HI]. rewrite (chan_step_tasks _ _ _ _ _ _ _ _ H). reflexivity.
  - destruct (nth_error (threads st) who) as [th|]; [|discriminate].
    destruct (need_ok (tc_need cfg) th); [|discriminate]. eapply task_event_OnInv; eauto.
  - destruct (nth_error (threads st) who) as [th|]; [|discriminate].
    destruct (need_ok need th); [|discriminate].
    destruct (task_create sx st who mdl tid typeid par res pause relax) as [s|] eqn:E; [|discriminate].
    inversion H; subst. unfold task_create, nth_opt in E. break_in E. inversion E; subst.
    intros tk Hin b Hb. unfold set_tasks in Hin. cbn [tasks] in Hin. apply in_app_or in Hin.
    destruct Hin as [Hin|[<-|[]]]; [apply (HI tk Hin b Hb)|cbn in Hb; contradiction].
  - destruct (nth_error (threads st) who) as [th|]; [|discriminate].
    destruct (need_ok need th); [|discriminate].
    destruct (type_create sx st who mdl typeid gid) as [s|] eqn:E; [|discriminate].
    inversion H; subst. unfold type_create, nth_opt in E. break_in E. inversion E; subst. exact HI.
  - destruct (nth_error (threads st) who) as [th|]; [|discriminate].
    destruct (t_ooc th); [discriminate|]. inversion H; subst. exact HI.
  - discriminate.
Qed.

Lemma OnInv_init sx : OnInv (init sx).
Proof. intros tk []. Qed.

Theorem run_from_OnInv sx evs : forall st st' tl, OnInv st -> run_from sx st evs = Ok (st', tl) -> OnInv st'.
Proof.
  induction evs as [|[[tm who] ev] evs IH]; intros st st' tl HI H; cbn [run_from] in H.
  - inversion H; subst. exact HI.
  - destruct (step sx st who ev) as [[st1 ls1]|] eqn:Es; [|discriminate].
    destruct (run_from sx st1 evs) as [[st2 tl2]|] eqn:Er; [|discriminate].
    inversion H; subst st' tl. apply (IH st1 st2 tl2); [|exact Er].
    unfold step in Es. destruct (core_step sx st who ev) as [[s1 d]|] eqn:Ec; [|discriminate].
    destruct (emit_all (prv_last s1) (all_reqs sx st s1 d)) as [[l' ls]|]; [|discriminate].
    inversion Es; subst. apply (OnInv_tasks s1); [reflexivity|]. eapply core_step_OnInv; eauto.
Qed.
