(* C07: task_execute/pause/resume/end (task_op) accept exactly the documented transitions. *)
From Coq Require Import ZArith List Bool Lia.
From OV Require Import Emu.EmuCoreDefs Emu.TaskSpecDefs Proofs.EmuCoreProofs.
Import ListNotations.
Local Open Scope Z_scope.

Lemma bstate_eqb_eq a b : bstate_eqb a b = true <-> a = b.
Proof. destruct a, b; cbn; split; intros H; try reflexivity; try discriminate. Qed.

Lemma on_me_eq (o : option nat) who :
  (match o with Some w => Nat.eqb w who | None => false end) = true <-> o = Some who.
Proof.
  destruct o as [w|]; [|split; discriminate]. rewrite Nat.eqb_eq. split; [intros ->; reflexivity|intros H; inversion H; reflexivity].
Qed.

Theorem task_op_iff st who th loom pid mdl kind tid bid :
  (exists st', task_op st who th loom pid mdl kind tid bid = Ok st') <-> legal st who th loom pid mdl kind tid bid.
Proof.
  unfold task_op, legal, K_EXEC, K_END, K_PAUSE, K_RESUME.
  destruct (find_task st loom pid mdl tid) as [[ti tk]|] eqn:Ef.
  2:{ split; [intros [s H]; discriminate|intros (ti & tk & H & _); discriminate]. }
  destruct (kind =? 120) eqn:Ex.
  - (* execute *)
    apply Z.eqb_eq in Ex. subst kind.
    split.
    + intros [s H]. exists ti, tk. split; [reflexivity|]. left. split; [reflexivity|].
      destruct (find_body tk bid) as [[bi b]|] eqn:Eb.
      * destruct (b_state b) eqn:Es; try discriminate.
        -- destruct (b_on b) eqn:Eo; [discriminate|]. split; [split; [left; reflexivity|reflexivity]|].
           destruct (running_top st loom pid th mdl) as [[tk' b']|]; [|exact I]. destruct (tk_relax tk'); [reflexivity|discriminate].
        -- destruct (tk_res tk) eqn:Er; [|discriminate].
           destruct (b_on b) eqn:Eo; [discriminate|]. split; [split; [right; split; reflexivity|reflexivity]|].
           destruct (running_top st loom pid th mdl) as [[tk' b']|]; [|exact I]. destruct (tk_relax tk'); [reflexivity|discriminate].
      * destruct (negb (tk_par tk) && negb (Nat.eqb (length (tk_bodies tk)) 0)) eqn:En; [discriminate|].
        cbn [b_state b_on] in H. split.
        -- apply andb_false_iff in En. destruct En as [En|En].
           ++ left. apply negb_false_iff in En. exact En.
           ++ right. apply negb_false_iff in En. apply Nat.eqb_eq in En. destruct (tk_bodies tk); [reflexivity|discriminate].
        -- destruct (running_top st loom pid th mdl) as [[tk' b']|]; [|exact I]. destruct (tk_relax tk'); [reflexivity|discriminate].
    + intros (ti' & tk' & Hf & [(_ & Hb & Hn) | (bi & b & Hb & Hon & Htop & [(K & _)|[(K & _)|(K & _)]])]); try discriminate.
      inversion Hf; subst ti' tk'. clear Hf.
      destruct (find_body tk bid) as [[bi b]|] eqn:Eb.
      * destruct Hb as [[Hs | [Hs Hr]] Ho]; rewrite Hs; [|rewrite Hr]; rewrite Ho;
          (destruct (running_top st loom pid th mdl) as [[tk2 b2]|]; [rewrite Hn|]; eexists; reflexivity).
      * assert (En : negb (tk_par tk) && negb (Nat.eqb (length (tk_bodies tk)) 0) = false).
        { destruct Hb as [Hp|He]; [rewrite Hp; reflexivity|rewrite He; cbn; apply andb_false_r]. }
        rewrite En. cbn [b_state b_on].
        destruct (running_top st loom pid th mdl) as [[tk2 b2]|]; [rewrite Hn|]; eexists; reflexivity.
  - (* the other three *)
    split.
    + intros [s H]. exists ti, tk. split; [reflexivity|]. right.
      destruct (find_body tk bid) as [[bi b]|] eqn:Eb; [|discriminate].
      exists bi, b. split; [reflexivity|].
      destruct (kind =? 112) eqn:Ep.
      * apply Z.eqb_eq in Ep. subst kind.
        destruct (negb (tk_pause tk)) eqn:E1; [discriminate|].
        destruct (negb (bstate_eqb (b_state b) BRunning)) eqn:E2; [discriminate|].
        destruct (negb (match b_on b with Some w => Nat.eqb w who | None => false end)) eqn:E3; [discriminate|].
        destruct (negb (is_top th mdl tid bid)) eqn:E4; [discriminate|].
        apply negb_false_iff in E1, E2, E3, E4. apply bstate_eqb_eq in E2. apply on_me_eq in E3.
        split; [exact E3|split; [exact E4|left; repeat split; assumption]].
      * destruct (kind =? 114) eqn:Er.
        -- apply Z.eqb_eq in Er. subst kind.
           destruct (negb (bstate_eqb (b_state b) BPaused)) eqn:E2; [discriminate|].
           destruct (negb (match b_on b with Some w => Nat.eqb w who | None => false end)) eqn:E3; [discriminate|].
           destruct (negb (is_top th mdl tid bid)) eqn:E4; [discriminate|].
           apply negb_false_iff in E2, E3, E4. apply bstate_eqb_eq in E2. apply on_me_eq in E3.
           split; [exact E3|split; [exact E4|right; left; split; [reflexivity|exact E2]]].
        -- destruct (kind =? 101) eqn:Ee; [|discriminate].
           apply Z.eqb_eq in Ee. subst kind.
           destruct (negb (bstate_eqb (b_state b) BRunning)) eqn:E2; [discriminate|].
           destruct (negb (match b_on b with Some w => Nat.eqb w who | None => false end)) eqn:E3; [discriminate|].
           destruct (negb (is_top th mdl tid bid)) eqn:E4; [discriminate|].
           apply negb_false_iff in E2, E3, E4. apply bstate_eqb_eq in E2. apply on_me_eq in E3.
           split; [exact E3|split; [exact E4|right; right; split; [reflexivity|exact E2]]].
    + intros (ti' & tk' & Hf & [(K & _) | (bi & b & Hb & Hon & Htop & Hk)]).
      { subst kind. discriminate. }
      inversion Hf; subst ti' tk'. clear Hf. rewrite Hb.
      assert (Hon' : (match b_on b with Some w => Nat.eqb w who | None => false end) = true) by (apply on_me_eq; exact Hon).
      rewrite Hon', Htop. cbn [negb].
      destruct Hk as [(-> & Hs & Hp) | [(-> & Hs) | (-> & Hs)]]; rewrite Hs; cbn.
      * rewrite Hp. cbn. eexists. reflexivity.
      * eexists. reflexivity.
      * eexists. reflexivity.
Qed.
