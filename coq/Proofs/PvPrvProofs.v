(* C13 (B3): the bytes of the .prv files of a whole emulation: header with the time of the last event relative to the first and
   the declared row count, then records whose rows are within 1..nrows and whose times do not exceed the duration. *)
From Coq Require Import ZArith List Bool Lia.
From OV Require Import Base.CInt Emu.EmuCoreDefs Emu.DecodeDefs Emu.MarkDefs Emu.PvDefs Proofs.PvProofs.
From OV Require Proofs.PrvProofs Proofs.PvThms.
From OV Require Gen.Tables_gen Gen.Pv_gen.
Import ListNotations.
Local Open Scope Z_scope.

Definition prec := (Z * Z * Z * Z)%type.     (* row (1-based), time, type, value *)
Definition recline (r : prec) : str := let '(row, tm, ty, v) := r in prv_line row tm ty v.
Definition rec_ok (nrows time : Z) (r : prec) : Prop := let '(row, tm, _, _) := r in 1 <= row <= nrows /\ tm <= time.

(* the PRV of one trace: every registered channel is on a row of the file; the file is the open-time header and records
   on rows of the file, none later than the current time *)
Definition PI (x : prv) : Prop :=
  (forall c, In c (pv_chans x) -> 1 <= pc_row1 c <= pv_nrows x) /\
  exists recs, pv_file x = prv_header 0 (pv_nrows x) ++ concat (map recline recs) /\ Forall (rec_ok (pv_nrows x) (pv_time x)) recs.
Definition J (v : pvt) (n : nat) (t : Z) : Prop := PI (v_prv v) /\ pv_nrows (v_prv v) = Z.of_nat n /\ pv_time (v_prv v) = t.

Lemma J_same v v' n t : v_prv v' = v_prv v -> J v n t -> J v' n t.
Proof. unfold J. now intros ->. Qed.

Lemma J_register v g ty fl v' n t : J v n t -> 0 <= g < Z.of_nat n -> pvt_register v g ty fl = Ok v' -> J v' n t.
Proof.
  intros [[C (recs & F & R)] [N T]] Hg H. apply pvt_register_ok in H as (_ & _ & E1 & E2 & E3 & E4).
  split; [|split; congruence]. split.
  - intros c Hc. rewrite E4 in Hc. rewrite E1. apply in_app_or in Hc as [Hc|[<-|[]]]; [now apply C|]. cbn [pc_row1]. lia.
  - exists recs. rewrite E1, E2, E3. auto.
Qed.

Lemma J_open n : J (pvt_open n) n 0.
Proof.
  split; [|split; reflexivity]. split; [intros c []|]. exists []. cbn [pvt_open v_prv prv_open pv_file pv_nrows map concat]. now rewrite app_nil_r.
Qed.

(* ---- operations that leave the PRV alone *)
Lemma add_values_prv cast id labs : forall v v', add_values_c cast id v labs = Ok v' -> v_prv v' = v_prv v.
Proof.
  intros v v'. unfold add_values_c. eapply (foldr_rel _ (fun a b => v_prv b = v_prv a)); [auto|congruence|].
  intros a s a' _ E. now apply pvt_add_value_ext in E as (_ & -> & _).
Qed.
Lemma type_values_prv cast v id l labs v' :
  bindr (pvt_add_type v id l) (fun v1 => add_values_c cast id v1 labs) = Ok v' -> v_prv v' = v_prv v.
Proof.
  intros H. apply bindr_ok in H as (v1 & E1 & E2). apply add_values_prv in E2. apply pvt_add_type_ok in E1 as (P & _). congruence.
Qed.
Lemma thread_create_prv v v' : thread_create_pcf_types v = Ok v' -> v_prv v' = v_prv v.
Proof.
  unfold thread_create_pcf_types. eapply (foldr_rel _ (fun a b => v_prv b = v_prv a)); [auto|congruence|].
  intros a [[[ty fl] name] labs] a' _ E. destruct (ty =? -1); [now injection E as <-|]. now apply (type_values_prv int) in E.
Qed.
Lemma cpu_create_prv v v' : cpu_create_pcf_types v = Ok v' -> v_prv v' = v_prv v.
Proof.
  unfold cpu_create_pcf_types. eapply (foldr_rel _ (fun a b => v_prv b = v_prv a)); [auto|congruence|].
  intros a [[ty fl] name] a' _ E. destruct (ty =? -1); [now injection E as <-|]. now apply pvt_add_type_ok in E as (P & _).
Qed.
Lemma create_types_prv specs v v' : foldr create_type specs v = Ok v' -> v_prv v' = v_prv v.
Proof.
  eapply (foldr_rel _ (fun a b => v_prv b = v_prv a)); [auto|congruence|].
  intros a s a' _ E. unfold create_type in E. destruct (ps_type s =? -1); [now injection E as <-|].
  destruct (MAXL <=? slen (spec_label s)); [discriminate|]. now apply (type_values_prv int) in E.
Qed.
Lemma finish_pvt_prv all sx tys tl m v v' : finish_pvt all sx tys tl m v = Ok v' -> v_prv v' = v_prv v.
Proof.
  unfold finish_pvt. destruct (task_model_chan m); [|now intros H; injection H as <-]. destruct (pcf_find_type _ _); [|discriminate].
  eapply (foldr_rel _ (fun a b => v_prv b = v_prv a)); [auto|congruence|].
  intros a x a' _ E. unfold add_task_value in E. destruct (pcf_find_type _ _); [|discriminate].
  destruct (pcf_find_value _ _).
  - destruct (str_eq _ _); [now injection E as <-|discriminate].
  - now apply pvt_add_value_ext in E as (_ & -> & _).
Qed.

(* ---- registration on every row *)
Lemma J_rows {S} (ty fl : S -> Z) (specs : list S) n t v v' : J v n t ->
  foldr (fun v1 g => foldr (fun v2 s => pvt_register v2 g (ty s) (fl s)) specs v1) (map Z.of_nat (seq 0 n)) v = Ok v' -> J v' n t.
Proof.
  intros Jv. apply (foldr_inv _ (fun a => J a n t)); [|exact Jv]. intros a g a' Hg Ja.
  apply in_map_iff in Hg as (k & <- & Hk). apply in_seq in Hk.
  apply (foldr_inv _ (fun b => J b n t)); [|exact Ja]. intros b s b' _ Jb E. eapply J_register; [exact Jb| |exact E]. lia.
Qed.

Lemma J_connect_side n t specs v v' : J v n t -> connect_side n specs v = Ok v' -> J v' n t.
Proof.
  intros Jv H. unfold connect_side in H. apply bindr_ok in H as (v1 & E1 & E2).
  apply (J_rows ps_type ps_flags specs n t v v1 Jv) in E1. apply create_types_prv in E2. now apply (J_same v1).
Qed.

Lemma J_mark_side n t ms v v' : J v n t -> mark_side n ms v = Ok v' -> J v' n t.
Proof.
  intros Jv H. unfold mark_side in H. apply bindr_ok in H as (v1 & E1 & E2).
  apply (J_rows (fun m => 100 + mt_type m) (fun _ => PRV_SKIPDUPNULL) ms n t v v1 Jv) in E1.
  apply (J_same v1); [|exact E1]. revert E2. eapply (foldr_rel _ (fun a b => v_prv b = v_prv a)); [auto|congruence|].
  intros a m a' _ E. now apply (type_values_prv cast_int64) in E.
Qed.

Definition Jr (sx : static) (t : Z) (r : recorder) : Prop := J (rc_th r) (length (s_threads sx)) t /\ J (rc_cpu r) (length (s_cpus sx)) t.

Lemma Jr_model_connect all sx t ms r m r' : Jr sx t r -> model_connect all sx ms r m = Ok r' -> Jr sx t r'.
Proof.
  intros [Jt Jc] H. unfold model_connect in H. apply bindr_ok in H as (r1 & E1 & H). apply bindr_ok in H as (r2 & E2 & E3).
  apply on_th_ok in E1 as (v1 & E1 & ->). apply on_cpu_ok in E2 as (v2 & E2 & ->). cbn [rc_th rc_cpu] in *.
  apply (J_connect_side _ _ _ _ _ Jt) in E1. apply (J_connect_side _ _ _ _ _ Jc) in E2.
  destruct ((m =? M_OVNI) && negb (Nat.eqb (length ms) 0)).
  - apply bindr_ok in E3 as (r3 & E3 & E4). apply on_th_ok in E3 as (v3 & E3 & ->). apply on_cpu_ok in E4 as (v4 & E4 & ->).
    cbn [rc_th rc_cpu] in *. split; cbn [rc_th rc_cpu]; [now apply (J_mark_side _ _ _ _ _ E1) in E3|now apply (J_mark_side _ _ _ _ _ E2) in E4].
  - injection E3 as <-. split; assumption.
Qed.

Lemma Jr_connect_thread sx t r g ti r' : Jr sx t r -> In (g, ti) (number (s_threads sx)) -> connect_thread r (g, ti) = Ok r' -> Jr sx t r'.
Proof.
  intros Jr0 Hin H. destruct (number_in _ _ _ dummy_info Hin) as (G0 & G1 & _).
  unfold connect_thread in H. apply bindr_ok in H as (r1 & E1 & E2).
  assert (J1 : Jr sx t r1).
  { revert E1. apply (foldr_inv _ (Jr sx t)); [|exact Jr0]. intros a [[[ty fl] ?] ?] a' _ [Ja Jb] E.
    apply on_th_ok in E as (v & E & ->). split; cbn [rc_th rc_cpu]; [|exact Jb]. eapply J_register; [exact Ja| |exact E]. lia. }
  apply on_th_ok in E2 as (v & E2 & ->). destruct J1 as [Ja Jb]. split; cbn [rc_th rc_cpu]; [|exact Jb].
  apply pvt_add_row_ext in E2 as (_ & P & _). now apply (J_same (rc_th r1)).
Qed.

Lemma Jr_connect_cpu sx t phy r g ci p r' : Jr sx t r -> In (g, (ci, p)) (number (combine (s_cpus sx) phy)) ->
  connect_cpu r (g, (ci, p)) = Ok r' -> Jr sx t r'.
Proof.
  intros Jr0 Hin H. destruct (number_in _ _ _ ({| ci_virtual := false; ci_loom := 0; ci_index := 0 |}, 0) Hin) as (G0 & G1 & _).
  assert (Lc : (length (combine (s_cpus sx) phy) <= length (s_cpus sx))%nat) by (rewrite combine_length; lia).
  unfold connect_cpu in H. apply bindr_ok in H as (r1 & E1 & H). apply bindr_ok in H as (r2 & E2 & E3).
  assert (J1 : Jr sx t r1).
  { revert E1. apply (foldr_inv _ (Jr sx t)); [|exact Jr0]. intros a [[ty fl] ?] a' _ [Ja Jb] E.
    destruct (ty <? 0); [injection E as <-; split; assumption|].
    apply on_cpu_ok in E as (v & E & ->). split; cbn [rc_th rc_cpu]; [exact Ja|]. eapply J_register; [exact Jb| |exact E]. lia. }
  apply on_cpu_ok in E2 as (v2 & E2 & ->). apply on_th_ok in E3 as (v3 & E3 & ->). cbn [rc_th rc_cpu] in *.
  destruct J1 as [Ja Jb]. apply pvt_add_row_ext in E2 as (_ & P2 & _). apply pvt_add_value_ext in E3 as (_ & P3 & _).
  split; cbn [rc_th rc_cpu]; [now apply (J_same (rc_th r1))|now apply (J_same (rc_cpu r1))].
Qed.

Lemma Jr_connect all sx phy en ms r : connect_gen all sx phy en ms = Ok r -> Jr sx 0 r.
Proof.
  intros H. unfold connect_gen in H. apply bindr_ok in H as (r0 & E0 & E1).
  assert (J0 : Jr sx 0 r0).
  { unfold system_connect in E0. apply bindr_ok in E0 as (r1 & A1 & E0). apply bindr_ok in E0 as (r2 & A2 & E0). apply bindr_ok in E0 as (r3 & A3 & A4).
    assert (J1 : Jr sx 0 r1).
    { revert A1. apply (foldr_inv _ (Jr sx 0)); [|split; apply J_open]. intros a [g ti] a' Hin Ja E. now apply (Jr_connect_thread sx 0 a g ti). }
    apply on_th_ok in A2 as (v2 & A2 & ->). apply on_cpu_ok in A3 as (v3 & A3 & ->). cbn [rc_th rc_cpu] in *.
    apply thread_create_prv in A2. apply cpu_create_prv in A3. destruct J1 as [Ja Jb].
    revert A4. apply (foldr_inv _ (Jr sx 0)); [|split; cbn [rc_th rc_cpu]; [now apply (J_same (rc_th r1))|now apply (J_same (rc_cpu r1))]].
    intros a [g [ci p]] a' Hin Ja' E. now apply (Jr_connect_cpu sx 0 phy a g ci p). }
  revert E1. apply (foldr_inv _ (Jr sx 0)); [|exact J0]. intros a m a' _ Ja E. now apply (Jr_model_connect all sx 0 ms a m).
Qed.

Lemma Jr_finish all sx t en tys tl r r' : Jr sx t r -> finish_gen all sx en tys tl r = Ok r' -> Jr sx t r'.
Proof.
  intros J0. unfold finish_gen. apply (foldr_inv _ (Jr sx t)); [|exact J0]. intros a m a' _ [Ja Jb] E.
  apply bindr_ok in E as (r1 & E1 & E2). apply on_th_ok in E1 as (v1 & E1 & ->). apply on_cpu_ok in E2 as (v2 & E2 & ->). cbn [rc_th rc_cpu] in *.
  apply finish_pvt_prv in E1, E2. split; cbn [rc_th rc_cpu]; [now apply (J_same (rc_th a))|now apply (J_same (rc_cpu a))].
Qed.

(* ---- the run *)
Lemma PI_advance x t x' : PI x -> prv_advance x t = Ok x' -> PI x' /\ pv_nrows x' = pv_nrows x /\ pv_time x' = t.
Proof.
  intros [C (recs & F & R)] H. unfold prv_advance in H. destruct (t <? pv_time x) eqn:E; [discriminate|]. injection H as <-.
  apply Z.ltb_ge in E. cbn [pv_nrows pv_time pv_chans pv_file]. split; [|auto]. split; [exact C|]. exists recs. split; [exact F|].
  cbn [pv_nrows pv_time]. eapply Forall_impl; [|exact R]. intros [[[row tm] ty] v]. unfold rec_ok. lia.
Qed.

Lemma PI_write x row ty v x' : PI x -> prv_write x row ty v = Ok x' -> PI x' /\ pv_nrows x' = pv_nrows x /\ pv_time x' = pv_time x.
Proof.
  intros [C (recs & F & R)] H. unfold prv_write, prv_find in H. destruct (find _ (pv_chans x)) as [c|] eqn:Fc; [|discriminate]. injection H as <-.
  apply find_some in Fc as [Hc _]. cbn [pv_nrows pv_time pv_chans pv_file]. split; [|auto]. split; [exact C|].
  exists (recs ++ [(pc_row1 c, pv_time x, pc_type c, v)]). split.
  - rewrite F, map_app, concat_app, <- app_assoc. cbn [map concat recline]. now rewrite app_nil_r.
  - cbn [pv_nrows pv_time]. apply Forall_app. split; [exact R|]. constructor; [|constructor]. unfold rec_ok. split; [now apply C|lia].
Qed.

Lemma Jr_advance sx t0 r t r' : Jr sx t0 r -> rec_advance r t = Ok r' -> Jr sx t r'.
Proof.
  intros [[Pa [Na Ta]] [Pb [Nb Tb]]] H. unfold rec_advance in H. apply bindr_ok in H as (r1 & E1 & E2).
  apply on_th_ok in E1 as (v1 & E1 & ->). apply on_cpu_ok in E2 as (v2 & E2 & ->). cbn [rc_th rc_cpu] in *.
  apply bindr_ok in E1 as (x1 & A1 & E1). injection E1 as <-. apply bindr_ok in E2 as (x2 & A2 & E2). injection E2 as <-.
  destruct (PI_advance _ _ _ Pa A1) as (P1 & N1 & T1). destruct (PI_advance _ _ _ Pb A2) as (P2 & N2 & T2).
  split; (split; [|split]); cbn [rc_th rc_cpu v_prv set_prv]; first [assumption|congruence].
Qed.

Lemma Jr_write sx t r l r' : Jr sx t r -> rec_write r l = Ok r' -> Jr sx t r'.
Proof.
  intros [[Pa [Na Ta]] [Pb [Nb Tb]]] H. unfold rec_write, on_side in H. destruct (l_cpu l).
  - apply on_cpu_ok in H as (v & E & ->). apply bindr_ok in E as (x & A & E). injection E as <-.
    destruct (PI_write _ _ _ _ _ Pb A) as (P & N & T). split; (split; [|split]); cbn [rc_th rc_cpu v_prv set_prv]; first [assumption|congruence].
  - apply on_th_ok in H as (v & E & ->). apply bindr_ok in E as (x & A & E). injection E as <-.
    destruct (PI_write _ _ _ _ _ Pa A) as (P & N & T). split; (split; [|split]); cbn [rc_th rc_cpu v_prv set_prv]; first [assumption|congruence].
Qed.

Fixpoint end_time (t0 cur : Z) (evs : list (Z * nat * event)) : Z :=
  match evs with [] => cur | (tm, _, _) :: r => end_time t0 (tm - t0) r end.

Lemma Jr_run sx evs : forall st r t0 cur st' r', Jr sx cur r -> pv_run_from sx st r t0 evs = Ok (st', r') -> Jr sx (end_time t0 cur evs) r'.
Proof.
  induction evs as [|[[tm who] ev] evs IH]; intros st r t0 cur st' r' J0 H; cbn [pv_run_from end_time] in *.
  - now injection H as _ <-.
  - destruct (rec_advance r (tm - t0)) as [r1|] eqn:E1; [|discriminate]. destruct (step sx st who ev) as [[st1 ls]|]; [|discriminate].
    destruct (foldr rec_write ls r1) as [r2|] eqn:E2; [|discriminate].
    pose proof (Jr_advance _ _ _ _ _ J0 E1) as J1.
    assert (J2 : Jr sx (tm - t0) r2).
    { revert E2. apply (foldr_inv _ (Jr sx (tm - t0))); [|exact J1]. intros a l a' _ Ja E. now apply (Jr_write sx (tm - t0) a l a'). }
    now apply (IH st1 r2 t0 (tm - t0) st' r').
Qed.

Lemma end_time_last evs cur : evs <> [] -> end_time (ev_t0 evs) cur evs = PrvProofs.last_time evs - PrvProofs.first_time evs.
Proof.
  intros N. unfold PrvProofs.last_time, PrvProofs.first_time.
  assert (G : forall l t0 c, l <> [] -> end_time t0 c l = last (map PrvProofs.ev_time l) 0 - t0).
  { induction l as [|[[tm who] ev] l IHl]; intros t0 c Hn; [congruence|]. cbn [end_time map PrvProofs.ev_time].
    destruct l as [|e l]; [reflexivity|]. rewrite IHl by discriminate. reflexivity. }
  rewrite G by exact N. destruct evs as [|[[tm who] ev] evs]; [congruence|]. reflexivity.
Qed.

(* ---- the header *)
Lemma digits_len f : forall n k, 0 <= n -> n < 10 ^ Z.of_nat k -> (0 < k)%nat -> (length (digits f n) <= k)%nat.
Proof.
  induction f as [|f IH]; intros n k Hn Hlt Hk; cbn [digits]; [cbn; lia|].
  destruct (n <? 10) eqn:E; [cbn; lia|]. apply Z.ltb_ge in E. rewrite app_length. cbn [length].
  destruct k as [|k]; [lia|]. destruct k as [|k]; [cbn in Hlt; lia|].
  assert (n / 10 < 10 ^ Z.of_nat (S k)).
  { apply Z.div_lt_upper_bound; [lia|]. rewrite (Nat2Z.inj_succ (S k)), Z.pow_succ_r in Hlt by lia. lia. }
  specialize (IH (n / 10) (S k) ltac:(apply Z.div_pos; lia) H ltac:(lia)). lia.
Qed.

Lemma header_length t n : 0 <= t < 10 ^ 20 -> length (prv_header t n) = length (prv_header 0 n).
Proof.
  intros Ht. unfold prv_header. rewrite !app_length. f_equal. f_equal.
  assert (L : forall d, 0 <= d < 10 ^ 20 -> length (dec_pad0 20 d) = 20%nat).
  { intros d Hd. unfold dec_pad0. destruct (d <? 0) eqn:E; [apply Z.ltb_lt in E; lia|]. unfold pad_left. rewrite app_length, repeat_length.
    assert (length (dec_u d) <= 20)%nat by (unfold dec_u; apply digits_len; [lia|exact (proj2 Hd)|lia]). lia. }
  rewrite (L t Ht), (L 0) by lia. reflexivity.
Qed.

(* B3: the .prv files of an emulation *)
Definition prv_shape (text : str) (duration : Z) (nrows : nat) : Prop :=
  exists recs, text = prv_header duration (Z.of_nat nrows) ++ concat (map recline recs) /\
               Forall (rec_ok (Z.of_nat nrows) duration) recs.

Lemma J_close v n t : J v n t -> 0 <= t < 10 ^ 20 -> prv_shape (prv_close (v_prv v)) t n.
Proof.
  intros [[C (recs & F & R)] [N T]] Ht. exists recs. rewrite <- N, <- T. split; [|exact R].
  apply PvThms.prv_close_header; [exact F|]. apply header_length. now rewrite T.
Qed.

Theorem prv_files_shape sx phy en ms lc tl evs out :
  emulate sx phy en ms lc tl evs = Ok out ->
  let d := PrvProofs.last_time evs - PrvProofs.first_time evs in 0 <= d < 10 ^ 20 ->
  prv_shape (f_prv (o_th out)) d (length (s_threads sx)) /\ prv_shape (f_prv (o_cpu out)) d (length (s_cpus sx)).
Proof.
  intros H d Hd. unfold emulate in H. apply bindr_ok in H as (r0 & E0 & H).
  destruct (pv_run_from sx (init sx) r0 (ev_t0 evs) evs) as [[st r1]|] eqn:Er; [|discriminate].
  destruct (negb (all_dead st)); [discriminate|]. destruct (s_lint sx && negb (lint_ok sx lc st)); [discriminate|].
  apply bindr_ok in H as (r2 & E2 & H). apply bindr_ok in H as (fth & Et & H). apply bindr_ok in H as (fcpu & Ec & H).
  injection H as <-. cbn [o_th o_cpu].
  pose proof (Jr_connect _ _ _ _ _ _ E0) as J0. pose proof (Jr_run _ _ _ _ _ _ _ _ J0 Er) as J1.
  assert (Ed : end_time (ev_t0 evs) 0 evs = d).
  { destruct evs as [|e evs']; [reflexivity|]. apply end_time_last. discriminate. }
  rewrite Ed in J1. pose proof (Jr_finish _ _ _ _ _ _ _ _ J1 E2) as [Jt Jc].
  destruct (pvt_close_ok _ _ Et) as (_ & _ & ->). destruct (pvt_close_ok _ _ Ec) as (_ & _ & ->).
  split; [now apply J_close|now apply J_close].
Qed.
