(* C12: a trace that contains an event the handlers answer "bad" to is never emulated as ok by the
   complete emulator-core model, wherever the event stands; unknown events and wrong payload sizes
   are such events. *)
From Coq Require Import ZArith List Bool Lia.
From OV Require Import Emu.EmuCoreDefs Emu.DecodeDefs Emu.MarkDefs Emu.CatalogDefs Emu.RejectDefs Proofs.CatalogProofs.
Import ListNotations.
Local Open Scope Z_scope.

Lemma bad_core_step_err sx st who ev : is_bad ev = true -> exists w, core_step sx st who ev = Err w.
Proof. destruct ev; cbn [is_bad]; try discriminate. intros _. eexists. reflexivity. Qed.

Lemma bad_step_err sx st who ev : is_bad ev = true -> exists w, step sx st who ev = Err w.
Proof.
  intros H. destruct (bad_core_step_err sx st who ev H) as [w Hw].
  exists w. unfold step. rewrite Hw. reflexivity.
Qed.

Lemma run_from_hits_bad sx : forall pre st t who ev rest,
  is_bad ev = true -> exists w, run_from sx st (pre ++ (t, who, ev) :: rest) = Err w.
Proof.
  induction pre as [|[[t0 w0] e0] pre IH]; intros st t who ev rest H.
  - cbn [app run_from]. destruct (bad_step_err sx st who ev H) as [w Hw]. rewrite Hw. eexists. reflexivity.
  - cbn [app run_from]. destruct (step sx st w0 e0) as [[st1 ls]|e] eqn:E; [|eexists; reflexivity].
    destruct (IH st1 t who ev rest H) as [w Hw]. rewrite Hw. eexists. reflexivity.
Qed.

Lemma run_hits_bad sx lint pre t who ev rest :
  is_bad ev = true -> exists w, run sx lint (pre ++ (t, who, ev) :: rest) = Err w.
Proof.
  intros H. unfold run. destruct (run_from_hits_bad sx pre (init sx) t who ev rest H) as [w Hw].
  rewrite Hw. eexists. reflexivity.
Qed.

(* a wrong payload size is answered "bad" by the dispatch of the model that owns the event *)
Lemma wrong_size_is_bad en cs m c v p j aux :
  wrong_size m c v (length p) j = true -> is_bad (decode_all en cs m c v p j aux) = true.
Proof.
  unfold wrong_size, decode_all.
  destruct (m =? M_OVNI) eqn:Em.
  - (* base model *)
    apply Z.eqb_eq in Em. subst m. cbn [andb].
    replace (M_OVNI =? M_OVNI) with true by reflexivity. cbn [andb].
    destruct (c =? 72) eqn:E72.
    + apply Z.eqb_eq in E72. subst c. replace (72 =? 77) with false by reflexivity. intros H.
      apply andb_true_iff in H. destruct H as [Hv Hn]. apply Z.eqb_eq in Hv. subst v.
      unfold decode_full. destruct (memz M_OVNI en); cbn [negb]; [|reflexivity].
      replace (decode_task cs M_OVNI 72 120 p j aux) with (@None event) by reflexivity.
      unfold decode. destruct (memz M_OVNI en); cbn [negb]; [|reflexivity].
      replace (M_OVNI =? M_OVNI) with true by reflexivity.
      unfold decode_ovni. replace (72 =? 72) with true by reflexivity. replace (120 =? 120) with true by reflexivity.
      rewrite Hn. reflexivity.
    + destruct (c =? 65) eqn:E65.
      * apply Z.eqb_eq in E65. subst c. replace (65 =? 77) with false by reflexivity. intros H.
        unfold decode_full. destruct (memz M_OVNI en) eqn:Een; cbn [negb]; [|reflexivity].
        replace (decode_task cs M_OVNI 65 v p j aux) with (@None event) by reflexivity.
        unfold decode. rewrite Een. cbn [negb]. replace (M_OVNI =? M_OVNI) with true by reflexivity.
        unfold decode_ovni. replace (65 =? 72) with false by reflexivity. replace (65 =? 65) with true by reflexivity.
        apply orb_true_iff in H. destruct H as [H|H]; apply andb_true_iff in H; destruct H as [Hv Hn]; apply Z.eqb_eq in Hv; subst v.
        -- replace (115 =? 115) with true by reflexivity. destruct (Nat.eqb (length p) 4); [discriminate|reflexivity].
        -- replace (114 =? 115) with false by reflexivity. replace (114 =? 114) with true by reflexivity.
           destruct (Nat.eqb (length p) 8); [discriminate|reflexivity].
      * destruct (c =? 77) eqn:E77; [|discriminate].
        intros H. destruct (memz M_OVNI en); [|reflexivity].
        unfold decode_mark. rewrite H. reflexivity.
  - cbn [andb].
    destruct (m =? M_NOSV) eqn:Ev.
    + apply Z.eqb_eq in Ev. subst m.
      unfold decode_full. destruct (memz M_NOSV en); cbn [negb]; [|reflexivity].
      unfold decode_task. replace (M_NOSV =? M_NOSV) with true by reflexivity.
      destruct (c =? 84) eqn:E84.
      * intros H. apply andb_true_iff in H. destruct H as [Hv Hn]. rewrite Hn.
        destruct ((v =? 99) || (v =? 67)) eqn:Ecc; [reflexivity|].
        cbn [orb] in Hv. rewrite Hv. reflexivity.
      * destruct (c =? 89) eqn:E89; [|discriminate].
        intros H. apply andb_true_iff in H. destruct H as [Hv Hj]. rewrite Hv. cbn [negb]. rewrite Hj. reflexivity.
    + destruct (m =? M_NANOS6) eqn:E6; [|discriminate].
      apply Z.eqb_eq in E6. subst m.
      unfold decode_full. destruct (memz M_NANOS6 en); cbn [negb]; [|reflexivity].
      unfold decode_task. replace (M_NANOS6 =? M_NOSV) with false by reflexivity.
      replace (M_NANOS6 =? M_NANOS6) with true by reflexivity.
      destruct (c =? 84) eqn:E84.
      * intros H. apply orb_true_iff in H. destruct H as [H|H]; apply andb_true_iff in H; destruct H as [Hv Hn].
        -- apply Z.eqb_eq in Hv. subst v. replace (99 =? 67) with false by reflexivity. replace (99 =? 99) with true by reflexivity.
           destruct (Nat.eqb (length p) 8); [discriminate|reflexivity].
        -- destruct (v =? 67) eqn:E67.
           { apply Z.eqb_eq in E67. subst v. discriminate. }
           destruct (v =? 99) eqn:E99.
           { apply Z.eqb_eq in E99. subst v. discriminate. }
           rewrite Hv, Hn. reflexivity.
      * destruct (c =? 89) eqn:E89; [|discriminate].
        intros H. apply andb_true_iff in H. destruct H as [Hv Hj]. rewrite Hv. cbn [negb]. rewrite Hj. reflexivity.
Qed.

(* an unknown event (not listed, not one of the stated exceptions) anywhere in the trace *)
Lemma unknown_event_never_ok sx lint en cs m c v p j aux pre t who rest :
  listed m c v = false -> legacy m c v = false -> value_blind m c = false ->
  exists w, run sx lint (pre ++ (t, who, decode_all en cs m c v p j aux) :: rest) = Err w.
Proof. intros H1 H2 H3. apply run_hits_bad. apply unlisted_rejected; assumption. Qed.

Lemma wrong_payload_size_never_ok sx lint en cs m c v p j aux pre t who rest :
  wrong_size m c v (length p) j = true ->
  exists w, run sx lint (pre ++ (t, who, decode_all en cs m c v p j aux) :: rest) = Err w.
Proof. intros H. apply run_hits_bad. apply wrong_size_is_bad. exact H. Qed.
