(* Proofs about the event buffer model (Rt/RtBufDefs.v).

   Part 1 removes the fuel: for capacities >= 64 the recursion
   ovni_ev_add -> add_flush_events -> ovni_ev_add unfolds to the fuel-free
   `big_afe` / `big_awf` (both versions fx of add_flush_events).
   Part 2 relates a concrete state to two lists of tagged events (on disk / in
   the buffer) and describes each API call as a transition `Trans` on them.
   Part 3 proves the C01 statements (both versions) and the C02 statements
   (repaired version) by induction over arbitrary op sequences, and the
   refutation of C02 for the version before the repair. *)
From OV Require Import Base.CInt Rt.CodecPre Gen.Codec_gen Rt.CodecDefs Rt.RtBufDefs Proofs.CodecProofs.
From Coq Require Import ZifyBool.
Local Open Scope Z_scope.

(* ------------------------------------------------------------------ part 1: no fuel *)

Lemma ready_append s b n : ready (append s b n) = ready s. Proof. reflexivity. Qed.
Lemma ready_flush s : ready (flush_evbuf s) = ready s. Proof. reflexivity. Qed.
Lemma ready_set_clk s c : ready (set_clk s c) = ready s. Proof. reflexivity. Qed.
Lemma evlen_append s b n : evlen (append s b n) = evlen s + n. Proof. reflexivity. Qed.
Lemma evlen_set_clk s c : evlen (set_clk s c) = evlen s. Proof. reflexivity. Qed.
Lemma clk_append s b n : clk (append s b n) = clk s. Proof. reflexivity. Qed.

Lemma ready_appends chunks : forall s, ready (appends s chunks) = ready s.
Proof. induction chunks as [|[b n] r IH]; intros s; cbn [appends]; [reflexivity | rewrite IH; reflexivity]. Qed.
Lemma clk_appends chunks : forall s, clk (appends s chunks) = clk s.
Proof. induction chunks as [|[b n] r IH]; intros s; cbn [appends]; [reflexivity | rewrite IH; reflexivity]. Qed.
Lemma evlen_appends chunks : forall s, evlen (appends s chunks) = evlen s + fold_right Z.add 0 (map snd chunks).
Proof.
  induction chunks as [|[b n] r IH]; intros s; cbn [appends map fold_right snd]; [lia|].
  rewrite IH, evlen_append. lia.
Qed.

Definition MB (v t : Z) : list Z := ev_image (marker v t) 12.
Definition pushm (s : rt) (v t : Z) : rt := append s (MB v t) 12.

Lemma marker_size v t : cast_uint64 (ovni_ev_size (marker v t)) = 12.
Proof. reflexivity. Qed.

Section NoFuel.
  Variable fx : bool.
  Variable cap : Z.
  Hypothesis Hcap : 64 <= cap.

  Lemma ev_add_S f ev s :
    ovni_ev_add fx cap (S f) ev s =
    if negb (ready s) then RAbort
    else add_with_flush fx cap (ovni_ev_add fx cap f)
           [(ev_image ev (cast_uint64 (ovni_ev_size ev)), cast_uint64 (ovni_ev_size ev))]
           (cast_uint64 (ovni_ev_size ev)) s.
  Proof. reflexivity. Qed.

  Lemma ev_add_fits f ev s size :
    ready s = true -> size = cast_uint64 (ovni_ev_size ev) -> evlen s + size < cap ->
    ovni_ev_add fx cap (S f) ev s = ROk (append s (ev_image ev size) size).
  Proof.
    intros R -> L. rewrite ev_add_S. rewrite R. cbn [negb]. unfold add_with_flush.
    destruct (evlen s + cast_uint64 (ovni_ev_size ev) >=? cap) eqn:E; [lia|]. reflexivity.
  Qed.

  Lemma marker_fits f v t s :
    ready s = true -> evlen s + 12 < cap -> ovni_ev_add fx cap (S f) (marker v t) s = ROk (pushm s v t).
  Proof. intros R L. rewrite (ev_add_fits f _ s 12 R); [reflexivity | reflexivity | exact L]. Qed.

  Lemma markers_fit f t0 t1 s :
    ready s = true -> 0 <= evlen s -> evlen s + 24 < cap ->
    rbind (ovni_ev_add fx cap (S f) (marker c_LB t0) s) (ovni_ev_add fx cap (S f) (marker c_RB t1)) =
    ROk (pushm (pushm s c_LB t0) c_RB t1).
  Proof.
    intros R L0 L. rewrite marker_fits by (try assumption; lia). cbn [rbind].
    rewrite marker_fits; [reflexivity | exact R | unfold pushm; rewrite evlen_append; lia].
  Qed.

  (* add_flush_events without fuel *)
  Definition big_afe (t0 t1 : Z) (s : rt) : rres rt :=
    if fx then
      if evlen s + 24 >=? cap then
        match clk s with
        | [] => RNoClock
        | t :: r => ROk (pushm (pushm (set_clk (flush_evbuf s) r) c_LB t0) c_RB t)
        end
      else ROk (pushm (pushm s c_LB t0) c_RB t1)
    else
      if evlen s + 12 >=? cap then
        (* the first marker triggers a flush: its own markers land between OF[ t0 and OF] t1 *)
        match clk s with
        | t0' :: t1' :: r =>
          ROk (pushm (pushm (pushm (pushm (set_clk (flush_evbuf s) r) c_LB t0) c_LB t0') c_RB t1') c_RB t1)
        | _ => RNoClock
        end
      else if evlen s + 24 >=? cap then
        (* the second marker triggers a flush *)
        match clk s with
        | t0' :: t1' :: r =>
          ROk (pushm (pushm (pushm (set_clk (flush_evbuf (pushm s c_LB t0)) r) c_RB t1) c_LB t0') c_RB t1')
        | _ => RNoClock
        end
      else ROk (pushm (pushm s c_LB t0) c_RB t1).

  Lemma afe_fits f t0 t1 s :
    ready s = true -> 0 <= evlen s -> evlen s + 24 < cap ->
    add_flush_events fx cap (ovni_ev_add fx cap (S f)) t0 t1 s = ROk (pushm (pushm s c_LB t0) c_RB t1).
  Proof.
    intros R L0 L. unfold add_flush_events.
    change (c_sizeof_struct_ovni_ev_header + c_sizeof_struct_ovni_ev_header) with 24.
    destruct (evlen s + 24 >=? cap) eqn:E; [lia|]. rewrite andb_false_r.
    apply markers_fit; assumption.
  Qed.

  (* a 12-byte marker that does not fit: flush, then the marker, then that flush's own markers *)
  Lemma marker_flushes f v t s :
    ready s = true -> 0 <= evlen s -> evlen s + 12 >= cap ->
    ovni_ev_add fx cap (S (S f)) (marker v t) s =
    match clk s with
    | t0 :: t1 :: r => ROk (pushm (pushm (pushm (set_clk (flush_evbuf s) r) v t) c_LB t0) c_RB t1)
    | _ => RNoClock
    end.
  Proof.
    intros R L0 L. rewrite ev_add_S. rewrite R. cbn [negb]. unfold add_with_flush.
    rewrite marker_size. destruct (evlen s + 12 >=? cap) eqn:E; [|lia].
    unfold clock_now. destruct (clk s) as [|t0 [|t1 r]]; [reflexivity | reflexivity |].
    cbn [rbind clk set_clk flush_evbuf appends].
    rewrite afe_fits; [reflexivity | cbn; exact R | cbn; lia | cbn; lia].
  Qed.

  Lemma afe_eq f t0 t1 s :
    ready s = true -> 0 <= evlen s < cap ->
    add_flush_events fx cap (ovni_ev_add fx cap (S (S f))) t0 t1 s = big_afe t0 t1 s.
  Proof.
    intros R L. unfold add_flush_events, big_afe.
    change (c_sizeof_struct_ovni_ev_header + c_sizeof_struct_ovni_ev_header) with 24.
    destruct fx eqn:FX; cbn [andb].
    - destruct (evlen s + 24 >=? cap) eqn:E.
      + unfold clock_now. cbn [clk flush_evbuf]. destruct (clk s) as [|t r]; [reflexivity|].
        cbn [rbind]. rewrite <- FX. rewrite markers_fit; [reflexivity | cbn; exact R | cbn; lia | cbn; lia].
      + rewrite <- FX. apply markers_fit; [exact R | lia | lia].
    - rewrite <- FX.
      destruct (evlen s + 12 >=? cap) eqn:E12.
      + rewrite marker_flushes by (try assumption; lia).
        destruct (clk s) as [|t0' [|t1' r]]; [reflexivity | reflexivity |].
        cbn [rbind]. rewrite marker_fits; [reflexivity | cbn; exact R | cbn; lia].
      + rewrite marker_fits by (try assumption; lia). cbn [rbind].
        destruct (evlen s + 24 >=? cap) eqn:E24.
        * rewrite marker_flushes; [reflexivity | cbn; exact R | cbn; lia | cbn; lia].
        * rewrite marker_fits; [reflexivity | cbn; exact R | cbn; lia].
  Qed.

  (* add_with_flush without fuel *)
  Definition big_awf (chunks : list (list Z * Z)) (total : Z) (s : rt) : rres rt :=
    if evlen s + total >=? cap then
      match clk s with
      | t0 :: t1 :: r => big_afe t0 t1 (appends (set_clk (flush_evbuf s) r) chunks)
      | _ => RNoClock
      end
    else ROk (appends s chunks).

  Lemma awf_eq f chunks total s :
    ready s = true -> total = fold_right Z.add 0 (map snd chunks) -> 0 <= total < cap ->
    add_with_flush fx cap (ovni_ev_add fx cap (S (S f))) chunks total s = big_awf chunks total s.
  Proof.
    intros R T L. unfold add_with_flush, big_awf.
    destruct (evlen s + total >=? cap) eqn:E; [|reflexivity].
    unfold clock_now. destruct (clk s) as [|t0 [|t1 r]]; [reflexivity | reflexivity |].
    cbn [rbind clk set_clk flush_evbuf].
    apply afe_eq.
    - rewrite ready_appends. exact R.
    - rewrite evlen_appends. cbn [evlen set_clk flush_evbuf]. lia.
  Qed.

  Lemma ev_add_eq f ev s size :
    ready s = true -> size = cast_uint64 (ovni_ev_size ev) -> 0 <= size < cap ->
    ovni_ev_add fx cap (S (S (S f))) ev s = big_awf [(ev_image ev size, size)] size s.
  Proof.
    intros R -> L. rewrite ev_add_S. rewrite R. cbn [negb].
    apply awf_eq; [exact R | cbn; lia | exact L].
  Qed.
End NoFuel.
