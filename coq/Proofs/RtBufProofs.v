(* Proofs about the event buffer model (Rt/RtBufDefs.v).

   Part 1 removes the fuel: for capacities >= 64 the recursion
   ovni_ev_add -> add_flush_events -> ovni_ev_add unfolds to the fuel-free
   `big_afe` / `big_awf` (both versions fx of add_flush_events).
   Part 2 relates a concrete state to two lists of tagged events (on disk / in
   the buffer) and describes each API call as a transition `Trans` on them.
   Part 3 proves the C01 statements (both versions) and the C02 statements
   (repaired version) by induction over arbitrary op sequences, and the
   refutation of C02 for the version before the repair. *)
From OV Require Import Base.CInt Rt.CodecPre Gen.Codec_gen Rt.CodecDefs Rt.RtBufDefs Proofs.CodecProofs.
From Coq Require Import ZifyBool.
Local Open Scope Z_scope.

(* ------------------------------------------------------------------ part 1: no fuel *)

Lemma ready_append s b n : ready (append s b n) = ready s. Proof. reflexivity. Qed.
Lemma ready_flush s : ready (flush_evbuf s) = ready s. Proof. reflexivity. Qed.
Lemma ready_set_clk s c : ready (set_clk s c) = ready s. Proof. reflexivity. Qed.
Lemma evlen_append s b n : evlen (append s b n) = evlen s + n. Proof. reflexivity. Qed.
Lemma evlen_set_clk s c : evlen (set_clk s c) = evlen s. Proof. reflexivity. Qed.
Lemma clk_append s b n : clk (append s b n) = clk s. Proof. reflexivity. Qed.

Lemma ready_appends chunks : forall s, ready (appends s chunks) = ready s.
Proof. induction chunks as [|[b n] r IH]; intros s; cbn [appends]; [reflexivity | rewrite IH; reflexivity]. Qed.
Lemma clk_appends chunks : forall s, clk (appends s chunks) = clk s.
Proof. induction chunks as [|[b n] r IH]; intros s; cbn [appends]; [reflexivity | rewrite IH; reflexivity]. Qed.
Lemma evlen_appends chunks : forall s, evlen (appends s chunks) = evlen s + fold_right Z.add 0 (map snd chunks).
Proof.
  induction chunks as [|[b n] r IH]; intros s; cbn [appends map fold_right snd]; [lia|].
  rewrite IH, evlen_append. lia.
Qed.

Definition MB (v t : Z) : list Z := ev_image (marker v t) 12.
Definition pushm (s : rt) (v t : Z) : rt := append s (MB v t) 12.

Lemma marker_size v t : cast_uint64 (ovni_ev_size (marker v t)) = 12.
Proof. reflexivity. Qed.

Section NoFuel.
  Variable fx : bool.
  Variable cap : Z.
  Hypothesis Hcap : 64 <= cap.

  Lemma ev_add_S f ev s :
    ovni_ev_add fx cap (S f) ev s =
    if negb (ready s) then RAbort
    else add_with_flush fx cap (ovni_ev_add fx cap f)
           [(ev_image ev (cast_uint64 (ovni_ev_size ev)), cast_uint64 (ovni_ev_size ev))]
           (cast_uint64 (ovni_ev_size ev)) s.
  Proof. reflexivity. Qed.

  Lemma ev_add_fits f ev s size :
    ready s = true -> size = cast_uint64 (ovni_ev_size ev) -> evlen s + size < cap ->
    ovni_ev_add fx cap (S f) ev s = ROk (append s (ev_image ev size) size).
  Proof.
    intros R -> L. rewrite ev_add_S. rewrite R. cbn [negb]. unfold add_with_flush.
    destruct (evlen s + cast_uint64 (ovni_ev_size ev) >=? cap) eqn:E; [lia|]. reflexivity.
  Qed.

  Lemma marker_fits f v t s :
    ready s = true -> evlen s + 12 < cap -> ovni_ev_add fx cap (S f) (marker v t) s = ROk (pushm s v t).
  Proof. intros R L. rewrite (ev_add_fits f _ s 12 R); [reflexivity | reflexivity | exact L]. Qed.

  Lemma markers_fit f t0 t1 s :
    ready s = true -> 0 <= evlen s -> evlen s + 24 < cap ->
    rbind (ovni_ev_add fx cap (S f) (marker c_LB t0) s) (ovni_ev_add fx cap (S f) (marker c_RB t1)) =
    ROk (pushm (pushm s c_LB t0) c_RB t1).
  Proof.
    intros R L0 L. rewrite marker_fits by (try assumption; lia). cbn [rbind].
    rewrite marker_fits; [reflexivity | exact R | unfold pushm; rewrite evlen_append; lia].
  Qed.

  (* add_flush_events without fuel *)
  Definition big_afe (t0 t1 : Z) (s : rt) : rres rt :=
    if fx then
      if evlen s + 24 >=? cap then
        match clk s with
        | [] => RNoClock
        | t :: r => ROk (pushm (pushm (set_clk (flush_evbuf s) r) c_LB t0) c_RB t)
        end
      else ROk (pushm (pushm s c_LB t0) c_RB t1)
    else
      if evlen s + 12 >=? cap then
        (* the first marker triggers a flush: its own markers land between OF[ t0 and OF] t1 *)
        match clk s with
        | t0' :: t1' :: r =>
          ROk (pushm (pushm (pushm (pushm (set_clk (flush_evbuf s) r) c_LB t0) c_LB t0') c_RB t1') c_RB t1)
        | _ => RNoClock
        end
      else if evlen s + 24 >=? cap then
        (* the second marker triggers a flush *)
        match clk s with
        | t0' :: t1' :: r =>
          ROk (pushm (pushm (pushm (set_clk (flush_evbuf (pushm s c_LB t0)) r) c_RB t1) c_LB t0') c_RB t1')
        | _ => RNoClock
        end
      else ROk (pushm (pushm s c_LB t0) c_RB t1).

  Lemma afe_fits f t0 t1 s :
    ready s = true -> 0 <= evlen s -> evlen s + 24 < cap ->
    add_flush_events fx cap (ovni_ev_add fx cap (S f)) t0 t1 s = ROk (pushm (pushm s c_LB t0) c_RB t1).
  Proof.
    intros R L0 L. unfold add_flush_events.
    change (c_sizeof_struct_ovni_ev_header + c_sizeof_struct_ovni_ev_header) with 24.
    destruct (evlen s + 24 >=? cap) eqn:E; [lia|]. rewrite andb_false_r.
    apply markers_fit; assumption.
  Qed.

  (* a 12-byte marker that does not fit: flush, then the marker, then that flush's own markers *)
  Lemma marker_flushes f v t s :
    ready s = true -> 0 <= evlen s -> evlen s + 12 >= cap ->
    ovni_ev_add fx cap (S (S f)) (marker v t) s =
    match clk s with
    | t0 :: t1 :: r => ROk (pushm (pushm (pushm (set_clk (flush_evbuf s) r) v t) c_LB t0) c_RB t1)
    | _ => RNoClock
    end.
  Proof.
    intros R L0 L. rewrite ev_add_S. rewrite R. cbn [negb]. unfold add_with_flush.
    rewrite marker_size. destruct (evlen s + 12 >=? cap) eqn:E; [|lia].
    unfold clock_now. destruct (clk s) as [|t0 [|t1 r]]; [reflexivity | reflexivity |].
    cbn [rbind clk set_clk flush_evbuf appends].
    rewrite afe_fits; [reflexivity | cbn; exact R | cbn; lia | cbn; lia].
  Qed.

  Lemma afe_eq f t0 t1 s :
    ready s = true -> 0 <= evlen s < cap ->
    add_flush_events fx cap (ovni_ev_add fx cap (S (S f))) t0 t1 s = big_afe t0 t1 s.
  Proof.
    intros R L. unfold add_flush_events, big_afe.
    change (c_sizeof_struct_ovni_ev_header + c_sizeof_struct_ovni_ev_header) with 24.
    destruct fx eqn:FX; cbn [andb].
    - destruct (evlen s + 24 >=? cap) eqn:E.
      + unfold clock_now. cbn [clk flush_evbuf]. destruct (clk s) as [|t r]; [reflexivity|].
        cbn [rbind]. rewrite <- FX. rewrite markers_fit; [reflexivity | cbn; exact R | cbn; lia | cbn; lia].
      + rewrite <- FX. apply markers_fit; [exact R | lia | lia].
    - rewrite <- FX.
      destruct (evlen s + 12 >=? cap) eqn:E12.
      + rewrite marker_flushes by (try assumption; lia).
        destruct (clk s) as [|t0' [|t1' r]]; [reflexivity | reflexivity |].
        cbn [rbind]. rewrite marker_fits; [reflexivity | cbn; exact R | cbn; lia].
      + rewrite marker_fits by (try assumption; lia). cbn [rbind].
        destruct (evlen s + 24 >=? cap) eqn:E24.
        * rewrite marker_flushes; [reflexivity | cbn; exact R | cbn; lia | cbn; lia].
        * rewrite marker_fits; [reflexivity | cbn; exact R | cbn; lia].
  Qed.

  (* add_with_flush without fuel *)
  Definition big_awf (chunks : list (list Z * Z)) (total : Z) (s : rt) : rres rt :=
    if evlen s + total >=? cap then
      match clk s with
      | t0 :: t1 :: r => big_afe t0 t1 (appends (set_clk (flush_evbuf s) r) chunks)
      | _ => RNoClock
      end
    else ROk (appends s chunks).

  Lemma awf_eq f chunks total s :
    ready s = true -> total = fold_right Z.add 0 (map snd chunks) -> 0 <= total < cap ->
    add_with_flush fx cap (ovni_ev_add fx cap (S (S f))) chunks total s = big_awf chunks total s.
  Proof.
    intros R T L. unfold add_with_flush, big_awf.
    destruct (evlen s + total >=? cap) eqn:E; [|reflexivity].
    unfold clock_now. destruct (clk s) as [|t0 [|t1 r]]; [reflexivity | reflexivity |].
    cbn [rbind clk set_clk flush_evbuf].
    apply afe_eq.
    - rewrite ready_appends. exact R.
    - rewrite evlen_appends. cbn [evlen set_clk flush_evbuf]. lia.
  Qed.

  Lemma ev_add_eq f ev s size :
    ready s = true -> size = cast_uint64 (ovni_ev_size ev) -> 0 <= size < cap ->
    ovni_ev_add fx cap (S (S (S f))) ev s = big_awf [(ev_image ev size, size)] size s.
  Proof.
    intros R -> L. rewrite ev_add_S. rewrite R. cbn [negb].
    apply awf_eq; [exact R | cbn; lia | exact L].
  Qed.
End NoFuel.

(* ------------------------------------------------------------------ part 2: states as lists of tagged events *)

Definition enc (l : list (tag * uev)) : list Z := flat_map encode (map snd l).
Definition marker_ev (v t : Z) : uev := mkU false c_O c_F v t [].
Definition OFb (t : Z) : tag * uev := (Lib, marker_ev c_LB t).
Definition OFe (t : Z) : tag * uev := (Lib, marker_ev c_RB t).

Lemma enc_app a b : enc (a ++ b) = enc a ++ enc b.
Proof. unfold enc. rewrite map_app, flat_map_app. reflexivity. Qed.

Lemma enc_one te : enc [te] = encode (snd te).
Proof. unfold enc. cbn [map flat_map]. apply app_nil_r. Qed.

Lemma enc_cons te l : enc (te :: l) = encode (snd te) ++ enc l.
Proof. reflexivity. Qed.

Lemma MB_enc v t : MB v t = encode (marker_ev v t).
Proof.
  unfold MB.
  assert (B : built [] (marker v t)).
  { unfold built, marker. cbn [h_flags ev_payload ovni_ev_set_mcv ovni_ev_set_clock ev_zero]. repeat split. left. reflexivity. }
  pose proof (image_built _ _ B) as I. change (12 + zlength (@nil Z)) with 12 in I. rewrite I.
  reflexivity.
Qed.

Lemma zlength_marker v t : zlength (encode (marker_ev v t)) = 12.
Proof.
  unfold encode, marker_ev. cbn [u_jumbo u_data u_m u_c u_v u_clock].
  rewrite app_nil_r. rewrite zlength_app, zlength_le_bytes. reflexivity.
Qed.

Lemma zlength_encode e : zlength (encode e) = esize e.
Proof.
  unfold encode, esize, HEADER_SIZE. destruct (u_jumbo e).
  - rewrite !zlength_app, !zlength_le_bytes. cbn [zlength fold_left]. lia.
  - rewrite !zlength_app, !zlength_le_bytes. cbn [zlength fold_left]. lia.
Qed.

Lemma buf_bytes_append s b n : buf_bytes (append s b n) = buf_bytes s ++ b.
Proof. unfold buf_bytes. cbn [buf append rev]. rewrite concat_app. cbn [concat]. rewrite app_nil_r. reflexivity. Qed.
Lemma disk_bytes_append s b n : disk_bytes (append s b n) = disk_bytes s.
Proof. reflexivity. Qed.
Lemma buf_bytes_flush s : buf_bytes (flush_evbuf s) = [].
Proof. reflexivity. Qed.
Lemma disk_bytes_flush s : disk_bytes (flush_evbuf s) = disk_bytes s ++ buf_bytes s.
Proof. unfold disk_bytes. cbn [wr flush_evbuf rev]. rewrite concat_app. cbn [concat]. rewrite app_nil_r. reflexivity. Qed.
Lemma buf_bytes_set_clk s c : buf_bytes (set_clk s c) = buf_bytes s.
Proof. reflexivity. Qed.
Lemma disk_bytes_set_clk s c : disk_bytes (set_clk s c) = disk_bytes s.
Proof. reflexivity. Qed.
Lemma clk_set_clk s c : clk (set_clk s c) = c.
Proof. reflexivity. Qed.
Lemma clk_flush s : clk (flush_evbuf s) = clk s.
Proof. reflexivity. Qed.
Lemma evlen_flush s : evlen (flush_evbuf s) = 0.
Proof. reflexivity. Qed.
Lemma buf_bytes_appends chunks : forall s, buf_bytes (appends s chunks) = buf_bytes s ++ concat (map fst chunks).
Proof.
  induction chunks as [|[b n] r IH]; intros s; cbn [appends map concat fst].
  - rewrite app_nil_r. reflexivity.
  - rewrite IH, buf_bytes_append, app_assoc. reflexivity.
Qed.
Lemma disk_bytes_appends chunks : forall s, disk_bytes (appends s chunks) = disk_bytes s.
Proof. induction chunks as [|[b n] r IH]; intros s; cbn [appends]; [reflexivity | rewrite IH; reflexivity]. Qed.

Lemma buf_bytes_pushm s v t : buf_bytes (pushm s v t) = buf_bytes s ++ encode (marker_ev v t).
Proof. unfold pushm. rewrite buf_bytes_append, MB_enc. reflexivity. Qed.
Lemma disk_bytes_pushm s v t : disk_bytes (pushm s v t) = disk_bytes s.
Proof. reflexivity. Qed.
Lemma evlen_pushm s v t : evlen (pushm s v t) = evlen s + 12.
Proof. reflexivity. Qed.
Lemma ready_pushm s v t : ready (pushm s v t) = ready s.
Proof. reflexivity. Qed.
Lemma clk_pushm s v t : clk (pushm s v t) = clk s.
Proof. reflexivity. Qed.

Global Opaque pushm.

#[export] Hint Rewrite buf_bytes_pushm disk_bytes_pushm evlen_pushm ready_pushm clk_pushm
  buf_bytes_append disk_bytes_append evlen_append ready_append clk_append
  buf_bytes_flush disk_bytes_flush evlen_flush ready_flush clk_flush
  buf_bytes_set_clk disk_bytes_set_clk evlen_set_clk ready_set_clk clk_set_clk
  buf_bytes_appends disk_bytes_appends evlen_appends ready_appends clk_appends : st.

Definition Rel (cap : Z) (s : rt) (dl bl : list (tag * uev)) : Prop :=
  ready s = true /\
  disk_bytes s = STREAM_HEADER ++ enc dl /\
  buf_bytes s = enc bl /\
  evlen s = zlength (enc bl) /\
  evlen s < cap.

Definition astate : Type := (list (tag * uev) * list (tag * uev) * list Z)%type.

(* what adding one event does to (disk events, buffer events, remaining clock) *)
Inductive Trans (fx : bool) (te : tag * uev) : astate -> astate -> Prop :=
| T_fit dl bl c :
    Trans fx te (dl, bl, c) (dl, bl ++ [te], c)
| T_flush1 dl bl t0 t1 r :
    Trans fx te (dl, bl, t0 :: t1 :: r) (dl ++ bl, [te; OFb t0; OFe t1], r)
| T_flush2 dl bl t0 t1 t2 r : fx = true ->
    Trans fx te (dl, bl, t0 :: t1 :: t2 :: r) (dl ++ bl ++ [te], [OFb t0; OFe t2], r)
| T_old_nest dl bl t0 t1 t0' t1' r : fx = false ->
    Trans fx te (dl, bl, t0 :: t1 :: t0' :: t1' :: r) (dl ++ bl ++ [te], [OFb t0; OFb t0'; OFe t1'; OFe t1], r)
| T_old_two dl bl t0 t1 t0' t1' r : fx = false ->
    Trans fx te (dl, bl, t0 :: t1 :: t0' :: t1' :: r) (dl ++ bl ++ [te; OFb t0], [OFe t1; OFb t0'; OFe t1'], r).

Ltac rel_tac :=
  unfold Rel; autorewrite with st;
  rewrite ?enc_app, ?enc_cons, ?enc_one; cbn [snd OFb OFe enc flat_map map];
  rewrite ?zlength_app, ?zlength_marker, ?(@zlength_nil Z), ?app_nil_r, <- ?app_assoc.

Lemma awf_trans fx cap s dl bl chunks total te s' :
  64 <= cap ->
  Rel cap s dl bl ->
  concat (map fst chunks) = encode (snd te) ->
  total = fold_right Z.add 0 (map snd chunks) ->
  total = zlength (encode (snd te)) ->
  total < cap ->
  big_awf fx cap chunks total s = ROk s' ->
  exists dl' bl', Rel cap s' dl' bl' /\ Trans fx te (dl, bl, clk s) (dl', bl', clk s').
Proof.
  intros Hcap (R & D & B & EL & LC) CC TS TZ TL H.
  pose proof (zlength_nonneg (enc bl)) as NN.
  pose proof (zlength_nonneg (encode (snd te))) as NE.
  unfold big_awf in H. destruct (evlen s + total >=? cap) eqn:E.
  2:{ inversion H; subst s'; clear H. exists dl, (bl ++ [te]). split.
      - rel_tac. rewrite R, D, B, CC, <- TS. repeat split; lia.
      - autorewrite with st. constructor. }
  destruct (clk s) as [|t0 [|t1 r]] eqn:EC; try discriminate.
  unfold big_afe in H. autorewrite with st in H. cbn [Z.add] in H.
  rewrite <- TS in H.
  destruct fx eqn:FX.
  - destruct (total + 24 >=? cap) eqn:E24.
    + destruct r as [|t2 r']; [discriminate|]. inversion H; subst s'; clear H.
      exists (dl ++ bl ++ [te]), [OFb t0; OFe t2]. split.
      * rel_tac. rewrite R, D, B, CC. repeat split; try lia; try (rewrite <- ?app_assoc; reflexivity).
      * autorewrite with st. constructor. reflexivity.
    + inversion H; subst s'; clear H.
      exists (dl ++ bl), [te; OFb t0; OFe t1]. split.
      * rel_tac. rewrite R, D, B, CC, <- TS. repeat split; try lia; try (rewrite <- ?app_assoc; reflexivity).
      * autorewrite with st. constructor.
  - destruct (total + 12 >=? cap) eqn:E12.
    + destruct r as [|t0' [|t1' r']]; try discriminate. inversion H; subst s'; clear H.
      exists (dl ++ bl ++ [te]), [OFb t0; OFb t0'; OFe t1'; OFe t1]. split.
      * rel_tac. rewrite R, D, B, CC. repeat split; try lia; try (rewrite <- ?app_assoc; reflexivity).
      * autorewrite with st. constructor. reflexivity.
    + destruct (total + 24 >=? cap) eqn:E24.
      * destruct r as [|t0' [|t1' r']]; try discriminate. inversion H; subst s'; clear H.
        exists (dl ++ bl ++ [te; OFb t0]), [OFe t1; OFb t0'; OFe t1']. split.
        -- rel_tac. rewrite R, D, B, CC. repeat split; try lia; try (rewrite <- ?app_assoc; reflexivity).
        -- autorewrite with st. apply T_old_two. reflexivity.
      * inversion H; subst s'; clear H.
        exists (dl ++ bl), [te; OFb t0; OFe t1]. split.
        -- rel_tac. rewrite R, D, B, CC, <- TS. repeat split; try lia; try (rewrite <- ?app_assoc; reflexivity).
        -- autorewrite with st. constructor.
Qed.

(* ------------------------------------------------------------------ the API calls as transitions *)

Lemma Rel_set_clk cap s dl bl c : Rel cap s dl bl -> Rel cap (set_clk s c) dl bl.
Proof. unfold Rel. autorewrite with st. tauto. Qed.

Lemma clock_now_cons s t r : clk s = t :: r -> clock_now s = ROk (t, set_clk s r).
Proof. intros H. unfold clock_now. rewrite H. reflexivity. Qed.

Lemma clock_now_nil s : clk s = [] -> clock_now s = RNoClock.
Proof. intros H. unfold clock_now. rewrite H. reflexivity. Qed.

(* a normal event built through the API, then ovni_ev_add *)
Lemma add_normal fx cap s dl bl m c v chunks ev t s' :
  64 <= cap -> Rel cap s dl bl ->
  build m c v chunks = Ret ev -> chunks_okb chunks = true ->
  ovni_ev_add fx cap FUEL (ovni_ev_set_clock ev t) s = ROk s' ->
  exists dl' bl', Rel cap s' dl' bl' /\
    Trans fx (User, mkU false m c v t (concat chunks)) (dl, bl, clk s) (dl', bl', clk s').
Proof.
  intros Hcap RL BE CO H.
  destruct (image_normal m c v t chunks ev BE CO) as [SZ IM]. cbn zeta in SZ, IM.
  set (e := mkU false m c v t (concat chunks)) in *.
  assert (Hsz : 12 <= esize e <= 28).
  { unfold esize, e, HEADER_SIZE. cbn [u_jumbo u_data]. unfold chunks_okb in CO.
    pose proof (zlength_nonneg (concat chunks)). lia. }
  change FUEL with (S (S (S 1))) in H.
  rewrite (ev_add_eq fx cap Hcap 1%nat _ s (esize e)) in H; [| apply RL | symmetry; exact SZ | lia].
  rewrite SZ in IM. rewrite IM in H.
  eapply (awf_trans fx cap s dl bl _ _ (User, e)); [exact Hcap | exact RL | | | | | exact H].
  - cbn [map fst concat snd]. apply app_nil_r.
  - cbn [map snd fold_right]. lia.
  - cbn [snd]. symmetry. apply zlength_encode.
  - lia.
Qed.

Lemma add_jumbo fx cap s dl bl m c v t data s' :
  64 <= cap -> Rel cap s dl bl -> zlength data < 2 ^ 32 ->
  ovni_ev_add_jumbo fx cap FUEL (ovni_ev_set_clock (ovni_ev_set_mcv ev_zero m c v) t) data s = ROk s' ->
  16 + zlength data < cap /\
  exists dl' bl', Rel cap s' dl' bl' /\
    Trans fx (User, mkU true m c v t data) (dl, bl, clk s) (dl', bl', clk s').
Proof.
  intros Hcap RL Hn H.
  pose proof (zlength_nonneg data) as NN.
  destruct (image_jumbo m c v t (zlength data) ltac:(lia)) as [PS (ev1 & PA & SZ & IM)]. cbn zeta in PS, PA.
  unfold ovni_ev_add_jumbo in H.
  destruct RL as (R & RL'). rewrite R in H. cbn [negb] in H.
  rewrite PS in H. cbn [Z.eqb negb] in H. rewrite PA in H. rewrite SZ in H.
  destruct (16 + zlength data >=? cap) eqn:E; [discriminate|].
  split; [lia|].
  change FUEL with (S (S 2)) in H.
  rewrite (awf_eq fx cap Hcap 2%nat) in H; [| exact R | cbn [map snd fold_right]; lia | lia].
  rewrite IM in H.
  set (e := mkU true m c v t data).
  eapply (awf_trans fx cap s dl bl _ _ (User, e)); [exact Hcap | split; [exact R | exact RL'] | | | | | exact H].
  - cbn [map fst concat snd]. rewrite app_nil_r. unfold encode, e. cbn [u_jumbo u_m u_c u_v u_clock u_data].
    rewrite <- !app_assoc. reflexivity.
  - cbn [map snd fold_right]. lia.
  - cbn [snd]. rewrite zlength_encode. unfold esize, e, HEADER_SIZE. cbn [u_jumbo u_data]. lia.
  - lia.
Qed.

Lemma jumbo_too_large fx cap s m c v t data :
  ready s = true -> zlength data < 2 ^ 32 -> 16 + zlength data >= cap ->
  ovni_ev_add_jumbo fx cap FUEL (ovni_ev_set_clock (ovni_ev_set_mcv ev_zero m c v) t) data s = RAbort.
Proof.
  intros R Hn L. pose proof (zlength_nonneg data) as NN.
  destruct (image_jumbo m c v t (zlength data) ltac:(lia)) as [PS (ev1 & PA & SZ & IM)]. cbn zeta in PS, PA.
  unfold ovni_ev_add_jumbo. rewrite R. cbn [negb]. rewrite PS. cbn [Z.eqb negb]. rewrite PA, SZ.
  destruct (16 + zlength data >=? cap) eqn:E; [reflexivity | lia].
Qed.

Lemma flush_trans fx cap s dl bl s' :
  64 <= cap -> Rel cap s dl bl ->
  ovni_flush fx cap FUEL s = ROk s' ->
  exists t0 t1 r, clk s = t0 :: t1 :: r /\ clk s' = r /\ Rel cap s' (dl ++ bl) [OFb t0; OFe t1].
Proof.
  intros Hcap (R & D & B & EL & LC) H. unfold ovni_flush in H. rewrite R in H. cbn [negb] in H.
  unfold clock_now in H. destruct (clk s) as [|t0 [|t1 r]] eqn:EC; try discriminate.
  cbn [rbind clk set_clk flush_evbuf] in H.
  change FUEL with (S 3) in H.
  rewrite (markers_fit fx cap 3%nat) in H; [| exact R | cbn; lia | cbn; lia].
  inversion H; subst s'; clear H.
  exists t0, t1, r. split; [reflexivity|]. split; [reflexivity|].
  rel_tac. rewrite R, D, B. repeat split; try lia; try (rewrite <- ?app_assoc; reflexivity).
Qed.

Definition mark_v (o : op) : option (Z * Z * Z) :=
  match o with
  | MarkPush ty va => Some (c_LB, ty, va)
  | MarkPop ty va => Some (c_RB, ty, va)
  | MarkSet ty va => Some (c_EQ, ty, va)
  | _ => None
  end.

Definition ev_of (o : op) (t : Z) : option uev :=
  match o with
  | Emit m c v chunks => Some (mkU false m c v t (concat chunks))
  | JumboEmit m c v data => Some (mkU true m c v t data)
  | MarkPush ty va => Some (mkU false c_O c_M c_LB t (concat (mark_payload ty va)))
  | MarkPop ty va => Some (mkU false c_O c_M c_RB t (concat (mark_payload ty va)))
  | MarkSet ty va => Some (mkU false c_O c_M c_EQ t (concat (mark_payload ty va)))
  | Flush | Free => None
  end.

Inductive AStep (fx : bool) : op -> astate * list uev -> astate * list uev -> Prop :=
| A_event o e t dl bl r dl' bl' r' log :
    ev_of o t = Some e -> Trans fx (User, e) (dl, bl, r) (dl', bl', r') ->
    AStep fx o ((dl, bl, t :: r), log) ((dl', bl', r'), log ++ [e])
| A_flush dl bl t0 t1 r log :
    AStep fx Flush ((dl, bl, t0 :: t1 :: r), log) ((dl ++ bl, [OFb t0; OFe t1], r), log).

Lemma mark_chunks_ok ty va : chunks_okb (mark_payload ty va) = true.
Proof.
  unfold chunks_okb, mark_payload. cbn [forallb concat]. rewrite !zlength_app, !zlength_le_bytes. reflexivity.
Qed.

Lemma mark_trans fx cap s dl bl v ty va log s' log' :
  64 <= cap -> Rel cap s dl bl ->
  mark fx cap v ty va (s, log) = ROk (s', log') ->
  va <> 0 /\
  exists t r dl' bl', clk s = t :: r /\ log' = log ++ [mkU false c_O c_M v t (concat (mark_payload ty va))] /\
    Rel cap s' dl' bl' /\
    Trans fx (User, mkU false c_O c_M v t (concat (mark_payload ty va))) (dl, bl, r) (dl', bl', clk s').
Proof.
  intros Hcap RL H. unfold mark in H.
  destruct (va =? 0) eqn:E0; [discriminate|]. split; [lia|].
  unfold clock_now in H. destruct (clk s) as [|t r] eqn:EC; [discriminate|]. cbn [rbind] in H.
  destruct (build_ok c_O c_M v (mark_payload ty va) (mark_chunks_ok ty va)) as (ev & BE & _).
  rewrite BE in H.
  destruct (ovni_ev_add fx cap FUEL (ovni_ev_set_clock ev t) (set_clk s r)) as [s2| | |] eqn:EA; try discriminate.
  cbn [rbind] in H. inversion H; subst s' log'; clear H.
  destruct (add_normal fx cap _ dl bl _ _ _ _ _ t s2 Hcap (Rel_set_clk cap s dl bl r RL) BE (mark_chunks_ok ty va) EA)
    as (dl' & bl' & RL' & TR).
  exists t, r, dl', bl'. rewrite clk_set_clk in TR.
  split; [reflexivity|]. split; [reflexivity|]. split; [exact RL' | exact TR].
Qed.

Theorem step_astep fx cap s dl bl o log s' log' :
  64 <= cap -> Rel cap s dl bl -> op_wfb o = true -> o <> Free ->
  step fx cap o (s, log) = ROk (s', log') ->
  api_okb cap o = true /\
  exists dl' bl', Rel cap s' dl' bl' /\ AStep fx o ((dl, bl, clk s), log) ((dl', bl', clk s'), log').
Proof.
  intros Hcap RL WF NF H. destruct o as [m c v chunks | m c v data | | ty va | ty va | ty va | ].
  - (* Emit *)
    cbn [step] in H. cbn [api_okb].
    destruct (chunks_okb chunks) eqn:CO.
    2:{ rewrite (build_die m c v chunks CO) in H. discriminate. }
    split; [reflexivity|].
    destruct (build_ok m c v chunks CO) as (ev & BE & _). rewrite BE in H.
    unfold clock_now in H. destruct (clk s) as [|t r] eqn:EC; [discriminate|]. cbn [rbind] in H.
    destruct (ovni_ev_add fx cap FUEL (ovni_ev_set_clock ev t) (set_clk s r)) as [s2| | |] eqn:EA; try discriminate.
    cbn [rbind] in H. inversion H; subst s' log'; clear H.
    destruct (add_normal fx cap _ dl bl _ _ _ _ _ t s2 Hcap (Rel_set_clk cap s dl bl r RL) BE CO EA) as (dl' & bl' & RL' & TR).
    exists dl', bl'. split; [exact RL'|]. rewrite clk_set_clk in TR.
    apply A_event; [reflexivity | exact TR].
  - (* JumboEmit *)
    cbn [step] in H. cbn [api_okb op_wfb] in *.
    unfold clock_now in H. destruct (clk s) as [|t r] eqn:EC; [discriminate|]. cbn [rbind] in H.
    destruct (ovni_ev_add_jumbo fx cap FUEL _ data (set_clk s r)) as [s2| | |] eqn:EA; try discriminate.
    cbn [rbind] in H. inversion H; subst s' log'; clear H.
    destruct (add_jumbo fx cap _ dl bl m c v t data s2 Hcap (Rel_set_clk cap s dl bl r RL) ltac:(lia) EA) as (L & dl' & bl' & RL' & TR).
    split; [lia|].
    exists dl', bl'. split; [exact RL'|]. rewrite clk_set_clk in TR.
    apply A_event; [reflexivity | exact TR].
  - (* Flush *)
    cbn [step] in H. split; [reflexivity|].
    destruct (ovni_flush fx cap FUEL s) as [s2| | |] eqn:EF; try discriminate.
    cbn [rbind] in H. inversion H; subst s' log'; clear H.
    destruct (flush_trans fx cap s dl bl s2 Hcap RL EF) as (t0 & t1 & r & EC & EC' & RL').
    exists (dl ++ bl), [OFb t0; OFe t1]. split; [exact RL'|]. rewrite EC, EC'. apply A_flush.
  - cbn [step] in H. destruct (mark_trans fx cap s dl bl _ ty va log s' log' Hcap RL H) as (NZ & t & r & dl' & bl' & EC & -> & RL' & TR).
    split; [cbn [api_okb]; lia|]. exists dl', bl'. split; [exact RL'|]. rewrite EC. apply A_event; [reflexivity | exact TR].
  - cbn [step] in H. destruct (mark_trans fx cap s dl bl _ ty va log s' log' Hcap RL H) as (NZ & t & r & dl' & bl' & EC & -> & RL' & TR).
    split; [cbn [api_okb]; lia|]. exists dl', bl'. split; [exact RL'|]. rewrite EC. apply A_event; [reflexivity | exact TR].
  - cbn [step] in H. destruct (mark_trans fx cap s dl bl _ ty va log s' log' Hcap RL H) as (NZ & t & r & dl' & bl' & EC & -> & RL' & TR).
    split; [cbn [api_okb]; lia|]. exists dl', bl'. split; [exact RL'|]. rewrite EC. apply A_event; [reflexivity | exact TR].
  - congruence.
Qed.

(* ------------------------------------------------------------------ part 3: runs *)

Inductive ASteps (fx : bool) : list op -> astate * list uev -> astate * list uev -> Prop :=
| AS_nil x : ASteps fx [] x x
| AS_cons o ops x y z : AStep fx o x y -> ASteps fx ops y z -> ASteps fx (o :: ops) x z.

Definition is_free (o : op) : bool := match o with Free => true | _ => false end.

Lemma run_from_asteps fx cap : 64 <= cap -> forall ops s log dl bl s' log',
  Rel cap s dl bl -> forallb op_wfb ops = true -> existsb is_free ops = false ->
  run_from fx cap ops (s, log) = ROk (s', log') ->
  forallb (api_okb cap) ops = true /\
  exists dl' bl', Rel cap s' dl' bl' /\ ASteps fx ops ((dl, bl, clk s), log) ((dl', bl', clk s'), log').
Proof.
  intros Hcap. induction ops as [|o ops IH]; intros s log dl bl s' log' RL WF NF H.
  - cbn [run_from] in H. inversion H; subst. split; [reflexivity|]. exists dl, bl. split; [exact RL | constructor].
  - cbn [run_from] in H. cbn [forallb existsb] in WF, NF.
    apply andb_prop in WF. destruct WF as [WF1 WF2]. apply orb_false_elim in NF. destruct NF as [NF1 NF2].
    destruct (step fx cap o (s, log)) as [[s1 log1]| | |] eqn:ES; try discriminate. cbn [rbind] in H.
    assert (NFo : o <> Free) by (intros ->; discriminate).
    destruct (step_astep fx cap s dl bl o log s1 log1 Hcap RL WF1 NFo ES) as (AO & dl1 & bl1 & RL1 & A1).
    destruct (IH s1 log1 dl1 bl1 s' log' RL1 WF2 NF2 H) as (AO2 & dl' & bl' & RL' & A2).
    split; [cbn [forallb]; rewrite AO, AO2; reflexivity|].
    exists dl', bl'. split; [exact RL'|]. econstructor; eassumption.
Qed.

Lemma Rel_init cap clock : 64 <= cap -> Rel cap (thread_init clock) [] [].
Proof.
  intros Hcap. unfold Rel, thread_init. autorewrite with st.
  cbn [ready evlen buf_bytes disk_bytes buf wr rev concat app enc map flat_map].
  repeat split; try lia.
Qed.

Lemma clk_init clock : clk (thread_init clock) = clock.
Proof. reflexivity. Qed.

(* --- shape of a transition *)

Definition lib_ok (te : tag * uev) : Prop := is_user te = false -> is_markerb (snd te) = true.
Definition u64 (t : Z) : Prop := 0 <= t < 2 ^ 64.
Definition is_lib_marker (pre : list Z) (x : tag * uev) : Prop :=
  exists v t, x = (Lib, marker_ev v t) /\ (v = c_LB \/ v = c_RB) /\ In t pre.

Lemma Trans_shape fx te dl bl c dl' bl' c' :
  Trans fx te (dl, bl, c) (dl', bl', c') ->
  exists libs pre, dl' ++ bl' = (dl ++ bl) ++ te :: libs /\ c = pre ++ c' /\ Forall (is_lib_marker pre) libs.
Proof.
  intros T. inversion T; subst; clear T.
  - exists [], []. repeat split; [rewrite app_assoc; reflexivity | constructor].
  - exists [OFb t0; OFe t1], [t0; t1]. repeat split.
    repeat constructor; eexists _, _; (split; [reflexivity|]); cbn; tauto.
  - exists [OFb t0; OFe t2], [t0; t1; t2]. repeat split; [rewrite <- !app_assoc; reflexivity|].
    repeat constructor; eexists _, _; (split; [reflexivity|]); cbn; tauto.
  - exists [OFb t0; OFb t0'; OFe t1'; OFe t1], [t0; t1; t0'; t1']. repeat split; [rewrite <- !app_assoc; reflexivity|].
    repeat constructor; eexists _, _; (split; [reflexivity|]); cbn; tauto.
  - exists [OFb t0; OFe t1; OFb t0'; OFe t1'], [t0; t1; t0'; t1']. repeat split; [rewrite <- !app_assoc; reflexivity|].
    repeat constructor; eexists _, _; (split; [reflexivity|]); cbn; tauto.
Qed.

(* --- well-formedness of the events *)

Lemma forallb_byte d : forallb byteb d = true <-> Forall byte d.
Proof.
  rewrite forallb_forall, Forall_forall. unfold byteb, byte. split; intros H x Hx; specialize (H x Hx); lia.
Qed.

Lemma wf_intro (j : bool) m c v t d :
  byteb m = true -> byteb c = true -> byteb v = true -> u64 t -> forallb byteb d = true ->
  (if j then zlength d < 2 ^ 32 else zlength d = 0 \/ 2 <= zlength d <= 16) ->
  wf_uev (mkU j m c v t d).
Proof.
  intros Hm Hc Hv Ht Hd Hn. unfold wf_uev, wf_uevb. cbn [u_jumbo u_m u_c u_v u_clock u_data].
  rewrite Hm, Hc, Hv, Hd. unfold u64 in Ht. destruct j; lia.
Qed.

Lemma forallb_concat (P : Z -> bool) chunks :
  forallb (forallb P) chunks = true -> forallb P (concat chunks) = true.
Proof.
  induction chunks as [|ch r IH]; cbn [forallb concat]; [reflexivity|].
  intros H. apply andb_prop in H. destruct H as [H1 H2]. rewrite forallb_app, H1, IH; [reflexivity | exact H2].
Qed.

Lemma chunks_ok_len chunks :
  chunks_okb chunks = true -> zlength (concat chunks) = 0 \/ 2 <= zlength (concat chunks) <= 16.
Proof.
  unfold chunks_okb. intros H. apply andb_prop in H. destruct H as [H1 H2].
  destruct chunks as [|ch r]; [left; reflexivity|]. right.
  cbn [forallb concat] in *. apply andb_prop in H1. destruct H1 as [H1 _].
  rewrite zlength_app in *. pose proof (zlength_nonneg (concat r)). lia.
Qed.

Lemma marker_wf v t : (v = c_LB \/ v = c_RB) -> u64 t -> wf_uev (marker_ev v t).
Proof.
  intros Hv Ht. unfold marker_ev. apply wf_intro; try reflexivity; try exact Ht.
  - destruct Hv as [-> | ->]; reflexivity.
  - left. reflexivity.
Qed.

Lemma marker_is_marker v t : (v = c_LB \/ v = c_RB) -> is_markerb (marker_ev v t) = true.
Proof. intros [-> | ->]; reflexivity. Qed.

Lemma ev_of_wf cap o t e :
  op_wfb o = true -> api_okb cap o = true -> u64 t -> ev_of o t = Some e -> wf_uev e.
Proof.
  intros WF AO Ht E.
  assert (MK : forall v ty va, byteb v = true -> wf_uev (mkU false c_O c_M v t (concat (mark_payload ty va)))).
  { intros v ty va Hv. apply wf_intro; try reflexivity; try assumption.
    - unfold mark_payload. cbn [concat]. rewrite app_nil_r. apply forallb_byte.
      apply Forall_app. split; apply le_bytes_byte.
    - right. pose proof (mark_chunks_ok ty va) as C. apply chunks_ok_len in C.
      unfold mark_payload in *. cbn [concat] in *. rewrite !zlength_app, !zlength_le_bytes in *.
      cbn in *. lia. }
  destruct o; cbn [ev_of] in E; inversion E; subst e; clear E; cbn [op_wfb api_okb] in *.
  Local Opaque byteb.
  - repeat (apply andb_prop in WF; destruct WF as [WF ?]).
    apply wf_intro; try assumption. + apply forallb_concat. assumption. + apply chunks_ok_len. exact AO.
  - repeat (apply andb_prop in WF; destruct WF as [WF ?]).
    apply wf_intro; try assumption. lia.
  - apply MK. reflexivity.
  - apply MK. reflexivity.
  - apply MK. reflexivity.
  Local Transparent byteb.
Qed.

(* --- the C01 invariant *)

Definition Inv1 (st : astate * list uev) : Prop :=
  let '((dl, bl, c), log) := st in
  map snd (filter is_user (dl ++ bl)) = log /\
  Forall lib_ok (dl ++ bl) /\
  Forall wf_uev (map snd (dl ++ bl)) /\
  Forall u64 c.

Lemma libs_facts pre libs :
  Forall u64 pre -> Forall (is_lib_marker pre) libs ->
  filter is_user libs = [] /\ Forall lib_ok libs /\ Forall wf_uev (map snd libs).
Proof.
  intros Hp H. induction H as [|x libs (v & t & -> & Hv & Ht) _ IH].
  - repeat split; constructor.
  - destruct IH as (I1 & I2 & I3). rewrite Forall_forall in Hp. specialize (Hp t Ht).
    cbn [filter is_user fst map snd]. repeat split.
    + exact I1.
    + constructor; [|exact I2]. intros _. cbn [snd]. apply marker_is_marker. exact Hv.
    + constructor; [|exact I3]. apply marker_wf; assumption.
Qed.

Lemma Inv1_event fx e dl bl t r dl' bl' r' log :
  Inv1 ((dl, bl, t :: r), log) -> wf_uev e ->
  Trans fx (User, e) (dl, bl, r) (dl', bl', r') ->
  Inv1 ((dl', bl', r'), log ++ [e]).
Proof.
  intros (U & L & W & C) We T.
  destruct (Trans_shape _ _ _ _ _ _ _ _ T) as (libs & pre & E1 & E2 & LM).
  rewrite E2 in C. apply Forall_cons_iff in C. destruct C as [Ct Cr]. apply Forall_app in Cr. destruct Cr as [Cpre Cr'].
  destruct (libs_facts pre libs Cpre LM) as (F1 & F2 & F3).
  unfold Inv1. rewrite E1. repeat split.
  - rewrite filter_app, map_app, U. cbn [filter is_user fst]. rewrite F1. reflexivity.
  - apply Forall_app. split; [exact L|]. constructor; [|exact F2]. intros Hu. discriminate.
  - rewrite map_app. apply Forall_app. split; [exact W|]. cbn [map snd]. constructor; assumption.
  - exact Cr'.
Qed.

Lemma Inv1_flush dl bl t0 t1 r log :
  Inv1 ((dl, bl, t0 :: t1 :: r), log) -> Inv1 ((dl ++ bl, [OFb t0; OFe t1], r), log).
Proof.
  intros (U & L & W & C).
  apply Forall_cons_iff in C. destruct C as [C0 C']. apply Forall_cons_iff in C'. destruct C' as [C1 C''].
  unfold Inv1. repeat split.
  - rewrite filter_app, map_app, U. cbn. apply app_nil_r.
  - apply Forall_app. split; [exact L|]. repeat constructor.
  - rewrite map_app. apply Forall_app. split; [exact W|]. cbn [map snd OFb OFe].
    repeat constructor; apply marker_wf; auto.
  - exact C''.
Qed.

Lemma Inv1_steps fx cap ops x y :
  ASteps fx ops x y -> forallb op_wfb ops = true -> forallb (api_okb cap) ops = true -> Inv1 x -> Inv1 y.
Proof.
  induction 1 as [|o ops x y z A _ IH]; intros WF AO I; [exact I|].
  cbn [forallb] in WF, AO. apply andb_prop in WF. destruct WF as [WF1 WF2].
  apply andb_prop in AO. destruct AO as [AO1 AO2].
  apply IH; try assumption. clear IH.
  inversion A; subst; clear A.
  - eapply Inv1_event; [exact I | | eassumption].
    destruct I as (_ & _ & _ & C). apply Forall_cons_iff in C. destruct C as [C0 _].
    eapply ev_of_wf; eassumption.
  - apply Inv1_flush. exact I.
Qed.

Lemma fidelity_of_inv log l :
  map snd (filter is_user l) = log -> Forall lib_ok l -> Forall wf_uev (map snd l) ->
  fidelity log (STREAM_HEADER ++ enc l).
Proof.
  intros U L W. exists l. split; [reflexivity|]. split; [exact U|]. split; [exact L|]. split; [exact W|].
  apply parse_stream_encode. exact W.
Qed.

Definition clock_u64b (clock : list Z) : bool := forallb (fun t => (0 <=? t) && (t <? 2 ^ 64)) clock.

Lemma clock_u64 clock : clock_u64b clock = true -> Forall u64 clock.
Proof.
  unfold clock_u64b. rewrite forallb_forall, Forall_forall. intros H t Ht. specialize (H t Ht). unfold u64. lia.
Qed.

(* everything one needs to know about a successful run without ovni_thread_free *)
Lemma run_summary fx cap ops clock s log :
  64 <= cap -> forallb op_wfb ops = true -> existsb is_free ops = false -> clock_u64b clock = true ->
  run fx cap ops clock = ROk (s, log) ->
  forallb (api_okb cap) ops = true /\
  exists dl bl, Rel cap s dl bl /\ ASteps fx ops (([], [], clock), []) ((dl, bl, clk s), log) /\
                Inv1 ((dl, bl, clk s), log).
Proof.
  intros Hcap WF NF CK H. unfold run in H.
  destruct (run_from_asteps fx cap Hcap ops _ _ [] [] s log (Rel_init cap clock Hcap) WF NF H) as (AO & dl & bl & RL & AS).
  rewrite clk_init in AS. split; [exact AO|]. exists dl, bl. split; [exact RL|]. split; [exact AS|].
  eapply Inv1_steps; try eassumption.
  unfold Inv1. cbn. repeat split; try constructor. apply clock_u64. exact CK.
Qed.

Theorem fidelity_no_free fx cap ops clock s log :
  64 <= cap -> forallb op_wfb ops = true -> existsb is_free ops = false -> clock_u64b clock = true ->
  run fx cap ops clock = ROk (s, log) ->
  fidelity log (disk_bytes s ++ buf_bytes s).
Proof.
  intros Hcap WF NF CK H.
  destruct (run_summary fx cap ops clock s log Hcap WF NF CK H) as (_ & dl & bl & (R & D & B & _) & _ & (U & L & W & _)).
  rewrite D, B, <- app_assoc, <- enc_app. apply fidelity_of_inv; assumption.
Qed.

Lemma run_from_app fx cap a : forall b st,
  run_from fx cap (a ++ b) st = rbind (run_from fx cap a st) (run_from fx cap b).
Proof.
  induction a as [|o a IH]; intros b st; cbn [app run_from rbind]; [reflexivity|].
  destruct (step fx cap o st) as [st1| | |]; cbn [rbind]; [apply IH | reflexivity | reflexivity | reflexivity].
Qed.

(* after ovni_flush(); ovni_thread_free(): the file alone holds every event; nothing is left in memory *)
Theorem fidelity_after_free fx cap ops clock s log :
  64 <= cap -> forallb op_wfb ops = true -> existsb is_free ops = false -> clock_u64b clock = true ->
  run fx cap (ops ++ [Flush; Free]) clock = ROk (s, log) ->
  fidelity log (disk_bytes s) /\ buf_bytes s = [] /\ ready s = false.
Proof.
  intros Hcap WF NF CK H. unfold run in H.
  replace (ops ++ [Flush; Free]) with ((ops ++ [Flush]) ++ [Free]) in H by (rewrite <- app_assoc; reflexivity).
  rewrite run_from_app in H.
  destruct (run_from fx cap (ops ++ [Flush]) (thread_init clock, [])) as [[s1 log1]| | |] eqn:E1; try discriminate.
  cbn [rbind run_from step] in H.
  assert (WF' : forallb op_wfb (ops ++ [Flush]) = true) by (rewrite forallb_app, WF; reflexivity).
  assert (NF' : existsb is_free (ops ++ [Flush]) = false) by (rewrite existsb_app, NF; reflexivity).
  destruct (run_summary fx cap (ops ++ [Flush]) clock s1 log1 Hcap WF' NF' CK E1) as (_ & dl & bl & RL & AS & I).
  (* the last step was the flush: the buffer holds exactly its two markers *)
  assert (LAST : exists dl0 bl0 t0 t1, dl = dl0 ++ bl0 /\ bl = [OFb t0; OFe t1]).
  { clear - AS. remember (([], [], clock), []) as x. clear Heqx. revert x AS.
    induction ops as [|o ops IH]; intros x AS; cbn [app] in AS.
    - inversion AS as [|? ? ? y ? A1 A2]; subst. inversion A2; subst. inversion A1; subst.
      + cbn [ev_of] in *. discriminate.
      + eexists _, _, _, _. split; reflexivity.
    - inversion AS; subst. eapply IH. eassumption. }
  destruct LAST as (dl0 & bl0 & t0 & t1 & -> & ->).
  destruct RL as (R & D & B & _). unfold thread_free in H. rewrite R in H. cbn [negb rbind] in H.
  inversion H; subst s log; clear H.
  split; [|split; reflexivity].
  change (disk_bytes (mkRt false 0 [] (wr s1) (clk s1))) with (disk_bytes s1). rewrite D.
  destruct I as (U & L & W & _).
  apply fidelity_of_inv.
  - rewrite filter_app, map_app in U. cbn in U. rewrite app_nil_r in U. exact U.
  - apply Forall_app in L. tauto.
  - rewrite map_app in W. apply Forall_app in W. tauto.
Qed.

(* ------------------------------------------------------------------ C02: validity (repaired version) *)

Fixpoint sortedZ (l : list Z) : Prop :=
  match l with
  | [] => True
  | x :: r => Forall (Z.le x) r /\ sortedZ r
  end.

Lemma sortedZ_app a : forall b,
  sortedZ (a ++ b) <-> sortedZ a /\ sortedZ b /\ (forall x y, In x a -> In y b -> x <= y).
Proof.
  induction a as [|x a IH]; intros b; cbn [app sortedZ].
  - split; [intros H; repeat split; [exact H | intros ? ? []] | tauto].
  - rewrite IH, Forall_app, !Forall_forall. split.
    + intros ((H1 & H2) & H3 & H4 & H5). repeat split; try assumption.
      intros u w [<- | Hu] Hw; [apply H2; exact Hw | apply H5; assumption].
    + intros ((H1 & H2) & H3 & H4). repeat split; try assumption.
      * intros w Hw. apply H4; [left; reflexivity | exact Hw].
      * intros u w Hu Hw. apply H4; [right; exact Hu | exact Hw].
Qed.

Lemma sortedZ_drop a x b : sortedZ (a ++ x :: b) -> sortedZ (a ++ b).
Proof.
  rewrite !sortedZ_app. cbn [sortedZ]. intros (H1 & (H2 & H3) & H4). repeat split; try assumption.
  intros u w Hu Hw. apply H4; [exact Hu | right; exact Hw].
Qed.

Lemma sortedb_sortedZ l : sortedb l = true -> sortedZ l.
Proof.
  induction l as [|x [|y r] IH]; intros H; cbn [sortedZ]; [exact I | split; [constructor | exact I] |].
  change (sortedb (x :: y :: r)) with ((x <=? y) && sortedb (y :: r)) in H. apply andb_prop in H. destruct H as [H1 H2]. specialize (IH H2).
  split; [|exact IH]. cbn [sortedZ] in IH. destruct IH as [IH1 _].
  constructor; [lia|]. rewrite Forall_forall in *. intros w Hw. specialize (IH1 w Hw). lia.
Qed.

Lemma sortedZ_sortedb l : sortedZ l -> sortedb l = true.
Proof.
  induction l as [|x [|y r] IH]; intros H; [reflexivity | reflexivity |].
  cbn [sortedZ] in H. destruct H as [H1 H2]. change (sortedb (x :: y :: r)) with ((x <=? y) && sortedb (y :: r)).
  apply Forall_cons_iff in H1. destruct H1 as [H1 _]. rewrite IH by exact H2. lia.
Qed.

Lemma flush_scan_app a : forall d b,
  flush_scan d (a ++ b) = match flush_scan d a with Some d' => flush_scan d' b | None => None end.
Proof.
  induction a as [|e a IH]; intros d b; cbn [app flush_scan]; [reflexivity|].
  destruct (is_flush_ev e); [|apply IH].
  destruct (u_v e =? c_LB); [destruct d; [reflexivity | apply IH]|].
  destruct (u_v e =? c_RB); [destruct d; [apply IH | reflexivity] | reflexivity].
Qed.

Definition uclk (te : tag * uev) : Z := u_clock (snd te).

Definition Inv2 (a : astate) : Prop :=
  let '(dl, bl, c) := a in
  sortedZ (map uclk (dl ++ bl) ++ c) /\
  flush_scan false (map snd dl) = Some false /\
  flush_scan false (map snd bl) = Some false.

Lemma scan_pair t0 t1 : flush_scan false [marker_ev c_LB t0; marker_ev c_RB t1] = Some false.
Proof. reflexivity. Qed.

Ltac norm_l := rewrite ?map_app, <- ?app_assoc; cbn [map app uclk snd OFb OFe marker_ev u_clock].
Ltac norm_in H := rewrite ?map_app, <- ?app_assoc in H; cbn [map app uclk snd OFb OFe marker_ev u_clock] in H.

Lemma Inv2_event e dl bl t r dl' bl' r' :
  Inv2 (dl, bl, t :: r) -> u_clock e = t -> is_flush_ev e = false ->
  Trans true (User, e) (dl, bl, r) (dl', bl', r') ->
  Inv2 (dl', bl', r').
Proof.
  intros (S & FD & FB) Ec Ef T. inversion T; subst; clear T; try discriminate; unfold Inv2; norm_in S.
  - (* fits *)
    repeat split.
    + norm_l. exact S.
    + exact FD.
    + rewrite map_app, flush_scan_app, FB. cbn [map snd flush_scan]. rewrite Ef. reflexivity.
  - (* one flush *)
    repeat split.
    + norm_l. exact S.
    + rewrite map_app, flush_scan_app, FD. exact FB.
    + cbn [map snd flush_scan]. rewrite Ef. reflexivity.
  - (* two flushes: the second clock reading t1 is not used *)
    repeat split.
    + norm_l.
      pose proof (sortedZ_drop (map uclk dl ++ map uclk bl ++ [u_clock e; t0]) t1 (t2 :: r')) as G.
      rewrite <- !app_assoc in G. cbn [app] in G. exact (G S).
    + rewrite !map_app. rewrite flush_scan_app, FD. rewrite flush_scan_app, FB.
      cbn [map snd flush_scan]. rewrite Ef. reflexivity.
Qed.

Lemma Inv2_flush dl bl t0 t1 r :
  Inv2 (dl, bl, t0 :: t1 :: r) -> Inv2 (dl ++ bl, [OFb t0; OFe t1], r).
Proof.
  intros (S & FD & FB). unfold Inv2. norm_in S. repeat split.
  - norm_l. exact S.
  - rewrite map_app, flush_scan_app, FD. exact FB.
Qed.

Lemma ev_of_clock o t e : ev_of o t = Some e -> u_clock e = t.
Proof. destruct o; cbn [ev_of]; intros H; inversion H; reflexivity. Qed.

Lemma ev_of_noflush o t e : user_flush_free o = true -> ev_of o t = Some e -> is_flush_ev e = false.
Proof.
  destruct o; cbn [ev_of user_flush_free]; intros F H; inversion H; subst e; clear H;
    unfold is_flush_ev; cbn [u_m u_c]; try reflexivity; lia.
Qed.

Lemma Inv2_steps ops x y :
  ASteps true ops x y -> forallb user_flush_free ops = true -> Inv2 (fst x) -> Inv2 (fst y).
Proof.
  induction 1 as [|o ops x y z A _ IH]; intros UF I; [exact I|].
  cbn [forallb] in UF. apply andb_prop in UF. destruct UF as [UF1 UF2].
  apply IH; [exact UF2|]. clear IH. inversion A; subst; clear A; cbn [fst] in *.
  - eapply Inv2_event; [exact I | eapply ev_of_clock; eassumption | eapply ev_of_noflush; eassumption | eassumption].
  - apply Inv2_flush. exact I.
Qed.

Lemma forallb_wf es : Forall wf_uev es -> forallb wf_uevb es = true.
Proof. intros H. apply forallb_forall. rewrite Forall_forall in H. exact H. Qed.

Lemma valid_of_inv l :
  Forall wf_uev (map snd l) -> sortedZ (map uclk l) -> flush_scan false (map snd l) = Some false ->
  valid_stream (STREAM_HEADER ++ enc l) = true.
Proof.
  intros W S F. unfold valid_stream, enc. rewrite (parse_stream_encode _ W).
  unfold valid_events, flush_okb. rewrite (forallb_wf _ W), F, map_map.
  change (fun x : tag * uev => u_clock (snd x)) with uclk. rewrite (sortedZ_sortedb _ S). reflexivity.
Qed.

Lemma clock_ok_parts clock : clock_okb clock = true -> clock_u64b clock = true /\ sortedZ clock.
Proof.
  unfold clock_okb. intros H. apply andb_prop in H. destruct H as [H1 H2]. split; [exact H1|].
  apply sortedb_sortedZ. exact H2.
Qed.

Lemma run_summary2 cap ops clock s log :
  64 <= cap -> forallb op_wfb ops = true -> existsb is_free ops = false -> clock_okb clock = true ->
  forallb user_flush_free ops = true ->
  run true cap ops clock = ROk (s, log) ->
  exists dl bl, Rel cap s dl bl /\ Inv1 ((dl, bl, clk s), log) /\ Inv2 (dl, bl, clk s) /\
                ASteps true ops (([], [], clock), []) ((dl, bl, clk s), log).
Proof.
  intros Hcap WF NF CK UF H. destruct (clock_ok_parts clock CK) as [CU CS].
  destruct (run_summary true cap ops clock s log Hcap WF NF CU H) as (_ & dl & bl & RL & AS & I1).
  exists dl, bl. split; [exact RL|]. split; [exact I1|]. split; [|exact AS].
  apply (Inv2_steps ops _ _ AS UF). unfold Inv2. cbn [fst app map]. repeat split. exact CS.
Qed.

Theorem valid_no_free cap ops clock s log :
  64 <= cap -> forallb op_wfb ops = true -> existsb is_free ops = false -> clock_okb clock = true ->
  forallb user_flush_free ops = true ->
  run true cap ops clock = ROk (s, log) ->
  valid_stream (disk_bytes s) = true /\ valid_stream (disk_bytes s ++ buf_bytes s) = true.
Proof.
  intros Hcap WF NF CK UF H.
  destruct (run_summary2 cap ops clock s log Hcap WF NF CK UF H) as (dl & bl & (R & D & B & _) & (_ & _ & W & _) & (S & FD & FB) & _).
  rewrite map_app in W. apply Forall_app in W. destruct W as [WD WB].
  apply sortedZ_app in S. destruct S as (S & _ & _).
  split.
  - rewrite D. apply valid_of_inv; [exact WD | | exact FD].
    rewrite map_app in S. apply sortedZ_app in S. tauto.
  - rewrite D, B, <- app_assoc, <- enc_app. apply valid_of_inv.
    + rewrite map_app. apply Forall_app. tauto.
    + exact S.
    + rewrite map_app, flush_scan_app, FD. exact FB.
Qed.

Theorem valid_after_free cap ops clock s log :
  64 <= cap -> forallb op_wfb ops = true -> existsb is_free ops = false -> clock_okb clock = true ->
  forallb user_flush_free ops = true ->
  run true cap (ops ++ [Flush; Free]) clock = ROk (s, log) ->
  valid_stream (disk_bytes s) = true /\ fidelity log (disk_bytes s).
Proof.
  intros Hcap WF NF CK UF H. destruct (clock_ok_parts clock CK) as [CU _].
  split; [|apply (fidelity_after_free true cap ops clock s log Hcap WF NF CU H)].
  unfold run in H.
  replace (ops ++ [Flush; Free]) with ((ops ++ [Flush]) ++ [Free]) in H by (rewrite <- app_assoc; reflexivity).
  rewrite run_from_app in H.
  destruct (run_from true cap (ops ++ [Flush]) (thread_init clock, [])) as [[s1 log1]| | |] eqn:E1; try discriminate.
  cbn [rbind run_from step] in H.
  assert (WF' : forallb op_wfb (ops ++ [Flush]) = true) by (rewrite forallb_app, WF; reflexivity).
  assert (NF' : existsb is_free (ops ++ [Flush]) = false) by (rewrite existsb_app, NF; reflexivity).
  assert (UF' : forallb user_flush_free (ops ++ [Flush]) = true) by (rewrite forallb_app, UF; reflexivity).
  destruct (valid_no_free cap (ops ++ [Flush]) clock s1 log1 Hcap WF' NF' CK UF' E1) as [V _].
  destruct (thread_free s1) as [s2| | |] eqn:TF; try discriminate. cbn [rbind] in H.
  inversion H; subst s2 log1; clear H.
  unfold thread_free in TF. destruct (negb (ready s1)); [discriminate|]. inversion TF; subst s.
  exact V.
Qed.

(* ------------------------------------------------------------------ the version before the repair violates C02 *)

Definition refute_ops : list op := [Emit 79 85 120 []; JumboEmit 79 66 46 (repeat 7 40)].
Definition refute_clock : list Z := [10; 20; 30; 40; 50; 60; 70; 80; 90].

(* a conformant program (init, two events, flush, free; increasing clock) whose stream is invalid:
   the jumbo event of 56 bytes leaves 8 bytes in a 64-byte buffer, the first flush marker flushes
   again and the markers come out nested: OF[ 30, OF[ 50, OF] 60, OF] 40 *)
Theorem valid_refuted :
  exists cap ops clock,
    64 <= cap /\ forallb op_wfb ops = true /\ existsb is_free ops = false /\ clock_okb clock = true /\
    forallb user_flush_free ops = true /\
    match run false cap (ops ++ [Flush; Free]) clock with
    | ROk (s, _) => valid_stream (disk_bytes s) = false
    | _ => False
    end.
Proof.
  exists 64, refute_ops, refute_clock.
  split; [lia|]. split; [vm_compute; reflexivity|]. split; [vm_compute; reflexivity|].
  split; [vm_compute; reflexivity|]. split; [vm_compute; reflexivity|].
  vm_compute. reflexivity.
Qed.

(* ... and the very same program is fine with the repaired version *)
Example refute_ops_repaired :
  match run true 64 (refute_ops ++ [Flush; Free]) refute_clock with
  | ROk (s, _) => valid_stream (disk_bytes s) = true
  | _ => False
  end.
Proof. vm_compute. reflexivity. Qed.

(* ------------------------------------------------------------------ outcomes: no fuel problem, refused calls abort, accepted calls do not *)

Definition ok_or_noclock {A} (r : rres A) : Prop := (exists a, r = ROk a) \/ r = RNoClock.

Lemma big_afe_outcome fx cap t0 t1 s : ok_or_noclock (big_afe fx cap t0 t1 s).
Proof.
  unfold big_afe, ok_or_noclock.
  destruct fx.
  - destruct (evlen s + 24 >=? cap); [|left; eexists; reflexivity].
    destruct (clk s); [right; reflexivity | left; eexists; reflexivity].
  - destruct (evlen s + 12 >=? cap).
    + destruct (clk s) as [|? [|? ?]]; [right; reflexivity | right; reflexivity | left; eexists; reflexivity].
    + destruct (evlen s + 24 >=? cap); [|left; eexists; reflexivity].
      destruct (clk s) as [|? [|? ?]]; [right; reflexivity | right; reflexivity | left; eexists; reflexivity].
Qed.

Lemma big_awf_outcome fx cap chunks total s : ok_or_noclock (big_awf fx cap chunks total s).
Proof.
  unfold big_awf. destruct (evlen s + total >=? cap); [|left; eexists; reflexivity].
  destruct (clk s) as [|? [|? ?]]; [right; reflexivity | right; reflexivity | apply big_afe_outcome].
Qed.

Lemma rbind_outcome {A B} (r : rres A) (f : A -> rres B) :
  ok_or_noclock r -> (forall a, ok_or_noclock (f a)) -> ok_or_noclock (rbind r f).
Proof. intros [[a ->] | ->] Hf; cbn [rbind]; [apply Hf | right; reflexivity]. Qed.

Lemma add_normal_outcome fx cap s dl bl m c v chunks ev t :
  64 <= cap -> Rel cap s dl bl -> build m c v chunks = Ret ev -> chunks_okb chunks = true ->
  ok_or_noclock (ovni_ev_add fx cap FUEL (ovni_ev_set_clock ev t) s).
Proof.
  intros Hcap RL BE CO.
  destruct (image_normal m c v t chunks ev BE CO) as [SZ IM]. cbn zeta in SZ, IM.
  set (e := mkU false m c v t (concat chunks)) in *.
  assert (Hsz : 12 <= esize e <= 28).
  { unfold esize, e, HEADER_SIZE. cbn [u_jumbo u_data]. unfold chunks_okb in CO.
    pose proof (zlength_nonneg (concat chunks)). lia. }
  change FUEL with (S (S (S 1))).
  rewrite (ev_add_eq fx cap Hcap 1%nat _ s (esize e)); [| apply RL | symmetry; exact SZ | lia].
  apply big_awf_outcome.
Qed.

Lemma clock_now_outcome s : ok_or_noclock (clock_now s).
Proof. unfold clock_now. destruct (clk s); [right; reflexivity | left; eexists; reflexivity]. Qed.

Lemma mark_outcome fx cap s dl bl v ty va log :
  64 <= cap -> Rel cap s dl bl ->
  (va <> 0 -> ok_or_noclock (mark fx cap v ty va (s, log))) /\
  (va = 0 -> mark fx cap v ty va (s, log) = RAbort).
Proof.
  intros Hcap RL. unfold mark. split.
  - intros NZ. destruct (va =? 0) eqn:E0; [lia|].
    destruct (build_ok c_O c_M v (mark_payload ty va) (mark_chunks_ok ty va)) as (ev & BE & _).
    unfold clock_now. destruct (clk s) as [|t r]; [right; reflexivity|]. cbn [rbind]. rewrite BE.
    apply rbind_outcome.
    + eapply add_normal_outcome; [exact Hcap | apply Rel_set_clk; exact RL | exact BE | apply mark_chunks_ok].
    + intros a. left. eexists. reflexivity.
  - intros ->. reflexivity.
Qed.

Theorem step_outcome fx cap s dl bl o log :
  64 <= cap -> Rel cap s dl bl -> op_wfb o = true ->
  (api_okb cap o = true -> ok_or_noclock (step fx cap o (s, log))) /\
  (api_okb cap o = false -> clk s <> [] -> step fx cap o (s, log) = RAbort).
Proof.
  intros Hcap RL WF. destruct o as [m c v chunks | m c v data | | ty va | ty va | ty va | ]; cbn [step api_okb].
  - split.
    + intros CO. destruct (build_ok m c v chunks CO) as (ev & BE & _). rewrite BE.
      unfold clock_now. destruct (clk s) as [|t r]; [right; reflexivity|]. cbn [rbind].
      apply rbind_outcome.
      * eapply add_normal_outcome; [exact Hcap | apply Rel_set_clk; exact RL | exact BE | exact CO].
      * intros a. left. eexists. reflexivity.
    + intros CO _. rewrite (build_die m c v chunks CO). reflexivity.
  - cbn [op_wfb] in WF. assert (Hn : zlength data < 2 ^ 32) by lia.
    pose proof (zlength_nonneg data) as NN.
    destruct (image_jumbo m c v 0 (zlength data) ltac:(lia)) as [_ _].
    split.
    + intros L. unfold clock_now. destruct (clk s) as [|t r]; [right; reflexivity|]. cbn [rbind].
      apply rbind_outcome; [|intros a; left; eexists; reflexivity].
      destruct (image_jumbo m c v t (zlength data) ltac:(lia)) as [PS (ev1 & PA & SZ & IM)]. cbn zeta in PS, PA.
      unfold ovni_ev_add_jumbo. destruct RL as (R & _). cbn [ready set_clk]. rewrite R. cbn [negb].
      rewrite PS. cbn [Z.eqb negb]. rewrite PA, SZ.
      destruct (16 + zlength data >=? cap) eqn:E; [lia|].
      change FUEL with (S (S 2)).
      rewrite (awf_eq fx cap Hcap 2%nat); [apply big_awf_outcome | exact R | cbn [map snd fold_right]; lia | lia].
    + intros L NE. unfold clock_now. destruct (clk s) as [|t r]; [congruence|]. cbn [rbind].
      rewrite jumbo_too_large; [reflexivity | apply RL | exact Hn | lia].
  - split; [|discriminate]. intros _.
    apply rbind_outcome; [|intros a; left; eexists; reflexivity].
    destruct RL as (R & _). unfold ovni_flush. rewrite R. cbn [negb].
    unfold clock_now. destruct (clk s) as [|t0 [|t1 r]]; [right; reflexivity | right; reflexivity |].
    cbn [rbind clk set_clk flush_evbuf]. change FUEL with (S 3).
    rewrite (markers_fit fx cap 3%nat); [left; eexists; reflexivity | exact R | cbn; lia | cbn; lia].
  - destruct (mark_outcome fx cap s dl bl c_LB ty va log Hcap RL) as [M1 M2]. split.
    + intros H. apply M1. lia.
    + intros H _. apply M2. lia.
  - destruct (mark_outcome fx cap s dl bl c_RB ty va log Hcap RL) as [M1 M2]. split.
    + intros H. apply M1. lia.
    + intros H _. apply M2. lia.
  - destruct (mark_outcome fx cap s dl bl c_EQ ty va log Hcap RL) as [M1 M2]. split.
    + intros H. apply M1. lia.
    + intros H _. apply M2. lia.
  - split; [|discriminate]. intros _. destruct RL as (R & _). unfold thread_free. rewrite R. cbn [negb rbind].
    left. eexists. reflexivity.
Qed.

(* once the thread is freed every call aborts *)
Theorem use_after_free fx cap s o log :
  ready s = false -> clk s <> [] -> step fx cap o (s, log) = RAbort.
Proof.
  intros R NE. destruct (clk s) as [|t r] eqn:EC; [congruence|].
  assert (EA : forall ev s1, ready s1 = false -> ovni_ev_add fx cap FUEL ev s1 = RAbort).
  { intros ev s1 R1. change FUEL with (S 3). rewrite ev_add_S. rewrite R1. reflexivity. }
  assert (MK : forall v ty va, mark fx cap v ty va (s, log) = RAbort).
  { intros v ty va. unfold mark. destruct (va =? 0); [reflexivity|].
    unfold clock_now. rewrite EC. cbn [rbind].
    destruct (build c_O c_M v (mark_payload ty va)); [|reflexivity]. rewrite EA; [reflexivity | exact R]. }
  destruct o as [m c v chunks | m c v data | | ty va | ty va | ty va | ]; cbn [step]; try apply MK.
  - destruct (build m c v chunks); [|reflexivity]. unfold clock_now. rewrite EC. cbn [rbind].
    rewrite EA; [reflexivity | exact R].
  - unfold clock_now. rewrite EC. cbn [rbind]. unfold ovni_ev_add_jumbo. cbn [ready set_clk]. rewrite R. reflexivity.
  - unfold ovni_flush. rewrite R. reflexivity.
  - unfold thread_free. rewrite R. reflexivity.
Qed.

(* a run never stops for lack of recursion fuel *)
Theorem run_never_out_of_fuel fx cap ops clock :
  64 <= cap -> forallb op_wfb ops = true -> run fx cap ops clock <> RNoFuel.
Proof.
  intros Hcap. unfold run.
  assert (G : forall ops st, forallb op_wfb ops = true ->
              ((exists dl bl, Rel cap (fst st) dl bl) \/ ready (fst st) = false) ->
              run_from fx cap ops st <> RNoFuel).
  { induction ops0 as [|o ops0 IH]; intros [s log] WF ST; cbn [run_from]; [discriminate|].
    cbn [forallb] in WF. apply andb_prop in WF. destruct WF as [WF1 WF2]. cbn [fst] in ST.
    destruct (step fx cap o (s, log)) as [[s1 log1]| | |] eqn:ES; cbn [rbind]; try discriminate.
    - apply IH; [exact WF2|]. cbn [fst].
      destruct ST as [(dl & bl & RL) | NR].
      + destruct o; try (destruct (step_astep fx cap s dl bl _ log s1 log1 Hcap RL WF1 ltac:(discriminate) ES) as (_ & dl' & bl' & RL' & _);
                         left; exists dl', bl'; exact RL').
        right. cbn [step] in ES. unfold thread_free in ES. destruct (negb (ready s)); [discriminate|].
        cbn [rbind] in ES. inversion ES. reflexivity.
      + (* a freed thread: every step aborts or lacks a clock; ROk is impossible *)
        exfalso. destruct (clk s) as [|t r] eqn:EC.
        * destruct o; cbn [step mark] in ES; unfold clock_now, ovni_flush, thread_free in ES; rewrite ?EC, ?NR in ES; cbn [negb rbind] in ES;
            try discriminate.
          -- destruct (build m c v chunks); discriminate.
          -- destruct (value =? 0); discriminate.
          -- destruct (value =? 0); discriminate.
          -- destruct (value =? 0); discriminate.
        * rewrite (use_after_free fx cap s o log NR) in ES; [discriminate | congruence].
    - (* RNoFuel from a single step: impossible *)
      exfalso. destruct ST as [(dl & bl & RL) | NR].
      + destruct (step_outcome fx cap s dl bl o log Hcap RL WF1) as [O1 O2].
        destruct (api_okb cap o) eqn:AO.
        * destruct (O1 eq_refl) as [[a Ea] | En]; congruence.
        * destruct (clk s) as [|t r] eqn:EC.
          -- destruct o; cbn [api_okb] in AO; try discriminate; cbn [step mark] in ES.
             ++ rewrite (build_die m c v chunks AO) in ES. discriminate.
             ++ unfold clock_now in ES. rewrite EC in ES. discriminate.
             ++ destruct (value =? 0); [discriminate | lia].
             ++ destruct (value =? 0); [discriminate | lia].
             ++ destruct (value =? 0); [discriminate | lia].
          -- rewrite O2 in ES; [discriminate | reflexivity | congruence].
      + destruct (clk s) as [|t r] eqn:EC.
        * destruct o; cbn [step mark] in ES; unfold clock_now, ovni_flush, thread_free in ES; rewrite ?EC, ?NR in ES; cbn [negb rbind] in ES;
            try discriminate.
          -- destruct (build m c v chunks); discriminate.
          -- destruct (value =? 0); discriminate.
          -- destruct (value =? 0); discriminate.
          -- destruct (value =? 0); discriminate.
        * rewrite (use_after_free fx cap s o log NR) in ES; [discriminate | congruence]. }
  intros WF. apply G; [exact WF|]. left. exists [], []. apply Rel_init. exact Hcap.
Qed.

(* ------------------------------------------------------------------ statements over reachable states *)

Theorem rejected_calls_abort fx cap ops clock s log o :
  64 <= cap -> forallb op_wfb ops = true -> existsb is_free ops = false -> clock_u64b clock = true ->
  run fx cap ops clock = ROk (s, log) ->
  op_wfb o = true -> api_okb cap o = false -> clk s <> [] ->
  step fx cap o (s, log) = RAbort.
Proof.
  intros Hcap WF NF CK H WFo AO NE.
  destruct (run_summary fx cap ops clock s log Hcap WF NF CK H) as (_ & dl & bl & RL & _).
  destruct (step_outcome fx cap s dl bl o log Hcap RL WFo) as [_ O2]. apply O2; assumption.
Qed.

Theorem accepted_calls_proceed fx cap ops clock s log o :
  64 <= cap -> forallb op_wfb ops = true -> existsb is_free ops = false -> clock_u64b clock = true ->
  run fx cap ops clock = ROk (s, log) ->
  op_wfb o = true -> api_okb cap o = true ->
  (exists st, step fx cap o (s, log) = ROk st) \/ step fx cap o (s, log) = RNoClock.
Proof.
  intros Hcap WF NF CK H WFo AO.
  destruct (run_summary fx cap ops clock s log Hcap WF NF CK H) as (_ & dl & bl & RL & _).
  destruct (step_outcome fx cap s dl bl o log Hcap RL WFo) as [O1 _]. apply O1. exact AO.
Qed.

Theorem completed_run_only_accepted_calls fx cap ops clock s log :
  64 <= cap -> forallb op_wfb ops = true -> existsb is_free ops = false -> clock_u64b clock = true ->
  run fx cap ops clock = ROk (s, log) -> forallb (api_okb cap) ops = true.
Proof.
  intros Hcap WF NF CK H. apply (run_summary fx cap ops clock s log Hcap WF NF CK H).
Qed.

Theorem call_after_free_aborts fx cap ops clock s log o :
  run fx cap (ops ++ [Free]) clock = ROk (s, log) -> clk s <> [] -> step fx cap o (s, log) = RAbort.
Proof.
  intros H NE. apply use_after_free; [|exact NE].
  unfold run in H. rewrite run_from_app in H.
  destruct (run_from fx cap ops (thread_init clock, [])) as [[s1 log1]| | |]; try discriminate.
  cbn [rbind run_from step] in H. unfold thread_free in H. destruct (negb (ready s1)); [discriminate|].
  cbn [rbind] in H. inversion H. reflexivity.
Qed.

(* ------------------------------------------------------------------ accepted programs complete when the clock list is long enough *)

Lemma big_afe_enough fx cap t0 t1 s :
  (2 <= length (clk s))%nat ->
  exists s', big_afe fx cap t0 t1 s = ROk s' /\ (length (clk s) <= length (clk s') + 2)%nat.
Proof.
  intros L. unfold big_afe.
  destruct fx.
  - destruct (evlen s + 24 >=? cap).
    + destruct (clk s) as [|a r] eqn:EC; [cbn [length] in L; lia|].
      eexists. split; [reflexivity|]. autorewrite with st. cbn [length]. lia.
    + eexists. split; [reflexivity|]. autorewrite with st. lia.
  - destruct (evlen s + 12 >=? cap).
    + destruct (clk s) as [|a [|b r]] eqn:EC; try (cbn [length] in L; lia).
      eexists. split; [reflexivity|]. autorewrite with st. cbn [length]. lia.
    + destruct (evlen s + 24 >=? cap).
      * destruct (clk s) as [|a [|b r]] eqn:EC; try (cbn [length] in L; lia).
        eexists. split; [reflexivity|]. autorewrite with st. cbn [length]. lia.
      * eexists. split; [reflexivity|]. autorewrite with st. lia.
Qed.

Lemma big_awf_enough fx cap chunks total s :
  (4 <= length (clk s))%nat ->
  exists s', big_awf fx cap chunks total s = ROk s' /\ (length (clk s) <= length (clk s') + 4)%nat.
Proof.
  intros L. unfold big_awf. destruct (evlen s + total >=? cap).
  - destruct (clk s) as [|a [|b r]] eqn:EC; try (cbn [length] in L; lia).
    destruct (big_afe_enough fx cap a b (appends (set_clk (flush_evbuf s) r) chunks)) as (s' & E & L').
    { autorewrite with st. cbn [length] in L. lia. }
    exists s'. split; [exact E|]. autorewrite with st in L'. cbn [length]. lia.
  - eexists. split; [reflexivity|]. autorewrite with st. lia.
Qed.

Lemma add_normal_enough fx cap s dl bl m c v chunks ev t :
  64 <= cap -> Rel cap s dl bl -> build m c v chunks = Ret ev -> chunks_okb chunks = true ->
  (4 <= length (clk s))%nat ->
  exists s', ovni_ev_add fx cap FUEL (ovni_ev_set_clock ev t) s = ROk s' /\ (length (clk s) <= length (clk s') + 4)%nat.
Proof.
  intros Hcap RL BE CO L.
  destruct (image_normal m c v t chunks ev BE CO) as [SZ IM]. cbn zeta in SZ, IM.
  set (e := mkU false m c v t (concat chunks)) in *.
  assert (Hsz : 12 <= esize e <= 28).
  { unfold esize, e, HEADER_SIZE. cbn [u_jumbo u_data]. unfold chunks_okb in CO.
    pose proof (zlength_nonneg (concat chunks)). lia. }
  change FUEL with (S (S (S 1))).
  rewrite (ev_add_eq fx cap Hcap 1%nat _ s (esize e)); [| apply RL | symmetry; exact SZ | lia].
  apply big_awf_enough. exact L.
Qed.

Lemma mark_enough fx cap s dl bl v ty va log :
  64 <= cap -> Rel cap s dl bl -> va <> 0 -> (5 <= length (clk s))%nat ->
  exists s' log', mark fx cap v ty va (s, log) = ROk (s', log') /\ (length (clk s) <= length (clk s') + 5)%nat.
Proof.
  intros Hcap RL NZ L. unfold mark. destruct (va =? 0) eqn:E0; [lia|].
  destruct (build_ok c_O c_M v (mark_payload ty va) (mark_chunks_ok ty va)) as (ev & BE & _).
  unfold clock_now. destruct (clk s) as [|t r] eqn:EC; [cbn [length] in L; lia|]. cbn [rbind]. rewrite BE.
  destruct (add_normal_enough fx cap (set_clk s r) dl bl _ _ _ _ ev t Hcap (Rel_set_clk cap s dl bl r RL) BE (mark_chunks_ok ty va))
    as (s' & E & L'). { rewrite clk_set_clk. cbn [length] in L. lia. }
  rewrite E. cbn [rbind]. eexists _, _. split; [reflexivity|]. rewrite clk_set_clk in L'. cbn [length]. lia.
Qed.

Lemma step_enough fx cap s dl bl o log :
  64 <= cap -> Rel cap s dl bl -> op_wfb o = true -> api_okb cap o = true -> (5 <= length (clk s))%nat ->
  exists s' log', step fx cap o (s, log) = ROk (s', log') /\ (length (clk s) <= length (clk s') + 5)%nat.
Proof.
  intros Hcap RL WF AO L. destruct o as [m c v chunks | m c v data | | ty va | ty va | ty va | ]; cbn [step api_okb] in *.
  - destruct (build_ok m c v chunks AO) as (ev & BE & _). rewrite BE.
    unfold clock_now. destruct (clk s) as [|t r] eqn:EC; [cbn [length] in L; lia|]. cbn [rbind].
    destruct (add_normal_enough fx cap (set_clk s r) dl bl _ _ _ _ ev t Hcap (Rel_set_clk cap s dl bl r RL) BE AO)
      as (s' & E & L'). { rewrite clk_set_clk. cbn [length] in L. lia. }
    rewrite E. cbn [rbind]. eexists _, _. split; [reflexivity|]. rewrite clk_set_clk in L'. cbn [length]. lia.
  - cbn [op_wfb] in WF. assert (Hn : zlength data < 2 ^ 32) by lia. pose proof (zlength_nonneg data) as NN.
    unfold clock_now. destruct (clk s) as [|t r] eqn:EC; [cbn [length] in L; lia|]. cbn [rbind].
    destruct (image_jumbo m c v t (zlength data) ltac:(lia)) as [PS (ev1 & PA & SZ & IM)]. cbn zeta in PS, PA.
    unfold ovni_ev_add_jumbo. destruct RL as (R & RL'). cbn [ready set_clk]. rewrite R. cbn [negb].
    rewrite PS. cbn [Z.eqb negb]. rewrite PA, SZ.
    destruct (16 + zlength data >=? cap) eqn:E; [lia|].
    change FUEL with (S (S 2)).
    rewrite (awf_eq fx cap Hcap 2%nat); [| exact R | cbn [map snd fold_right]; lia | lia].
    match goal with |- context [big_awf fx cap ?ch ?tot ?st] =>
      destruct (big_awf_enough fx cap ch tot st) as (s' & E' & L') end.
    { rewrite clk_set_clk. cbn [length] in L. lia. }
    rewrite E'. cbn [rbind]. eexists _, _. split; [reflexivity|]. rewrite clk_set_clk in L'. cbn [length]. lia.
  - destruct RL as (R & _). unfold ovni_flush. rewrite R. cbn [negb].
    unfold clock_now. destruct (clk s) as [|t0 [|t1 r]] eqn:EC; try (cbn [length] in L; lia).
    cbn [rbind clk set_clk flush_evbuf]. change FUEL with (S 3).
    rewrite (markers_fit fx cap 3%nat); [| exact R | cbn; lia | cbn; lia].
    cbn [rbind]. eexists _, _. split; [reflexivity|]. autorewrite with st. cbn [clk length]. lia.
  - apply (mark_enough fx cap s dl bl _ ty va log Hcap RL); [lia | exact L].
  - apply (mark_enough fx cap s dl bl _ ty va log Hcap RL); [lia | exact L].
  - apply (mark_enough fx cap s dl bl _ ty va log Hcap RL); [lia | exact L].
  - destruct RL as (R & _). unfold thread_free. rewrite R. cbn [negb rbind].
    eexists _, _. split; [reflexivity|]. cbn [clk]. lia.
Qed.

(* every program of accepted calls runs to completion, given 5 clock values per call *)
Theorem run_total fx cap ops clock :
  64 <= cap -> forallb op_wfb ops = true -> existsb is_free ops = false -> forallb (api_okb cap) ops = true ->
  (5 * length ops <= length clock)%nat ->
  exists s log, run fx cap ops clock = ROk (s, log).
Proof.
  intros Hcap WF NF AO L. unfold run.
  assert (G : forall ops s log dl bl, Rel cap s dl bl -> forallb op_wfb ops = true -> existsb is_free ops = false ->
              forallb (api_okb cap) ops = true -> (5 * length ops <= length (clk s))%nat ->
              exists s' log', run_from fx cap ops (s, log) = ROk (s', log')).
  { clear ops WF NF AO L. induction ops as [|o ops IH]; intros s log dl bl RL WF NF AO L.
    - eexists _, _. reflexivity.
    - cbn [forallb existsb length] in *. apply andb_prop in WF. destruct WF as [WF1 WF2].
      apply andb_prop in AO. destruct AO as [AO1 AO2]. apply orb_false_elim in NF. destruct NF as [NF1 NF2].
      destruct (step_enough fx cap s dl bl o log Hcap RL WF1 AO1 ltac:(lia)) as (s1 & log1 & E & L1).
      cbn [run_from]. rewrite E. cbn [rbind].
      assert (NFo : o <> Free) by (intros ->; discriminate).
      destruct (step_astep fx cap s dl bl o log s1 log1 Hcap RL WF1 NFo E) as (_ & dl1 & bl1 & RL1 & _).
      apply (IH s1 log1 dl1 bl1 RL1 WF2 NF2 AO2). lia. }
  apply (G ops _ [] [] [] (Rel_init cap clock Hcap) WF NF AO). rewrite clk_init. exact L.
Qed.

Theorem run_total_free fx cap ops clock :
  64 <= cap -> forallb op_wfb ops = true -> existsb is_free ops = false -> forallb (api_okb cap) ops = true ->
  (5 * length ops + 5 <= length clock)%nat ->
  exists s log, run fx cap (ops ++ [Flush; Free]) clock = ROk (s, log).
Proof.
  intros Hcap WF NF AO L.
  destruct (run_total fx cap (ops ++ [Flush]) clock Hcap) as (s1 & log1 & E).
  - rewrite forallb_app, WF. reflexivity.
  - rewrite existsb_app, NF. reflexivity.
  - rewrite forallb_app, AO. reflexivity.
  - rewrite app_length. cbn [length]. lia.
  - unfold run in *. replace (ops ++ [Flush; Free]) with ((ops ++ [Flush]) ++ [Free]) by (rewrite <- app_assoc; reflexivity).
    rewrite run_from_app, E. cbn [rbind run_from step].
    assert (R : ready s1 = true).
    { destruct (run_from_asteps fx cap Hcap (ops ++ [Flush]) (thread_init clock) [] [] [] s1 log1 (Rel_init cap clock Hcap))
        as (_ & dl & bl & (R & _) & _); try assumption.
      - rewrite forallb_app, WF. reflexivity.
      - rewrite existsb_app, NF. reflexivity. }
    unfold thread_free. rewrite R. cbn [negb rbind]. eexists _, _. reflexivity.
Qed.

(* what the decider valid_stream means for a file (a list of bytes) *)
Theorem valid_stream_meaning bs :
  Forall byte bs -> valid_stream bs = true ->
  exists es, bs = STREAM_HEADER ++ flat_map encode es /\ Forall wf_uev es /\
             sortedb (map u_clock es) = true /\ flush_okb es = true.
Proof.
  intros HB V. unfold valid_stream in V. destruct (parse_stream bs) as [es| |] eqn:P; try discriminate.
  destruct (parse_stream_sound bs es HB P) as [E W]. exists es.
  unfold valid_events in V. apply andb_prop in V. destruct V as [V V3]. apply andb_prop in V. destruct V as [_ V2].
  repeat split; assumption.
Qed.
