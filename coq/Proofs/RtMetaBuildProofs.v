(* C02: the final metadata of a whole trace (one protocol-following program per process) is accepted by the emulator's
   metadata merge (Emu/MetaDefs.build) and the system built is the one the calls describe. *)
From OV Require Import Base.CInt Emu.LoaderMetaDefs Emu.VersionDefs Rt.RtMetaDefs Proofs.RtMetaProofs.
From OV Require Import Emu.MetaDefs Proofs.MetaProofs Proofs.MetaBuildProofs.
From Coq Require Import Permutation.
Local Open Scope Z_scope.

(* ---- what meta_conformant says about the text of a program *)
Lemma conformant_shape p : meta_conformant p = true ->
  exists th0 app loom pid body thk psf,
    p = (th0, ProcInit app loom pid) :: body ++ [(thk, ProcFini)] /\ 0 < app /\ 0 < pid /\ valid_name loom = true /\
    conf_body [] body = Some psf.
Proof.
  intros MC. unfold meta_conformant in MC.
  destruct p as [|[th0 o0] rest]; [discriminate|]. destruct o0; try discriminate.
  apply andb_prop in MC as [MC Hm]. apply andb_prop in MC as [MC Hloom]. apply andb_prop in MC as [MC Hpid0].
  apply andb_prop in MC as [MC Happ0].
  destruct (rev rest) as [|[thk ok] rbody] eqn:RV; [discriminate|]. destruct ok; try discriminate.
  destruct (conf_body [] (rev rbody)) as [psf|] eqn:CB; [|discriminate].
  assert (RE : rest = rev rbody ++ [(thk, ProcFini)]) by (rewrite <- (rev_involutive rest), RV; reflexivity).
  exists th0, app, loom, pid, (rev rbody), thk, psf. subst rest.
  unfold loom_ok in Hloom. apply andb_prop in Hloom as [Hloom _]. apply andb_prop in Hloom as [_ Hs].
  repeat split; try lia; try assumption.
Qed.

Lemma conf_body_facts : forall body ps ps', conf_body ps body = Some ps' ->
  (forall th tid, In (th, ThreadInit tid) body -> 0 < tid) /\
  (forall th i ph, In (th, AddCpu i ph) body -> 0 <= i /\ 0 <= ph) /\
  (forall th r n, In (th, ProcSetRank r n) body -> 0 <= r < n).
Proof.
  induction body as [|[th0 o] r IH]; intros ps ps' CB; [repeat split; intros; contradiction|].
  cbn [conf_body] in CB. destruct (conf_step ps th0 o) as [ps1|] eqn:CS; [|discriminate].
  destruct (IH ps1 ps' CB) as (A & B & C).
  assert (LO : forall o', o = o' -> (forall tid, o' <> ThreadInit tid) -> o' <> ThreadFree -> live_op_ok o' = true).
  { intros o' <- N1 N2. unfold conf_step in CS. destruct (plook ps th0) as [[t0 [|]]|].
    - destruct o; discriminate.
    - destruct o; try (destruct (live_op_ok _); [reflexivity|discriminate]); congruence.
    - destruct o; try discriminate. exfalso. eapply N1; reflexivity. }
  split; [|split].
  - intros th tid [E|X]; [|eauto]. injection E as -> ->. unfold conf_step in CS.
    destruct (plook ps th) as [[t0 [|]]|]; try discriminate.
    + unfold live_op_ok in CS. rewrite andb_false_r in CS. discriminate.
    + destruct (i32 tid && (0 <? tid) && negb (existsb (fun e => fst (snd e) =? tid) ps)) eqn:G; [|discriminate].
      apply andb_prop in G as [G _]. apply andb_prop in G as [_ G]. lia.
  - intros th i ph [E|X]; [|eauto]. injection E as -> ->.
    pose proof (LO _ eq_refl ltac:(discriminate) ltac:(discriminate)) as L. unfold live_op_ok in L.
    apply andb_prop in L as [_ L]. apply andb_prop in L as [L1 L2]. lia.
  - intros th r0 n [E|X]; [|eauto]. injection E as -> ->.
    pose proof (LO _ eq_refl ltac:(discriminate) ltac:(discriminate)) as L. unfold live_op_ok in L.
    apply andb_prop in L as [_ L]. apply andb_prop in L as [L1 L2]. lia.
Qed.

Lemma in_cpus_added p th c : In c (cpus_added p th) -> In (th, AddCpu (fst c) (snd c)) p.
Proof.
  unfold cpus_added. rewrite in_flat_map. intros ([th' o] & X & Y). cbn [fst snd] in Y.
  destruct o; try contradiction. destruct (Nat.eqb th' th) eqn:E; [|contradiction].
  apply Nat.eqb_eq in E. subst th'. destruct Y as [<-|[]]. exact X.
Qed.

Lemma rank_from_in : forall p acc th r n, rank_from acc p th = Some (r, n) -> acc = Some (r, n) \/ In (th, ProcSetRank r n) p.
Proof.
  induction p as [|[th' o] q IH]; intros acc th r n H; [left; exact H|].
  unfold rank_from in H. cbn [fold_left] in H. fold (rank_from (rank_step acc (th', o) th) q th) in H.
  apply IH in H as [H|H]; [|right; right; exact H].
  unfold rank_step in H. cbn [fst snd] in H. destruct o; auto.
  destruct (Nat.eqb th' th) eqn:E; [|auto]. apply Nat.eqb_eq in E. subst th'. injection H as -> ->. right. left. reflexivity.
Qed.

(* ---- membership in the records of a trace *)
Lemma in_trace_metas tr s : In s (trace_metas tr) ->
  exists p th0 app loom pid rest e, In p tr /\ p = (th0, ProcInit app loom pid) :: rest /\ In e (inits p) /\
    s = smeta loom pid (snd e) app (rank_set p (fst e)) (cpus_added p (fst e)).
Proof.
  unfold trace_metas. rewrite in_flat_map. intros (p & P & X). unfold expected_metas in X.
  destruct p as [|[th0 o] rest]; [destruct X|]. destruct o; try destruct X.
  apply in_map_iff in X as (e & <- & E). exists ((th0, ProcInit app loom pid) :: rest), th0, app, loom, pid, rest, e. auto.
Qed.

Lemma app_claims_in m k a : In (k, a) (app_claims m) <-> exists s, In s m /\ spkey s = k /\ s_app s = Some a.
Proof.
  unfold app_claims. rewrite in_flat_map. split.
  - intros (s & S & X). unfold app_claim in X. destruct (s_app s) as [a'|] eqn:E; [|destruct X].
    destruct X as [X|[]]. injection X as <- <-. eauto.
  - intros (s & S & K & A). exists s. split; [exact S|]. unfold app_claim. rewrite A, K. left. reflexivity.
Qed.
Lemma rank_claims_in m k x : In (k, x) (rank_claims m) -> exists s r, In s m /\ spkey s = k /\ s_rank s = Some r /\ x = (r, s_nranks s).
Proof.
  unfold rank_claims. rewrite in_flat_map. intros (s & S & X). unfold rank_claim in X.
  destruct (s_rank s) as [r|] eqn:E; [|destruct X]. destruct X as [X|[]]. injection X as <- <-. eauto 6.
Qed.
Lemma cpu_claims_in m l o : In (l, o) (cpu_claims m) ->
  exists s cs, In s m /\ s_loom s = l /\ s_cpus s = Some cs /\ match o with Some e => In e cs | None => cs = [] end.
Proof.
  unfold cpu_claims. rewrite in_flat_map. intros (s & S & X). unfold cpu_claim in X.
  destruct (s_cpus s) as [[|e es]|] eqn:E; [| |destruct X].
  - destruct X as [X|[]]. injection X as <- <-. eauto 6.
  - apply in_map_iff in X as (x & X & I). injection X as <- <-. eauto 6.
Qed.

Section Trace.
Variable tr : trace.
Hypothesis CONF : forall p, In p tr -> meta_conformant p = true.
Hypothesis OK : trace_ok tr.

Lemma trace_good : good (trace_metas tr).
Proof.
  assert (MEM : forall s, In s (trace_metas tr) ->
    exists p th0 app loom pid body thk psf e,
      In p tr /\ p = (th0, ProcInit app loom pid) :: body ++ [(thk, ProcFini)] /\ 0 < app /\ 0 < pid /\ valid_name loom = true /\
      conf_body [] body = Some psf /\ In e (inits p) /\
      s = smeta loom pid (snd e) app (rank_set p (fst e)) (cpus_added p (fst e))).
  { intros s S. destruct (in_trace_metas tr s S) as (p & th0 & app & loom & pid & rest & e & P & E & I & ->).
    destruct (conformant_shape p (CONF p P)) as (th0' & app' & loom' & pid' & body & thk & psf & E' & A & B & C & D).
    rewrite E in E'. injection E' as <- <- <- <- ->. exists p, th0, app, loom, pid, body, thk, psf, e. rewrite <- E. auto 12. }
  assert (INB : forall (th0 : nat) app loom pid body thk x,
            In x ((th0, ProcInit app loom pid) :: body ++ [(thk, ProcFini)]) ->
            snd x <> ProcInit app loom pid -> snd x <> ProcFini -> In x body).
  { intros th0 app loom pid body thk x [<-|X] N1 N2; [exfalso; apply N1; reflexivity|].
    apply in_app_or in X as [X|[<-|[]]]; [exact X|exfalso; apply N2; reflexivity]. }
  constructor.
  - intros s S. destruct (MEM s S) as (p & th0 & app & loom & pid & body & thk & psf & e & _ & _ & _ & _ & V & _ & _ & ->). exact V.
  - intros s S. destruct (MEM s S) as (p & th0 & app & loom & pid & body & thk & psf & e & _ & _ & _ & V & _ & _ & _ & ->). exact V.
  - intros s S. destruct (MEM s S) as (p & th0 & app & loom & pid & body & thk & psf & e & _ & E & _ & _ & _ & CB & I & ->).
    cbn [smeta s_tid]. apply in_inits in I. rewrite E in I.
    apply (INB th0 app loom pid body thk) in I; try discriminate.
    destruct (conf_body_facts body [] psf CB) as (A & _). eapply A; eauto.
  - apply (to_keys _ OK).
  - intros k (s & S & K). destruct (MEM s S) as (p & th0 & app & loom & pid & body & thk & psf & e & _ & _ & _ & _ & _ & _ & _ & E).
    exists app. apply app_claims_in. exists s. subst s. auto.
  - intros k a X. apply app_claims_in in X as (s & S & K & A).
    destruct (MEM s S) as (p & th0 & app & loom & pid & body & thk & psf & e & _ & _ & AP & _ & _ & _ & _ & ->).
    cbn [smeta s_app] in A. injection A as <-. exact AP.
  - intros k a b X Y. apply app_claims_in in X as (s1 & S1 & K1 & A1). apply app_claims_in in Y as (s2 & S2 & K2 & A2).
    destruct (MEM s1 S1) as (p1 & th1 & app1 & loom1 & pid1 & body1 & thk1 & psf1 & e1 & P1 & E1 & _ & _ & _ & _ & _ & ->).
    destruct (MEM s2 S2) as (p2 & th2 & app2 & loom2 & pid2 & body2 & thk2 & psf2 & e2 & P2 & E2 & _ & _ & _ & _ & _ & ->).
    cbn [smeta s_app spkey s_loom s_pid] in *. injection A1 as <-. injection A2 as <-. subst k. injection K2 as -> ->.
    apply (to_proc _ OK p1 p2 loom1 pid1 app1 app2 P1 P2); [rewrite E1|rewrite E2]; reflexivity.
  - intros [k x] X. apply rank_claims_in in X as (s & r & S & K & R & ->).
    destruct (MEM s S) as (p & th0 & app & loom & pid & body & thk & psf & e & _ & E & _ & _ & _ & CB & I & ->).
    cbn [smeta s_rank s_nranks] in *. destruct (rank_set p (fst e)) as [[r' n]|] eqn:RS; [|discriminate]. injection R as <-.
    unfold rank_set in RS. apply rank_from_in in RS as [RS|RS]; [discriminate|]. rewrite E in RS.
    apply (INB th0 app loom pid body thk) in RS; try discriminate.
    destruct (conf_body_facts body [] psf CB) as (_ & _ & C). specialize (C _ _ _ RS).
    unfold valid_rank. cbn [snd]. apply andb_true_iff. split; [apply andb_true_iff; split|]; lia.
  - apply (to_rank_uniq _ OK).
  - apply (to_rank_loom _ OK).
  - intros l X. apply cpu_claims_in in X as (s & cs & S & _ & C & ->).
    destruct (MEM s S) as (p & th0 & app & loom & pid & body & thk & psf & e & _ & _ & _ & _ & _ & _ & _ & ->).
    cbn [smeta s_cpus] in C. destruct (cpus_added p (fst e)); discriminate.
  - apply (to_cpu_range _ OK).
  - intros l i ph X. apply cpu_claims_in in X as (s & cs & S & _ & C & I).
    destruct (MEM s S) as (p & th0 & app & loom & pid & body & thk & psf & e & _ & E & _ & _ & _ & CB & _ & ->).
    cbn [smeta s_cpus] in C. destruct (cpus_added p (fst e)) as [|c0 cr] eqn:CA; [discriminate|]. injection C as <-.
    rewrite <- CA in I. apply in_cpus_added in I. cbn [fst snd] in I. rewrite E in I.
    apply (INB th0 app loom pid body thk) in I; try discriminate.
    destruct (conf_body_facts body [] psf CB) as (_ & B & _). apply (B _ _ _ I).
  - apply (to_cpu_idx _ OK).
  - apply (to_cpu_phy _ OK).
Qed.
End Trace.

(* ---- item 2: the final trees of a whole trace build the system the calls describe *)
Theorem metadata_builds_system : forall c tr,
  version_parse (Some (c_model_version c)) <> None ->
  (forall p, In p tr -> meta_conformant p = true /\ completed (fst (RtMetaDefs.run c p)) = true) ->
  trace_ok tr ->
  (* every process leaves the records its calls determine ... *)
  (forall p, In p tr -> final_metas p (fst (RtMetaDefs.run c p)) = Some (expected_metas p)) /\
  (* ... and the emulator's merge accepts them all together *)
  exists sys, build (trace_metas tr) = Ok sys /\
    NoDup (loom_names sys) /\
    (forall l, In l (loom_names sys) <-> loom_in (trace_metas tr) l) /\
    (forall l ps cs, In (l, ps, cs) sys ->
       (forall i ph, In (i, ph) cs <-> In (l, Some (i, ph)) (cpu_claims (trace_metas tr))) /\
       NoDup (map (fun sp : sproc => fst (fst sp)) ps) /\
       (forall pid, In pid (map (fun sp : sproc => fst (fst sp)) ps) <-> proc_in (trace_metas tr) (l, pid)) /\
       (forall pid a ts, In (pid, a, ts) ps ->
          (forall t, In t ts <-> In (l, pid, t) (keys (trace_metas tr))) /\
          (forall a', In ((l, pid), a') (app_claims (trace_metas tr)) -> a' = a))).
Proof.
  intros c tr CFG H OK. split.
  - intros p P. destruct (H p P) as (MC & CO). destruct (RtMetaDefs.run c p) as [evs sf] eqn:R. cbn [fst] in *.
    eapply metadata_stream_metas; eauto.
  - destruct (build_complete (trace_metas tr) (trace_good tr (fun p P => proj1 (H p P)) OK)) as (sys & B).
    exists sys. split; [exact B|]. apply build_describes. exact B.
Qed.

(* it does not matter which thread registered which CPU (or carried the rank): equal unions build equal systems *)
Theorem metadata_build_union : forall tr1 tr2, same_union (trace_metas tr1) (trace_metas tr2) ->
  build (trace_metas tr1) = build (trace_metas tr2).
Proof. intros. apply build_union. assumption. Qed.

(* the refusing side: where the line of the protocol is *)
Theorem metadata_build_refuses : forall tr,
  let m := trace_metas tr in
  (* two threads of a loom register one index with two phyids, or one phyid under two indices *)
  ((exists l i p q, In (l, Some (i, p)) (cpu_claims m) /\ In (l, Some (i, q)) (cpu_claims m) /\ p <> q) -> build m = Err) /\
  ((exists l i j p, In (l, Some (i, p)) (cpu_claims m) /\ In (l, Some (j, p)) (cpu_claims m) /\ i <> j) -> build m = Err) /\
  (* no thread of a loom registers a CPU *)
  ((exists l, loom_in m l /\ forall e, ~ In (l, Some e) (cpu_claims m)) -> build m = Err) /\
  (* an index is skipped *)
  ((exists l i p j, In (l, Some (i, p)) (cpu_claims m) /\ 0 <= j < i /\ forall q, ~ In (l, Some (j, q)) (cpu_claims m)) -> build m = Err) /\
  (* two threads of a process set different ranks *)
  ((exists k r1 n1 r2 n2, In (k, (r1, n1)) (rank_claims m) /\ In (k, (r2, n2)) (rank_claims m) /\ r1 <> r2) -> build m = Err) /\
  (* two threads with the same loom, pid and tid *)
  (~ NoDup (keys m) -> build m = Err).
Proof.
  intros tr m. repeat split.
  - intros (l & i & p & q & A & B & N). apply build_conflicts. exact (C_index_two_phyids m l i p q A B N).
  - intros (l & i & j & p & A & B & N). apply build_conflicts. exact (C_phyid_two_indices m l i j p A B N).
  - intros (l & A & B). apply build_conflicts. exact (C_no_cpus m l A B).
  - intros (l & i & p & j & A & B & C). apply build_conflicts. exact (C_missing_cpu m l i p j A B C).
  - intros (k & r1 & n1 & r2 & n2 & A & B & N). apply build_conflicts. exact (C_rank m k r1 n1 r2 n2 A B N).
  - intros N. apply build_conflicts. apply C_dup_tid. exact N.
Qed.
