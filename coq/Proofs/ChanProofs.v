(* chan.c regenerated from the source (Gen/Chan_gen.v, translate/units/chan.py) computes the raw channel
   operations of the hand model: EmuCoreDefs.raw_apply (PUSH / POP / SET with all their refusals) and raw_read.

   How the C channel and the model's `raw` are related (Rep): type and properties are those model_thread.c gives a
   raw model channel (chan_init zeroes everything, then CHAN_ALLOW_DUP := the dup bit of the channel spec; so
   CHAN_DIRTY_WRITE = CHAN_IGNORE_DUP = 0); the first n entries of the stack array are the model's stack, bottom
   first; data.value is the model's single value.
   Dirty / last_value (Clean): the model has no dirty bit.  It compares a new value with the value the channel
   currently shows (raw_read); the C compares with last_value, the value at the last chan_flush, and refuses
   any write to a channel that is still dirty.  The two agree exactly when the channel was flushed since its last
   write: is_dirty = 0 and last_value = the value read.  That is the hypothesis Clean below; flush_eq shows
   chan_flush re-establishes it after every write, so "one write per channel between two flushes" is all that is
   assumed.  In the emulator the bay flushes every dirty channel at the end of each event (bay_propagate), and
   core_step writes a raw channel at most once per event (one chan_step per table event; task_event writes the
   subsystem channel once and each of the distinct task channels once); that fact is NOT a lemma of the
   development: it is part of the bay/propagation abstraction validated end to end (C06), and it is the
   hypothesis here. *)
From Coq Require Import ZArith List Bool Lia.
From OV Require Import Base.CInt Emu.EmuCoreDefs Emu.ChanPre Emu.StackSpecDefs.
From OV Require Gen.Chan_gen.
Import ListNotations.
Local Open Scope Z_scope.

(* model value <-> struct value (VALUE_NULL = 0 with payload 0, VALUE_INT64 = 1) *)
Definition inj (o : value) : cvalue :=
  match o with None => vnull | Some z => {| vt := 1; vi := z |} end.

Lemma inj_eq sx st a b : value_is_equal sx st (inj a) (inj b) = b2z (value_eqb a b).
Proof. destruct a, b; cbn; try reflexivity. Qed.

Record Rep (sp : chanspec) (c : chan) (r : raw) : Prop := {
  rp_type : ctype c = (if cs_stack sp then 1 else 0);
  rp_prop : prop c = [0; b2z (cs_dup sp); 0];
  rp_len : length (svalues c) = MAX_CHAN_STACK;
  rp_n : cs_stack sp = true -> sn c = Z.of_nat (length (r_stk r)) /\ (length (r_stk r) <= MAX_CHAN_STACK)%nat;
  rp_stk : cs_stack sp = true -> firstn (length (r_stk r)) (svalues c) = map (fun z => inj (Some z)) (rev (r_stk r));
  rp_val : cs_stack sp = false -> dvalue c = inj (r_val r)
}.

Definition Clean (sp : chanspec) (c : chan) (r : raw) : Prop :=
  is_dirty c = 0 /\ last_value c = inj (raw_read sp r).

(* the callback, if there is one, reports success *)
Definition cb_ok (sx : cenv) (c : chan) : Prop := has_cb c = true -> cb_ret sx = 0.

(* what an accepted / refused model operation means for the generated function m *)
Definition op_rel (sp : chanspec) (sx : cenv) (st : cstate) (m : M unit) (res : result (raw * bool)) : Prop :=
  match res with
  | Err _ => exists e, exec m sx st = Err e /\ e <> E_TRAP
  | Ok (r', d) =>
    d = true /\
    exists st', exec m sx st = Ok st' /\ Rep sp (ch st') r' /\ is_dirty (ch st') = 1 /\
                last_value (ch st') = last_value (ch st) /\ has_cb (ch st') = has_cb (ch st) /\ out st' = out st /\
                ncb st' = (ncb st + (if has_cb (ch st) then 1 else 0))%nat
  end.

(* ---------------------------------------------------------------- lists *)

Lemma firstn_update_snoc {A} (l : list A) n x : (n < length l)%nat -> firstn (S n) (update l n x) = firstn n l ++ [x].
Proof.
  revert n; induction l as [|a l IH]; intros [|n] H; cbn in *; try lia; [reflexivity|].
  rewrite IH by lia. reflexivity.
Qed.

Lemma firstn_snoc_inv {A} (l a : list A) y k d : firstn (S k) l = a ++ [y] -> length a = k ->
  nth k l d = y /\ firstn k l = a.
Proof.
  revert l a; induction k as [|k IH]; intros l a H L.
  - destruct a; [|discriminate]. destruct l as [|x l]; cbn in H; [discriminate|]. inversion H. split; reflexivity.
  - destruct a as [|a0 a]; [discriminate|]. destruct l as [|x l]; [discriminate|].
    cbn [firstn app] in H. inversion H; subst. cbn [length] in L.
    destruct (IH l a H2 ltac:(lia)) as [K1 K2]. split; [exact K1|]. cbn [firstn]. rewrite K2. reflexivity.
Qed.

Lemma length_update {A} (l : list A) n x : length (update l n x) = length l.
Proof. revert n; induction l as [|a l IH]; intros [|n]; cbn; try reflexivity. rewrite IH. reflexivity. Qed.

Ltac munf := unfold need, ite, bind_, bind, eval, ret, fail, exec.

(* ---------------------------------------------------------------- set_dirty on a clean channel *)

Definition mark_dirty (x : chan) : chan :=
  {| is_dirty := 1; prop := prop x; has_cb := has_cb x; last_value := last_value x;
     ctype := ctype x; dvalue := dvalue x; sn := sn x; svalues := svalues x |}.

Lemma set_dirty_clean sx st : is_dirty (ch st) = 0 -> cb_ok sx (ch st) ->
  Chan_gen.set_dirty (Some tt) sx st =
  Ok (tt, {| ch := mark_dirty (ch st); out := out st; ncb := (ncb st + (if has_cb (ch st) then 1 else 0))%nat |}).
Proof.
  intros Hd Hcb. unfold Chan_gen.set_dirty, mark_dirty. munf. cbn [is_null negb].
  unfold get_chan_is_dirty. rewrite Hd. cbn [Z.eqb negb].
  unfold set_chan_is_dirty, upd_ch, with_ch, get_chan_dirty_cb. cbn [ch].
  unfold cb_ok in Hcb.
  destruct (has_cb (ch st)) eqn:Ec; cbn [is_null negb has_cb].
  - unfold call_dirty_cb, get_chan_dirty_arg. cbn [ch has_cb]. rewrite (Hcb eq_refl). cbn [Z.eqb out ncb].
    rewrite Nat.add_1_r. reflexivity.
  - cbn [out ncb]. rewrite Nat.add_0_r. reflexivity.
Qed.

(* ---------------------------------------------------------------- push *)

Lemma geb_len (n : nat) : (Z.of_nat n >=? 512) = Nat.leb MAX_CHAN_STACK n.
Proof. unfold MAX_CHAN_STACK. destruct (Nat.leb_spec 512 n); destruct (Z.geb_spec (Z.of_nat n) 512); try reflexivity; lia. Qed.

Ltac props Hp :=
  unfold get_chan_prop; rewrite Hp;
  change (ix [0; b2z ?b; 0] Chan_gen.c_CHAN_DIRTY_WRITE) with 0;
  change (ix [0; b2z ?b; 0] Chan_gen.c_CHAN_ALLOW_DUP) with (b2z b);
  change (ix [0; b2z ?b; 0] Chan_gen.c_CHAN_IGNORE_DUP) with 0.

Lemma push_eq sp sx st r v : Rep sp (ch st) r -> Clean sp (ch st) r -> cb_ok sx (ch st) ->
  op_rel sp sx st (Chan_gen.chan_push (Some tt) (inj (Some v))) (raw_apply sp r PUSH (Some v)).
Proof.
  intros [Ht Hp Hl Hn Hs Hv] [Hd Hlv] Hcb. unfold op_rel, raw_apply.
  unfold Chan_gen.chan_push. munf. cbn [is_null negb andb].
  unfold get_chan_type, get_chan_is_dirty, get_chan_last_value, addr_chan_data_stack, get_chan_stack_n.
  rewrite Ht, Hd, Hlv. props Hp.
  change (cast_uint32 Chan_gen.c_CHAN_STACK) with 1.
  destruct (cs_stack sp) eqn:Es; cbn [Z.eqb Pos.eqb negb andb is_null].
  2:{ exists E_FAIL. split; [reflexivity|discriminate]. }
  destruct (Hn eq_refl) as [Hsn Hle]. specialize (Hs eq_refl).
  rewrite inj_eq, Hsn, geb_len.
  destruct (cs_dup sp) eqn:Edup; cbn [b2z Z.eqb negb andb].
  all: try (destruct (value_eqb (raw_read sp r) (Some v)) eqn:Ev; cbn [b2z Z.eqb negb];
            [exists E_FAIL; split; [reflexivity|discriminate]|]).
  all: destruct (Nat.leb MAX_CHAN_STACK (length (r_stk r))) eqn:Efull;
       [exists E_FAIL; split; [reflexivity|discriminate]|].

  all: apply Nat.leb_gt in Efull.
  all: split; [reflexivity|].
  all: unfold set_chan_stack_n, set_chan_stack_values_at, upd_ch, with_ch, in_range; cbn [ch svalues out ncb].
  all: rewrite Hl.
  all: replace ((0 <=? Z.of_nat (length (r_stk r))) && (Z.of_nat (length (r_stk r)) <? Z.of_nat MAX_CHAN_STACK)) with true
         by (symmetry; apply andb_true_iff; split; [apply Z.leb_le; lia|apply Z.ltb_lt; lia]).
  all: rewrite set_dirty_clean by (cbn [ch is_dirty has_cb]; assumption).
  all: eexists; split; [reflexivity|]; unfold mark_dirty, set_svalues; cbn [ch out ncb is_dirty last_value has_cb svalues sn prop ctype dvalue].
  all: repeat split; cbn [ch out ncb is_dirty last_value has_cb svalues sn prop ctype dvalue]; try assumption; try reflexivity.
  all: cbn [r_stk length rev map].
  all: try (intros _; split; [rewrite Nat2Z.id || idtac; lia|lia]).
  all: try (intros _; rewrite Nat2Z.id, map_app; cbn [map]; rewrite <- Hs; apply firstn_update_snoc; lia).
  all: try (rewrite length_update; exact Hl).
  all: try (intros E; congruence).
  all: try (rewrite Es; exact Ht).
  all: try (rewrite Edup; exact Hp).
  all: lia.
Qed.

(* ---------------------------------------------------------------- pop *)

Lemma pop_eq sp sx st r v : Rep sp (ch st) r -> Clean sp (ch st) r -> cb_ok sx (ch st) ->
  op_rel sp sx st (Chan_gen.chan_pop (Some tt) (inj (Some v))) (raw_apply sp r POP (Some v)).
Proof.
  intros [Ht Hp Hl Hn Hs Hv] [Hd Hlv] Hcb. unfold op_rel, raw_apply.
  unfold Chan_gen.chan_pop. munf. cbn [is_null negb andb].
  unfold get_chan_type, get_chan_is_dirty, addr_chan_data_stack, get_chan_stack_n, addr_chan_stack_values_at.
  rewrite Ht, Hd. props Hp.
  change (cast_uint32 Chan_gen.c_CHAN_STACK) with 1.
  destruct (cs_stack sp) eqn:Es; cbn [Z.eqb Pos.eqb negb andb is_null].
  2:{ exists E_FAIL. split; [reflexivity|discriminate]. }
  destruct (Hn eq_refl) as [Hsn Hle]. specialize (Hs eq_refl). rewrite Hsn.
  destruct (r_stk r) as [|x rest] eqn:Er.
  { cbn [length Z.of_nat Z.leb Z.compare]. exists E_FAIL. split; [reflexivity|discriminate]. }
  cbn [length] in *.
  replace (Z.of_nat (S (length rest)) <=? 0) with false by (symmetry; apply Z.leb_gt; lia).
  cbn [is_null negb]. unfold load_ptr_value, ix_cvalue.
  replace (Z.to_nat (Z.of_nat (S (length rest)) - 1)) with (length rest) by lia.
  cbn [rev] in Hs. rewrite map_app in Hs. cbn [map] in Hs.
  destruct (firstn_snoc_inv _ _ _ _ vnull Hs ltac:(rewrite map_length, rev_length; reflexivity)) as [Htop Hpre].
  rewrite Htop, inj_eq. cbn [value_eqb].
  destruct (x =? v) eqn:Exv; cbn [b2z Z.eqb negb].
  2:{ exists E_FAIL. split; [reflexivity|discriminate]. }
  split; [reflexivity|].
  unfold set_chan_stack_n, upd_ch, with_ch; cbn [ch out ncb].
  rewrite set_dirty_clean by (cbn [ch is_dirty has_cb]; assumption).
  eexists; split; [reflexivity|]; unfold mark_dirty; cbn [ch out ncb is_dirty last_value has_cb svalues sn prop ctype dvalue].
  repeat split; cbn [ch out ncb is_dirty last_value has_cb svalues sn prop ctype dvalue r_stk]; try assumption; try reflexivity.
  all: try (rewrite Es; exact Ht).
  all: try (intros _; split; lia).
  all: try (intros _; exact Hpre).
  all: try (intros E; congruence).
  all: try exact Hlv.
  all: lia.
Qed.

(* ---------------------------------------------------------------- set *)

Lemma set_eq sp sx st r ov : Rep sp (ch st) r -> Clean sp (ch st) r -> cb_ok sx (ch st) ->
  op_rel sp sx st (Chan_gen.chan_set (Some tt) (inj ov)) (raw_apply sp r SET ov).
Proof.
  intros [Ht Hp Hl Hn Hs Hv] [Hd Hlv] Hcb. unfold op_rel.
  assert (Hra : raw_apply sp r SET ov =
                if cs_stack sp then Err E_STACK else
                if negb (cs_dup sp) && value_eqb (r_val r) ov then Err E_DUP else
                Ok ({| r_stk := r_stk r; r_val := ov |}, true)) by (destruct ov; reflexivity).
  rewrite Hra. clear Hra.
  unfold Chan_gen.chan_set. munf. cbn [is_null negb andb].
  unfold get_chan_type, get_chan_is_dirty, get_chan_last_value.
  rewrite Ht, Hd, Hlv. props Hp.
  change (cast_uint32 Chan_gen.c_CHAN_SINGLE) with 0.
  destruct (cs_stack sp) eqn:Es; cbn [Z.eqb Pos.eqb negb andb is_null].
  { exists E_FAIL. split; [reflexivity|discriminate]. }
  specialize (Hv eq_refl).
  unfold raw_read. rewrite Es, inj_eq.
  destruct (cs_dup sp) eqn:Edup; cbn [b2z Z.eqb negb andb].
  all: try (destruct (value_eqb (r_val r) ov) eqn:Ev; cbn [b2z Z.eqb negb];
            [exists E_FAIL; split; [reflexivity|discriminate]|]).
  all: split; [reflexivity|].
  all: unfold set_chan_data_value, upd_ch, with_ch; cbn [ch out ncb].
  all: rewrite set_dirty_clean by (cbn [ch is_dirty has_cb]; assumption).
  all: eexists; split; [reflexivity|]; unfold mark_dirty; cbn [ch out ncb is_dirty last_value has_cb svalues sn prop ctype dvalue].
  all: repeat split; cbn [ch out ncb is_dirty last_value has_cb svalues sn prop ctype dvalue r_stk r_val]; try assumption; try reflexivity.
  all: try (rewrite Es; exact Ht).
  all: try (rewrite Edup; exact Hp).
  all: try (intros E; congruence).
  all: try (unfold raw_read in Hlv; rewrite Es in Hlv; exact Hlv).
  all: congruence.
Qed.

(* ---------------------------------------------------------------- read and flush *)

(* the value get_value / chan_read compute *)
Definition cur_value (c : chan) : cvalue :=
  if negb (negb (ctype c =? 0)) then dvalue c
  else if sn c >? 0 then ix_cvalue (svalues c) (sn c - 1) else vnull.

Lemma cur_eq sp c r : Rep sp c r -> cur_value c = inj (raw_read sp r).
Proof.
  intros [Ht Hp Hl Hn Hs Hv]. unfold cur_value, raw_read. rewrite Ht.
  destruct (cs_stack sp) eqn:Es; cbn [Z.eqb Pos.eqb negb].
  - destruct (Hn eq_refl) as [Hsn Hle]. specialize (Hs eq_refl). rewrite Hsn.
    destruct (r_stk r) as [|x rest]; [reflexivity|]. cbn [length] in *.
    replace (Z.of_nat (S (length rest)) >? 0) with true by (symmetry; apply Z.gtb_lt; lia).
    unfold ix_cvalue. replace (Z.to_nat (Z.of_nat (S (length rest)) - 1)) with (length rest) by lia.
    cbn [rev] in Hs. rewrite map_app in Hs. cbn [map] in Hs.
    destruct (firstn_snoc_inv _ _ _ _ vnull Hs ltac:(rewrite map_length, rev_length; reflexivity)) as [Htop _].
    exact Htop.
  - exact (Hv eq_refl).
Qed.

Lemma get_value_run sx st p : p <> None -> (forall i, p <> Some (LStackAt i)) ->
  Chan_gen.get_value (Some tt) p sx st = store_ptr_value p (fun _ _ => cur_value (ch st)) sx st.
Proof.
  intros Hp Hs. unfold Chan_gen.get_value, cur_value. munf. cbn [is_null negb andb].
  unfold get_chan_type, addr_chan_data_stack, get_chan_stack_n, get_chan_data_value, get_chan_stack_values, value_null.
  change (cast_uint32 Chan_gen.c_CHAN_SINGLE) with 0.
  destruct p as [[| i |]|]; try (exfalso; apply Hp; reflexivity); try (exfalso; eapply Hs; reflexivity).
  all: destruct (negb (negb (ctype (ch st) =? 0))); cbn [is_null negb]; unfold store_ptr_value.
  all: try reflexivity.
  all: destruct (sn (ch st) >? 0); reflexivity.
Qed.

Lemma read_eq sp sx st r : Rep sp (ch st) r ->
  exec (Chan_gen.chan_read (Some tt) (Some LOut)) sx st =
  Ok {| ch := ch st; out := inj (raw_read sp r); ncb := ncb st |}.
Proof.
  intros HR. rewrite <- (cur_eq sp _ r HR).
  unfold Chan_gen.chan_read, cur_value. munf. cbn [is_null negb andb].
  unfold get_chan_type, addr_chan_data_stack, get_chan_stack_n, get_chan_data_value, get_chan_stack_values, value_null.
  change (cast_uint32 Chan_gen.c_CHAN_SINGLE) with 0.
  destruct (negb (negb (ctype (ch st) =? 0))); cbn [is_null negb]; unfold store_ptr_value; [reflexivity|].
  destruct (sn (ch st) >? 0); reflexivity.
Qed.

Lemma flush_eq sp sx st r : Rep sp (ch st) r -> is_dirty (ch st) = 1 ->
  exists st', exec (Chan_gen.chan_flush (Some tt)) sx st = Ok st' /\
              Rep sp (ch st') r /\ Clean sp (ch st') r /\ has_cb (ch st') = has_cb (ch st) /\
              out st' = out st /\ ncb st' = ncb st.
Proof.
  intros HR Hd. pose proof (cur_eq sp _ r HR) as Hc.
  unfold Chan_gen.chan_flush. munf. cbn [is_null negb]. unfold get_chan_is_dirty, addr_chan_last_value.
  rewrite Hd. cbn [Z.eqb negb].
  rewrite get_value_run by (intros; discriminate).
  unfold store_ptr_value, set_chan_is_dirty, upd_ch, with_ch, set_last. cbn [ch out ncb].
  eexists. split; [reflexivity|]. cbn [ch out ncb is_dirty last_value has_cb].
  destruct HR as [Ht Hp Hl Hn Hs Hv].
  repeat split; cbn [ch is_dirty prop ctype svalues sn dvalue last_value]; try assumption; try reflexivity.
  all: match goal with H : cs_stack _ = true |- _ => destruct (Hn H); assumption end.
Qed.

(* ---------------------------------------------------------------- statements for Props/Properties_C08.v *)

Theorem chan_ops_eq sp sx st r :
  Rep sp (ch st) r -> Clean sp (ch st) r -> cb_ok sx (ch st) ->
  (forall v, op_rel sp sx st (Chan_gen.chan_push (Some tt) (inj (Some v))) (raw_apply sp r PUSH (Some v))) /\
  (forall v, op_rel sp sx st (Chan_gen.chan_pop (Some tt) (inj (Some v))) (raw_apply sp r POP (Some v))) /\
  (forall ov, op_rel sp sx st (Chan_gen.chan_set (Some tt) (inj ov)) (raw_apply sp r SET ov)) /\
  exec (Chan_gen.chan_read (Some tt) (Some LOut)) sx st = Ok {| ch := ch st; out := inj (raw_read sp r); ncb := ncb st |}.
Proof.
  intros HR HC Hcb. repeat split.
  - intros v. apply push_eq; assumption.
  - intros v. apply pop_eq; assumption.
  - intros ov. apply set_eq; assumption.
  - apply read_eq; assumption.
Qed.

Theorem chan_flush_eq sp sx st r : Rep sp (ch st) r -> is_dirty (ch st) = 1 ->
  exists st', exec (Chan_gen.chan_flush (Some tt)) sx st = Ok st' /\
              Rep sp (ch st') r /\ Clean sp (ch st') r /\ has_cb (ch st') = has_cb (ch st) /\
              out st' = out st /\ ncb st' = ncb st.
Proof. exact (flush_eq sp sx st r). Qed.

(* a whole history of one stack channel: each event is the generated chan_push / chan_pop followed by the generated
   chan_flush (what the bay does at the end of the event) *)
Definition gen_sev (e : sev) : M unit :=
  match e with
  | Enter v => bind_ (Chan_gen.chan_push (Some tt) (inj (Some v))) (Chan_gen.chan_flush (Some tt))
  | Leave v => bind_ (Chan_gen.chan_pop (Some tt) (inj (Some v))) (Chan_gen.chan_flush (Some tt))
  end.

Fixpoint gen_chan_run (sx : cenv) (st : cstate) (evs : list sev) : option cstate :=
  match evs with
  | [] => Some st
  | e :: rest => match exec (gen_sev e) sx st with Ok st' => gen_chan_run sx st' rest | Err _ => None end
  end.

Lemma gen_sev_step sp sx st r e : Rep sp (ch st) r -> Clean sp (ch st) r -> cb_ok sx (ch st) ->
  match sev_apply sp r e with
  | Ok (r', _) => exists st', exec (gen_sev e) sx st = Ok st' /\ Rep sp (ch st') r' /\ Clean sp (ch st') r' /\ cb_ok sx (ch st')
  | Err _ => exists x, exec (gen_sev e) sx st = Err x
  end.
Proof.
  intros HR HC Hcb.
  assert (K : forall m res, op_rel sp sx st m res ->
            match res with
            | Ok (r', _) => exists st', exec (bind_ m (Chan_gen.chan_flush (Some tt))) sx st = Ok st' /\
                                        Rep sp (ch st') r' /\ Clean sp (ch st') r' /\ cb_ok sx (ch st')
            | Err _ => exists x, exec (bind_ m (Chan_gen.chan_flush (Some tt))) sx st = Err x
            end).
  { intros m [[r' d]|e0] H; cbn [op_rel] in H.
    - destruct H as (_ & st1 & E1 & R1 & D1 & _ & C1 & _).
      destruct (flush_eq sp sx st1 r' R1 D1) as (st2 & E2 & R2 & C2 & B2 & _).
      exists st2. split; [|split; [exact R2|split; [exact C2|]]].
      + unfold exec, bind_, bind in *. destruct (m sx st) as [[u s]|]; [|discriminate]. inversion E1; subst. exact E2.
      + unfold cb_ok in *. rewrite B2, C1. exact Hcb.
    - destruct H as (x & E1 & _). exists x. unfold exec, bind_, bind in *.
      destruct (m sx st) as [[u s]|]; [discriminate|]. exact E1. }
  destruct e as [v|v]; cbn [sev_apply gen_sev]; apply K; [apply push_eq|apply pop_eq]; assumption.
Qed.

Theorem gen_chan_run_eq sp sx evs : forall st r, Rep sp (ch st) r -> Clean sp (ch st) r -> cb_ok sx (ch st) ->
  match chan_run sp r evs, gen_chan_run sx st evs with
  | Some r', Some st' => Rep sp (ch st') r' /\ Clean sp (ch st') r'
  | None, None => True
  | _, _ => False
  end.
Proof.
  induction evs as [|e rest IH]; intros st r HR HC Hcb; cbn [chan_run gen_chan_run]; [split; assumption|].
  pose proof (gen_sev_step sp sx st r e HR HC Hcb) as K.
  destruct (sev_apply sp r e) as [[r' d]|x].
  - destruct K as (st' & E & R' & C' & B'). rewrite E. apply IH; assumption.
  - destruct K as (y & E). rewrite E. exact I.
Qed.

(* the channel chan_init + model_thread.c create for a raw stack channel of the spec *)
Definition chan0 (sp : chanspec) : chan :=
  {| is_dirty := 0; prop := [0; b2z (cs_dup sp); 0]; has_cb := false; last_value := vnull;
     ctype := 1; dvalue := vnull; sn := 0; svalues := repeat vnull MAX_CHAN_STACK |}.
Definition st0 (sp : chanspec) : cstate := {| ch := chan0 sp; out := vnull; ncb := 0 |}.

Lemma chan0_rep sp : cs_stack sp = true -> Rep sp (chan0 sp) (empty_stack_chan sp) /\ Clean sp (chan0 sp) (empty_stack_chan sp).
Proof.
  intros Es. split.
  - constructor; cbn [chan0 ctype prop svalues sn dvalue empty_stack_chan r_stk r_val length].
    + rewrite Es. reflexivity.
    + reflexivity.
    + apply repeat_length.
    + intros _. split; [reflexivity|apply Nat.le_0_l].
    + intros _. reflexivity.
    + congruence.
  - split; [reflexivity|]. unfold raw_read. rewrite Es. reflexivity.
Qed.

(* the generated code accepts exactly the histories the model's channel accepts *)
Theorem gen_chan_accepts sp sx evs : cs_stack sp = true ->
  (exists st', gen_chan_run sx (st0 sp) evs = Some st') <-> (exists r', chan_run sp (empty_stack_chan sp) evs = Some r').
Proof.
  intros Es. destruct (chan0_rep sp Es) as [R C].
  pose proof (gen_chan_run_eq sp sx evs (st0 sp) _ R C ltac:(intros H; discriminate H)) as K.
  destruct (chan_run sp (empty_stack_chan sp) evs), (gen_chan_run sx (st0 sp) evs); try contradiction.
  - split; eauto.
  - split; intros [x H]; discriminate H.
Qed.
