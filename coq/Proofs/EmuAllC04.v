(* C04 on the whole emulator, in full: for traces of thread / affinity events the composed model accepts iff every stage passes and
   the merged history follows the documented machine - the Paraver writer never refuses what the core accepts (PvWriterTotal). *)
From Coq Require Import ZArith List Bool Lia Sorted.
From OV Require Import Emu.EmuCoreDefs Emu.DecodeDefs Emu.MarkDefs Emu.PvDefs Emu.SysStaticDefs Emu.EmuAllDefs Emu.ThreadSpecDefs
  Proofs.PvProofs Proofs.EmuAllProofs Proofs.EmuAllStage Proofs.EmuCoreWf Proofs.TotalProofs Proofs.PrvProofs.
From OV Require Emu.MetaDefs Rt.MarkJsonDefs Emu.ClkoffDefs Emu.PlayerDefs Proofs.PvWriterTotal Proofs.PvTotalProofs.
Import ListNotations.
Local Open Scope Z_scope.

Lemma stage_enabled inp sys en ms revs : stage inp = inr (sys, en, ms, revs) -> enabled_models (sorted_streams inp) (in_all inp) = Some en.
Proof.
  intros S. unfold stage in S. set (ss := sorted_streams inp) in *.
  destruct (first_bad_meta ss ss); [discriminate|]. destruct (load_all ss); [discriminate|].
  destruct (MetaDefs.build _) as [sys0| |]; try discriminate. destruct (enabled_models ss (in_all inp)) as [en0|]; [|discriminate].
  destruct (MarkJsonDefs.emu_types_of_trees _); [|discriminate].
  match type of S with context [ClkoffDefs.run_emu_table ?t ?e] => destruct (ClkoffDefs.run_emu_table t e) as [[oevs v]| |] end; try discriminate.
  destruct v; try discriminate. match type of S with context [all_some ?l] => destruct (all_some l) end; [|discriminate].
  injection S as _ <- _ _. reflexivity.
Qed.

(* thread / affinity events create no task types *)
Lemma oh_step_types sx st who e s : oh_step sx st who e = Ok s -> types s = types st.
Proof.
  unfold oh_step, change_state, migrate. intros H.
  repeat match type of H with
  | context [match ?x with _ => _ end] => destruct x; try discriminate H
  end; inversion H; reflexivity.
Qed.

Lemma oh_run_types sx h : forall st st' tl, run_from sx st (oh_events h) = Ok (st', tl) -> types st' = types st.
Proof.
  induction h as [|[[tm who] e] h IH]; intros st st' tl H; cbn [oh_events map run_from] in H; [now injection H as <- _|].
  fold (oh_events h) in H. unfold step in H. cbn [core_step] in H. destruct (oh_step sx st who e) as [s|] eqn:E; [|discriminate].
  destruct (emit_all _ _) as [[last' ls]|]; [|discriminate]. destruct (run_from sx (set_last s last') (oh_events h)) as [[st2 ls2]|] eqn:Er; [|discriminate].
  injection H as <- _. rewrite (IH _ _ _ Er). cbn [set_last types]. now apply oh_step_types in E.
Qed.

(* C04, whole emulator, both directions *)
Theorem all_accept_iff inp sys en ms revs h : stage inp = inr (sys, en, ms, revs) ->
  let sx := stage_sx inp sys en ms in
  decode_revs en sx revs = oh_events h ->
  types_ok sx -> any_init_ok sx -> OhStatic sx ->
  marks_ok ms -> PvTotalProofs.marks_fine ms -> PvTotalProofs.sys_small sys -> StronglySorted Z.le (map ev_time (oh_events h)) ->
  ((exists out, ovniemu_model inp = Files out) <-> spec_accepts sx (untimed h) = true).
Proof.
  intros S sx Eh T A O Mk Mf (S1 & S2 & S3) Srt.
  destruct (all_accept_iff_partial inp sys en ms revs h S Eh T A O) as [D1 D2]. split; [exact D1|]. apply D2.
  intros ls R. unfold stage_emulate. fold sx. rewrite Eh in *.
  apply (PvWriterTotal.emulate_total sx (sys_phy sys) en ms (lint_chans (mk_chans en)) (tlabels_of sx revs) (oh_events h) ls); auto.
  - split; [apply PvTotalProofs.sys_phy_length|]. split; [exact S1|]. intros ci p Hin. rewrite Forall_forall in S2, S3.
    split; [apply S2; eapply in_combine_r; exact Hin|apply S3; eapply in_combine_l; exact Hin].
  - exact (enabled_has_ovni _ _ _ (stage_enabled _ _ _ _ _ S)).
  - first [exact R | rewrite <- Eh; exact R].
  - intros st tl' Er. now rewrite (oh_run_types sx h _ _ _ Er).
Qed.
