(* C20 unification, part 2: the special-purpose model of the per-CPU breakdown pipeline (SortDefs, section Breakdown:
   run_cbs / add_dirty / propagate / apply_writes / cpu_event) is an instance of the bay model: on the wiring
   BayBreakdownDefs builds with BayDefs (two muxes with the custom select functions, the reselect callback, the sort
   input callback), BayDefs.apply_writes + BayDefs.propagate compute what SortDefs.cpu_event computes, for every batch
   of writes of null / integer values. *)
From Coq Require Import ZArith List Bool Lia Arith.
From OV Require Import Emu.EmuCoreDefs Emu.BayDefs Emu.BayBreakdownDefs Emu.BayBreakdownRelDefs.
From OV Require Emu.SortDefs.
From OV Require Import Proofs.BayBreakdownSteps.
Import ListNotations.
Local Open Scope Z_scope.

(* the dirty list of the special-purpose model: the bay's without the sink channel *)
Definition sdl (q : list nat) : list SD.chn := map chn_of (filter (fun x => negb (Nat.eqb x 5)) q).

Definition eqo (w : option nat) (c : nat) : bool := match w with Some x => Nat.eqb x c | None => false end.
Definition ws_of (w : option nat) (two : bool) : list SD.chn :=
  match w with
  | Some 3%nat => if two then [SD.TR; SD.TR] else [SD.TR]
  | Some 4%nat => if two then [SD.TRI; SD.TRI] else [SD.TRI]
  | _ => []
  end.

(* dirty flags and dirty list agree *)
Record DI (s : bdst) : Prop := {
  di_nodup : NoDup (q_dirty s);
  di_lt : forall c, In c (q_dirty s) -> (c < 6)%nat;
  di_flag : forall c, (c < 6)%nat -> (dflag s c = true <-> In c (q_dirty s))
}.
Definition wr (s : bdst) (c : nat) (v : value) : bdst :=
  match c with
  | 0%nat => {| v_ss := v; v_tt := v_tt s; v_idle := v_idle s; v_tr := v_tr s; v_tri := v_tri s; v_sink := v_sink s; l_ss := l_ss s; l_tt := l_tt s; l_idle := l_idle s; l_tr := l_tr s; l_tri := l_tri s; l_sink := l_sink s; d_ss := true; d_tt := d_tt s; d_idle := d_idle s; d_tr := d_tr s; d_tri := d_tri s; d_sink := d_sink s; e_sel0 := e_sel0 s; e_sel1 := e_sel1 s; m_s0 := m_s0 s; m_s1 := m_s1 s; q_dirty := (if d_ss s then q_dirty s else q_dirty s ++ [0%nat]) |}
  | 1%nat => {| v_ss := v_ss s; v_tt := v; v_idle := v_idle s; v_tr := v_tr s; v_tri := v_tri s; v_sink := v_sink s; l_ss := l_ss s; l_tt := l_tt s; l_idle := l_idle s; l_tr := l_tr s; l_tri := l_tri s; l_sink := l_sink s; d_ss := d_ss s; d_tt := true; d_idle := d_idle s; d_tr := d_tr s; d_tri := d_tri s; d_sink := d_sink s; e_sel0 := e_sel0 s; e_sel1 := e_sel1 s; m_s0 := m_s0 s; m_s1 := m_s1 s; q_dirty := (if d_tt s then q_dirty s else q_dirty s ++ [1%nat]) |}
  | _ => {| v_ss := v_ss s; v_tt := v_tt s; v_idle := v; v_tr := v_tr s; v_tri := v_tri s; v_sink := v_sink s; l_ss := l_ss s; l_tt := l_tt s; l_idle := l_idle s; l_tr := l_tr s; l_tri := l_tri s; l_sink := l_sink s; d_ss := d_ss s; d_tt := d_tt s; d_idle := true; d_tr := d_tr s; d_tri := d_tri s; d_sink := d_sink s; e_sel0 := e_sel0 s; e_sel1 := e_sel1 s; m_s0 := m_s0 s; m_s1 := m_s1 s; q_dirty := (if d_idle s then q_dirty s else q_dirty s ++ [2%nat]) |}
  end.

Definition fl (s : bdst) (c : nat) : bdst :=
  match c with
  | 0%nat => {| v_ss := v_ss s; v_tt := v_tt s; v_idle := v_idle s; v_tr := v_tr s; v_tri := v_tri s; v_sink := v_sink s; l_ss := v_ss s; l_tt := l_tt s; l_idle := l_idle s; l_tr := l_tr s; l_tri := l_tri s; l_sink := l_sink s; d_ss := false; d_tt := d_tt s; d_idle := d_idle s; d_tr := d_tr s; d_tri := d_tri s; d_sink := d_sink s; e_sel0 := e_sel0 s; e_sel1 := e_sel1 s; m_s0 := m_s0 s; m_s1 := m_s1 s; q_dirty := q_dirty s |}
  | 1%nat => {| v_ss := v_ss s; v_tt := v_tt s; v_idle := v_idle s; v_tr := v_tr s; v_tri := v_tri s; v_sink := v_sink s; l_ss := l_ss s; l_tt := v_tt s; l_idle := l_idle s; l_tr := l_tr s; l_tri := l_tri s; l_sink := l_sink s; d_ss := d_ss s; d_tt := false; d_idle := d_idle s; d_tr := d_tr s; d_tri := d_tri s; d_sink := d_sink s; e_sel0 := e_sel0 s; e_sel1 := e_sel1 s; m_s0 := m_s0 s; m_s1 := m_s1 s; q_dirty := q_dirty s |}
  | 2%nat => {| v_ss := v_ss s; v_tt := v_tt s; v_idle := v_idle s; v_tr := v_tr s; v_tri := v_tri s; v_sink := v_sink s; l_ss := l_ss s; l_tt := l_tt s; l_idle := v_idle s; l_tr := l_tr s; l_tri := l_tri s; l_sink := l_sink s; d_ss := d_ss s; d_tt := d_tt s; d_idle := false; d_tr := d_tr s; d_tri := d_tri s; d_sink := d_sink s; e_sel0 := e_sel0 s; e_sel1 := e_sel1 s; m_s0 := m_s0 s; m_s1 := m_s1 s; q_dirty := q_dirty s |}
  | 3%nat => {| v_ss := v_ss s; v_tt := v_tt s; v_idle := v_idle s; v_tr := v_tr s; v_tri := v_tri s; v_sink := v_sink s; l_ss := l_ss s; l_tt := l_tt s; l_idle := l_idle s; l_tr := v_tr s; l_tri := l_tri s; l_sink := l_sink s; d_ss := d_ss s; d_tt := d_tt s; d_idle := d_idle s; d_tr := false; d_tri := d_tri s; d_sink := d_sink s; e_sel0 := e_sel0 s; e_sel1 := e_sel1 s; m_s0 := m_s0 s; m_s1 := m_s1 s; q_dirty := q_dirty s |}
  | 4%nat => {| v_ss := v_ss s; v_tt := v_tt s; v_idle := v_idle s; v_tr := v_tr s; v_tri := v_tri s; v_sink := v_sink s; l_ss := l_ss s; l_tt := l_tt s; l_idle := l_idle s; l_tr := l_tr s; l_tri := v_tri s; l_sink := l_sink s; d_ss := d_ss s; d_tt := d_tt s; d_idle := d_idle s; d_tr := d_tr s; d_tri := false; d_sink := d_sink s; e_sel0 := e_sel0 s; e_sel1 := e_sel1 s; m_s0 := m_s0 s; m_s1 := m_s1 s; q_dirty := q_dirty s |}
  | _ => {| v_ss := v_ss s; v_tt := v_tt s; v_idle := v_idle s; v_tr := v_tr s; v_tri := v_tri s; v_sink := v_sink s; l_ss := l_ss s; l_tt := l_tt s; l_idle := l_idle s; l_tr := l_tr s; l_tri := l_tri s; l_sink := v_sink s; d_ss := d_ss s; d_tt := d_tt s; d_idle := d_idle s; d_tr := d_tr s; d_tri := d_tri s; d_sink := false; e_sel0 := e_sel0 s; e_sel1 := e_sel1 s; m_s0 := m_s0 s; m_s1 := m_s1 s; q_dirty := q_dirty s |}
  end.

Definition setq (s : bdst) (l : list nat) : bdst :=
  {| v_ss := v_ss s; v_tt := v_tt s; v_idle := v_idle s; v_tr := v_tr s; v_tri := v_tri s; v_sink := v_sink s; l_ss := l_ss s; l_tt := l_tt s; l_idle := l_idle s; l_tr := l_tr s; l_tri := l_tri s; l_sink := l_sink s; d_ss := d_ss s; d_tt := d_tt s; d_idle := d_idle s; d_tr := d_tr s; d_tri := d_tri s; d_sink := d_sink s; e_sel0 := e_sel0 s; e_sel1 := e_sel1 s; m_s0 := m_s0 s; m_s1 := m_s1 s; q_dirty := l |}.


(* ---- lists *)
Lemma sdl_app a b : sdl (a ++ b) = sdl a ++ sdl b.
Proof. unfold sdl. rewrite filter_app, map_app. reflexivity. Qed.

Lemma chn_eqb_refl x : SD.chn_eqb x x = true. Proof. destruct x; reflexivity. Qed.
Lemma chn_eqb_eq x y : SD.chn_eqb x y = true -> x = y. Proof. destruct x, y; simpl; congruence. Qed.

Lemma chn_of_inj a b : (a < 5)%nat -> (b < 5)%nat -> chn_of a = chn_of b -> a = b.
Proof.
  intros Ha Hb. do 5 (destruct a as [|a]; [do 5 (destruct b as [|b]; [simpl; congruence|]); lia|]). lia.
Qed.

Lemma has_sdl x q : (x < 5)%nat -> (forall c, In c q -> (c < 6)%nat) -> (has (chn_of x) (sdl q) = true <-> In x q).
Proof.
  intros Hx Hq. unfold has, sdl. rewrite existsb_exists. split.
  - intros [y [Hy He]]. apply chn_eqb_eq in He. apply in_map_iff in Hy. destruct Hy as [c [Hc Hin]].
    apply filter_In in Hin. destruct Hin as [Hin Hn]. apply negb_true_iff, Nat.eqb_neq in Hn.
    assert (c < 5)%nat by (specialize (Hq c Hin); lia).
    assert (x = c) by (apply chn_of_inj; congruence). subst. exact Hin.
  - intros Hin. exists (chn_of x). split; [|apply chn_eqb_refl].
    apply in_map. apply filter_In. split; [exact Hin|]. apply negb_true_iff, Nat.eqb_neq. lia.
Qed.

Lemma add_dirty_one x d : SD.add_dirty [x] d = if has x d then d else d ++ [x].
Proof. reflexivity. Qed.
Lemma add_dirty_two x d : SD.add_dirty [x; x] d = SD.add_dirty [x] d.
Proof.
  cbn. destruct (existsb (SD.chn_eqb x) d) eqn:E.
  - rewrite E. reflexivity.
  - rewrite existsb_app. cbn. rewrite chn_eqb_refl, orb_true_r. reflexivity.
Qed.

Lemma firstn_S_nth {A} (l : list A) i x : nth_error l i = Some x -> firstn (S i) l = firstn i l ++ [x].
Proof.
  revert i. induction l as [|a l IH]; intros [|i] H; simpl in *; try discriminate.
  - injection H as <-. reflexivity.
  - rewrite (IH i H). reflexivity.
Qed.

Lemma split_nth {A} (l : list A) i x : nth_error l i = Some x -> l = firstn i l ++ x :: skipn (S i) l.
Proof.
  revert i. induction l as [|a l IH]; intros [|i] H; simpl in *; try discriminate.
  - injection H as <-. reflexivity.
  - f_equal. exact (IH i H).
Qed.

Lemma len_le6 q : NoDup q -> (forall c, In c q -> (c < 6)%nat) -> (length q <= 6)%nat.
Proof.
  intros Hn Hq. change 6%nat with (length (seq 0 6)). apply NoDup_incl_length; [exact Hn|].
  intros c Hc. apply in_seq. specialize (Hq c Hc). lia.
Qed.

Lemma len_sdl_le5 q : NoDup q -> (forall c, In c q -> (c < 6)%nat) -> (length (sdl q) <= 5)%nat.
Proof.
  intros Hn Hq. unfold sdl. rewrite map_length. apply Nat.le_trans with (length (seq 0 5)); [|simpl; lia].
  apply NoDup_incl_length; [apply NoDup_filter; exact Hn|].
  intros c Hc. apply filter_In in Hc. destruct Hc as [Hc Hne]. apply negb_true_iff, Nat.eqb_neq in Hne.
  apply in_seq. specialize (Hq c Hc). lia.
Qed.

Lemma nodup_snoc {A} (l : list A) x : NoDup l -> ~ In x l -> NoDup (l ++ [x]).
Proof.
  induction l as [|a l IH]; intros Hn Hx; simpl.
  - constructor; [intros []|constructor].
  - inversion Hn; subst. constructor.
    + rewrite in_app_iff. intros [H|[H|[]]]; [contradiction|]. apply Hx. left. symmetry. exact H.
    + apply IH; [assumption|]. intros H. apply Hx. right. exact H.
Qed.

(* chan_set()'s effect on flags and dirty list, and what the special-purpose add_dirty does *)
Lemma add_inv s s' x : DI s -> (x < 6)%nat ->
  q_dirty s' = (if dflag s x then q_dirty s else q_dirty s ++ [x]) ->
  (forall c', (c' < 6)%nat -> dflag s' c' = dflag s c' || Nat.eqb x c') ->
  DI s' /\ sdl (q_dirty s') = (if Nat.eqb x 5 then sdl (q_dirty s) else SD.add_dirty [chn_of x] (sdl (q_dirty s))).
Proof.
  intros [Hnd Hlt Hfg] Hx Hq Hfl.
  destruct (dflag s x) eqn:Ed.
  - assert (Hin : In x (q_dirty s)) by (apply Hfg; assumption).
    split.
    + constructor; rewrite Hq; [exact Hnd|exact Hlt|]. intros c' Hc'. rewrite (Hfl c' Hc'). destruct (Nat.eqb x c') eqn:E.
      * apply Nat.eqb_eq in E. subst c'. rewrite orb_true_r. split; [intros _; exact Hin|reflexivity].
      * rewrite orb_false_r. apply Hfg, Hc'.
    + rewrite Hq. destruct (Nat.eqb x 5) eqn:E5; [reflexivity|]. apply Nat.eqb_neq in E5.
      rewrite add_dirty_one.
      assert (Hh : has (chn_of x) (sdl (q_dirty s)) = true) by (apply has_sdl; [lia|exact Hlt|exact Hin]).
      rewrite Hh. reflexivity.
  - assert (Hni : ~ In x (q_dirty s)) by (intros Hi; apply Hfg in Hi; [congruence|exact Hx]).
    split.
    + constructor; rewrite Hq.
      * apply nodup_snoc; assumption.
      * intros c' Hi. apply in_app_or in Hi. destruct Hi as [Hi|[<-|[]]]; [apply Hlt, Hi|exact Hx].
      * intros c' Hc'. rewrite (Hfl c' Hc'), in_app_iff. destruct (Nat.eqb x c') eqn:E.
        -- apply Nat.eqb_eq in E. subst c'. rewrite orb_true_r. split; [intros _; right; left; reflexivity|reflexivity].
        -- rewrite orb_false_r. apply Nat.eqb_neq in E. split.
           ++ intros H. left. apply Hfg; assumption.
           ++ intros [H|[H|[]]]; [apply Hfg; assumption|congruence].
    + rewrite Hq, sdl_app. destruct (Nat.eqb x 5) eqn:E5.
      * apply Nat.eqb_eq in E5. subst x. simpl. apply app_nil_r.
      * assert (E1 : sdl [x] = [chn_of x]) by (unfold sdl; simpl; rewrite E5; reflexivity).
        rewrite E1, add_dirty_one. destruct (has (chn_of x) (sdl (q_dirty s))) eqn:Eh; [|reflexivity].
        apply has_sdl in Eh; [contradiction|apply Nat.eqb_neq in E5; lia|exact Hlt].
Qed.

Section BdInst.
  Variable fx : bool.
  Variables BODY UNKNOWN PROG : Z.
  Local Notation bb := (bd_bay fx BODY UNKNOWN PROG).
  Local Notation stp := (stepf fx BODY UNKNOWN PROG).
  Local Notation srun := (SD.run_cbs fx BODY UNKNOWN PROG).

  Ltac eqbs := repeat match goal with |- context [(?a =? ?b)] => destruct (a =? b) eqn:? end.
  Ltac d6 c tac := do 6 (destruct c as [|c]; [tac|]).

  (* ---- one walk, summarised (exhaustive case analysis on the special-purpose model only) *)
  Ltac chk :=
    split; [intros Hn; first [reflexivity | exfalso; apply Hn; reflexivity]
    | split; [reflexivity
    | split; [intros x Hx; first [discriminate Hx | injection Hx as <-; lia]
    | let c' := fresh "c'" in let Hc' := fresh "Hc'" in
      intros c' Hc'; do 6 (destruct c' as [|c']; [first [reflexivity | match goal with |- ?b = _ => destruct b; reflexivity end]|]); lia]]].
  Ltac solve_sum :=
    first [ solve [exists None, false; chk] | solve [exists (Some 3%nat), false; chk] | solve [exists (Some 3%nat), true; chk]
          | solve [exists (Some 4%nat), false; chk] | solve [exists (Some 4%nat), true; chk] | solve [exists (Some 5%nat), false; chk] ].

  Lemma stepf_sum s c : (c < 6)%nat -> exists w two,
    (c <> 5%nat -> snd (srun (wires_of s) (chn_of c)) = ws_of w two) /\
    q_dirty (stp s c) = (match w with Some x => if dflag s x then q_dirty s else q_dirty s ++ [x] | None => q_dirty s end) /\
    (forall x, w = Some x -> (3 <= x < 6)%nat) /\
    (forall c', (c' < 6)%nat -> dflag (stp s c) c' = dflag s c' || eqo w c').
  Proof.
    intros Hc. destruct s as [a1 a2 a3 a4 a5 a6 b1 b2 b3 b4 b5 b6 c1 c2 c3 c4 c5 c6 e0 e1 s0 s1 q].
    destruct c as [|c]; [destruct a1, a2, e0 as [[|]|], c4, fx; cbv -[Z.eqb]; eqbs; solve_sum|].
    destruct c as [|c]; [destruct a1, a2, e0 as [[|]|], c4, fx; cbv -[Z.eqb]; eqbs; solve_sum|].
    destruct c as [|c]; [destruct a3, c5; cbv -[Z.eqb]; eqbs; solve_sum|].
    destruct c as [|c]; [destruct e1 as [[|]|], c5; cbv -[Z.eqb]; eqbs; solve_sum|].
    destruct c as [|c]; [destruct c6; cbv -[Z.eqb]; eqbs; solve_sum|].
    destruct c as [|c]; [cbv -[Z.eqb]; solve_sum|]. lia.
  Qed.

  Lemma stepf_wires s c : (c < 5)%nat -> wires_of (stp s c) = fst (srun (wires_of s) (chn_of c)).
  Proof.
    intros Hc. destruct s as [a1 a2 a3 a4 a5 a6 b1 b2 b3 b4 b5 b6 c1 c2 c3 c4 c5 c6 e0 e1 s0 s1 q].
    destruct c as [|c]; [destruct a1, a2, e0 as [[|]|], fx; cbv -[Z.eqb]; eqbs; reflexivity|].
    destruct c as [|c]; [destruct a1, a2, e0 as [[|]|], fx; cbv -[Z.eqb]; eqbs; reflexivity|].
    destruct c as [|c]; [destruct a3, a4; cbv -[Z.eqb]; eqbs; reflexivity|].
    destruct c as [|c]; [destruct a4, e1 as [[|]|]; cbv -[Z.eqb]; eqbs; reflexivity|].
    destruct c as [|c]; [destruct a5; cbv -[Z.eqb]; eqbs; reflexivity|]. lia.
  Qed.

  Lemma stepf_ok s c : (c < 6)%nat -> OKs s -> OKs (stp s c).
  Proof.
    intros Hc [H0 H1]. destruct s as [a1 a2 a3 a4 a5 a6 b1 b2 b3 b4 b5 b6 c1 c2 c3 c4 c5 c6 e0 e1 s0 s1 q].
    unfold OKs. cbn [e_sel0 e_sel1 m_s0 m_s1] in H0, H1.
    destruct c as [|c]; [destruct a1, a2, e0 as [[|]|], fx; cbv -[Z.eqb okS]; eqbs; split; cbn [okS]; auto|].
    destruct c as [|c]; [destruct a1, a2, e0 as [[|]|], fx; cbv -[Z.eqb okS]; eqbs; split; cbn [okS]; auto|].
    destruct c as [|c]; [destruct a3, fx; cbv -[Z.eqb okS]; eqbs; split; cbn [okS]; auto|].
    destruct c as [|c]; [destruct e1 as [[|]|], fx; cbv -[Z.eqb okS]; eqbs; split; cbn [okS]; auto|].
    destruct c as [|c]; [destruct fx; cbv -[Z.eqb okS]; split; auto|].
    destruct c as [|c]; [destruct fx; cbv -[Z.eqb okS]; split; auto|]. lia.
  Qed.

  Lemma step_inv s c : (c < 6)%nat -> DI s ->
    DI (stp s c) /\
    (c <> 5%nat -> sdl (q_dirty (stp s c)) = SD.add_dirty (snd (srun (wires_of s) (chn_of c))) (sdl (q_dirty s))) /\
    (exists ext, q_dirty (stp s c) = q_dirty s ++ ext).
  Proof.
    intros Hc Hdi. destruct (stepf_sum s c Hc) as (w & two & Hws & Hq & Hw & Hfl).
    destruct w as [x|].
    2:{ destruct Hdi as [Hnd Hlt Hfg]. split; [|split].
        - constructor; rewrite Hq; [exact Hnd|exact Hlt|]. intros c' Hc'. rewrite (Hfl c' Hc'). simpl. rewrite orb_false_r. apply Hfg, Hc'.
        - intros Hn. rewrite Hq, (Hws Hn). reflexivity.
        - exists []. rewrite app_nil_r. exact Hq. }
    specialize (Hw x eq_refl). assert (Hx6 : (x < 6)%nat) by lia.
    destruct (add_inv s (stp s c) x Hdi Hx6 Hq Hfl) as [Hdi' Hs].
    split; [exact Hdi'|split].
    - intros Hn. rewrite Hs, (Hws Hn).
      assert (Hx : x = 3%nat \/ x = 4%nat \/ x = 5%nat) by lia.
      destruct Hx as [->|[->| ->]]; simpl Nat.eqb; cbv iota.
      + destruct two; [symmetry; apply add_dirty_two|reflexivity].
      + destruct two; [symmetry; apply add_dirty_two|reflexivity].
      + reflexivity.
    - destruct (dflag s x); [exists []; rewrite app_nil_r|exists [x]]; exact Hq.
  Qed.

  (* ---- the dirty phase *)
  Lemma loop fuel : forall fuel' i s, DI s -> OKs s -> (i <= length (q_dirty s))%nat -> (fuel + i >= 7)%nat ->
    (fuel' + length (sdl (firstn i (q_dirty s))) >= 6)%nat ->
    exists s', dirty_phase fuel i (bb s) = Ok (bb s') /\
      SD.propagate fx BODY UNKNOWN PROG fuel' (length (sdl (firstn i (q_dirty s)))) (sdl (q_dirty s)) (wires_of s) = Some (wires_of s') /\
      DI s' /\ OKs s'.
  Proof.
    induction fuel as [|f IH]; intros f' i s Hdi Hok Hi Hf Hf'.
    - exfalso. pose proof (len_le6 _ (di_nodup _ Hdi) (di_lt _ Hdi)). lia.
    - cbn [dirty_phase]. change (b_dirty (bb s)) with (q_dirty s).
      pose proof (len_sdl_le5 _ (di_nodup _ Hdi) (di_lt _ Hdi)) as H5.
      destruct (nth_error (q_dirty s) i) as [c|] eqn:En.
      2:{ apply nth_error_None in En. exists s. split; [reflexivity|]. split; [|auto].
          assert (Ef : firstn i (q_dirty s) = q_dirty s) by (apply firstn_all2; lia).
          rewrite Ef in *.
          destruct f' as [|f']; [lia|]. cbn [SD.propagate].
          assert (En2 : nth_error (sdl (q_dirty s)) (length (sdl (q_dirty s))) = None) by (apply nth_error_None; lia).
          rewrite En2. reflexivity. }
      assert (Hc : (c < 6)%nat) by (apply (di_lt _ Hdi), (nth_error_In _ _ En)).
      rewrite (step fx BODY UNKNOWN PROG s c Hc (proj1 Hok) (proj2 Hok)).
      destruct (step_inv s c Hc Hdi) as (Hdi' & Hsdl & ext & Hext).
      pose proof (stepf_ok s c Hc Hok) as Hok'.
      assert (Hi' : (i < length (q_dirty s))%nat) by (apply nth_error_Some; congruence).
      assert (Hfn : firstn (S i) (q_dirty (stp s c)) = firstn i (q_dirty s) ++ [c]).
      { rewrite Hext, firstn_app. replace (S i - length (q_dirty s))%nat with 0%nat by lia.
        rewrite firstn_O, app_nil_r. apply firstn_S_nth, En. }
      assert (Hlen' : (S i <= length (q_dirty (stp s c)))%nat) by (rewrite Hext, app_length; lia).
      destruct (Nat.eq_dec c 5) as [->|Hn5].
      + (* the sink: nothing hangs on it *)
        destruct (IH f' (S i) (stp s 5%nat) Hdi' Hok' Hlen') as (s' & H1 & H2 & H3).
        * lia.
        * rewrite Hfn, sdl_app. simpl (sdl [5%nat]). rewrite app_nil_r. exact Hf'.
        * exists s'. split; [exact H1|]. split; [|exact H3].
          rewrite Hfn, sdl_app in H2. simpl (sdl [5%nat]) in H2. rewrite app_nil_r in H2.
          change (stp s 5%nat) with s in H2. exact H2.
      + assert (E5 : Nat.eqb c 5 = false) by (apply Nat.eqb_neq; exact Hn5).
        assert (E1 : sdl [c] = [chn_of c]) by (unfold sdl; simpl; rewrite E5; reflexivity).
        set (k := length (sdl (firstn i (q_dirty s)))) in *.
        assert (Hk : nth_error (sdl (q_dirty s)) k = Some (chn_of c)).
        { rewrite (split_nth _ _ _ En), sdl_app. change (c :: skipn (S i) (q_dirty s)) with ([c] ++ skipn (S i) (q_dirty s)).
          rewrite sdl_app, E1. rewrite nth_error_app2 by (subst k; lia). subst k. rewrite Nat.sub_diag. reflexivity. }
        assert (Hk5 : (k < length (sdl (q_dirty s)))%nat) by (apply nth_error_Some; congruence).
        destruct f' as [|f']; [lia|]. cbn [SD.propagate]. rewrite Hk.
        pose proof (stepf_wires s c ltac:(lia)) as Hw. pose proof (Hsdl Hn5) as Hs.
        destruct (srun (wires_of s) (chn_of c)) as [st' ws]. cbn [fst snd] in Hw, Hs. subst st'. rewrite <- Hs.
        destruct (IH f' (S i) (stp s c) Hdi' Hok' Hlen') as (s' & H1 & H2 & H3).
        * lia.
        * rewrite Hfn, sdl_app, app_length, E1. simpl length. fold k. lia.
        * exists s'. split; [exact H1|]. split; [|exact H3].
          rewrite Hfn, sdl_app, app_length, E1 in H2. simpl length in H2. fold k in H2. rewrite Nat.add_1_r in H2. exact H2.
  Qed.

  (* ---- the writes of the event *)
  Lemma wr_chan_set s c v : (c < 3)%nat -> chan_set (bb s) c v = Ok (bb (wr s c v)).
  Proof.
    intros Hc. destruct s as [a1 a2 a3 a4 a5 a6 b1 b2 b3 b4 b5 b6 c1 c2 c3 c4 c5 c6 e0 e1 s0 s1 q].
    destruct c as [|c]; [destruct c1; reflexivity|].
    destruct c as [|c]; [destruct c2; reflexivity|].
    destruct c as [|c]; [destruct c3; reflexivity|]. lia.
  Qed.

  Lemma wr_sum s c v : (c < 3)%nat ->
    q_dirty (wr s c v) = (if dflag s c then q_dirty s else q_dirty s ++ [c]) /\
    (forall c', (c' < 6)%nat -> dflag (wr s c v) c' = dflag s c' || Nat.eqb c c').
  Proof.
    intros Hc. do 3 (destruct c as [|c]; [split; [reflexivity|intros c' Hc'; do 6 (destruct c' as [|c']; [simpl; rewrite ?orb_false_r, ?orb_true_r; reflexivity|]); lia]|]). lia.
  Qed.

  Lemma wr_wires s c v : wires_of (wr s (nat_of_cin c) v) = SD.write_cin (wires_of s) c (emb v).
  Proof. destruct c; reflexivity. Qed.

  Lemma wr_ok s c v : OKs s -> OKs (wr s c v).
  Proof. destruct c as [|[|c]]; exact (fun H => H). Qed.

  Lemma writes b : forall s, DI s -> OKs s ->
    exists s1, apply_writes (bb s) (map wop_of b) = Ok (bb s1) /\
      SD.apply_writes (map emb_w b) (wires_of s) (sdl (q_dirty s)) = (wires_of s1, sdl (q_dirty s1)) /\ DI s1 /\ OKs s1.
  Proof.
    induction b as [|[c v] r IH]; intros s Hd Ho.
    - exists s. simpl. auto.
    - assert (Hc : (nat_of_cin c < 3)%nat) by (destruct c; simpl; lia).
      destruct (wr_sum s (nat_of_cin c) v Hc) as [Hq Hfl].
      destruct (add_inv s (wr s (nat_of_cin c) v) (nat_of_cin c) Hd ltac:(lia) Hq Hfl) as [Hd' Hs].
      destruct (IH (wr s (nat_of_cin c) v) Hd' (wr_ok s _ v Ho)) as (s1 & H1 & H2 & H3).
      exists s1. split; [|split; [|exact H3]].
      + simpl map. unfold wop_of at 1. cbn [fst snd apply_writes apply_wop]. rewrite (wr_chan_set s _ v Hc). exact H1.
      + simpl map. unfold emb_w at 1. cbn [fst snd SD.apply_writes]. rewrite <- wr_wires.
        assert (E : SD.add_dirty [SD.cin_chn c] (sdl (q_dirty s)) = sdl (q_dirty (wr s (nat_of_cin c) v))).
        { rewrite Hs. destruct c; reflexivity. }
        rewrite E. exact H2.
  Qed.

  (* ---- emit phase (no emit callbacks in this wiring) and flush *)
  Lemma chan_ex s c : (c < 6)%nat -> exists ch, nth_error (b_chans (bb s)) c = Some ch /\ ecbs_of (bb s) c = [].
  Proof. intros Hc. do 6 (destruct c as [|c]; [eexists; split; reflexivity|]). lia. Qed.

  Lemma emit_nil s last l : (forall c, In c l -> (c < 6)%nat) -> emit_phase (bb s) last l = Ok (last, []).
  Proof.
    induction l as [|a l IH]; intros Hl; [reflexivity|]. cbn [emit_phase].
    destruct (chan_ex s a (Hl a (or_introl eq_refl))) as (ch & E1 & E2). rewrite E1, E2. cbn [emit_cbs].
    rewrite IH by (intros c Hc; apply Hl; right; exact Hc). reflexivity.
  Qed.

  Lemma fl_set s c : (c < 6)%nat -> dflag s c = true ->
    exists ch, nth_error (b_chans (bb s)) c = Some ch /\ c_dirty ch = true /\ set_chan (bb s) c (flushed ch) = bb (fl s c).
  Proof.
    intros Hc Hd. destruct s as [a1 a2 a3 a4 a5 a6 b1 b2 b3 b4 b5 b6 c1 c2 c3 c4 c5 c6 e0 e1 s0 s1 q].
    do 6 (destruct c as [|c]; [cbn in Hd; subst; eexists; split; [reflexivity|split; reflexivity]|]). lia.
  Qed.

  Lemma fl_flag s c c' : (c < 6)%nat -> (c' < 6)%nat -> dflag (fl s c) c' = if Nat.eqb c c' then false else dflag s c'.
  Proof. intros Hc Hc'. do 6 (destruct c as [|c]; [do 6 (destruct c' as [|c']; [reflexivity|]); lia|]). lia. Qed.
  Lemma fl_q s c : q_dirty (fl s c) = q_dirty s. Proof. destruct c as [|[|[|[|[|c]]]]]; reflexivity. Qed.
  Lemma fl_wires s c : wires_of (fl s c) = wires_of s. Proof. destruct c as [|[|[|[|[|c]]]]]; reflexivity. Qed.
  Lemma fl_ok s c : OKs s -> OKs (fl s c). Proof. destruct c as [|[|[|[|[|c]]]]]; exact (fun H => H). Qed.

  Lemma flush_all_bd l : forall s, NoDup l -> (forall c, In c l -> (c < 6)%nat /\ dflag s c = true) ->
    flush_all (bb s) l = Ok (bb (fold_left fl l s)).
  Proof.
    induction l as [|a l IH]; intros s Hn Hl; [reflexivity|]. cbn [flush_all fold_left].
    destruct (Hl a (or_introl eq_refl)) as [Ha Hd]. destruct (fl_set s a Ha Hd) as (ch & E1 & E2 & E3).
    rewrite E1, E2, E3. inversion Hn; subst. apply IH; [assumption|].
    intros c Hc. destruct (Hl c (or_intror Hc)) as [Hc6 Hdc]. split; [exact Hc6|]. rewrite fl_flag by assumption.
    destruct (Nat.eqb a c) eqn:E; [apply Nat.eqb_eq in E; subst; contradiction|exact Hdc].
  Qed.

  Lemma fold_q l : forall s, q_dirty (fold_left fl l s) = q_dirty s.
  Proof. induction l as [|a l IH]; intros s; simpl; [reflexivity|]. rewrite IH. apply fl_q. Qed.
  Lemma fold_wires l : forall s, wires_of (fold_left fl l s) = wires_of s.
  Proof. induction l as [|a l IH]; intros s; simpl; [reflexivity|]. rewrite IH. apply fl_wires. Qed.
  Lemma fold_ok l : forall s, OKs s -> OKs (fold_left fl l s).
  Proof. induction l as [|a l IH]; intros s H; simpl; [exact H|]. apply IH, fl_ok, H. Qed.
  Lemma fold_flag l : forall s c, (forall x, In x l -> (x < 6)%nat) -> (c < 6)%nat -> (In c l \/ dflag s c = false) ->
    dflag (fold_left fl l s) c = false.
  Proof.
    induction l as [|a l IH]; intros s c Hl Hc H; simpl.
    - destruct H as [[]|H]. exact H.
    - apply IH; [intros x Hx; apply Hl; right; exact Hx|exact Hc|].
      rewrite (fl_flag s a c (Hl a (or_introl eq_refl)) Hc).
      destruct (Nat.eqb a c) eqn:E; [right; reflexivity|].
      destruct H as [[->|H]|H]; [rewrite Nat.eqb_refl in E; discriminate|left; exact H|right; exact H].
  Qed.

  Lemma setq_wires s l : wires_of (setq s l) = wires_of s. Proof. reflexivity. Qed.
  Lemma setq_flag s l c : dflag (setq s l) c = dflag s c. Proof. destruct c as [|[|[|[|[|c]]]]]; reflexivity. Qed.
  Lemma setq_ok s l : OKs s -> OKs (setq s l). Proof. exact (fun H => H). Qed.

  Lemma canon_DI s : Canon s -> DI s.
  Proof.
    intros [Hq Hf]. constructor; rewrite Hq.
    - constructor.
    - intros c [].
    - intros c Hc. rewrite (Hf c Hc). split; [discriminate|intros []].
  Qed.

  (* ---- one event *)
  Theorem pipeline_event s (b : list (SD.cin * value)) : Canon s -> OKs s ->
    exists s', bd_event fx BODY UNKNOWN PROG s (map wop_of b) = Ok (bb s', [], []) /\
      SD.cpu_event fx BODY UNKNOWN PROG (wires_of s) (map emb_w b) = Some (wires_of s') /\ Canon s' /\ OKs s'.
  Proof.
    intros Hc Ho. pose proof (canon_DI s Hc) as Hd.
    destruct (writes b s Hd Ho) as (s1 & W1 & W2 & Hd1 & Ho1).
    destruct (loop 7 6 0 s1 Hd1 Ho1 ltac:(lia) ltac:(lia) ltac:(simpl; lia)) as (s2 & L1 & L2 & Hd2 & Ho2).
    exists (setq (fold_left fl (q_dirty s2) s2) []).
    split; [|split; [|split]].
    - unfold bd_event, propagate. rewrite W1. change (S (length (b_chans (bb s1)))) with 7%nat. rewrite L1.
      change (b_dirty (bb s2)) with (q_dirty s2).
      rewrite (emit_nil s2 [] (q_dirty s2) (di_lt _ Hd2)).
      rewrite (flush_all_bd (q_dirty s2) s2 (di_nodup _ Hd2)).
      + reflexivity.
      + intros c Hin. pose proof (di_lt _ Hd2 c Hin) as H6. split; [exact H6|]. apply (di_flag _ Hd2 c H6), Hin.
    - unfold SD.cpu_event. destruct Hc as [Hq Hf]. rewrite Hq in W2. change (sdl []) with (@nil SD.chn) in W2. rewrite W2.
      change (length (sdl (firstn 0 (q_dirty s1)))) with 0%nat in L2. rewrite L2. f_equal.
      rewrite setq_wires. symmetry. apply fold_wires.
    - split; [reflexivity|]. intros c Hc6. rewrite setq_flag. apply fold_flag; [exact (di_lt _ Hd2)|exact Hc6|].
      destruct (dflag s2 c) eqn:E; [left; apply (di_flag _ Hd2 c Hc6), E|right; reflexivity].
    - apply setq_ok, fold_ok, Ho2.
  Qed.

  (* ---- histories *)
  Theorem pipeline_run h : forall s, Canon s -> OKs s ->
    exists s', bd_run (bb s) (map (map wop_of) h) = Ok (bb s') /\
      SD.cpu_run fx BODY UNKNOWN PROG (wires_of s) (map (map emb_w) h) = Some (wires_of s') /\ Canon s' /\ OKs s'.
  Proof.
    induction h as [|b r IH]; intros s Hc Ho.
    - exists s. simpl. auto.
    - destruct (pipeline_event s b Hc Ho) as (s1 & E1 & E2 & Hc1 & Ho1).
      destruct (IH s1 Hc1 Ho1) as (s' & R1 & R2 & R3).
      exists s'. split; [|split; [|exact R3]].
      + simpl map. cbn [bd_run]. unfold bd_event in E1.
        destruct (apply_writes (bb s) (map wop_of b)) as [b1|e]; [|discriminate]. rewrite E1. exact R1.
      + simpl map. cbn [SD.cpu_run]. rewrite E2. exact R2.
  Qed.

  Lemma init_canon : Canon bd_init /\ OKs bd_init /\ wires_of bd_init = SD.w_init.
  Proof.
    split; [|split; [|reflexivity]].
    - split; [reflexivity|]. intros c Hc. do 6 (destruct c as [|c]; [reflexivity|]). lia.
    - split; simpl; auto.
  Qed.
End BdInst.
