(* emit() / check_flags() of src/emu/pv/prv.c regenerated from the source (Gen/Prv_gen.v, translate/units/prv.py)
   equal the hand model EmuCoreDefs.emit and accept every flags word the emulator registers.

   The model keeps one map `last` from (file, row, type) to the last value emitted on that key when duplicates
   matter; the C keeps last_value / last_value_set inside the prv_chan registered for that key.  Rel relates the
   two at the key of the channel: never set <-> no entry; set <-> the entry, with last_value = its image.
   Values: the model's None / Some x are VALUE_NULL / VALUE_INT64 x; a VALUE_DOUBLE (or any other tag) is refused
   by the C ("only int64 and null supported") and does not exist in the model: outside the theorem.
   Flags: any combination of the five PRV_* bits (mkflags); `val++` is unbounded (int64 overflow is undefined
   behaviour in C, not modelled). *)
From Coq Require Import ZArith List Bool Lia.
From OV Require Import Base.CInt Emu.EmuCoreDefs Emu.PrvPre Proofs.EmitProofs.
From OV Require Emu.ChanPre Gen.Prv_gen Gen.Tables_gen Emu.DecodeDefs.
Import ListNotations.
Local Open Scope Z_scope.

Definition inj (o : value) : cvalue :=
  match o with None => ChanPre.vnull | Some z => {| ChanPre.vt := 1; ChanPre.vi := z |} end.

(* a flags word: PRV_EMITDUP, PRV_SKIPDUP, PRV_NEXT, PRV_ZERO, PRV_SKIPDUPNULL *)
Definition mkflags (e s n z d : bool) : Z := b2z e + 2 * b2z s + 4 * b2z n + 8 * b2z z + 16 * b2z d.

Lemma mkflags_range f : 0 <= f < 32 -> exists e s n z d, f = mkflags e s n z d.
Proof.
  intros H.
  exists (Z.odd f), (Z.odd (f / 2)), (Z.odd (f / 4)), (Z.odd (f / 8)), (Z.odd (f / 16)).
  assert (K : forall x, 0 <= x < 32 -> x = mkflags (Z.odd x) (Z.odd (x / 2)) (Z.odd (x / 4)) (Z.odd (x / 8)) (Z.odd (x / 16))).
  { intros x Hx.
    assert (C : In x (map Z.of_nat (seq 0 32))).
    { apply in_map_iff. exists (Z.to_nat x). split; [lia|]. apply in_seq. lia. }
    cbn in C. repeat (destruct C as [<-|C]; [vm_compute; reflexivity|]). destruct C. }
  apply K. exact H.
Qed.

Section Flags.
Variables e s n z d : bool.
Let f := mkflags e s n z d.
Lemma g_emitdup : negb (Z.land (cast_int64 (Z.lnot f)) Prv_gen.c_PRV_EMITDUP =? 0) = negb e.
Proof. subst f. destruct e, s, n, z, d; vm_compute; reflexivity. Qed.
Lemma g_zero : negb (Z.land (cast_int64 (Z.lnot f)) Prv_gen.c_PRV_ZERO =? 0) = negb z.
Proof. subst f. destruct e, s, n, z, d; vm_compute; reflexivity. Qed.
Lemma g_skipdup : negb (Z.land f Prv_gen.c_PRV_SKIPDUP =? 0) = s.
Proof. subst f. destruct e, s, n, z, d; vm_compute; reflexivity. Qed.
Lemma g_skipnull : negb (Z.land f Prv_gen.c_PRV_SKIPDUPNULL =? 0) = d.
Proof. subst f. destruct e, s, n, z, d; vm_compute; reflexivity. Qed.
Lemma g_next : negb (Z.land f Prv_gen.c_PRV_NEXT =? 0) = n.
Proof. subst f. destruct e, s, n, z, d; vm_compute; reflexivity. Qed.
Lemma h_emitdup : has_flag f PRV_EMITDUP = e.
Proof. subst f. destruct e, s, n, z, d; vm_compute; reflexivity. Qed.
Lemma h_skipdup : has_flag f PRV_SKIPDUP = s.
Proof. subst f. destruct e, s, n, z, d; vm_compute; reflexivity. Qed.
Lemma h_skipnull : has_flag f PRV_SKIPDUPNULL = d.
Proof. subst f. destruct e, s, n, z, d; vm_compute; reflexivity. Qed.
Lemma h_next : has_flag f PRV_NEXT = n.
Proof. subst f. destruct e, s, n, z, d; vm_compute; reflexivity. Qed.
Lemma h_zero : has_flag f PRV_ZERO = z.
Proof. subst f. destruct e, s, n, z, d; vm_compute; reflexivity. Qed.
End Flags.

Definition Rel (ps : pstate) (last : list (key * value)) (k : key) : Prop :=
  match last_get last k with
  | None => lset ps = 0
  | Some v0 => lset ps = 1 /\ lval ps = inj v0
  end.

Definition out_line (l : line) : Z * Z * Z := (Z.of_nat (l_row l) + 1, l_type l, l_val l).

Lemma inj_eq sx st a b : value_is_equal sx st (inj a) (inj b) = b2z (value_eqb a b).
Proof. destruct a, b; cbn; reflexivity. Qed.

Ltac munf := unfold need, ite, bind_, bind, eval, ret, fail, exec.

Definition same_chan (a b : pstate) : Prop :=
  rflags a = rflags b /\ rrow a = rrow b /\ rtyp a = rtyp b /\ cur a = cur b.

Ltac fin_tac HR0 Elast Hf Hrow Htyp Hcur Hset Hval :=
  repeat match goal with |- context [if ?c then _ else _] => destruct c eqn:? end;
  first
  [ solve [eexists; split; [reflexivity|discriminate]]
  | eexists; split; [reflexivity|]; split; [cbn [plines map out_line l_row l_type l_val]; rewrite ?app_nil_r; reflexivity|];
    split;
    [ first [ exact HR0
            | unfold Rel; cbn [lset lval]; rewrite ?last_get_set_same, ?Elast; cbn [inj]; first [reflexivity | split; reflexivity | (split; assumption) | assumption] ]
    | first [ (unfold same_chan; repeat split; reflexivity)
            | (unfold same_chan; cbn [rflags rrow rtyp cur]; rewrite ?Hf, ?Hrow, ?Htyp, ?Hcur; repeat split; reflexivity) ] ] ].


Theorem emit_eq e s n z d last cpu row type v ps :
  rflags ps = mkflags e s n z d -> rrow ps = Z.of_nat row + 1 -> rtyp ps = type -> cur ps = inj v ->
  Rel ps last (cpu, row, type) ->
  match EmuCoreDefs.emit last cpu row type (mkflags e s n z d) v with
  | Err _ => exists x, exec (Prv_gen.emit (Some tt) (Some tt)) tt ps = Err x /\ x <> E_TRAP
  | Ok (last', ls) =>
    exists ps', exec (Prv_gen.emit (Some tt) (Some tt)) tt ps = Ok ps' /\
                plines ps' = plines ps ++ map out_line ls /\
                Rel ps' last' (cpu, row, type) /\ same_chan ps' ps
  end.
Proof.
  intros Hf Hrow Htyp Hcur HR.
  unfold EmuCoreDefs.emit. rewrite h_emitdup, h_skipdup, h_skipnull, h_next, h_zero.
  unfold Prv_gen.emit. munf. cbn [is_null negb andb].
  unfold get_prv_chan_chan, chan_read, get_prv_chan_flags, Prv_gen.is_value_dup_safe, Prv_gen.is_value_dup,
    get_prv_chan_last_value_set, get_prv_chan_last_value, value_is_null, get_prv_chan_row_base1, get_prv_chan_type,
    set_prv_chan_last_value, set_prv_chan_last_value_set, write_line, fld_cvalue_type, fld_cvalue_i.
  cbn [is_null negb andb rflags lset lval rrow rtyp cur plines].
  rewrite Hf, Hcur, Hrow, Htyp, g_emitdup, g_zero, g_skipdup, g_skipnull, g_next.
  pose proof HR as HR0. unfold Rel in HR.
  destruct (last_get last (cpu, row, type)) as [v0|] eqn:Elast.
  - destruct HR as [Hset Hval]. rewrite Hset, Hval, inj_eq.
    destruct e, (value_eqb v v0), s, d, v as [x|], n, z; cbn [negb andb b2z Z.eqb Pos.eqb inj ChanPre.vt ChanPre.vi ChanPre.vnull Prv_gen.c_VALUE_INT64 Prv_gen.c_VALUE_NULL].
    all: fin_tac HR0 Elast Hf Hrow Htyp Hcur Hset Hval.
  - rewrite HR.
    destruct e, s, d, v as [x|], n, z; cbn [negb andb b2z Z.eqb Pos.eqb inj ChanPre.vt ChanPre.vi ChanPre.vnull Prv_gen.c_VALUE_INT64 Prv_gen.c_VALUE_NULL].
    all: fin_tac HR0 Elast Hf Hrow Htyp Hcur HR HR.
Qed.

(* ---------------------------------------------------------------- check_flags *)

Definition is_ok {A} (r : result A) : bool := match r with Ok _ => true | Err _ => false end.

(* check_flags refuses exactly the three documented exclusive pairs *)
Theorem check_flags_iff e s n z d :
  is_ok (exec (Prv_gen.check_flags (mkflags e s n z d)) tt
              {| rflags := 0; lset := 0; lval := ChanPre.vnull; rrow := 0; rtyp := 0; cur := ChanPre.vnull; plines := [] |})
  = negb (e && d) && negb (e && s) && negb (s && d).
Proof. destruct e, s, n, z, d; vm_compute; reflexivity. Qed.

(* the flags words the emulator registers: those of every model channel dumped from the source (Gen/Tables_gen.v),
   of the mark channels (PRV_SKIPDUPNULL) and of the six system channels (thread: CPU = PRV_NEXT, TID = 0,
   state = PRV_SKIPDUP; CPU: TID = 0, PID = 0, nrunning = PRV_ZERO) *)
Definition registered_flags : list Z :=
  map cs_flags (DecodeDefs.mk_chans [DecodeDefs.M_OVNI; DecodeDefs.M_NANOS6; DecodeDefs.M_NOSV; DecodeDefs.M_NODES;
                                     DecodeDefs.M_TAMPI; DecodeDefs.M_MPI; DecodeDefs.M_KERNEL; DecodeDefs.M_OPENMP])
  ++ [PRV_SKIPDUPNULL; PRV_NEXT; 0; PRV_SKIPDUP; 0; 0; PRV_ZERO].

Theorem registered_flags_pass :
  forallb (fun f => (0 <=? f) && (f <? 32) &&
                    is_ok (exec (Prv_gen.check_flags f) tt
                                {| rflags := 0; lset := 0; lval := ChanPre.vnull; rrow := 0; rtyp := 0; cur := ChanPre.vnull; plines := [] |}))
          registered_flags = true.
Proof. vm_compute. reflexivity. Qed.

(* the flags of the system slots of the model are among them *)
Lemma system_flags_registered sx s : (forall t k, s <> STr t k) -> (forall c k, s <> SCr c k) -> In (flags_of sx s) registered_flags.
Proof.
  intros H1 H2. unfold registered_flags. apply in_or_app. right.
  destruct s as [t w|t k|c w|c k]; [| exfalso; eapply H1; reflexivity | | exfalso; eapply H2; reflexivity].
  - destruct w as [|[|w]]; cbn; auto 10.
  - destruct w as [|[|w]]; cbn; auto 10.
Qed.

(* a worked evaluation: a SKIPDUP channel showing 7 twice writes one line; a plain one refuses the repeat;
   NEXT adds one; without ZERO a 0 is refused *)
Definition ps0 (f : Z) (v : value) : pstate :=
  {| rflags := f; lset := 0; lval := ChanPre.vnull; rrow := 3; rtyp := 10; cur := inj v; plines := [] |}.
Definition emit_twice (f : Z) (v : value) : result (list (Z * Z * Z)) :=
  match exec (Prv_gen.emit (Some tt) (Some tt)) tt (ps0 f v) with
  | Ok s1 => match exec (Prv_gen.emit (Some tt) (Some tt)) tt s1 with Ok s2 => Ok (plines s2) | Err e => Err e end
  | Err e => Err e
  end.
