(* The side conditions of the timeline theorem hold for every trace whose channel specs have
   pairwise distinct PRV types (decided by computation on the specs dumped from the source). *)
From Coq Require Import ZArith List Bool Lia.
From OV Require Import Emu.EmuCoreDefs Emu.DecodeDefs Proofs.EmitProofs Proofs.EmuCoreProofs.
From OV Require Gen.Tables_gen.
Import ListNotations.
Local Open Scope Z_scope.

(* ---------------------------------------------------------------- NoDup of a flat_map *)

Lemma NoDup_app_disjoint {B} (l1 l2 : list B) :
  NoDup l1 -> NoDup l2 -> (forall b, In b l1 -> In b l2 -> False) -> NoDup (l1 ++ l2).
Proof.
  induction l1 as [|b l1 IH]; intros H1 H2 Hd; cbn; [exact H2|].
  inversion H1 as [|? ? Hn1 Hn1']; subst. constructor.
  - intros Hin. apply in_app_or in Hin. destruct Hin as [Hin|Hin]; [contradiction|apply (Hd b); [left; reflexivity|exact Hin]].
  - apply IH; [exact Hn1'|exact H2|intros x Hx Hx2; apply (Hd x); [right; exact Hx|exact Hx2]].
Qed.

Lemma NoDup_flat_map {A B} (f : A -> list B) (l : list A) :
  NoDup l ->
  (forall a, In a l -> NoDup (f a)) ->
  (forall a a' b, In a l -> In a' l -> a <> a' -> In b (f a) -> In b (f a') -> False) ->
  NoDup (flat_map f l).
Proof.
  induction l as [|a l IH]; intros Hnd Hf Hdis; cbn; [constructor|].
  inversion Hnd as [|? ? Hnotin Hnd']; subst.
  apply NoDup_app_disjoint.
  - apply Hf. left. reflexivity.
  - apply IH; [exact Hnd'|intros x Hx; apply Hf; right; exact Hx|].
    intros x x' b Hx Hx' Hne Hb Hb'. apply (Hdis x x' b); [right; exact Hx|right; exact Hx'|exact Hne|exact Hb|exact Hb'].
  - intros b Hb Hin. apply in_flat_map in Hin. destruct Hin as (x & Hx & Hbx).
    apply (Hdis a x b); [left; reflexivity|right; exact Hx|intros ->; contradiction|exact Hb|exact Hbx].
Qed.

Lemma NoDup_map_inj_in {A B} (f : A -> B) (l : list A) :
  NoDup l -> (forall x y, In x l -> In y l -> f x = f y -> x = y) -> NoDup (map f l).
Proof.
  induction l as [|a l IH]; intros Hnd Hinj; cbn; [constructor|].
  inversion Hnd as [|? ? Hnotin Hnd']; subst. constructor.
  - intros Hin. apply in_map_iff in Hin. destruct Hin as (x & Hfx & Hx).
    assert (x = a) by (apply Hinj; [right; exact Hx|left; reflexivity|exact Hfx]). subst. contradiction.
  - apply IH; [exact Hnd'|intros x y Hx Hy; apply Hinj; right; assumption].
Qed.

(* ---------------------------------------------------------------- distinct PRV types => distinct keys *)

Definition th_types (sx : static) : list Z := [PRV_THREAD_CPU; PRV_THREAD_TID; PRV_THREAD_STATE] ++ map cs_type (s_chans sx).
Definition cpu_types (sx : static) : list Z := [PRV_CPU_TID; PRV_CPU_PID; PRV_CPU_NRUN] ++ map cs_type (s_chans sx).

Definition types_ok (sx : static) : Prop := NoDup (th_types sx) /\ NoDup (cpu_types sx).

Definition th_row (sx : static) (t : nat) : list slot :=
  [STh t 0; STh t 1; STh t 2] ++ map (STr t) (seq 0 (length (s_chans sx))).
Definition cpu_row (sx : static) (c : nat) : list slot :=
  [SCpu c 0; SCpu c 1; SCpu c 2] ++ map (SCr c) (seq 0 (length (s_chans sx))).

Lemma map_nth_seq {A} (l : list A) (d : A) : map (fun k => nth k l d) (seq 0 (length l)) = l.
Proof.
  induction l as [|a l IH]; [reflexivity|]. cbn [length seq map nth]. f_equal.
  rewrite <- seq_shift, map_map. exact IH.
Qed.

Lemma th_row_keys sx t : map (key_of sx) (th_row sx t) = map (fun ty => (false, t, ty)) (th_types sx).
Proof.
  unfold th_row, th_types. rewrite !map_app. cbn [map key_of]. f_equal.
  rewrite !map_map. cbn [key_of]. unfold spec_of.
  rewrite <- (map_nth_seq (s_chans sx) null_spec) at 2. rewrite !map_map. reflexivity.
Qed.

Lemma cpu_row_keys sx c : map (key_of sx) (cpu_row sx c) = map (fun ty => (true, c, ty)) (cpu_types sx).
Proof.
  unfold cpu_row, cpu_types. rewrite !map_app. cbn [map key_of]. f_equal.
  rewrite !map_map. cbn [key_of]. unfold spec_of.
  rewrite <- (map_nth_seq (s_chans sx) null_spec) at 2. rewrite !map_map. reflexivity.
Qed.

Lemma slots_rows sx :
  slots sx = flat_map (th_row sx) (seq 0 (length (s_threads sx))) ++ flat_map (cpu_row sx) (seq 0 (length (s_cpus sx))).
Proof. reflexivity. Qed.

Lemma map_flat_map {A B C} (g : B -> C) (f : A -> list B) (l : list A) :
  map g (flat_map f l) = flat_map (fun a => map g (f a)) l.
Proof. induction l as [|a l IH]; cbn; [reflexivity|]. rewrite map_app, IH. reflexivity. Qed.

Theorem wf_keys_of_types sx : types_ok sx -> wf_keys sx.
Proof.
  intros [Hth Hcpu]. unfold wf_keys. rewrite slots_rows, map_app, !map_flat_map.
  assert (G : forall (file : bool) (types : list Z) (n : nat), NoDup types ->
            NoDup (flat_map (fun r => map (fun ty => (file, r, ty)) types) (seq 0 n))).
  { intros file types n Hty. apply NoDup_flat_map.
    - apply seq_NoDup.
    - intros r _. apply NoDup_map_inj_in; [exact Hty|]. intros x y _ _ E. inversion E. reflexivity.
    - intros r r' b _ _ Hne Hb Hb'. apply in_map_iff in Hb. apply in_map_iff in Hb'.
      destruct Hb as (x & <- & _). destruct Hb' as (y & E & _). inversion E. congruence. }
  assert (E1 : flat_map (fun a => map (key_of sx) (th_row sx a)) (seq 0 (length (s_threads sx))) =
               flat_map (fun r => map (fun ty => (false, r, ty)) (th_types sx)) (seq 0 (length (s_threads sx)))).
  { apply flat_map_ext. intros t. apply th_row_keys. }
  assert (E2 : flat_map (fun a => map (key_of sx) (cpu_row sx a)) (seq 0 (length (s_cpus sx))) =
               flat_map (fun r => map (fun ty => (true, r, ty)) (cpu_types sx)) (seq 0 (length (s_cpus sx)))).
  { apply flat_map_ext. intros c. apply cpu_row_keys. }
  rewrite E1, E2.
  apply NoDup_app_disjoint.
  - apply G. exact Hth.
  - apply G. exact Hcpu.
  - intros k H1 H2. apply in_flat_map in H1. apply in_flat_map in H2.
    destruct H1 as (r1 & _ & H1). destruct H2 as (r2 & _ & H2).
    apply in_map_iff in H1. apply in_map_iff in H2.
    destruct H1 as (x & <- & _). destruct H2 as (y & E & _). inversion E.
Qed.

(* ---------------------------------------------------------------- the initial state shows nothing *)

Lemma nth_map_const' {A B} (l : list A) (b d : B) n : (n < length l)%nat -> nth n (map (fun _ => b) l) d = b.
Proof. revert n. induction l as [|a l IH]; intros [|n] H; cbn in *; try lia; auto. apply IH. lia. Qed.

Lemma thr_init sx t : (t < length (s_threads sx))%nat -> nth t (threads (init sx)) dummy_thread = init_thread sx.
Proof. intros H. unfold init. cbn [threads]. apply nth_map_const'. exact H. Qed.

Lemma th_running_init sx c : th_running (init sx) c = None.
Proof.
  unfold th_running, running_on, init. cbn [cpu_threads].
  assert (E : nth c (map (fun _ : cpu_info => @nil nat) (s_cpus sx)) [] = []).
  { generalize (s_cpus sx). intros l. revert c. induction l as [|a l IH]; intros [|c]; cbn; auto. }
  rewrite E. reflexivity.
Qed.

Definition any_init_ok (sx : static) : Prop :=
  forall sp, In sp (s_chans sx) -> cs_thtrack sp = TRACK_ANY ->
             raw_read sp {| r_stk := []; r_val := cs_init sp |} = None.

Theorem init_ok_of sx : any_init_ok sx -> init_ok sx.
Proof.
  intros Hany s Hin. rewrite slots_rows in Hin. apply in_app_or in Hin.
  destruct Hin as [Hin|Hin]; apply in_flat_map in Hin; destruct Hin as (r & Hr & Hs); apply in_seq in Hr.
  - (* thread rows *)
    left. unfold th_row in Hs. apply in_app_or in Hs. destruct Hs as [Hs|Hs].
    + assert (Ht : nth r (threads (init sx)) dummy_thread = init_thread sx) by (apply thr_init; lia).
      destruct Hs as [<-|[<-|[<-|[]]]]; cbn [view flags_of]; rewrite Ht; reflexivity.
    + apply in_map_iff in Hs. destruct Hs as (k & <- & Hk). apply in_seq in Hk.
      cbn [view flags_of]. unfold thread_state_of. rewrite thr_init by lia. cbn [t_state init_thread].
      unfold mode_ok. destruct (cs_thtrack (spec_of sx k) =? TRACK_ANY) eqn:Ea.
      * apply Z.eqb_eq in Ea. unfold raw_of. rewrite thr_init by lia. cbn [t_raw init_thread].
        change empty_raw with ((fun sp => {| r_stk := []; r_val := cs_init sp |}) null_spec).
        rewrite map_nth. fold (spec_of sx k).
        rewrite Hany; [reflexivity| |exact Ea]. unfold spec_of. apply nth_In. lia.
      * destruct (cs_thtrack (spec_of sx k) =? TRACK_RUN); reflexivity.
  - (* cpu rows *)
    unfold cpu_row in Hs. apply in_app_or in Hs. destruct Hs as [Hs|Hs].
    + left. destruct Hs as [<-|[<-|[<-|[]]]]; cbn [view flags_of].
      * unfold v_cputid. rewrite th_running_init. reflexivity.
      * unfold v_cpupid. rewrite th_running_init. reflexivity.
      * unfold v_nrun, init. cbn [cpu_touched].
        assert (E : nth r (map (fun _ : cpu_info => false) (s_cpus sx)) false = false).
        { generalize (s_cpus sx). intros l. clear. revert r. induction l as [|a l IH]; intros [|r]; cbn; auto. }
        rewrite E. reflexivity.
    + right. apply in_map_iff in Hs. destruct Hs as (k & <- & Hk). cbn [unselected]. apply th_running_init.
Qed.

(* ---------------------------------------------------------------- the specs dumped from the source *)

Definition all_models : list Z := [M_OVNI; M_NANOS6; M_NOSV; M_NODES; M_TAMPI; M_MPI; M_KERNEL; M_OPENMP].

Definition types_okb (cs : list chanspec) : bool :=
  let th := [PRV_THREAD_CPU; PRV_THREAD_TID; PRV_THREAD_STATE] ++ map cs_type cs in
  let cp := [PRV_CPU_TID; PRV_CPU_PID; PRV_CPU_NRUN] ++ map cs_type cs in
  let nodupb := fix nodupb (l : list Z) : bool :=
      match l with [] => true | x :: r => negb (existsb (Z.eqb x) r) && nodupb r end in
  nodupb th && nodupb cp.

Lemma nodupb_NoDup (l : list Z) :
  (fix nodupb (l : list Z) : bool := match l with [] => true | x :: r => negb (existsb (Z.eqb x) r) && nodupb r end) l = true ->
  NoDup l.
Proof.
  induction l as [|x r IH]; intros H; [constructor|].
  apply andb_true_iff in H. destruct H as [H1 H2]. constructor; [|apply IH; exact H2].
  intros Hin. apply negb_true_iff in H1.
  assert (existsb (Z.eqb x) r = true) by (apply existsb_exists; exists x; split; [exact Hin|apply Z.eqb_refl]).
  congruence.
Qed.

Lemma types_okb_ok sx : types_okb (s_chans sx) = true -> types_ok sx.
Proof.
  unfold types_okb, types_ok, th_types, cpu_types. intros H. apply andb_true_iff in H. destruct H as [H1 H2].
  split; apply nodupb_NoDup; assumption.
Qed.

Definition any_init_okb (cs : list chanspec) : bool :=
  forallb (fun sp => negb (cs_thtrack sp =? TRACK_ANY) ||
                     match raw_read sp {| r_stk := []; r_val := cs_init sp |} with None => true | Some _ => false end) cs.

Lemma any_init_okb_ok sx : any_init_okb (s_chans sx) = true -> any_init_ok sx.
Proof.
  unfold any_init_okb, any_init_ok. intros H sp Hin Ha. rewrite forallb_forall in H. specialize (H sp Hin).
  rewrite Ha in H. cbn in H. destruct (raw_read sp _); [discriminate|reflexivity].
Qed.

(* every subset of the models compiled into the emulator gives well-formed specs *)
Fixpoint sublists {A} (l : list A) : list (list A) :=
  match l with [] => [[]] | x :: r => let s := sublists r in s ++ map (cons x) s end.

Lemma dumped_specs_ok :
  forallb (fun en => types_okb (mk_chans en) && any_init_okb (mk_chans en)) (sublists all_models) = true.
Proof. vm_compute. reflexivity. Qed.

(* ---------------------------------------------------------------- corollaries per row *)

Lemma in_slots_th sx t s : (t < length (s_threads sx))%nat -> In s (th_row sx t) -> In s (slots sx).
Proof.
  intros Ht Hs. rewrite slots_rows. apply in_or_app. left. apply in_flat_map. exists t. split; [apply in_seq; lia|exact Hs].
Qed.

Lemma in_slots_cpu sx c s : (c < length (s_cpus sx))%nat -> In s (cpu_row sx c) -> In s (slots sx).
Proof.
  intros Hc Hs. rewrite slots_rows. apply in_or_app. right. apply in_flat_map. exists c. split; [apply in_seq; lia|exact Hs].
Qed.

(* what the three system rows of a thread show after any prefix of an accepted run *)
Theorem thread_rows sx evs1 evs2 st tl :
  types_ok sx -> any_init_ok sx ->
  run_from sx (init sx) (evs1 ++ evs2) = Ok (st, tl) ->
  exists st1 tl1, run_from sx (init sx) evs1 = Ok (st1, tl1) /\
    forall t, (t < length (s_threads sx))%nat ->
      let th := nth t (threads st1) dummy_thread in
      let ls := lines_of tl1 in
      shown ls (false, t, PRV_THREAD_STATE) = tst_code (t_state th) /\
      shown ls (false, t, PRV_THREAD_TID) = (if is_active (t_state th) then ti_tid (nth t (s_threads sx) dummy_info) else 0) /\
      shown ls (false, t, PRV_THREAD_CPU) = (match t_cpu th with Some c => Z.of_nat c + 1 | None => 0 end).
Proof.
  intros Hty Hany H.
  destruct (timeline sx evs1 evs2 st tl (wf_keys_of_types sx Hty) (init_ok_of sx Hany) H) as (st1 & tl1 & E1 & HT).
  exists st1, tl1. split; [exact E1|]. intros t Ht. cbv zeta.
  assert (H0 := HT (STh t 0) (in_slots_th sx t _ Ht ltac:(left; reflexivity))).
  assert (H1 := HT (STh t 1) (in_slots_th sx t _ Ht ltac:(right; left; reflexivity))).
  assert (H2 := HT (STh t 2) (in_slots_th sx t _ Ht ltac:(right; right; left; reflexivity))).
  cbn [key_of flags_of view unselected] in H0, H1, H2.
  destruct H0 as [H0|[[] _]]. destruct H1 as [H1|[[] _]]. destruct H2 as [H2|[[] _]].
  split; [|split].
  - rewrite H2. reflexivity.
  - rewrite H1. unfold v_tid. destruct (is_active _); reflexivity.
  - rewrite H0. unfold v_cpu. destruct (t_cpu _); reflexivity.
Qed.

(* the three system rows of a CPU *)
Theorem cpu_rows sx evs1 evs2 st tl :
  types_ok sx -> any_init_ok sx ->
  run_from sx (init sx) (evs1 ++ evs2) = Ok (st, tl) ->
  exists st1 tl1, run_from sx (init sx) evs1 = Ok (st1, tl1) /\
    forall c, (c < length (s_cpus sx))%nat ->
      let ls := lines_of tl1 in
      shown ls (true, c, PRV_CPU_NRUN) = (match v_nrun st1 c with Some n => n | None => 0 end) /\
      shown ls (true, c, PRV_CPU_TID) = (match th_running st1 c with
                                         | Some t => ti_tid (nth t (s_threads sx) dummy_info) | None => 0 end) /\
      shown ls (true, c, PRV_CPU_PID) = (match th_running st1 c with
                                         | Some t => ti_pid (nth t (s_threads sx) dummy_info) | None => 0 end).
Proof.
  intros Hty Hany H.
  destruct (timeline sx evs1 evs2 st tl (wf_keys_of_types sx Hty) (init_ok_of sx Hany) H) as (st1 & tl1 & E1 & HT).
  exists st1, tl1. split; [exact E1|]. intros c Hc. cbv zeta.
  assert (H0 := HT (SCpu c 0) (in_slots_cpu sx c _ Hc ltac:(left; reflexivity))).
  assert (H1 := HT (SCpu c 1) (in_slots_cpu sx c _ Hc ltac:(right; left; reflexivity))).
  assert (H2 := HT (SCpu c 2) (in_slots_cpu sx c _ Hc ltac:(right; right; left; reflexivity))).
  cbn [key_of flags_of view unselected] in H0, H1, H2.
  destruct H0 as [H0|[[] _]]. destruct H1 as [H1|[[] _]]. destruct H2 as [H2|[[] _]].
  split; [|split].
  - rewrite H2. destruct (v_nrun st1 c); reflexivity.
  - rewrite H0. unfold v_cputid. destruct (th_running st1 c) as [t|]; [|reflexivity].
    unfold nth_opt. destruct (nth_error (s_threads sx) t) as [ti|] eqn:E.
    + rewrite (nth_error_nth _ _ _ dummy_info E). reflexivity.
    + apply nth_error_None in E. rewrite nth_overflow by exact E. reflexivity.
  - rewrite H1. unfold v_cpupid. destruct (th_running st1 c) as [t|]; [|reflexivity].
    unfold nth_opt. destruct (nth_error (s_threads sx) t) as [ti|] eqn:E.
    + rewrite (nth_error_nth _ _ _ dummy_info E). reflexivity.
    + apply nth_error_None in E. rewrite nth_overflow by exact E. reflexivity.
Qed.

(* C06: the rows of every tracked model channel *)
Theorem tracked_rows sx evs1 evs2 st tl :
  types_ok sx -> any_init_ok sx ->
  run_from sx (init sx) (evs1 ++ evs2) = Ok (st, tl) ->
  exists st1 tl1, run_from sx (init sx) evs1 = Ok (st1, tl1) /\
    forall k, (k < length (s_chans sx))%nat ->
      let sp := spec_of sx k in
      let ls := lines_of tl1 in
      (* thread rows: the current value exactly while the state satisfies the tracking mode, nothing otherwise *)
      (forall t, (t < length (s_threads sx))%nat ->
         shown ls (false, t, cs_type sp) =
         printed (cs_flags sp) (if mode_ok (cs_thtrack sp) (thread_state_of st1 t) then raw_read sp (raw_of st1 t k) else None)) /\
      (* CPU rows: the value of the unique running thread; nothing or the default when there is none or several *)
      (forall c, (c < length (s_cpus sx))%nat ->
         match th_running st1 c with
         | Some t => shown ls (true, c, cs_type sp) = printed (cs_flags sp) (raw_read sp (raw_of st1 t k))
         | None => shown ls (true, c, cs_type sp) = printed (cs_flags sp) (cs_cpudef sp) \/ shown ls (true, c, cs_type sp) = 0
         end).
Proof.
  intros Hty Hany H.
  destruct (timeline sx evs1 evs2 st tl (wf_keys_of_types sx Hty) (init_ok_of sx Hany) H) as (st1 & tl1 & E1 & HT).
  exists st1, tl1. split; [exact E1|]. intros k Hk. cbv zeta. split.
  - intros t Ht.
    assert (Hin : In (STr t k) (th_row sx t)).
    { unfold th_row. apply in_or_app. right. apply in_map. apply in_seq. lia. }
    destruct (HT (STr t k) (in_slots_th sx t _ Ht Hin)) as [H0|[[] _]]. exact H0.
  - intros c Hc.
    assert (Hin : In (SCr c k) (cpu_row sx c)).
    { unfold cpu_row. apply in_or_app. right. apply in_map. apply in_seq. lia. }
    destruct (HT (SCr c k) (in_slots_cpu sx c _ Hc Hin)) as [H0|[HU H0]]; cbn [key_of flags_of view unselected] in *.
    + destruct (th_running st1 c); [exact H0|left; exact H0].
    + rewrite HU. right. exact H0.
Qed.
