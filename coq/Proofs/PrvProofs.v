(* C13: shape of the Paraver output of every accepted run. *)
From Coq Require Import ZArith List Bool Lia Sorted.
From OV Require Import Emu.EmuCoreDefs Proofs.EmitProofs Proofs.EmuCoreProofs Proofs.EmuCoreWf.
Import ListNotations.
Local Open Scope Z_scope.

(* a record is well placed: its row exists in its file and its type is one the file declares *)
Definition line_ok (sx : static) (l : line) : Prop :=
  if l_cpu l then (l_row l < length (s_cpus sx))%nat /\ In (l_type l) (cpu_types sx)
  else (l_row l < length (s_threads sx))%nat /\ In (l_type l) (th_types sx).

Definition key_ok (sx : static) (k : key) : Prop :=
  let '(c, row, ty) := k in
  if c then (row < length (s_cpus sx))%nat /\ In ty (cpu_types sx)
  else (row < length (s_threads sx))%nat /\ In ty (th_types sx).

Lemma slot_key_ok sx s : In s (slots sx) -> key_ok sx (key_of sx s).
Proof.
  unfold slots. intros H. apply in_app_or in H as [H|H]; apply in_flat_map in H as [i [Hi Hs]];
    apply in_seq in Hi; apply in_app_or in Hs as [Hs|Hs].
  - cbn [In] in Hs. unfold th_types.
    destruct Hs as [<-|[<-|[<-|[]]]]; cbn [key_of key_ok]; (split; [lia|]); unfold th_types, cpu_types; cbn [app In]; auto 6.
  - apply in_map_iff in Hs as [k [<- Hk]]. apply in_seq in Hk. cbn [key_of key_ok]. split; [lia|].
    unfold th_types. apply in_or_app. right. unfold spec_of. apply in_map. apply nth_In. lia.
  - cbn [In] in Hs. unfold cpu_types.
    destruct Hs as [<-|[<-|[<-|[]]]]; cbn [key_of key_ok]; (split; [lia|]); unfold th_types, cpu_types; cbn [app In]; auto 6.
  - apply in_map_iff in Hs as [k [<- Hk]]. apply in_seq in Hk. cbn [key_of key_ok]. split; [lia|].
    unfold cpu_types. apply in_or_app. right. unfold spec_of. apply in_map. apply nth_In. lia.
Qed.

Lemma emit_line_key last cpu row ty fl v last' ls :
  emit last cpu row ty fl v = Ok (last', ls) -> forall l, In l ls -> l_cpu l = cpu /\ l_row l = row /\ l_type l = ty.
Proof.
  unfold emit. intros H l Hl.
  repeat match type of H with
  | (if ?b then _ else _) = _ => destruct b
  | (match ?x with Some _ => _ | None => _ end) = _ => destruct x
  | Err _ = Ok _ => discriminate H
  | Ok _ = Ok _ => injection H as H1 H2; subst
  end; cbn [In] in Hl; try contradiction; destruct Hl as [<-|[]]; cbn; auto.
Qed.

Lemma emit_all_keys rs : forall last last' ls,
  emit_all last rs = Ok (last', ls) ->
  forall l, In l ls -> exists fl v, In ((l_cpu l, l_row l, l_type l), fl, v) rs.
Proof.
  induction rs as [|[[[[c r] t] fl] v] rs IH]; cbn [emit_all]; intros last last' ls H l Hl.
  - injection H as <- <-. contradiction.
  - destruct v as [v0|]; cbn [emit_all] in H.
    all: destruct (emit last c r t fl _) as [[last1 l1]|] eqn:E1; [|discriminate H].
    all: destruct (emit_all last1 rs) as [[last2 l2]|] eqn:E2; [|discriminate H].
    all: injection H as <- <-; apply in_app_or in Hl as [Hl|Hl].
    all: try (destruct (emit_line_key _ _ _ _ _ _ _ _ E1 l Hl) as (-> & -> & ->); eexists; eexists; left; reflexivity).
    all: destruct (IH _ _ _ E2 l Hl) as (f' & v' & Hin); exists f', v'; right; exact Hin.
Qed.

Lemma all_reqs_slot sx old new dirty k fl v :
  In (k, fl, v) (all_reqs sx old new dirty) -> exists s, In s (slots sx) /\ k = key_of sx s /\ fl = flags_of sx s /\ v = view sx new s.
Proof.
  unfold all_reqs. intros H. apply in_flat_map in H as [s [Hs Hin]].
  destruct (requested sx old new dirty s); [|contradiction].
  destruct Hin as [E|[]]. injection E as <- <- <-. exists s. auto.
Qed.

Lemma step_lines_ok sx st who ev st' ls :
  step sx st who ev = Ok (st', ls) -> Forall (line_ok sx) ls.
Proof.
  unfold step. intros H.
  destruct (core_step sx st who ev) as [[st1 dirty]|] eqn:Ec; [|discriminate H].
  destruct (emit_all (prv_last st1) (all_reqs sx st st1 dirty)) as [[last' ls']|] eqn:Ee; [|discriminate H].
  injection H as <- <-. apply Forall_forall. intros l Hl.
  destruct (emit_all_keys _ _ _ _ Ee l Hl) as (fl & v & Hin).
  destruct (all_reqs_slot _ _ _ _ _ _ _ Hin) as (s & Hs & Hk & _ & _).
  pose proof (slot_key_ok sx s Hs) as K. rewrite <- Hk in K. unfold line_ok. exact K.
Qed.

Definition ev_time (e : Z * nat * event) : Z := let '(tm, _, _) := e in tm.

Lemma run_from_lines sx evs : forall st st' tl,
  run_from sx st evs = Ok (st', tl) ->
  Forall (fun x => line_ok sx (snd x)) tl /\ (forall x, In x tl -> In (fst x) (map ev_time evs)).
Proof.
  induction evs as [|[[tm who] ev] evs IH]; cbn [run_from]; intros st st' tl H.
  - injection H as <- <-. split; [constructor|intros x []].
  - destruct (step sx st who ev) as [[st1 ls]|] eqn:Es; [|discriminate H].
    destruct (run_from sx st1 evs) as [[st2 ls2]|] eqn:Er; [|discriminate H].
    injection H as <- <-. destruct (IH _ _ _ Er) as [F T]. split.
    + apply Forall_app. split; [|exact F]. apply Forall_forall. intros x Hx. apply in_map_iff in Hx as [l [<- Hl]].
      cbn [snd]. pose proof (step_lines_ok _ _ _ _ _ _ Es) as L. rewrite Forall_forall in L. now apply L.
    + intros x Hx. apply in_app_or in Hx as [Hx|Hx].
      * apply in_map_iff in Hx as [l [<- Hl]]. cbn [fst map ev_time]. now left.
      * cbn [map]. right. now apply T.
Qed.

(* times never decrease when the input is sorted by time (which the player guarantees, C03) *)
Lemma run_from_sorted sx evs : forall st st' tl,
  StronglySorted Z.le (map ev_time evs) ->
  run_from sx st evs = Ok (st', tl) -> StronglySorted Z.le (map fst tl).
Proof.
  induction evs as [|[[tm who] ev] evs IH]; cbn [run_from]; intros st st' tl S H.
  - injection H as <- <-. constructor.
  - destruct (step sx st who ev) as [[st1 ls]|] eqn:Es; [|discriminate H].
    destruct (run_from sx st1 evs) as [[st2 ls2]|] eqn:Er; [|discriminate H].
    injection H as <- <-. cbn [map ev_time] in S. inversion S as [|? ? S' Hle]; subst.
    pose proof (IH _ _ _ S' Er) as S2. destruct (run_from_lines _ _ _ _ _ Er) as [_ T].
    rewrite map_app, map_map. cbn [fst]. clear Es.
    induction ls as [|l ls IHl]; cbn [map app]; [exact S2|].
    constructor; [exact IHl|]. apply Forall_app. split.
    + apply Forall_forall. intros x Hx. apply in_map_iff in Hx as [? [<- _]]. lia.
    + apply Forall_forall. intros x Hx. apply in_map_iff in Hx as [y [<- Hy]].
      rewrite Forall_forall in Hle. apply Hle. now apply T.
Qed.

(* ---------------------------------------------------------------- the two files of a run *)
Record prv_file := { pf_duration : Z; pf_nrows : nat; pf_records : list (Z * nat * Z * Z) (* time, row (1-based), type, value *) }.

Definition first_time (evs : list (Z * nat * event)) : Z := match evs with e :: _ => ev_time e | [] => 0 end.
Definition last_time (evs : list (Z * nat * event)) : Z := last (map ev_time evs) 0.

Definition records (t0 : Z) (cpu : bool) (tl : list (Z * line)) : list (Z * nat * Z * Z) :=
  flat_map (fun '(tm, l) => if Bool.eqb (l_cpu l) cpu then [(tm - t0, S (l_row l), l_type l, l_val l)] else []) tl.

(* pv/prv.c: the header carries the time of the last processed event, relative to the first, and the row count *)
Definition prv_files (sx : static) (lint : list nat) (evs : list (Z * nat * event)) : result (prv_file * prv_file) :=
  match run sx lint evs with
  | Err e => Err e
  | Ok tl =>
    let t0 := first_time evs in
    Ok ({| pf_duration := last_time evs - t0; pf_nrows := length (s_threads sx); pf_records := records t0 false tl |},
        {| pf_duration := last_time evs - t0; pf_nrows := length (s_cpus sx); pf_records := records t0 true tl |})
  end.

Definition rec_time (r : Z * nat * Z * Z) : Z := let '(tm, _, _, _) := r in tm.
Definition rec_row (r : Z * nat * Z * Z) : nat := let '(_, row, _, _) := r in row.
Definition rec_type (r : Z * nat * Z * Z) : Z := let '(_, _, ty, _) := r in ty.

Definition file_ok (declared : list Z) (f : prv_file) : Prop :=
  StronglySorted Z.le (map rec_time (pf_records f)) /\
  Forall (fun r => 0 <= rec_time r <= pf_duration f /\ (1 <= rec_row r <= pf_nrows f)%nat /\ In (rec_type r) declared) (pf_records f).

Lemma last_in (l : list Z) d : l <> [] -> In (last l d) l.
Proof.
  induction l as [|a l IH]; [congruence|]. intros _. destruct l as [|b l]; [now left|].
  right. apply IH. discriminate.
Qed.

Lemma sorted_bounds (l : list Z) x : StronglySorted Z.le l -> In x l -> hd 0 l <= x <= last l 0.
Proof.
  induction l as [|a l IH]; [intros _ []|]. intros S Hx. inversion S as [|? ? S' Hle]; subst. rewrite Forall_forall in Hle.
  destruct l as [|b l].
  - destruct Hx as [<-|[]]. cbn. lia.
  - cbn [hd]. change (last (a :: b :: l) 0) with (last (b :: l) 0).
    assert (Hlast : a <= last (b :: l) 0) by (apply Hle; apply last_in; discriminate).
    destruct Hx as [<-|Hx]; [lia|]. specialize (IH S' Hx). cbn [hd] in IH. pose proof (Hle b ltac:(now left)). lia.
Qed.

Lemma records_sorted t0 cpu tl :
  StronglySorted Z.le (map fst tl) -> StronglySorted Z.le (map rec_time (records t0 cpu tl)).
Proof.
  induction tl as [|[tm l] tl IH]; cbn [map records flat_map fst]; intros S; [constructor|].
  inversion S as [|? ? S' Hle]; subst. fold (records t0 cpu tl).
  destruct (Bool.eqb (l_cpu l) cpu); cbn [app map rec_time]; [|now apply IH].
  constructor; [now apply IH|]. apply Forall_forall. intros x Hx. apply in_map_iff in Hx as [r [<- Hr]].
  unfold records in Hr. apply in_flat_map in Hr as [[tm' l'] [Hin Hr]].
  destruct (Bool.eqb (l_cpu l') cpu); [|contradiction]. destruct Hr as [<-|[]]. cbn [rec_time].
  rewrite Forall_forall in Hle. specialize (Hle tm' ltac:(apply in_map_iff; exists (tm', l'); auto)). lia.
Qed.

Theorem prv_files_ok sx lint evs fth fcpu :
  StronglySorted Z.le (map ev_time evs) ->
  prv_files sx lint evs = Ok (fth, fcpu) ->
  file_ok (th_types sx) fth /\ file_ok (cpu_types sx) fcpu /\
  pf_nrows fth = length (s_threads sx) /\ pf_nrows fcpu = length (s_cpus sx) /\
  pf_duration fth = last_time evs - first_time evs /\ pf_duration fcpu = pf_duration fth.
Proof.
  unfold prv_files, run. intros S H.
  destruct (run_from sx (init sx) evs) as [[st tl]|] eqn:Er; [|discriminate H].
  destruct (negb (all_dead st)); [discriminate H|].
  destruct (s_lint sx && negb (lint_ok sx lint st)); [discriminate H|].
  injection H as <- <-. cbn [pf_nrows pf_duration].
  pose proof (run_from_sorted _ _ _ _ _ S Er) as St. destruct (run_from_lines _ _ _ _ _ Er) as [L T].
  assert (B : forall cpu : bool, file_ok (if cpu then cpu_types sx else th_types sx)
     {| pf_duration := last_time evs - first_time evs; pf_nrows := length (if cpu then map (fun _ => tt) (s_cpus sx) else map (fun _ => tt) (s_threads sx));
        pf_records := records (first_time evs) cpu tl |}).
  { intros cpu. split; cbn [pf_records pf_duration pf_nrows]; [now apply records_sorted|].
    apply Forall_forall. intros r Hr. unfold records in Hr. apply in_flat_map in Hr as [[tm l] [Hin Hr]].
    destruct (Bool.eqb (l_cpu l) cpu) eqn:Ec; [|contradiction]. destruct Hr as [<-|[]]. cbn [rec_time rec_row rec_type].
    apply eqb_prop in Ec. rewrite Forall_forall in L. specialize (L _ Hin). cbn [snd] in L. unfold line_ok in L. rewrite Ec in L.
    specialize (T _ Hin). cbn [fst] in T.
    pose proof (sorted_bounds _ _ S T) as Bd. unfold last_time, first_time.
    assert (Hhd : hd 0 (map ev_time evs) = match evs with e :: _ => ev_time e | [] => 0 end) by (destruct evs; reflexivity).
    rewrite Hhd in Bd. split; [lia|]. destruct cpu; rewrite map_length; destruct L as [Lr Lt]; (split; [lia|exact Lt]). }
  pose proof (B false) as Bt. pose proof (B true) as Bc. cbn beta iota in Bt, Bc. rewrite map_length in Bt, Bc.
  repeat split; try reflexivity; try apply Bt; try apply Bc.
Qed.
