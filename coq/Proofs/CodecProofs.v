(* Proofs about the event codec (Rt/CodecDefs.v):
   - the flag-nibble arithmetic of ovni_payload_add, by a whole-domain sweep
     (256 flag values x chunk sizes 2..16) lifted to a forall;
   - what ovni_payload_add / build produce and exactly when they die;
   - the memory image copied by ovni_ev_add is the documented encoding;
   - parse (encode es) = es (unique decodability), parse never runs out of fuel. *)
From OV Require Import Base.CInt Rt.CodecPre Gen.Codec_gen Rt.CodecDefs Rt.RtBufDefs.
From Coq Require Import ZifyBool.
Local Open Scope Z_scope.

(* ------------------------------------------------------------------ generic helpers *)

Lemma zlength_acc {A} (l : list A) : forall a, fold_left (fun n _ => n + 1) l a = a + Z.of_nat (length l).
Proof.
  induction l as [|x l IH]; intros a; cbn [fold_left length].
  - lia.
  - rewrite IH. lia.
Qed.

Lemma zlength_len {A} (l : list A) : zlength l = Z.of_nat (length l).
Proof. unfold zlength. rewrite zlength_acc. lia. Qed.

Lemma zlength_nonneg {A} (l : list A) : 0 <= zlength l.
Proof. rewrite zlength_len. lia. Qed.

Lemma zlength_app {A} (a b : list A) : zlength (a ++ b) = zlength a + zlength b.
Proof. rewrite !zlength_len, app_length. lia. Qed.

Lemma zlength_nil {A} : zlength (@nil A) = 0.
Proof. reflexivity. Qed.

Lemma zlength_cons {A} (x : A) l : zlength (x :: l) = 1 + zlength l.
Proof. rewrite !zlength_len. cbn [length]. lia. Qed.

Lemma zlength_to_nat {A} (l : list A) : Z.to_nat (zlength l) = length l.
Proof. rewrite zlength_len. lia. Qed.

Lemma zlength_zero_nil {A} (l : list A) : zlength l = 0 -> l = [].
Proof. rewrite zlength_len. destruct l; cbn [length]; [reflexivity | lia]. Qed.

Definition zrange (lo : Z) (n : nat) : list Z := map (fun i => lo + Z.of_nat i) (seq 0 n).

Lemma in_zrange lo n z : lo <= z < lo + Z.of_nat n -> In z (zrange lo n).
Proof.
  intros H. unfold zrange. apply in_map_iff. exists (Z.to_nat (z - lo)). split.
  - lia.
  - apply in_seq. lia.
Qed.

Lemma zrange_forall (P : Z -> bool) lo n :
  forallb P (zrange lo n) = true -> forall z, lo <= z < lo + Z.of_nat n -> P z = true.
Proof. intros H z Hz. rewrite forallb_forall in H. apply H. apply in_zrange. exact Hz. Qed.

Lemma skipn_repeat {A} (a : A) : forall n k, skipn n (repeat a k) = repeat a (k - n).
Proof.
  induction n as [|n IH]; intros k.
  - rewrite Nat.sub_0_r. reflexivity.
  - destruct k as [|k]; cbn [repeat skipn Nat.sub]; [reflexivity | apply IH].
Qed.

Lemma firstn_exact {A} (a b : list A) n : n = length a -> firstn n (a ++ b) = a.
Proof.
  intros ->. rewrite firstn_app, Nat.sub_diag, firstn_all. cbn [firstn]. apply app_nil_r.
Qed.

Lemma skipn_exact {A} (a b : list A) n : n = length a -> skipn n (a ++ b) = b.
Proof.
  intros ->. rewrite skipn_app, Nat.sub_diag, skipn_all. reflexivity.
Qed.

(* ------------------------------------------------------------------ little endian *)

Lemma le_bytes_length n : forall z, length (le_bytes n z) = n.
Proof. induction n as [|n IH]; intros z; cbn [le_bytes length]; [reflexivity | rewrite IH; reflexivity]. Qed.

Lemma le_bytes_byte n : forall z, Forall byte (le_bytes n z).
Proof.
  induction n as [|n IH]; intros z; cbn [le_bytes]; constructor.
  - unfold byte. apply Z.mod_pos_bound. lia.
  - apply IH.
Qed.

Lemma le_val_le_bytes n : forall z, le_val (le_bytes n z) = z mod 256 ^ Z.of_nat n.
Proof.
  induction n as [|n IH]; intros z.
  - cbn [le_bytes le_val]. rewrite Z.mod_1_r. reflexivity.
  - cbn [le_bytes le_val]. rewrite IH.
    replace (Z.of_nat (S n)) with (1 + Z.of_nat n) by lia.
    rewrite Z.pow_add_r by lia. rewrite Z.pow_1_r.
    rewrite Z.rem_mul_r by (try lia; apply Z.pow_pos_nonneg; lia). reflexivity.
Qed.

Lemma le_val_le_bytes_small n z : 0 <= z < 256 ^ Z.of_nat n -> le_val (le_bytes n z) = z.
Proof. intros H. rewrite le_val_le_bytes. apply Z.mod_small. exact H. Qed.

Lemma zlength_le_bytes n z : zlength (le_bytes n z) = Z.of_nat n.
Proof. rewrite zlength_len, le_bytes_length. reflexivity. Qed.

Lemma le_bytes_le_val l : Forall byte l -> le_bytes (length l) (le_val l) = l.
Proof.
  induction 1 as [|b r Hb _ IH]; cbn [length le_bytes le_val]; [reflexivity|].
  unfold byte in Hb. f_equal.
  - replace (b + 256 * le_val r) with (b + le_val r * 256) by lia. rewrite Z.mod_add by lia.
    apply Z.mod_small. exact Hb.
  - replace (b + 256 * le_val r) with (b + le_val r * 256) by lia. rewrite Z.div_add by lia.
    rewrite Z.div_small by exact Hb. cbn [Z.add]. exact IH.
Qed.

Lemma le_val_range l : Forall byte l -> 0 <= le_val l < 256 ^ Z.of_nat (length l).
Proof.
  induction 1 as [|b r Hb _ IH]; cbn [length le_val]; [cbn; lia|].
  unfold byte in Hb. replace (Z.of_nat (S (length r))) with (1 + Z.of_nat (length r)) by lia.
  rewrite Z.pow_add_r by lia. rewrite Z.pow_1_r. nia.
Qed.

Global Opaque le_bytes.

(* ------------------------------------------------------------------ take *)

Lemma take_app a : forall b, take (length a) (a ++ b) = Some (a, b).
Proof.
  induction a as [|x a IH]; intros b; cbn [length take app]; [reflexivity | rewrite IH; reflexivity].
Qed.

Lemma take_some n : forall l a b, take n l = Some (a, b) -> l = a ++ b /\ length a = n.
Proof.
  induction n as [|n IH]; intros l a b H; cbn [take] in H.
  - inversion H. subst. split; reflexivity.
  - destruct l as [|x r]; [discriminate|].
    destruct (take n r) as [[a' b']|] eqn:E; [|discriminate].
    inversion H. subst. apply IH in E. destruct E as [-> <-]. split; reflexivity.
Qed.

Lemma takez_take l : forall n, takez l n = take (Z.to_nat n) l.
Proof.
  induction l as [|x r IH]; intros n; cbn [takez].
  - destruct (n <=? 0) eqn:E.
    + replace (Z.to_nat n) with O by lia. reflexivity.
    + destruct (Z.to_nat n) eqn:E2; [lia|]. reflexivity.
  - destruct (n <=? 0) eqn:E.
    + replace (Z.to_nat n) with O by lia. reflexivity.
    + rewrite IH. replace (Z.to_nat n) with (S (Z.to_nat (n - 1))) by lia. reflexivity.
Qed.

(* ------------------------------------------------------------------ constants of the source agree with the documented format *)

Lemma const_jumbo : c_OVNI_EV_JUMBO = JUMBO_FLAG.
Proof. reflexivity. Qed.
Lemma const_header_size : c_sizeof_struct_ovni_ev_header = HEADER_SIZE.
Proof. reflexivity. Qed.
Lemma const_payload_size : c_sizeof_union_ovni_ev_payload = 16.
Proof. reflexivity. Qed.
Lemma const_stream_header_size : c_sizeof_struct_ovni_stream_header = 8.
Proof. reflexivity. Qed.
Lemma const_stream_version : c_OVNI_STREAM_VERSION = 1.
Proof. reflexivity. Qed.

Lemma format_constants :
  c_OVNI_EV_JUMBO = 16 /\ c_sizeof_struct_ovni_ev_header = 12 /\ c_sizeof_union_ovni_ev_payload = 16 /\
  c_sizeof_struct_ovni_stream_header = 8 /\ c_OVNI_STREAM_VERSION = 1 /\ stream_header_image = STREAM_HEADER /\
  64 <= c_OVNI_MAX_EV_BUF.
Proof. repeat split; vm_compute; congruence. Qed.

(* ------------------------------------------------------------------ the flag nibble *)

(* ovni_payload_size only looks at the flags of a non-jumbo event *)
Definition flags_ev (fl : Z) : ovni_ev := mkEv fl 0 0 0 0 [].

Lemma payload_size_flags ev :
  Z.land (h_flags ev) c_OVNI_EV_JUMBO = 0 -> ovni_payload_size ev = ovni_payload_size (flags_ev (h_flags ev)).
Proof.
  intros H. unfold ovni_payload_size, get_header_flags. cbn [h_flags flags_ev]. rewrite H. reflexivity.
Qed.

(* one cell of the sweep: flags fl (any of the 256 values), chunk size sz *)
Definition nibble_cell (fl sz : Z) : bool :=
  if negb (Z.land fl c_OVNI_EV_JUMBO =? 0) then true
  else
    let ps := cast_uint64 (ovni_payload_size (flags_ev fl)) in
    if ps + sz >? c_sizeof_union_ovni_ev_payload then true
    else
      let fl' := cast_uint8 (Z.lor (Z.land fl 240) (Z.land (ps + sz - 1) 15)) in
      (ovni_payload_size (flags_ev fl') =? ps + sz) &&
      (Z.land fl' 240 =? Z.land fl 240) &&
      (Z.land fl' c_OVNI_EV_JUMBO =? 0) &&
      (ps =? ovni_payload_size (flags_ev fl)) && (0 <=? ps) && (ps <=? 16) &&
      (if fl <? 16 then fl' =? nibble (ps + sz) else true).

Lemma nibble_sweep :
  forallb (fun fl => forallb (nibble_cell fl) (zrange 2 15)) (zrange 0 256) = true.
Proof. vm_compute. reflexivity. Qed.

Lemma nibble_cell_all fl sz : 0 <= fl < 256 -> 2 <= sz <= 16 -> nibble_cell fl sz = true.
Proof.
  intros Hf Hs.
  pose proof (zrange_forall _ 0 256 nibble_sweep fl ltac:(lia)) as H. cbv beta in H.
  apply (zrange_forall _ 2 15 H sz). lia.
Qed.

(* sizes of payloads with clear high nibble: 0 -> 0 ; k in 1..15 -> k+1 *)
Definition small_cell (fl : Z) : bool :=
  (ovni_payload_size (flags_ev fl) =? (if fl =? 0 then 0 else fl + 1)) &&
  (Z.land fl c_OVNI_EV_JUMBO =? 0).

Lemma small_sweep : forallb small_cell (zrange 0 16) = true.
Proof. vm_compute. reflexivity. Qed.

Lemma nibble_range n : n = 0 \/ 2 <= n <= 16 -> 0 <= nibble n < 16.
Proof. intros H. unfold nibble. destruct (n =? 0) eqn:E; lia. Qed.

Lemma payload_size_nibble ev n :
  (n = 0 \/ 2 <= n <= 16) -> h_flags ev = nibble n ->
  ovni_payload_size ev = n /\ Z.land (h_flags ev) c_OVNI_EV_JUMBO = 0.
Proof.
  intros Hn Hf.
  pose proof (nibble_range n Hn) as Hr.
  pose proof (zrange_forall _ 0 16 small_sweep (nibble n) ltac:(lia)) as H.
  unfold small_cell in H. apply andb_prop in H. destruct H as [H1 H2].
  assert (HJ : Z.land (h_flags ev) c_OVNI_EV_JUMBO = 0) by (rewrite Hf; apply Z.eqb_eq; exact H2).
  apply Z.eqb_eq in H1.
  split; [|exact HJ].
  rewrite payload_size_flags by exact HJ. rewrite Hf.
  unfold nibble in *. destruct (n =? 0) eqn:E.
  - rewrite H1. cbn. lia.
  - rewrite H1. destruct (n - 1 =? 0) eqn:E2; lia.
Qed.

(* The general statement about ovni_payload_add, for every flags byte: the size grows by
   exactly the chunk and the reserved (high) nibble is left alone. *)
Theorem payload_add_nibble ev buf ev' :
  0 <= h_flags ev < 256 ->
  ovni_payload_add ev buf = Ret ev' ->
  ovni_payload_size ev' = ovni_payload_size ev + zlength buf /\
  Z.land (h_flags ev') 240 = Z.land (h_flags ev) 240 /\
  2 <= zlength buf /\ ovni_payload_size ev + zlength buf <= 16.
Proof.
  intros Hf H. unfold ovni_payload_add in H.
  destruct (negb (Z.land (h_flags ev) c_OVNI_EV_JUMBO =? 0)) eqn:EJ; [discriminate|].
  destruct (zlength buf <? 2) eqn:E2; [discriminate|].
  destruct (cast_uint64 (ovni_payload_size ev) + zlength buf >? c_sizeof_union_ovni_ev_payload) eqn:E3; [discriminate|].
  inversion H; subst ev'; clear H.
  assert (HJ : Z.land (h_flags ev) c_OVNI_EV_JUMBO = 0) by lia.
  assert (Hs : 2 <= zlength buf <= 16).
  { split; [lia|]. rewrite payload_size_flags in E3 by exact HJ.
    pose proof (nibble_cell_all (h_flags ev) 2 Hf ltac:(lia)) as C. unfold nibble_cell in C.
    rewrite EJ in C.
    destruct (cast_uint64 (ovni_payload_size (flags_ev (h_flags ev))) + 2 >? c_sizeof_union_ovni_ev_payload) eqn:E4.
    - change c_sizeof_union_ovni_ev_payload with 16 in *. lia.
    - repeat (apply andb_prop in C; destruct C as [C ?]).
      change c_sizeof_union_ovni_ev_payload with 16 in *. lia. }
  pose proof (nibble_cell_all (h_flags ev) (zlength buf) Hf Hs) as C. unfold nibble_cell in C.
  rewrite EJ in C. rewrite payload_size_flags in E3 by exact HJ. rewrite E3 in C.
  repeat (apply andb_prop in C; destruct C as [C ?]).
  rewrite (payload_size_flags ev) by exact HJ.
  set (ps := cast_uint64 (ovni_payload_size (flags_ev (h_flags ev)))) in *.
  set (fl' := cast_uint8 (Z.lor (Z.land (h_flags ev) 240) (Z.land (ps + zlength buf - 1) 15))) in *.
  apply Z.eqb_eq in H3. apply Z.eqb_eq in H4. apply Z.eqb_eq in C. apply Z.eqb_eq in H2.
  assert (P : ovni_payload_size (set_flags (set_payload ev (splice (ev_payload ev) ps buf)) fl') =
              ovni_payload_size (flags_ev fl')).
  { rewrite payload_size_flags; cbn [h_flags set_flags set_payload]; [reflexivity | exact H3]. }
  rewrite P. cbn [h_flags set_flags set_payload].
  change c_sizeof_union_ovni_ev_payload with 16 in *. lia.
Qed.

(* ------------------------------------------------------------------ events built through the API *)

(* ev was obtained from a zeroed struct by payload_add's that appended pl *)
Definition built (pl : list Z) (ev : ovni_ev) : Prop :=
  h_flags ev = nibble (zlength pl) /\
  ev_payload ev = pl ++ repeat 0 (16 - length pl) /\
  (zlength pl = 0 \/ 2 <= zlength pl <= 16).

Lemma built_zero m c v : built [] (ovni_ev_set_mcv ev_zero m c v).
Proof. unfold built. cbn. repeat split. left. reflexivity. Qed.

Lemma built_set_clock pl ev t : built pl ev -> built pl (ovni_ev_set_clock ev t).
Proof. unfold built. cbn [ovni_ev_set_clock h_flags ev_payload]. tauto. Qed.

Lemma built_size pl ev : built pl ev -> ovni_payload_size ev = zlength pl /\ Z.land (h_flags ev) c_OVNI_EV_JUMBO = 0.
Proof. intros (Hf & _ & Hn). apply payload_size_nibble; [lia | exact Hf]. Qed.

Lemma cast_uint64_small z : 0 <= z <= 2 ^ 32 -> cast_uint64 z = z.
Proof. intros H. apply wrapu_small. lia. Qed.

Lemma payload_add_built pl ev ch :
  built pl ev ->
  ovni_payload_add ev ch =
  if (zlength ch <? 2) || (zlength pl + zlength ch >? 16) then Die
  else Ret (set_flags (set_payload ev ((pl ++ ch) ++ repeat 0 (16 - length (pl ++ ch)))) (nibble (zlength (pl ++ ch)))).
Proof.
  intros B. pose proof (built_size pl ev B) as [Hs HJ]. destruct B as (Hf & Hp & Hn).
  unfold ovni_payload_add. rewrite HJ. cbn [Z.eqb negb].
  destruct (zlength ch <? 2) eqn:E2; cbn [orb]; [reflexivity|].
  rewrite Hs. rewrite cast_uint64_small by lia.
  change c_sizeof_union_ovni_ev_payload with 16.
  destruct (zlength pl + zlength ch >? 16) eqn:E3; [reflexivity|].
  f_equal. f_equal.
  - (* payload *)
    f_equal. unfold splice. rewrite Hp.
    rewrite zlength_to_nat. rewrite firstn_exact by reflexivity.
    rewrite skipn_app.
    assert (L : (length pl + length ch - length pl = length ch)%nat) by lia. rewrite L.
    rewrite skipn_all2 by lia. rewrite skipn_repeat. cbn [app].
    rewrite <- app_assoc. f_equal. f_equal. f_equal. rewrite app_length. lia.
  - (* flags *)
    assert (Hfl : 0 <= h_flags ev < 16) by (rewrite Hf; apply nibble_range; lia).
    pose proof (nibble_cell_all (h_flags ev) (zlength ch) ltac:(lia) ltac:(lia)) as C.
    unfold nibble_cell in C. rewrite HJ in C. cbn [Z.eqb negb] in C.
    rewrite <- (payload_size_flags ev) in C by exact HJ. rewrite Hs in C.
    rewrite cast_uint64_small in C by lia. change c_sizeof_union_ovni_ev_payload with 16 in C.
    rewrite E3 in C.
    repeat (apply andb_prop in C; destruct C as [C ?]).
    destruct (h_flags ev <? 16) eqn:E4; [|lia].
    rewrite zlength_app. lia.
Qed.

Lemma built_after pl ev ch :
  built pl ev -> 2 <= zlength ch -> zlength pl + zlength ch <= 16 ->
  built (pl ++ ch) (set_flags (set_payload ev ((pl ++ ch) ++ repeat 0 (16 - length (pl ++ ch)))) (nibble (zlength (pl ++ ch)))).
Proof.
  intros B H2 H16. unfold built. cbn [h_flags ev_payload set_flags set_payload].
  repeat split. right. rewrite zlength_app. pose proof (zlength_nonneg pl). lia.
Qed.

(* fold of payload_add over the chunks, from a state that already holds pl *)
Definition build_from (r : res ovni_ev) (chunks : list (list Z)) : res ovni_ev :=
  fold_left (fun r ch => match r with Ret e => ovni_payload_add e ch | Die => Die end) chunks r.

Lemma build_from_die chunks : build_from Die chunks = Die.
Proof. induction chunks as [|ch r IH]; cbn [build_from fold_left]; [reflexivity | exact IH]. Qed.

Lemma build_from_spec chunks : forall pl ev,
  built pl ev ->
  (forallb (fun ch => 2 <=? zlength ch) chunks && (zlength (pl ++ concat chunks) <=? 16) = true ->
     exists ev', build_from (Ret ev) chunks = Ret ev' /\ built (pl ++ concat chunks) ev' /\
                 h_model ev' = h_model ev /\ h_category ev' = h_category ev /\ h_value ev' = h_value ev /\
                 h_clock ev' = h_clock ev) /\
  (forallb (fun ch => 2 <=? zlength ch) chunks && (zlength (pl ++ concat chunks) <=? 16) = false ->
     build_from (Ret ev) chunks = Die).
Proof.
  induction chunks as [|ch r IH]; intros pl ev B.
  - cbn [build_from fold_left forallb concat andb]. rewrite app_nil_r. split.
    + intros _. exists ev. split; [reflexivity|]. split; [exact B|]. repeat split.
    + intros H. destruct B as (_ & _ & Hn). lia.
  - cbn [build_from fold_left forallb concat]. fold (build_from (ovni_payload_add ev ch) r).
    rewrite (payload_add_built pl ev ch B).
    pose proof (zlength_nonneg (concat r)) as Hc. pose proof (zlength_nonneg pl) as Hpl.
    rewrite !zlength_app.
    destruct (zlength ch <? 2) eqn:E2; cbn [orb].
    { rewrite build_from_die. split; [|reflexivity]. intros H. lia. }
    destruct (zlength pl + zlength ch >? 16) eqn:E3.
    { rewrite build_from_die. split; [|reflexivity]. intros H. lia. }
    pose proof (built_after pl ev ch B ltac:(lia) ltac:(lia)) as B'.
    specialize (IH (pl ++ ch) _ B'). rewrite <- app_assoc in IH. rewrite !zlength_app in IH.
    destruct IH as [IH1 IH2]. split.
    + intros H. destruct IH1 as (ev' & E & Bf & ?). { lia. }
      exists ev'. split; [exact E|]. split; [exact Bf|]. cbn [h_model h_category h_value h_clock set_flags set_payload] in *. tauto.
    + intros H. apply IH2. lia.
Qed.

Theorem build_ok m c v chunks :
  chunks_okb chunks = true ->
  exists ev, build m c v chunks = Ret ev /\ built (concat chunks) ev /\
             h_model ev = m /\ h_category ev = c /\ h_value ev = v /\ h_clock ev = 0.
Proof.
  intros H. unfold chunks_okb in H.
  destruct (build_from_spec chunks [] _ (built_zero m c v)) as [S1 _].
  cbn [app] in S1. destruct (S1 H) as (ev & E & B & ?). exists ev. split; [exact E|]. split; [exact B|].
  cbn in *. tauto.
Qed.

Theorem build_accepts m c v chunks : chunks_okb chunks = true -> exists ev, build m c v chunks = Ret ev.
Proof. intros H. destruct (build_ok m c v chunks H) as (ev & E & _). exists ev. exact E. Qed.

Theorem build_die m c v chunks : chunks_okb chunks = false -> build m c v chunks = Die.
Proof.
  intros H. unfold chunks_okb in H.
  destruct (build_from_spec chunks [] _ (built_zero m c v)) as [_ S2]. apply S2. exact H.
Qed.

(* ------------------------------------------------------------------ the copied image is the documented encoding *)

Lemma ovni_ev_size_built pl ev : built pl ev -> cast_uint64 (ovni_ev_size ev) = 12 + zlength pl.
Proof.
  intros B. destruct (built_size pl ev B) as [Hs _]. unfold ovni_ev_size. rewrite Hs.
  change (cast_int32 c_sizeof_struct_ovni_ev_header) with 12.
  destruct B as (_ & _ & Hn). apply cast_uint64_small. lia.
Qed.

Lemma image_built pl ev :
  built pl ev ->
  ev_image ev (12 + zlength pl) =
  [h_flags ev; h_model ev; h_category ev; h_value ev] ++ le_bytes 8 (h_clock ev) ++ pl.
Proof.
  intros (Hf & Hp & Hn). unfold ev_image, struct_bytes. rewrite Hp.
  rewrite !app_assoc. apply firstn_exact.
  rewrite !app_length, le_bytes_length. cbn [length]. pose proof (zlength_len pl). lia.
Qed.

Theorem image_normal m c v t chunks ev :
  build m c v chunks = Ret ev -> chunks_okb chunks = true ->
  let ev' := ovni_ev_set_clock ev t in
  cast_uint64 (ovni_ev_size ev') = esize (mkU false m c v t (concat chunks)) /\
  ev_image ev' (cast_uint64 (ovni_ev_size ev')) = encode (mkU false m c v t (concat chunks)).
Proof.
  intros E H. destruct (build_ok m c v chunks H) as (ev0 & E0 & B & Hm & Hc & Hv & _).
  rewrite E in E0. inversion E0; subst ev0; clear E0.
  cbn zeta. pose proof (built_set_clock _ _ t B) as B'.
  rewrite (ovni_ev_size_built _ _ B'). split.
  - reflexivity.
  - rewrite (image_built _ _ B'). unfold encode. cbn [u_jumbo u_data u_m u_c u_v u_clock ovni_ev_set_clock h_flags h_model h_category h_value h_clock].
    destruct B as (Hf & _). rewrite Hf, Hm, Hc, Hv. reflexivity.
Qed.

Lemma image_set_flags ev f n : 0 < n -> ev_image (set_flags ev f) n = f :: tl (ev_image ev n).
Proof.
  intros H. unfold ev_image, struct_bytes.
  cbn [set_flags h_flags h_model h_category h_value h_clock ev_payload app].
  destruct (Z.to_nat n) eqn:E; [lia|]. reflexivity.
Qed.

(* the jumbo header: payload_add of the 4-byte size on an empty event, then the jumbo flag *)
Theorem image_jumbo m c v t n :
  0 <= n < 2 ^ 32 ->
  let ev := ovni_ev_set_clock (ovni_ev_set_mcv ev_zero m c v) t in
  ovni_payload_size ev = 0 /\
  exists ev1, ovni_payload_add ev (le_bytes 4 n) = Ret ev1 /\
              cast_uint64 (ovni_ev_size ev1) = 16 /\
              ev_image (set_flags ev1 (Z.lor (h_flags ev1) c_OVNI_EV_JUMBO)) 16 =
              [JUMBO_FLAG + 3; m; c; v] ++ le_bytes 8 t ++ le_bytes 4 n.
Proof.
  intros Hn. cbn zeta.
  pose proof (built_set_clock _ _ t (built_zero m c v)) as B.
  destruct (built_size _ _ B) as [Hs _]. split; [exact Hs|].
  rewrite (payload_add_built [] _ (le_bytes 4 n) B).
  assert (Cnd : (zlength (le_bytes 4 n) <? 2) || (zlength (@nil Z) + zlength (le_bytes 4 n) >? 16) = false)
    by (rewrite zlength_le_bytes; reflexivity).
  rewrite Cnd. eexists. split; [reflexivity|].
  assert (B1 := built_after [] _ (le_bytes 4 n) B).
  rewrite zlength_le_bytes in B1. specialize (B1 ltac:(cbn; lia) ltac:(cbn; lia)).
  set (ev1 := set_flags _ _) in *.
  assert (F1 : h_flags ev1 = 3).
  { unfold ev1. cbn [h_flags set_flags app]. rewrite zlength_le_bytes. reflexivity. }
  split.
  - rewrite (ovni_ev_size_built _ _ B1). cbn [app]. rewrite zlength_le_bytes. reflexivity.
  - rewrite image_set_flags by lia.
    pose proof (image_built _ _ B1) as I. cbn [app] in I. rewrite zlength_le_bytes in I.
    change (12 + Z.of_nat 4) with 16 in I. rewrite I. rewrite F1.
    unfold ev1. cbn [tl app h_model h_category h_value h_clock set_flags set_payload ovni_ev_set_clock ovni_ev_set_mcv].
    reflexivity.
Qed.

(* ------------------------------------------------------------------ parse . encode = id *)

Lemma wf_uev_inv e :
  wf_uev e ->
  byte (u_m e) /\ byte (u_c e) /\ byte (u_v e) /\ 0 <= u_clock e < 2 ^ 64 /\
  (if u_jumbo e then zlength (u_data e) < 2 ^ 32
   else zlength (u_data e) = 0 \/ 2 <= zlength (u_data e) <= 16).
Proof.
  unfold wf_uev, wf_uevb, byteb, byte. intros H.
  repeat (apply andb_prop in H; destruct H as [H ?]).
  destruct (u_jumbo e); lia.
Qed.

Lemma parse_step e f rest :
  wf_uev e -> parse (S f) (encode e ++ rest) = pcons e (parse f rest).
Proof.
  intros W. destruct (wf_uev_inv e W) as (_ & _ & _ & Hc & Hd).
  destruct e as [j m c v t d]. cbn [u_jumbo u_m u_c u_v u_clock u_data] in *.
  unfold encode. cbn [u_jumbo u_m u_c u_v u_clock u_data].
  destruct j.
  - cbn [app parse].
    rewrite <- app_assoc.
    pose proof (take_app (le_bytes 8 t) ((le_bytes 4 (zlength d) ++ d) ++ rest)) as T8.
    rewrite le_bytes_length in T8. rewrite T8.
    rewrite Z.eqb_refl. rewrite <- app_assoc.
    pose proof (take_app (le_bytes 4 (zlength d)) (d ++ rest)) as T4.
    rewrite le_bytes_length in T4. rewrite T4.
    rewrite !le_val_le_bytes_small by (pose proof (zlength_nonneg d); cbn; lia).
    rewrite takez_take, zlength_to_nat, take_app. reflexivity.
  - cbn [app parse].
    rewrite <- app_assoc.
    pose proof (take_app (le_bytes 8 t) (d ++ rest)) as T8.
    rewrite le_bytes_length in T8. rewrite T8.
    pose proof (nibble_range (zlength d) Hd) as Hr.
    assert (E19 : (nibble (zlength d) =? JUMBO_FLAG + 3) = false) by (unfold JUMBO_FLAG; lia).
    rewrite E19.
    assert (E15 : ((0 <=? nibble (zlength d)) && (nibble (zlength d) <=? 15)) = true) by lia.
    rewrite E15.
    assert (En : (if nibble (zlength d) =? 0 then 0 else nibble (zlength d) + 1) = zlength d).
    { unfold nibble. destruct (zlength d =? 0) eqn:E0; [cbn; lia|].
      destruct (zlength d - 1 =? 0) eqn:E1; lia. }
    rewrite En. rewrite le_val_le_bytes_small by (cbn; lia).
    rewrite zlength_to_nat, take_app. reflexivity.
Qed.

Lemma parse_encode_fuel es : forall f,
  Forall wf_uev es -> (length es <= f)%nat -> parse f (flat_map encode es) = POk es.
Proof.
  induction es as [|e es IH]; intros f W L.
  - cbn [flat_map]. destruct f; reflexivity.
  - destruct f as [|f]; [cbn [length] in L; lia|].
    inversion W; subst. cbn [flat_map]. rewrite parse_step by assumption.
    rewrite IH; [reflexivity | assumption | cbn [length] in L; lia].
Qed.

Lemma encode_length_pos e : (1 <= length (encode e))%nat.
Proof. unfold encode. destruct (u_jumbo e); cbn [app length]; lia. Qed.

Lemma flat_encode_length es : (length es <= length (flat_map encode es))%nat.
Proof.
  induction es as [|e es IH]; cbn [flat_map length]; [lia|].
  rewrite app_length. pose proof (encode_length_pos e). lia.
Qed.

Theorem parse_encode es : Forall wf_uev es -> parse_all (flat_map encode es) = POk es.
Proof.
  intros W. unfold parse_all. apply parse_encode_fuel; [exact W|].
  pose proof (flat_encode_length es). lia.
Qed.

Theorem parse_stream_encode es :
  Forall wf_uev es -> parse_stream (STREAM_HEADER ++ flat_map encode es) = POk es.
Proof.
  intros W. unfold parse_stream.
  change (firstn 8 (STREAM_HEADER ++ flat_map encode es)) with STREAM_HEADER.
  change (skipn 8 (STREAM_HEADER ++ flat_map encode es)) with (flat_map encode es).
  replace (zlist_eqb STREAM_HEADER STREAM_HEADER) with true by (vm_compute; reflexivity).
  apply parse_encode. exact W.
Qed.

(* encodings of well-formed event lists are uniquely decodable *)
Corollary encode_injective es1 es2 :
  Forall wf_uev es1 -> Forall wf_uev es2 -> flat_map encode es1 = flat_map encode es2 -> es1 = es2.
Proof.
  intros W1 W2 E. pose proof (parse_encode es1 W1) as P1. rewrite E, (parse_encode es2 W2) in P1.
  inversion P1. reflexivity.
Qed.

(* ------------------------------------------------------------------ fuel *)

Lemma take_rest_length n : forall l a b, take n l = Some (a, b) -> (length b <= length l)%nat.
Proof.
  intros l a b H. apply take_some in H. destruct H as [-> _]. rewrite app_length. lia.
Qed.

Lemma pcons_nofuel e r : pcons e r = PNoFuel -> r = PNoFuel.
Proof. destruct r; cbn; congruence. Qed.

Lemma parse_fuel_enough f : forall bs, (length bs < f)%nat -> parse f bs <> PNoFuel.
Proof.
  induction f as [|f IH]; intros bs L; [lia|].
  destruct bs as [|fl [|m [|c [|v rest]]]]; cbn [parse]; try discriminate.
  destruct (take 8 rest) as [[cb rest2]|] eqn:T8; [|discriminate].
  pose proof (take_rest_length _ _ _ _ T8) as L8. cbn [length] in L.
  destruct (fl =? JUMBO_FLAG + 3).
  - destruct (take 4 rest2) as [[sb rest3]|] eqn:T4; [|discriminate].
    pose proof (take_rest_length _ _ _ _ T4) as L4.
    rewrite takez_take.
    destruct (take (Z.to_nat (le_val sb)) rest3) as [[d rest4]|] eqn:Tn; [|discriminate].
    pose proof (take_rest_length _ _ _ _ Tn) as Ln.
    intros H. apply pcons_nofuel in H. revert H. apply IH. lia.
  - destruct ((0 <=? fl) && (fl <=? 15)); [|discriminate].
    destruct (take (Z.to_nat (if fl =? 0 then 0 else fl + 1)) rest2) as [[d rest3]|] eqn:Tn; [|discriminate].
    pose proof (take_rest_length _ _ _ _ Tn) as Ln.
    intros H. apply pcons_nofuel in H. revert H. apply IH. lia.
Qed.

Theorem parse_all_never_out_of_fuel bs : parse_all bs <> PNoFuel.
Proof. unfold parse_all. apply parse_fuel_enough. lia. Qed.

Theorem parse_stream_never_out_of_fuel bs : parse_stream bs <> PNoFuel.
Proof.
  unfold parse_stream. destruct (zlist_eqb (firstn 8 bs) STREAM_HEADER); [|discriminate].
  apply parse_all_never_out_of_fuel.
Qed.

(* ------------------------------------------------------------------ parse is sound: it only accepts encodings *)

Lemma pcons_ok e r es : pcons e r = POk es -> exists es', r = POk es' /\ es = e :: es'.
Proof. destruct r; cbn [pcons]; intros H; inversion H. eexists. split; reflexivity. Qed.

Lemma Forall_byte_forallb d : Forall byte d -> forallb byteb d = true.
Proof.
  intros H. apply forallb_forall. rewrite Forall_forall in H. intros x Hx. specialize (H x Hx).
  unfold byte in H. unfold byteb. lia.
Qed.

Lemma parse_sound f : forall bs es,
  Forall byte bs -> parse f bs = POk es -> flat_map encode es = bs /\ Forall wf_uev es.
Proof.
  induction f as [|f IH]; intros bs es HB H.
  - destruct bs; cbn [parse] in H; [|discriminate]. inversion H. split; [reflexivity | constructor].
  - destruct bs as [|fl [|m [|c [|v rest]]]]; cbn [parse] in H; try discriminate.
    { inversion H. split; [reflexivity | constructor]. }
    apply Forall_cons_iff in HB. destruct HB as [Bfl HB]. apply Forall_cons_iff in HB. destruct HB as [Bm HB].
    apply Forall_cons_iff in HB. destruct HB as [Bc HB]. apply Forall_cons_iff in HB. destruct HB as [Bv HB].
    destruct (take 8 rest) as [[cb rest2]|] eqn:T8; [|discriminate].
    apply take_some in T8. destruct T8 as [-> L8]. apply Forall_app in HB. destruct HB as [Bcb HB].
    pose proof (le_val_range cb Bcb) as RC. rewrite L8 in RC.
    pose proof (le_bytes_le_val cb Bcb) as EC. rewrite L8 in EC.
    assert (WB : forall x, byte x -> byteb x = true) by (intros x Hx; unfold byte in Hx; unfold byteb; lia).
    destruct (fl =? JUMBO_FLAG + 3) eqn:EJ.
    + destruct (take 4 rest2) as [[sb rest3]|] eqn:T4; [|discriminate].
      apply take_some in T4. destruct T4 as [-> L4]. apply Forall_app in HB. destruct HB as [Bsb HB].
      pose proof (le_val_range sb Bsb) as RS. rewrite L4 in RS.
      pose proof (le_bytes_le_val sb Bsb) as ES. rewrite L4 in ES.
      rewrite takez_take in H.
      destruct (take (Z.to_nat (le_val sb)) rest3) as [[d rest4]|] eqn:Tn; [|discriminate].
      apply take_some in Tn. destruct Tn as [-> Ln]. apply Forall_app in HB. destruct HB as [Bd HB].
      apply pcons_ok in H. destruct H as (es' & P & ->).
      destruct (IH _ _ HB P) as [E W]. split.
      * cbn [flat_map]. rewrite E. unfold encode. cbn [u_jumbo u_m u_c u_v u_clock u_data].
        assert (zlength d = le_val sb) by (rewrite zlength_len; lia). rewrite H, EC, ES.
        apply Z.eqb_eq in EJ. subst fl. cbn [app]. rewrite <- !app_assoc. reflexivity.
      * constructor; [|exact W]. unfold wf_uev, wf_uevb. cbn [u_jumbo u_m u_c u_v u_clock u_data].
        rewrite (WB _ Bm), (WB _ Bc), (WB _ Bv), (Forall_byte_forallb _ Bd).
        assert (zlength d = le_val sb) by (rewrite zlength_len; lia). cbn in RC, RS. lia.
    + destruct ((0 <=? fl) && (fl <=? 15)) eqn:E15; [|discriminate].
      set (n := if fl =? 0 then 0 else fl + 1) in *.
      destruct (take (Z.to_nat n) rest2) as [[d rest3]|] eqn:Tn; [|discriminate].
      apply take_some in Tn. destruct Tn as [-> Ln]. apply Forall_app in HB. destruct HB as [Bd HB].
      apply pcons_ok in H. destruct H as (es' & P & ->).
      destruct (IH _ _ HB P) as [E W].
      assert (Zd : zlength d = n) by (rewrite zlength_len; unfold n in *; destruct (fl =? 0); lia).
      assert (Nb : nibble (zlength d) = fl).
      { rewrite Zd. unfold nibble, n. destruct (fl =? 0) eqn:E0; [cbn; lia|]. destruct (fl + 1 =? 0) eqn:E1; lia. }
      split.
      * cbn [flat_map]. rewrite E. unfold encode. cbn [u_jumbo u_m u_c u_v u_clock u_data].
        rewrite Nb, EC. cbn [app]. rewrite <- !app_assoc. reflexivity.
      * constructor; [|exact W]. unfold wf_uev, wf_uevb. cbn [u_jumbo u_m u_c u_v u_clock u_data].
        rewrite (WB _ Bm), (WB _ Bc), (WB _ Bv), (Forall_byte_forallb _ Bd).
        cbn in RC. unfold n in Zd. destruct (fl =? 0) eqn:E0; lia.
Qed.

(* a file accepted by the strict parser is exactly the header followed by the encodings of the events
   it returns ("events tile the file exactly") *)
Theorem parse_stream_sound bs es :
  Forall byte bs -> parse_stream bs = POk es ->
  bs = STREAM_HEADER ++ flat_map encode es /\ Forall wf_uev es.
Proof.
  intros HB H. unfold parse_stream in H.
  destruct (zlist_eqb (firstn 8 bs) STREAM_HEADER) eqn:EH; [|discriminate].
  assert (EQ : forall a b, zlist_eqb a b = true -> a = b).
  { induction a as [|x a IHa]; intros [|y b] E; cbn [zlist_eqb] in E; try discriminate; [reflexivity|].
    apply andb_prop in E. destruct E as [E1 E2]. apply Z.eqb_eq in E1. subst. f_equal. apply IHa. exact E2. }
  apply EQ in EH. unfold parse_all in H.
  rewrite <- (firstn_skipn 8 bs) in HB. apply Forall_app in HB. destruct HB as [_ HB].
  destruct (parse_sound _ _ _ HB H) as [E W]. split; [|exact W].
  rewrite E, <- EH. symmetry. apply firstn_skipn.
Qed.
