(* Proofs about the event codec (Rt/CodecDefs.v) *)
From OV Require Import Base.CInt Rt.CodecPre Gen.Codec_gen Rt.CodecDefs.
From Coq Require Import ZifyBool.
Local Open Scope Z_scope.

Lemma const_jumbo : c_OVNI_EV_JUMBO = JUMBO_FLAG.
Proof. reflexivity. Qed.
