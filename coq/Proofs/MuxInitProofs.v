(* The generated construction functions of src/emu/mux.c (Gen/MuxInit_gen.v, unit muxc): what mux_init leaves in the struct
   mux and in the bay. *)
From Coq Require Import ZArith List Bool Lia.
From OV Require Import Base.CInt Emu.EmuCoreDefs Emu.MuxInitPre.
From OV Require Emu.BayDefs Gen.MuxInit_gen.
Import ListNotations.
Local Open Scope Z_scope.

Module G := MuxInit_gen.
Ltac munf := cbv beta delta [bind_ bind ite need eval ret fail].

Lemma constants : G.c_CHAN_SINGLE = 0 /\ G.c_CHAN_DIRTY_WRITE = P_DIRTY_WRITE /\ G.c_CHAN_ALLOW_DUP = P_ALLOW_DUP /\ G.c_BAY_CB_DIRTY = 0.
Proof. repeat split. Qed.

Lemma update_length {A} (l : list A) n x : length (update l n x) = length l.
Proof. revert n. induction l as [|a l IH]; intros [|n]; simpl; auto. Qed.
Lemma nth_error_update_same {A} (l : list A) n x : (n < length l)%nat -> nth_error (update l n x) n = Some x.
Proof. revert n. induction l as [|a l IH]; intros [|n] H; simpl in *; try lia; [reflexivity|]. apply IH. lia. Qed.

Lemma update_update {A} (l : list A) n x y : update (update l n x) n y = update l n y.
Proof. revert n. induction l as [|a l IH]; intros [|n]; simpl; auto. f_equal. apply IH. Qed.

(* the output channel after mux_init: DIRTY_WRITE and ALLOW_DUP *)
Definition out_chan (ch : B.chan) : B.chan :=
  {| B.c_stack := B.c_stack ch; B.c_val := B.c_val ch; B.c_stk := B.c_stk ch; B.c_last := B.c_last ch; B.c_dirty := B.c_dirty ch;
     B.c_dw := true; B.c_allow := true; B.c_ign := B.c_ign ch |}.

Theorem mux_init_from_source sx st s u ch f n :
  me_alloc_ok sx = true -> valid st s = true -> nth_error (B.b_chans (mi_bay st)) u = Some ch -> B.c_stack ch = false -> s <> u ->
  G.mux_init (Some tt) (Some tt) (Some s) (Some u) f n sx st =
  Ok (tt, mk (B.set_dcbs (B.set_chan (B.set_chan (mi_bay st) u
                 {| B.c_stack := B.c_stack ch; B.c_val := B.c_val ch; B.c_stk := B.c_stk ch; B.c_last := B.c_last ch; B.c_dirty := B.c_dirty ch;
                    B.c_dw := true; B.c_allow := B.c_allow ch; B.c_ign := B.c_ign ch |}) u (out_chan ch)) s
               (B.dcbs_of (mi_bay st) s ++ [B.DSelect (me_id sx)]))
             (Some tt) n 0 (Some (repeat input0 (Z.to_nat (cast_uint64 n)))) f (Some s) (Some u) None).
Proof.
  intros Ha Hs Hu Hst Hne.
  assert (Hul : (u < length (B.b_chans (mi_bay st)))%nat) by (apply nth_error_Some; congruence).
  assert (Hvu : valid st u = true) by (unfold valid; apply Nat.ltb_lt; exact Hul).
  unfold G.mux_init. munf. unfold chan_get_type. rewrite Hu, Hst.
  change (cast_uint32 G.c_CHAN_SINGLE) with 0. cbn [b2z Z.eqb negb].
  unfold ptr_eqb_chan. assert (Es : Nat.eqb s u = false) by (apply Nat.eqb_neq; exact Hne). rewrite Es.
  cbn [is_null negb]. unfold get_chan__name, bay_find. rewrite Hs, Hvu. cbn [is_null negb].
  change (cast_uint32 G.c_CHAN_DIRTY_WRITE) with 0. change (cast_uint32 G.c_CHAN_ALLOW_DUP) with 1.
  unfold chan_prop_set at 1. rewrite Hu. cbn [P_DIRTY_WRITE P_ALLOW_DUP Z.eqb orb negb].
  unfold chan_prop_set at 1. cbn [mi_bay with_bay mk B.set_chan B.b_chans]. rewrite (nth_error_update_same _ _ _ Hul).
  cbn [P_DIRTY_WRITE P_ALLOW_DUP Z.eqb orb negb B.c_stack B.c_val B.c_stk B.c_last B.c_dirty B.c_dw B.c_allow B.c_ign].
  change ((1 =? 1)%positive) with true. cbv iota. cbn [orb].
  unfold zero_mux, set_mux_select, set_mux_output, set_mux_ninputs, setm. cbn [mi_bay with_bay mk mi_link mi_ninputs mi_selected mi_inputs mi_fun mi_select mi_output mi_def].
  unfold calloc_ptr_input. rewrite Ha. unfold set_mux_inputs, set_mux_def, set_mux_select_func, set_mux_bay, setm, value_null, get_mux__inputs.
  cbn [mi_bay with_inputs with_bay mk mi_link mi_ninputs mi_selected mi_inputs mi_fun mi_select mi_output mi_def is_null negb].
  unfold bay_add_cb, void_of_ptr_mux, fn_cb_select, what_of. change (cast_uint32 G.c_BAY_CB_DIRTY) with 0. cbn [Z.eqb negb].
  unfold valid. cbn [mi_bay mk B.set_chan B.b_chans]. rewrite !update_length.
  unfold valid in Hs. rewrite Hs. rewrite Ha. cbn [negb is_null].
  unfold with_bay. cbn [mi_bay mk mi_link mi_ninputs mi_selected mi_inputs mi_fun mi_select mi_output mi_def].
  unfold out_chan, B.dcbs_of. cbn [B.b_dcbs B.set_chan]. rewrite ?Hst. reflexivity.
Qed.

Theorem mux_init_refusals sx st s u f n :
  (forall ch, nth_error (B.b_chans (mi_bay st)) u = Some ch -> B.c_stack ch = true ->
     G.mux_init (Some tt) (Some tt) (Some s) (Some u) f n sx st = Err E_FAIL) /\
  (G.mux_init (Some tt) (Some tt) (Some u) (Some u) f n sx st = Err E_FAIL) /\
  (forall ch, nth_error (B.b_chans (mi_bay st)) u = Some ch -> B.c_stack ch = false -> s <> u -> valid st s = false ->
     G.mux_init (Some tt) (Some tt) (Some s) (Some u) f n sx st = Err E_FAIL).
Proof.
  repeat split.
  - intros ch Hu Hst. unfold G.mux_init. munf. unfold chan_get_type. rewrite Hu, Hst. reflexivity.
  - unfold G.mux_init. munf. unfold ptr_eqb_chan. rewrite Nat.eqb_refl. destruct (negb _); reflexivity.
  - intros ch Hu Hst Hne Hv. unfold G.mux_init. munf. unfold chan_get_type. rewrite Hu, Hst.
    change (cast_uint32 G.c_CHAN_SINGLE) with 0. cbn [b2z Z.eqb negb].
    unfold ptr_eqb_chan. assert (Es : Nat.eqb s u = false) by (apply Nat.eqb_neq; exact Hne). rewrite Es.
    cbn [is_null negb]. unfold get_chan__name, bay_find. rewrite Hv. reflexivity.
Qed.

(* mux_add_reselect: cb_reselect ENABLED at the end of the channel's callbacks; mux_set_default *)
Theorem mux_add_reselect_from_source sx st c : me_alloc_ok sx = true -> valid st c = true -> mi_link st = Some tt ->
  G.mux_add_reselect (Some tt) (Some c) sx st =
  Ok (tt, with_bay st (B.set_dcbs (mi_bay st) c (B.dcbs_of (mi_bay st) c ++ [B.DReselect (me_id sx)]))).
Proof.
  intros Ha Hv Hl. unfold G.mux_add_reselect. munf. cbn [is_null negb]. unfold get_mux__bay. rewrite Hl.
  unfold bay_add_cb, void_of_ptr_mux, fn_cb_reselect, what_of. change (cast_uint32 G.c_BAY_CB_DIRTY) with 0. cbn [Z.eqb negb].
  rewrite Hv, Ha. reflexivity.
Qed.
Theorem mux_set_default_from_source sx st v :
  G.mux_set_default (Some tt) v sx st =
  Ok (tt, mk (mi_bay st) (mi_link st) (mi_ninputs st) (mi_selected st) (mi_inputs st) (mi_fun st) (mi_select st) (mi_output st) v).
Proof. reflexivity. Qed.

(* mux_set_input: the entry is filled and its cb_input is created DISABLED: the bay does not change *)
Theorem mux_set_input_from_source sx st i c l o :
  me_alloc_ok sx = true -> valid st c = true -> mi_link st = Some tt -> mi_output st <> Some c ->
  mi_inputs st = Some l -> nth_error l i = Some o -> in_chan o = None ->
  G.mux_set_input (Some tt) (Z.of_nat i) (Some c) sx st =
  Ok (tt, with_inputs st (Some (update l i {| in_index := Z.of_nat i; in_chan := Some c; in_selected := in_selected o; in_output := mi_output st;
                                             in_cb := Some (B.DInput (me_id sx) i) |}))).
Proof.
  intros Ha Hv Hl Hne Hi Ho Hc. unfold G.mux_set_input. munf. cbn [is_null negb]. unfold get_mux__output, get_mux__inputs, get_mux__bay.
  assert (Ep : ptr_eqb_chan (Some c) (mi_output st) = false).
  { unfold ptr_eqb_chan. destruct (mi_output st) as [x|]; [|reflexivity]. apply Nat.eqb_neq. intros ->. apply Hne. reflexivity. }
  rewrite Ep, Hi. cbn [at_ptr_input is_null negb Z.add].
  unfold get_mux_input__chan, input_at. rewrite Hi.
  assert (En : (Z.of_nat i <? 0) = false) by (apply Z.ltb_ge; lia). rewrite En, Nat2Z.id, Ho, Hc. cbn [is_null negb].
  assert (Hlt : (i < length l)%nat) by (apply nth_error_Some; congruence).
  unfold set_mux_input_index, set_mux_input_chan, set_mux_input_output, set_mux_input_cb, seti, input_at, get_mux_input__cb, input_at,
    bay_add_cb, void_of_ptr_input, fn_cb_input, what_of, valid in *.
  change (cast_uint32 G.c_BAY_CB_DIRTY) with 0.
  rewrite Hi, En, Nat2Z.id, Ho.
  repeat (cbn [mi_inputs with_inputs mk mi_bay mi_link mi_ninputs mi_selected mi_fun mi_select mi_output mi_def option_map Z.eqb negb is_null in_cb];
          rewrite ?En, ?Nat2Z.id, ?Hl, ?Hv, ?Ha;
          rewrite ?nth_error_update_same by (rewrite ?update_length; exact Hlt)).
  cbn [in_index in_chan in_selected in_output in_cb]. unfold with_inputs. cbn [mi_bay mi_link mi_ninputs mi_selected mi_fun mi_select mi_output mi_def mi_inputs mk].
  rewrite !update_update. reflexivity.
Qed.

(* ---- the struct mux read as a BayDefs mux record: what Emu/ConnectPre.v's hand-written mux_init appends to b_muxes *)
Definition fun_of (f : ptr_fn) (custom : nat -> B.selfun) : B.selfun :=
  match f with None => B.SelDefault | Some FRunning => B.SelRunning | Some FActive => B.SelActive | Some (FCustom k) => custom k end.
Definition record_of (custom : nat -> B.selfun) (st : mstate) : B.mux :=
  let ins := match mi_inputs st with Some l => l | None => [] end in
  {| B.mx_init := true;
     B.mx_sel := match mi_select st with Some c => c | None => 0%nat end;
     B.mx_out := match mi_output st with Some c => c | None => 0%nat end;
     B.mx_fun := fun_of (mi_fun st) custom; B.mx_def := mi_def st;
     B.mx_ins := map (fun o => match in_chan o with Some c => c | None => 0%nat end) ins;
     B.mx_en := map (fun _ => false) ins;                  (* every cb_input is created disabled (mux_set_input_from_source) *)
     B.mx_selected := Some (Z.to_nat (mi_selected st)) |}.

Lemma map_repeat' {A B} (f : A -> B) x n : map f (repeat x n) = repeat (f x) n.
Proof. induction n; simpl; [reflexivity|]. f_equal. assumption. Qed.

Theorem mux_init_record custom sx st s u ch f n st' :
  me_alloc_ok sx = true -> valid st s = true -> nth_error (B.b_chans (mi_bay st)) u = Some ch -> B.c_stack ch = false -> s <> u ->
  length (B.b_dcbs (mi_bay st)) = length (B.b_chans (mi_bay st)) ->
  G.mux_init (Some tt) (Some tt) (Some s) (Some u) f n sx st = Ok (tt, st') ->
  record_of custom st' =
    {| B.mx_init := true; B.mx_sel := s; B.mx_out := u; B.mx_fun := fun_of f custom; B.mx_def := None;
       B.mx_ins := repeat 0%nat (Z.to_nat (cast_uint64 n)); B.mx_en := repeat false (Z.to_nat (cast_uint64 n)); B.mx_selected := Some 0%nat |} /\
  B.dcbs_of (mi_bay st') s = B.dcbs_of (mi_bay st) s ++ [B.DSelect (me_id sx)] /\
  nth_error (B.b_chans (mi_bay st')) u = Some (out_chan ch) /\
  B.b_muxes (mi_bay st') = B.b_muxes (mi_bay st) /\ B.b_ecbs (mi_bay st') = B.b_ecbs (mi_bay st) /\ B.b_dirty (mi_bay st') = B.b_dirty (mi_bay st).
Proof.
  intros Ha Hs Hu Hst Hne Hlen H. rewrite (mux_init_from_source sx st s u ch f n Ha Hs Hu Hst Hne) in H. injection H as <-.
  assert (Hul : (u < length (B.b_chans (mi_bay st)))%nat) by (apply nth_error_Some; congruence).
  unfold valid in Hs. apply Nat.ltb_lt in Hs.
  split; [|split; [|split; [|repeat split]]].
  - unfold record_of, mk. cbn. rewrite !map_repeat'. reflexivity.
  - unfold B.dcbs_of, mk. cbn. apply nth_error_nth. apply nth_error_update_same.
    rewrite Hlen. exact Hs.
  - unfold mk. cbn. rewrite nth_error_update_same; [reflexivity|rewrite update_length; exact Hul].
Qed.
