(* Composition of unit connect with units muxc / bayc: the hand-written meanings that Emu/ConnectPre.v gives to mux_init,
   mux_set_input, mux_add_reselect, mux_set_default (the primitives the generated connect functions call) are what the
   GENERATED mux.c functions (Gen/MuxInit_gen.v) compute, on the bay of the connect state:
   - mux_init: run the generated mux_init on a fresh struct mux next to the connect state's bay, with the registered ids of
     the select / output channels; ConnectPre.mux_init is that run followed by committing the struct, read as a BayDefs mux
     record (MuxInitProofs.record_of), at the end of the mux table; the error codes correspond;
   - mux_set_input / mux_set_default / mux_add_reselect: a simulation through the relation `Rep` (the struct mux is the record
     stored under the mux id, the rest of the bay is the same).
   No proof is in ConnectPre.v. *)
From Coq Require Import ZArith List Bool Lia.
From OV Require Import Base.CInt Emu.EmuCoreDefs.
From OV Require Emu.BayDefs Emu.ConnectPre Emu.MuxInitPre Gen.MuxInit_gen Proofs.MuxInitProofs Proofs.EmuCoreProofs.
Import ListNotations.

Module B := BayDefs.
Module C := ConnectPre.
Module MI := MuxInitPre.
Module GM := MuxInit_gen.
Module MP := MuxInitProofs.

(* ---- addresses and ids *)
Lemma caddr_eqb_eq x y : C.caddr_eqb x y = true -> x = y.
Proof.
  destruct x, y; simpl; intros H; try discriminate;
    try (apply andb_prop in H; destruct H as [H1 H2]);
    repeat match goal with
           | H : Nat.eqb _ _ = true |- _ => apply Nat.eqb_eq in H
           | H : Z.eqb _ _ = true |- _ => apply Z.eqb_eq in H
           end; subst; reflexivity.
Qed.

Lemma index_of_spec l c : forall k i, C.index_of l c k = Some i ->
  exists j, i = (k + j)%nat /\ nth_error l j = Some c.
Proof.
  induction l as [|d r IH]; intros k i H; simpl in H; [discriminate|].
  destruct (C.caddr_eqb d c) eqn:E.
  - inversion H; subst. exists 0%nat. split; [lia|]. apply caddr_eqb_eq in E. subst. reflexivity.
  - destruct (IH _ _ H) as (j & -> & Hn). exists (S j). split; [lia|exact Hn].
Qed.

Lemma id_of_lt st c i : C.id_of st c = Some i -> (i < length (C.cs_reg st))%nat.
Proof.
  unfold C.id_of. intros H. destruct (index_of_spec _ _ _ _ H) as (j & -> & Hn).
  simpl. apply nth_error_Some. congruence.
Qed.

Lemma id_of_inj st s u i : C.id_of st s = Some i -> C.id_of st u = Some i -> s = u.
Proof.
  unfold C.id_of. intros H1 H2. destruct (index_of_spec _ _ _ _ H1) as (j & E1 & Hn1). destruct (index_of_spec _ _ _ _ H2) as (j' & E2 & Hn2).
  simpl in E1, E2. subst. congruence.
Qed.

Lemma caddr_eqb_refl x : C.caddr_eqb x x = true.
Proof. destruct x; simpl; rewrite ?Nat.eqb_refl, ?Z.eqb_refl; reflexivity. Qed.

(* ---- the embedding *)
Definition fn_of (f : C.ptr_fn) : MI.ptr_fn :=
  match f with
  | None => None
  | Some C.FRunning => Some MI.FRunning
  | Some C.FActive => Some MI.FActive
  | Some C.FSelTr => Some (MI.FCustom 0)
  | Some C.FSelIdle => Some (MI.FCustom 1)
  end.
Definition custom_of (sx : C.cenv) (k : nat) : B.selfun :=
  match k with O => C.selfun_of sx C.fn_select_tr | _ => C.selfun_of sx C.fn_select_idle end.
Lemma fun_of_ok sx f : MP.fun_of (fn_of f) (custom_of sx) = C.selfun_of sx f.
Proof. destruct f as [[]|]; reflexivity. Qed.

(* a struct mux that nothing was written to yet, next to the bay of the connect state *)
Definition fresh (st : C.cstate) : MI.mstate := MI.mk (C.cs_bay st) None 0 0 None None None None None.
Definition menv_of (sx : C.cenv) (mid : nat) : MI.menv := {| MI.me_id := mid; MI.me_alloc_ok := C.cn_alloc_ok sx |}.
(* the struct becomes the last mux of the bay *)
Definition commit (sx : C.cenv) (ms : MI.mstate) : B.bay :=
  let b := MI.mi_bay ms in
  {| B.b_chans := B.b_chans b; B.b_dcbs := B.b_dcbs b; B.b_ecbs := B.b_ecbs b;
     B.b_muxes := B.b_muxes b ++ [MP.record_of (custom_of sx) ms]; B.b_dirty := B.b_dirty b |}.
Definition err_of (e : nat) : nat := if Nat.eqb e MI.E_FAIL then C.E_FAIL else C.E_TRAP.

(* every registered address has a channel and a callback list *)
Definition Reg (st : C.cstate) : Prop :=
  length (C.cs_reg st) = length (B.b_chans (C.cs_bay st)) /\ length (B.b_dcbs (C.cs_bay st)) = length (B.b_chans (C.cs_bay st)).

Theorem mux_init_composed sx st mr s u f (n : Z) si ui :
  Reg st -> C.cn_alloc_ok sx = true -> C.mux_exists st mr = true -> (0 <= n < 2 ^ 64)%Z ->
  C.id_of st s = Some si -> C.id_of st u = Some ui ->
  C.mux_init (Some mr) (Some tt) (Some s) (Some u) f n sx st =
  match GM.mux_init (Some tt) (Some tt) (Some si) (Some ui) (fn_of f) n (menv_of sx (length (B.b_muxes (C.cs_bay st)))) (fresh st) with
  | Ok (_, ms) => C.mux_record (C.with_bay st (commit sx ms)) mr (length (B.b_muxes (C.cs_bay st)))
  | Err e => Err (err_of e)
  end.
Proof.
  intros [Hr Hd] Ha Hx Hn Hs Hu.
  pose proof (id_of_lt _ _ _ Hs) as Hsl. pose proof (id_of_lt _ _ _ Hu) as Hul. rewrite Hr in Hsl, Hul.
  destruct (nth_error (B.b_chans (C.cs_bay st)) ui) as [ch|] eqn:Ech; [|apply nth_error_None in Ech; lia].
  unfold C.mux_init. rewrite Hx, Hs, Hu, Ech. cbn [negb].
  destruct (C.caddr_eqb s u) eqn:Esu.
  - apply caddr_eqb_eq in Esu. subst u. assert (si = ui) by congruence. subst ui.
    destruct (MP.mux_init_refusals (menv_of sx (length (B.b_muxes (C.cs_bay st)))) (fresh st) si si (fn_of f) n) as (_ & R2 & _).
    rewrite R2. reflexivity.
  - assert (Hne : si <> ui).
    { intros ->. rewrite (id_of_inj _ _ _ _ Hs Hu), caddr_eqb_refl in Esu. discriminate. }
    destruct (B.c_stack ch) eqn:Estk.
    + destruct (MP.mux_init_refusals (menv_of sx (length (B.b_muxes (C.cs_bay st)))) (fresh st) si ui (fn_of f) n) as (R1 & _ & _).
      rewrite (R1 ch Ech Estk). reflexivity.
    + assert (Hv : MI.valid (fresh st) si = true) by (unfold MI.valid, fresh; cbn; apply Nat.ltb_lt; exact Hsl).
      rewrite (MP.mux_init_from_source (menv_of sx (length (B.b_muxes (C.cs_bay st)))) (fresh st) si ui ch (fn_of f) n Ha Hv Ech Estk Hne).
      f_equal. f_equal. unfold commit, MP.record_of, fresh, MP.out_chan, B.dcbs_of.
      cbn [MI.mi_bay MI.mk MI.mi_inputs MI.mi_select MI.mi_output MI.mi_fun MI.mi_def MI.mi_selected B.set_dcbs B.set_chan
           B.b_chans B.b_dcbs B.b_ecbs B.b_muxes B.b_dirty menv_of MI.me_id].
      rewrite MP.update_update, !MP.map_repeat', fun_of_ok. cbn [MI.in_chan MI.input0].
      replace (cast_uint64 n) with n by (unfold cast_uint64, wrapu; rewrite Z.mod_small; [reflexivity|exact Hn]).
      rewrite Estk. reflexivity.
Qed.

(* ---- the struct mux `ms` is the mux `mid` of the connect state's bay *)
Record Rep (sx : C.cenv) (st : C.cstate) (mid : nat) (ms : MI.mstate) : Prop := {
  r_chans : B.b_chans (MI.mi_bay ms) = B.b_chans (C.cs_bay st);
  r_dcbs : B.b_dcbs (MI.mi_bay ms) = B.b_dcbs (C.cs_bay st);
  r_ecbs : B.b_ecbs (MI.mi_bay ms) = B.b_ecbs (C.cs_bay st);
  r_dirty : B.b_dirty (MI.mi_bay ms) = B.b_dirty (C.cs_bay st);
  r_mux : nth_error (B.b_muxes (C.cs_bay st)) mid = Some (MP.record_of (custom_of sx) ms);
  r_link : MI.mi_link ms = Some tt
}.

Lemma map_const_update {A B} (c : B) (l : list A) i x : map (fun _ => c) (update l i x) = map (fun _ => c) l.
Proof. revert i. induction l as [|a l IH]; intros [|i]; simpl; try reflexivity. f_equal. apply IH. Qed.

Lemma nth_error_snoc {A} (l : list A) x : nth_error (l ++ [x]) (length l) = Some x.
Proof. induction l; simpl; auto. Qed.

(* after the composed mux_init the struct represents the new mux *)
Theorem mux_init_rep sx st mr s u f (n : Z) si ui ch ms st' :
  Reg st -> C.cn_alloc_ok sx = true -> C.id_of st s = Some si -> C.id_of st u = Some ui -> si <> ui ->
  nth_error (B.b_chans (C.cs_bay st)) ui = Some ch -> B.c_stack ch = false ->
  GM.mux_init (Some tt) (Some tt) (Some si) (Some ui) (fn_of f) n (menv_of sx (length (B.b_muxes (C.cs_bay st)))) (fresh st) = Ok (tt, ms) ->
  C.mux_record (C.with_bay st (commit sx ms)) mr (length (B.b_muxes (C.cs_bay st))) = Ok (tt, st') ->
  Rep sx st' (length (B.b_muxes (C.cs_bay st))) ms /\ C.cs_reg st' = C.cs_reg st /\ Reg st'.
Proof.
  intros [Hr Hd] Ha Hs Hu Hne Ech Estk E Hrec.
  pose proof (id_of_lt _ _ _ Hs) as Hsl. rewrite Hr in Hsl.
  assert (Hv : MI.valid (fresh st) si = true) by (unfold MI.valid, fresh; cbn; apply Nat.ltb_lt; exact Hsl).
  rewrite (MP.mux_init_from_source (menv_of sx (length (B.b_muxes (C.cs_bay st)))) (fresh st) si ui ch (fn_of f) n Ha Hv Ech Estk Hne) in E.
  injection E as <-.
  assert (Hb : C.cs_bay st' = commit sx (MI.mk (B.set_dcbs (B.set_chan (B.set_chan (MI.mi_bay (fresh st)) ui
                 {| B.c_stack := B.c_stack ch; B.c_val := B.c_val ch; B.c_stk := B.c_stk ch; B.c_last := B.c_last ch; B.c_dirty := B.c_dirty ch;
                    B.c_dw := true; B.c_allow := B.c_allow ch; B.c_ign := B.c_ign ch |}) ui (MP.out_chan ch)) si
               (B.dcbs_of (MI.mi_bay (fresh st)) si ++ [B.DSelect (MI.me_id (menv_of sx (length (B.b_muxes (C.cs_bay st)))))]))
             (Some tt) n 0 (Some (repeat MI.input0 (Z.to_nat (cast_uint64 n)))) (fn_of f) (Some si) (Some ui) None)
          /\ C.cs_reg st' = C.cs_reg st).
  { destruct mr as [b i|a w]; cbn [C.mux_record] in Hrec.
    - unfold C.upd_track in Hrec. destruct (C.track_at _ _); [|discriminate]. injection Hrec as <-. split; reflexivity.
    - injection Hrec as <-. split; reflexivity. }
  destruct Hb as [Hb Hreg]. split; [|split; [exact Hreg|]].
  - constructor; try rewrite Hb; unfold commit; cbn [MI.mi_bay MI.mk B.b_chans B.b_dcbs B.b_ecbs B.b_dirty B.b_muxes B.set_dcbs B.set_chan fresh MI.mi_link]; try reflexivity.
    apply nth_error_snoc.
  - unfold Reg. rewrite Hreg, Hb. unfold commit. cbn [MI.mi_bay MI.mk B.b_chans B.b_dcbs B.set_dcbs B.set_chan fresh].
    rewrite !MP.update_length. split; assumption.
Qed.

Lemma rep_mid sx st mid ms : Rep sx st mid ms -> (mid < length (B.b_muxes (C.cs_bay st)))%nat.
Proof. intros R. apply nth_error_Some. rewrite (r_mux _ _ _ _ R). discriminate. Qed.

(* mux_set_input: the generated function fills the entry of the struct and creates cb_input DISABLED (the bay is unchanged);
   ConnectPre.mux_set_input stores the input id in the record: the struct still represents the mux *)
Theorem mux_set_input_composed sx st mr mid ms a ci i l o :
  Rep sx st mid ms -> Reg st -> C.cn_alloc_ok sx = true -> C.mux_id st mr = Some mid -> C.id_of st a = Some ci ->
  MI.mi_output ms <> Some ci -> MI.mi_inputs ms = Some l -> nth_error l i = Some o -> MI.in_chan o = None ->
  exists ms' st',
    GM.mux_set_input (Some tt) (Z.of_nat i) (Some ci) (menv_of sx mid) ms = Ok (tt, ms') /\
    C.mux_set_input (Some mr) (Z.of_nat i) (Some a) sx st = Ok (tt, st') /\
    C.cs_bay st' = B.set_mux (C.cs_bay st) mid (MP.record_of (custom_of sx) ms') /\
    Rep sx st' mid ms' /\ C.cs_reg st' = C.cs_reg st.
Proof.
  intros R [Hr Hd] Ha Hm Hc Hout Hi Ho Hn.
  pose proof (id_of_lt _ _ _ Hc) as Hcl. rewrite Hr in Hcl.
  assert (Hv : MI.valid ms ci = true) by (unfold MI.valid; rewrite (r_chans _ _ _ _ R); apply Nat.ltb_lt; exact Hcl).
  pose proof (MP.mux_set_input_from_source (menv_of sx mid) ms i ci l o Ha Hv (r_link _ _ _ _ R) Hout Hi Ho Hn) as E.
  eexists. eexists. split; [exact E|].
  assert (Hil : (i < length l)%nat) by (apply nth_error_Some; congruence).
  unfold C.mux_set_input. rewrite Hm, Hc, (r_mux _ _ _ _ R).
  assert (Hlen : length (B.mx_ins (MP.record_of (custom_of sx) ms)) = length l) by (unfold MP.record_of; cbn; rewrite Hi, map_length; reflexivity).
  rewrite Hlen.
  assert (Hb1 : (0 <=? Z.of_nat i)%Z = true) by (apply Z.leb_le; lia).
  assert (Hb2 : (Z.of_nat i <? Z.of_nat (length l))%Z = true) by (apply Z.ltb_lt; lia).
  rewrite Hb1, Hb2. cbn [andb]. rewrite Nat2Z.id.
  assert (Erec : MP.record_of (custom_of sx) (MI.with_inputs ms (Some (update l i
             {| MI.in_index := Z.of_nat i; MI.in_chan := Some ci; MI.in_selected := MI.in_selected o; MI.in_output := MI.mi_output ms;
                MI.in_cb := Some (B.DInput (MI.me_id (menv_of sx mid)) i) |}))) =
           {| B.mx_init := B.mx_init (MP.record_of (custom_of sx) ms); B.mx_sel := B.mx_sel (MP.record_of (custom_of sx) ms);
              B.mx_out := B.mx_out (MP.record_of (custom_of sx) ms); B.mx_fun := B.mx_fun (MP.record_of (custom_of sx) ms);
              B.mx_def := B.mx_def (MP.record_of (custom_of sx) ms);
              B.mx_ins := update (B.mx_ins (MP.record_of (custom_of sx) ms)) i ci; B.mx_en := B.mx_en (MP.record_of (custom_of sx) ms);
              B.mx_selected := B.mx_selected (MP.record_of (custom_of sx) ms) |}).
  { unfold MP.record_of, MI.with_inputs. cbn. rewrite Hi. rewrite EmuCoreProofs.map_update, map_const_update. reflexivity. }
  split; [reflexivity|]. rewrite <- Erec. split; [reflexivity|]. split; [|reflexivity].
  constructor; cbn [C.cs_bay C.with_bay B.set_mux B.b_chans B.b_dcbs B.b_ecbs B.b_dirty B.b_muxes MI.with_inputs MI.mi_bay MI.mk MI.mi_link];
    try (destruct st; cbn; apply R).
  destruct st; cbn. apply MP.nth_error_update_same. apply (rep_mid _ _ _ _ R).
Qed.

Theorem mux_set_default_composed sx st mr mid ms v :
  Rep sx st mid ms -> C.mux_id st mr = Some mid ->
  exists ms' st',
    GM.mux_set_default (Some tt) v (menv_of sx mid) ms = Ok (tt, ms') /\
    C.mux_set_default (Some mr) v sx st = Ok (tt, st') /\
    C.cs_bay st' = B.set_mux (C.cs_bay st) mid (MP.record_of (custom_of sx) ms') /\
    Rep sx st' mid ms' /\ C.cs_reg st' = C.cs_reg st.
Proof.
  intros R Hm. eexists. eexists. split; [apply MP.mux_set_default_from_source|].
  unfold C.mux_set_default. rewrite Hm, (r_mux _ _ _ _ R).
  split; [reflexivity|]. split; [reflexivity|]. split; [|reflexivity].
  constructor; cbn [C.cs_bay C.with_bay B.set_mux B.b_chans B.b_dcbs B.b_ecbs B.b_dirty B.b_muxes MI.mi_bay MI.mk MI.mi_link];
    try (destruct st; cbn; apply R).
  destruct st; cbn. apply MP.nth_error_update_same. apply (rep_mid _ _ _ _ R).
Qed.

Theorem mux_add_reselect_composed sx st mr mid ms a ci :
  Rep sx st mid ms -> Reg st -> C.cn_alloc_ok sx = true -> C.mux_id st mr = Some mid -> C.id_of st a = Some ci ->
  exists ms' st',
    GM.mux_add_reselect (Some tt) (Some ci) (menv_of sx mid) ms = Ok (tt, ms') /\
    C.mux_add_reselect (Some mr) (Some a) sx st = Ok (tt, st') /\
    B.b_dcbs (C.cs_bay st') = B.b_dcbs (MI.mi_bay ms') /\
    Rep sx st' mid ms' /\ C.cs_reg st' = C.cs_reg st.
Proof.
  intros R [Hr Hd] Ha Hm Hc.
  pose proof (id_of_lt _ _ _ Hc) as Hcl. rewrite Hr in Hcl.
  assert (Hv : MI.valid ms ci = true) by (unfold MI.valid; rewrite (r_chans _ _ _ _ R); apply Nat.ltb_lt; exact Hcl).
  eexists. eexists. split; [apply (MP.mux_add_reselect_from_source (menv_of sx mid) ms ci Ha Hv (r_link _ _ _ _ R))|].
  unfold C.mux_add_reselect. rewrite Hm, Hc.
  split; [reflexivity|].
  assert (Ed : B.b_dcbs (C.cs_bay (C.with_bay st
              {| B.b_chans := B.b_chans (C.cs_bay st);
                 B.b_dcbs := update (B.b_dcbs (C.cs_bay st)) ci (nth ci (B.b_dcbs (C.cs_bay st)) [] ++ [B.DReselect mid]);
                 B.b_ecbs := B.b_ecbs (C.cs_bay st); B.b_muxes := B.b_muxes (C.cs_bay st); B.b_dirty := B.b_dirty (C.cs_bay st) |})) =
            B.b_dcbs (MI.mi_bay (MI.with_bay ms (B.set_dcbs (MI.mi_bay ms) ci (B.dcbs_of (MI.mi_bay ms) ci ++ [B.DReselect (MI.me_id (menv_of sx mid))]))))).
  { destruct st; cbn. unfold B.dcbs_of. rewrite (r_dcbs _ _ _ _ R). reflexivity. }
  split; [exact Ed|]. split; [|destruct st; reflexivity].
  constructor; try (rewrite Ed; reflexivity);
    cbn [MI.with_bay MI.mi_bay MI.mk MI.mi_link B.set_dcbs B.b_chans B.b_ecbs B.b_dirty B.b_muxes];
    destruct st; cbn; try apply R.
Qed.

(* ---- bay_register: unit bayc.  The name of a channel object is its bay id when it is registered and a fresh name (the next
   id) otherwise: distinct channel objects are given distinct names by the callers (the trusted reading of the name formats). *)
From OV Require Emu.BayCPre Gen.Bay_gen Proofs.BayCProofs.
Module BC := BayCPre.
Module GB := Bay_gen.

Definition name_of (st : C.cstate) (a : C.caddr) : nat :=
  match C.id_of st a with Some i => i | None => length (B.b_chans (C.cs_bay st)) end.
Definition berr_of (e : nat) : nat := if Nat.eqb e BC.E_FAIL then C.E_FAIL else C.E_TRAP.

Theorem bay_register_composed sx st a stk al ig bsx bs :
  Reg st -> BC.bn_alloc_ok bsx = true -> BC.bs_bay bs = C.cs_bay st -> C.pend_get st a = Some (stk, al, ig) ->
  C.bay_register (Some tt) (Some a) sx st =
  match GB.bay_register (Some tt) (Some (BC.CNewChan (name_of st a) (B.mk_chan stk false al ig))) bsx bs with
  | Ok (_, bs') => Ok (tt, C.with_reg (C.with_bay st (BC.bs_bay bs')) (C.cs_reg st ++ [a]))
  | Err e => Err (berr_of e)
  end.
Proof.
  intros [Hr Hd] Ha Hb Hp. rewrite (BayCProofs.bay_register_from_source bsx bs _ _ Ha). rewrite Hb.
  unfold C.bay_register, name_of. rewrite Hp. destruct (C.id_of st a) as [i|] eqn:Ei.
  - pose proof (id_of_lt _ _ _ Ei) as Hl. rewrite Hr in Hl. apply Nat.ltb_lt in Hl. rewrite Hl. reflexivity.
  - rewrite Nat.ltb_irrefl, Nat.eqb_refl. cbn [BC.bs_bay BC.with_bay]. reflexivity.
Qed.

Theorem bay_register_reg sx st a st' : Reg st -> C.bay_register (Some tt) (Some a) sx st = Ok (tt, st') -> Reg st'.
Proof.
  intros [Hr Hd] H. unfold C.bay_register in H. destruct (C.pend_get st a) as [[[stk al] ig]|]; [|discriminate].
  destruct (C.id_of st a); [discriminate|]. injection H as <-. unfold Reg. destruct st; cbn in *. rewrite !app_length. cbn. lia.
Qed.

(* ---- the bay_add_cb primitive of Emu/MuxInitPre.v is the generated bay_add_cb of bay.c (unit bayc) for the two callbacks
   mux.c registers ENABLED (cb_select in mux_init, cb_reselect in mux_add_reselect) *)
Definition cbfn_of (f : MI.cbfn) : BC.cbfn := match f with MI.FSelect => BC.FSelect | MI.FReselect => BC.FReselect | MI.FInput => BC.FInput end.

Theorem bay_add_cb_enabled_composed msx ms bsx bs c f d :
  BC.bs_bay bs = MI.mi_bay ms -> MI.me_alloc_ok msx = true -> BC.bn_alloc_ok bsx = true -> MI.valid ms c = true ->
  f <> MI.FInput -> MI.what_of msx (Some f) (Some MI.VMux) = Some d ->
  existsb (B.dcb_eqb d) (B.dcbs_of (MI.mi_bay ms) c) = false ->
  exists ms' bs',
    MI.bay_add_cb (Some tt) 0 (Some c) (Some f) (Some MI.VMux) 1 msx ms = Ok (Some d, ms') /\
    GB.bay_add_cb (Some tt) GB.c_BAY_CB_DIRTY (Some (BC.CReg c)) (Some (cbfn_of f)) (Some (BC.VMux (MI.me_id msx))) 1 bsx bs = Ok (Some BC.CbNew, bs') /\
    BC.bs_bay bs' = MI.mi_bay ms'.
Proof.
  intros Hb Ha Hba Hv Hf Hw Hex.
  assert (Hvc : BC.valid_chan bs c = true) by (unfold BC.valid_chan; rewrite Hb; exact Hv).
  assert (Hw' : BC.what_of (Some (cbfn_of f)) (Some (BC.VMux (MI.me_id msx))) = Some (BC.WD d)).
  { destruct f; cbn in *; try congruence. }
  rewrite <- Hb in Hex.
  destruct (BayCProofs.add_select_cb_from_source bsx bs c (cbfn_of f) (MI.me_id msx) d Hba Hvc Hw' Hex) as (bs' & E & Eb).
  eexists. exists bs'. split; [|split; [exact E|]].
  - unfold MI.bay_add_cb. rewrite Hw, Hv, Ha. reflexivity.
  - rewrite Eb, Hb. reflexivity.
Qed.

(* cb_input (mux_set_input): created DISABLED on both sides; neither bay changes.  On the bay.c side the enabled flag of input i
   lives in the mux record (mx_en), which is already in the bay (mux_init committed it with every flag false). *)
Theorem bay_add_cb_disabled_composed msx ms bsx bs c i mx :
  MI.me_alloc_ok msx = true -> BC.bn_alloc_ok bsx = true -> MI.valid ms c = true -> BC.valid_chan bs c = true ->
  nth_error (B.b_muxes (BC.bs_bay bs)) (MI.me_id msx) = Some mx -> nth_error (B.mx_en mx) i = Some false ->
  exists ms' bs',
    MI.bay_add_cb (Some tt) 0 (Some c) (Some MI.FInput) (Some (MI.VInputRef (Z.of_nat i))) 0 msx ms = Ok (Some (B.DInput (MI.me_id msx) i), ms') /\
    MI.mi_bay ms' = MI.mi_bay ms /\
    GB.bay_add_cb (Some tt) GB.c_BAY_CB_DIRTY (Some (BC.CReg c)) (Some BC.FInput) (Some (BC.VInput (MI.me_id msx) i)) 0 bsx bs = Ok (Some BC.CbNew, bs') /\
    BC.bs_bay bs' = BC.bs_bay bs.
Proof.
  intros Ha Hba Hv Hvc Hm He.
  destruct (BayCProofs.add_input_cb_disabled_from_source bsx bs c (MI.me_id msx) i mx Hba Hvc Hm He) as (bs' & E & Eb).
  exists ms, bs'. split; [|split; [reflexivity|split; [exact E|exact Eb]]].
  unfold MI.bay_add_cb, MI.what_of. assert (En : (Z.of_nat i <? 0)%Z = false) by (apply Z.ltb_ge; lia).
  rewrite En, Nat2Z.id, Hv, Ha. reflexivity.
Qed.

(* nosv/breakdown.c: mux_init(&bcpu->mux0 / mux1, .., select_tr / select_idle, ..) is the same composition (mr = MBd a w); the two
   select functions are custom 0 / 1 of unit muxc and read as BayBreakdownDefs.g_tr / g_idle *)
Lemma mux_init_composed_bd sx st a w :
  forall s u f (n : Z) si ui,
  Reg st -> C.cn_alloc_ok sx = true -> (0 <= n < 2 ^ 64)%Z ->
  C.id_of st s = Some si -> C.id_of st u = Some ui ->
  C.mux_init (Some (C.MBd a w)) (Some tt) (Some s) (Some u) f n sx st =
  match GM.mux_init (Some tt) (Some tt) (Some si) (Some ui) (fn_of f) n (menv_of sx (length (B.b_muxes (C.cs_bay st)))) (fresh st) with
  | Ok (_, ms) => Ok (tt, C.with_bd (C.with_bay st (commit sx ms)) (((a, w), length (B.b_muxes (C.cs_bay st))) :: C.cs_bd st))
  | Err e => Err (err_of e)
  end.
Proof.
  intros s u f n si ui R Ha Hn Hs Hu. rewrite (mux_init_composed sx st (C.MBd a w) s u f n si ui R Ha eq_refl Hn Hs Hu).
  destruct (GM.mux_init _ _ _ _ _ _ _ _) as [[[] ms]|e]; reflexivity.
Qed.

Lemma custom_select sx :
  MP.fun_of (fn_of C.fn_select_tr) (custom_of sx) = B.SelCustom (BayBreakdownDefs.g_tr (C.cn_body sx)) /\
  MP.fun_of (fn_of C.fn_select_idle) (custom_of sx) = B.SelCustom (BayBreakdownDefs.g_idle (C.cn_prog sx)).
Proof. split; reflexivity. Qed.

(* ---- chan_prop_set: unit chan.  A chan_init'ed, not yet registered channel object with flags (stack, allow, ign) is the C
   struct chan whose prop array is [0; allow; ign] (Proofs/BayChanProofs.c_chan0 is that struct once registered) *)
From OV Require Emu.ChanPre Gen.Chan_gen.
Module CP := ChanPre.

Lemma pend_get_set l st0 a x : C.pend_get (C.with_pend st0 (C.pend_set l a x)) a = Some x.
Proof.
  unfold C.pend_get. destruct st0; cbn. induction l as [|[d y] r IH]; cbn.
  - rewrite caddr_eqb_refl. reflexivity.
  - destruct (C.caddr_eqb d a) eqn:E; cbn; [rewrite caddr_eqb_refl; reflexivity|rewrite E; exact IH].
Qed.

Theorem chan_prop_set_composed sx st a stk al ig csx cst p v :
  C.pend_get st a = Some (stk, al, ig) -> CP.prop (CP.ch cst) = [0; b2z al; b2z ig]%Z ->
  (p = C.P_ALLOW_DUP \/ p = C.P_IGNORE_DUP) -> (v = 0 \/ v = 1)%Z ->
  exists st' cst' al' ig',
    C.chan_prop_set (Some a) p v sx st = Ok (tt, st') /\
    Chan_gen.chan_prop_set (Some tt) p v csx cst = Ok (tt, cst') /\
    C.pend_get st' a = Some (stk, al', ig') /\ CP.prop (CP.ch cst') = [0; b2z al'; b2z ig']%Z /\
    CP.ctype (CP.ch cst') = CP.ctype (CP.ch cst).
Proof.
  intros Hp Hc Hprop Hv. unfold C.chan_prop_set, Chan_gen.chan_prop_set, CP.bind_, CP.bind, CP.ret, CP.set_chan_prop_at, CP.upd_ch, CP.in_range.
  rewrite Hp, Hc.
  destruct Hprop as [-> | ->]; destruct Hv as [-> | ->]; cbn.
  - exists (C.with_pend st (C.pend_set (C.cs_pend st) a (stk, false, ig))), (CP.with_ch cst
      {| CP.is_dirty := CP.is_dirty (CP.ch cst); CP.prop := update (CP.prop (CP.ch cst)) 1 0%Z; CP.has_cb := CP.has_cb (CP.ch cst);
         CP.last_value := CP.last_value (CP.ch cst); CP.ctype := CP.ctype (CP.ch cst); CP.dvalue := CP.dvalue (CP.ch cst);
         CP.sn := CP.sn (CP.ch cst); CP.svalues := CP.svalues (CP.ch cst) |}), false, ig.
    rewrite pend_get_set, Hc. repeat split; reflexivity.
  - exists (C.with_pend st (C.pend_set (C.cs_pend st) a (stk, true, ig))), (CP.with_ch cst
      {| CP.is_dirty := CP.is_dirty (CP.ch cst); CP.prop := update (CP.prop (CP.ch cst)) 1 1%Z; CP.has_cb := CP.has_cb (CP.ch cst);
         CP.last_value := CP.last_value (CP.ch cst); CP.ctype := CP.ctype (CP.ch cst); CP.dvalue := CP.dvalue (CP.ch cst);
         CP.sn := CP.sn (CP.ch cst); CP.svalues := CP.svalues (CP.ch cst) |}), true, ig.
    rewrite pend_get_set, Hc. repeat split; reflexivity.
  - exists (C.with_pend st (C.pend_set (C.cs_pend st) a (stk, al, false))), (CP.with_ch cst
      {| CP.is_dirty := CP.is_dirty (CP.ch cst); CP.prop := update (CP.prop (CP.ch cst)) 2 0%Z; CP.has_cb := CP.has_cb (CP.ch cst);
         CP.last_value := CP.last_value (CP.ch cst); CP.ctype := CP.ctype (CP.ch cst); CP.dvalue := CP.dvalue (CP.ch cst);
         CP.sn := CP.sn (CP.ch cst); CP.svalues := CP.svalues (CP.ch cst) |}), al, false.
    rewrite pend_get_set, Hc. repeat split; reflexivity.
  - exists (C.with_pend st (C.pend_set (C.cs_pend st) a (stk, al, true))), (CP.with_ch cst
      {| CP.is_dirty := CP.is_dirty (CP.ch cst); CP.prop := update (CP.prop (CP.ch cst)) 2 1%Z; CP.has_cb := CP.has_cb (CP.ch cst);
         CP.last_value := CP.last_value (CP.ch cst); CP.ctype := CP.ctype (CP.ch cst); CP.dvalue := CP.dvalue (CP.ch cst);
         CP.sn := CP.sn (CP.ch cst); CP.svalues := CP.svalues (CP.ch cst) |}), al, true.
    rewrite pend_get_set, Hc. repeat split; reflexivity.
Qed.
