(* C18: what the handlers let through is what is listed. *)
From Coq Require Import ZArith List Bool Lia.
From OV Require Import Emu.EmuCoreDefs Emu.DecodeDefs Emu.MarkDefs Emu.TableFactsDefs Emu.CatalogDefs.
From OV Require Gen.Tables_gen.
Import ListNotations.
Local Open Scope Z_scope.

Lemma table_lookup_in tb m c v r :
  table_lookup tb m c v = Some r -> In (m, c, v) (map (fun '(m, c, v, _, _, _) => (m, c, v)) tb).
Proof.
  induction tb as [|[[[[[m' c'] v'] ch] a] x] tb IH]; cbn [table_lookup map In]; intros H; [discriminate|].
  destruct ((m =? m') && (c =? c') && (v =? v')) eqn:E.
  - apply andb_prop in E as [E Ev]. apply andb_prop in E as [Em Ec].
    apply Z.eqb_eq in Em, Ec, Ev. subst. now left.
  - right. now apply IH.
Qed.

Lemma code_in_In a l : code_in a l = true <-> In a l.
Proof.
  unfold code_in. rewrite existsb_exists. split.
  - intros [b [Hb E]]. destruct a as [[m c] v], b as [[m' c'] v']. cbn [code_eqb] in E.
    apply andb_prop in E as [E Ev]. apply andb_prop in E as [Em Ec].
    apply Z.eqb_eq in Em, Ec, Ev. now subst.
  - intros H. exists a. split; [exact H|]. destruct a as [[m c] v]. cbn [code_eqb]. now rewrite !Z.eqb_refl.
Qed.

Ltac zeq := repeat match goal with H : (_ =? _) = true |- _ => apply Z.eqb_eq in H; subst end.
Ltac step_if :=
  match goal with
  | H : is_bad (if ?b then _ else _) = false |- _ => destruct b eqn:?
  | H : is_bad (match ?o with Some _ => _ | None => _ end) = false |- _ => destruct o eqn:?
  | H : is_bad (EvBad _) = false |- _ => discriminate H
  end.
Ltac hand := apply in_or_app; left; vm_compute; tauto.

Ltac incode := apply code_in_In; vm_compute; reflexivity.
Ltac blind := match goal with H : value_blind _ _ = false |- _ => vm_compute in H; discriminate H end.

Lemma decode_ovni_codes cs c v p :
  is_bad (decode_ovni cs c v p) = false -> value_blind M_OVNI c = false -> In (M_OVNI, c, v) accepted_codes.
Proof.
  unfold decode_ovni. intros H Hb.
  repeat step_if; zeq; try blind; try incode.
Qed.

Lemma decode_mark_codes cs v p :
  is_bad (decode_mark cs v p) = false -> In (M_OVNI, 77, v) accepted_codes.
Proof.
  unfold decode_mark. intros H.
  repeat step_if; zeq; try incode.
Qed.

Lemma decode_task_codes cs m c v p j aux e :
  decode_task cs m c v p j aux = Some e -> is_bad e = false -> In (m, c, v) accepted_codes.
Proof.
  unfold decode_task. intros H Hb.
  repeat match goal with
  | H : (if ?b then _ else _) = Some _ |- _ => destruct b eqn:?
  | H : None = Some _ |- _ => discriminate H
  | H : Some _ = Some _ |- _ => injection H as <-
  end;
  repeat step_if;
  repeat match goal with H : (_ || _) = true |- _ => apply orb_prop in H as [H|H] end;
  repeat match goal with H : negb _ = false |- _ => apply negb_false_iff in H end;
  zeq; try incode; try discriminate.
Qed.

Lemma decode_codes en cs m c v p :
  is_bad (decode en cs m c v p) = false -> value_blind m c = false -> In (m, c, v) accepted_codes.
Proof.
  unfold decode. intros H Hb.
  destruct (negb (memz m en)); [discriminate H|].
  destruct (m =? M_OVNI) eqn:EO.
  { apply Z.eqb_eq in EO. subst m. now apply decode_ovni_codes with cs p. }
  destruct (m =? M_KERNEL) eqn:EK.
  { apply Z.eqb_eq in EK. subst m. repeat step_if; zeq; incode. }
  destruct (negb _); [discriminate H|].
  destruct (table_lookup Tables_gen.table m c v) as [[[ch a] x]|] eqn:ET; [|discriminate H].
  apply in_or_app. right. now apply table_lookup_in in ET.
Qed.

Theorem nonbad_is_accepted_code en cs m c v p j aux :
  is_bad (decode_all en cs m c v p j aux) = false -> value_blind m c = false -> In (m, c, v) accepted_codes.
Proof.
  unfold decode_all. intros H Hb.
  destruct ((m =? M_OVNI) && (c =? 77)) eqn:EM.
  { apply andb_prop in EM as [Em Ec]. apply Z.eqb_eq in Em, Ec. subst.
    destruct (memz M_OVNI en); [|discriminate H]. now apply decode_mark_codes with cs p. }
  unfold decode_full in H. destruct (negb (memz m en)); [discriminate H|].
  destruct (decode_task cs m c v p j aux) as [e|] eqn:ET.
  - now apply decode_task_codes with cs p j aux e.
  - now apply decode_codes with en cs p.
Qed.

Lemma accepted_listed : accepted_listed_ok = true.
Proof. vm_compute. reflexivity. Qed.

(* every code that is neither listed, nor legacy, nor in a value-blind category is rejected, whatever the
   payload, the enabled models and the channels: for ALL m c v, printable or not *)
Theorem unlisted_rejected en cs m c v p j aux :
  listed m c v = false -> legacy m c v = false -> value_blind m c = false ->
  is_bad (decode_all en cs m c v p j aux) = true.
Proof.
  intros Hl Hg Hb. destruct (is_bad _) eqn:E; [reflexivity|exfalso].
  apply nonbad_is_accepted_code in E; [|exact Hb].
  pose proof accepted_listed as A. unfold accepted_listed_ok in A. rewrite forallb_forall in A.
  specialize (A _ E). cbn beta iota in A. rewrite Hl, Hg in A. discriminate A.
Qed.

(* conversely every listed code is let through with one of the probe payloads, every value of the value-blind
   categories is, and these categories have a listed member; the legacy codes are let through and not listed *)
Definition listed_codes : list (Z * Z * Z) :=
  map (fun '(m, sig) => (m, nth 1 sig 0, nth 2 sig 0)) Tables_gen.evdecls.

Lemma listed_recognised :
  forallb (fun '(m, c, v) => recognised m c v) listed_codes = true.
Proof. vm_compute. reflexivity. Qed.

Lemma listed_in m c v : listed m c v = true -> nth 0 [m] 0 = m -> In (m, c, v) listed_codes.
Proof.
  unfold listed, listed_codes. rewrite existsb_exists. intros [[m' sig] [Hin E]] _.
  unfold sig_mcv in E.
  apply andb_prop in E as [E Ev]. apply andb_prop in E as [E Ec]. apply andb_prop in E as [Em Esm].
  apply Z.eqb_eq in Em, Esm, Ec, Ev. subst m'. rewrite <- Ec, <- Ev.
  apply in_map_iff. exists (m, sig). split; [reflexivity|exact Hin].
Qed.

Theorem listed_is_recognised m c v : listed m c v = true -> recognised m c v = true.
Proof.
  intros H. apply listed_in in H; [|reflexivity].
  pose proof listed_recognised as A. rewrite forallb_forall in A. now specialize (A _ H).
Qed.

Lemma blind_facts :
  value_blind_ok = true /\
  forallb (fun c => forallb (fun v => recognised M_OVNI c v) printable) [66; 85] = true /\
  recognised M_NANOS6 84 67 && negb (listed M_NANOS6 84 67) = true.
Proof. vm_compute. repeat split. Qed.

(* the value-blind categories accept every value byte, printable or not *)
Lemma blind_all_values en cs c v p j aux :
  memz M_OVNI en = true -> (c = 66 \/ c = 85) -> decode_all en cs M_OVNI c v p j aux = EvNop.
Proof.
  intros He Hc. unfold decode_all, decode_full, decode_task, decode, decode_ovni. rewrite He.
  destruct Hc; subst c; reflexivity.
Qed.

(* exact agreement on the printable domain *)
Theorem catalogue_exact : catalogue_diff = [].
Proof. vm_compute. reflexivity. Qed.
