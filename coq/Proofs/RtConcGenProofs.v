(* The process-state skeleton GENERATED from src/rt/ovni.c (Gen/RtConc_gen.v, unit rtconc) performs, call kind by call
   kind, the shared actions of the expansion Rt/RtConcDefs.v uses (`expand`): the same operations on rproc.st in the
   same order, the same reads / writes of the plain process fields between them, and it dies exactly where the model's
   thread dies (a CAS / load that does not observe the value it wants).  So the interleavings C11_init_once,
   C11_fini_once, C11_no_race, C11_isolation quantify over are interleavings of the generated call expansions. *)
From Coq Require Import List Bool Arith Lia ZArith.
From OV Require Import Rt.RtConcDefs Rt.RtConcPre.
From OV Require Gen.RtConc_gen.
Import ListNotations.

Module G := RtConc_gen.

Definition st_ops (mv : bool) (k : option call) : list action :=
  match k with Some c => filter is_stop (expand mv c) | None => [] end.

Ltac straighten Hc Hd :=
  unfold run;
  cbv [tseq tif emit opq tdie tret tskip tcall cas_st load_st store_st];
  repeat rewrite Hc; repeat rewrite Hd.

Ltac finish w :=
  destruct (w_mv w); cbn [expand app model_run filter is_stop st_ops];
  destruct (w_obs w 0); try reflexivity; try (destruct (w_obs w 1); reflexivity).

Theorem proc_init_expansion w : straight w -> run G.ovni_proc_init w = model_run w 0 [] (expand (w_mv w) ProcInit).
Proof. intros [Hc Hd]. unfold G.ovni_proc_init, G.create_proc_dir. straighten Hc Hd. finish w. Qed.

Theorem proc_fini_expansion w : straight w -> run G.ovni_proc_fini w = model_run w 0 [] (expand (w_mv w) ProcFini).
Proof. intros [Hc Hd]. unfold G.ovni_proc_fini. straighten Hc Hd. finish w. Qed.

Theorem thread_init_expansion w tid : straight w ->
  run G.ovni_thread_init w = model_run w 0 [] (expand (w_mv w) (ThreadInit tid)).
Proof.
  intros [Hc Hd]. unfold G.ovni_thread_init, G.thread_metadata_init, G.thread_metadata_populate, G.thread_metadata_store,
    G.create_trace_stream, G.create_thread_dir.
  straighten Hc Hd. finish w.
Qed.

Theorem thread_free_expansion w : straight w -> run G.ovni_thread_free w = model_run w 0 [] (expand (w_mv w) ThreadFree).
Proof. intros [Hc Hd]. unfold G.ovni_thread_free, G.thread_metadata_store. straighten Hc Hd. finish w. Qed.

Theorem thread_isready_no_state w : run G.ovni_thread_isready w = ([], Returned).
Proof. reflexivity. Qed.

(* the call kind of every other exported function, in the order of G.preambles (alphabetical); None = the model treats
   the function as free of process state.  Of those functions only the operations on rproc.st are compared here (their
   plain field reads - the clock - stay with the static cross-check of lib/checks/c11.py and the units that translate
   their bodies). *)
Definition kinds : list (option call) :=
  [Some (AddCpu Z0 Z0); Some AttrFlush; Some (AttrSet Z0 Z0); Some (AttrSet Z0 Z0); Some (AttrSet Z0 Z0); Some (AttrSet Z0 Z0);
   Some (AttrSet Z0 Z0); Some (AttrSet Z0 Z0); Some (AttrSet Z0 Z0); Some (AttrSet Z0 Z0); Some (AttrSet Z0 Z0);
   Some ClockNow; Some (Emit Z0); None; Some (Emit Z0); None; None; None; Some Flush; Some (AttrSet Z0 Z0); Some (Emit Z0);
   Some (Emit Z0); Some (Emit Z0); Some (AttrSet Z0 Z0); None; None; Some (SetRank Z0 Z0); Some (Require Z0 Z0); None; None].

Lemma preambles_counted : length G.preambles = length kinds.
Proof. reflexivity. Qed.

Theorem preamble_expansions w : straight w ->
  Forall (fun gk => run (fst gk) w = model_run w 0 [] (st_ops (w_mv w) (snd gk))) (combine G.preambles kinds).
Proof.
  intros [Hc Hd]. unfold G.preambles, kinds. cbn [combine].
  repeat (apply Forall_cons; [cbn [fst snd];
    match goal with |- run ?g _ = _ => unfold g end; straighten Hc Hd; finish w |]).
  apply Forall_nil.
Qed.

(* die exactly at the st operation: read off model_run (a CAS / load that does not see its value ends the trace with
   that operation and Died); two instances spelled out *)
Corollary proc_init_dies_at_cas w : straight w -> w_obs w 0 <> UNINIT ->
  run G.ovni_proc_init w = ([SCas UNINIT INIT], Died).
Proof.
  intros S N. rewrite (proc_init_expansion w S). destruct (w_mv w); cbn [expand app model_run];
    destruct (w_obs w 0); try congruence; reflexivity.
Qed.

Corollary thread_init_dies_at_load w : straight w -> w_obs w 0 <> READY ->
  run G.ovni_thread_init w = ([SLoad], Died).
Proof.
  intros S N. rewrite (thread_init_expansion w Z0 S). destruct (w_mv w); cbn [expand app model_run];
    destruct (w_obs w 0); try congruence; reflexivity.
Qed.

(* ---- every world: whatever the opaque code does (dies, returns early, takes either side of a condition), the shared
   actions performed are a PREFIX, in order, of the model's expansion: the generated code never performs a shared action
   the model does not know, nor in another order *)
Definition shared (l : list action) : list sact :=
  flat_map (fun a => match sact_of a with Some s => [s] | None => [] end) l.

Ltac explore w :=
  repeat (cbn -[w_cond w_die w_obs];
          match goal with
          | |- context [w_die w ?n] => destruct (w_die w n)
          | |- context [w_cond w ?n] => destruct (w_cond w n)
          | |- context [w_obs w ?n] => destruct (w_obs w n)
          end);
  cbn; try reflexivity.

Theorem proc_init_prefix w : is_prefix (fst (run G.ovni_proc_init w)) (shared (expand (w_mv w) ProcInit)) = true.
Proof.
  unfold run, G.ovni_proc_init, G.create_proc_dir. cbv [tseq tif emit opq tdie tret tskip tcall cas_st load_st store_st].
  destruct (w_mv w); explore w.
Qed.

Theorem proc_fini_prefix w : is_prefix (fst (run G.ovni_proc_fini w)) (shared (expand (w_mv w) ProcFini)) = true.
Proof.
  unfold run, G.ovni_proc_fini. cbv [tseq tif emit opq tdie tret tskip tcall cas_st load_st store_st].
  destruct (w_mv w); explore w.
Qed.

Theorem thread_free_prefix w : is_prefix (fst (run G.ovni_thread_free w)) (shared (expand (w_mv w) ThreadFree)) = true.
Proof.
  unfold run, G.ovni_thread_free, G.thread_metadata_store. cbv [tseq tif emit opq tdie tret tskip tcall cas_st load_st store_st].
  destruct (w_mv w); explore w.
Qed.

Theorem thread_init_prefix w tid : is_prefix (fst (run G.ovni_thread_init w)) (shared (expand (w_mv w) (ThreadInit tid))) = true.
Proof.
  unfold run, G.ovni_thread_init, G.thread_metadata_init, G.thread_metadata_populate, G.thread_metadata_store,
    G.create_trace_stream, G.create_thread_dir.
  cbv [tseq tif emit opq tdie tret tskip tcall cas_st load_st store_st].
  destruct (w_mv w); explore w.
Qed.
