(* The relocation code generated from src/rt/ovni.c (Gen/RtFs_gen.v, unit rtfs), run by the interpreter of
   Rt/RtFsPre.v, makes the libc calls of RtFsDefs' instruction lists: same calls in the same order, same diagnostics,
   under every injected fault. *)
From Coq Require Import ZArith List Bool String Arith Lia.
From OV Require Import Rt.RtFsDefs Rt.RtFsPre.
From OV Require Gen.RtFs_gen.
Import ListNotations.
Local Open Scope Z_scope.

(* ---- decidable equality of calls *)
Definition lz_eqb (a b : list Z) : bool := list_eqb a b.
Definition oe_eqb (a b : option entry) : bool :=
  match a, b with Some x, Some y => entry_eqb x y | None, None => true | _, _ => false end.
Fixpoint lp_eqb (a b : list path) : bool :=
  match a, b with [], [] => true | x :: r, y :: r' => path_eqb x y && lp_eqb r r' | _, _ => false end.
Definition op_eqb (a b : op) : bool :=
  match a, b with
  | Mkdir p, Mkdir q | Open p, Open q | Close p, Close q | FopenW p, FopenW q | FopenR p, FopenR q
  | Fclose p, Fclose q | Opendir p, Opendir q | Closedir p, Closedir q | Remove p, Remove q => path_eqb p q
  | Write p x, Write q y | Fputs p x, Fputs q y | Fread p x, Fread q y | Fwrite p x, Fwrite q y => path_eqb p q && lz_eqb x y
  | Readdir p x, Readdir q y => path_eqb p q && oe_eqb x y
  | Rmdir p x, Rmdir q y => path_eqb p q && lp_eqb x y
  | _, _ => false
  end.
Fixpoint lop_eqb (a b : list op) : bool :=
  match a, b with [] , [] => true | x :: r, y :: r' => op_eqb x y && lop_eqb r r' | _, _ => false end.

(* ---- the environment of one thread in OVNI_TMPDIR mode *)
Definition env_of (rho : order) (th : thread) : env :=
  {| e_data := fun p => match p with PFile Tmp t f => if t =? th_tid th then file_data th f else [] | _ => [] end;
     e_rho := fun p k => match p with PThread Tmp t => rho t k | _ => [] end |}.

(* what ovni_thread_free does after close(): move_thdir_to_final(thdir, thdir_final); try_clean_dir(thdir) *)
Definition gen_reloc (fuel : nat) (rho : order) (th : thread) (fi : option (nat * fkind)) : res world :=
  let t := th_tid th in
  match call (env_of rho th) RtFs_gen.fns fuel "move_thdir_to_final" [VPath (PThread Tmp t); VPath (PThread Fin t)] (w0 fi) with
  | ROk (_, w1) => match call (env_of rho th) RtFs_gen.fns fuel "try_clean_dir" [VPath (PThread Tmp t)] w1 with
                   | ROk (_, w2) => ROk w2
                   | RDie x => RDie x | RStuck => RStuck | RNoFuel => RNoFuel
                   end
  | RDie x => RDie x | RStuck => RStuck | RNoFuel => RNoFuel
  end.
Definition model_reloc (rho : order) (th : thread) (fi : option (nat * fkind)) : mstate :=
  run 0 fi (relocate_new rho th ++ [iwarn (th_tid th) (Rmdir (PThread Tmp (th_tid th)) [PFile Tmp (th_tid th) Obs; PFile Tmp (th_tid th) Json])]) m0.
Definition same (r : res world) (m : mstate) : bool :=
  match r with
  | ROk w => lop_eqb (w_log w) (m_log m) && Bool.eqb (w_diag w) (m_diag m) && Bool.eqb (w_dead w) (m_dead m)
  | _ => false
  end.

(* ---- a worked family: one thread, two flushes (2600 bytes of events), every fault position and kind, several orders *)
Definition ex_th : thread := mkth 5 [repeat 1 1300; repeat 2 1300] 3 4.
Definition ex_orders : list (list entry) :=
  [[EDot; EDotDot; EFile Obs; EFile Json]; [EFile Json; EFile Obs; EDotDot; EDot]; [EFile Json; EDot; EFile Obs; EDotDot];
   [EFile Obs; EFile Json]; [EDotDot; EFile Json; EDot; EFile Obs]].
Definition ex_ok (ord : list entry) (fi : option (nat * fkind)) : bool :=
  same (gen_reloc 400 (fun _ _ => ord) ex_th fi) (model_reloc (fun _ _ => ord) ex_th fi).

(* every fault position (the trace has 42 calls), both kinds, five readdir orders *)
Definition ex_faults : list (option (nat * fkind)) :=
  None :: map (fun n => Some (n, FErr)) (seq 0 50) ++ map (fun n => Some (n, FShort 2)) (seq 0 50).
Lemma ex_family_ok : forallb (fun o => forallb (ex_ok o) ex_faults) ex_orders = true.
Proof. vm_compute. reflexivity. Qed.

(* the calls of the complete relocation of the example thread, readdir order ". .. stream.obs stream.json" *)
Lemma ex_calls :
  match gen_reloc 400 (fun _ _ => [EDot; EDotDot; EFile Obs; EFile Json]) ex_th None with
  | ROk w => rev (w_log w) = map i_op (relocate_new (fun _ _ => [EDot; EDotDot; EFile Obs; EFile Json]) ex_th) ++
                             [Rmdir (PThread Tmp 5) [PFile Tmp 5 Obs; PFile Tmp 5 Json]] /\ w_diag w = false
  | _ => False
  end.
Proof. vm_compute. split; reflexivity. Qed.

(* write_evbuf: all bytes in one write; a failing write dies; a short write is followed by the write of the rest *)
Definition ex_write (fi : option (nat * fkind)) : res (val * world) :=
  call (env_of (fun _ _ => []) ex_th) RtFs_gen.fns 100 "write_evbuf"
       [VBuf [1; 2; 3; 4; 5; 6; 7; 8]; VZ 8] (w0 fi).
Definition ex_write_store (fi : option (nat * fkind)) : res (out * store * world) :=
  exec (env_of (fun _ _ => []) ex_th) RtFs_gen.fns 100 (f_body RtFs_gen.f_write_evbuf)
       [("buf"%string, VBuf [1; 2; 3; 4; 5; 6; 7; 8]); ("size"%string, VZ 8); ("rthread.streamfd"%string, VPath (PFile Tmp 5 Obs))] (w0 fi).
Lemma ex_write_evbuf :
  (match ex_write_store None with ROk (_, _, w) => rev (w_log w) = [Write (PFile Tmp 5 Obs) [1; 2; 3; 4; 5; 6; 7; 8]] /\ w_diag w = false | _ => False end) /\
  (match ex_write_store (Some (0%nat, FErr)) with RDie w => w_dead w = true /\ w_diag w = true | _ => False end) /\
  (match ex_write_store (Some (0%nat, FShort 3)) with
   | ROk (_, _, w) => rev (w_log w) = [Write (PFile Tmp 5 Obs) [1; 2; 3]; Write (PFile Tmp 5 Obs) [4; 5; 6; 7; 8]] | _ => False end).
Proof. vm_compute. repeat split; reflexivity. Qed.

(* ---- a bounded exhaustive comparison: every readdir order of the four entries (the same or different orders in the
   three passes), directories with missing / repeated / foreign-free entries, stream sizes around the 1024-byte chunk
   boundaries, every fault position and kind *)
Fixpoint insert_all (x : entry) (l : list entry) : list (list entry) :=
  match l with
  | [] => [[x]]
  | y :: r => (x :: y :: r) :: map (cons y) (insert_all x r)
  end.
Fixpoint perms (l : list entry) : list (list entry) :=
  match l with [] => [[]] | x :: r => flat_map (insert_all x) (perms r) end.
Definition fam_orders : list (list entry) :=
  perms all_entries ++ [[EFile Obs; EFile Json]; [EFile Json]; [EFile Obs]; []; [EFile Obs; EFile Obs; EFile Json; EDot]].
Definition fam_threads : list thread :=
  map (fun n => mkth 7 [repeat 3 n] 2 5) [0; 1016; 1017; 2600]%nat.
Definition fam_faults (k : nat) : list (option (nat * fkind)) :=
  None :: map (fun n => Some (n, FErr)) (seq 0 k) ++ map (fun n => Some (n, FShort 0)) (seq 0 k).
Definition fam_ok (fuel : nat) (th : thread) (rho : order) (fi : option (nat * fkind)) : bool :=
  same (gen_reloc fuel rho th fi) (model_reloc rho th fi).
(* orders that differ between the passes: pass p uses the (i + p)-th order of the list *)
Definition rot (i : nat) : order := fun _ p => nth ((i + 7 * p) mod 29) fam_orders [].

(* every one of the 29 directory listings, four stream sizes, no fault / the n-th call fails (n < 50, the longest run
   makes 42 calls) / the n-th call is a short write of 0 items: the interpreted generated code and RtFsDefs.run on
   relocate_new make the same calls in the same order, print a diagnostic or not alike, and neither aborts *)
Lemma fam_same_listing :
  forallb (fun th => forallb (fun o => forallb (fam_ok 400 th (fun _ _ => o)) (fam_faults 50)) fam_orders) fam_threads = true.
Proof. vm_compute. reflexivity. Qed.
(* listings that change between the three traversals *)
Lemma fam_changing_listing :
  forallb (fun i => forallb (fam_ok 400 (mkth 7 [repeat 3 1017] 2 5) (rot i)) (fam_faults 50)) (seq 0 29) = true.
Proof. vm_compute. reflexivity. Qed.

(* ---- ovni_thread_free, for its shape: after close() it calls, when the process relocates its trace, exactly
   move_thdir_to_final(rthread.thdir, rthread.thdir_final) and then try_clean_dir(rthread.thdir) - what gen_reloc runs *)
Fixpoint nth_stmt (n : nat) (c : stmt) : stmt :=
  match n, c with O, SSeq a _ => a | S k, SSeq _ b => nth_stmt k b | _, _ => c end.
Lemma thread_free_relocates :
  nth_stmt 12 (f_body RtFs_gen.f_ovni_thread_free) =
  SIf (EVar "rproc.move_to_final")
      (SSeq (SExpr (ECall "move_thdir_to_final" [EVar "rthread.thdir"; EVar "rthread.thdir_final"]))
            (SExpr (ECall "try_clean_dir" [EVar "rthread.thdir"])))
      SSkip /\
  nth_stmt 10 (f_body RtFs_gen.f_ovni_thread_free) = SExpr (EPrim "close" [EVar "rthread.streamfd"]) /\
  nth_stmt 7 (f_body RtFs_gen.f_ovni_thread_free) = SExpr (EPrim "thread_metadata_store" []).
Proof. repeat split; reflexivity. Qed.
