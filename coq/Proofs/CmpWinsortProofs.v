(* C16: qsort(cmp_ev) of ovnisort orders by the unsigned clocks exactly as the window-sort model
   does; cmp_ev is translated from the source (coq/Gen/Cmp_winsort_gen.v). *)
From Coq Require Import ZArith List Bool Lia String.
From Coq Require Import ZifyBool.
From OV Require Import Base.CInt Emu.CmpPre Gen.Cmp_winsort_gen Proofs.CmpBase Tools.WinsortDefs.
Import ListNotations.
Local Open Scope Z_scope.

Local Open Scope string_scope.
(* the clocks are read as uint64_t (the defect repaired by /repo f327c17 read them as int64_t) *)
Lemma winsort_prelude_as_modelled :
  cmp_ev_prelude = ["struct ovni_ev **pev1 = (struct ovni_ev **) a"; "struct ovni_ev **pev2 = (struct ovni_ev **) b";
                    "struct ovni_ev *ev1 = *pev1"; "struct ovni_ev *ev2 = *pev2";
                    "uint64_t clock1 = ev1->header.clock"; "uint64_t clock2 = ev2->header.clock"] /\
  cmp_ev_sig = "int (const void *, const void *) | const void * a, const void * b".
Proof. repeat split; reflexivity. Qed.
Local Close Scope string_scope.

Lemma cmp_ev_core_cmp3 a b : cmp_ev_core a b = cmp3 a b.
Proof. unfold cmp_ev_core. three. Qed.

(* equal clocks compare equal: together with a stable qsort the relative order is kept *)
Lemma cmp_ev_core_eq a b : cmp_ev_core a b = 0 <-> a = b.
Proof. rewrite cmp_ev_core_cmp3. unfold cmp3. destruct (a <? b) eqn:E1; destruct (b <? a) eqn:E2; lia. Qed.

Fixpoint ins_by_src (a : ev) (l : list ev) : list ev :=
  match l with
  | [] => [a]
  | b :: t => if cmp_ev_core (clock a) (clock b) <=? 0 then a :: b :: t else b :: ins_by_src a t
  end.
Fixpoint isort_by_src (l : list ev) : list ev :=
  match l with [] => [] | a :: t => ins_by_src a (isort_by_src t) end.

Lemma isort_by_clock_from_source l : isort_by clock l = isort_by_src l.
Proof.
  induction l as [|a t IH]; cbn [isort_by isort_by_src]; [reflexivity|]. rewrite IH.
  generalize (isort_by_src t). intro r.
  induction r as [|b r IHr]; cbn [ins_by ins_by_src]; [reflexivity|].
  rewrite cmp_ev_core_cmp3, cmp3_le, IHr. reflexivity.
Qed.
