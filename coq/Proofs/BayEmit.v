(* emit_all is insensitive to the order of requests with distinct keys: same verdict, equivalent
   last-value tables, the same lines per key (hence a permutation of the lines). *)
From Coq Require Import ZArith List Bool Lia Permutation.
From OV Require Import Emu.EmuCoreDefs Proofs.EmitProofs.
Import ListNotations.

Definition last_equiv (a b : list (key * value)) : Prop := forall k, last_get a k = last_get b k.

Lemma last_equiv_refl a : last_equiv a a. Proof. intros k. reflexivity. Qed.
Lemma last_equiv_sym a b : last_equiv a b -> last_equiv b a. Proof. intros H k. symmetry. apply H. Qed.
Lemma last_equiv_trans a b c : last_equiv a b -> last_equiv b c -> last_equiv a c.
Proof. intros H1 H2 k. rewrite H1. apply H2. Qed.

Lemma key_dec (a b : key) : {a = b} + {a <> b}.
Proof. destruct (key_eqb a b) eqn:E; [left; apply key_eqb_eq; exact E|right; intros H; apply key_eqb_eq in H; congruence]. Qed.

Lemma last_equiv_set a b k v : last_equiv a b -> last_equiv (last_set a k v) (last_set b k v).
Proof.
  intros H k'. destruct (key_dec k k') as [->|Hne].
  - rewrite !last_get_set_same. reflexivity.
  - rewrite !last_get_set_other by exact Hne. apply H.
Qed.

Definition filter_key (k : key) (s : list line) : list line := filter (fun x => key_eqb (line_key x) k) s.

Lemma filter_key_app k a b : filter_key k (a ++ b) = filter_key k a ++ filter_key k b.
Proof. apply filter_app. Qed.

(* ---------------------------------------------------------------- one emit *)

Definition emit_rel (l l' : list (key * value)) (k : key) (v : value)
           (ra rb : result (list (key * value) * list line)) : Prop :=
  match ra, rb with
  | Ok (l1, s1), Ok (l2, s2) =>
    s1 = s2 /\ (forall x, In x s1 -> line_key x = k) /\
    ((l1 = l /\ l2 = l') \/ (l1 = last_set l k v /\ l2 = last_set l' k v))
  | Err _, Err _ => True
  | _, _ => False
  end.

Lemma emit_equiv l l' cpu row ty f v :
  last_get l (cpu, row, ty) = last_get l' (cpu, row, ty) ->
  emit_rel l l' (cpu, row, ty) v (emit l cpu row ty f v) (emit l' cpu row ty f v).
Proof.
  intros H. unfold emit. cbv zeta. rewrite <- H.
  set (dup := match last_get l (cpu, row, ty) with Some v0 => value_eqb v v0 | None => false end).
  set (cr := negb (has_flag f PRV_EMITDUP)).
  destruct (cr && dup && has_flag f PRV_SKIPDUP).
  { cbn. split; [reflexivity|]. split; [intros x []|left; split; reflexivity]. }
  destruct (cr && dup && has_flag f PRV_SKIPDUPNULL && match v with None => true | _ => false end).
  { cbn. split; [reflexivity|]. split; [intros x []|left; split; reflexivity]. }
  destruct (cr && dup && negb (has_flag f PRV_SKIPDUP) && negb (has_flag f PRV_SKIPDUPNULL)); [exact I|].
  destruct v as [x|].
  - destruct (negb (has_flag f PRV_ZERO) && ((if has_flag f PRV_NEXT then (x + 1)%Z else x) =? 0)%Z); [exact I|].
    cbn. split; [reflexivity|]. split; [intros y [<-|[]]; reflexivity|].
    destruct cr; [right|left]; split; reflexivity.
  - cbn. split; [reflexivity|]. split; [intros y [<-|[]]; reflexivity|].
    destruct cr; [right|left]; split; reflexivity.
Qed.

Lemma emit_frame l cpu row ty f v l1 s1 k' :
  emit l cpu row ty f v = Ok (l1, s1) -> k' <> (cpu, row, ty) -> last_get l1 k' = last_get l k'.
Proof.
  intros E Hne. pose proof (emit_equiv l l cpu row ty f v eq_refl) as R. rewrite E in R. cbn in R.
  destruct R as (_ & _ & [[-> _]|[-> _]]); [reflexivity|]. apply last_get_set_other. congruence.
Qed.

(* ---------------------------------------------------------------- results up to order *)

Definition REquiv (ra rb : result (list (key * value) * list line)) : Prop :=
  match ra, rb with
  | Ok (l1, s1), Ok (l2, s2) => last_equiv l1 l2 /\ Permutation s1 s2 /\ forall k, filter_key k s1 = filter_key k s2
  | Err _, Err _ => True
  | _, _ => False
  end.

Lemma REquiv_trans a b c : REquiv a b -> REquiv b c -> REquiv a c.
Proof.
  unfold REquiv. destruct a as [[l1 s1]|], b as [[l2 s2]|], c as [[l3 s3]|]; try tauto.
  intros (A1 & A2 & A3) (B1 & B2 & B3). split; [apply (last_equiv_trans _ _ _ A1 B1)|].
  split; [apply (perm_trans A2 B2)|]. intros k. rewrite A3. apply B3.
Qed.

Definition rkey (r : req) : key := fst (fst r).

Lemma emit_all_cons l k f v rs :
  emit_all l ((k, f, v) :: rs) =
  match emit l (fst (fst k)) (snd (fst k)) (snd k) f v with
  | Err e => Err e
  | Ok (l1, s1) => match emit_all l1 rs with Err e => Err e | Ok (l2, s2) => Ok (l2, s1 ++ s2) end
  end.
Proof. destruct k as [[cpu row] ty]. reflexivity. Qed.

Lemma key_eta (k : key) : (fst (fst k), snd (fst k), snd k) = k.
Proof. destruct k as [[a b] c]. reflexivity. Qed.

(* same requests, equivalent tables *)
Lemma emit_all_equiv rs : forall l l', last_equiv l l' -> REquiv (emit_all l rs) (emit_all l' rs).
Proof.
  induction rs as [|[[k f] v] rs IH]; intros l l' H.
  - cbn. split; [exact H|]. split; [constructor|reflexivity].
  - rewrite !emit_all_cons.
    pose proof (emit_equiv l l' (fst (fst k)) (snd (fst k)) (snd k) f v) as R. rewrite key_eta in R. specialize (R (H k)).
    unfold emit_rel in R.
    destruct (emit l (fst (fst k)) (snd (fst k)) (snd k) f v) as [[l1 s1]|], (emit l' (fst (fst k)) (snd (fst k)) (snd k) f v) as [[l2 s2]|]; try tauto.
    destruct R as (-> & _ & Hl).
    assert (E : last_equiv l1 l2).
    { destruct Hl as [[-> ->]|[-> ->]]; [exact H|apply last_equiv_set; exact H]. }
    specialize (IH l1 l2 E). unfold REquiv in IH.
    destruct (emit_all l1 rs) as [[l3 s3]|], (emit_all l2 rs) as [[l4 s4]|]; try tauto.
    destruct IH as (A1 & A2 & A3). split; [exact A1|]. split; [apply Permutation_app_head; exact A2|].
    intros k0. rewrite !filter_key_app, A3. reflexivity.
Qed.

Lemma filter_key_other k k' s : (forall x, In x s -> line_key x = k') -> k <> k' -> filter_key k s = [].
Proof.
  intros H Hne. unfold filter_key. induction s as [|x s IH]; [reflexivity|]. cbn [filter].
  rewrite (H x (or_introl eq_refl)). rewrite (key_eqb_neq k' k) by congruence. apply IH. intros y Hy. apply H. right. exact Hy.
Qed.

(* two adjacent requests with different keys can be swapped *)
Lemma emit_all_swap l l' k1 f1 v1 k2 f2 v2 rs :
  k1 <> k2 -> last_equiv l l' ->
  REquiv (emit_all l ((k1, f1, v1) :: (k2, f2, v2) :: rs)) (emit_all l' ((k2, f2, v2) :: (k1, f1, v1) :: rs)).
Proof.
  intros Hne H. rewrite !emit_all_cons.
  set (e1 := fun t => emit t (fst (fst k1)) (snd (fst k1)) (snd k1) f1 v1).
  set (e2 := fun t => emit t (fst (fst k2)) (snd (fst k2)) (snd k2) f2 v2).
  change (emit l (fst (fst k1)) (snd (fst k1)) (snd k1) f1 v1) with (e1 l).
  change (emit l' (fst (fst k2)) (snd (fst k2)) (snd k2) f2 v2) with (e2 l').
  assert (R1 : forall a b, last_get a k1 = last_get b k1 -> emit_rel a b k1 v1 (e1 a) (e1 b)).
  { intros a b E. unfold e1. pose proof (emit_equiv a b (fst (fst k1)) (snd (fst k1)) (snd k1) f1 v1) as R. rewrite key_eta in R. apply R. exact E. }
  assert (R2 : forall a b, last_get a k2 = last_get b k2 -> emit_rel a b k2 v2 (e2 a) (e2 b)).
  { intros a b E. unfold e2. pose proof (emit_equiv a b (fst (fst k2)) (snd (fst k2)) (snd k2) f2 v2) as R. rewrite key_eta in R. apply R. exact E. }
  assert (F1 : forall a a1 s, e1 a = Ok (a1, s) -> last_get a1 k2 = last_get a k2).
  { intros a a1 s E. unfold e1 in E. apply (emit_frame _ _ _ _ _ _ _ _ k2 E). rewrite key_eta. congruence. }
  assert (F2 : forall a a1 s, e2 a = Ok (a1, s) -> last_get a1 k1 = last_get a k1).
  { intros a a1 s E. unfold e2 in E. apply (emit_frame _ _ _ _ _ _ _ _ k1 E). rewrite key_eta. congruence. }
  destruct (e1 l) as [[la sa]|ea] eqn:E1.
  - (* first succeeds on the left *)
    rewrite emit_all_cons.
    change (emit la (fst (fst k2)) (snd (fst k2)) (snd k2) f2 v2) with (e2 la).
    pose proof (R2 la l') as Q2. rewrite (F1 _ _ _ E1) in Q2. specialize (Q2 (H k2)). unfold emit_rel in Q2.
    destruct (e2 la) as [[lb sb]|eb] eqn:E2, (e2 l') as [[lc sc]|ec] eqn:E3; try tauto.
    destruct Q2 as (-> & Hsc & Hl2). rewrite emit_all_cons.
      change (emit lc (fst (fst k1)) (snd (fst k1)) (snd k1) f1 v1) with (e1 lc).
      pose proof (R1 l lc) as Q1. rewrite (F2 _ _ _ E3), (H k1) in Q1. specialize (Q1 eq_refl). rewrite E1 in Q1. unfold emit_rel in Q1.
      destruct (e1 lc) as [[ld sd]|ed] eqn:E4; [|tauto]. destruct Q1 as (<- & Hsa & Hl1).
      (* tables after both, in both orders *)
      assert (E : last_equiv lb ld).
      { intros k. destruct Hl1 as [[-> ->]|[-> ->]], Hl2 as [[-> ->]|[-> ->]]; try apply H.
        - apply last_equiv_set. exact H.
        - apply last_equiv_set. exact H.
        - destruct (key_dec k2 k) as [<-|N2].
          + rewrite last_get_set_same, last_get_set_other by congruence. rewrite last_get_set_same. reflexivity.
          + rewrite last_get_set_other by exact N2. destruct (key_dec k1 k) as [<-|N1].
            * rewrite !last_get_set_same. reflexivity.
            * rewrite !last_get_set_other by assumption. apply H. }
      pose proof (emit_all_equiv rs lb ld E) as T. unfold REquiv in T.
      destruct (emit_all lb rs) as [[lf sf]|], (emit_all ld rs) as [[lg sg]|]; try tauto.
      destruct T as (T1 & T2 & T3). split; [exact T1|]. split.
      * rewrite !app_assoc. apply Permutation_app; [apply Permutation_app_comm|exact T2].
      * intros k. rewrite !filter_key_app, T3.
        destruct (key_dec k k1) as [->|N1].
        -- rewrite (filter_key_other k1 k2 sc Hsc Hne). reflexivity.
        -- rewrite (filter_key_other k k1 sa Hsa N1). reflexivity.
  - (* first fails on the left: the right fails either at k2 or then at k1 *)
    destruct (e2 l') as [[lc sc]|ec] eqn:E3; [|exact I]. rewrite emit_all_cons.
    change (emit lc (fst (fst k1)) (snd (fst k1)) (snd k1) f1 v1) with (e1 lc).
    pose proof (R1 l lc) as Q1. rewrite (F2 _ _ _ E3), (H k1) in Q1. specialize (Q1 eq_refl). rewrite E1 in Q1. unfold emit_rel in Q1.
    destruct (e1 lc) as [[ld sd]|ed]; [tauto|exact I].
Qed.

Theorem emit_all_perm rs rs' : Permutation rs rs' -> NoDup (map rkey rs) ->
  forall l l', last_equiv l l' -> REquiv (emit_all l rs) (emit_all l' rs').
Proof.
  intros HP. induction HP as [|[[k f] v] rs rs' HP IH|[[k1 f1] v1] [[k2 f2] v2] rs|rs1 rs2 rs3 HP1 IH1 HP2 IH2]; intros Hnd l l' H.
  - apply emit_all_equiv. exact H.
  - cbn [map] in Hnd. inversion Hnd as [|? ? Hk Hnd']; subst. rewrite !emit_all_cons.
    pose proof (emit_equiv l l' (fst (fst k)) (snd (fst k)) (snd k) f v) as R. rewrite key_eta in R. specialize (R (H k)).
    unfold emit_rel in R.
    destruct (emit l (fst (fst k)) (snd (fst k)) (snd k) f v) as [[l1 s1]|], (emit l' (fst (fst k)) (snd (fst k)) (snd k) f v) as [[l2 s2]|]; try tauto.
    destruct R as (-> & _ & Hl).
    assert (E : last_equiv l1 l2).
    { destruct Hl as [[-> ->]|[-> ->]]; [exact H|apply last_equiv_set; exact H]. }
    specialize (IH Hnd' l1 l2 E). unfold REquiv in IH.
    destruct (emit_all l1 rs) as [[l3 s3]|], (emit_all l2 rs') as [[l4 s4]|]; try tauto.
    destruct IH as (A1 & A2 & A3). split; [exact A1|]. split; [apply Permutation_app_head; exact A2|].
    intros k0. rewrite !filter_key_app, A3. reflexivity.
  - cbn [map] in Hnd. inversion Hnd as [|? ? Hk Hnd']; subst.
    apply emit_all_swap; [|exact H]. intros E. apply Hk. left. cbn. symmetry. exact E.
  - apply (REquiv_trans _ (emit_all l rs2)).
    + apply IH1; [exact Hnd|apply last_equiv_refl].
    + apply IH2; [|exact H]. apply (Permutation_NoDup (Permutation_map rkey HP1)). exact Hnd.
Qed.
