(* Proofs about Emu/StreamDefs.v (stream.c) for C19 and C12. *)
From OV Require Import Base.CInt Emu.LoaderPre Gen.Loader_gen Gen.LoaderStep_gen Emu.StreamDefs Emu.LoaderSpec.
From Coq Require Import ZifyBool.
Local Open Scope Z_scope.
Ltac Zify.zify_post_hook ::= Z.div_mod_to_equations.

(* ------------------------------------------------------------------ *)
(* bytes and little-endian numbers                                      *)

Lemma rd_range bs junk i : 0 <= rd bs junk i < 256.
Proof. unfold rd. apply Z.mod_pos_bound. lia. Qed.

Lemma rd_le_range bs junk n : forall i, 0 <= rd_le bs junk i n < 256 ^ Z.of_nat n.
Proof.
  induction n as [|n IH]; intros i.
  - cbn. lia.
  - cbn [rd_le]. pose proof (rd_range bs junk i). specialize (IH (i + 1)).
    replace (Z.of_nat (S n)) with (1 + Z.of_nat n) by lia.
    rewrite Z.pow_add_r by lia. change (256 ^ 1) with 256. lia.
Qed.

Lemma jumbo_size_range ev : 0 <= get_payload_jumbo_size ev < 4294967296.
Proof. unfold get_payload_jumbo_size, ev_rd_le. apply (rd_le_range _ _ 4%nat). Qed.

Lemma clock_range ev : 0 <= get_header_clock ev < 2 ^ 64.
Proof. unfold get_header_clock, ev_rd_le. apply (rd_le_range _ _ 8%nat). Qed.

Lemma flags_range ev : 0 <= get_header_flags ev < 256.
Proof. unfold get_header_flags, ev_rd. apply rd_range. Qed.

(* the accessors only depend on the bytes they name *)
Lemma rd_in_buf bs j1 j2 i : in_buf bs i = true -> rd bs j1 i = rd bs j2 i.
Proof. intros H. unfold rd. rewrite H. reflexivity. Qed.

Lemma rd_le_in_buf bs j1 j2 n : forall i,
  (forall k, (k < n)%nat -> in_buf bs (i + Z.of_nat k) = true) -> rd_le bs j1 i n = rd_le bs j2 i n.
Proof.
  induction n as [|n IH]; intros i H; [reflexivity|].
  cbn [rd_le]. rewrite (rd_in_buf bs j1 j2 i).
  - rewrite (IH (i + 1)); [reflexivity|]. intros k Hk. specialize (H (S k) ltac:(lia)).
    replace (i + 1 + Z.of_nat k) with (i + Z.of_nat (S k)) by lia. exact H.
  - specialize (H O ltac:(lia)). replace (i + Z.of_nat 0) with i in H by lia. exact H.
Qed.

(* ------------------------------------------------------------------ *)
(* the flag nibble sweep: every fact about the non-jumbo size, for all 256 flag bytes *)

Definition nj_size (f : Z) : Z := let k := Z.land f 15 in if k =? 0 then 0 else k + 1.

Definition sweep (P : Z -> bool) : bool := forallb (fun n => P (Z.of_nat n)) (seq 0 256).

Lemma sweep_spec P : sweep P = true -> forall f, 0 <= f < 256 -> P f = true.
Proof.
  intros H f Hf. unfold sweep in H. rewrite forallb_forall in H.
  specialize (H (Z.to_nat f)). rewrite Z2Nat.id in H by lia. apply H.
  apply in_seq. lia.
Qed.

Lemma sweep_facts : forall f, 0 <= f < 256 ->
  (negb (Z.land f 16 =? 0)) = Z.testbit f 4 /\
  Z.land f 15 = f mod 16 /\
  0 <= nj_size f <= 16.
Proof.
  intros f Hf.
  assert (H := sweep_spec (fun f => (Bool.eqb (negb (Z.land f 16 =? 0)) (Z.testbit f 4)) &&
                                    (Z.land f 15 =? f mod 16) &&
                                    (0 <=? nj_size f) && (nj_size f <=? 16)) eq_refl f Hf).
  cbv beta in H.
  apply andb_prop in H. destruct H as [H H4]. apply andb_prop in H. destruct H as [H H3].
  apply andb_prop in H. destruct H as [H1 H2].
  apply Bool.eqb_prop in H1. split; [exact H1|]. split; lia.
Qed.

Lemma payload_size_nonjumbo ev :
  has_jumbo_flag ev = false -> ovni_payload_size ev = nj_size (get_header_flags ev).
Proof.
  unfold has_jumbo_flag, ovni_payload_size, nj_size. intros H. rewrite H.
  destruct (Z.land (get_header_flags ev) 15 =? 0); reflexivity.
Qed.

Lemma payload_size_jumbo ev :
  has_jumbo_flag ev = true ->
  ovni_payload_size ev = cast_int32 (4 + get_payload_jumbo_size ev).
Proof.
  unfold has_jumbo_flag, ovni_payload_size, get_jumbo_payload_size. intros H. rewrite H.
  pose proof (jumbo_size_range ev) as Hr.
  unfold c_sizeof_uint32_t, cast_uint64. rewrite wrapu_small; [reflexivity|].
  change (2 ^ 64) with 18446744073709551616. lia.
Qed.

(* ------------------------------------------------------------------ *)
(* next_ev_size (translated from the repaired C) is ev_size_checked      *)

Lemma next_ev_size_eq ev left : next_ev_size ev left = ev_size_checked ev left.
Proof.
  unfold next_ev_size, ev_size_checked, has_jumbo_flag, C_INT_MAX.
  unfold c_sizeof_struct_ovni_ev_header, c_sizeof_uint32_t.
  change (cast_int64 12) with 12. change (cast_int64 4) with 4. change (12 + 4) with 16.
  change (- (1)) with (-1).
  destruct (left <? 12); [reflexivity|].
  destruct (negb (Z.land (get_header_flags ev) c_OVNI_EV_JUMBO =? 0)).
  - change (Z.add 12 4) with 16. destruct (left <? 16); [reflexivity|]. reflexivity.
  - reflexivity.
Qed.

(* what a non-negative result of the guard guarantees *)
Lemma ev_size_checked_ok ev left s :
  ev_size_checked ev left = s -> 0 <= s ->
  12 <= s <= left /\ s <= C_INT_MAX /\ ovni_ev_size ev = s /\ in_int32 (ovni_ev_size ev) = true /\
  (has_jumbo_flag ev = true -> 16 <= left).
Proof.
  unfold ev_size_checked, C_INT_MAX. intros H Hs.
  destruct (left <? 12) eqn:E12; [lia|].
  destruct (has_jumbo_flag ev) eqn:Ej.
  - destruct (left <? 16) eqn:E16; [lia|].
    pose proof (jumbo_size_range ev) as Hr.
    destruct (16 + get_payload_jumbo_size ev >? 2147483647) eqn:Em; [lia|].
    destruct (left <? 16 + get_payload_jumbo_size ev) eqn:El; [lia|].
    assert (Hsz : ovni_ev_size ev = 16 + get_payload_jumbo_size ev).
    { unfold ovni_ev_size. rewrite (payload_size_jumbo ev Ej).
      unfold c_sizeof_struct_ovni_ev_header. change (cast_int32 12) with 12.
      unfold cast_int32. rewrite wraps_small; [lia|lia|]. change (2 ^ (32 - 1)) with 2147483648. lia. }
    rewrite Hsz. unfold in_int32, C_INT_MAX. repeat split; try lia.
  - pose proof (flags_range ev) as Hf.
    destruct (sweep_facts _ Hf) as (_ & _ & Hn).
    rewrite (payload_size_nonjumbo ev Ej) in H.
    destruct (left <? 12 + nj_size (get_header_flags ev)) eqn:El; [lia|].
    assert (Hsz : ovni_ev_size ev = 12 + nj_size (get_header_flags ev)).
    { unfold ovni_ev_size. rewrite (payload_size_nonjumbo ev Ej). reflexivity. }
    rewrite Hsz. unfold in_int32, C_INT_MAX. repeat split; try lia; discriminate.
Qed.

(* ------------------------------------------------------------------ *)
(* read footprints inside the buffer                                    *)

Lemma first_oob_none bs ps : first_oob bs ps = None <-> forall p, In p ps -> in_buf bs p = true.
Proof.
  induction ps as [|p ps IH]; cbn [first_oob].
  - split; [intros _ p []|reflexivity].
  - destruct (in_buf bs p) eqn:E.
    + rewrite IH. split.
      * intros H q [<-|Hq]; [exact E|apply H; exact Hq].
      * intros H q Hq. apply H. right. exact Hq.
    + split; [discriminate|]. intros H. specialize (H p (or_introl eq_refl)). congruence.
Qed.

Lemma in_span q p n : In q (span p n) <-> p <= q < p + Z.of_nat n.
Proof.
  unfold span. rewrite in_map_iff. split.
  - intros (k & <- & Hk). apply in_seq in Hk. lia.
  - intros H. exists (Z.to_nat (q - p)). split; [lia|]. apply in_seq. lia.
Qed.

Lemma span_in_buf bs p n : 0 <= p -> p + Z.of_nat n <= blen bs -> forall q, In q (span p n) -> in_buf bs q = true.
Proof. intros H0 H1 q Hq. apply in_span in Hq. unfold in_buf. lia. Qed.

(* ------------------------------------------------------------------ *)
(* C19: the repaired stream_step                                       *)

Definition fits (st : stream) (off : Z) : Prop :=
  0 <= ev_size_checked (view st off) (s_size st - off).

(* states the walk goes through: active, cursor inside the file after the header,
   and if an event is loaded it has passed the guard *)
Definition inv (st : stream) : Prop :=
  s_active st = true /\ 8 <= s_offset st < s_size st /\ (s_cur st = true -> fits st (s_offset st)).

Definition same_file (st st' : stream) : Prop :=
  s_buf st' = s_buf st /\ s_junk st' = s_junk st /\ s_unsorted st' = s_unsorted st.

Lemma cast_int64_small z : - 2 ^ 63 <= z < 2 ^ 63 -> cast_int64 z = z.
Proof. intros H. unfold cast_int64. apply wraps_small; [lia|]. change (64 - 1) with 63. exact H. Qed.

Lemma guard_new_inside st off :
  0 <= off < s_size st -> s_size st < 2 ^ 63 ->
  match guard_new (s_buf st) (view st off) (s_size st - off) with
  | GFits => fits st off
  | GIncomplete => True
  | GOob _ => False
  | GOverflow => False
  end.
Proof.
  intros Hoff Hsz. unfold guard_new.
  assert (Hfo : first_oob (s_buf st) (reads_next_ev_size (view st off) (s_size st - off)) = None).
  { apply first_oob_none. intros p Hp. unfold reads_next_ev_size in Hp.
    unfold c_sizeof_struct_ovni_ev_header, c_sizeof_uint32_t in Hp. unfold s_size in *.
    destruct (blen (s_buf st) - off <? 12) eqn:E12; [contradiction|].
    apply in_app_or in Hp. destruct Hp as [Hp|Hp].
    - apply in_span in Hp. cbn [view eoff] in Hp. unfold pre_off_flags in Hp. unfold in_buf. lia.
    - destruct (has_jumbo_flag (view st off)); [|contradiction].
      destruct (blen (s_buf st) - off <? 12 + 4) eqn:E16; [contradiction|].
      apply in_span in Hp. cbn [view eoff] in Hp. unfold pre_off_jumbo_size in Hp. unfold in_buf. lia. }
  rewrite Hfo. unfold fits.
  destruct (ev_size_checked (view st off) (s_size st - off) <? 0) eqn:E; [exact I|lia].
Qed.

Lemma clock_inside st off : fits st off -> 0 <= off ->
  first_oob (s_buf st) (reads_clock (view st off)) = None.
Proof.
  intros Hf Hoff. unfold fits in Hf.
  destruct (ev_size_checked_ok _ _ _ eq_refl Hf) as (H12 & _).
  apply first_oob_none. intros p Hp. unfold reads_clock in Hp. apply in_span in Hp.
  cbn [view eoff] in Hp. unfold pre_off_clock in Hp. unfold in_buf, s_size in *. lia.
Qed.

Lemma ev_size_reads_inside st off : fits st off -> 0 <= off ->
  first_oob (s_buf st) (reads_ovni_ev_size (view st off)) = None.
Proof.
  intros Hf Hoff. unfold fits in Hf.
  destruct (ev_size_checked_ok _ _ _ eq_refl Hf) as (H12 & _ & _ & _ & Hj).
  apply first_oob_none. intros p Hp. unfold reads_ovni_ev_size in Hp.
  apply in_app_or in Hp. destruct Hp as [Hp|Hp].
  - apply in_span in Hp. cbn [view eoff] in Hp. unfold pre_off_flags in Hp. unfold in_buf, s_size in *. lia.
  - destruct (has_jumbo_flag (view st off)); [|contradiction]. specialize (Hj eq_refl).
    apply in_span in Hp. cbn [view eoff] in Hp. unfold pre_off_jumbo_size in Hp. unfold in_buf, s_size in *. lia.
Qed.

(* second half of stream_step: the event at off is examined *)
Lemma examine_inside st off :
  0 <= off < s_size st -> 8 <= off -> s_size st < 2 ^ 63 -> s_active st = true ->
  match
    (let ev := view st off in
     let left := cast_int64 (s_size st - off) in
     match guard_new (s_buf st) ev left with
     | GOob p => ROob p
     | GOverflow => RSOverflow
     | GIncomplete => RErr EIncomplete
     | GFits =>
       match first_oob (s_buf st) (reads_clock ev) with
       | Some p => ROob p
       | None =>
         let clock := cast_int64 (get_header_clock ev) in
         if negb (s_unsorted st) && (clock <? s_lastclock st) then RErr EClockBackwards
         else ROk (mk_stream (s_buf st) (s_junk st) off true true clock (s_unsorted st))
       end
     end)
  with
  | ROk st' => inv st' /\ s_cur st' = true /\ same_file st st' /\ s_offset st' = off /\
               s_lastclock st' = cast_int64 (get_header_clock (view st off)) /\
               (s_unsorted st = false -> s_lastclock st <= s_lastclock st')
  | REnd _ => False
  | RErr e => e = EIncomplete \/ e = EClockBackwards
  | ROob _ => False
  | RSOverflow => False
  end.
Proof.
  intros Hoff H8 Hsz Hact. cbv zeta.
  rewrite cast_int64_small by (unfold s_size in *; lia).
  pose proof (guard_new_inside st off Hoff Hsz) as Hg.
  destruct (guard_new (s_buf st) (view st off) (s_size st - off)); try contradiction.
  - rewrite (clock_inside st off Hg) by lia.
    destruct (negb (s_unsorted st) && (cast_int64 (get_header_clock (view st off)) <? s_lastclock st)) eqn:Ec.
    + right. reflexivity.
    + unfold inv, same_file, fits, s_size, view in *.
      cbn [s_active s_offset s_cur s_buf s_junk s_unsorted s_lastclock] in *.
      repeat split; try lia; try reflexivity.
      all: intros Hu; rewrite Hu in Ec; cbn [negb andb] in Ec; lia.
  - left. reflexivity.
Qed.

Lemma step_inv st :
  inv st -> s_size st < 2 ^ 63 ->
  match stream_step st with
  | ROk st' => inv st' /\ s_cur st' = true /\ same_file st st' /\
               (s_cur st = true -> s_offset st' = s_offset st + ovni_ev_size (view st (s_offset st)) /\
                                   s_offset st + 12 <= s_offset st') /\
               (s_cur st = false -> s_offset st' = s_offset st) /\
               s_lastclock st' = cast_int64 (get_header_clock (view st (s_offset st'))) /\
               (s_unsorted st = false -> s_lastclock st <= s_lastclock st')
  | REnd _ => s_cur st = true /\ s_offset st + ovni_ev_size (view st (s_offset st)) = s_size st
  | RErr e => e = EIncomplete \/ e = EClockBackwards
  | ROob _ => False
  | RSOverflow => False
  end.
Proof.
  intros (Hact & Hoff & Hfit) Hsz.
  unfold stream_step, step_with. rewrite Hact. cbn [negb]. unfold advance.
  destruct (s_cur st) eqn:Ecur.
  - specialize (Hfit eq_refl).
    rewrite (ev_size_reads_inside st _ Hfit) by lia.
    destruct (ev_size_checked_ok _ _ _ eq_refl Hfit) as (H12 & Hmax & Hsize & Hint & _).
    rewrite Hint. cbn [negb].
    set (sz := ovni_ev_size (view st (s_offset st))) in *.
    rewrite cast_int64_small by (unfold s_size in *; lia).
    destruct (s_offset st + sz >? s_size st) eqn:Egt; [lia|].
    destruct (s_offset st + sz =? s_size st) eqn:Eeq.
    + split; [reflexivity|lia].
    + pose proof (examine_inside st (s_offset st + sz) ltac:(lia) ltac:(lia) Hsz Hact) as Hex.
      cbv zeta in Hex.
      destruct (guard_new (s_buf st) (view st (s_offset st + sz)) (cast_int64 (s_size st - (s_offset st + sz)))); try contradiction; try exact Hex.
      destruct (first_oob (s_buf st) (reads_clock (view st (s_offset st + sz)))); try contradiction.
      destruct (negb (s_unsorted st) && (cast_int64 (get_header_clock (view st (s_offset st + sz))) <? s_lastclock st)); [exact Hex|].
      destruct Hex as (Hi & Hc & Hs & Ho & Hl & Hm).
      split; [exact Hi|]. split; [exact Hc|]. split; [exact Hs|].
      split; [intros _; cbn [s_offset] in *; lia|]. split; [intros; discriminate|].
      split; [cbn [s_offset] in *; exact Hl|exact Hm].
  - pose proof (examine_inside st (s_offset st) ltac:(lia) ltac:(lia) Hsz Hact) as Hex.
    cbv zeta in Hex.
    destruct (guard_new (s_buf st) (view st (s_offset st)) (cast_int64 (s_size st - s_offset st))); try contradiction; try exact Hex.
    destruct (first_oob (s_buf st) (reads_clock (view st (s_offset st)))); try contradiction.
    destruct (negb (s_unsorted st) && (cast_int64 (get_header_clock (view st (s_offset st))) <? s_lastclock st)); [exact Hex|].
    destruct Hex as (Hi & Hc & Hs & Ho & Hl & Hm).
    split; [exact Hi|]. split; [exact Hc|]. split; [exact Hs|].
    split; [intros; discriminate|]. split; [intros _; exact Ho|].
    split; [cbn [s_offset] in *; exact Hl|exact Hm].
Qed.
