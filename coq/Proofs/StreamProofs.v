(* Proofs about Emu/StreamDefs.v (stream.c) for C19 and C12. *)
From OV Require Import Base.CInt Emu.LoaderPre Gen.Loader_gen Gen.LoaderStep_gen Emu.StreamDefs Emu.LoaderSpec.
From Coq Require Import ZifyBool.
Local Open Scope Z_scope.
Ltac Zify.zify_post_hook ::= Z.div_mod_to_equations.

(* ------------------------------------------------------------------ *)
(* bytes and little-endian numbers                                      *)

Lemma rd_range bs junk i : 0 <= rd bs junk i < 256.
Proof. unfold rd. apply Z.mod_pos_bound. lia. Qed.

Lemma rd_le_range bs junk n : forall i, 0 <= rd_le bs junk i n < 256 ^ Z.of_nat n.
Proof.
  induction n as [|n IH]; intros i.
  - cbn. lia.
  - cbn [rd_le]. pose proof (rd_range bs junk i). specialize (IH (i + 1)).
    replace (Z.of_nat (S n)) with (1 + Z.of_nat n) by lia.
    rewrite Z.pow_add_r by lia. change (256 ^ 1) with 256. lia.
Qed.

Lemma jumbo_size_range ev : 0 <= get_payload_jumbo_size ev < 4294967296.
Proof. unfold get_payload_jumbo_size, ev_rd_le. apply (rd_le_range _ _ 4%nat). Qed.

Lemma clock_range ev : 0 <= get_header_clock ev < 2 ^ 64.
Proof. unfold get_header_clock, ev_rd_le. apply (rd_le_range _ _ 8%nat). Qed.

Lemma flags_range ev : 0 <= get_header_flags ev < 256.
Proof. unfold get_header_flags, ev_rd. apply rd_range. Qed.

(* the accessors only depend on the bytes they name *)
Lemma rd_in_buf bs j1 j2 i : in_buf bs i = true -> rd bs j1 i = rd bs j2 i.
Proof. intros H. unfold rd. rewrite H. reflexivity. Qed.

Lemma rd_le_in_buf bs j1 j2 n : forall i,
  (forall k, (k < n)%nat -> in_buf bs (i + Z.of_nat k) = true) -> rd_le bs j1 i n = rd_le bs j2 i n.
Proof.
  induction n as [|n IH]; intros i H; [reflexivity|].
  cbn [rd_le]. rewrite (rd_in_buf bs j1 j2 i).
  - rewrite (IH (i + 1)); [reflexivity|]. intros k Hk. specialize (H (S k) ltac:(lia)).
    replace (i + 1 + Z.of_nat k) with (i + Z.of_nat (S k)) by lia. exact H.
  - specialize (H O ltac:(lia)). replace (i + Z.of_nat 0) with i in H by lia. exact H.
Qed.

(* ------------------------------------------------------------------ *)
(* the flag nibble sweep: every fact about the non-jumbo size, for all 256 flag bytes *)

Definition nj_size (f : Z) : Z := let k := Z.land f 15 in if k =? 0 then 0 else k + 1.

Definition sweep (P : Z -> bool) : bool := forallb (fun n => P (Z.of_nat n)) (seq 0 256).

Lemma sweep_spec P : sweep P = true -> forall f, 0 <= f < 256 -> P f = true.
Proof.
  intros H f Hf. unfold sweep in H. rewrite forallb_forall in H.
  specialize (H (Z.to_nat f)). rewrite Z2Nat.id in H by lia. apply H.
  apply in_seq. lia.
Qed.

Lemma sweep_facts : forall f, 0 <= f < 256 ->
  (negb (Z.land f 16 =? 0)) = Z.testbit f 4 /\
  Z.land f 15 = f mod 16 /\
  0 <= nj_size f <= 16.
Proof.
  intros f Hf.
  assert (H := sweep_spec (fun f => (Bool.eqb (negb (Z.land f 16 =? 0)) (Z.testbit f 4)) &&
                                    (Z.land f 15 =? f mod 16) &&
                                    (0 <=? nj_size f) && (nj_size f <=? 16)) eq_refl f Hf).
  cbv beta in H.
  apply andb_prop in H. destruct H as [H H4]. apply andb_prop in H. destruct H as [H H3].
  apply andb_prop in H. destruct H as [H1 H2].
  apply Bool.eqb_prop in H1. split; [exact H1|]. split; lia.
Qed.

Lemma payload_size_nonjumbo ev :
  has_jumbo_flag ev = false -> ovni_payload_size ev = nj_size (get_header_flags ev).
Proof.
  unfold has_jumbo_flag, ovni_payload_size, nj_size. intros H. rewrite H.
  destruct (Z.land (get_header_flags ev) 15 =? 0); reflexivity.
Qed.

Lemma payload_size_jumbo ev :
  has_jumbo_flag ev = true ->
  ovni_payload_size ev = cast_int32 (4 + get_payload_jumbo_size ev).
Proof.
  unfold has_jumbo_flag, ovni_payload_size, get_jumbo_payload_size. intros H. rewrite H.
  pose proof (jumbo_size_range ev) as Hr.
  unfold c_sizeof_uint32_t, cast_uint64. rewrite wrapu_small; [reflexivity|].
  change (2 ^ 64) with 18446744073709551616. lia.
Qed.

(* ------------------------------------------------------------------ *)
(* next_ev_size (translated from the repaired C) is ev_size_checked      *)

Lemma next_ev_size_eq ev left : next_ev_size ev left = ev_size_checked ev left.
Proof.
  unfold next_ev_size, ev_size_checked, has_jumbo_flag, C_INT_MAX.
  unfold c_sizeof_struct_ovni_ev_header, c_sizeof_uint32_t.
  change (cast_int64 12) with 12. change (cast_int64 4) with 4. change (12 + 4) with 16.
  change (- (1)) with (-1).
  destruct (left <? 12); [reflexivity|].
  destruct (negb (Z.land (get_header_flags ev) c_OVNI_EV_JUMBO =? 0)).
  - change (Z.add 12 4) with 16. destruct (left <? 16); [reflexivity|]. reflexivity.
  - reflexivity.
Qed.

(* what a non-negative result of the guard guarantees *)
Lemma ev_size_checked_ok ev left s :
  ev_size_checked ev left = s -> 0 <= s ->
  12 <= s <= left /\ s <= C_INT_MAX /\ ovni_ev_size ev = s /\ in_int32 (ovni_ev_size ev) = true /\
  (has_jumbo_flag ev = true -> 16 <= left).
Proof.
  unfold ev_size_checked, C_INT_MAX. intros H Hs.
  destruct (left <? 12) eqn:E12; [lia|].
  destruct (has_jumbo_flag ev) eqn:Ej.
  - destruct (left <? 16) eqn:E16; [lia|].
    pose proof (jumbo_size_range ev) as Hr.
    destruct (16 + get_payload_jumbo_size ev >? 2147483647) eqn:Em; [lia|].
    destruct (left <? 16 + get_payload_jumbo_size ev) eqn:El; [lia|].
    assert (Hsz : ovni_ev_size ev = 16 + get_payload_jumbo_size ev).
    { unfold ovni_ev_size. rewrite (payload_size_jumbo ev Ej).
      unfold c_sizeof_struct_ovni_ev_header. change (cast_int32 12) with 12.
      unfold cast_int32. rewrite wraps_small; [lia|lia|]. change (2 ^ (32 - 1)) with 2147483648. lia. }
    rewrite Hsz. unfold in_int32, C_INT_MAX. repeat split; try lia.
  - pose proof (flags_range ev) as Hf.
    destruct (sweep_facts _ Hf) as (_ & _ & Hn).
    rewrite (payload_size_nonjumbo ev Ej) in H.
    destruct (left <? 12 + nj_size (get_header_flags ev)) eqn:El; [lia|].
    assert (Hsz : ovni_ev_size ev = 12 + nj_size (get_header_flags ev)).
    { unfold ovni_ev_size. rewrite (payload_size_nonjumbo ev Ej). reflexivity. }
    rewrite Hsz. unfold in_int32, C_INT_MAX. repeat split; try lia; discriminate.
Qed.

(* ------------------------------------------------------------------ *)
(* read footprints inside the buffer                                    *)

Lemma first_oob_none bs ps : first_oob bs ps = None <-> forall p, In p ps -> in_buf bs p = true.
Proof.
  induction ps as [|p ps IH]; cbn [first_oob].
  - split; [intros _ p []|reflexivity].
  - destruct (in_buf bs p) eqn:E.
    + rewrite IH. split.
      * intros H q [<-|Hq]; [exact E|apply H; exact Hq].
      * intros H q Hq. apply H. right. exact Hq.
    + split; [discriminate|]. intros H. specialize (H p (or_introl eq_refl)). congruence.
Qed.

Lemma in_span q p n : In q (span p n) <-> p <= q < p + Z.of_nat n.
Proof.
  unfold span. rewrite in_map_iff. split.
  - intros (k & <- & Hk). apply in_seq in Hk. lia.
  - intros H. exists (Z.to_nat (q - p)). split; [lia|]. apply in_seq. lia.
Qed.

Lemma span_in_buf bs p n : 0 <= p -> p + Z.of_nat n <= blen bs -> forall q, In q (span p n) -> in_buf bs q = true.
Proof. intros H0 H1 q Hq. apply in_span in Hq. unfold in_buf. lia. Qed.

(* ------------------------------------------------------------------ *)
(* C19: the repaired stream_step                                       *)

Definition fits (st : stream) (off : Z) : Prop :=
  0 <= ev_size_checked (view st off) (s_size st - off).

(* states the walk goes through: active, cursor inside the file after the header,
   and if an event is loaded it has passed the guard *)
Definition inv (st : stream) : Prop :=
  s_active st = true /\ 8 <= s_offset st < s_size st /\ (s_cur st = true -> fits st (s_offset st)).

Definition same_file (st st' : stream) : Prop :=
  s_buf st' = s_buf st /\ s_junk st' = s_junk st /\ s_unsorted st' = s_unsorted st.

Lemma cast_int64_small z : - 2 ^ 63 <= z < 2 ^ 63 -> cast_int64 z = z.
Proof. intros H. unfold cast_int64. apply wraps_small; [lia|]. change (64 - 1) with 63. exact H. Qed.

Lemma guard_new_inside st off :
  0 <= off < s_size st -> s_size st < 2 ^ 63 ->
  match guard_new (s_buf st) (view st off) (s_size st - off) with
  | GFits => fits st off
  | GIncomplete => True
  | GOob _ => False
  | GOverflow => False
  end.
Proof.
  intros Hoff Hsz. unfold guard_new.
  assert (Hfo : first_oob (s_buf st) (reads_next_ev_size (view st off) (s_size st - off)) = None).
  { apply first_oob_none. intros p Hp. unfold reads_next_ev_size in Hp.
    unfold c_sizeof_struct_ovni_ev_header, c_sizeof_uint32_t in Hp. unfold s_size in *.
    destruct (blen (s_buf st) - off <? 12) eqn:E12; [contradiction|].
    apply in_app_or in Hp. destruct Hp as [Hp|Hp].
    - apply in_span in Hp. cbn [view eoff] in Hp. unfold pre_off_flags in Hp. unfold in_buf. lia.
    - destruct (has_jumbo_flag (view st off)); [|contradiction].
      destruct (blen (s_buf st) - off <? 12 + 4) eqn:E16; [contradiction|].
      apply in_span in Hp. cbn [view eoff] in Hp. unfold pre_off_jumbo_size in Hp. unfold in_buf. lia. }
  rewrite Hfo. unfold fits.
  destruct (ev_size_checked (view st off) (s_size st - off) <? 0) eqn:E; [exact I|lia].
Qed.

Lemma clock_inside st off : fits st off -> 0 <= off ->
  first_oob (s_buf st) (reads_clock (view st off)) = None.
Proof.
  intros Hf Hoff. unfold fits in Hf.
  destruct (ev_size_checked_ok _ _ _ eq_refl Hf) as (H12 & _).
  apply first_oob_none. intros p Hp. unfold reads_clock in Hp. apply in_span in Hp.
  cbn [view eoff] in Hp. unfold pre_off_clock in Hp. unfold in_buf, s_size in *. lia.
Qed.

Lemma ev_size_reads_inside st off : fits st off -> 0 <= off ->
  first_oob (s_buf st) (reads_ovni_ev_size (view st off)) = None.
Proof.
  intros Hf Hoff. unfold fits in Hf.
  destruct (ev_size_checked_ok _ _ _ eq_refl Hf) as (H12 & _ & _ & _ & Hj).
  apply first_oob_none. intros p Hp. unfold reads_ovni_ev_size in Hp.
  apply in_app_or in Hp. destruct Hp as [Hp|Hp].
  - apply in_span in Hp. cbn [view eoff] in Hp. unfold pre_off_flags in Hp. unfold in_buf, s_size in *. lia.
  - destruct (has_jumbo_flag (view st off)); [|contradiction]. specialize (Hj eq_refl).
    apply in_span in Hp. cbn [view eoff] in Hp. unfold pre_off_jumbo_size in Hp. unfold in_buf, s_size in *. lia.
Qed.

(* second half of stream_step: the event at off is examined *)
Lemma examine_inside st off :
  0 <= off < s_size st -> 8 <= off -> s_size st < 2 ^ 63 -> s_active st = true ->
  match
    (let ev := view st off in
     let left := cast_int64 (s_size st - off) in
     match guard_new (s_buf st) ev left with
     | GOob p => ROob p
     | GOverflow => RSOverflow
     | GIncomplete => RErr EIncomplete
     | GFits =>
       match first_oob (s_buf st) (reads_clock ev) with
       | Some p => ROob p
       | None =>
         let clock := cast_int64 (get_header_clock ev) in
         if negb (s_unsorted st) && (clock <? s_lastclock st) then RErr EClockBackwards
         else ROk (mk_stream (s_buf st) (s_junk st) off true true clock (s_unsorted st))
       end
     end)
  with
  | ROk st' => inv st' /\ s_cur st' = true /\ same_file st st' /\ s_offset st' = off /\
               s_lastclock st' = cast_int64 (get_header_clock (view st off)) /\
               (s_unsorted st = false -> s_lastclock st <= s_lastclock st')
  | REnd _ => False
  | RErr e => e = EIncomplete \/ e = EClockBackwards
  | ROob _ => False
  | RSOverflow => False
  end.
Proof.
  intros Hoff H8 Hsz Hact. cbv zeta.
  rewrite cast_int64_small by (unfold s_size in *; lia).
  pose proof (guard_new_inside st off Hoff Hsz) as Hg.
  destruct (guard_new (s_buf st) (view st off) (s_size st - off)); try contradiction.
  - rewrite (clock_inside st off Hg) by lia.
    destruct (negb (s_unsorted st) && (cast_int64 (get_header_clock (view st off)) <? s_lastclock st)) eqn:Ec.
    + right. reflexivity.
    + unfold inv, same_file, fits, s_size, view in *.
      cbn [s_active s_offset s_cur s_buf s_junk s_unsorted s_lastclock] in *.
      repeat split; try lia; try reflexivity.
      all: intros Hu; rewrite Hu in Ec; cbn [negb andb] in Ec; lia.
  - left. reflexivity.
Qed.

Lemma step_inv st :
  inv st -> s_size st < 2 ^ 63 ->
  match stream_step st with
  | ROk st' => inv st' /\ s_cur st' = true /\ same_file st st' /\
               (s_cur st = true -> s_offset st' = s_offset st + ovni_ev_size (view st (s_offset st)) /\
                                   s_offset st + 12 <= s_offset st') /\
               (s_cur st = false -> s_offset st' = s_offset st) /\
               s_lastclock st' = cast_int64 (get_header_clock (view st (s_offset st'))) /\
               (s_unsorted st = false -> s_lastclock st <= s_lastclock st')
  | REnd _ => s_cur st = true /\ s_offset st + ovni_ev_size (view st (s_offset st)) = s_size st
  | RErr e => e = EIncomplete \/ e = EClockBackwards
  | ROob _ => False
  | RSOverflow => False
  end.
Proof.
  intros (Hact & Hoff & Hfit) Hsz.
  unfold stream_step, step_with. rewrite Hact. cbn [negb]. unfold advance.
  destruct (s_cur st) eqn:Ecur.
  - specialize (Hfit eq_refl).
    rewrite (ev_size_reads_inside st _ Hfit) by lia.
    destruct (ev_size_checked_ok _ _ _ eq_refl Hfit) as (H12 & Hmax & Hsize & Hint & _).
    rewrite Hint. cbn [negb].
    set (sz := ovni_ev_size (view st (s_offset st))) in *.
    rewrite cast_int64_small by (unfold s_size in *; lia).
    destruct (s_offset st + sz >? s_size st) eqn:Egt; [lia|].
    destruct (s_offset st + sz =? s_size st) eqn:Eeq.
    + split; [reflexivity|lia].
    + pose proof (examine_inside st (s_offset st + sz) ltac:(lia) ltac:(lia) Hsz Hact) as Hex.
      cbv zeta in Hex.
      destruct (guard_new (s_buf st) (view st (s_offset st + sz)) (cast_int64 (s_size st - (s_offset st + sz)))); try contradiction; try exact Hex.
      destruct (first_oob (s_buf st) (reads_clock (view st (s_offset st + sz)))); try contradiction.
      destruct (negb (s_unsorted st) && (cast_int64 (get_header_clock (view st (s_offset st + sz))) <? s_lastclock st)); [exact Hex|].
      destruct Hex as (Hi & Hc & Hs & Ho & Hl & Hm).
      split; [exact Hi|]. split; [exact Hc|]. split; [exact Hs|].
      split; [intros _; cbn [s_offset] in *; lia|]. split; [intros; discriminate|].
      split; [cbn [s_offset] in *; exact Hl|exact Hm].
  - pose proof (examine_inside st (s_offset st) ltac:(lia) ltac:(lia) Hsz Hact) as Hex.
    cbv zeta in Hex.
    destruct (guard_new (s_buf st) (view st (s_offset st)) (cast_int64 (s_size st - s_offset st))); try contradiction; try exact Hex.
    destruct (first_oob (s_buf st) (reads_clock (view st (s_offset st)))); try contradiction.
    destruct (negb (s_unsorted st) && (cast_int64 (get_header_clock (view st (s_offset st))) <? s_lastclock st)); [exact Hex|].
    destruct Hex as (Hi & Hc & Hs & Ho & Hl & Hm).
    split; [exact Hi|]. split; [exact Hc|]. split; [exact Hs|].
    split; [intros; discriminate|]. split; [intros _; exact Ho|].
    split; [cbn [s_offset] in *; exact Hl|exact Hm].
Qed.

(* ------------------------------------------------------------------ *)
(* the walk terminates with End or Err, for every byte string           *)

Definition measure (st : stream) : nat :=
  (Z.to_nat (s_size st - s_offset st) + (if s_cur st then 0 else 1))%nat.

Definition clean (v : verdict) : Prop :=
  match v with VEnd | VErr _ => True | _ => False end.

Lemma same_file_size st st' : same_file st st' -> s_size st' = s_size st.
Proof. intros (Hb & _). unfold s_size. rewrite Hb. reflexivity. Qed.

Lemma walk_total : forall fuel st,
  inv st -> s_size st < 2 ^ 63 -> (measure st < fuel)%nat ->
  clean (fst (walk stream_step fuel st)).
Proof.
  induction fuel as [|f IH]; intros st Hinv Hsz Hm; [lia|].
  cbn [walk]. pose proof (step_inv st Hinv Hsz) as Hs. fold stream_step.
  destruct (stream_step st) as [st'| |e| |]; try contradiction; try exact I.
  destruct Hs as (Hinv' & Hcur' & Hsame & Hadv & Hstay & _).
  assert (Hnp : s_cur st && (s_offset st' <=? s_offset st) = false).
  { destruct (s_cur st) eqn:E; [|reflexivity]. destruct (Hadv eq_refl). cbn [andb]. lia. }
  rewrite Hnp.
  assert (Hm' : (measure st' < f)%nat).
  { unfold measure in *. rewrite (same_file_size _ _ Hsame), Hcur'.
    destruct Hinv as (_ & Ho & _). destruct Hinv' as (_ & Ho' & _). rewrite (same_file_size _ _ Hsame) in Ho'.
    destruct (s_cur st) eqn:E.
    - destruct (Hadv eq_refl). lia.
    - rewrite (Hstay eq_refl). lia. }
  specialize (IH st' Hinv' ltac:(rewrite (same_file_size _ _ Hsame); exact Hsz) Hm').
  destruct (walk stream_step f st') as [v evs]. exact IH.
Qed.

Lemma load_obs_inv bs junk u st :
  load_obs bs junk u = Loaded st ->
  s_buf st = bs /\ s_junk st = junk /\ s_unsorted st = u /\ s_cur st = false /\ s_offset st = 8 /\ s_lastclock st = 0 /\
  (s_active st = true -> inv st) /\ (s_active st = false -> blen bs = 8).
Proof.
  unfold load_obs. destruct (blen bs =? 0); [discriminate|].
  destruct (check_stream_header bs junk); [discriminate|].
  unfold c_sizeof_struct_ovni_stream_header.
  destruct (8 <? blen bs) eqn:E1.
  - intros H. inversion H; subst. cbn [s_buf s_junk s_unsorted s_cur s_offset s_lastclock s_active].
    do 6 (split; [reflexivity|]). split.
    + intros _. unfold inv, s_size. cbn [s_buf s_junk s_unsorted s_cur s_offset s_lastclock s_active].
      split; [reflexivity|]. split; [lia|discriminate].
    + discriminate.
  - destruct (8 =? blen bs) eqn:E2; [|discriminate].
    intros H. inversion H; subst. cbn [s_buf s_junk s_unsorted s_cur s_offset s_lastclock s_active].
    do 6 (split; [reflexivity|]). split; [discriminate|]. intros _. lia.
Qed.

(* C19, stream layer: whatever the bytes (and whatever lies outside them), loading and stepping
   a stream ends with End or an error within length+1 steps; no read leaves the buffer, no int
   arithmetic overflows, the cursor never stalls. *)
Theorem run_total bs junk u :
  blen bs < 2 ^ 63 ->
  match run bs junk u with
  | RunLoadErr _ => True
  | Run v _ => clean v
  end.
Proof.
  intros Hsz. unfold run, run_with.
  destruct (load_obs bs junk u) as [e|st] eqn:El; [exact I|].
  destruct (load_obs_inv _ _ _ _ El) as (Hb & _ & _ & Hc & Ho & _ & Hi & _).
  destruct (s_active st) eqn:Ea; [|exact I].
  pose proof (walk_total (S (length bs)) st (Hi eq_refl)) as Hw.
  unfold s_size in Hw. rewrite Hb in Hw. specialize (Hw Hsz).
  assert (Hm : (measure st < S (length bs))%nat).
  { destruct (Hi eq_refl) as (_ & Hlt & _). unfold measure, s_size in *. rewrite Hb, Hc, Ho in *. unfold blen in *. lia. }
  specialize (Hw Hm). destruct (walk stream_step (S (length bs)) st). exact Hw.
Qed.

(* every Ok step moves the cursor strictly forward (by the size of the event it leaves behind) *)
Theorem step_advances st st' :
  inv st -> s_size st < 2 ^ 63 -> stream_step st = ROk st' -> s_cur st = true ->
  s_offset st < s_offset st' /\ s_offset st' = s_offset st + ovni_ev_size (view st (s_offset st)).
Proof.
  intros Hi Hsz Hs Hc. pose proof (step_inv st Hi Hsz) as H. rewrite Hs in H.
  destruct H as (_ & _ & _ & Hadv & _). destruct (Hadv Hc). lia.
Qed.

(* a single step from a state of the walk never reads outside the buffer nor overflows *)
Theorem step_safe st :
  inv st -> s_size st < 2 ^ 63 ->
  (forall p, stream_step st <> ROob p) /\ stream_step st <> RSOverflow.
Proof.
  intros Hi Hsz. pose proof (step_inv st Hi Hsz) as H.
  split; [intros p Hp|intros Hp]; rewrite Hp in H; exact H.
Qed.

(* ------------------------------------------------------------------ *)
(* the hand-written read footprints cover what the translated functions read:
   two views that agree on the footprint give the same result            *)

Lemma rd_le_agree bs j1 j2 i n :
  (forall q, In q (span i n) -> in_buf bs q = true) -> rd_le bs j1 i n = rd_le bs j2 i n.
Proof.
  intros H. apply rd_le_in_buf. intros k Hk. apply H. apply in_span. lia.
Qed.

Lemma flags_agree bs off j1 j2 :
  in_buf bs off = true -> get_header_flags (mk_evp bs off j1) = get_header_flags (mk_evp bs off j2).
Proof.
  intros H. unfold get_header_flags, ev_rd, pre_off_flags. cbn [ebuf eoff ejunk].
  apply rd_in_buf. replace (off + 0) with off by lia. exact H.
Qed.

Lemma jumbo_size_agree bs off j1 j2 :
  (forall q, In q (span (off + 12) 4) -> in_buf bs q = true) ->
  get_payload_jumbo_size (mk_evp bs off j1) = get_payload_jumbo_size (mk_evp bs off j2).
Proof.
  intros H. unfold get_payload_jumbo_size, ev_rd_le, pre_off_jumbo_size. cbn [ebuf eoff ejunk].
  apply rd_le_agree. exact H.
Qed.

Lemma reads_ovni_ev_size_sound bs off j1 j2 :
  first_oob bs (reads_ovni_ev_size (mk_evp bs off j1)) = None ->
  ovni_ev_size (mk_evp bs off j1) = ovni_ev_size (mk_evp bs off j2).
Proof.
  intros H. rewrite first_oob_none in H. unfold reads_ovni_ev_size in H. cbn [eoff] in H.
  assert (Hf : in_buf bs off = true).
  { apply H. apply in_or_app. left. apply in_span. unfold pre_off_flags. lia. }
  pose proof (flags_agree bs off j1 j2 Hf) as Hfl.
  unfold ovni_ev_size, ovni_payload_size, get_jumbo_payload_size. rewrite <- Hfl.
  unfold has_jumbo_flag in H.
  destruct (negb (Z.land (get_header_flags (mk_evp bs off j1)) c_OVNI_EV_JUMBO =? 0)) eqn:Ej; [|reflexivity].
  rewrite (jumbo_size_agree bs off j1 j2); [reflexivity|].
  intros q Hq. apply H. apply in_or_app. right. exact Hq.
Qed.

Lemma reads_next_ev_size_sound bs off j1 j2 left :
  first_oob bs (reads_next_ev_size (mk_evp bs off j1) left) = None ->
  next_ev_size (mk_evp bs off j1) left = next_ev_size (mk_evp bs off j2) left.
Proof.
  intros H. rewrite first_oob_none in H. unfold reads_next_ev_size in H. cbn [eoff] in H.
  rewrite (next_ev_size_eq (mk_evp bs off j1)), (next_ev_size_eq (mk_evp bs off j2)). unfold ev_size_checked.
  unfold c_sizeof_struct_ovni_ev_header, c_sizeof_uint32_t in H.
  destruct (left <? 12) eqn:E12; [reflexivity|].
  assert (Hf : in_buf bs off = true).
  { apply H. apply in_or_app. left. apply in_span. unfold pre_off_flags. lia. }
  pose proof (flags_agree bs off j1 j2 Hf) as Hfl.
  unfold has_jumbo_flag in *. rewrite <- Hfl.
  destruct (negb (Z.land (get_header_flags (mk_evp bs off j1)) c_OVNI_EV_JUMBO =? 0)) eqn:Ej.
  - change (12 + 4) with 16 in H. destruct (left <? 16) eqn:E16; [reflexivity|].
    rewrite (jumbo_size_agree bs off j1 j2); [reflexivity|].
    intros q Hq. apply H. apply in_or_app. right. exact Hq.
  - unfold ovni_payload_size. rewrite <- Hfl, Ej. reflexivity.
Qed.

(* ------------------------------------------------------------------ *)
(* bridge to the format specification (Emu/LoaderSpec.v)               *)

Lemma rd_sbyte bs junk i : in_buf bs i = true -> rd bs junk i = sbyte bs i.
Proof. intros H. unfold rd, sbyte. rewrite H. reflexivity. Qed.

Lemma rd_le_sle bs junk n : forall i,
  0 <= i -> i + Z.of_nat n <= blen bs -> rd_le bs junk i n = sle bs i n.
Proof.
  induction n as [|n IH]; intros i H0 H1; [reflexivity|].
  cbn [rd_le sle]. rewrite rd_sbyte by (unfold in_buf; lia). rewrite IH by lia. reflexivity.
Qed.

Lemma spec_ev_size_model bs junk off :
  0 <= off < blen bs ->
  spec_ev_size bs off =
  (let r := ev_size_checked (mk_evp bs off junk) (blen bs - off) in if r <? 0 then None else Some r).
Proof.
  intros Hoff. unfold spec_ev_size, ev_size_checked. cbv zeta.
  change (slen bs) with (blen bs).
  destruct (blen bs - off <? 12) eqn:E12; [reflexivity|].
  assert (Hfl : get_header_flags (mk_evp bs off junk) = sbyte bs off).
  { unfold get_header_flags, ev_rd, pre_off_flags. cbn [ebuf eoff ejunk].
    replace (off + 0) with off by lia. apply rd_sbyte. unfold in_buf. lia. }
  pose proof (flags_range (mk_evp bs off junk)) as Hfr.
  destruct (sweep_facts _ Hfr) as (Hbit & Hmod & Hnj).
  unfold has_jumbo_flag. unfold c_OVNI_EV_JUMBO. rewrite Hbit, Hfl.
  destruct (Z.testbit (sbyte bs off) 4) eqn:Ej.
  - destruct (blen bs - off <? 16) eqn:E16; [reflexivity|].
    assert (Hjs : get_payload_jumbo_size (mk_evp bs off junk) = sle bs (off + 12) 4).
    { unfold get_payload_jumbo_size, ev_rd_le, pre_off_jumbo_size. cbn [ebuf eoff ejunk].
      apply rd_le_sle; lia. }
    rewrite Hjs. pose proof (jumbo_size_range (mk_evp bs off junk)) as Hr. rewrite Hjs in Hr.
    unfold C_INT_MAX.
    destruct (16 + sle bs (off + 12) 4 >? 2147483647) eqn:Em.
    + replace ((16 + sle bs (off + 12) 4 <=? blen bs - off) && (16 + sle bs (off + 12) 4 <=? 2147483647)) with false by lia.
      reflexivity.
    + destruct (blen bs - off <? 16 + sle bs (off + 12) 4) eqn:El.
      * replace ((16 + sle bs (off + 12) 4 <=? blen bs - off) && (16 + sle bs (off + 12) 4 <=? 2147483647)) with false by lia.
        reflexivity.
      * replace ((16 + sle bs (off + 12) 4 <=? blen bs - off) && (16 + sle bs (off + 12) 4 <=? 2147483647)) with true by lia.
        destruct (16 + sle bs (off + 12) 4 <? 0) eqn:En; [lia|reflexivity].
  - assert (Hps : ovni_payload_size (mk_evp bs off junk) = (if sbyte bs off mod 16 =? 0 then 0 else sbyte bs off mod 16 + 1)).
    { rewrite payload_size_nonjumbo.
      - unfold nj_size. rewrite Hmod, Hfl. reflexivity.
      - unfold has_jumbo_flag, c_OVNI_EV_JUMBO. rewrite Hbit, Hfl. exact Ej. }
    rewrite Hps. rewrite <- Hfl, <- Hmod in *. fold (nj_size (get_header_flags (mk_evp bs off junk))) in *.
    set (n := nj_size (get_header_flags (mk_evp bs off junk))) in *.
    destruct (blen bs - off <? 12 + n) eqn:El.
    + replace (12 + n <=? blen bs - off) with false by lia. reflexivity.
    + replace (12 + n <=? blen bs - off) with true by lia.
      destruct (12 + n <? 0) eqn:En; [lia|reflexivity].
Qed.

Lemma spec_clock_model bs junk off :
  0 <= off -> off + 12 <= blen bs ->
  spec_clock bs off = cast_int64 (get_header_clock (mk_evp bs off junk)).
Proof.
  intros H0 H1. unfold spec_clock, get_header_clock, ev_rd_le, pre_off_clock. cbn [ebuf eoff ejunk].
  rewrite rd_le_sle by lia.
  pose proof (rd_le_range bs junk 8 (off + 4)) as Hr. rewrite rd_le_sle in Hr by lia.
  change (256 ^ Z.of_nat 8) with (2 ^ 64) in Hr.
  unfold cast_int64, wraps. change (64 - 1) with 63.
  rewrite Z.mod_small by lia. reflexivity.
Qed.

(* ------------------------------------------------------------------ *)
(* stream_step refines the format specification: exact equation          *)

Lemma next_reads_inside st off :
  0 <= off < s_size st ->
  first_oob (s_buf st) (reads_next_ev_size (view st off) (s_size st - off)) = None.
Proof.
  intros Hoff. apply first_oob_none. intros p Hp. unfold reads_next_ev_size in Hp.
  unfold c_sizeof_struct_ovni_ev_header, c_sizeof_uint32_t in Hp. unfold s_size in *.
  destruct (blen (s_buf st) - off <? 12) eqn:E12; [contradiction|].
  apply in_app_or in Hp. destruct Hp as [Hp|Hp].
  - apply in_span in Hp. cbn [view eoff] in Hp. unfold pre_off_flags in Hp. unfold in_buf. lia.
  - destruct (has_jumbo_flag (view st off)); [|contradiction].
    destruct (blen (s_buf st) - off <? 12 + 4) eqn:E16; [contradiction|].
    apply in_span in Hp. cbn [view eoff] in Hp. unfold pre_off_jumbo_size in Hp. unfold in_buf. lia.
Qed.

(* where the cursor goes next *)
Definition next_pos (st : stream) : Z :=
  if s_cur st then s_offset st + ovni_ev_size (view st (s_offset st)) else s_offset st.

Definition spec_step (st : stream) : step_res :=
  let p := next_pos st in
  if s_cur st && (p =? s_size st)
  then REnd (mk_stream (s_buf st) (s_junk st) p false false (s_lastclock st) (s_unsorted st))
  else match spec_ev_size (s_buf st) p with
       | None => RErr EIncomplete
       | Some _ =>
         let c := spec_clock (s_buf st) p in
         if negb (s_unsorted st) && (c <? s_lastclock st) then RErr EClockBackwards
         else ROk (mk_stream (s_buf st) (s_junk st) p true true c (s_unsorted st))
       end.

Lemma examine_exact st p :
  8 <= p < s_size st -> s_size st < 2 ^ 63 ->
  (let ev := view st p in
   let left := cast_int64 (s_size st - p) in
   match guard_new (s_buf st) ev left with
   | GOob q => ROob q
   | GOverflow => RSOverflow
   | GIncomplete => RErr EIncomplete
   | GFits =>
     match first_oob (s_buf st) (reads_clock ev) with
     | Some q => ROob q
     | None =>
       let clock := cast_int64 (get_header_clock ev) in
       if negb (s_unsorted st) && (clock <? s_lastclock st) then RErr EClockBackwards
       else ROk (mk_stream (s_buf st) (s_junk st) p true true clock (s_unsorted st))
     end
   end) =
  match spec_ev_size (s_buf st) p with
  | None => RErr EIncomplete
  | Some _ =>
    let c := spec_clock (s_buf st) p in
    if negb (s_unsorted st) && (c <? s_lastclock st) then RErr EClockBackwards
    else ROk (mk_stream (s_buf st) (s_junk st) p true true c (s_unsorted st))
  end.
Proof.
  intros Hp Hsz. cbv zeta.
  rewrite cast_int64_small by (unfold s_size in *; lia).
  unfold guard_new. rewrite (next_reads_inside st p) by lia.
  rewrite (spec_ev_size_model (s_buf st) (s_junk st) p) by (unfold s_size in *; lia).
  cbv zeta. change (mk_evp (s_buf st) p (s_junk st)) with (view st p). fold (s_size st).
  destruct (ev_size_checked (view st p) (s_size st - p) <? 0) eqn:E; [reflexivity|].
  assert (Hf : fits st p) by (unfold fits; lia).
  rewrite (clock_inside st p Hf) by lia.
  destruct (ev_size_checked_ok _ _ _ eq_refl Hf) as (H12 & _).
  rewrite (spec_clock_model (s_buf st) (s_junk st) p) by (unfold s_size in *; lia).
  reflexivity.
Qed.

Theorem step_exact st :
  inv st -> s_size st < 2 ^ 63 -> stream_step st = spec_step st.
Proof.
  intros (Hact & Hoff & Hfit) Hsz.
  unfold stream_step, step_with, spec_step, next_pos. rewrite Hact. cbn [negb]. unfold advance.
  destruct (s_cur st) eqn:Ecur.
  - specialize (Hfit eq_refl).
    rewrite (ev_size_reads_inside st _ Hfit) by lia.
    destruct (ev_size_checked_ok _ _ _ eq_refl Hfit) as (H12 & Hmax & Hsize & Hint & _).
    rewrite Hint. cbn [negb andb].
    set (sz := ovni_ev_size (view st (s_offset st))) in *.
    rewrite cast_int64_small by (unfold s_size in *; lia).
    destruct (s_offset st + sz >? s_size st) eqn:Egt; [lia|].
    destruct (s_offset st + sz =? s_size st) eqn:Eeq; [reflexivity|].
    apply examine_exact; lia.
  - cbn [andb]. apply examine_exact; lia.
Qed.

Lemma spec_step_inv st st' :
  inv st -> s_size st < 2 ^ 63 -> spec_step st = ROk st' ->
  inv st' /\ same_file st st' /\ s_cur st' = true /\ s_offset st' = next_pos st /\
  s_lastclock st' = spec_clock (s_buf st) (next_pos st).
Proof.
  intros Hi Hsz Hs. pose proof (step_inv st Hi Hsz) as H. rewrite (step_exact st Hi Hsz), Hs in H.
  destruct H as (Hi' & Hc' & Hsame & _).
  unfold spec_step in Hs.
  destruct (s_cur st && (next_pos st =? s_size st)); [discriminate|].
  destruct (spec_ev_size (s_buf st) (next_pos st)); [|discriminate].
  cbv zeta in Hs.
  destruct (negb (s_unsorted st) && (spec_clock (s_buf st) (next_pos st) <? s_lastclock st)); [discriminate|].
  inversion Hs; subst st'. cbn [s_offset s_lastclock s_cur] in *.
  split; [exact Hi'|]. split; [exact Hsame|]. split; [reflexivity|]. split; reflexivity.
Qed.

Lemma view_same st st' o : same_file st st' -> view st' o = view st o.
Proof. intros (Hb & Hj & _). unfold view. rewrite Hb, Hj. reflexivity. Qed.

Lemma inv_next_pos st :
  inv st -> s_cur st = true ->
  spec_ev_size (s_buf st) (s_offset st) = Some (ovni_ev_size (view st (s_offset st))) /\
  s_offset st + 12 <= next_pos st <= s_size st.
Proof.
  intros (Hact & Hoff & Hfit) Hc. specialize (Hfit Hc).
  destruct (ev_size_checked_ok _ _ _ eq_refl Hfit) as (H12 & Hmax & Hsize & Hint & _).
  rewrite (spec_ev_size_model (s_buf st) (s_junk st)) by (unfold s_size in *; lia).
  cbv zeta. change (mk_evp (s_buf st) (s_offset st) (s_junk st)) with (view st (s_offset st)).
  fold (s_size st). unfold fits in Hfit.
  destruct (ev_size_checked (view st (s_offset st)) (s_size st - s_offset st) <? 0) eqn:E; [lia|].
  rewrite Hsize. split; [reflexivity|]. unfold next_pos. rewrite Hc, Hsize. lia.
Qed.

(* soundness of acceptance: if the walk ends with End, the bytes from the cursor on are exactly
   the delivered events, back to back up to the end of the file, clocks in order *)
Lemma walk_sound : forall fuel st evs,
  inv st -> s_size st < 2 ^ 63 ->
  walk stream_step fuel st = (VEnd, evs) ->
  tiles_from (s_buf st) (negb (s_unsorted st)) (next_pos st) (s_lastclock st) evs.
Proof.
  induction fuel as [|f IH]; intros st evs Hi Hsz Hw; [discriminate|].
  cbn [walk] in Hw. fold stream_step in Hw. rewrite (step_exact st Hi Hsz) in Hw.
  destruct (spec_step st) as [st'|st'|e|q|] eqn:Es; try (inversion Hw; fail).
  - destruct (spec_step_inv st st' Hi Hsz Es) as (Hi' & Hsame & Hc' & Ho' & Hl').
    destruct (s_cur st && (s_offset st' <=? s_offset st)); [discriminate|].
    destruct (walk stream_step f st') as [v evs'] eqn:Ew. inversion Hw; subst v evs. clear Hw.
    specialize (IH st' evs' Hi' ltac:(rewrite (same_file_size _ _ Hsame); exact Hsz) Ew).
    destruct Hsame as (Hb & Hj & Hu). rewrite Hb, Hu in IH.
    destruct (inv_next_pos st' Hi' Hc') as (Hspec & Hrange).
    rewrite Hb in Hspec.
    assert (Hnp : next_pos st' = s_offset st' + ovni_ev_size (view st' (s_offset st'))).
    { unfold next_pos. rewrite Hc'. reflexivity. }
    rewrite Hnp in IH. rewrite Hl' in *. rewrite Ho' in *.
    apply tiles_ev.
    + destruct Hi' as (_ & Hlt & _). unfold s_size in Hlt. rewrite Hb in Hlt. change (slen (s_buf st)) with (blen (s_buf st)). lia.
    + exact Hspec.
    + intros Hsorted. unfold spec_step in Es.
      destruct (s_cur st && (next_pos st =? s_size st)); [discriminate|].
      destruct (spec_ev_size (s_buf st) (next_pos st)); [|discriminate]. cbv zeta in Es.
      rewrite Hsorted in Es. cbn [andb] in Es.
      destruct (spec_clock (s_buf st) (next_pos st) <? s_lastclock st) eqn:Ec; [discriminate|]. lia.
    + exact IH.
  - inversion Hw; subst evs. unfold spec_step in Es.
    destruct (s_cur st && (next_pos st =? s_size st)) eqn:E.
    + apply andb_prop in E. destruct E as (_ & E). apply Z.eqb_eq in E. rewrite E. apply tiles_end.
    + destruct (spec_ev_size (s_buf st) (next_pos st)); [|discriminate]. cbv zeta in Es.
      destruct (negb (s_unsorted st) && (spec_clock (s_buf st) (next_pos st) <? s_lastclock st)); discriminate.
Qed.

(* completeness: a tiling of the rest of the file is walked to the End, delivering exactly it *)
Lemma walk_complete bs sorted : forall p last evs,
  tiles_from bs sorted p last evs ->
  forall fuel st, inv st -> s_size st < 2 ^ 63 ->
    s_buf st = bs -> negb (s_unsorted st) = sorted -> next_pos st = p -> s_lastclock st = last ->
    (length evs < fuel)%nat ->
    walk stream_step fuel st = (VEnd, evs).
Proof.
  induction 1 as [last|off last s evs Hlt Hspec Hsort Htl IH];
    intros fuel st Hi Hsz Hb Hu Hp Hl Hf.
  - destruct fuel as [|f]; [cbn in Hf; lia|].
    cbn [walk]. fold stream_step. rewrite (step_exact st Hi Hsz). unfold spec_step.
    rewrite Hp. unfold s_size. rewrite Hb. change (slen bs) with (blen bs).
    rewrite Z.eqb_refl.
    destruct (s_cur st) eqn:Ec; [reflexivity|].
    exfalso. destruct Hi as (_ & Ho & _). unfold next_pos in Hp. rewrite Ec in Hp.
    unfold s_size in Ho. rewrite Hb in Ho. change (slen bs) with (blen bs) in Hp. lia.
  - destruct fuel as [|f]; [cbn in Hf; lia|].
    cbn [walk]. fold stream_step. rewrite (step_exact st Hi Hsz).
    destruct (spec_step st) as [st'|st'|e|q|] eqn:Es.
    + destruct (spec_step_inv st st' Hi Hsz Es) as (Hi' & Hsame & Hc' & Ho' & Hl').
      rewrite Hp in Ho'. rewrite Hb, Hp in Hl'.
      assert (Hnp : s_cur st && (s_offset st' <=? s_offset st) = false).
      { destruct (s_cur st) eqn:Ec; [|reflexivity]. cbn [andb].
        destruct (inv_next_pos st Hi Ec) as (_ & Hr). lia. }
      rewrite Hnp.
      destruct (inv_next_pos st' Hi' Hc') as (Hspec' & _).
      destruct Hsame as (Hb' & Hj' & Hu').
      rewrite Hb', Hb, Ho', Hspec in Hspec'. inversion Hspec' as [Hs].
      rewrite (IH f st'); try assumption.
      * rewrite Ho', Hl', <- Hs. reflexivity.
      * unfold s_size in *. rewrite Hb'. exact Hsz.
      * congruence.
      * rewrite Hu'. exact Hu.
      * unfold next_pos. rewrite Hc', Ho', <- Hs. reflexivity.
      * cbn [length] in Hf. lia.
    + exfalso. unfold spec_step in Es. rewrite Hp in Es.
      destruct (s_cur st && (off =? s_size st)) eqn:E.
      * apply andb_prop in E. destruct E as (_ & E). unfold s_size in E. rewrite Hb in E.
        change (slen bs) with (blen bs) in Hlt. lia.
      * rewrite Hb, Hspec in Es. cbv zeta in Es.
        destruct (negb (s_unsorted st) && (spec_clock bs off <? s_lastclock st)); discriminate.
    + exfalso. unfold spec_step in Es. rewrite Hp in Es.
      destruct (s_cur st && (off =? s_size st)) eqn:E; [discriminate|].
      rewrite Hb, Hspec in Es. cbv zeta in Es. rewrite Hu, Hl in Es.
      destruct sorted.
      * specialize (Hsort eq_refl). cbn [andb] in Es.
        destruct (spec_clock bs off <? last) eqn:Ec; [lia|discriminate].
      * cbn [andb] in Es. discriminate.
    + exfalso. unfold spec_step in Es.
      destruct (s_cur st && (next_pos st =? s_size st)); [discriminate|].
      destruct (spec_ev_size (s_buf st) (next_pos st)); [|discriminate]. cbv zeta in Es.
      destruct (negb (s_unsorted st) && (spec_clock (s_buf st) (next_pos st) <? s_lastclock st)); discriminate.
    + exfalso. unfold spec_step in Es.
      destruct (s_cur st && (next_pos st =? s_size st)); [discriminate|].
      destruct (spec_ev_size (s_buf st) (next_pos st)); [|discriminate]. cbv zeta in Es.
      destruct (negb (s_unsorted st) && (spec_clock (s_buf st) (next_pos st) <? s_lastclock st)); discriminate.
Qed.

(* events are at least 12 bytes: a tiling of n bytes has at most n/12 events *)
Lemma spec_ev_size_min bs off s : spec_ev_size bs off = Some s -> 12 <= s <= slen bs - off.
Proof.
  unfold spec_ev_size. cbv zeta.
  destruct (slen bs - off <? 12) eqn:E12; [discriminate|].
  destruct (Z.testbit (sbyte bs off) 4).
  - destruct (slen bs - off <? 16) eqn:E16; [discriminate|].
    assert (0 <= sle bs (off + 12) 4).
    { clear. generalize (off + 12). generalize 4%nat. induction n as [|n IH]; intros i; cbn [sle]; [lia|].
      specialize (IH (i + 1)). unfold sbyte. pose proof (Z.mod_pos_bound (nth (Z.to_nat i) bs 0) 256 ltac:(lia)). lia. }
    destruct ((16 + sle bs (off + 12) 4 <=? slen bs - off) && (16 + sle bs (off + 12) 4 <=? 2147483647)) eqn:E; [|discriminate].
    apply andb_prop in E. destruct E as (Ea & Eb). apply Z.leb_le in Ea.
    intros Hq. assert (Hs : s = 16 + sle bs (off + 12) 4) by congruence. lia.
  - assert (0 <= sbyte bs off mod 16 < 16) by (apply Z.mod_pos_bound; lia).
    destruct (sbyte bs off mod 16 =? 0) eqn:E0.
    + destruct (12 + 0 <=? slen bs - off) eqn:E; [|discriminate]. intros Hq. assert (Hs : s = 12 + 0) by congruence. lia.
    + destruct (12 + (sbyte bs off mod 16 + 1) <=? slen bs - off) eqn:E; [|discriminate].
      intros Hq. assert (Hs : s = 12 + (sbyte bs off mod 16 + 1)) by congruence. lia.
Qed.

Lemma tiles_count bs sorted p last evs :
  tiles_from bs sorted p last evs -> p <= slen bs /\ 12 * Z.of_nat (length evs) <= slen bs - p.
Proof.
  induction 1 as [last|off last s evs Hlt Hspec Hsort Htl IH].
  - cbn. lia.
  - apply spec_ev_size_min in Hspec. cbn [length]. lia.
Qed.

Lemma tiles_deterministic bs s1 s2 : forall p l1 l2 e1 e2,
  tiles_from bs s1 p l1 e1 -> tiles_from bs s2 p l2 e2 -> e1 = e2.
Proof.
  intros p l1 l2 e1 e2 H1. revert l2 e2.
  induction H1 as [last|off last s evs Hlt Hspec Hsort Htl IH]; intros l2 e2 H2.
  - inversion H2; subst; [reflexivity|lia].
  - inversion H2; subst; [lia|].
    assert (s0 = s) by congruence. subst s0. f_equal. eapply IH. eassumption.
Qed.

Lemma tiles_weaken bs p last evs : tiles_from bs true p last evs -> forall l', tiles_from bs false p l' evs.
Proof.
  induction 1 as [last|off last s evs Hlt Hspec Hsort Htl IH]; intros l'.
  - apply tiles_end.
  - apply tiles_ev; try assumption; [discriminate|apply IH].
Qed.

(* header *)
Lemma header_model bs junk :
  check_stream_header bs junk = None <-> spec_header_ok bs = true.
Proof.
  unfold check_stream_header, spec_header_ok, c_sizeof_struct_ovni_stream_header. change (slen bs) with (blen bs).
  destruct (blen bs <? 8) eqn:E8.
  - replace (8 <=? blen bs) with false by lia. cbn [andb]. split; discriminate.
  - replace (8 <=? blen bs) with true by lia. cbn [andb].
    unfold magic_of, c_OVNI_STREAM_MAGIC, c_OVNI_STREAM_VERSION, pre_off_magic, pre_off_version, list_eqb.
    cbn [seq map length combine forallb fst snd Nat.eqb andb Z.of_nat Pos.of_succ_nat Pos.succ].
    rewrite !rd_sbyte by (unfold in_buf; lia). rewrite rd_le_sle by (cbn; lia).
    change (0 + 0) with 0. change (0 + 1) with 1. change (0 + 2) with 2. change (0 + 3) with 3.
    destruct (sbyte bs 0 =? 111), (sbyte bs 1 =? 118), (sbyte bs 2 =? 110), (sbyte bs 3 =? 105), (sle bs 4 4 =? 1);
      cbn; split; (reflexivity || discriminate).
Qed.

(* C12: acceptance is exactly structural validity *)
Theorem run_accept_iff bs junk u evs :
  blen bs < 2 ^ 63 ->
  (run bs junk u = Run VEnd evs <-> valid_obs bs (negb u) evs).
Proof.
  intros Hsz. unfold run, run_with, valid_obs. split.
  - destruct (load_obs bs junk u) as [e|st] eqn:El; [discriminate|].
    destruct (load_obs_inv _ _ _ _ El) as (Hb & Hj & Hu & Hc & Ho & Hl & Hi & Hin).
    assert (Hh : spec_header_ok bs = true).
    { apply (header_model bs junk). unfold load_obs in El. destruct (blen bs =? 0); [discriminate|].
      destruct (check_stream_header bs junk); [discriminate|reflexivity]. }
    destruct (s_active st) eqn:Ea.
    + destruct (walk stream_step (S (length bs)) st) as [v evs'] eqn:Ew. intros H. inversion H; subst v evs'.
      split; [exact Hh|].
      pose proof (walk_sound _ st evs (Hi eq_refl) ltac:(unfold s_size; rewrite Hb; exact Hsz) Ew) as Ht.
      unfold next_pos in Ht. rewrite Hb, Hu, Hc, Ho, Hl in Ht. exact Ht.
    + intros H. inversion H; subst evs. split; [exact Hh|].
      specialize (Hin eq_refl). replace 8 with (slen bs) by (change (slen bs) with (blen bs); lia). apply tiles_end.
  - intros (Hh & Ht).
    assert (Hc : check_stream_header bs junk = None) by (apply header_model; exact Hh).
    assert (H8 : 8 <= blen bs).
    { unfold spec_header_ok in Hh. change (slen bs) with (blen bs) in Hh. lia. }
    unfold load_obs. rewrite Hc. destruct (blen bs =? 0) eqn:E0; [lia|].
    unfold c_sizeof_struct_ovni_stream_header.
    destruct (8 <? blen bs) eqn:E1.
    + cbn [s_active].
      rewrite (walk_complete bs (negb u) 8 0 evs Ht (S (length bs)) (mk_stream bs junk 8 false true 0 u)); try reflexivity.
      * unfold inv, s_size. cbn [s_active s_offset s_cur s_buf]. split; [reflexivity|]. split; [lia|discriminate].
      * unfold s_size. cbn [s_buf]. exact Hsz.
      * destruct (tiles_count _ _ _ _ _ Ht) as (_ & Hn). change (slen bs) with (blen bs) in Hn. unfold blen in *. lia.
    + replace (8 =? blen bs) with true by lia. cbn [s_active].
      inversion Ht; subst; [reflexivity|]. change (slen bs) with (blen bs) in *. lia.
Qed.

(* C12, structural classes in one statement: a stream file that is not structurally valid is
   rejected with an error (never End, and by run_total nothing else) *)
Theorem invalid_rejected bs junk u :
  blen bs < 2 ^ 63 ->
  (forall evs, ~ valid_obs bs (negb u) evs) ->
  rejected_cleanly (run bs junk u) = true.
Proof.
  intros Hsz Hn. pose proof (run_total bs junk u Hsz) as Ht.
  destruct (run bs junk u) as [e|v evs] eqn:Er; [reflexivity|].
  destruct v; try contradiction; [|reflexivity].
  exfalso. apply (Hn evs). apply (run_accept_iff bs junk u evs Hsz). exact Er.
Qed.

(* ------------------------------------------------------------------ *)
(* corollaries for the classes named in C12                             *)

Lemma short_rejected bs junk u : blen bs < 8 -> exists e, run bs junk u = RunLoadErr e.
Proof.
  intros H. unfold run, run_with, load_obs. destruct (blen bs =? 0); [eexists; reflexivity|].
  unfold check_stream_header, c_sizeof_struct_ovni_stream_header.
  replace (blen bs <? 8) with true by lia. eexists; reflexivity.
Qed.

Lemma bad_header_rejected bs junk u : spec_header_ok bs = false -> exists e, run bs junk u = RunLoadErr e.
Proof.
  intros H. unfold run, run_with, load_obs. destruct (blen bs =? 0); [eexists; reflexivity|].
  destruct (check_stream_header bs junk) as [e|] eqn:Ec; [eexists; reflexivity|].
  apply header_model in Ec. congruence.
Qed.

Lemma bad_magic_rejected bs junk u k :
  (k < 4)%nat -> sbyte bs (Z.of_nat k) <> nth k spec_magic 0 -> exists e, run bs junk u = RunLoadErr e.
Proof.
  intros Hk Hne. apply bad_header_rejected. unfold spec_header_ok.
  destruct k as [|[|[|[|k]]]]; try lia; cbn in Hne;
    [destruct (sbyte bs 0 =? 111) eqn:E|destruct (sbyte bs 1 =? 118) eqn:E|
     destruct (sbyte bs 2 =? 110) eqn:E|destruct (sbyte bs 3 =? 105) eqn:E]; try lia;
    rewrite ?andb_false_r; reflexivity.
Qed.

Lemma bad_version_rejected bs junk u :
  sle bs 4 4 <> 1 -> exists e, run bs junk u = RunLoadErr e.
Proof.
  intros Hne. apply bad_header_rejected. unfold spec_header_ok.
  destruct (sle bs 4 4 =? 1) eqn:E; [lia|]. rewrite ?andb_false_r. reflexivity.
Qed.

(* truncated trailing event / any file whose bytes after the header are not a sequence of whole events *)
Lemma not_tiling_rejected bs junk u :
  blen bs < 2 ^ 63 -> spec_header_ok bs = true ->
  (forall evs, ~ tiles_from bs false 8 0 evs) ->
  exists e evs, run bs junk u = Run (VErr e) evs.
Proof.
  intros Hsz Hh Hn.
  assert (Hinv : forall evs, ~ valid_obs bs (negb u) evs).
  { intros evs (_ & Ht). apply (Hn evs). destruct (negb u); [apply (tiles_weaken _ _ _ _ Ht)|exact Ht]. }
  pose proof (invalid_rejected bs junk u Hsz Hinv) as Hr.
  destruct (run bs junk u) as [e|v evs] eqn:Er.
  - exfalso. unfold run, run_with, load_obs in Er.
    destruct (blen bs =? 0) eqn:E0.
    + unfold spec_header_ok in Hh. change (slen bs) with (blen bs) in Hh. lia.
    + assert (Hc : check_stream_header bs junk = None) by (apply header_model; exact Hh).
      rewrite Hc in Er. unfold c_sizeof_struct_ovni_stream_header in Er.
      unfold spec_header_ok in Hh. change (slen bs) with (blen bs) in Hh.
      destruct (8 <? blen bs) eqn:E1.
      * cbn [s_active] in Er. destruct (walk stream_step _ _); discriminate.
      * replace (8 =? blen bs) with true in Er by lia. discriminate.
  - destruct v; try discriminate. eexists; eexists; reflexivity.
Qed.

Fixpoint clocks_sorted (last : Z) (evs : list (Z * Z * Z)) : Prop :=
  match evs with
  | [] => True
  | (_, _, c) :: r => last <= c /\ clocks_sorted c r
  end.

Lemma tiles_sorted bs p last evs : tiles_from bs true p last evs -> clocks_sorted last evs.
Proof.
  induction 1 as [last|off last s evs Hlt Hspec Hsort Htl IH]; cbn [clocks_sorted]; [exact I|].
  split; [apply Hsort; reflexivity|exact IH].
Qed.

(* a stream whose events tile but whose clocks go backwards somewhere is rejected unless the
   consumer allowed unsorted streams (ovnisort, ovnidump) *)
Lemma clock_backwards_rejected bs junk evs :
  blen bs < 2 ^ 63 ->
  tiles_from bs false 8 0 evs -> ~ clocks_sorted 0 evs ->
  rejected_cleanly (run bs junk false) = true.
Proof.
  intros Hsz Ht Hns. apply invalid_rejected; [exact Hsz|].
  intros evs' (_ & Ht'). cbn [negb] in Ht'.
  pose proof (tiles_weaken _ _ _ _ Ht' 0) as Hw.
  rewrite (tiles_deterministic _ _ _ _ _ _ _ _ Hw Ht) in Ht'.
  apply Hns. eapply tiles_sorted. exact Ht'.
Qed.

(* the decider of Emu/LoaderSpec.v decides the relation *)
Lemma tiles_dec_sound bs sorted : forall fuel p last evs,
  tiles_dec fuel bs sorted p last = Some evs -> tiles_from bs sorted p last evs.
Proof.
  induction fuel as [|f IH]; intros p last evs H; cbn [tiles_dec] in H.
  - destruct (p =? slen bs) eqn:E; [|discriminate]. inversion H. apply Z.eqb_eq in E. subst. apply tiles_end.
  - destruct (p =? slen bs) eqn:E.
    + inversion H. apply Z.eqb_eq in E. subst. apply tiles_end.
    + destruct (slen bs <? p) eqn:E2; [discriminate|].
      destruct (spec_ev_size bs p) as [s|] eqn:Es; [|discriminate].
      destruct (sorted && (spec_clock bs p <? last)) eqn:Ec; [discriminate|].
      destruct (tiles_dec f bs sorted (p + s) (spec_clock bs p)) as [evs'|] eqn:Er; [|discriminate].
      inversion H; subst evs. apply tiles_ev; try assumption; try lia.
      * intros ->. cbn [andb] in Ec. lia.
      * apply IH. exact Er.
Qed.

Lemma tiles_dec_complete bs sorted : forall p last evs,
  tiles_from bs sorted p last evs -> forall fuel, (length evs <= fuel)%nat ->
  tiles_dec fuel bs sorted p last = Some evs.
Proof.
  induction 1 as [last|off last s evs Hlt Hspec Hsort Htl IH]; intros fuel Hf.
  - destruct fuel; cbn [tiles_dec]; rewrite Z.eqb_refl; reflexivity.
  - destruct fuel as [|f]; [cbn in Hf; lia|]. cbn [tiles_dec].
    replace (off =? slen bs) with false by lia. replace (slen bs <? off) with false by lia.
    rewrite Hspec.
    assert (Hc : sorted && (spec_clock bs off <? last) = false).
    { destruct sorted; [|reflexivity]. specialize (Hsort eq_refl). cbn [andb]. lia. }
    rewrite Hc. rewrite IH by (cbn [length] in Hf; lia). reflexivity.
Qed.

Theorem tiles_decides bs sorted evs :
  tiles bs sorted = Some evs <-> valid_obs bs sorted evs.
Proof.
  unfold tiles, valid_obs. split.
  - destruct (spec_header_ok bs); [|discriminate]. intros H. split; [reflexivity|]. eapply tiles_dec_sound. exact H.
  - intros (Hh & Ht). rewrite Hh. apply tiles_dec_complete; [exact Ht|].
    destruct (tiles_count _ _ _ _ _ Ht) as (_ & Hn). unfold slen in Hn. lia.
Qed.

(* ------------------------------------------------------------------ *)
(* ovnisort's region walks                                              *)

(* a region [p, e) made of whole events (every region ovnisort walks is one: its ends are events
   that stream_step delivered) *)
Inductive region (bs : list Z) : Z -> Z -> nat -> Prop :=
| region_nil : forall p, region bs p p O
| region_cons : forall p e s n, 0 <= p < slen bs -> spec_ev_size bs p = Some s -> region bs (p + s) e n -> region bs p e (S n).

Lemma region_le bs p e n : region bs p e n -> p <= e.
Proof. induction 1; [lia|]. apply spec_ev_size_min in H0. lia. Qed.

Theorem count_events_total bs junk : forall p e n,
  region bs p e n -> forall fuel k, (n < fuel)%nat ->
  count_events fuel bs junk p e k = RegDone (k + Z.of_nat n) e.
Proof.
  induction 1 as [p|p e s n Hp Hs Hr IH]; intros fuel k Hf.
  - destruct fuel as [|f]; [lia|]. cbn [count_events]. replace (p >=? p) with true by lia.
    f_equal. cbn. lia.
  - destruct fuel as [|f]; [lia|]. cbn [count_events].
    pose proof (region_le _ _ _ _ Hr) as Hle. pose proof (spec_ev_size_min _ _ _ Hs) as Hmin.
    replace (p >=? e) with false by lia.
    rewrite (spec_ev_size_model bs junk p) in Hs by (change (blen bs) with (slen bs); lia).
    cbv zeta in Hs.
    destruct (ev_size_checked (mk_evp bs p junk) (blen bs - p) <? 0) eqn:E; [discriminate|].
    inversion Hs as [Hs']. clear Hs.
    pose (st := mk_stream bs junk p true true 0 false).
    assert (Hfit : fits st p) by (unfold fits, st, s_size, view; cbn [s_buf s_junk]; lia).
    pose proof (ev_size_reads_inside st p Hfit ltac:(lia)) as Hrd.
    unfold st, view in Hrd. cbn [s_buf s_junk] in Hrd. rewrite Hrd.
    destruct (ev_size_checked_ok _ _ _ eq_refl Hfit) as (H12 & _ & Hsize & Hint & _).
    unfold st, view, s_size in Hsize, Hint. cbn [s_buf s_junk] in Hsize, Hint.
    rewrite Hint. cbn [negb]. rewrite Hsize, Hs'.
    replace (s <=? 0) with false by lia.
    rewrite IH by lia. f_equal. lia.
Qed.

(* ------------------------------------------------------------------ *)
(* the code as found: refutations (kept as the record of the defect)    *)

Definition zero_junk : Z -> Z := fun _ => 0.
Definition hdr : list Z := [111; 118; 110; 105; 1; 0; 0; 0].
(* jumbo event "OB." at clock 10 with the given 32-bit size field, no data *)
Definition jumbo_hdr (b0 b1 b2 b3 : Z) : list Z := [19; 79; 66; 46; 10; 0; 0; 0; 0; 0; 0; 0; b0; b1; b2; b3].

(* size field 0xFFFFFFF0: (int)(4 + size) = -12, event size 0: the cursor never moves *)
Lemma old_no_progress :
  exists bs, run_old bs zero_junk false = Run (VNoProgress 8) [(8, 0, 10)].
Proof. exists (hdr ++ jumbo_hdr 240 255 255 255). vm_compute. reflexivity. Qed.

(* size field 0xFFFFFFE4 in the second event: event size -12, the cursor steps back onto the first
   (unsorted consumer: ovnidump, ovnitop, ovnisort; a sorted one stops at the clock check) *)
Lemma old_steps_backwards :
  exists bs evs, run_old bs zero_junk true = Run (VNoProgress 8) evs.
Proof.
  exists (hdr ++ [0; 79; 66; 46; 5; 0; 0; 0; 0; 0; 0; 0] ++ jumbo_hdr 228 255 255 255). eexists.
  vm_compute. reflexivity.
Qed.

(* a jumbo flag in the last 12 bytes: the size field is read behind the end of the buffer *)
Lemma old_reads_outside :
  exists bs p, blen bs <= p /\ run_old bs zero_junk false = Run (VOob p) [].
Proof.
  exists (hdr ++ [19; 79; 66; 46; 10; 0; 0; 0; 0; 0; 0; 0]), 20. split; [vm_compute; discriminate|].
  vm_compute. reflexivity.
Qed.

(* size field 0x7FFFFFFB: 12 + (int)(4 + size) overflows the int *)
Lemma old_int_overflow :
  exists bs, run_old bs zero_junk false = Run VSOverflow [].
Proof. exists (hdr ++ jumbo_hdr 251 255 255 127). vm_compute. reflexivity. Qed.

(* two events of an unsorted stream with clocks 2^63 (read as -2^63) and 1080: the signed difference overflows *)
Lemma old_delta_overflow :
  exists bs evs, run_old bs zero_junk true = Run VSOverflow evs.
Proof.
  exists (hdr ++ [0; 79; 66; 46; 0; 0; 0; 0; 0; 0; 0; 128] ++ [0; 79; 66; 46; 56; 4; 0; 0; 0; 0; 0; 0]). eexists.
  vm_compute. reflexivity.
Qed.

(* the repaired step on the same inputs *)
Lemma new_on_old_witnesses :
  run (hdr ++ jumbo_hdr 240 255 255 255) zero_junk false = Run (VErr EIncomplete) [] /\
  run (hdr ++ [19; 79; 66; 46; 10; 0; 0; 0; 0; 0; 0; 0]) zero_junk false = Run (VErr EIncomplete) [] /\
  run (hdr ++ jumbo_hdr 251 255 255 127) zero_junk false = Run (VErr EIncomplete) [].
Proof. repeat split; vm_compute; reflexivity. Qed.

(* non-vacuity *)
Example ex_valid_stream :
  run (hdr ++ [0; 79; 66; 46; 5; 0; 0; 0; 0; 0; 0; 0] ++ jumbo_hdr 2 0 0 0 ++ [7; 7]) zero_junk false =
  Run VEnd [(8, 12, 5); (20, 18, 10)].
Proof. vm_compute. reflexivity. Qed.

Lemma loaded_inv bs junk u st : load_obs bs junk u = Loaded st -> s_active st = true -> inv st.
Proof. intros H Ha. destruct (load_obs_inv _ _ _ _ H) as (_&_&_&_&_&_&Hi&_). exact (Hi Ha). Qed.
