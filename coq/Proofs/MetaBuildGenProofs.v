(* C15: the generated builders of src/emu/system.c (Gen/MetaBuild_gen.v, unit metabuild) = the loop of Emu/MetaDefs.v
   (step_gen add_cpu, raw): same refusals, same tables in the same insertion order. *)
From Coq Require Import ZArith List Bool Lia.
From OV Require Import Base.CInt Emu.MetaDefs Emu.MetaBuildPre Gen.MetaBuild_gen.
From OV Require Rt.MarkJsonDefs Proofs.MarkJsonProofs.
Import ListNotations.
Local Open Scope Z_scope.

Lemma bind_run {A B} (m : M A) (f : A -> M B) st :
  MetaBuildPre.bind m f st = match m st with ROk (a, st') => f a st' | RErr e => RErr e end.
Proof. reflexivity. Qed.

Ltac mrun0 := cbv beta iota zeta delta [MetaBuildPre.bind bind_ ret fail ite is_null calloc_loom dl_append_looms
  rd_system_nlooms set_system_nlooms loom_load_metadata loom_find_proc calloc_proc loom_add_proc
  proc_load_metadata proc_find_thread calloc_thread thread_load_metadata proc_add_thread
  load_cpus stream_metadata_c load_appid load_rank set_apps set_ranks
  hash_find_proc proc_get_pid rd_loom_is_init hash_add_proc rd_loom_nprocs set_loom_nprocs proc_set_loom
  hash_find_thread thread_get_tid rd_proc_is_init hash_add_thread rd_proc_nthreads set_proc_nthreads thread_set_proc
  loom_key proc_key thr_key with_st with_ploom with_pproc with_pthr with_lpt with_data set_looms set_cpus set_procs set_apps_ranks
  set_threads b_st b_ploom b_pproc b_pthr b_lpt b_data st_looms st_cpus st_procs st_apps st_ranks st_threads fst snd negb
  Z.eqb loom_name_c is_thread_stream].

(* ------------------------------------------------------------------ the parts of MetaDefs.step_gen on one stream *)
Lemma existsb_no_confl {F} (f : F) X : existsb (no_confl f) X = false.
Proof. induction X as [|a X IH]; [reflexivity|exact IH]. Qed.

Lemma part_loom X s : part add_loom loom_claim X s =
  if negb (valid_name (s_loom s)) then Err else if in_dec name_dec (s_loom s) X then Ok X else Ok (X ++ [s_loom s]).
Proof.
  unfold part, loom_claim, add_loom, ins. cbn [run]. rewrite existsb_no_confl.
  destruct (negb (valid_name (s_loom s))); [reflexivity|]. destruct (in_dec name_dec (s_loom s) X); reflexivity.
Qed.
Lemma part_proc X s : part add_proc proc_claim X s =
  if negb (valid_proc (spkey s)) then Err else if in_dec pkey_dec (spkey s) X then Ok X else Ok (X ++ [spkey s]).
Proof.
  unfold part, proc_claim, add_proc, ins. cbn [run]. rewrite existsb_no_confl.
  destruct (negb (valid_proc (spkey s))); [reflexivity|]. destruct (in_dec pkey_dec (spkey s) X); reflexivity.
Qed.
Lemma part_thread X s : part add_thread thread_claim X s =
  if s_tid s <=? 0 then Err else if in_dec key_dec (skey s) X then Err else Ok (X ++ [skey s]).
Proof.
  unfold part, thread_claim, add_thread. cbn [run]. change (snd (skey s)) with (s_tid s).
  destruct (s_tid s <=? 0); [reflexivity|]. destruct (in_dec key_dec (skey s) X); reflexivity.
Qed.

Definition looms_ok (x : state) : Prop := Forall (fun n => valid_name n = true) (st_looms x).

Lemma name_eqb_refl n : name_eqb n n = true.
Proof. unfold name_eqb. destruct (name_dec n n); [reflexivity|contradiction]. Qed.
Lemma pkey_eqb_refl k : pkey_eqb k k = true.
Proof. unfold pkey_eqb. destruct (pkey_dec k k); [reflexivity|contradiction]. Qed.

(* ------------------------------------------------------------------ find_loom: the generated list walk = membership *)
Lemma str_cmp_0 a : forall b, (str_cmp a b =? 0) = if name_dec a b then true else false.
Proof.
  induction a as [|x a IH]; intros [|y b]; cbn [str_cmp].
  - destruct (name_dec [] []) as [E|E]; [reflexivity|exfalso; apply E; reflexivity].
  - destruct (name_dec [] (y :: b)) as [E|E]; [discriminate E|reflexivity].
  - destruct (name_dec (x :: a) []) as [E|E]; [discriminate E|reflexivity].
  - destruct (x <? y) eqn:E1; [destruct (name_dec (x :: a) (y :: b)) as [E|E]; [injection E; lia|reflexivity]|].
    destruct (y <? x) eqn:E2; [destruct (name_dec (x :: a) (y :: b)) as [E|E]; [injection E; lia|reflexivity]|].
    assert (x = y) by lia. subst y. rewrite IH.
    destruct (name_dec a b) as [E|E]; destruct (name_dec (x :: a) (x :: b)) as [E'|E']; try reflexivity.
    + exfalso. apply E'. rewrite E. reflexivity.
    + exfalso. apply E. injection E'. auto.
Qed.

Lemma find_names_eq n : forall l b,
  dl_find_names l (fun loom => MetaBuildPre.bind (rd_loom_id loom) (fun id_1 => ret (Z.eqb (strcmp_c id_1 (Some n)) 0))) b =
  ROk (if in_dec name_dec n l then Some (LTab n) else None, b).
Proof.
  induction l as [|a r IH]; intros b; cbn [dl_find_names]; [reflexivity|].
  rewrite bind_run. unfold rd_loom_id at 1. cbn [loom_key]. rewrite bind_run. unfold ret at 1. cbn [strcmp_c]. rewrite str_cmp_0.
  destruct (name_dec a n) as [E|E].
  - subst a. destruct (in_dec name_dec n (n :: r)) as [I|I]; [reflexivity|exfalso; apply I; left; reflexivity].
  - rewrite IH. destruct (in_dec name_dec n r) as [I|I]; destruct (in_dec name_dec n (a :: r)) as [J|J]; try reflexivity.
    + exfalso. apply J. right. exact I.
    + exfalso. destruct J as [J|J]; [exact (E J)|exact (I J)].
Qed.

Lemma find_loom_eq n b :
  MetaBuild_gen.find_loom tt (Some n) b = ROk (if in_dec name_dec n (st_looms (b_st b)) then Some (LTab n) else None, b).
Proof.
  unfold MetaBuild_gen.find_loom. rewrite bind_run. unfold dl_find_looms. rewrite find_names_eq.
  destruct (in_dec name_dec n (st_looms (b_st b))); reflexivity.
Qed.

(* ------------------------------------------------------------------ the generated *_init_begin = the primitives they replace *)
Lemma dlen_small prefix v : (length prefix <= 100)%nat -> (dlen prefix v >=? 4096) = false.
Proof. intros H. unfold dlen. pose proof (MarkJsonProofs.render_len v). rewrite Z.geb_leb. lia. Qed.

Lemma proc_init_begin_eq pid b :
  MetaBuild_gen.proc_init_begin (Some PPend) pid b = ROk (0, with_pproc b (fst (b_pproc b), pid)).
Proof.
  unfold MetaBuild_gen.proc_init_begin, bind_, MetaBuildPre.bind, memset_proc, set_proc_gindex, set_proc_appid, set_proc_rank, set_proc_nranks,
    set_proc_pid, on_pproc, snprintf_d_proc_id, ite.
  rewrite dlen_small by (cbn [length]; lia). destruct b; reflexivity.
Qed.
Lemma thread_init_begin_eq tid b :
  MetaBuild_gen.thread_init_begin (Some TPend) tid b = ROk (0, with_pthr b (fst (b_pthr b), tid)).
Proof.
  unfold MetaBuild_gen.thread_init_begin, bind_, MetaBuildPre.bind, memset_thread, set_thread_state, set_thread_gindex, set_thread_tid,
    on_pthr, snprintf_d_thread_id, ite.
  rewrite dlen_small by (cbn [length]; lia). destruct b; reflexivity.
Qed.

(* a loom name fits in loom->name: shorter than PATH_MAX (MetaDefs has no bound on names) *)
Definition name_fits (s : stream_meta) : Prop := Z.of_nat (length (s_loom s)) < 4096.

Lemma loom_init_begin_eq n b : Z.of_nat (length n) < 4096 ->
  MetaBuild_gen.loom_init_begin (Some LPend) (Some n) b = if valid_name n then ROk (0, with_ploom b n) else RErr E_FAIL.
Proof.
  intros F. unfold MetaBuild_gen.loom_init_begin, bind_, MetaBuildPre.bind, memset_loom, on_ploom, strchr_c, valid_name, SLASH.
  destruct (existsb (Z.eqb 47) n); cbn [is_null negb ite]; [reflexivity|].
  unfold snprintf_s_loom_name, set_hostname_loom, rd_loom_name, set_loom_id, set_loom_rank_min, cpu_init_begin_vcpu, cpu_set_loom_vcpu, on_ploom, ite.
  assert (G : (Z.of_nat (length n) >=? 4096) = false) by (rewrite Z.geb_leb; lia). rewrite G.
  assert (Fn : firstn (Z.to_nat (4096 - 1)) n = n) by (apply firstn_all2; lia).
  destruct b as [x pl pp pt lp dt]; cbn [b_ploom with_ploom b_st b_pproc b_pthr b_lpt b_data]. rewrite Fn. reflexivity.
Qed.

Ltac mrun := mrun0; rewrite ?proc_init_begin_eq, ?thread_init_begin_eq; mrun0.

(* ------------------------------------------------------------------ create_loom *)
Lemma create_loom_spec b s : looms_ok (b_st b) -> name_fits s ->
  match part add_loom loom_claim (st_looms (b_st b)) s with
  | Ok l' =>
    match part add_cpu cpu_claim (st_cpus (b_st b)) s with
    | Ok c' => exists h b', create_loom tt s b = ROk (Some h, b') /\ loom_key b' h = s_loom s /\
                 b_st b' = set_cpus (set_looms (b_st b) l') c' /\ b_lpt b' = b_lpt b /\ b_data b' = b_data b
    | _ => create_loom tt s b = RErr E_FAIL
    end
  | _ => create_loom tt s b = RErr E_FAIL
  end.
Proof.
  intros OK NF. rewrite part_loom. destruct b as [[looms [cpus rest]] pl pp pt lp dt].
  unfold looms_ok in OK. cbn [b_st st_looms st_cpus fst snd] in *.
  unfold create_loom. mrun. rewrite find_loom_eq. cbn [b_st st_looms fst].
  destruct (in_dec name_dec (s_loom s) looms) as [I|I]; mrun.
  - assert (V : valid_name (s_loom s) = true) by (rewrite Forall_forall in OK; exact (OK _ I)). rewrite V. cbn [negb].
    rewrite name_eqb_refl.
    destruct (part add_cpu cpu_claim cpus s) as [c'| |]; try reflexivity.
    eexists. eexists. split; [reflexivity|]. repeat split.
  - rewrite (loom_init_begin_eq _ _ NF).
    destruct (valid_name (s_loom s)) eqn:V; cbn [negb]; mrun; [|reflexivity].
    rewrite name_eqb_refl.
    destruct (part add_cpu cpu_claim cpus s) as [c'| |]; try reflexivity.
    eexists. eexists. split; [reflexivity|]. repeat split.
Qed.

Ltac dec_all := repeat (match goal with |- context[in_dec ?d ?k ?l] => destruct (in_dec d k l); try contradiction; mrun end).

(* ------------------------------------------------------------------ create_proc *)
Lemma create_proc_spec b s h : loom_key b h = s_loom s ->
  match part add_proc proc_claim (st_procs (b_st b)) s with
  | Ok p' =>
    match part add_app app_claim (st_apps (b_st b)) s with
    | Ok a' =>
      match part add_rank rank_claim (st_ranks (b_st b)) s with
      | Ok r' => exists hp b', create_proc (Some h) s b = ROk (Some hp, b') /\ proc_key b' hp = spkey s /\
                   loom_key b' h = s_loom s /\
                   b_st b' = set_apps_ranks (set_procs (b_st b) p') a' r' /\ b_lpt b' = b_lpt b /\ b_data b' = b_data b
      | _ => create_proc (Some h) s b = RErr E_FAIL
      end
    | _ => create_proc (Some h) s b = RErr E_FAIL
    end
  | _ => create_proc (Some h) s b = RErr E_FAIL
  end.
Proof.
  intros H. rewrite part_proc. destruct b as [[looms [cpus [procs [apps [ranks threads]]]]] pl pp pt lp dt].
  cbn [b_st st_procs st_apps st_ranks fst snd] in *.
  unfold create_proc, proc_stream_get_pid_c.
  destruct (valid_proc (spkey s)) eqn:V; cbn [negb].
  2:{ mrun. reflexivity. }
  assert (P : (s_pid s <? 0) = false) by (unfold valid_proc, spkey in V; cbn [snd] in V; lia).
  unfold spkey in *.
  destruct h as [n|]; cbn [loom_key b_ploom] in H; subst; mrun; rewrite P; mrun; dec_all;
    unfold spkey; rewrite ?pkey_eqb_refl; mrun;
    (destruct (part add_app app_claim apps s) as [a'| |]; mrun; try reflexivity);
    unfold spkey; rewrite ?pkey_eqb_refl; mrun;
    (destruct (part add_rank rank_claim ranks s) as [r'| |]; mrun; try reflexivity);
    (eexists; eexists; split; [reflexivity|]; repeat split).
Qed.

(* ------------------------------------------------------------------ create_thread *)
Lemma create_thread_spec b s hl hp : loom_key b hl = s_loom s -> proc_key b hp = spkey s ->
  match part add_thread thread_claim (st_threads (b_st b)) s with
  | Ok t' => exists ht b', create_thread (Some hp) s b = ROk (Some ht, b') /\ thr_key b' ht = skey s /\
               proc_key b' hp = spkey s /\ loom_key b' hl = s_loom s /\
               b_st b' = set_threads (b_st b) t' /\ b_lpt b' = b_lpt b /\ b_data b' = b_data b
  | _ => create_thread (Some hp) s b = RErr E_FAIL
  end.
Proof.
  intros HL H. rewrite part_thread. destruct b as [[looms [cpus [procs [apps [ranks threads]]]]] pl pp pt lp dt].
  cbn [b_st st_threads fst snd] in *.
  unfold create_thread, thread_stream_get_tid_c.
  destruct (s_tid s <=? 0) eqn:T.
  { mrun. reflexivity. }
  assert (P : (s_tid s <? 0) = false) by lia.
  unfold skey, spkey in *.
  destruct hp as [k|]; cbn [proc_key b_pproc] in H; subst; mrun; rewrite P; mrun; dec_all; try reflexivity;
    (eexists; eexists; split; [reflexivity|]; repeat split; destruct hl; exact HL).
Qed.

(* ------------------------------------------------------------------ the lpt slot of the stream *)
Lemma nth_last {A} (l : list A) x : nth_error (l ++ [x]) (length l) = Some x.
Proof. rewrite nth_error_app2, Nat.sub_diag by lia. reflexivity. Qed.
Lemma upd_last {A} (l : list A) x f : upd_nth (l ++ [x]) (length l) f = l ++ [f x].
Proof. induction l as [|a l IH]; cbn [app length upd_nth]; [reflexivity|]. rewrite IH. reflexivity. Qed.

Lemma set_lpt_last b lp x f y : b_lpt b = lp ++ [x] -> f b x = Some y ->
  set_lpt (Some (length lp)) f b = ROk (tt, with_lpt b (lp ++ [y])).
Proof. intros E F. unfold set_lpt. rewrite E, nth_last, F, upd_last. reflexivity. Qed.

Definition tail (loom : ptr_loom) (proc : ptr_proc) (thread : ptr_thread) (s : ptr_stream) : M Z :=
  MetaBuildPre.bind (lpt_next tt) (fun lpt =>
    bind_ (set_lpt_stream lpt s) (bind_ (set_lpt_loom lpt loom) (bind_ (set_lpt_proc lpt proc)
      (bind_ (set_lpt_thread lpt thread) (bind_ (stream_data_set s lpt) (ret 0)))))).

Definition lpt_of (s : stream_meta) : lpt := mkL (Some s) (Some (s_loom s)) (Some (spkey s)) (Some (skey s)).

Lemma tail_spec b s hl hp ht : loom_key b hl = s_loom s -> proc_key b hp = spkey s -> thr_key b ht = skey s ->
  tail (Some hl) (Some hp) (Some ht) s b =
  ROk (0, with_data (with_lpt b (b_lpt b ++ [lpt_of s])) (b_data b ++ [(s, length (b_lpt b))])).
Proof.
  intros KL KP KT. destruct b as [x pl pp pt lp dt].
  destruct hl, hp, ht; cbn [loom_key proc_key thr_key b_ploom b_pproc b_pthr] in KL, KP, KT; subst;
  unfold tail, bind_, MetaBuildPre.bind, lpt_next, set_lpt_stream, set_lpt_loom, set_lpt_proc, set_lpt_thread, set_lpt, stream_data_set,
    ret, with_lpt, with_data, lpt_of, lpt0;
  repeat (cbn [b_st b_ploom b_pproc b_pthr b_lpt b_data loom_key proc_key thr_key l_stream l_loom l_proc l_thread];
          rewrite ?nth_last, ?upd_last); reflexivity.
Qed.

(* ------------------------------------------------------------------ the loop body of create_system *)
Lemma stream_body_run s b :
  stream_body tt s b =
  match create_loom tt s b with
  | ROk (loom, b1) =>
    if is_null loom then RErr E_FAIL else
    match create_proc loom s b1 with
    | ROk (proc, b2) =>
      if is_null proc then RErr E_FAIL else
      match create_thread proc s b2 with
      | ROk (thread, b3) => if is_null thread then RErr E_FAIL else tail loom proc thread s b3
      | RErr e => RErr e
      end
    | RErr e => RErr e
    end
  | RErr e => RErr e
  end.
Proof.
  unfold stream_body. rewrite bind_run. change (is_thread_stream s b) with (@ROk (Z * bstate) (1, b)). cbn [Z.ltb Z.eqb Z.compare ite].
  rewrite bind_run. destruct (create_loom tt s b) as [[loom b1]|]; [|reflexivity].
  destruct loom as [hl|]; [|reflexivity]. cbn [is_null ite]. rewrite bind_run.
  destruct (create_proc (Some hl) s b1) as [[proc b2]|]; [|reflexivity].
  destruct proc as [hp|]; [|reflexivity]. cbn [is_null ite]. rewrite bind_run.
  destruct (create_thread (Some hp) s b2) as [[thread b3]|]; [|reflexivity].
  destruct thread as [ht|]; reflexivity.
Qed.

Theorem stream_body_from_source b s : looms_ok (b_st b) -> name_fits s ->
  match step_gen add_cpu (b_st b) s with
  | Ok x' => exists b', stream_body tt s b = ROk (0, b') /\ b_st b' = x' /\
               b_lpt b' = b_lpt b ++ [lpt_of s] /\ b_data b' = b_data b ++ [(s, length (b_lpt b))]
  | _ => stream_body tt s b = RErr E_FAIL
  end.
Proof.
  intros OK NF. rewrite stream_body_run. pose proof (create_loom_spec b s OK NF) as CL.
  destruct (b_st b) as [looms [cpus [procs [apps [ranks threads]]]]] eqn:EB.
  unfold step_gen, par. cbn [fst snd st_looms st_cpus] in *.
  destruct (part add_loom loom_claim looms s) as [l'| |]; cbn [MetaDefs.bind]; try (rewrite CL; reflexivity).
  destruct (part add_cpu cpu_claim cpus s) as [c'| |]; cbn [MetaDefs.bind]; try (rewrite CL; reflexivity).
  destruct CL as (hl & b1 & E1 & K1 & S1 & L1 & D1). rewrite E1. cbn [is_null].
  pose proof (create_proc_spec b1 s hl K1) as CP. rewrite S1 in CP.
  cbn [set_cpus set_looms st_looms st_cpus st_procs st_apps st_ranks fst snd] in CP.
  destruct (part add_proc proc_claim procs s) as [p'| |]; cbn [MetaDefs.bind]; try (rewrite CP; reflexivity).
  destruct (part add_app app_claim apps s) as [a'| |]; cbn [MetaDefs.bind]; try (rewrite CP; reflexivity).
  destruct (part add_rank rank_claim ranks s) as [r'| |]; cbn [MetaDefs.bind]; try (rewrite CP; reflexivity).
  destruct CP as (hp & b2 & E2 & K2 & K1' & S2 & L2 & D2). rewrite E2. cbn [is_null].
  pose proof (create_thread_spec b2 s hl hp K1' K2) as CT. rewrite S2 in CT.
  cbn [set_apps_ranks set_procs set_cpus set_looms st_looms st_cpus st_procs st_apps st_ranks st_threads fst snd] in CT.
  destruct (part add_thread thread_claim threads s) as [t'| |]; cbn [MetaDefs.bind]; try (rewrite CT; reflexivity).
  destruct CT as (ht & b3 & E3 & K3 & K2' & K1'' & S3 & L3 & D3). rewrite E3. cbn [is_null].
  rewrite (tail_spec b3 s hl hp ht K1'' K2' K3).
  eexists. split; [reflexivity|]. destruct b3 as [x3 pl3 pp3 pt3 lp3 dt3]. cbn [b_st b_lpt b_data with_data with_lpt] in *.
  subst. split; [reflexivity|]. rewrite L2, L1, D2, D1. split; reflexivity.
Qed.

(* ------------------------------------------------------------------ create_system: the loop over the streams *)
(* the GENERATED loop statement (create_system_loop: for_streams over trace->streams of the generated body, then return 0):
   `return -1` in the body leaves create_system with -1, `continue` and the end of the body go to the next stream *)
Definition run_streams (m : list stream_meta) (b : bstate) : rres bstate :=
  match create_system_loop tt m b with ROk (_, b') => ROk b' | RErr e => RErr e end.

Lemma step_looms_ok x s x' : looms_ok x -> step_gen add_cpu x s = Ok x' -> looms_ok x'.
Proof.
  destruct x as [looms [cpus [procs [apps [ranks threads]]]]]. unfold looms_ok, step_gen, par. cbn [fst snd st_looms].
  intros OK. rewrite part_loom. destruct (valid_name (s_loom s)) eqn:V; cbn [negb MetaDefs.bind]; [|discriminate].
  destruct (in_dec name_dec (s_loom s) looms) as [I|I]; cbn [MetaDefs.bind].
  - match goal with |- MetaDefs.bind ?r _ = _ -> _ => destruct r as [y| |] end; cbn [MetaDefs.bind]; try discriminate. intros H. injection H as <-. exact OK.
  - match goal with |- MetaDefs.bind ?r _ = _ -> _ => destruct r as [y| |] end; cbn [MetaDefs.bind]; try discriminate. intros H. injection H as <-. cbn [fst].
    apply Forall_app. split; [exact OK|]. constructor; [exact V|constructor].
Qed.

Lemma loop_build : forall m b, looms_ok (b_st b) -> Forall name_fits m ->
  match run (step_gen add_cpu) m (b_st b) with
  | Ok x' => exists b', for_streams m (fun s => stream_body tt s) b = ROk (tt, b') /\ b_st b' = x' /\ b_lpt b' = b_lpt b ++ map lpt_of m /\
               b_data b' = b_data b ++ combine m (seq (length (b_lpt b)) (length m))
  | _ => for_streams m (fun s => stream_body tt s) b = RErr E_FAIL
  end.
Proof.
  induction m as [|s m IH]; intros b OK NF; cbn [run for_streams map].
  - exists b. rewrite !app_nil_r. repeat split.
  - inversion NF as [|? ? N1 N2]; subst.
    pose proof (stream_body_from_source b s OK N1) as H. unfold bind_. rewrite bind_run.
    destruct (step_gen add_cpu (b_st b) s) as [x1| |] eqn:ST; try (rewrite H; reflexivity).
    destruct H as (b1 & E & S & L & D). rewrite E.
    assert (OK1 : looms_ok (b_st b1)) by (rewrite S; exact (step_looms_ok _ _ _ OK ST)).
    specialize (IH b1 OK1 N2). rewrite S in IH.
    destruct (run (step_gen add_cpu) m x1) as [x2| |]; try exact IH.
    destruct IH as (b2 & E2 & S2 & L2 & D2). exists b2. split; [exact E2|]. split; [exact S2|]. split.
    + rewrite L2, L, <- app_assoc. reflexivity.
    + rewrite D2, D, L, app_length, <- app_assoc. cbn [length app combine seq]. rewrite Nat.add_1_r. reflexivity.
Qed.

Lemma build_loop : forall m b, looms_ok (b_st b) -> Forall name_fits m ->
  match run (step_gen add_cpu) m (b_st b) with
  | Ok x' => exists b', run_streams m b = ROk b' /\ b_st b' = x' /\ b_lpt b' = b_lpt b ++ map lpt_of m /\
               b_data b' = b_data b ++ combine m (seq (length (b_lpt b)) (length m))
  | _ => run_streams m b = RErr E_FAIL
  end.
Proof.
  intros m b OK NF. pose proof (loop_build m b OK NF) as H. unfold run_streams, create_system_loop, bind_. rewrite bind_run.
  destruct (run (step_gen add_cpu) m (b_st b)) as [x'| |]; try (rewrite H; reflexivity).
  destruct H as (b' & E & S & L & D). rewrite E. exists b'. repeat split; assumption.
Qed.

(* folding the generated per-stream body over the streams from the empty system = MetaDefs.raw: same refusals, same
   looms / CPUs / processes / app ids / ranks / threads in the same insertion order; the lpt map gives every stream its
   loom, process and thread *)
Theorem system_build_raw_from_source : forall m, Forall name_fits m ->
  match raw m with
  | Ok x => exists b, run_streams m b0 = ROk b /\ b_st b = x /\ b_lpt b = map lpt_of m /\ b_data b = combine m (seq 0 (length m))
  | _ => run_streams m b0 = RErr E_FAIL
  end.
Proof. intros m NF. exact (build_loop m b0 (Forall_nil _) NF). Qed.

(* ... hence MetaDefs.build (the sorts and the final checks of system_init, tied by unit cmp_meta, applied to that state) *)
Theorem system_build_from_source : forall m, Forall name_fits m ->
  match run_streams m b0 with
  | ROk b => build m = finish (b_st b) /\ b_lpt b = map lpt_of m
  | RErr _ => forall sys, build m <> Ok sys
  end.
Proof.
  intros m NF. pose proof (system_build_raw_from_source m NF) as H. unfold build, build_gen. fold raw.
  destruct (raw m) as [x| |].
  - destruct H as (b & E & S & L & D). rewrite E, S. split; [reflexivity|exact L].
  - rewrite H. intros sys; discriminate.
  - rewrite H. intros sys; discriminate.
Qed.

(* ------------------------------------------------------------------ system_get_lpt on the system that was built *)
Lemma find_combine : forall m k s i, find_data (combine m (seq k (length m))) s = Some i ->
  exists j, i = (k + j)%nat /\ nth_error m j = Some s.
Proof.
  induction m as [|a m IH]; intros k s i; cbn [length seq combine find_data]; [discriminate|].
  destruct (stream_dec a s) as [E|E].
  - intros H. injection H as <-. exists 0%nat. split; [lia|]. subst. reflexivity.
  - intros H. destruct (IH (S k) s i H) as (j & Ej & Nj). exists (S j). split; [lia|exact Nj].
Qed.
Lemma find_in : forall m k s, In s m -> find_data (combine m (seq k (length m))) s <> None.
Proof.
  induction m as [|a m IH]; intros k s I; [contradiction|]. cbn [length seq combine find_data].
  destruct (stream_dec a s) as [E|E]; [discriminate|]. destruct I as [I|I]; [contradiction|]. exact (IH (S k) s I).
Qed.

(* on the system the generated loop built, the generated system_get_lpt never dies and hands every stream of the trace the
   slot that holds its own loom, process and thread *)
Theorem system_get_lpt_from_source : forall m b s, Forall name_fits m -> run_streams m b0 = ROk b ->
  exists r, system_get_lpt s b = ROk (r, b) /\
    (forall i, r = Some i -> nth_error (b_lpt b) i = Some (lpt_of s)) /\ (In s m -> r <> None).
Proof.
  intros m b s NF R. pose proof (system_build_raw_from_source m NF) as H.
  destruct (raw m) as [x| |]; try (rewrite H in R; discriminate R).
  destruct H as (b' & E & S & L & D). rewrite E in R. injection R as ->.
  unfold system_get_lpt. rewrite bind_run. unfold stream_data_get at 1.
  destruct (find_data (b_data b) s) as [i|] eqn:F; cbn [is_null ite].
  - rewrite D in F. destruct (find_combine m 0 s i F) as (j & Ej & Nj). cbn [Nat.add] in Ej. subst j.
    assert (NL : nth_error (b_lpt b) i = Some (lpt_of s)) by (rewrite L; exact (map_nth_error lpt_of i m Nj)).
    rewrite bind_run. unfold rd_lpt_stream. rewrite NL. cbn [lpt_of l_stream]. unfold stream_eqb.
    destruct (stream_dec s s) as [_|N]; [|contradiction]. cbn [negb ite].
    exists (Some i). split; [reflexivity|]. split; [intros i' H; injection H as <-; exact NL|intros _; discriminate].
  - exists None. split; [reflexivity|]. split; [discriminate|]. intros I. exfalso. apply (find_in m 0 s I). rewrite <- D. exact F.
Qed.

(* ------------------------------------------------------------------ examples, by computation on the generated code *)
Definition ex_s1 : stream_meta := mkS [110; 48] 100 101 (Some 1) (Some 0) (Some 2) (Some [(0, 7); (1, 9)]).
Definition ex_s2 : stream_meta := mkS [110; 48] 100 102 (Some 1) None None None.
Definition ex_s3 : stream_meta := mkS [110; 49] 200 201 (Some 1) None None None.
Definition st_of (r : rres bstate) : option state := match r with ROk b => Some (b_st b) | RErr _ => None end.
Lemma ex_build_three : st_of (run_streams [ex_s1; ex_s2; ex_s3] b0) = match raw [ex_s1; ex_s2; ex_s3] with Ok x => Some x | _ => None end /\
  st_of (run_streams [ex_s1; ex_s2; ex_s3] b0) <> None.
Proof. vm_compute. split; [reflexivity|discriminate]. Qed.
(* the same tid twice in one process; an app id that contradicts the process's; a loom name with '/' *)
Lemma ex_build_refusals :
  run_streams [ex_s1; ex_s1] b0 = RErr E_FAIL /\
  run_streams [ex_s1; mkS [110; 48] 100 102 (Some 2) None None None] b0 = RErr E_FAIL /\
  run_streams [mkS [110; 47; 48] 100 101 (Some 1) None None None] b0 = RErr E_FAIL.
Proof. vm_compute. repeat split. Qed.
(* the same tid in two processes is accepted by create_system (the duplicate is caught later, MetaDefs.finish) *)
Lemma ex_build_tid_two_procs :
  st_of (run_streams [ex_s1; mkS [110; 48] 300 101 (Some 1) (Some 1) (Some 2) None] b0) <> None.
Proof. vm_compute. discriminate. Qed.
