(* C15: the generated builders of src/emu/system.c (Gen/MetaBuild_gen.v, unit metabuild) = the loop of Emu/MetaDefs.v
   (step_gen add_cpu, raw): same refusals, same tables in the same insertion order. *)
From Coq Require Import ZArith List Bool Lia.
From OV Require Import Base.CInt Emu.MetaDefs Emu.MetaBuildPre Gen.MetaBuild_gen.
Import ListNotations.
Local Open Scope Z_scope.

Lemma bind_run {A B} (m : M A) (f : A -> M B) st :
  MetaBuildPre.bind m f st = match m st with ROk (a, st') => f a st' | RErr e => RErr e end.
Proof. reflexivity. Qed.

Ltac mrun := cbv beta iota zeta delta [MetaBuildPre.bind bind_ ret fail ite is_null find_loom calloc_loom loom_init_begin dl_append_looms
  rd_system_nlooms set_system_nlooms loom_load_metadata loom_find_proc calloc_proc proc_init_begin loom_add_proc
  proc_load_metadata proc_find_thread calloc_thread thread_init_begin thread_load_metadata proc_add_thread
  load_cpus stream_metadata_c load_appid load_rank set_apps set_ranks
  hash_find_proc proc_get_pid rd_loom_is_init hash_add_proc rd_loom_nprocs set_loom_nprocs proc_set_loom
  hash_find_thread thread_get_tid rd_proc_is_init hash_add_thread rd_proc_nthreads set_proc_nthreads thread_set_proc
  loom_key proc_key thr_key with_st with_ploom with_pproc with_pthr with_lpt with_data set_looms set_cpus set_procs set_apps_ranks
  set_threads b_st b_ploom b_pproc b_pthr b_lpt b_data st_looms st_cpus st_procs st_apps st_ranks st_threads fst snd negb
  Z.eqb loom_name_c is_thread_stream].

(* ------------------------------------------------------------------ the parts of MetaDefs.step_gen on one stream *)
Lemma existsb_no_confl {F} (f : F) X : existsb (no_confl f) X = false.
Proof. induction X as [|a X IH]; [reflexivity|exact IH]. Qed.

Lemma part_loom X s : part add_loom loom_claim X s =
  if negb (valid_name (s_loom s)) then Err else if in_dec name_dec (s_loom s) X then Ok X else Ok (X ++ [s_loom s]).
Proof.
  unfold part, loom_claim, add_loom, ins. cbn [run]. rewrite existsb_no_confl.
  destruct (negb (valid_name (s_loom s))); [reflexivity|]. destruct (in_dec name_dec (s_loom s) X); reflexivity.
Qed.
Lemma part_proc X s : part add_proc proc_claim X s =
  if negb (valid_proc (spkey s)) then Err else if in_dec pkey_dec (spkey s) X then Ok X else Ok (X ++ [spkey s]).
Proof.
  unfold part, proc_claim, add_proc, ins. cbn [run]. rewrite existsb_no_confl.
  destruct (negb (valid_proc (spkey s))); [reflexivity|]. destruct (in_dec pkey_dec (spkey s) X); reflexivity.
Qed.
Lemma part_thread X s : part add_thread thread_claim X s =
  if s_tid s <=? 0 then Err else if in_dec key_dec (skey s) X then Err else Ok (X ++ [skey s]).
Proof.
  unfold part, thread_claim, add_thread. cbn [run]. change (snd (skey s)) with (s_tid s).
  destruct (s_tid s <=? 0); [reflexivity|]. destruct (in_dec key_dec (skey s) X); reflexivity.
Qed.

Definition looms_ok (x : state) : Prop := Forall (fun n => valid_name n = true) (st_looms x).

Lemma name_eqb_refl n : name_eqb n n = true.
Proof. unfold name_eqb. destruct (name_dec n n); [reflexivity|contradiction]. Qed.
Lemma pkey_eqb_refl k : pkey_eqb k k = true.
Proof. unfold pkey_eqb. destruct (pkey_dec k k); [reflexivity|contradiction]. Qed.

(* ------------------------------------------------------------------ create_loom *)
Lemma create_loom_spec b s : looms_ok (b_st b) ->
  match part add_loom loom_claim (st_looms (b_st b)) s with
  | Ok l' =>
    match part add_cpu cpu_claim (st_cpus (b_st b)) s with
    | Ok c' => exists h b', create_loom tt s b = ROk (Some h, b') /\ loom_key b' h = s_loom s /\
                 b_st b' = set_cpus (set_looms (b_st b) l') c' /\ b_lpt b' = b_lpt b /\ b_data b' = b_data b
    | _ => create_loom tt s b = RErr E_FAIL
    end
  | _ => create_loom tt s b = RErr E_FAIL
  end.
Proof.
  intros OK. rewrite part_loom. destruct b as [[looms [cpus rest]] pl pp pt lp dt].
  unfold looms_ok in OK. cbn [b_st st_looms st_cpus fst snd] in *.
  unfold create_loom. mrun.
  destruct (in_dec name_dec (s_loom s) looms) as [I|I].
  - assert (V : valid_name (s_loom s) = true) by (rewrite Forall_forall in OK; exact (OK _ I)). rewrite V. cbn [negb].
    rewrite name_eqb_refl.
    destruct (part add_cpu cpu_claim cpus s) as [c'| |]; try reflexivity.
    eexists. eexists. split; [reflexivity|]. repeat split.
  - destruct (valid_name (s_loom s)) eqn:V; cbn [negb]; [|reflexivity].
    rewrite name_eqb_refl.
    destruct (part add_cpu cpu_claim cpus s) as [c'| |]; try reflexivity.
    eexists. eexists. split; [reflexivity|]. repeat split.
Qed.

Ltac dec_all := repeat (match goal with |- context[in_dec ?d ?k ?l] => destruct (in_dec d k l); try contradiction; mrun end).

(* ------------------------------------------------------------------ create_proc *)
Lemma create_proc_spec b s h : loom_key b h = s_loom s ->
  match part add_proc proc_claim (st_procs (b_st b)) s with
  | Ok p' =>
    match part add_app app_claim (st_apps (b_st b)) s with
    | Ok a' =>
      match part add_rank rank_claim (st_ranks (b_st b)) s with
      | Ok r' => exists hp b', create_proc (Some h) s b = ROk (Some hp, b') /\ proc_key b' hp = spkey s /\
                   loom_key b' h = s_loom s /\
                   b_st b' = set_apps_ranks (set_procs (b_st b) p') a' r' /\ b_lpt b' = b_lpt b /\ b_data b' = b_data b
      | _ => create_proc (Some h) s b = RErr E_FAIL
      end
    | _ => create_proc (Some h) s b = RErr E_FAIL
    end
  | _ => create_proc (Some h) s b = RErr E_FAIL
  end.
Proof.
  intros H. rewrite part_proc. destruct b as [[looms [cpus [procs [apps [ranks threads]]]]] pl pp pt lp dt].
  cbn [b_st st_procs st_apps st_ranks fst snd] in *.
  unfold create_proc, proc_stream_get_pid_c.
  destruct (valid_proc (spkey s)) eqn:V; cbn [negb].
  2:{ mrun. reflexivity. }
  assert (P : (s_pid s <? 0) = false) by (unfold valid_proc, spkey in V; cbn [snd] in V; lia).
  unfold spkey in *.
  destruct h as [n|]; cbn [loom_key b_ploom] in H; subst; mrun; rewrite P; mrun; dec_all;
    unfold spkey; rewrite ?pkey_eqb_refl; mrun;
    (destruct (part add_app app_claim apps s) as [a'| |]; mrun; try reflexivity);
    unfold spkey; rewrite ?pkey_eqb_refl; mrun;
    (destruct (part add_rank rank_claim ranks s) as [r'| |]; mrun; try reflexivity);
    (eexists; eexists; split; [reflexivity|]; repeat split).
Qed.

(* ------------------------------------------------------------------ create_thread *)
Lemma create_thread_spec b s hl hp : loom_key b hl = s_loom s -> proc_key b hp = spkey s ->
  match part add_thread thread_claim (st_threads (b_st b)) s with
  | Ok t' => exists ht b', create_thread (Some hp) s b = ROk (Some ht, b') /\ thr_key b' ht = skey s /\
               proc_key b' hp = spkey s /\ loom_key b' hl = s_loom s /\
               b_st b' = set_threads (b_st b) t' /\ b_lpt b' = b_lpt b /\ b_data b' = b_data b
  | _ => create_thread (Some hp) s b = RErr E_FAIL
  end.
Proof.
  intros HL H. rewrite part_thread. destruct b as [[looms [cpus [procs [apps [ranks threads]]]]] pl pp pt lp dt].
  cbn [b_st st_threads fst snd] in *.
  unfold create_thread, thread_stream_get_tid_c.
  destruct (s_tid s <=? 0) eqn:T.
  { mrun. reflexivity. }
  assert (P : (s_tid s <? 0) = false) by lia.
  unfold skey, spkey in *.
  destruct hp as [k|]; cbn [proc_key b_pproc] in H; subst; mrun; rewrite P; mrun; dec_all; try reflexivity;
    (eexists; eexists; split; [reflexivity|]; repeat split; destruct hl; exact HL).
Qed.

(* ------------------------------------------------------------------ the lpt slot of the stream *)
Lemma nth_last {A} (l : list A) x : nth_error (l ++ [x]) (length l) = Some x.
Proof. rewrite nth_error_app2, Nat.sub_diag by lia. reflexivity. Qed.
Lemma upd_last {A} (l : list A) x f : upd_nth (l ++ [x]) (length l) f = l ++ [f x].
Proof. induction l as [|a l IH]; cbn [app length upd_nth]; [reflexivity|]. rewrite IH. reflexivity. Qed.

Lemma set_lpt_last b lp x f y : b_lpt b = lp ++ [x] -> f b x = Some y ->
  set_lpt (Some (length lp)) f b = ROk (tt, with_lpt b (lp ++ [y])).
Proof. intros E F. unfold set_lpt. rewrite E, nth_last, F, upd_last. reflexivity. Qed.

Definition tail (loom : ptr_loom) (proc : ptr_proc) (thread : ptr_thread) (s : ptr_stream) : M Z :=
  MetaBuildPre.bind (lpt_next tt) (fun lpt =>
    bind_ (set_lpt_stream lpt s) (bind_ (set_lpt_loom lpt loom) (bind_ (set_lpt_proc lpt proc)
      (bind_ (set_lpt_thread lpt thread) (bind_ (stream_data_set s lpt) (ret 0)))))).

Definition lpt_of (s : stream_meta) : lpt := mkL (Some s) (Some (s_loom s)) (Some (spkey s)) (Some (skey s)).

Lemma tail_spec b s hl hp ht : loom_key b hl = s_loom s -> proc_key b hp = spkey s -> thr_key b ht = skey s ->
  tail (Some hl) (Some hp) (Some ht) s b =
  ROk (0, with_data (with_lpt b (b_lpt b ++ [lpt_of s])) (b_data b ++ [(s, length (b_lpt b))])).
Proof.
  intros KL KP KT. destruct b as [x pl pp pt lp dt].
  destruct hl, hp, ht; cbn [loom_key proc_key thr_key b_ploom b_pproc b_pthr] in KL, KP, KT; subst;
  unfold tail, bind_, MetaBuildPre.bind, lpt_next, set_lpt_stream, set_lpt_loom, set_lpt_proc, set_lpt_thread, set_lpt, stream_data_set,
    ret, with_lpt, with_data, lpt_of, lpt0;
  repeat (cbn [b_st b_ploom b_pproc b_pthr b_lpt b_data loom_key proc_key thr_key l_stream l_loom l_proc l_thread];
          rewrite ?nth_last, ?upd_last); reflexivity.
Qed.

(* ------------------------------------------------------------------ the loop body of create_system *)
Lemma stream_body_run s b :
  stream_body tt s b =
  match create_loom tt s b with
  | ROk (loom, b1) =>
    if is_null loom then RErr E_FAIL else
    match create_proc loom s b1 with
    | ROk (proc, b2) =>
      if is_null proc then RErr E_FAIL else
      match create_thread proc s b2 with
      | ROk (thread, b3) => if is_null thread then RErr E_FAIL else tail loom proc thread s b3
      | RErr e => RErr e
      end
    | RErr e => RErr e
    end
  | RErr e => RErr e
  end.
Proof.
  unfold stream_body. rewrite bind_run. change (is_thread_stream s b) with (@ROk (Z * bstate) (1, b)). cbn [Z.ltb Z.eqb Z.compare ite].
  rewrite bind_run. destruct (create_loom tt s b) as [[loom b1]|]; [|reflexivity].
  destruct loom as [hl|]; [|reflexivity]. cbn [is_null ite]. rewrite bind_run.
  destruct (create_proc (Some hl) s b1) as [[proc b2]|]; [|reflexivity].
  destruct proc as [hp|]; [|reflexivity]. cbn [is_null ite]. rewrite bind_run.
  destruct (create_thread (Some hp) s b2) as [[thread b3]|]; [|reflexivity].
  destruct thread as [ht|]; reflexivity.
Qed.

Theorem stream_body_from_source b s : looms_ok (b_st b) ->
  match step_gen add_cpu (b_st b) s with
  | Ok x' => exists b', stream_body tt s b = ROk (0, b') /\ b_st b' = x' /\
               b_lpt b' = b_lpt b ++ [lpt_of s] /\ b_data b' = b_data b ++ [(s, length (b_lpt b))]
  | _ => stream_body tt s b = RErr E_FAIL
  end.
Proof.
  intros OK. rewrite stream_body_run. pose proof (create_loom_spec b s OK) as CL.
  destruct (b_st b) as [looms [cpus [procs [apps [ranks threads]]]]] eqn:EB.
  unfold step_gen, par. cbn [fst snd st_looms st_cpus] in *.
  destruct (part add_loom loom_claim looms s) as [l'| |]; cbn [MetaDefs.bind]; try (rewrite CL; reflexivity).
  destruct (part add_cpu cpu_claim cpus s) as [c'| |]; cbn [MetaDefs.bind]; try (rewrite CL; reflexivity).
  destruct CL as (hl & b1 & E1 & K1 & S1 & L1 & D1). rewrite E1. cbn [is_null].
  pose proof (create_proc_spec b1 s hl K1) as CP. rewrite S1 in CP.
  cbn [set_cpus set_looms st_looms st_cpus st_procs st_apps st_ranks fst snd] in CP.
  destruct (part add_proc proc_claim procs s) as [p'| |]; cbn [MetaDefs.bind]; try (rewrite CP; reflexivity).
  destruct (part add_app app_claim apps s) as [a'| |]; cbn [MetaDefs.bind]; try (rewrite CP; reflexivity).
  destruct (part add_rank rank_claim ranks s) as [r'| |]; cbn [MetaDefs.bind]; try (rewrite CP; reflexivity).
  destruct CP as (hp & b2 & E2 & K2 & K1' & S2 & L2 & D2). rewrite E2. cbn [is_null].
  pose proof (create_thread_spec b2 s hl hp K1' K2) as CT. rewrite S2 in CT.
  cbn [set_apps_ranks set_procs set_cpus set_looms st_looms st_cpus st_procs st_apps st_ranks st_threads fst snd] in CT.
  destruct (part add_thread thread_claim threads s) as [t'| |]; cbn [MetaDefs.bind]; try (rewrite CT; reflexivity).
  destruct CT as (ht & b3 & E3 & K3 & K2' & K1'' & S3 & L3 & D3). rewrite E3. cbn [is_null].
  rewrite (tail_spec b3 s hl hp ht K1'' K2' K3).
  eexists. split; [reflexivity|]. destruct b3 as [x3 pl3 pp3 pt3 lp3 dt3]. cbn [b_st b_lpt b_data with_data with_lpt] in *.
  subst. split; [reflexivity|]. rewrite L2, L1, D2, D1. split; reflexivity.
Qed.

(* ------------------------------------------------------------------ create_system: the loop over the streams *)
(* for (struct stream *s = trace->streams; s; s = s->next) { body }: `return -1` in the body leaves create_system with -1,
   `continue` and the end of the body go to the next stream *)
Fixpoint run_streams (m : list stream_meta) (b : bstate) : rres bstate :=
  match m with
  | [] => ROk b
  | s :: r => match stream_body tt s b with
              | ROk (rc, b') => if rc =? 0 then run_streams r b' else RErr E_FAIL
              | RErr e => RErr e
              end
  end.

Lemma step_looms_ok x s x' : looms_ok x -> step_gen add_cpu x s = Ok x' -> looms_ok x'.
Proof.
  destruct x as [looms [cpus [procs [apps [ranks threads]]]]]. unfold looms_ok, step_gen, par. cbn [fst snd st_looms].
  intros OK. rewrite part_loom. destruct (valid_name (s_loom s)) eqn:V; cbn [negb MetaDefs.bind]; [|discriminate].
  destruct (in_dec name_dec (s_loom s) looms) as [I|I]; cbn [MetaDefs.bind].
  - match goal with |- MetaDefs.bind ?r _ = _ -> _ => destruct r as [y| |] end; cbn [MetaDefs.bind]; try discriminate. intros H. injection H as <-. exact OK.
  - match goal with |- MetaDefs.bind ?r _ = _ -> _ => destruct r as [y| |] end; cbn [MetaDefs.bind]; try discriminate. intros H. injection H as <-. cbn [fst].
    apply Forall_app. split; [exact OK|]. constructor; [exact V|constructor].
Qed.

Lemma build_loop : forall m b, looms_ok (b_st b) ->
  match run (step_gen add_cpu) m (b_st b) with
  | Ok x' => exists b', run_streams m b = ROk b' /\ b_st b' = x' /\ b_lpt b' = b_lpt b ++ map lpt_of m
  | _ => run_streams m b = RErr E_FAIL
  end.
Proof.
  induction m as [|s m IH]; intros b OK; cbn [run run_streams map].
  - exists b. rewrite app_nil_r. repeat split.
  - pose proof (stream_body_from_source b s OK) as H.
    destruct (step_gen add_cpu (b_st b) s) as [x1| |] eqn:ST; try (rewrite H; reflexivity).
    destruct H as (b1 & E & S & L & D). rewrite E. cbn [Z.eqb].
    assert (OK1 : looms_ok (b_st b1)) by (rewrite S; exact (step_looms_ok _ _ _ OK ST)).
    specialize (IH b1 OK1). rewrite S in IH.
    destruct (run (step_gen add_cpu) m x1) as [x2| |]; try exact IH.
    destruct IH as (b2 & E2 & S2 & L2). exists b2. split; [exact E2|]. split; [exact S2|].
    rewrite L2, L, <- app_assoc. reflexivity.
Qed.

(* folding the generated per-stream body over the streams from the empty system = MetaDefs.raw: same refusals, same
   looms / CPUs / processes / app ids / ranks / threads in the same insertion order; the lpt map gives every stream its
   loom, process and thread *)
Theorem system_build_raw_from_source : forall m,
  match raw m with
  | Ok x => exists b, run_streams m b0 = ROk b /\ b_st b = x /\ b_lpt b = map lpt_of m
  | _ => run_streams m b0 = RErr E_FAIL
  end.
Proof. intros m. exact (build_loop m b0 (Forall_nil _)). Qed.

(* ... hence MetaDefs.build (the sorts and the final checks of system_init, tied by unit cmp_meta, applied to that state) *)
Theorem system_build_from_source : forall m,
  match run_streams m b0 with
  | ROk b => build m = finish (b_st b) /\ b_lpt b = map lpt_of m
  | RErr _ => forall sys, build m <> Ok sys
  end.
Proof.
  intros m. pose proof (system_build_raw_from_source m) as H. unfold build, build_gen. fold raw.
  destruct (raw m) as [x| |].
  - destruct H as (b & E & S & L). rewrite E, S. split; [reflexivity|exact L].
  - rewrite H. intros sys; discriminate.
  - rewrite H. intros sys; discriminate.
Qed.

(* ------------------------------------------------------------------ examples, by computation on the generated code *)
Definition ex_s1 : stream_meta := mkS [110; 48] 100 101 (Some 1) (Some 0) (Some 2) (Some [(0, 7); (1, 9)]).
Definition ex_s2 : stream_meta := mkS [110; 48] 100 102 (Some 1) None None None.
Definition ex_s3 : stream_meta := mkS [110; 49] 200 201 (Some 1) None None None.
Definition st_of (r : rres bstate) : option state := match r with ROk b => Some (b_st b) | RErr _ => None end.
Lemma ex_build_three : st_of (run_streams [ex_s1; ex_s2; ex_s3] b0) = match raw [ex_s1; ex_s2; ex_s3] with Ok x => Some x | _ => None end /\
  st_of (run_streams [ex_s1; ex_s2; ex_s3] b0) <> None.
Proof. vm_compute. split; [reflexivity|discriminate]. Qed.
(* the same tid twice in one process; an app id that contradicts the process's; a loom name with '/' *)
Lemma ex_build_refusals :
  run_streams [ex_s1; ex_s1] b0 = RErr E_FAIL /\
  run_streams [ex_s1; mkS [110; 48] 100 102 (Some 2) None None None] b0 = RErr E_FAIL /\
  run_streams [mkS [110; 47; 48] 100 101 (Some 1) None None None] b0 = RErr E_FAIL.
Proof. vm_compute. repeat split. Qed.
(* the same tid in two processes is accepted by create_system (the duplicate is caught later, MetaDefs.finish) *)
Lemma ex_build_tid_two_procs :
  st_of (run_streams [ex_s1; mkS [110; 48] 300 101 (Some 1) (Some 1) (Some 2) None] b0) <> None.
Proof. vm_compute. discriminate. Qed.
