(* Proofs about the clock-offset table model (Emu/ClkoffDefs.v) and its composition with the player
   (Emu/PlayerDefs.v).  No bound on the size of the table, the number of looms or streams. *)
From Coq Require Import ZArith List Bool Arith Lia Permutation Sorted ZifyNat ZifyBool.
From OV Require Import Emu.HeapDefs Emu.PlayerDefs Emu.ClkoffDefs Proofs.HeapProofs Proofs.PlayerProofs.
Import ListNotations.
Local Open Scope Z_scope.

(* ------------------------------------------------------------------ byte strings *)

Lemma beq_eq a b : beq a b = true <-> a = b.
Proof.
  revert b. induction a as [|x a IH]; destruct b as [|y b]; cbn [beq]; try (split; [discriminate|discriminate]).
  - tauto.
  - rewrite andb_true_iff, IH, Z.eqb_eq. split; [intros [-> ->]; reflexivity|intros H; inversion H; auto].
Qed.

Lemma beq_refl a : beq a a = true.
Proof. apply beq_eq. reflexivity. Qed.

Lemma beq_neq a b : beq a b = false <-> a <> b.
Proof. rewrite <- beq_eq. destruct (beq a b); split; congruence. Qed.

Lemma beq_sym a b : beq a b = beq b a.
Proof.
  destruct (beq a b) eqn:E; symmetry.
  - apply beq_eq in E. subst. apply beq_refl.
  - apply beq_neq. apply beq_neq in E. congruence.
Qed.

(* ------------------------------------------------------------------ host_offset: the Spec lookup *)

Lemma host_offset_in hes h o : NoDup (map fst hes) -> In (h, o) hes -> host_offset hes h = o.
Proof.
  induction hes as [|[h' o'] t IH]; cbn [host_offset map fst In]; [tauto|].
  intros Hnd [E|Hin].
  - inversion E; subst. rewrite beq_refl. reflexivity.
  - inversion Hnd as [|? ? Hni Hnd']; subst.
    destruct (beq h' h) eqn:E.
    + apply beq_eq in E. subst. exfalso. apply Hni. apply in_map_iff. exists (h, o). auto.
    + auto.
Qed.

Lemma host_offset_notin hes h : ~ In h (map fst hes) -> host_offset hes h = 0.
Proof.
  induction hes as [|[h' o'] t IH]; cbn [host_offset map fst In]; [reflexivity|].
  intros Hni. destruct (beq h' h) eqn:E.
  - apply beq_eq in E. tauto.
  - apply IH. tauto.
Qed.

Lemma host_offset_app a b h :
  host_offset (a ++ b) h = if existsb (fun x => beq (fst x) h) a then host_offset a h else host_offset b h.
Proof.
  induction a as [|[h' o'] t IH]; cbn [app host_offset existsb fst]; [reflexivity|].
  destruct (beq h' h); cbn [orb]; auto.
Qed.

Lemma existsb_names a h : existsb (fun x : list Z * Z => beq (fst x) h) a = true <-> In h (map fst a).
Proof.
  rewrite existsb_exists, in_map_iff. split; intros [x [H1 H2]]; exists x.
  - apply beq_eq in H2. auto.
  - subst. split; [auto|apply beq_refl].
Qed.

(* the lookup does not depend on the order of a table with distinct hosts *)
Lemma host_offset_perm hes hes' h :
  Permutation hes hes' -> NoDup (map fst hes) -> host_offset hes h = host_offset hes' h.
Proof.
  intros P Hnd.
  assert (Hnd' : NoDup (map fst hes')) by (eapply Permutation_NoDup; [apply Permutation_map; exact P|exact Hnd]).
  destruct (in_dec (list_eq_dec Z.eq_dec) h (map fst hes)) as [Hin|Hni].
  - apply in_map_iff in Hin as [[h0 o] [E Hin]]. cbn [fst] in E. subst h0.
    rewrite (host_offset_in hes h o Hnd Hin).
    symmetry. apply host_offset_in; [exact Hnd'|]. eapply Permutation_in; eauto.
  - rewrite host_offset_notin by exact Hni. symmetry. apply host_offset_notin.
    intros H. apply Hni. eapply Permutation_in; [apply Permutation_sym, Permutation_map; exact P|exact H].
Qed.

(* ------------------------------------------------------------------ the loops of parse_clkoff_entry / init_offsets *)

Definition st_of (f : list Z -> Z) (names : list (list Z)) : lstate := map (fun nm => (nm, f nm)) names.

Definition known (names : list (list Z)) (h : list Z) : bool := existsb (fun nm => beq (hostname nm) h) names.

Lemma set_matching_spec h off f names :
  (forall nm, In nm names -> hostname nm = h -> f nm = 0) ->
  exists n, set_matching h off (st_of f names) =
            Some (st_of (fun nm => if beq (hostname nm) h then off else f nm) names, n) /\
            (n = O <-> known names h = false).
Proof.
  induction names as [|nm t IH]; intros Hz.
  - exists O. cbn. tauto.
  - destruct IH as [n [E Hn]]. { intros; apply Hz; [right; auto|auto]. }
    cbn [st_of map set_matching known existsb]. fold (st_of f t). fold (known t h). rewrite E.
    destruct (beq (hostname nm) h) eqn:B.
    + rewrite (Hz nm (or_introl eq_refl)) by (apply beq_eq; exact B). cbn [Z.eqb].
      exists (S n). split; [reflexivity|]. cbn [orb]. split; discriminate.
    + exists n. split; [reflexivity|]. cbn [orb]. exact Hn.
Qed.

Lemma apply_entries_spec es : forall done names,
  NoDup (map fst (done ++ es)) ->
  apply_entries es (st_of (fun nm => host_offset done (hostname nm)) names) =
  if forallb (fun e => known names (fst e)) es
  then inr (st_of (fun nm => host_offset (done ++ es) (hostname nm)) names)
  else inl EUnknownHost.
Proof.
  induction es as [|[h off] t IH]; intros done names Hnd.
  - cbn [apply_entries forallb]. rewrite app_nil_r. reflexivity.
  - cbn [apply_entries forallb fst].
    assert (Hh : ~ In h (map fst done)).
    { rewrite map_app in Hnd. cbn [map fst] in Hnd. apply NoDup_remove_2 in Hnd.
      intros H. apply Hnd. apply in_or_app. auto. }
    destruct (set_matching_spec h off (fun nm => host_offset done (hostname nm)) names) as [n [E Hn]].
    { intros nm _ <-. apply host_offset_notin. exact Hh. }
    rewrite E. destruct n as [|n].
    + rewrite (proj1 Hn eq_refl). reflexivity.
    + destruct (known names h) eqn:K; [|destruct Hn as [_ Hn]; discriminate (Hn eq_refl)].
      cbn [andb].
      assert (Est : st_of (fun nm => if beq (hostname nm) h then off else host_offset done (hostname nm)) names =
                    st_of (fun nm => host_offset (done ++ [(h, off)]) (hostname nm)) names).
      { unfold st_of. apply map_ext. intros nm. f_equal. rewrite host_offset_app.
        destruct (existsb (fun x : list Z * Z => beq (fst x) (hostname nm)) done) eqn:X.
        - apply existsb_names in X. destruct (beq (hostname nm) h) eqn:B; [|reflexivity].
          apply beq_eq in B. rewrite B in X. tauto.
        - cbn [host_offset]. rewrite (beq_sym h). destruct (beq (hostname nm) h) eqn:B; [reflexivity|].
          rewrite host_offset_notin; [reflexivity|]. intros H. apply existsb_names in H. congruence. }
      rewrite Est. rewrite (IH (done ++ [(h, off)]) names) by (rewrite <- app_assoc; exact Hnd).
      rewrite <- app_assoc. reflexivity.
Qed.

(* looms created from the streams: all offsets 0, every stream's loom present *)
Lemma init_looms_zero sl : forall acc, (forall x, In x acc -> snd x = 0) -> forall x, In x (init_looms sl acc) -> snd x = 0.
Proof.
  induction sl as [|l t IH]; intros acc Hz; cbn [init_looms]; [exact Hz|].
  destruct (existsb (fun x => beq (fst x) l) acc); apply IH; [exact Hz|].
  intros x Hx. apply in_app_or in Hx as [Hx|[<-|[]]]; auto.
Qed.

Lemma init_looms_incl sl : forall acc l, In l sl \/ In l (map fst acc) -> In l (map fst (init_looms sl acc)).
Proof.
  induction sl as [|l0 t IH]; intros acc l H; cbn [init_looms].
  - destruct H as [[]|H]; exact H.
  - destruct (existsb (fun x => beq (fst x) l0) acc) eqn:X.
    + apply IH. destruct H as [[<-|H]|H]; auto.
      right. apply existsb_exists in X as [x [Hx B]]. apply beq_eq in B. subst. apply in_map. exact Hx.
    + apply IH. rewrite map_app, in_app_iff. cbn [map fst In]. destruct H as [[<-|H]|H]; auto.
Qed.

Lemma init_looms_only sl : forall acc l, In l (map fst (init_looms sl acc)) -> In l sl \/ In l (map fst acc).
Proof.
  induction sl as [|l0 t IH]; intros acc l H; cbn [init_looms] in H; [auto|].
  destruct (existsb (fun x => beq (fst x) l0) acc).
  - apply IH in H. cbn [In]. tauto.
  - apply IH in H. rewrite map_app, in_app_iff in H. cbn [map fst In] in *. tauto.
Qed.

Lemma zero_state (ls : lstate) : (forall x, In x ls -> snd x = 0) -> ls = st_of (fun _ => 0) (map fst ls).
Proof.
  induction ls as [|[nm o] t IH]; intros Hz; [reflexivity|].
  pose proof (Hz (nm, o) (or_introl eq_refl)) as H0. cbn [snd] in H0. subst o.
  cbn [st_of map fst]. f_equal.
  apply IH. intros; apply Hz; right; auto.
Qed.

Lemma loom_offset_st f names l : In l names -> loom_offset (st_of f names) l = f l.
Proof.
  induction names as [|nm t IH]; cbn [st_of map loom_offset In]; [tauto|].
  intros H. destruct (beq nm l) eqn:B.
  - apply beq_eq in B. subst. reflexivity.
  - apply IH. destruct H as [->|H]; [rewrite beq_refl in B; discriminate|exact H].
Qed.

Lemma known_init sl h :
  known (map fst (init_looms sl [])) h = existsb (fun l => beq (hostname l) h) sl.
Proof.
  unfold known. apply eq_true_iff_eq. rewrite !existsb_exists.
  split; intros [nm [H1 H2]]; exists nm; split; auto.
  - apply init_looms_only in H1. cbn in H1. tauto.
  - apply init_looms_incl. auto.
Qed.

(* all entries known to some loom of some stream *)
Definition all_known (hes : list (list Z * Z)) (sl : list (list Z)) : bool :=
  forallb (fun e => existsb (fun l => beq (hostname l) (fst e)) sl) hes.

(* the two loops of init_offsets compute the Spec lookup, or refuse an unknown host *)
Lemma init_offsets_spec hes sl :
  NoDup (map fst hes) ->
  match apply_entries hes (init_looms sl []) with
  | inl e => e = EUnknownHost /\ all_known hes sl = false
  | inr ls => all_known hes sl = true /\
              map (loom_offset ls) sl = map (fun l => host_offset hes (hostname l)) sl
  end.
Proof.
  intros Hnd.
  rewrite (zero_state (init_looms sl [])) by (apply init_looms_zero; intros x []).
  pose proof (apply_entries_spec hes [] (map fst (init_looms sl [])) Hnd) as E.
  cbn [host_offset app] in E. rewrite E.
  assert (K : forallb (fun e : list Z * Z => known (map fst (init_looms sl [])) (fst e)) hes = all_known hes sl).
  { unfold all_known. clear E Hnd. induction hes as [|e t IHt]; [reflexivity|]. cbn [forallb]. rewrite known_init.
    f_equal. exact IHt. }
  rewrite K. destruct (all_known hes sl); [|auto].
  split; [reflexivity|]. apply map_ext_in. intros l Hl.
  apply (loom_offset_st (fun nm => host_offset hes (hostname nm))). apply init_looms_incl. auto.
Qed.

(* ------------------------------------------------------------------ cparse / load_table *)

Lemma has_name_in n tbl : has_name n tbl = true <-> In n (map e_name tbl).
Proof.
  unfold has_name. rewrite existsb_exists, in_map_iff. split; intros [x [H1 H2]]; exists x.
  - apply beq_eq in H2. auto.
  - subst. split; [auto|apply beq_refl].
Qed.

Lemma nodup_snoc (A : Type) (l : list A) a : NoDup l -> ~ In a l -> NoDup (l ++ [a]).
Proof.
  intros H1 H2. apply (Permutation_NoDup (Permutation_cons_append l a)). constructor; auto.
Qed.

Lemma cparse_ok ls : forall acc es, cparse ls acc = inr es -> NoDup (map e_name acc) ->
  exists es', es = acc ++ es' /\ NoDup (map e_name es) /\ parsed_prefix ls es'.
Proof.
  induction ls as [|l t IH]; intros acc es E Hnd; cbn [cparse] in E.
  - inversion E; subst. exists []. rewrite app_nil_r. repeat split; [exact Hnd|constructor].
  - destruct (blank_line l) eqn:B.
    + destruct (IH _ _ E Hnd) as [es' [H1 [H2 H3]]]. exists es'. repeat split; auto. apply PP_blank; auto.
    + destruct (scan_line (cstr l)) as [|n|e] eqn:S.
      * inversion E; subst. exists []. rewrite app_nil_r. repeat split; [exact Hnd|apply PP_eof; auto].
      * discriminate.
      * destruct (has_name (e_name e) acc) eqn:H; [discriminate|].
        assert (Hni : ~ In (e_name e) (map e_name acc)).
        { intros X. apply has_name_in in X. congruence. }
        destruct (IH _ _ E) as [es' [H1 [H2 H3]]].
        { rewrite map_app. cbn [map]. apply nodup_snoc; auto. }
        exists (e :: es'). rewrite H1, <- app_assoc. repeat split; auto.
        { rewrite H1, <- app_assoc in H2. exact H2. }
        apply PP_entry; auto.
Qed.

(* a successful load: distinct names, at least one entry, and every consumed line was an empty
   line or gave 5 conversions *)
Lemma load_ok_inv file es : load_table file = inr es ->
  NoDup (map e_name es) /\ es <> [] /\ exists hdr ls, file_lines file = hdr :: ls /\ parsed_prefix ls es.
Proof.
  unfold load_table. destruct (file_lines file) as [|hdr ls] eqn:F; [discriminate|].
  destruct (cparse ls []) as [e|tbl] eqn:C; [discriminate|].
  destruct tbl as [|e0 tbl]; [discriminate|]. intros E. inversion E; subst.
  destruct (cparse_ok ls [] _ C (NoDup_nil _)) as [es' [H1 [H2 H3]]]. cbn [app] in H1. subst es'.
  repeat split; [exact H2|discriminate|]. exists hdr, ls. auto.
Qed.

(* lines that are empty or give an entry *)
Inductive lines_entries : list (list Z) -> list entry -> Prop :=
| LE_nil : lines_entries [] []
| LE_blank l t es : blank_line l = true -> lines_entries t es -> lines_entries (l :: t) es
| LE_entry l t e es : blank_line l = false -> scan_line (cstr l) = LEntry e -> lines_entries t es ->
    lines_entries (l :: t) (e :: es).

Lemma cparse_good ls es : lines_entries ls es -> forall acc rest,
  (NoDup (map e_name (acc ++ es)) -> cparse (ls ++ rest) acc = cparse rest (acc ++ es)) /\
  (NoDup (map e_name acc) -> ~ NoDup (map e_name (acc ++ es)) -> cparse (ls ++ rest) acc = inl EDuplicate).
Proof.
  induction 1 as [|l t es B _ IH|l t e es B S _ IH]; intros acc rest.
  - rewrite app_nil_r. cbn [app]. split; [reflexivity|tauto].
  - cbn [app cparse]. rewrite B. apply IH.
  - cbn [app cparse]. rewrite B, S.
    replace (acc ++ e :: es) with ((acc ++ [e]) ++ es) by (rewrite <- app_assoc; reflexivity).
    destruct (has_name (e_name e) acc) eqn:H.
    + apply has_name_in in H. split.
      * intros Hnd. exfalso. rewrite <- app_assoc, map_app in Hnd. cbn [app map] in Hnd.
        apply NoDup_remove_2 in Hnd. apply Hnd. apply in_or_app. auto.
      * reflexivity.
    + destruct (IH (acc ++ [e]) rest) as [IH1 IH2]. split; [exact IH1|].
      intros Hnd Hdup. apply IH2; [|exact Hdup].
      rewrite map_app. cbn [map]. apply nodup_snoc; [exact Hnd|].
      intros X. apply has_name_in in X. congruence.
Qed.

Lemma load_malformed file hdr good es bad n rest :
  file_lines file = hdr :: good ++ bad :: rest -> lines_entries good es ->
  blank_line bad = false -> scan_line (cstr bad) = LFields n ->
  load_table file = inl (EFields n) \/ load_table file = inl EDuplicate.
Proof.
  intros F G B S. unfold load_table. rewrite F.
  destruct (cparse_good good es G [] (bad :: rest)) as [H1 H2]. cbn [app] in H1, H2.
  destruct (ListDec.NoDup_dec (list_eq_dec Z.eq_dec) (map e_name es)) as [Hnd|Hd].
  - rewrite (H1 Hnd). cbn [cparse]. rewrite B, S. auto.
  - rewrite (H2 (NoDup_nil _) Hd). auto.
Qed.

Lemma load_duplicate file hdr good es rest :
  file_lines file = hdr :: good ++ rest -> lines_entries good es -> ~ NoDup (map e_name es) ->
  load_table file = inl EDuplicate.
Proof.
  intros F G Hd. unfold load_table. rewrite F.
  destruct (cparse_good good es G [] rest) as [_ H2]. cbn [app] in H2.
  rewrite (H2 (NoDup_nil _) Hd). reflexivity.
Qed.

(* a well-formed table: header, then lines that are empty or entries with distinct names *)
Lemma load_good file hdr ls es :
  file_lines file = hdr :: ls -> lines_entries ls es -> NoDup (map e_name es) -> es <> [] ->
  load_table file = inr es.
Proof.
  intros F G Hnd Hne. unfold load_table. rewrite F.
  destruct (cparse_good ls es G [] []) as [H1 _]. cbn [app] in H1. rewrite app_nil_r in H1.
  rewrite (H1 Hnd). cbn [cparse]. destruct es; [congruence|reflexivity].
Qed.

(* ------------------------------------------------------------------ exact_entries *)

Definition is_int (e : entry) : bool := match e_median e with FInt _ => true | FOut => false end.
Definition to_pair (e : entry) : list Z * Z := (e_name e, match e_median e with FInt z => z | FOut => 0 end).

Lemma exact_entries_char es :
  exact_entries es = if forallb is_int es then Some (map to_pair es) else None.
Proof.
  induction es as [|e t IH]; [reflexivity|].
  cbn [exact_entries forallb map]. unfold is_int at 1, to_pair at 1. rewrite IH.
  destruct (e_median e); [|reflexivity]. cbn [andb]. destruct (forallb is_int t); reflexivity.
Qed.

Lemma exact_names es hes : exact_entries es = Some hes -> map fst hes = map e_name es.
Proof.
  rewrite exact_entries_char. destruct (forallb is_int es); [|discriminate].
  intros E. inversion E. rewrite map_map. reflexivity.
Qed.

Lemma exact_in es hes e : exact_entries es = Some hes -> In e es ->
  exists z, e_median e = FInt z /\ In (e_name e, z) hes.
Proof.
  rewrite exact_entries_char. destruct (forallb is_int es) eqn:A; [|discriminate].
  intros E Hin. inversion E; subst. rewrite forallb_forall in A. specialize (A e Hin).
  unfold is_int in A. destruct (e_median e) as [z|] eqn:M; [|discriminate].
  exists z. split; [reflexivity|]. apply in_map_iff. exists e. unfold to_pair. rewrite M. auto.
Qed.

(* ------------------------------------------------------------------ the characterisation of the whole computation *)

Definition lookup_all (hes : list (list Z * Z)) (sl : list (list Z)) : list Z :=
  map (fun l => host_offset hes (hostname l)) sl.

Lemma entries_offsets_char es sl : NoDup (map e_name es) ->
  entries_offsets es sl =
  match exact_entries es with
  | None => OUnspec
  | Some hes => if all_known hes sl then OOk (lookup_all hes sl) else OErr EUnknownHost
  end.
Proof.
  intros Hnd. unfold entries_offsets. destruct (exact_entries es) as [hes|] eqn:X; [|reflexivity].
  pose proof (init_offsets_spec hes sl) as H. rewrite (exact_names _ _ X) in H. specialize (H Hnd).
  destruct (apply_entries hes (init_looms sl [])) as [e|ls].
  - destruct H as [-> ->]. reflexivity.
  - destruct H as [-> ->]. reflexivity.
Qed.

Lemma trace_offsets_char file sl :
  trace_offsets (Some file) sl =
  match load_table file with
  | inl e => OErr e
  | inr es =>
    match exact_entries es with
    | None => OUnspec
    | Some hes => if all_known hes sl then OOk (lookup_all hes sl) else OErr EUnknownHost
    end
  end.
Proof.
  unfold trace_offsets. destruct (load_table file) as [e|es] eqn:L; [reflexivity|].
  apply entries_offsets_char. apply (load_ok_inv _ _ L).
Qed.

Lemma all_known_iff hes sl :
  all_known hes sl = true <-> forall h, In h (map fst hes) -> exists l, In l sl /\ hostname l = h.
Proof.
  unfold all_known. rewrite forallb_forall. split.
  - intros H h Hin. apply in_map_iff in Hin as [e [<- He]]. specialize (H e He).
    apply existsb_exists in H as [l [H1 H2]]. apply beq_eq in H2. eauto.
  - intros H e He. destruct (H (fst e) (in_map fst _ _ He)) as [l [H1 H2]].
    apply existsb_exists. exists l. split; [auto|]. apply beq_eq. exact H2.
Qed.

(* ------------------------------------------------------------------ 1. the offset is the host's entry *)

Theorem offset_is_hosts_entry file sl offs :
  trace_offsets (Some file) sl = OOk offs ->
  exists es, load_table file = inr es /\ NoDup (map e_name es) /\ length offs = length sl /\
    forall i, (i < length sl)%nat ->
      let host := hostname (nth i sl []) in
      (forall e, In e es -> e_name e = host -> e_median e = FInt (nth i offs 0)) /\
      ((forall e, In e es -> e_name e <> host) -> nth i offs 0 = 0).
Proof.
  rewrite trace_offsets_char. destruct (load_table file) as [e|es] eqn:L; [discriminate|].
  destruct (exact_entries es) as [hes|] eqn:X; [|discriminate].
  destruct (all_known hes sl); [|discriminate]. intros E. inversion E; subst. clear E.
  destruct (load_ok_inv _ _ L) as [Hnd _].
  exists es. split; [reflexivity|]. split; [exact Hnd|]. split; [unfold lookup_all; apply map_length|].
  intros i Hi host.
  assert (Hn : nth i (lookup_all hes sl) 0 = host_offset hes host).
  { unfold lookup_all. rewrite (nth_indep _ 0 (host_offset hes (hostname []))) by (rewrite map_length; exact Hi).
    rewrite (map_nth (fun l => host_offset hes (hostname l))). reflexivity. }
  rewrite Hn. split.
  - intros e He Hname. destruct (exact_in _ _ _ X He) as [z [M Hin]]. rewrite M. f_equal.
    symmetry. apply host_offset_in; [rewrite (exact_names _ _ X); exact Hnd|]. rewrite <- Hname. exact Hin.
  - intros Hno. apply host_offset_notin. rewrite (exact_names _ _ X). intros Hin.
    apply in_map_iff in Hin as [e [H1 H2]]. exact (Hno e H2 H1).
Qed.

(* no file: every offset is 0 *)
Lemma no_table_zero sl : trace_offsets None sl = OOk (map (fun _ => 0) sl).
Proof. reflexivity. Qed.

(* ------------------------------------------------------------------ 3. errors are refused *)

Lemma unknown_host_refused file es hes sl :
  load_table file = inr es -> exact_entries es = Some hes ->
  (exists e, In e es /\ forall l, In l sl -> hostname l <> e_name e) ->
  trace_offsets (Some file) sl = OErr EUnknownHost.
Proof.
  intros L X [e [He Hno]]. rewrite trace_offsets_char, L, X.
  destruct (all_known hes sl) eqn:K; [|reflexivity]. exfalso.
  rewrite all_known_iff in K. destruct (K (e_name e)) as [l [H1 H2]].
  - rewrite (exact_names _ _ X). apply in_map. exact He.
  - exact (Hno l H1 H2).
Qed.

Lemma load_error_refused file e sl : load_table file = inl e -> trace_offsets (Some file) sl = OErr e.
Proof. intros L. unfold trace_offsets. rewrite L. reflexivity. Qed.

(* success needs every entry's host among the looms *)
Lemma ok_all_known file sl offs es :
  trace_offsets (Some file) sl = OOk offs -> load_table file = inr es ->
  forall e, In e es -> exists l, In l sl /\ hostname l = e_name e.
Proof.
  rewrite trace_offsets_char. intros E L. rewrite L in E.
  destruct (exact_entries es) as [hes|] eqn:X; [|discriminate].
  destruct (all_known hes sl) eqn:K; [|discriminate].
  intros e He. rewrite all_known_iff in K. apply K. rewrite (exact_names _ _ X). apply in_map. exact He.
Qed.

(* ------------------------------------------------------------------ 2. independence of the orders *)

Lemma all_known_perm hes hes' sl sl' :
  Permutation hes hes' -> (forall l, In l sl <-> In l sl') -> all_known hes sl = all_known hes' sl'.
Proof.
  intros P S. apply eq_true_iff_eq. rewrite !all_known_iff. split; intros H h Hin.
  - destruct (H h) as [l [H1 H2]].
    { eapply Permutation_in; [apply Permutation_sym, Permutation_map; exact P|exact Hin]. }
    exists l. split; [apply S; exact H1|exact H2].
  - destruct (H h) as [l [H1 H2]].
    { eapply Permutation_in; [apply Permutation_map; exact P|exact Hin]. }
    exists l. split; [apply S; exact H1|exact H2].
Qed.

(* the order of the table entries (distinct hosts) changes nothing: same outcome, same offsets *)
Theorem entries_order_independent es es' sl :
  Permutation es es' -> NoDup (map e_name es) -> entries_offsets es sl = entries_offsets es' sl.
Proof.
  intros P Hnd.
  assert (Hnd' : NoDup (map e_name es')) by (eapply Permutation_NoDup; [apply Permutation_map; exact P|exact Hnd]).
  rewrite !entries_offsets_char by assumption. rewrite !exact_entries_char.
  assert (A : forallb is_int es = forallb is_int es').
  { apply eq_true_iff_eq. rewrite !forallb_forall. split; intros H x Hx; apply H.
    - eapply Permutation_in; [apply Permutation_sym; exact P|exact Hx].
    - eapply Permutation_in; [exact P|exact Hx]. }
  rewrite <- A. destruct (forallb is_int es); [|reflexivity].
  assert (P2 : Permutation (map to_pair es) (map to_pair es')) by (apply Permutation_map; exact P).
  rewrite (all_known_perm _ _ sl sl P2) by tauto.
  destruct (all_known (map to_pair es') sl); [|reflexivity]. f_equal.
  unfold lookup_all. apply map_ext. intros l. apply host_offset_perm; [exact P2|].
  rewrite map_map. exact Hnd.
Qed.

Lemma in_combine_map (A B : Type) (g : A -> B) l a b : In (a, b) (combine l (map g l)) <-> In a l /\ b = g a.
Proof.
  induction l as [|x t IH]; cbn [combine map In]; [tauto|].
  rewrite IH. split.
  - intros [E|[H1 H2]]; [inversion E; auto|auto].
  - intros [[->|H1] ->]; auto.
Qed.

(* the enumeration order (and multiplicity) of the streams changes nothing: the outcome is the same,
   and a loom gets the same offset wherever its streams are in the list *)
Theorem streams_order_independent tbl sl sl' :
  (forall l, In l sl <-> In l sl') ->
  match trace_offsets tbl sl with
  | OOk offs => exists offs', trace_offsets tbl sl' = OOk offs' /\ length offs' = length sl' /\
                  forall l o, In (l, o) (combine sl offs) <-> In (l, o) (combine sl' offs')
  | OErr e => trace_offsets tbl sl' = OErr e
  | OUnspec => trace_offsets tbl sl' = OUnspec
  end.
Proof.
  intros S. destruct tbl as [file|].
  - rewrite !trace_offsets_char. destruct (load_table file) as [e|es]; [reflexivity|].
    destruct (exact_entries es) as [hes|]; [|reflexivity].
    rewrite (all_known_perm hes hes sl sl' (Permutation_refl _) S).
    destruct (all_known hes sl'); [|reflexivity].
    exists (lookup_all hes sl'). split; [reflexivity|]. split; [apply map_length|].
    intros l o. unfold lookup_all. rewrite !in_combine_map. rewrite (S l). tauto.
  - cbn [trace_offsets]. exists (map (fun _ => 0) sl'). split; [reflexivity|]. split; [apply map_length|].
    intros l o. rewrite !in_combine_map. rewrite (S l). tauto.
Qed.

(* ------------------------------------------------------------------ 4. composition with the player *)

Lemma str_le_ble a : forall b, str_le a b = ble a b.
Proof. intros b. reflexivity. Qed.

Lemma ins_stream_by_path x l : ins_stream x l = ins_by_path x l.
Proof. induction l as [|y t IH]; cbn [ins_stream ins_by_path]; [reflexivity|]. rewrite str_le_ble, IH. reflexivity. Qed.

Lemma sort_streams_by_path enum : sort_streams enum = sort_by_path enum.
Proof.
  unfold sort_streams, sort_by_path. induction enum as [|x t IH]; cbn [fold_right]; [reflexivity|].
  rewrite IH. apply ins_stream_by_path.
Qed.

Section SortMap.
  Variables (A B : Type) (f : A -> B).
  Let F (x : list Z * A) : list Z * B := (fst x, f (snd x)).

  Lemma ins_by_path_map x l : ins_by_path (F x) (map F l) = map F (ins_by_path x l).
  Proof.
    induction l as [|y t IH]; cbn [map ins_by_path]; [reflexivity|].
    change (fst (F x)) with (fst x). change (fst (F y)) with (fst y).
    destruct (ble (fst x) (fst y)); cbn [map]; [reflexivity|].
    f_equal. exact IH.
  Qed.

  Lemma sort_by_path_map enum : sort_by_path (map F enum) = map F (sort_by_path enum).
  Proof.
    unfold sort_by_path. induction enum as [|x t IH]; cbn [map fold_right]; [reflexivity|].
    rewrite IH. apply ins_by_path_map.
  Qed.
End SortMap.

Lemma trace_streams_attach hes enum :
  trace_streams (map (attach hes) enum) = map (attach_s hes) (trace_tstreams enum).
Proof.
  unfold trace_streams, trace_tstreams. rewrite sort_streams_by_path.
  change (attach hes) with (fun x : list Z * tstrm => (fst x, attach_s hes (snd x))).
  rewrite (sort_by_path_map tstrm strm (attach_s hes)). rewrite !map_map. reflexivity.
Qed.

Lemma zip_lookup hes enum :
  zip_offs enum (lookup_all hes (map (fun x => t_loom (snd x)) enum)) = map (attach hes) enum.
Proof.
  unfold lookup_all. induction enum as [|x t IH]; cbn [map zip_offs]; [reflexivity|].
  rewrite IH. reflexivity.
Qed.

(* the emulator on (streams with loom names, table bytes) is the player on the streams with the
   offset READ OFF the table by host name *)
Theorem table_run tbl enum r :
  run_emu_table tbl enum = OOk r ->
  exists hes, table_entries tbl = Some hes /\
    (forall h, In h (map fst hes) -> exists x, In x enum /\ hostname (t_loom (snd x)) = h) /\
    r = run_emu (map (attach hes) enum).
Proof.
  unfold run_emu_table. destruct tbl as [file|].
  - rewrite trace_offsets_char. unfold table_entries.
    destruct (load_table file) as [e|es]; [discriminate|].
    destruct (exact_entries es) as [hes|]; [|discriminate].
    destruct (all_known hes _) eqn:K; [|discriminate].
    intros E. inversion E; subst. exists hes. split; [reflexivity|]. split.
    + intros h Hh. rewrite all_known_iff in K. destruct (K h Hh) as [l [H1 H2]].
      apply in_map_iff in H1 as [x [<- Hx]]. eauto.
    + rewrite zip_lookup. reflexivity.
  - cbn [trace_offsets table_entries]. intros E. inversion E; subst. exists []. split; [reflexivity|].
    split; [intros h []|].
    replace (map (fun _ : list Z => 0) (map (fun x : list Z * tstrm => t_loom (snd x)) enum))
      with (lookup_all [] (map (fun x : list Z * tstrm => t_loom (snd x)) enum)) by reflexivity.
    rewrite zip_lookup. reflexivity.
Qed.

(* conversely: a loadable table all of whose hosts have a loom gives a run *)
Lemma table_run_ok tbl enum hes :
  table_entries tbl = Some hes ->
  (forall h, In h (map fst hes) -> exists x, In x enum /\ hostname (t_loom (snd x)) = h) ->
  run_emu_table tbl enum = OOk (run_emu (map (attach hes) enum)).
Proof.
  unfold run_emu_table, table_entries. destruct tbl as [file|].
  - rewrite trace_offsets_char. destruct (load_table file) as [e|es]; [discriminate|].
    intros X K. rewrite X.
    assert (K' : all_known hes (map (fun x : list Z * tstrm => t_loom (snd x)) enum) = true).
    { apply all_known_iff. intros h Hh. destruct (K h Hh) as [x [H1 H2]].
      exists (t_loom (snd x)). split; [|exact H2]. apply in_map_iff. exists x. auto. }
    rewrite K', zip_lookup. reflexivity.
  - intros E _. inversion E; subst. cbn [trace_offsets].
    replace (map (fun _ : list Z => 0) (map (fun x : list Z * tstrm => t_loom (snd x)) enum))
      with (lookup_all [] (map (fun x : list Z * tstrm => t_loom (snd x)) enum)) by reflexivity.
    rewrite zip_lookup. reflexivity.
Qed.

Lemma tagged_id ss : forall k i c p, In (i, c, p) (tagged k ss) -> (k <= i < k + length ss)%nat.
Proof.
  induction ss as [|s t IH]; intros k i c p H; cbn [tagged] in H; [destruct H|].
  apply in_app_or in H as [H|H].
  - apply in_map_iff in H as [e [E _]]. inversion E; subst. cbn [length]. lia.
  - apply IH in H. cbn [length]. lia.
Qed.

Lemma corrected_table hes ts out :
  spec_complete (map (attach_s hes) ts) out -> spec_corrected (map (attach_s hes) ts) out ->
  spec_corrected_table hes ts out.
Proof.
  unfold spec_complete, spec_corrected, spec_corrected_table. intros C H.
  rewrite Forall_forall in *. intros o Ho. rewrite (H o Ho). f_equal.
  assert (Hid : (o_id o < length ts)%nat).
  { assert (Hin : In (untime o) (tagged 0 (map (attach_s hes) ts))).
    { eapply Permutation_in; [exact C|]. apply in_map. exact Ho. }
    unfold untime in Hin. apply tagged_id in Hin. rewrite map_length in Hin. lia. }
  rewrite (nth_indep _ no_strm (attach_s hes no_tstrm)) by (rewrite map_length; exact Hid).
  rewrite map_nth. reflexivity.
Qed.

(* C03_emu_replay for a trace given as streams with loom names + table bytes *)
Theorem table_replay tbl enum hes :
  table_entries tbl = Some hes ->
  (forall h, In h (map fst hes) -> exists x, In x enum /\ hostname (t_loom (snd x)) = h) ->
  let enum' := map (attach hes) enum in
  (forall x, In x enum' -> stream_ok (snd x) = true) -> gate_ok (trace_streams enum') = true ->
  exists out, run_emu_table tbl enum = OOk (out, VOk) /\
    spec_all (trace_streams enum') out /\ spec_corrected_table hes (trace_tstreams enum) out.
Proof.
  intros X K enum' Hs Hg. destruct (emu_replay enum' Hs Hg) as [out [E S]].
  exists out. split; [rewrite (table_run_ok _ _ _ X K); f_equal; exact E|]. split; [exact S|].
  destruct S as [S1 [_ [S3 _]]]. unfold enum' in S1, S3. rewrite trace_streams_attach in S1, S3.
  apply corrected_table; assumption.
Qed.

(* C03_merge_complete / C03_stream_order / C03_sorted / C03_paraver_time for the same *)
Theorem table_completed tbl enum out :
  run_emu_table tbl enum = OOk (out, VOk) ->
  exists hes, table_entries tbl = Some hes /\
    spec_all (trace_streams (map (attach hes) enum)) out /\
    spec_corrected_table hes (trace_tstreams enum) out.
Proof.
  intros E. destruct (table_run _ _ _ E) as [hes [X [_ R]]]. exists hes. split; [exact X|].
  destruct (emu_completed _ _ (eq_sym R)) as [S _]. split; [exact S|].
  destruct S as [S1 [_ [S3 _]]]. rewrite trace_streams_attach in S1, S3.
  apply corrected_table; assumption.
Qed.

(* table errors never reach the player *)
Lemma table_error_no_run file enum e :
  load_table file = inl e -> run_emu_table (Some file) enum = OErr e.
Proof. intros L. unfold run_emu_table. rewrite (load_error_refused _ _ _ L). reflexivity. Qed.

Theorem table_errors_refused :
  (forall file hdr good es bad n rest sl,
     file_lines file = hdr :: good ++ bad :: rest -> lines_entries good es ->
     blank_line bad = false -> scan_line (cstr bad) = LFields n ->
     trace_offsets (Some file) sl = OErr (EFields n) \/ trace_offsets (Some file) sl = OErr EDuplicate) /\
  (forall file hdr good es rest sl,
     file_lines file = hdr :: good ++ rest -> lines_entries good es -> ~ NoDup (map e_name es) ->
     trace_offsets (Some file) sl = OErr EDuplicate) /\
  (forall file es hes sl,
     load_table file = inr es -> exact_entries es = Some hes ->
     (exists e, In e es /\ forall l, In l sl -> hostname l <> e_name e) ->
     trace_offsets (Some file) sl = OErr EUnknownHost) /\
  (forall file es, load_table file = inr es ->
     NoDup (map e_name es) /\ es <> [] /\ exists hdr ls, file_lines file = hdr :: ls /\ parsed_prefix ls es).
Proof.
  split; [|split; [|split]].
  - intros file hdr good es bad n rest sl F G B S.
    destruct (load_malformed _ _ _ _ _ _ _ F G B S) as [L|L]; [left|right]; apply load_error_refused; exact L.
  - intros file hdr good es rest sl F G D. apply load_error_refused. eapply load_duplicate; eauto.
  - intros. eapply unknown_host_refused; eauto.
  - exact load_ok_inv.
Qed.

(* ------------------------------------------------------------------ 2c. a well-formed file parses to its rows *)

Lemma digit_facts c : is_digit c = true ->
  is_space c = false /\ is_sign c = false /\ (c =? 0) = false /\ (c =? 10) = false /\ lower c = c /\
  (c =? 45) = false /\ (c =? 110) = false /\ (c =? 105) = false /\ (c =? 120) = false /\ (c =? 46) = false.
Proof.
  unfold is_digit, is_space, is_sign, lower. intros H.
  assert (R : 48 <= c <= 57) by lia.
  assert (E : ((65 <=? c) && (c <=? 90)) = false) by lia. rewrite E.
  repeat split; lia.
Qed.

Lemma space_facts t : is_space t = true ->
  is_digit t = false /\ is_sign t = false /\ lower t = t /\ (t =? 46) = false /\ (t =? 101) = false /\
  (t =? 120) = false /\ (t =? 110) = false /\ (t =? 105) = false.
Proof.
  unfold is_digit, is_space, is_sign, lower. intros H.
  assert (R : t = 32 \/ 9 <= t <= 13) by lia.
  assert (E : ((65 <=? t) && (t <=? 90)) = false) by lia. rewrite E.
  repeat split; lia.
Qed.

Lemma span_app p a : forall b, forallb p a = true -> match b with [] => True | c :: _ => p c = false end ->
  span p (a ++ b) = (a, b).
Proof.
  induction a as [|x a IH]; intros b Ha Hb; cbn [app span].
  - destruct b as [|c b]; [reflexivity|]. cbn [span]. rewrite Hb. reflexivity.
  - cbn [forallb] in Ha. apply andb_true_iff in Ha as [Hx Ha]. rewrite Hx, (IH b Ha Hb). reflexivity.
Qed.

Lemma span_all p a : forallb p a = true -> span p a = (a, []).
Proof. intros H. rewrite <- (app_nil_r a) at 1. apply span_app; auto. Qed.

Lemma digits_val_acc ds : forall a, forallb is_digit ds = true -> 0 <= a -> 0 <= fold_left (fun a c => 10 * a + (c - 48)) ds a.
Proof.
  induction ds as [|d ds IH]; intros a H Ha; cbn [fold_left]; [exact Ha|].
  cbn [forallb] in H. apply andb_true_iff in H as [Hd H]. apply IH; [exact H|].
  unfold is_digit in Hd. lia.
Qed.

Lemma digits_val_nonneg ds : forallb is_digit ds = true -> 0 <= digits_val ds.
Proof. intros H. apply digits_val_acc; [exact H|lia]. Qed.

Lemma clamp_small z : 0 <= z <= LONG_MAX -> clamp_long z = z.
Proof.
  intros H. unfold clamp_long. destruct (Z.ltb_spec z (- LONG_MAX - 1)); [unfold LONG_MAX in *; lia|].
  destruct (Z.ltb_spec LONG_MAX z); [lia|reflexivity].
Qed.

Definition digs (l : list Z) : Prop := l <> [] /\ forallb is_digit l = true.

Lemma scan_long_digits ds t rest : digs ds -> is_space t = true -> digits_val ds <= LONG_MAX ->
  scan_long (ds ++ t :: rest) = Conv (digits_val ds) (t :: rest).
Proof.
  intros [Hne Hd] Ht Hmax. destruct ds as [|d ds']; [congruence|].
  pose proof Hd as Hd0. cbn [forallb] in Hd0. apply andb_true_iff in Hd0 as [Hd1 _].
  destruct (digit_facts d Hd1) as [F1 [F2 [_ [_ [_ [F6 _]]]]]].
  destruct (space_facts t Ht) as [G1 _].
  unfold scan_long. cbn [app skip_ws]. rewrite F1, F2.
  change (d :: ds' ++ t :: rest) with ((d :: ds') ++ t :: rest).
  rewrite (span_app is_digit (d :: ds') (t :: rest) Hd G1). rewrite F6.
  rewrite clamp_small; [reflexivity|]. pose proof (digits_val_nonneg _ Hd). lia.
Qed.

Definition name_ok (n : list Z) : Prop := n <> [] /\ forallb (fun c => negb (is_space c) && negb (c =? 0)) n = true.

Lemma name_nospace n : name_ok n -> forallb (fun c => negb (is_space c)) n = true.
Proof.
  intros [_ H]. rewrite forallb_forall in *. intros c Hc. specialize (H c Hc). apply andb_true_iff in H. tauto.
Qed.

Lemma scan_str_name n t rest : name_ok n -> is_space t = true ->
  scan_str (32 :: n ++ t :: rest) = Conv n (t :: rest).
Proof.
  intros Hn Ht. pose proof (name_nospace n Hn) as Hs. destruct Hn as [Hne _].
  destruct n as [|c n']; [congruence|].
  pose proof Hs as Hs0. cbn [forallb] in Hs0. apply andb_true_iff in Hs0 as [Hc _]. apply negb_true_iff in Hc.
  unfold scan_str. cbn [app skip_ws]. change (is_space 32) with true. cbv iota. rewrite Hc.
  change (c :: n' ++ t :: rest) with ((c :: n') ++ t :: rest).
  rewrite (span_app (fun c => negb (is_space c)) (c :: n') (t :: rest) Hs); [reflexivity|].
  rewrite Ht. reflexivity.
Qed.

Lemma fl_loop_digits ds' : forall d gd t rest, forallb is_digit (d :: ds') = true -> is_space t = true ->
  fl_loop false gd false false false (d :: ds' ++ t :: rest) = (true, d :: ds', t :: rest).
Proof.
  induction ds' as [|d' ds IH]; intros d gd t rest Hd Ht.
  - cbn [forallb] in Hd. apply andb_true_iff in Hd as [Hd _].
    destruct (space_facts t Ht) as [G1 [G2 [G3 [G4 [G5 _]]]]].
    cbn [app fl_loop]. rewrite Hd, G1. cbn [negb andb]. rewrite G3, G4, G5.
    rewrite ?andb_false_r. reflexivity.
  - cbn [forallb] in Hd. apply andb_true_iff in Hd as [Hd Hd'].
    pose proof (IH d' true t rest Hd' Ht) as IH'. cbn [app].
    remember (d' :: ds ++ t :: rest) as tl eqn:Etl. cbn [fl_loop]. rewrite Hd, IH'. reflexivity.
Qed.

Lemma scan_double_digits (neg : bool) ds t rest : digs ds -> is_space t = true ->
  exists v, scan_double (32 :: (if neg then [45] else []) ++ ds ++ t :: rest) = Conv v (t :: rest) /\
            (digits_val ds <= TWO53 -> v = FInt (if neg then - digits_val ds else digits_val ds)).
Proof.
  intros [Hne Hd] Ht. destruct ds as [|d ds']; [congruence|].
  pose proof Hd as Hd0. cbn [forallb] in Hd0. apply andb_true_iff in Hd0 as [Hd1 Hd2].
  destruct (digit_facts d Hd1) as [F1 [F2 [_ [_ [F5 [F6 [F7 [F8 _]]]]]]]].
  assert (Hx : match ds' ++ t :: rest with x :: t' => if (d =? 48) && (lower x =? 120) then Some t' else None | [] => None end = None).
  { destruct ds' as [|x ds'']; cbn [app].
    - destruct (space_facts t Ht) as [_ [_ [G3 [_ [_ [G6 _]]]]]]. rewrite G3, G6, andb_false_r. reflexivity.
    - cbn [forallb] in Hd2. apply andb_true_iff in Hd2 as [Hx _].
      destruct (digit_facts x Hx) as [_ [_ [_ [_ [X5 [_ [_ [_ [X9 _]]]]]]]]]. rewrite X5, X9, andb_false_r. reflexivity. }
  exists (dec_value neg (d :: ds')). split.
  - unfold scan_double. cbn [skip_ws]. change (is_space 32) with true. cbv iota.
    destruct neg; cbn [app skip_ws].
    + change (is_space 45) with false. cbv iota. change (is_sign 45) with true. cbv iota.
      rewrite F5, F7, F8, Hx. rewrite (fl_loop_digits ds' d false t rest Hd Ht). reflexivity.
    + rewrite F1, F2. rewrite F5, F7, F8, Hx. rewrite (fl_loop_digits ds' d false t rest Hd Ht).
      rewrite F6. reflexivity.
  - intros Hmax. unfold dec_value. rewrite (span_all is_digit _ Hd).
    destruct (digits_val (d :: ds') <=? TWO53) eqn:E; [reflexivity|lia].
Qed.

Definition row_body (r : row) : list Z :=
  r_index r ++ 32 :: r_name r ++ 32 :: (if r_neg r then [45] else []) ++ r_median r ++ 32 :: r_mean r ++ 32 :: r_std r.

Lemma render_row_body r : render_row r = row_body r ++ [10].
Proof. unfold render_row, row_body. repeat (rewrite <- app_assoc; cbn [app]). reflexivity. Qed.

Lemma digsb l : (match l with [] => false | _ => forallb is_digit l end) = true -> digs l.
Proof. destruct l; [discriminate|]. intros H. split; [discriminate|exact H]. Qed.

Lemma row_ok_facts r : row_ok r = true ->
  digs (r_index r) /\ digs (r_median r) /\ digs (r_mean r) /\ digs (r_std r) /\ name_ok (r_name r) /\
  (length (render_row r) <= 1023)%nat /\ digits_val (r_index r) <= LONG_MAX /\ digits_val (r_median r) <= TWO53.
Proof.
  unfold row_ok. rewrite !andb_true_iff. intros [[[[[[[H1 H2] H3] H4] H5] H6] H7] H8].
  repeat split; try (apply digsb; assumption); try lia.
  - destruct (r_name r); [discriminate|discriminate].
  - destruct (r_name r); [discriminate|exact H5].
Qed.

Lemma forallb_impl (p q : Z -> bool) l : (forall c, p c = true -> q c = true) -> forallb p l = true -> forallb q l = true.
Proof. intros H. rewrite !forallb_forall. auto. Qed.

Lemma row_body_forall (p : Z -> bool) r : row_ok r = true ->
  p 32 = true -> p 45 = true -> (forall c, is_digit c = true -> p c = true) -> forallb p (r_name r) = true ->
  forallb p (row_body r) = true.
Proof.
  intros Hr P32 P45 Pd Pn. destruct (row_ok_facts r Hr) as [[_ D1] [[_ D2] [[_ D3] [[_ D4] _]]]].
  unfold row_body. repeat (rewrite forallb_app || cbn [forallb]).
  rewrite (forallb_impl _ p _ Pd D1), (forallb_impl _ p _ Pd D2), (forallb_impl _ p _ Pd D3), (forallb_impl _ p _ Pd D4), Pn, P32.
  destruct (r_neg r); cbn [forallb]; rewrite ?P45; reflexivity.
Qed.

Lemma cstr_id l : forallb (fun c => negb (c =? 0)) l = true -> cstr l = l.
Proof.
  induction l as [|c t IH]; cbn [forallb cstr]; [reflexivity|]. rewrite andb_true_iff, negb_true_iff.
  intros [-> H]. rewrite IH by exact H. reflexivity.
Qed.

Lemma row_nonul r : row_ok r = true -> cstr (render_row r) = render_row r.
Proof.
  intros Hr. apply cstr_id. rewrite render_row_body, forallb_app. cbn [forallb]. rewrite andb_true_r.
  apply row_body_forall; auto.
  - intros c H. destruct (digit_facts c H) as [_ [_ [-> _]]]. reflexivity.
  - destruct (row_ok_facts r Hr) as [_ [_ [_ [_ [[_ Hn] _]]]]].
    eapply forallb_impl; [|exact Hn]. intros c H. apply andb_true_iff in H. tauto.
Qed.

Lemma row_nonl r : row_ok r = true -> forallb (fun c => negb (c =? 10)) (row_body r) = true.
Proof.
  intros Hr. apply row_body_forall; auto.
  - intros c H. destruct (digit_facts c H) as [_ [_ [_ [-> _]]]]. reflexivity.
  - destruct (row_ok_facts r Hr) as [_ [_ [_ [_ [[_ Hn] _]]]]].
    eapply forallb_impl; [|exact Hn]. intros c H. apply andb_true_iff in H as [H _].
    unfold is_space in H. lia.
Qed.

(* a well-formed line gives its row *)
Lemma scan_row r : row_ok r = true -> scan_line (render_row r) = LEntry (row_entry r).
Proof.
  intros Hr. destruct (row_ok_facts r Hr) as [D1 [D2 [D3 [D4 [Hn [_ [M1 M2]]]]]]].
  unfold render_row, scan_line.
  rewrite (scan_long_digits (r_index r) 32 _ D1 eq_refl M1).
  rewrite (scan_str_name (r_name r) 32 _ Hn eq_refl).
  destruct (scan_double_digits (r_neg r) (r_median r) 32 (r_mean r ++ 32 :: r_std r ++ [10]) D2 eq_refl) as [v [E Hv]].
  rewrite E.
  destruct (scan_double_digits false (r_mean r) 32 (r_std r ++ [10]) D3 eq_refl) as [v2 [E2 _]].
  cbn [app] in E2. rewrite E2.
  destruct (scan_double_digits false (r_std r) 10 [] D4 eq_refl) as [v3 [E3 _]].
  cbn [app] in E3. rewrite E3.
  rewrite (Hv M2). reflexivity.
Qed.

Lemma row_not_blank r : row_ok r = true -> blank_line (render_row r) = false.
Proof.
  intros Hr. destruct (row_ok_facts r Hr) as [[Hne Hd] _]. unfold render_row.
  destruct (r_index r) as [|d ds]; [congruence|]. cbn [app blank_line].
  cbn [forallb] in Hd. apply andb_true_iff in Hd as [Hd _]. apply (digit_facts d Hd).
Qed.

Lemma rows_lines rows : Forall (fun r => row_ok r = true) rows ->
  lines_entries (map render_row rows) (map row_entry rows).
Proof.
  induction 1 as [|r t Hr _ IH]; cbn [map]; [constructor|].
  apply LE_entry; [apply row_not_blank; exact Hr|rewrite (row_nonul r Hr); apply scan_row; exact Hr|exact IH].
Qed.

(* fgets: a line shorter than the buffer is one chunk *)
Lemma chunks_line line : forall k acc rest,
  forallb (fun c => negb (c =? 10)) line = true -> (length line < k)%nat ->
  chunks k acc (line ++ 10 :: rest) = (rev acc ++ line ++ [10]) :: chunks 1023 [] rest.
Proof.
  induction line as [|c t IH]; intros k acc rest Hl Hk.
  - cbn [app chunks rev]. reflexivity.
  - cbn [forallb] in Hl. apply andb_true_iff in Hl as [Hc Hl]. apply negb_true_iff in Hc.
    cbn [app chunks length] in *. rewrite Hc. cbn [orb].
    destruct (k <=? 1)%nat eqn:K; [apply Nat.leb_le in K; lia|].
    rewrite (IH (k - 1)%nat (c :: acc) rest Hl) by lia.
    cbn [rev]. rewrite <- !app_assoc. reflexivity.
Qed.

Lemma file_lines_rows rows : Forall (fun r => row_ok r = true) rows ->
  chunks 1023 [] (concat (map render_row rows)) = map render_row rows.
Proof.
  induction 1 as [|r t Hr _ IH]; cbn [map concat]; [reflexivity|].
  destruct (row_ok_facts r Hr) as [_ [_ [_ [_ [_ [L _]]]]]].
  rewrite render_row_body in *. rewrite <- app_assoc. cbn [app].
  rewrite app_length in L. cbn [length] in L.
  rewrite chunks_line; [|apply row_nonl; exact Hr|lia]. cbn [rev app]. rewrite IH. reflexivity.
Qed.

Lemma file_lines_table h rows : header_ok h = true -> Forall (fun r => row_ok r = true) rows ->
  file_lines (render_table h rows) = (h ++ [10]) :: map render_row rows.
Proof.
  unfold header_ok, file_lines, render_table. rewrite andb_true_iff. intros [H1 H2] Hr.
  rewrite chunks_line; [|exact H1|lia]. cbn [rev app]. rewrite file_lines_rows by exact Hr. reflexivity.
Qed.

(* a file made of a header and well-formed lines with distinct hosts loads as exactly its rows *)
Theorem load_rendered h rows :
  header_ok h = true -> Forall (fun r => row_ok r = true) rows -> rows <> [] -> NoDup (map r_name rows) ->
  load_table (render_table h rows) = inr (map row_entry rows).
Proof.
  intros Hh Hr Hne Hnd. apply (load_good _ (h ++ [10]) (map render_row rows)).
  - apply file_lines_table; assumption.
  - apply rows_lines; exact Hr.
  - rewrite map_map. exact Hnd.
  - destruct rows; [congruence|discriminate].
Qed.

(* ... with a repeated host it is refused *)
Theorem load_rendered_duplicate h rows :
  header_ok h = true -> Forall (fun r => row_ok r = true) rows -> ~ NoDup (map r_name rows) ->
  load_table (render_table h rows) = inl EDuplicate.
Proof.
  intros Hh Hr Hd. apply (load_duplicate _ (h ++ [10]) (map render_row rows) (map row_entry rows) []).
  - rewrite app_nil_r. apply file_lines_table; assumption.
  - apply rows_lines; exact Hr.
  - rewrite map_map. exact Hd.
Qed.

(* 2c. permuting the LINES of a well-formed table changes nothing: same outcome, same offset for every stream *)
Theorem table_lines_order_independent h rows rows' sl :
  header_ok h = true -> Forall (fun r => row_ok r = true) rows -> NoDup (map r_name rows) ->
  Permutation rows rows' ->
  trace_offsets (Some (render_table h rows)) sl = trace_offsets (Some (render_table h rows')) sl.
Proof.
  intros Hh Hr Hnd P.
  assert (Hr' : Forall (fun r => row_ok r = true) rows').
  { rewrite Forall_forall in *. intros r Hin. apply Hr. eapply Permutation_in; [apply Permutation_sym; exact P|exact Hin]. }
  assert (Hnd' : NoDup (map r_name rows')) by (eapply Permutation_NoDup; [apply Permutation_map; exact P|exact Hnd]).
  destruct rows as [|r0 rows0].
  - apply Permutation_nil in P. subst. reflexivity.
  - assert (Hne' : rows' <> []) by (intros ->; apply Permutation_sym, Permutation_nil in P; discriminate).
    unfold trace_offsets. rewrite (load_rendered h (r0 :: rows0)) by (auto; discriminate).
    rewrite (load_rendered h rows') by auto.
    apply entries_order_independent; [apply Permutation_map; exact P|].
    rewrite map_map. exact Hnd.
Qed.
