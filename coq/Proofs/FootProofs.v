(* Payload footprints of the handlers regenerated from the source (Gen/Foot_gen.v, translate/units/footprint.py):
   no translated handler ever reads the payload outside the payload_size bytes of its event (outcome E_OOB),
   whatever the bytes, the size and the rest of the emulator (the oracle) are; and the size guards they contain
   refuse exactly the sizes RejectDefs.wrong_size lists for the events they handle. *)
From Coq Require Import ZArith List Bool Lia ZifyBool.
From OV Require Import Base.CInt Emu.EmuCoreDefs Emu.FootPre.
From OV Require Gen.Foot_gen Emu.RejectDefs Emu.DecodeDefs.
Import ListNotations.
Local Open Scope Z_scope.

(* the oracle is fixed during a handler and the state is unit: path conditions persist *)
Definition noob {A} (sx : oracle) (m : M A) : Prop :=
  match m sx tt with Err x => x <> E_OOB | Ok _ => True end.

Lemma noob_ret {A} sx (a : A) : noob sx (ret a). Proof. exact I. Qed.
Lemma noob_eval {A} sx (f : oracle -> fstate -> A) : noob sx (eval f). Proof. exact I. Qed.
Lemma noob_fail {A} sx e : e <> E_OOB -> noob sx (@fail A e). Proof. intros H. exact H. Qed.
Lemma noob_bind {A B} sx (m : M A) (f : A -> M B) : noob sx m -> (forall a, noob sx (f a)) -> noob sx (bind m f).
Proof.
  unfold noob, bind. intros Hm Hf. destruct (m sx tt) as [[a []]|e]; [apply Hf|exact Hm].
Qed.
Lemma noob_bind_ {A B} sx (m : M A) (k : M B) : noob sx m -> noob sx k -> noob sx (bind_ m k).
Proof. intros Hm Hk. apply noob_bind; [exact Hm|intros _; exact Hk]. Qed.
Lemma noob_ite {A} sx c (a b : M A) : (c sx tt = true -> noob sx a) -> (c sx tt = false -> noob sx b) -> noob sx (ite c a b).
Proof. unfold noob, ite. intros Ha Hb. destruct (c sx tt); [apply Ha|apply Hb]; reflexivity. Qed.
Lemma noob_need {A} sx safe (k : M A) : safe sx tt <> COob -> (safe sx tt = COk -> noob sx k) -> noob sx (need safe k).
Proof.
  unfold noob, need. intros Hs Hk. destruct (safe sx tt); [apply Hk; reflexivity|discriminate|congruence].
Qed.
Lemma noob_status sx (m : M unit) : noob sx m -> noob sx (status m).
Proof.
  unfold noob, status. intros Hm. destruct (m sx tt) as [[u s]|e]; [exact I|].
  destruct (Nat.eqb e E_TRAP || Nat.eqb e E_OOB); [exact Hm|exact I].
Qed.
Lemma noob_opq_action sx n : noob sx (opq_action n).
Proof. unfold noob, opq_action. destruct (oa sx n =? 0); [exact I|discriminate]. Qed.
Lemma noob_opq_set sx n : noob sx (opq_set n). Proof. exact I. Qed.

Ltac lits :=
  change (cast_uint64 (4)) with 4 in *; change (cast_uint64 (8)) with 8 in *;
  change (cast_uint64 (Z.add (8) (4))) with 12 in *.

(* a safety term is never COob given the size conditions on the path *)
Ltac solve_chk :=
  cbv beta; unfold cand, cnn, cin, cift, ciff, rd_ok_i32, rd_ok_u32, rd_ok_i64, rd_ok_u64, get_emu_ev_payload_size in *; lits;
  repeat match goal with |- context [if ?c then _ else _] => destruct c eqn:? end;
  try discriminate; exfalso; unfold inb in *; lia.

Create HintDb noob.

Ltac nb :=
  lazymatch goal with
  | |- noob _ (bind_ _ _) => apply noob_bind_; [nb|nb]
  | |- noob _ (bind _ _) => apply noob_bind; [nb|intros; nb]
  | |- noob _ (ite _ _ _) => apply noob_ite; intros; nb
  | |- noob _ (need _ _) => apply noob_need; [solve_chk|intros; nb]
  | |- noob _ (ret _) => apply noob_ret
  | |- noob _ (fail _) => apply noob_fail; discriminate
  | |- noob _ (eval _) => apply noob_eval
  | |- noob _ (status _) => apply noob_status; nb
  | |- noob _ (opq_action _) => apply noob_opq_action
  | |- noob _ (opq_set _) => apply noob_opq_set
  | |- noob _ (if ?c then _ else _) => destruct c eqn:?; nb
  | |- _ => solve [auto with noob]
  end.

Lemma mark_event_noob sx e : noob sx (Foot_gen.mark_event e).
Proof. unfold Foot_gen.mark_event. nb. Qed.
#[export] Hint Resolve mark_event_noob : noob.

Lemma pre_thread_execute_noob sx e th : noob sx (Foot_gen.pre_thread_execute e th).
Proof. unfold Foot_gen.pre_thread_execute. nb. Qed.
Lemma pre_thread_end_noob sx th : noob sx (Foot_gen.pre_thread_end th).
Proof. unfold Foot_gen.pre_thread_end. nb. Qed.
Lemma pre_thread_pause_noob sx th : noob sx (Foot_gen.pre_thread_pause th).
Proof. unfold Foot_gen.pre_thread_pause. nb. Qed.
Lemma pre_thread_resume_noob sx th : noob sx (Foot_gen.pre_thread_resume th).
Proof. unfold Foot_gen.pre_thread_resume. nb. Qed.
Lemma pre_thread_cool_noob sx th : noob sx (Foot_gen.pre_thread_cool th).
Proof. unfold Foot_gen.pre_thread_cool. nb. Qed.
Lemma pre_thread_warm_noob sx th : noob sx (Foot_gen.pre_thread_warm th).
Proof. unfold Foot_gen.pre_thread_warm. nb. Qed.
#[export] Hint Resolve pre_thread_execute_noob pre_thread_end_noob pre_thread_pause_noob pre_thread_resume_noob
  pre_thread_cool_noob pre_thread_warm_noob : noob.
Lemma pre_thread_noob sx e : noob sx (Foot_gen.pre_thread e).
Proof. unfold Foot_gen.pre_thread. nb. Qed.
Lemma pre_affinity_set_noob sx e : noob sx (Foot_gen.pre_affinity_set e).
Proof. unfold Foot_gen.pre_affinity_set. nb. Qed.
Lemma pre_affinity_remote_noob sx e : noob sx (Foot_gen.pre_affinity_remote e).
Proof. unfold Foot_gen.pre_affinity_remote. nb. Qed.
#[export] Hint Resolve pre_thread_noob pre_affinity_set_noob pre_affinity_remote_noob : noob.
Lemma pre_affinity_noob sx e : noob sx (Foot_gen.pre_affinity e).
Proof. unfold Foot_gen.pre_affinity. nb. Qed.
Lemma pre_cpu_noob sx e : noob sx (Foot_gen.pre_cpu e).
Proof. unfold Foot_gen.pre_cpu. nb. Qed.
#[export] Hint Resolve pre_affinity_noob pre_cpu_noob : noob.
Lemma model_ovni_event_noob sx e : noob sx (Foot_gen.model_ovni_event e).
Proof. unfold Foot_gen.model_ovni_event. nb. Qed.

Lemma nosv_create_task_noob sx e v : noob sx (Foot_gen.nosv_create_task e v).
Proof. unfold Foot_gen.nosv_create_task. nb. Qed.
Lemma nosv_update_task_state_noob sx e : noob sx (Foot_gen.nosv_update_task_state e).
Proof. unfold Foot_gen.nosv_update_task_state. nb. Qed.
#[export] Hint Resolve nosv_create_task_noob nosv_update_task_state_noob : noob.
Lemma nosv_update_task_noob sx e : noob sx (Foot_gen.nosv_update_task e).
Proof. unfold Foot_gen.nosv_update_task. nb. Qed.
#[export] Hint Resolve nosv_update_task_noob : noob.
Lemma nosv_pre_task_noob sx e : noob sx (Foot_gen.nosv_pre_task e).
Proof. unfold Foot_gen.nosv_pre_task. nb. Qed.
#[export] Hint Resolve nosv_pre_task_noob : noob.

Lemma nanos6_create_task_noob sx e : noob sx (Foot_gen.nanos6_create_task e).
Proof. unfold Foot_gen.nanos6_create_task. nb. Qed.
Lemma nanos6_update_task_state_noob sx e : noob sx (Foot_gen.nanos6_update_task_state e).
Proof. unfold Foot_gen.nanos6_update_task_state. nb. Qed.
#[export] Hint Resolve nanos6_create_task_noob nanos6_update_task_state_noob : noob.
Lemma nanos6_update_task_noob sx e : noob sx (Foot_gen.nanos6_update_task e).
Proof. unfold Foot_gen.nanos6_update_task. nb. Qed.
#[export] Hint Resolve nanos6_update_task_noob : noob.
Lemma nanos6_pre_task_noob sx e : noob sx (Foot_gen.nanos6_pre_task e).
Proof. unfold Foot_gen.nanos6_pre_task. nb. Qed.

(* ---- pre_type: the label of a type-create event *)
Lemma noob_bind_eval {A B} sx (f : oracle -> fstate -> A) (k : A -> M B) : noob sx (k (f sx tt)) -> noob sx (bind (eval f) k).
Proof. unfold noob, bind, eval. intros H. exact H. Qed.

(* memchr found a NUL in [p, p + n) and that range lies inside the payload: the C string at p ends inside the payload *)
Lemma cstr_from_memchr sx e p n : rd_ok_range sx tt e p n = true -> mem_has sx tt e p 0 n = true -> cstr_ok sx tt e p = true.
Proof.
  unfold rd_ok_range, inb, mem_has, cstr_ok. intros Hr Hm. apply andb_true_iff in Hr as [H0 H1].
  rewrite H0. cbn [andb]. apply existsb_exists in Hm as (k & Hin & Hk). apply existsb_exists. exists k. split.
  - apply in_seq in Hin. apply in_seq. apply Z.leb_le in H0, H1. lia.
  - exact Hk.
Qed.

Lemma pre_type_noob_gen sx e (rest : Z -> M unit) :
  (forall label, cstr_ok sx tt e label = true -> noob sx (rest label)) ->
  forall label_off, label_off = 8 ->
  noob sx (ite (fun sx st => Z.leb (get_emu_ev_payload_size sx st e) label_off) (fail E_FAIL)
    (need (fun sx st => cnn (get_emu_ev_payload sx st e))
      (bind (eval (fun sx st => Z.add 4 (Z.mul 1 0))) (fun data =>
        need (fun sx st => cin (rd_ok_bytes sx st e data 4))
          (bind (eval (fun sx st => rd_bytes_uint32 sx st e data)) (fun typeid =>
            bind (eval (fun sx st => Z.add data (Z.mul 1 4))) (fun data =>
              bind (eval (fun sx st => data)) (fun label =>
                need (fun sx st => cin (rd_ok_range sx st e label (cast_uint64 (Z.sub (get_emu_ev_payload_size sx st e) label_off))))
                  (ite (fun sx st => negb (mem_has sx st e label 0 (cast_uint64 (Z.sub (get_emu_ev_payload_size sx st e) label_off))))
                    (fail E_FAIL) (rest label)))))))))).
Proof.
  intros Hrest label_off ->.
  apply noob_ite; intros Hsz; [apply noob_fail; discriminate|].
  unfold get_emu_ev_payload_size in Hsz. apply Z.leb_gt in Hsz.
  apply noob_need; [unfold cnn; destruct (is_null _); discriminate|intros _].
  apply noob_bind_eval. change (Z.add 4 (Z.mul 1 0)) with 4.
  assert (Eb0 : rd_ok_bytes sx tt e 4 4 = true).
  { unfold rd_ok_bytes, inb. apply andb_true_iff. split; apply Z.leb_le; lia. }
  apply noob_need.
  { cbv beta. unfold cin. rewrite Eb0. discriminate. }
  intros _. apply noob_bind_eval. apply noob_bind_eval. apply noob_bind_eval.
  change (Z.add 4 (Z.mul 1 4)) with 8.
  assert (Hc : 0 <= cast_uint64 (get_emu_ev_payload_size sx tt e - 8) <= psize e - 8).
  { unfold get_emu_ev_payload_size, cast_uint64, wrapu. split.
    - apply Z.mod_pos_bound. reflexivity.
    - apply Z.mod_le; [lia|reflexivity]. }
  assert (Er0 : rd_ok_range sx tt e 8 (cast_uint64 (get_emu_ev_payload_size sx tt e - 8)) = true).
  { unfold rd_ok_range, inb. apply andb_true_iff. split; apply Z.leb_le; lia. }
  apply noob_need.
  { cbv beta. unfold cin. rewrite Er0. discriminate. }
  intros Hr. apply noob_ite; intros Hm; [apply noob_fail; discriminate|].
  apply Hrest. apply negb_false_iff in Hm.
  unfold cin in Hr. destruct (rd_ok_range sx tt e 8 (cast_uint64 (get_emu_ev_payload_size sx tt e - 8))) eqn:Er; [|discriminate].
  exact (cstr_from_memchr sx e 8 _ Er Hm).
Qed.

Ltac pre_type_proof :=
  apply noob_bind_eval; apply noob_ite; intros; [apply noob_fail; discriminate|];
  apply noob_ite; intros; [apply noob_fail; discriminate|];
  apply noob_bind_eval;
  apply pre_type_noob_gen; [|reflexivity];
  intros label Hl; apply noob_bind_eval; apply noob_bind_eval;
  apply noob_bind_; [|apply noob_ret];
  apply noob_need; [cbv beta; unfold cin; rewrite Hl; discriminate|intros _; apply noob_opq_action].

Lemma nosv_pre_type_noob sx e : noob sx (Foot_gen.nosv_pre_type e).
Proof. unfold Foot_gen.nosv_pre_type. pre_type_proof. Qed.
Lemma nanos6_pre_type_noob sx e : noob sx (Foot_gen.nanos6_pre_type e).
Proof. unfold Foot_gen.nanos6_pre_type. pre_type_proof. Qed.

Lemma noob_exec sx (m : M unit) : noob sx m -> exec m sx <> Err E_OOB.
Proof. unfold noob, exec. destruct (m sx tt) as [[u s]|x]; [discriminate|]. intros H E. inversion E. contradiction. Qed.

(* no translated handler reads the payload out of bounds: every byte string, every size, every oracle *)
Theorem handlers_in_bounds sx e :
  exec (Foot_gen.model_ovni_event e) sx <> Err E_OOB /\
  exec (Foot_gen.mark_event e) sx <> Err E_OOB /\
  exec (Foot_gen.nosv_pre_task e) sx <> Err E_OOB /\
  exec (Foot_gen.nanos6_pre_task e) sx <> Err E_OOB.
Proof.
  repeat split; apply noob_exec.
  - apply model_ovni_event_noob. - apply mark_event_noob. - apply nosv_pre_task_noob. - apply nanos6_pre_task_noob.
Qed.

(* the type-create handlers: the type id is read at bytes [4, 8), memchr scans [8, payload_size), and the label handed
   to task_type_create is a C string that ends inside the payload *)
Theorem pre_type_in_bounds sx e :
  exec (Foot_gen.nosv_pre_type e) sx <> Err E_OOB /\ exec (Foot_gen.nanos6_pre_type e) sx <> Err E_OOB.
Proof. split; apply noob_exec; [apply nosv_pre_type_noob|apply nanos6_pre_type_noob]. Qed.

(* ---------------------------------------------------------------- the size guards and RejectDefs.wrong_size *)

(* never accepted *)
Definition nok {A} (sx : oracle) (m : M A) : Prop := match m sx tt with Ok _ => False | Err _ => True end.
(* refused by a guard that looks at the size only *)
Definition szerr {A} (sx : oracle) (m : M A) : Prop := m sx tt = Err E_SIZE.

Lemma nok_fail {A} sx e : nok sx (@fail A e). Proof. exact I. Qed.
Lemma nok_bind {A B} sx (m : M A) (f : A -> M B) : (forall a, nok sx (f a)) -> nok sx (bind m f).
Proof. unfold nok, bind. intros Hf. destruct (m sx tt) as [[a []]|e]; [apply Hf|exact I]. Qed.
Lemma nok_bind_ {A B} sx (m : M A) (k : M B) : nok sx k -> nok sx (bind_ m k).
Proof. intros H. apply nok_bind. intros _. exact H. Qed.
Lemma nok_ite {A} sx c (a b : M A) : (c sx tt = true -> nok sx a) -> (c sx tt = false -> nok sx b) -> nok sx (ite c a b).
Proof. unfold nok, ite. intros Ha Hb. destruct (c sx tt); [apply Ha|apply Hb]; reflexivity. Qed.
Lemma nok_need {A} sx safe (k : M A) : (safe sx tt = COk -> nok sx k) -> nok sx (need safe k).
Proof. unfold nok, need. intros Hk. destruct (safe sx tt); [apply Hk; reflexivity|exact I|exact I]. Qed.
(* ret = f(..); ...; if (ret != 0) return -1: a callee that is never accepted makes the caller fail *)
Lemma nok_status {B} sx (m : M unit) (f : Z -> M B) : nok sx m -> nok sx (f (-1)) -> nok sx (bind (status m) f).
Proof.
  unfold nok, bind, status. intros Hm Hf. destruct (m sx tt) as [[u s]|e]; [contradiction|].
  destruct (Nat.eqb e E_TRAP || Nat.eqb e E_OOB); [exact I|exact Hf].
Qed.

Lemma nok_bind_eval {A B} sx (f : oracle -> fstate -> A) (k : A -> M B) : nok sx (k (f sx tt)) -> nok sx (bind (eval f) k).
Proof. unfold nok, bind, eval. intros H. exact H. Qed.

Lemma nok_bind_l {A B} sx (m : M A) (k : M B) : nok sx m -> nok sx (bind_ m k).
Proof. unfold nok, bind_, bind. intros H. destruct (m sx tt) as [[a s]|e]; [contradiction|exact I]. Qed.

Create HintDb nok.
Ltac nk :=
  lazymatch goal with
  | |- nok _ (bind (eval _) _) => apply nok_bind_eval; cbv beta; nk
  | |- nok _ (bind (status _) _) => apply nok_status; [nk|cbv beta; nk]
  | |- nok _ (bind_ _ _) => first [ apply nok_bind_l; solve [auto with nok] | apply nok_bind_; nk ]
  | |- nok _ (bind _ _) => apply nok_bind; intros; nk
  | |- nok _ (ite _ _ _) => apply nok_ite; intros; nk
  | |- nok _ (need _ _) => apply nok_need; intros; nk
  | |- nok _ (fail _) => apply nok_fail
  | |- nok _ (if ?c then _ else _) => destruct c eqn:?; nk
  | |- _ => first [ solve [auto with nok]
                  | exfalso; unfold get_emu_ev, get_emu_ev_payload_size, get_emu_ev_v, get_emu_ev_c, get_emu_ev_m, psize in *; lits; cbn [negb] in *; lia ]
  end.

Section Sizes.
Variables (sx : oracle) (e : emu).
Let n := length (f_payload e).

Lemma execute_wrong th : Nat.ltb n 4 = true -> nok sx (Foot_gen.pre_thread_execute e th).
Proof. intros H. unfold Foot_gen.pre_thread_execute. nk. Qed.
Lemma affset_wrong : Nat.eqb n 4 = false -> nok sx (Foot_gen.pre_affinity_set e).
Proof. intros H. unfold Foot_gen.pre_affinity_set. nk. Qed.
Lemma affremote_wrong : Nat.eqb n 8 = false -> nok sx (Foot_gen.pre_affinity_remote e).
Proof. intros H. unfold Foot_gen.pre_affinity_remote. nk. Qed.
Lemma mark_wrong : Nat.eqb n 12 = false -> nok sx (Foot_gen.mark_event e).
Proof. intros H. unfold Foot_gen.mark_event. nk. Qed.
Lemma nosv_create_wrong v : Nat.ltb n 8 = true -> nok sx (Foot_gen.nosv_create_task e v).
Proof. intros H. unfold Foot_gen.nosv_create_task. nk. Qed.
Lemma nosv_state_wrong : Nat.ltb n 8 = true -> nok sx (Foot_gen.nosv_update_task_state e).
Proof. intros H. unfold Foot_gen.nosv_update_task_state. nk. Qed.
Lemma nanos6_create_wrong : Nat.eqb n 8 = false -> nok sx (Foot_gen.nanos6_create_task e).
Proof. intros H. unfold Foot_gen.nanos6_create_task. nk. Qed.
Lemma nanos6_state_wrong : Nat.ltb n 4 = true -> nok sx (Foot_gen.nanos6_update_task_state e).
Proof. intros H. unfold Foot_gen.nanos6_update_task_state. nk. Qed.
End Sizes.

Ltac sz := unfold get_emu_ev, get_emu_ev_payload_size, get_emu_ev_v, get_emu_ev_c, get_emu_ev_m, psize in *; lits; cbn [negb] in *; lia.
#[export] Hint Extern 1 (nok _ (Foot_gen.pre_thread_execute _ _)) => (apply execute_wrong; sz) : nok.
#[export] Hint Extern 1 (nok _ (Foot_gen.pre_affinity_set _)) => (apply affset_wrong; sz) : nok.
#[export] Hint Extern 1 (nok _ (Foot_gen.pre_affinity_remote _)) => (apply affremote_wrong; sz) : nok.
#[export] Hint Extern 1 (nok _ (Foot_gen.mark_event _)) => (apply mark_wrong; sz) : nok.
#[export] Hint Extern 1 (nok _ (Foot_gen.nosv_create_task _ _)) => (apply nosv_create_wrong; sz) : nok.
#[export] Hint Extern 1 (nok _ (Foot_gen.nosv_update_task_state _)) => (apply nosv_state_wrong; sz) : nok.
#[export] Hint Extern 1 (nok _ (Foot_gen.nanos6_create_task _)) => (apply nanos6_create_wrong; sz) : nok.
#[export] Hint Extern 1 (nok _ (Foot_gen.nanos6_update_task_state _)) => (apply nanos6_state_wrong; sz) : nok.

(* (a) every size RejectDefs.wrong_size lists for these events is refused by the generated handlers, whatever the
   rest of the emulator does *)
Theorem wrong_size_refused sx e :
  let n := length (f_payload e) in
  (f_m e = DecodeDefs.M_OVNI -> RejectDefs.wrong_size DecodeDefs.M_OVNI (f_c e) (f_v e) n (f_jumbo e) = true ->
   nok sx (Foot_gen.model_ovni_event e)) /\
  (RejectDefs.wrong_size DecodeDefs.M_NOSV 84 (f_v e) n (f_jumbo e) = true -> nok sx (Foot_gen.nosv_pre_task e)) /\
  (RejectDefs.wrong_size DecodeDefs.M_NANOS6 84 (f_v e) n (f_jumbo e) = true -> nok sx (Foot_gen.nanos6_pre_task e)).
Proof.
  cbv zeta. unfold RejectDefs.wrong_size.
  change (DecodeDefs.M_OVNI =? DecodeDefs.M_OVNI) with true.
  change (DecodeDefs.M_NOSV =? DecodeDefs.M_OVNI) with false. change (DecodeDefs.M_NOSV =? DecodeDefs.M_NOSV) with true.
  change (DecodeDefs.M_NANOS6 =? DecodeDefs.M_OVNI) with false. change (DecodeDefs.M_NANOS6 =? DecodeDefs.M_NOSV) with false.
  change (DecodeDefs.M_NANOS6 =? DecodeDefs.M_NANOS6) with true.
  change (84 =? 84) with true. cbv iota.
  repeat split.
  - intros Hm. unfold DecodeDefs.M_OVNI in Hm.
    destruct (f_c e =? 72) eqn:E1; [|destruct (f_c e =? 65) eqn:E2; [|destruct (f_c e =? 77) eqn:E3; [|discriminate]]]; intros H.
    all: unfold Foot_gen.model_ovni_event, Foot_gen.pre_thread, Foot_gen.pre_affinity; nk.
  - intros H. unfold Foot_gen.nosv_pre_task, Foot_gen.nosv_update_task. nk.
  - intros H. unfold Foot_gen.nanos6_pre_task, Foot_gen.nanos6_update_task. nk.
Qed.

(* (b) a refusal by a size-only guard (E_SIZE) happens only for the sizes wrong_size lists *)
Definition szimp {A} (sx : oracle) (m : M A) (P : Prop) : Prop := m sx tt = Err E_SIZE -> P.

Lemma sz_ret {A} sx (a : A) P : szimp sx (ret a) P. Proof. intros H; discriminate H. Qed.
Lemma sz_eval {A} sx (f : oracle -> fstate -> A) P : szimp sx (eval f) P. Proof. intros H; discriminate H. Qed.
Lemma sz_fail_other {A} sx e P : e <> E_SIZE -> szimp sx (@fail A e) P.
Proof. intros N H. inversion H. contradiction. Qed.
Lemma sz_fail {A} sx (P : Prop) : P -> szimp sx (@fail A E_SIZE) P. Proof. intros H _. exact H. Qed.
Lemma sz_bind {A B} sx (m : M A) (f : A -> M B) P : szimp sx m P -> (forall a, szimp sx (f a) P) -> szimp sx (bind m f) P.
Proof.
  unfold szimp, bind. intros Hm Hf. destruct (m sx tt) as [[a []]|e]; [apply Hf|].
  intros H. apply Hm. inversion H. reflexivity.
Qed.
Lemma sz_bind_eval {A B} sx (f : oracle -> fstate -> A) (k : A -> M B) P : szimp sx (k (f sx tt)) P -> szimp sx (bind (eval f) k) P.
Proof. unfold szimp, bind, eval. intros H. exact H. Qed.
Lemma sz_bind_ {A B} sx (m : M A) (k : M B) P : szimp sx m P -> szimp sx k P -> szimp sx (bind_ m k) P.
Proof. intros Hm Hk. apply sz_bind; [exact Hm|intros _; exact Hk]. Qed.
Lemma sz_ite {A} sx c (a b : M A) P : (c sx tt = true -> szimp sx a P) -> (c sx tt = false -> szimp sx b P) -> szimp sx (ite c a b) P.
Proof. unfold szimp, ite. intros Ha Hb. destruct (c sx tt); [apply Ha|apply Hb]; reflexivity. Qed.
Lemma sz_need {A} sx safe (k : M A) P : (safe sx tt = COk -> szimp sx k P) -> szimp sx (need safe k) P.
Proof. unfold szimp, need. intros Hk. destruct (safe sx tt); [apply Hk; reflexivity|discriminate|discriminate]. Qed.
Lemma sz_status sx (m : M unit) P : szimp sx (status m) P.
Proof.
  unfold szimp, status. destruct (m sx tt) as [[u s]|e]; [discriminate|].
  destruct (Nat.eqb e E_TRAP) eqn:E1; [apply Nat.eqb_eq in E1; subst; discriminate|].
  destruct (Nat.eqb e E_OOB) eqn:E2; [apply Nat.eqb_eq in E2; subst; discriminate|]. discriminate.
Qed.
Lemma sz_opq_action sx n P : szimp sx (opq_action n) P.
Proof. unfold szimp, opq_action. destruct (oa sx n =? 0); discriminate. Qed.
Lemma sz_opq_set sx n P : szimp sx (opq_set n) P. Proof. intros H; discriminate H. Qed.

Create HintDb szdb.
Ltac sk :=
  lazymatch goal with
  | |- szimp _ (bind (eval _) _) _ => apply sz_bind_eval; cbv beta; sk
  | |- szimp _ (bind_ _ _) _ => apply sz_bind_; sk
  | |- szimp _ (bind _ _) _ => apply sz_bind; [sk|intros; sk]
  | |- szimp _ (ite _ _ _) _ => apply sz_ite; intros; sk
  | |- szimp _ (need _ _) _ => apply sz_need; intros; sk
  | |- szimp _ (ret _) _ => apply sz_ret
  | |- szimp _ (eval _) _ => apply sz_eval
  | |- szimp _ (fail E_SIZE) _ => apply sz_fail; sz
  | |- szimp _ (fail _) _ => apply sz_fail_other; discriminate
  | |- szimp _ (status _) _ => apply sz_status
  | |- szimp _ (opq_action _) _ => apply sz_opq_action
  | |- szimp _ (opq_set _) _ => apply sz_opq_set
  | |- szimp _ (if ?c then _ else _) _ => destruct c eqn:?; sk
  | |- _ => solve [auto with szdb]
  end.

Section SizeOnly.
Variables (sx : oracle) (e : emu).
Let n := length (f_payload e).
Lemma execute_sz th : szimp sx (Foot_gen.pre_thread_execute e th) (Nat.ltb n 4 = true).
Proof. unfold Foot_gen.pre_thread_execute. sk. Qed.
Lemma affset_sz : szimp sx (Foot_gen.pre_affinity_set e) (Nat.eqb n 4 = false).
Proof. unfold Foot_gen.pre_affinity_set. sk. Qed.
Lemma affremote_sz : szimp sx (Foot_gen.pre_affinity_remote e) (Nat.eqb n 8 = false).
Proof. unfold Foot_gen.pre_affinity_remote. sk. Qed.
Lemma mark_sz : szimp sx (Foot_gen.mark_event e) (Nat.eqb n 12 = false).
Proof. unfold Foot_gen.mark_event. sk. Qed.
Lemma nosv_create_sz v : szimp sx (Foot_gen.nosv_create_task e v) (Nat.ltb n 8 = true).
Proof. unfold Foot_gen.nosv_create_task. sk. Qed.
Lemma nosv_state_sz : szimp sx (Foot_gen.nosv_update_task_state e) (Nat.ltb n 8 = true).
Proof. unfold Foot_gen.nosv_update_task_state. sk. Qed.
Lemma nanos6_create_sz : szimp sx (Foot_gen.nanos6_create_task e) (Nat.eqb n 8 = false).
Proof. unfold Foot_gen.nanos6_create_task. sk. Qed.
Lemma nanos6_state_sz : szimp sx (Foot_gen.nanos6_update_task_state e) (Nat.ltb n 4 = true).
Proof. unfold Foot_gen.nanos6_update_task_state. sk. Qed.
Lemma no_size_guard_end th P : szimp sx (Foot_gen.pre_thread_end th) P. Proof. unfold Foot_gen.pre_thread_end. sk. Qed.
Lemma no_size_guard_pause th P : szimp sx (Foot_gen.pre_thread_pause th) P. Proof. unfold Foot_gen.pre_thread_pause. sk. Qed.
Lemma no_size_guard_resume th P : szimp sx (Foot_gen.pre_thread_resume th) P. Proof. unfold Foot_gen.pre_thread_resume. sk. Qed.
Lemma no_size_guard_cool th P : szimp sx (Foot_gen.pre_thread_cool th) P. Proof. unfold Foot_gen.pre_thread_cool. sk. Qed.
Lemma no_size_guard_warm th P : szimp sx (Foot_gen.pre_thread_warm th) P. Proof. unfold Foot_gen.pre_thread_warm. sk. Qed.
Lemma no_size_guard_cpu P : szimp sx (Foot_gen.pre_cpu e) P. Proof. unfold Foot_gen.pre_cpu. sk. Qed.
End SizeOnly.

#[export] Hint Extern 1 (szimp _ (Foot_gen.pre_thread_execute _ _) _) => (intros Hsz_; pose proof (execute_sz _ _ _ Hsz_); sz) : szdb.
#[export] Hint Extern 1 (szimp _ (Foot_gen.pre_affinity_set _) _) => (intros Hsz_; pose proof (affset_sz _ _ Hsz_); sz) : szdb.
#[export] Hint Extern 1 (szimp _ (Foot_gen.pre_affinity_remote _) _) => (intros Hsz_; pose proof (affremote_sz _ _ Hsz_); sz) : szdb.
#[export] Hint Extern 1 (szimp _ (Foot_gen.mark_event _) _) => (intros Hsz_; pose proof (mark_sz _ _ Hsz_); sz) : szdb.
#[export] Hint Resolve no_size_guard_end no_size_guard_pause no_size_guard_resume no_size_guard_cool no_size_guard_warm no_size_guard_cpu : szdb.

Ltac wsz K :=
  unfold RejectDefs.wrong_size, DecodeDefs.M_NOSV, DecodeDefs.M_OVNI, DecodeDefs.M_NANOS6;
  cbn [Z.eqb Pos.eqb orb andb negb]; rewrite K; reflexivity.

Theorem size_refusal_is_wrong_size sx e :
  let n := length (f_payload e) in
  (f_m e = DecodeDefs.M_OVNI -> exec (Foot_gen.model_ovni_event e) sx = Err E_SIZE ->
   RejectDefs.wrong_size DecodeDefs.M_OVNI (f_c e) (f_v e) n (f_jumbo e) = true) /\
  (forall v, (v = 99 \/ v = 67) -> Foot_gen.nosv_create_task e v sx tt = Err E_SIZE ->
             RejectDefs.wrong_size DecodeDefs.M_NOSV 84 v n (f_jumbo e) = true) /\
  (forall v, (v = 120 \/ v = 101 \/ v = 114 \/ v = 112) -> Foot_gen.nosv_update_task_state e sx tt = Err E_SIZE ->
             RejectDefs.wrong_size DecodeDefs.M_NOSV 84 v n (f_jumbo e) = true) /\
  (Foot_gen.nanos6_create_task e sx tt = Err E_SIZE -> RejectDefs.wrong_size DecodeDefs.M_NANOS6 84 99 n (f_jumbo e) = true) /\
  (forall v, (v = 120 \/ v = 101 \/ v = 114 \/ v = 112) -> Foot_gen.nanos6_update_task_state e sx tt = Err E_SIZE ->
             RejectDefs.wrong_size DecodeDefs.M_NANOS6 84 v n (f_jumbo e) = true).
Proof.
  cbv zeta. repeat split.
  - intros Hm. unfold DecodeDefs.M_OVNI in Hm. unfold exec.
    destruct (Foot_gen.model_ovni_event e sx tt) as [[u s]|x] eqn:E; [discriminate|]. intros Hx. inversion Hx; subst x. clear Hx.
    revert E. change (szimp sx (Foot_gen.model_ovni_event e) (RejectDefs.wrong_size DecodeDefs.M_OVNI (f_c e) (f_v e) (length (f_payload e)) (f_jumbo e) = true)).
    unfold RejectDefs.wrong_size. change (DecodeDefs.M_OVNI =? DecodeDefs.M_OVNI) with true. cbv iota.
    unfold Foot_gen.model_ovni_event, Foot_gen.pre_thread, Foot_gen.pre_affinity.
    destruct (f_c e =? 72) eqn:E1; [|destruct (f_c e =? 65) eqn:E2; [|destruct (f_c e =? 77) eqn:E3]]; sk.
  - intros v Hv H. pose proof (nosv_create_sz sx e v H) as K. destruct Hv as [-> | ->]; wsz K.
  - intros v Hv H. pose proof (nosv_state_sz sx e H) as K. destruct Hv as [-> | [-> | [-> | ->]]]; wsz K.
  - intros H. pose proof (nanos6_create_sz sx e H) as K. wsz K.
  - intros v Hv H. pose proof (nanos6_state_sz sx e H) as K. destruct Hv as [-> | [-> | [-> | ->]]]; wsz K.
Qed.

(* worked evaluation: OHx with 3, 4 and 16 payload bytes; OAr with 4 bytes; all-success oracle *)
Definition ok_oracle : oracle := {| oz := fun _ => 0; op := fun _ => Some tt; oa := fun _ => 0 |}.
Definition ev_of (c v : Z) (p : list Z) : emu := {| f_m := 79; f_c := c; f_v := v; f_payload := p; f_jumbo := false |}.
