(* Proofs about the array model of heap.h (Emu/HeapDefs.v): for ALL heaps and elements,
   no bound on the size.
     - content: insert / pop_max permute the content (nothing lost, nothing duplicated)
     - order:   HeapInv (parent >= child under cmp) is preserved by insert and pop_max
     - pop_max returns a maximum under cmp (= a minimum clock for stream_cmp)
     - path:    the heap_get walk for n reaches array position n                        *)
From Coq Require Import ZArith List Bool Arith Lia Permutation ZifyNat ZifyBool.
From OV Require Import Emu.HeapDefs.
Import ListNotations.
Local Open Scope Z_scope.

Ltac Zify.zify_post_hook ::= Z.to_euclidean_division_equations.

Arguments parent : simpl never.
Arguments left : simpl never.
Arguments right : simpl never.

Ltac idx := unfold parent, left, right in *; lia.

(* ------------------------------------------------------------------ upd / swap *)
Section ListOps.
  Context {A : Type}.

  Lemma length_upd (l : list A) i x : length (upd l i x) = length l.
  Proof. revert i; induction l as [|a t IH]; intros [|i]; cbn; auto. Qed.

  Lemma nth_error_upd_same (l : list A) i x : (i < length l)%nat -> nth_error (upd l i x) i = Some x.
  Proof.
    revert i; induction l as [|a t IH]; intros [|i] H; cbn in *; try lia; auto.
    apply IH; lia.
  Qed.

  Lemma nth_error_upd_other (l : list A) i k x : k <> i -> nth_error (upd l i x) k = nth_error l k.
  Proof.
    revert i k; induction l as [|a t IH]; intros [|i] [|k] H; cbn; auto; try congruence.
  Qed.

  Lemma nth_error_lt (l : list A) i a : nth_error l i = Some a -> (i < length l)%nat.
  Proof. intros H. apply nth_error_Some. congruence. Qed.

  Lemma upd_perm (l : list A) i a x :
    nth_error l i = Some a -> Permutation (a :: upd l i x) (x :: l).
  Proof.
    revert i; induction l as [|b t IH]; intros [|i] H; cbn in *; try discriminate.
    - inversion H; subst. apply perm_swap.
    - specialize (IH _ H).
      eapply perm_trans; [apply perm_swap|].
      eapply perm_trans; [apply perm_skip; exact IH|]. apply perm_swap.
  Qed.

  Lemma length_swap (l : list A) i j : length (swap l i j) = length l.
  Proof.
    unfold swap. destruct (nth_error l i); auto. destruct (nth_error l j); auto.
    now rewrite !length_upd.
  Qed.

  Lemma nth_error_swap (l : list A) i j a b k :
    nth_error l i = Some a -> nth_error l j = Some b ->
    nth_error (swap l i j) k =
      if (k =? j)%nat then Some a else if (k =? i)%nat then Some b else nth_error l k.
  Proof.
    intros Hi Hj. unfold swap. rewrite Hi, Hj.
    pose proof (nth_error_lt _ _ _ Hi) as Li. pose proof (nth_error_lt _ _ _ Hj) as Lj.
    destruct (k =? j)%nat eqn:Ekj.
    - apply Nat.eqb_eq in Ekj; subst k. apply nth_error_upd_same. now rewrite length_upd.
    - apply Nat.eqb_neq in Ekj. rewrite nth_error_upd_other by exact Ekj.
      destruct (k =? i)%nat eqn:Eki.
      + apply Nat.eqb_eq in Eki; subst k. now apply nth_error_upd_same.
      + apply Nat.eqb_neq in Eki. now apply nth_error_upd_other.
  Qed.

  Lemma swap_perm (l : list A) i j : Permutation (swap l i j) l.
  Proof.
    unfold swap. destruct (nth_error l i) as [a|] eqn:Hi; [|reflexivity].
    destruct (nth_error l j) as [b|] eqn:Hj; [|reflexivity].
    pose proof (nth_error_lt _ _ _ Hi) as Li.
    assert (H1 : nth_error (upd l i b) j = Some b).
    { destruct (Nat.eq_dec j i) as [->|N].
      - now apply nth_error_upd_same.
      - now rewrite nth_error_upd_other. }
    pose proof (upd_perm (upd l i b) j b a H1) as P1.
    pose proof (upd_perm l i a b Hi) as P2.
    apply Permutation_cons_inv with (a := b).
    eapply perm_trans; [exact P1|]. exact P2.
  Qed.
End ListOps.

(* ------------------------------------------------------------------ heap *)
Section HeapProofs.
  Context {A : Type}.
  Variable cmp : A -> A -> Z.
  (* what heap_node_compare_t promises: sign-antisymmetric and transitive *)
  Hypothesis cmp_anti : forall a b, cmp a b > 0 <-> cmp b a < 0.
  Hypothesis cmp_trans : forall a b c, cmp a b >= 0 -> cmp b c >= 0 -> cmp a c >= 0.

  Lemma cmp_refl a : cmp a a >= 0.
  Proof. pose proof (cmp_anti a a). lia. Qed.

  Lemma cmp_not_gt a b : ~ cmp a b > 0 -> cmp b a >= 0.
  Proof. intros H. pose proof (cmp_anti b a). pose proof (cmp_anti a b). lia. Qed.

  Lemma cmp_gt_ge a b : cmp a b > 0 -> cmp a b >= 0.
  Proof. lia. Qed.

  (* ---------------- content *)

  Lemma pop_max_cons a b t :
    pop_max cmp (a :: b :: t) =
    Some (a, sift_down cmp (length (b :: t)) 0 (last (b :: t) a :: removelast (b :: t))).
  Proof. reflexivity. Qed.

  Lemma some_pair_inj {X Y} (a c : X) (b d : Y) : Some (a, b) = Some (c, d) -> a = c /\ b = d.
  Proof. intros H; inversion H; auto. Qed.

  Lemma bubble_up_perm fuel : forall i h, Permutation (bubble_up cmp fuel i h) h.
  Proof.
    induction fuel as [|f IH]; intros i h; cbn [bubble_up]; [reflexivity|].
    destruct i as [|i']; [reflexivity|].
    destruct (nth_error h (S i')) as [x|]; [|reflexivity].
    destruct (nth_error h (parent (S i'))) as [y|]; [|reflexivity].
    destruct (cmp x y >? 0); [|reflexivity].
    eapply perm_trans; [apply IH|]. apply swap_perm.
  Qed.

  Lemma sift_down_perm fuel : forall i h, Permutation (sift_down cmp fuel i h) h.
  Proof.
    induction fuel as [|f IH]; intros i h; cbn [sift_down]; [reflexivity|].
    destruct (largest cmp h i =? i)%nat; [reflexivity|].
    eapply perm_trans; [apply IH|]. apply swap_perm.
  Qed.

  Theorem insert_perm h x : Permutation (insert cmp h x) (x :: h).
  Proof.
    unfold insert. eapply perm_trans; [apply bubble_up_perm|].
    apply Permutation_sym, Permutation_cons_append.
  Qed.

  Theorem pop_max_perm h x h' : pop_max cmp h = Some (x, h') -> Permutation (x :: h') h.
  Proof.
    destruct h as [|a [|b t]]; [discriminate | intros H; apply some_pair_inj in H as [<- <-]; reflexivity |].
    rewrite pop_max_cons. intros H; apply some_pair_inj in H as [<- <-].
    apply perm_skip. eapply perm_trans; [apply sift_down_perm|].
    assert (E : b :: t = removelast (b :: t) ++ [last (b :: t) a]).
    { apply app_removelast_last. discriminate. }
    rewrite E at 3. apply Permutation_cons_append.
  Qed.

  Lemma pop_max_none h : pop_max cmp h = None <-> h = [].
  Proof. destruct h as [|x [|y t]]; unfold pop_max; split; intros H; try reflexivity; discriminate. Qed.

  Lemma pop_max_root h x h' : pop_max cmp h = Some (x, h') -> nth_error h 0 = Some x.
  Proof. destruct h as [|a [|b t]]; [discriminate | |]; [|rewrite pop_max_cons]; intros H; apply some_pair_inj in H as [<- _]; reflexivity. Qed.

  Lemma length_bubble_up fuel i h : length (bubble_up cmp fuel i h) = length h.
  Proof. apply Permutation_length, bubble_up_perm. Qed.

  Lemma length_insert h x : length (insert cmp h x) = S (length h).
  Proof. rewrite (Permutation_length (insert_perm h x)). reflexivity. Qed.

  (* ---------------- order: insert *)

  (* the heap order holds everywhere except between i and its parent, and the
     grandparent already dominates the children of i (CLRS HEAP-INCREASE-KEY invariant) *)
  Definition InvUp (h : list A) (i : nat) : Prop :=
    (forall j x y, (0 < j)%nat -> j <> i ->
        nth_error h j = Some x -> nth_error h (parent j) = Some y -> cmp y x >= 0) /\
    (forall j x y, (0 < j)%nat -> (0 < i)%nat -> parent j = i ->
        nth_error h j = Some x -> nth_error h (parent i) = Some y -> cmp y x >= 0).

  Lemma bubble_up_inv fuel : forall i h,
    (i < fuel)%nat -> (i < length h)%nat -> InvUp h i -> HeapInv cmp (bubble_up cmp fuel i h).
  Proof.
    induction fuel as [|f IH]; intros i h Hf Hl [Ha Hb]; [lia|].
    cbn [bubble_up].
    destruct i as [|i'].
    { intros j x y Hj Hx Hy. apply (Ha j x y); auto. lia. }
    set (i := S i') in *.
    destruct (nth_error h i) as [x|] eqn:Hx.
    2:{ apply nth_error_None in Hx. lia. }
    destruct (nth_error h (parent i)) as [y|] eqn:Hy.
    2:{ apply nth_error_None in Hy. subst i. idx. }
    destruct (cmp x y >? 0) eqn:E.
    - (* swap with the parent and continue from there *)
      apply Z.gtb_lt in E.
      assert (Hp : (parent i < i)%nat) by (subst i; idx).
      apply IH; [lia | rewrite length_swap; lia |].
      split.
      + intros j a b Hj Hne Hja Hjb.
        rewrite (nth_error_swap h i (parent i) x y j Hx Hy) in Hja.
        rewrite (nth_error_swap h i (parent i) x y (parent j) Hx Hy) in Hjb.
        destruct (Nat.eq_dec j i) as [->|Nji].
        * (* the moved-down node: its new parent is x *)
          rewrite Nat.eqb_refl in Hja.
          replace (i =? parent i)%nat with false in Hja by (symmetry; apply Nat.eqb_neq; lia).
          rewrite Nat.eqb_refl in Hjb.
          inversion Hja; inversion Hjb; subst. lia.
        * replace (j =? parent i)%nat with false in Hja by (symmetry; apply Nat.eqb_neq; lia).
          replace (j =? i)%nat with false in Hja by (symmetry; apply Nat.eqb_neq; lia).
          destruct (parent j =? parent i)%nat eqn:E1.
          { (* sibling of i: new parent x > y >= sibling *)
            apply Nat.eqb_eq in E1. inversion Hjb; subst b.
            apply cmp_trans with (b := y); [lia|].
            apply (Ha j a y); auto. now rewrite E1. }
          destruct (parent j =? i)%nat eqn:E2.
          { (* child of i: new parent y, by the grandparent clause *)
            apply Nat.eqb_eq in E2. inversion Hjb; subst b.
            apply (Hb j a y); auto. subst i; lia. }
          apply (Ha j a b); auto.
      + intros j a b Hj Hpi Hpj Hja Hjb.
        rewrite (nth_error_swap h i (parent i) x y j Hx Hy) in Hja.
        rewrite (nth_error_swap h i (parent i) x y (parent (parent i)) Hx Hy) in Hjb.
        replace (parent (parent i) =? parent i)%nat with false in Hjb
          by (symmetry; apply Nat.eqb_neq; idx).
        replace (parent (parent i) =? i)%nat with false in Hjb
          by (symmetry; apply Nat.eqb_neq; idx).
        replace (j =? parent i)%nat with false in Hja by (symmetry; apply Nat.eqb_neq; idx).
        assert (Hyb : cmp b y >= 0) by (apply (Ha (parent i) y b); auto; lia).
        destruct (j =? i)%nat eqn:E3.
        * inversion Hja; subst a. exact Hyb.
        * apply Nat.eqb_neq in E3.
          apply cmp_trans with (b := y); [exact Hyb|].
          apply (Ha j a y); auto. now rewrite Hpj.
    - (* loop ends: cmp x y <= 0 *)
      assert (cmp x y > 0 -> False) by lia.
      intros j a b Hj Hja Hjb.
      destruct (Nat.eq_dec j i) as [->|N].
      + rewrite Hx in Hja. rewrite Hy in Hjb. inversion Hja; inversion Hjb; subst.
        now apply cmp_not_gt.
      + apply (Ha j a b); auto.
  Qed.

  Theorem insert_inv h x : HeapInv cmp h -> HeapInv cmp (insert cmp h x).
  Proof.
    intros H. unfold insert. apply bubble_up_inv; [lia | rewrite app_length; cbn; lia |].
    split.
    - intros j a b Hj Hne Hja Hjb.
      assert (Lj : (j < length (h ++ [x]))%nat) by (eapply nth_error_lt; eauto).
      rewrite app_length in Lj; cbn in Lj.
      rewrite nth_error_app1 in Hja by lia.
      rewrite nth_error_app1 in Hjb by idx.
      apply (H j a b); auto.
    - intros j a b Hj Hi Hp Hja Hjb.
      assert (Lj : (j < length (h ++ [x]))%nat) by (eapply nth_error_lt; eauto).
      rewrite app_length in Lj; cbn in Lj. idx.
  Qed.

  (* ---------------- order: pop_max *)

  Definition InvDown (h : list A) (i : nat) : Prop :=
    (forall j x y, (0 < j)%nat -> parent j <> i ->
        nth_error h j = Some x -> nth_error h (parent j) = Some y -> cmp y x >= 0) /\
    (forall j x y, (0 < j)%nat -> (0 < i)%nat -> parent j = i ->
        nth_error h j = Some x -> nth_error h (parent i) = Some y -> cmp y x >= 0).

  (* what `largest` computes *)
  Lemma largest_spec h i cur :
    nth_error h i = Some cur ->
    let b := largest cmp h i in
    (b = i /\ (forall j x, (0 < j)%nat -> parent j = i -> nth_error h j = Some x -> cmp cur x >= 0)) \/
    ((b = left i \/ b = right i) /\
     exists xb, nth_error h b = Some xb /\ cmp xb cur > 0 /\
       (forall j x, (0 < j)%nat -> parent j = i -> nth_error h j = Some x -> cmp xb x >= 0)).
  Proof.
    intros Hc. cbn zeta. unfold largest. rewrite Hc.
    assert (Kids : forall j, (0 < j)%nat -> parent j = i -> j = left i \/ j = right i) by (intros; idx).
    destruct (nth_error h (left i)) as [l|] eqn:Hl.
    2:{ (* no left child: no right child either *)
      assert (Hr : nth_error h (right i) = None).
      { apply nth_error_None. apply nth_error_None in Hl. idx. }
      rewrite Hr. left. split; [reflexivity|].
      intros j x Hj Hp Hx. destruct (Kids j Hj Hp) as [->| ->]; congruence. }
    destruct (cmp l cur >? 0) eqn:E1.
    - apply Z.gtb_lt in E1. rewrite Hl.
      destruct (nth_error h (right i)) as [r|] eqn:Hr.
      + destruct (cmp r l >? 0) eqn:E2.
        * apply Z.gtb_lt in E2. right. split; [now right|]. exists r. split; [exact Hr|].
          split.
          { assert (cmp r cur >= 0) by (apply cmp_trans with (b := l); lia).
            (* strictness: if cmp r cur = 0 then cmp cur r >= 0 and cur >= r > l contradicts l > cur *)
            destruct (Z_gt_le_dec (cmp r cur) 0) as [G|G]; [exact G|].
            exfalso. assert (C1 : cmp cur r >= 0) by (apply cmp_not_gt; lia).
            assert (C2 : cmp cur l >= 0) by (apply cmp_trans with (b := r); lia).
            pose proof (cmp_anti l cur). lia. }
          intros j x Hj Hp Hx. destruct (Kids j Hj Hp) as [->| ->].
          { rewrite Hl in Hx; inversion Hx; subst. lia. }
          { rewrite Hr in Hx; inversion Hx; subst. apply cmp_refl. }
        * assert (~ cmp r l > 0) by lia.
          right. split; [now left|]. exists l. split; [exact Hl|]. split; [lia|].
          intros j x Hj Hp Hx. destruct (Kids j Hj Hp) as [->| ->].
          { rewrite Hl in Hx; inversion Hx; subst. apply cmp_refl. }
          { rewrite Hr in Hx; inversion Hx; subst. now apply cmp_not_gt. }
      + right. split; [now left|]. exists l. split; [exact Hl|]. split; [lia|].
        intros j x Hj Hp Hx. destruct (Kids j Hj Hp) as [->| ->].
        { rewrite Hl in Hx; inversion Hx; subst. apply cmp_refl. }
        { congruence. }
    - assert (N1 : ~ cmp l cur > 0) by lia.
      rewrite Hc.
      destruct (nth_error h (right i)) as [r|] eqn:Hr.
      + destruct (cmp r cur >? 0) eqn:E2.
        * apply Z.gtb_lt in E2. right. split; [now right|]. exists r. split; [exact Hr|].
          split; [lia|].
          intros j x Hj Hp Hx. destruct (Kids j Hj Hp) as [->| ->].
          { rewrite Hl in Hx; inversion Hx; subst.
            apply cmp_trans with (b := cur); [lia | now apply cmp_not_gt]. }
          { rewrite Hr in Hx; inversion Hx; subst. apply cmp_refl. }
        * assert (~ cmp r cur > 0) by lia.
          left. split; [reflexivity|].
          intros j x Hj Hp Hx. destruct (Kids j Hj Hp) as [->| ->].
          { rewrite Hl in Hx; inversion Hx; subst. now apply cmp_not_gt. }
          { rewrite Hr in Hx; inversion Hx; subst. now apply cmp_not_gt. }
      + left. split; [reflexivity|].
        intros j x Hj Hp Hx. destruct (Kids j Hj Hp) as [->| ->].
        { rewrite Hl in Hx; inversion Hx; subst. now apply cmp_not_gt. }
        { congruence. }
  Qed.

  Lemma sift_down_inv fuel : forall i h,
    (length h <= i + fuel)%nat -> InvDown h i -> HeapInv cmp (sift_down cmp fuel i h).
  Proof.
    induction fuel as [|f IH]; intros i h Hf [Ha Hb].
    { (* no fuel: i is outside the heap, nothing hangs below it *)
      cbn. intros j x y Hj Hx Hy. apply (Ha j x y); auto.
      apply nth_error_lt in Hy. lia. }
    cbn [sift_down].
    destruct (nth_error h i) as [cur|] eqn:Hc.
    2:{ assert (largest cmp h i = i) as -> by (unfold largest; now rewrite Hc).
        rewrite Nat.eqb_refl. intros j x y Hj Hx Hy. apply (Ha j x y); auto.
        apply nth_error_None in Hc. apply nth_error_lt in Hy. lia. }
    destruct (largest_spec h i cur Hc) as [[Eb Hk] | [Eb [xb [Hxb [Hgt Hk]]]]]; cbn zeta in *.
    - rewrite Eb, Nat.eqb_refl.
      intros j x y Hj Hx Hy.
      destruct (Nat.eq_dec (parent j) i) as [E|N].
      + rewrite E, Hc in Hy. inversion Hy; subst. now apply (Hk j x).
      + apply (Ha j x y); auto.
    - remember (largest cmp h i) as b eqn:Eqb.
      assert (Hbi : (i < b)%nat) by (destruct Eb as [E | E]; rewrite E; idx).
      assert (Hpb : parent b = i) by (destruct Eb as [E | E]; rewrite E; idx).
      replace (b =? i)%nat with false by (symmetry; apply Nat.eqb_neq; lia).
      apply IH.
      { rewrite length_swap. lia. }
      split.
      + intros j x y Hj Hne Hx Hy.
        rewrite (nth_error_swap h i b cur xb j Hc Hxb) in Hx.
        rewrite (nth_error_swap h i b cur xb (parent j) Hc Hxb) in Hy.
        destruct (Nat.eq_dec j b) as [->|Njb].
        * (* b's new content cur under its parent i, now xb *)
          rewrite Nat.eqb_refl in Hx. rewrite Hpb in Hy.
          replace (i =? b)%nat with false in Hy by (symmetry; apply Nat.eqb_neq; lia).
          rewrite Nat.eqb_refl in Hy. inversion Hx; inversion Hy; subst. lia.
        * replace (j =? b)%nat with false in Hx by (symmetry; apply Nat.eqb_neq; lia).
          replace (parent j =? b)%nat with false in Hy by (symmetry; apply Nat.eqb_neq; lia).
          destruct (Nat.eq_dec j i) as [->|Nji].
          { (* i now holds xb; its parent is unchanged: grandparent clause *)
            rewrite Nat.eqb_refl in Hx. inversion Hx; subst x.
            replace (parent i =? i)%nat with false in Hy by (symmetry; apply Nat.eqb_neq; idx).
            apply (Hb b xb y); auto; lia. }
          replace (j =? i)%nat with false in Hx by (symmetry; apply Nat.eqb_neq; lia).
          destruct (parent j =? i)%nat eqn:E1.
          { (* the other child of i: xb dominates it *)
            apply Nat.eqb_eq in E1. inversion Hy; subst y. now apply (Hk j x). }
          apply Nat.eqb_neq in E1. apply (Ha j x y); auto.
      + intros j x y Hj Hb0 Hpj Hx Hy.
        rewrite (nth_error_swap h i b cur xb j Hc Hxb) in Hx.
        rewrite (nth_error_swap h i b cur xb (parent b) Hc Hxb) in Hy.
        rewrite Hpb in Hy.
        replace (i =? b)%nat with false in Hy by (symmetry; apply Nat.eqb_neq; lia).
        rewrite Nat.eqb_refl in Hy. inversion Hy; subst y.
        replace (j =? b)%nat with false in Hx by (symmetry; apply Nat.eqb_neq; idx).
        replace (j =? i)%nat with false in Hx by (symmetry; apply Nat.eqb_neq; idx).
        apply (Ha j x xb); auto; [idx | now rewrite Hpj].
  Qed.

  Theorem pop_max_inv h x h' : HeapInv cmp h -> pop_max cmp h = Some (x, h') -> HeapInv cmp h'.
  Proof.
    intros H. destruct h as [|a [|b t]]; [discriminate | |].
    { intros E; apply some_pair_inj in E as [<- <-]. intros j u v Hj Hu. destruct j; discriminate. }
    rewrite pop_max_cons. intros E; apply some_pair_inj in E as [<- <-].
    set (t' := b :: t) in *.
    assert (Et : t' = removelast t' ++ [last t' a]) by (apply app_removelast_last; discriminate).
    assert (Ll : length t' = S (length (removelast t'))).
    { rewrite Et at 1. rewrite app_length. cbn. lia. }
    apply sift_down_inv.
    { cbn [length]. lia. }
    split.
    - intros j u v Hj Hp Hu Hv.
      (* both j and parent j are >= 1: same cells as in the old heap *)
      assert (Pj : (0 < parent j)%nat) by lia.
      destruct j as [|j']; [lia|]. cbn [nth_error] in Hu.
      destruct (parent (S j')) as [|p'] eqn:Ep; [lia|]. cbn [nth_error] in Hv.
      apply (H (S j') u v); [lia | |].
      + cbn [nth_error]. rewrite Et. rewrite nth_error_app1; [exact Hu|].
        eapply nth_error_lt; eauto.
      + rewrite Ep. cbn [nth_error]. rewrite Et. rewrite nth_error_app1; [exact Hv|].
        eapply nth_error_lt; eauto.
    - intros; lia.
  Qed.

  (* ---------------- the root is a maximum *)

  Theorem heap_root_max h r : HeapInv cmp h -> nth_error h 0 = Some r ->
    forall k y, nth_error h k = Some y -> cmp r y >= 0.
  Proof.
    intros H Hr k. induction k as [k IH] using lt_wf_ind. intros y Hy.
    destruct k as [|k'].
    - rewrite Hr in Hy. inversion Hy; subst. apply cmp_refl.
    - assert (Hp : (parent (S k') < S k')%nat) by idx.
      destruct (nth_error h (parent (S k'))) as [z|] eqn:Hz.
      2:{ apply nth_error_None in Hz. apply nth_error_lt in Hy. lia. }
      apply cmp_trans with (b := z).
      + apply (IH _ Hp z Hz).
      + apply (H (S k') y z); auto. lia.
  Qed.

  Theorem pop_max_is_max h x h' : HeapInv cmp h -> pop_max cmp h = Some (x, h') ->
    forall y, In y h -> cmp x y >= 0.
  Proof.
    intros H E y Hy. apply In_nth_error in Hy. destruct Hy as [k Hk].
    eapply heap_root_max; eauto. eapply pop_max_root; eauto.
  Qed.
End HeapProofs.

(* ------------------------------------------------------------------ heap_get path *)

Lemma walk_app p l1 l2 : walk p (l1 ++ l2) = walk (walk p l1) l2.
Proof. revert p; induction l1 as [|b t IH]; intros p; cbn; auto. Qed.

(* one heap_get_move: consumes the bit below the most significant one *)
Lemma get_move_spec n :
  2 <= n ->
  let L := Z.log2 n in
  let b := fst (get_move n) in
  let n' := snd (get_move n) in
  1 <= L /\ Z.log2 n' = L - 1 /\ 1 <= n' /\
  n = 2 ^ L + (if b then 1 else 0) * 2 ^ (L - 1) + (n' - 2 ^ (L - 1)).
Proof.
  intros Hn. cbn zeta.
  assert (HL : 1 <= Z.log2 n) by (apply Z.log2_le_pow2; lia).
  destruct (Z.log2_spec n) as [Lo Hi]; [lia|].
  set (L := Z.log2 n) in *.
  assert (Eh : 2 ^ L = 2 * 2 ^ (L - 1)).
  { replace L with (Z.succ (L - 1)) at 1 by lia. rewrite Z.pow_succ_r by lia. reflexivity. }
  assert (Es : 2 ^ Z.succ L = 2 * 2 ^ L) by (rewrite Z.pow_succ_r by lia; reflexivity).
  assert (Hpos : 0 < 2 ^ (L - 1)) by (apply Z.pow_pos_nonneg; lia).
  set (h := 2 ^ (L - 1)) in *.
  unfold get_move. fold L. rewrite Eh.
  replace (2 * h / 2) with h by (rewrite Z.mul_comm, Z.div_mul; lia).
  destruct (n - h <? 2 * h) eqn:E; cbn [fst snd].
  - split; [lia|]. split; [|lia]. apply Z.log2_unique; [lia|]. fold h.
    replace (Z.succ (L - 1)) with L by lia. lia.
  - split; [lia|]. split; [|lia]. apply Z.log2_unique; [lia|]. fold h.
    replace (Z.succ (L - 1)) with L by lia. lia.
Qed.

(* the walk of heap_get from any position p: it appends the bits of n below the leading one *)
Lemma get_path_walk fuel : forall n p,
  1 <= n -> (Z.to_nat (Z.log2 n) < fuel)%nat ->
  walk p (get_path fuel n) = p * 2 ^ Z.log2 n + (n - 2 ^ Z.log2 n).
Proof.
  induction fuel as [|f IH]; intros n p Hn Hf; [lia|].
  cbn [get_path]. destruct (n =? 1) eqn:E1.
  { assert (n = 1) by lia. subst n. cbn. lia. }
  assert (H2 : 2 <= n) by lia.
  destruct (get_move_spec n H2) as [HL [El [Hn' Eq]]].
  destruct (get_move n) as [b n'] eqn:Em. cbn [fst snd] in *.
  cbn [walk]. rewrite IH; [|lia|lia].
  rewrite El.
  assert (Eh : 2 ^ Z.log2 n = 2 * 2 ^ (Z.log2 n - 1)).
  { replace (Z.log2 n) with (Z.succ (Z.log2 n - 1)) at 1 by lia. rewrite Z.pow_succ_r by lia. reflexivity. }
  set (h := 2 ^ (Z.log2 n - 1)) in *. rewrite Eh in *. destruct b; lia.
Qed.

(* heap_get(head, n) reaches array position n *)
Theorem heap_get_reaches n fuel :
  1 <= n -> (Z.to_nat (Z.log2 n) < fuel)%nat -> walk 1 (get_path fuel n) = n.
Proof. intros Hn Hf. rewrite get_path_walk by auto. lia. Qed.
