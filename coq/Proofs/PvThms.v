(* C13: the writer model against the emulator-core model: agreement of the two table dumps and the statements exported in
   Props/Properties_C13.v. *)
From Coq Require Import ZArith List Bool Lia.
From OV Require Import Base.CInt Emu.EmuCoreDefs Emu.DecodeDefs Emu.MarkDefs Emu.PvDefs Proofs.PvProofs.
From OV Require Gen.Tables_gen Gen.Pv_gen.
Import ListNotations.
Local Open Scope Z_scope.

(* ================================================================== agreement of the two dumps, and the user-facing statements *)
From OV Require Import Emu.LabelDefs Proofs.EmuCoreWf.

Definition sys_types_okb : bool :=
  forallb (fun ty => existsb (fun e : Z * Z * str * list (Z * str) => let '(t, _, _, _) := e in t =? ty) Pv_gen.th_sys)
          [PRV_THREAD_CPU; PRV_THREAD_TID; PRV_THREAD_STATE] &&
  forallb (fun ty => existsb (fun e : Z * Z * str => let '(t, _, _) := e in t =? ty) Pv_gen.cpu_sys)
          [PRV_CPU_TID; PRV_CPU_PID; PRV_CPU_NRUN] &&
  (affinity_type =? PRV_THREAD_CPU) && memz M_OVNI model_order.
Lemma sys_types_fine : sys_types_okb = true. Proof. vm_compute. reflexivity. Qed.

(* every channel of Tables_gen.chanspecs is a channel of Pv_gen.pv_chans with the same PRV type, on both sides *)
Definition has_spec (m : Z) (cpu : bool) (i ty : Z) : bool :=
  existsb (fun s => (ps_model s =? m) && Bool.eqb (ps_cpu s) cpu && (ps_index s =? i) && (ps_type s =? ty)) Pv_gen.pv_chans.
Definition chans_agreeb : bool :=
  forallb (fun e : Z * Z * bool * bool * Z * Z * Z * Z => let '(m, i, _, _, _, _, ty, _) := e in
             memz m model_order && has_spec m false i ty && has_spec m true i ty) Tables_gen.chanspecs.
Lemma chans_agree : chans_agreeb = true. Proof. vm_compute. reflexivity. Qed.

(* every value label of Tables_gen.labels is a label of the same channel in Pv_gen.pv_chans, on both sides *)
Definition has_label (m : Z) (cpu : bool) (i x : Z) : bool :=
  existsb (fun s => (ps_model s =? m) && Bool.eqb (ps_cpu s) cpu && (ps_index s =? i) &&
                    existsb (fun y => int (fst y) =? x) (ps_labels s)) Pv_gen.pv_chans.
Definition labels_agreeb : bool :=
  forallb (fun e : Z * Z * Z => let '(m, i, x) := e in has_label m false i x && has_label m true i x) Tables_gen.labels.
Lemma labels_agree : labels_agreeb = true. Proof. vm_compute. reflexivity. Qed.

(* a channel index of a model names one PRV type *)
Definition index_fun_okb : bool :=
  forallb (fun s => forallb (fun s' => negb ((ps_model s =? ps_model s') && (ps_index s =? ps_index s')) || (ps_type s =? ps_type s')) Pv_gen.pv_chans)
          Pv_gen.pv_chans.
Lemma index_fun_fine : index_fun_okb = true. Proof. vm_compute. reflexivity. Qed.

Definition state_labels_okb : bool :=
  forallb (fun v => existsb (fun e : Z * Z * str * list (Z * str) => let '(t, _, _, labs) := e in
                               (t =? PRV_THREAD_STATE) && existsb (fun y => int (fst y) =? v) labs) Pv_gen.th_sys) [1; 2; 3; 4; 5].
Lemma state_labels_fine : state_labels_okb = true. Proof. vm_compute. reflexivity. Qed.

(* conversion never needs to look inside the dumped tables: the facts above are the only way in *)
Strategy opaque [Pv_gen.pv_chans Tables_gen.chanspecs Tables_gen.labels Pv_gen.th_sys Pv_gen.cpu_sys].

Lemma index_fun s s2 : In s Pv_gen.pv_chans -> In s2 Pv_gen.pv_chans -> ps_model s = ps_model s2 -> ps_index s = ps_index s2 -> ps_type s = ps_type s2.
Proof.
  intros H1 H2 Em Ei. pose proof index_fun_fine as IF. unfold index_fun_okb in IF.
  pose proof (proj1 (forallb_forall _ _) IF s H1) as I1. cbv beta in I1.
  pose proof (proj1 (forallb_forall _ _) I1 s2 H2) as I2. cbv beta in I2.
  apply orb_true_iff in I2 as [I2|I2]; [|now apply Z.eqb_eq].
  apply negb_true_iff, andb_false_iff in I2 as [I2|I2]; apply Z.eqb_neq in I2; congruence.
Qed.

Lemma enabled_in m en : memz m en = true -> memz m model_order = true -> In m (enabled_order en).
Proof.
  unfold enabled_order. intros A B. apply filter_In. split; [|exact A].
  unfold memz in B. apply existsb_exists in B as (y & Hy & E). apply Z.eqb_eq in E. now subst.
Qed.

Lemma declared_text text p ty : parse_pcf text = Some p -> declared p ty -> text_declares text ty.
Proof. intros P D. apply in_map_iff in D as (t & E & Ht). exists p, t. auto. Qed.
Lemma value_text text p ty v : parse_pcf text = Some p -> has_value p ty v -> text_labels text ty v.
Proof. intros P (t & l & A & B & C). exists p, t, l. auto. Qed.

Lemma has_spec_in m cpu i ty : has_spec m cpu i ty = true ->
  exists s, In s (side_specs Pv_gen.pv_chans m cpu) /\ ps_index s = i /\ ps_type s = ty.
Proof.
  unfold has_spec. intros H. apply existsb_exists in H as (s & Hs & E).
  apply andb_true_iff in E as [E E4]. apply andb_true_iff in E as [E E3]. apply andb_true_iff in E as [E1 E2].
  exists s. split; [|split; [now apply Z.eqb_eq|now apply Z.eqb_eq]]. unfold side_specs. apply filter_In. split; [exact Hs|]. now rewrite E1, E2.
Qed.

Section Emulated.
  Variables (sx : static) (phy en : list Z) (ms : list mtype) (lc : list nat) (tl : list (tkey * str))
            (evs : list (Z * nat * event)) (out : outfiles).
  Hypothesis Hin : inputs_ok sx phy ms tl.
  Hypothesis Hch : s_chans sx = mk_chans en ++ mark_chans ms.
  Hypothesis Hovni : memz M_OVNI en = true.
  Hypothesis Hem : emulate sx phy en ms lc tl evs = Ok out.

  Lemma mk_chans_in sp : In sp (mk_chans en) ->
    exists i, memz (cs_model sp) en = true /\ cs_index sp = i /\ memz (cs_model sp) model_order = true /\
              has_spec (cs_model sp) false i (cs_type sp) = true /\ has_spec (cs_model sp) true i (cs_type sp) = true.
  Proof.
    unfold mk_chans. intros H. apply in_flat_map in H as (e & He & H). destruct e as [[[[[[[m i] stk] dup] tht] cput] ty] fl].
    destruct (memz m en) eqn:Em; [|contradiction]. destruct H as [<-|[]]. cbn [cs_model cs_index cs_type].
    pose proof chans_agree as A. unfold chans_agreeb in A. rewrite forallb_forall in A. specialize (A _ He). cbv beta iota in A.
    apply andb_true_iff in A as [A A3]. apply andb_true_iff in A as [A1 A2]. exists i. auto.
  Qed.

  (* B1: every event type a record of the model can carry (C13_step_records_placed: In (l_type l) (th_types sx) /
     (cpu_types sx)) is declared in the PCF FILE of the same trace *)
  Theorem types_declared :
    (forall ty, In ty (th_types sx) -> text_declares (f_pcf (o_th out)) ty) /\
    (forall ty, In ty (cpu_types sx) -> text_declares (f_pcf (o_cpu out)) ty).
  Proof.
    destruct (emulate_files _ _ _ _ _ _ _ _ Hin Hem) as (st & r & tlines & Rn & F). destruct F as [Pt Pc _ _ S Mo].
    destruct S as (_ & _ & ST & SC). destruct Hin as (_ & Mk & _).
    pose proof sys_types_fine as Y. unfold sys_types_okb in Y.
    apply andb_true_iff in Y as [Y Y4]. apply andb_true_iff in Y as [Y Y3]. apply andb_true_iff in Y as [Y1 Y2].
    rewrite forallb_forall in Y1, Y2.
    assert (Ov : In M_OVNI (enabled_order en)) by now apply enabled_in.
    assert (Marks : forall k, In k ms -> declared (v_pcf (rc_th r)) (100 + mt_type k) /\ declared (v_pcf (rc_cpu r)) (100 + mt_type k)).
    { intros k Hk. destruct (Mo _ Ov) as [(_ & _ & MM) _]. destruct (MM eq_refl k Hk) as [[A _] [B _]]. auto. }
    assert (Chans : forall sp, In sp (s_chans sx) -> declared (v_pcf (rc_th r)) (cs_type sp) /\ declared (v_pcf (rc_cpu r)) (cs_type sp)).
    { intros sp Hsp. rewrite Hch in Hsp. apply in_app_or in Hsp as [Hsp|Hsp].
      - destruct (mk_chans_in sp Hsp) as (i & E1 & _ & E2 & E3 & E4).
        destruct (Mo _ (enabled_in _ _ E1 E2)) as [(A & B & _) _].
        destruct (has_spec_in _ _ _ _ E3) as (s1 & H1 & _ & T1). destruct (has_spec_in _ _ _ _ E4) as (s2 & H2 & _ & T2).
        destruct (A s1 H1) as [D1 _]. destruct (B s2 H2) as [D2 _]. rewrite T1 in D1. rewrite T2 in D2. auto.
      - unfold mark_chans in Hsp. apply in_map_iff in Hsp as (k & <- & Hk). cbn [cs_type]. now apply Marks. }
    split; intros ty Hty.
    - apply (declared_text _ _ _ Pt). unfold th_types in Hty. apply in_app_or in Hty as [Hty|Hty].
      + specialize (Y1 _ Hty). apply existsb_exists in Y1 as ([[[t fl] name] labs] & He & E). apply Z.eqb_eq in E. subst t.
        now destruct (ST _ _ _ _ He).
      + apply in_map_iff in Hty as (sp & <- & Hsp). now apply Chans.
    - apply (declared_text _ _ _ Pc). unfold cpu_types in Hty. apply in_app_or in Hty as [Hty|Hty].
      + specialize (Y2 _ Hty). apply existsb_exists in Y2 as ([[t fl] name] & He & E). apply Z.eqb_eq in E. subst t.
        apply (SC _ _ _ He). cbn in Hty. unfold PRV_CPU_TID, PRV_CPU_PID, PRV_CPU_NRUN in Hty. intuition lia.
      + apply in_map_iff in Hty as (sp & <- & Hsp). now apply Chans.
  Qed.

  (* B2: the ROW files name exactly one row per thread / per CPU, in gindex order *)
  Theorem row_files :
    parse_prf (f_row (o_th out)) = Some (map th_label (s_threads sx)) /\
    parse_prf (f_row (o_cpu out)) = Some (map cpu_label (combine (s_cpus sx) phy)) /\
    length (map th_label (s_threads sx)) = length (s_threads sx) /\
    length (map cpu_label (combine (s_cpus sx) phy)) = length (s_cpus sx).
  Proof.
    destruct (emulate_files _ _ _ _ _ _ _ _ Hin Hem) as (st & r & tlines & Rn & F). destruct F as [_ _ Rt Rc _ _].
    destruct Hin as (Lp & _). rewrite !map_length, combine_length. repeat split; auto. lia.
  Qed.

  (* B4: the values the model can print for the state types (C13_values_labelled: slot_labelled) are labelled in
     the PCF FILES *)
  Lemma val_affinity st r : files_ok sx phy en ms tl st out r ->
    forall v, 1 <= v <= Z.of_nat (length (s_cpus sx)) -> v < 2147483648 -> text_labels (f_pcf (o_th out)) PRV_THREAD_CPU v.
  Proof.
    intros F. destruct F as [Pt Pc _ _ S Mo]. destruct S as (_ & SA & ST & _). destruct Hin as (Lp & _ & _).
    pose proof sys_types_fine as Y. unfold sys_types_okb in Y.
    apply andb_true_iff in Y as [Y Y4]. apply andb_true_iff in Y as [Y Y3]. apply Z.eqb_eq in Y3.
    intros v Hv Hs. apply (value_text _ _ _ _ Pt).
    assert (Lc : length (combine (s_cpus sx) phy) = length (s_cpus sx)) by (rewrite combine_length; lia).
    pose proof (number_nth (combine (s_cpus sx) phy) (Z.to_nat (v - 1)) ({| ci_virtual := false; ci_loom := 0; ci_index := 0 |}, 0) ltac:(lia)) as Hn.
    destruct (nth _ (combine (s_cpus sx) phy) _) as [ci p]. destruct (SA _ _ _ Hn) as [_ V].
    rewrite Z2Nat.id in V by lia. rewrite Y3 in V. rewrite !int_small in V by (unfold PRV_THREAD_CPU; lia).
    now replace (v - 1 + 1) with v in V by lia.
  Qed.

  Lemma val_state st r : files_ok sx phy en ms tl st out r ->
    forall v, 1 <= v <= 5 -> text_labels (f_pcf (o_th out)) PRV_THREAD_STATE v.
  Proof.
    intros F. destruct F as [Pt Pc _ _ S Mo]. destruct S as (_ & SA & ST & _).
    intros v Hv. apply (value_text _ _ _ _ Pt). pose proof state_labels_fine as Z1. unfold state_labels_okb in Z1.
    rewrite forallb_forall in Z1. assert (Iv : In v [1; 2; 3; 4; 5]) by (cbn [In]; lia). specialize (Z1 _ Iv).
    apply existsb_exists in Z1 as ([[[t fl] name] labs] & He & E). apply andb_true_iff in E as [E1 E2]. apply Z.eqb_eq in E1. subst t.
    apply existsb_exists in E2 as (y & Hy & E2). apply Z.eqb_eq in E2. destruct (ST _ _ _ _ He) as [_ V]. rewrite <- E2. now apply V.
  Qed.

  Lemma side_label sp i x cpu : cs_index sp = i -> has_label (cs_model sp) cpu (cs_index sp) x = true -> has_spec (cs_model sp) cpu i (cs_type sp) = true ->
    exists s, In s (side_specs Pv_gen.pv_chans (cs_model sp) cpu) /\ ps_type s = cs_type sp /\ exists y, In y (ps_labels s) /\ int (fst y) = x.
  Proof.
    intros Ei HL HS.
    unfold has_label in HL. apply existsb_exists in HL as (s & Hs & Q).
    apply andb_true_iff in Q as [Q Q4]. apply andb_true_iff in Q as [Q Q3]. apply andb_true_iff in Q as [E1' E2'].
    apply existsb_exists in Q4 as (y & Hy & Ey). apply Z.eqb_eq in Ey, Q3, E1'.
    destruct (has_spec_in _ _ _ _ HS) as (s2 & H2 & I2 & T2). apply filter_In in H2 as [H2 F2]. apply andb_true_iff in F2 as [F2 _]. apply Z.eqb_eq in F2.
    exists s. split; [unfold side_specs; apply filter_In; split; [exact Hs|]; now rewrite E1', Z.eqb_refl, E2'|]. split; [|eauto].
    rewrite <- T2. apply index_fun; [exact Hs|exact H2|congruence|congruence].
  Qed.

  Lemma val_static st r : files_ok sx phy en ms tl st out r ->
    forall k x, (k < length (mk_chans en))%nat -> let sp := spec_of sx k in
       static_labelled (cs_model sp) (cs_index sp) x = true ->
       text_labels (f_pcf (o_th out)) (cs_type sp) x /\ text_labels (f_pcf (o_cpu out)) (cs_type sp) x.
  Proof.
    intros F. destruct F as [Pt Pc _ _ S Mo].
    intros k x Hk sp Hl. assert (Hsp : In sp (mk_chans en)).
    { unfold sp, spec_of. rewrite Hch, app_nth1 by exact Hk. now apply nth_In. }
    destruct (mk_chans_in sp Hsp) as (i & E1 & Ei & E2 & E3 & E4).
    destruct (Mo _ (enabled_in _ _ E1 E2)) as [(A & B & _) _].
    unfold static_labelled in Hl. apply existsb_exists in Hl as ([[m' i'] x'] & Hlab & E).
    apply andb_true_iff in E as [E Ex]. apply andb_true_iff in E as [Em Ei']. apply Z.eqb_eq in Em, Ei', Ex. subst m' i' x'.
    pose proof labels_agree as LA. unfold labels_agreeb in LA. rewrite forallb_forall in LA. specialize (LA _ Hlab). cbv beta iota in LA.
    apply andb_true_iff in LA as [L1 L2].
    destruct (side_label sp i x false Ei L1 E3) as (s1 & H1 & T1 & y1 & Hy1 & V1).
    destruct (side_label sp i x true Ei L2 E4) as (s2 & H2 & T2 & y2 & Hy2 & V2).
    split.
    - apply (value_text _ _ _ _ Pt). destruct (A s1 H1) as [_ V]. rewrite <- T1, <- V1. now apply V.
    - apply (value_text _ _ _ _ Pc). destruct (B s2 H2) as [_ V]. rewrite <- T2, <- V2. now apply V.
  Qed.

  Lemma task_model_in_order m ch : task_model_chan m = Some ch -> memz m model_order = true.
  Proof.
    unfold task_model_chan. destruct (m =? M_NOSV) eqn:E1; [apply Z.eqb_eq in E1; subst m; intros _; vm_compute; reflexivity|].
    destruct (m =? M_NANOS6) eqn:E2; [apply Z.eqb_eq in E2; subst m; intros _; vm_compute; reflexivity|discriminate].
  Qed.

  Lemma val_task st r : files_ok sx phy en ms tl st out r ->
    forall m ch ty, memz m en = true -> task_model_chan m = Some ch -> In ty (types st) -> ty_model ty = m ->
       In (ty_loom ty, ty_pid ty) (procs_of (s_threads sx) []) ->
       text_labels (f_pcf (o_th out)) (int (type_of_chan Pv_gen.pv_chans m ch)) (int (ty_gid ty)) /\
       text_labels (f_pcf (o_cpu out)) (int (type_of_chan Pv_gen.pv_chans m ch)) (int (ty_gid ty)).
  Proof.
    intros F. destruct F as [Pt Pc _ _ S Mo].
    intros m ch ty Em Ech Hty Hm Hp.
    destruct (Mo _ (enabled_in _ _ Em (task_model_in_order _ _ Ech))) as [_ TF].
    assert (Hx : In (ty_gid ty, tlabel tl (ty_loom ty, ty_pid ty, ty_model ty, ty_id ty)) (task_values sx (types st) tl m)).
    { unfold task_values. apply in_flat_map. exists (ty_loom ty, ty_pid ty). split; [exact Hp|]. apply in_flat_map. exists ty. split; [exact Hty|].
      cbn [fst snd]. now rewrite Nat.eqb_refl, Z.eqb_refl, Hm, Z.eqb_refl; left. }
    destruct (TF ch Ech _ Hx) as [V1 V2]. split; [apply (value_text _ _ _ _ Pt)|apply (value_text _ _ _ _ Pc)]; assumption.
  Qed.

  Theorem pcf_values : exists st tlines, run_from sx (init sx) evs = Ok (st, tlines) /\
    (forall v, 1 <= v <= Z.of_nat (length (s_cpus sx)) -> v < 2147483648 -> text_labels (f_pcf (o_th out)) PRV_THREAD_CPU v) /\
    (forall v, 1 <= v <= 5 -> text_labels (f_pcf (o_th out)) PRV_THREAD_STATE v) /\
    (forall k x, (k < length (mk_chans en))%nat -> let sp := spec_of sx k in
       static_labelled (cs_model sp) (cs_index sp) x = true ->
       text_labels (f_pcf (o_th out)) (cs_type sp) x /\ text_labels (f_pcf (o_cpu out)) (cs_type sp) x) /\
    (forall m ch ty, memz m en = true -> task_model_chan m = Some ch -> In ty (types st) -> ty_model ty = m ->
       In (ty_loom ty, ty_pid ty) (procs_of (s_threads sx) []) ->
       text_labels (f_pcf (o_th out)) (int (type_of_chan Pv_gen.pv_chans m ch)) (int (ty_gid ty)) /\
       text_labels (f_pcf (o_cpu out)) (int (type_of_chan Pv_gen.pv_chans m ch)) (int (ty_gid ty))).
  Proof.
    destruct (emulate_files _ _ _ _ _ _ _ _ Hin Hem) as (st & r & tlines & Rn & F).
    exists st, tlines. split; [exact Rn|]. split; [exact (val_affinity st r F)|]. split; [exact (val_state st r F)|].
    split; [exact (val_static st r F)|exact (val_task st r F)].
  Qed.
End Emulated.

(* ================================================================== PRV header at close (part of B3) *)
Lemma overwrite_same_length new old body : length new = length old -> overwrite new (old ++ body) = new ++ body.
Proof.
  intros L. unfold overwrite. f_equal. rewrite L. rewrite skipn_app, skipn_all, Nat.sub_diag. reflexivity.
Qed.

(* prv_close rewrites the header in place with the time of the last prv_advance and the declared row count; the
   records written meanwhile stay (when the two headers have the same length: 0 <= time < 10^20) *)
Theorem prv_close_header pv body :
  pv_file pv = prv_header 0 (pv_nrows pv) ++ body ->
  length (prv_header (pv_time pv) (pv_nrows pv)) = length (prv_header 0 (pv_nrows pv)) ->
  prv_close pv = prv_header (pv_time pv) (pv_nrows pv) ++ body.
Proof. intros F L. unfold prv_close. rewrite F. now apply overwrite_same_length. Qed.

Theorem prv_advance_time pv t pv' : prv_advance pv t = Ok pv' -> pv_time pv' = t /\ pv_time pv <= t /\ pv_nrows pv' = pv_nrows pv /\ pv_file pv' = pv_file pv.
Proof.
  unfold prv_advance. destruct (t <? pv_time pv) eqn:E; [discriminate|]. intros H. injection H as <-. apply Z.ltb_ge in E. cbn. auto.
Qed.
Theorem prv_advance_back pv t : t < pv_time pv -> prv_advance pv t = Err E_PRV_TIME.
Proof. intros H. unfold prv_advance. apply Z.ltb_lt in H. now rewrite H. Qed.

(* every record goes through a registered channel and carries its row and type, at the current time *)
Theorem prv_write_line pv row ty v pv' : prv_write pv row ty v = Ok pv' ->
  exists c, In c (pv_chans pv) /\ pv_file pv' = pv_file pv ++ prv_line (pc_row1 c) (pv_time pv) (pc_type c) v /\
            pv_time pv' = pv_time pv /\ pv_nrows pv' = pv_nrows pv /\ pv_chans pv' = pv_chans pv.
Proof.
  unfold prv_write, prv_find. destruct (find _ (pv_chans pv)) as [c|] eqn:F; [|discriminate]. intros H. injection H as <-.
  apply find_some in F as [Hc _]. exists c. cbn. auto.
Qed.

(* registered rows are rows of the file: a channel registered on row g of n rows prints row g + 1 *)
Theorem prv_register_row pv row ty fl pv' : prv_register pv row ty fl = Ok pv' ->
  pv_chans pv' = pv_chans pv ++ [{| pc_id := ty * pv_nrows pv + row; pc_row1 := row + 1; pc_type := ty; pc_flags := fl |}] /\
  pv_nrows pv' = pv_nrows pv /\ pv_time pv' = pv_time pv /\ pv_file pv' = pv_file pv.
Proof.
  unfold prv_register. destruct (prv_find _ _); [discriminate|]. destruct (negb (check_flags fl)); [discriminate|].
  intros H. injection H as <-. cbn. auto.
Qed.
Theorem prv_register_twice pv row ty fl fl' pv' : prv_register pv row ty fl = Ok pv' -> prv_register pv' row ty fl' = Err E_PRV_DUPCHAN.
Proof.
  intros H. apply prv_register_row in H as (C & N & _). unfold prv_register, prv_find, prv_get_id. rewrite C, N.
  assert (G : forall l (c : prv_chan), find (fun x => pc_id x =? pc_id c) (l ++ [c]) <> None).
  { induction l as [|a l IH]; intros c; cbn [app find]; [now rewrite Z.eqb_refl|]. destruct (pc_id a =? pc_id c); [discriminate|apply IH]. }
  specialize (G (pv_chans pv) {| pc_id := ty * pv_nrows pv + row; pc_row1 := row + 1; pc_type := ty; pc_flags := fl |}). cbn [pc_id] in G.
  destruct (find _ _); [reflexivity|congruence].
Qed.

(* ================================================================== a concrete trace: 2 threads, 2 CPUs + the virtual CPU, nOS-V and marks *)
Definition pv_ex_ms : list mtype :=
  [{| mt_type := 1; mt_title := [80; 104]; mt_stack := true; mt_labels := [(1, [111; 110; 101])] |};
   {| mt_type := 7; mt_title := [69; 114]; mt_stack := false; mt_labels := [] |}].
Definition pv_ex_en : list Z := [M_OVNI; M_NOSV].
Definition pv_ex_sx : static :=
  {| s_threads := [{| ti_tid := 11; ti_pid := 5; ti_loom := 0; ti_appid := 1; ti_rank := -1 |};
                   {| ti_tid := 12; ti_pid := 5; ti_loom := 0; ti_appid := 1; ti_rank := -1 |}];
     s_cpus := [{| ci_virtual := false; ci_loom := 0; ci_index := 0 |}; {| ci_virtual := false; ci_loom := 0; ci_index := 1 |};
                {| ci_virtual := true; ci_loom := 0; ci_index := -1 |}];
     s_chans := mk_chans pv_ex_en ++ mark_chans pv_ex_ms; s_lint := false |}.
Definition pv_ex_phy : list Z := [3; 4; -1].
Definition pv_ex_revs : list raw_ev :=
  [(100, 0%nat, (79, 72, 120), [0; 0; 0; 0; 11; 0; 0; 0; 0; 0; 0; 0], false, 0);     (* OHx cpu 0 *)
   (103, 1%nat, (79, 72, 120), [1; 0; 0; 0; 12; 0; 0; 0; 0; 0; 0; 0], false, 0);     (* OHx cpu 1 *)
   (105, 0%nat, (86, 83, 104), [], false, 0);                                          (* VSh *)
   (107, 1%nat, (79, 77, 91), [1; 0; 0; 0; 0; 0; 0; 0; 1; 0; 0; 0], false, 0);        (* OM[ value 1 type 1 *)
   (109, 1%nat, (79, 77, 93), [1; 0; 0; 0; 0; 0; 0; 0; 1; 0; 0; 0], false, 0);        (* OM] *)
   (110, 0%nat, (86, 83, 102), [], false, 0);                                          (* VSf *)
   (120, 0%nat, (79, 72, 101), [], false, 0);                                          (* OHe *)
   (126, 1%nat, (79, 72, 101), [], false, 0)].                                         (* OHe *)
Definition pv_ex_evs : list (Z * nat * event) :=
  map (fun e : raw_ev => let '(tm, who, (m, c, v), p, j, aux) := e in (tm, who, decode_all pv_ex_en (s_chans pv_ex_sx) m c v p j aux)) pv_ex_revs.
Definition pv_ex_out : result outfiles :=
  emulate pv_ex_sx pv_ex_phy pv_ex_en pv_ex_ms (lint_chans (mk_chans pv_ex_en)) (tlabels_of pv_ex_sx pv_ex_revs) pv_ex_evs.

(* ================================================================== the documented row order (C15's system model) *)
From OV Require Emu.MetaDefs.

(* the names of the rows of a system built by MetaDefs.build: looms in their sorted order, processes, threads by TID;
   the CPUs of a loom by physical id, its virtual CPU last *)
Definition sys_th_label (x : MetaDefs.name * Z * Z * Z) : str :=
  let '(_, _, t, a) := x in S_TH ++ dec (int a) ++ [46] ++ dec (int t).
Definition sys_cpu_label (x : Z * MetaDefs.name * option (Z * Z)) : str :=
  let '(g, _, c) := x in
  match c with
  | Some (_, ph) => S_CPU ++ dec g ++ [46] ++ dec ph
  | None => S_VCPU ++ dec g ++ [46; 42]
  end.

(* [sx], [phy] describe the same threads and CPUs as [sys], in the same order *)
Definition same_system (sys : MetaDefs.system) (sx : static) (phy : list Z) : Prop :=
  map (fun ti => (ti_appid ti, ti_tid ti)) (s_threads sx) =
    map (fun x : MetaDefs.name * Z * Z * Z => let '(_, _, t, a) := x in (a, t)) (MetaDefs.thread_list sys) /\
  map (fun x : cpu_info * Z => (ci_virtual (fst x), Z.of_nat (ci_loom (fst x)), if ci_virtual (fst x) then 0 else snd x)) (combine (s_cpus sx) phy) =
    map (fun x : Z * MetaDefs.name * option (Z * Z) => let '(g, _, c) := x in
           match c with Some (_, ph) => (false, g, ph) | None => (true, g, 0) end) (MetaDefs.cpu_list sys).

Lemma map_via {A B C} (f : A -> C) (g : B -> C) (pa : A -> (Z * Z)) (pb : B -> (Z * Z)) (h : Z * Z -> C) la lb :
  (forall a, f a = h (pa a)) -> (forall b, g b = h (pb b)) -> map pa la = map pb lb -> map f la = map g lb.
Proof.
  intros Hf Hg E. rewrite (map_ext f (fun a => h (pa a)) Hf), (map_ext g (fun b => h (pb b)) Hg).
  rewrite <- (map_map pa h), <- (map_map pb h). now rewrite E.
Qed.

Theorem row_names_of_system sys sx phy : same_system sys sx phy ->
  map th_label (s_threads sx) = map sys_th_label (MetaDefs.thread_list sys) /\
  map cpu_label (combine (s_cpus sx) phy) = map sys_cpu_label (MetaDefs.cpu_list sys).
Proof.
  intros [Ht Hc]. split.
  - apply (map_via _ _ _ _ (fun p => S_TH ++ dec (int (fst p)) ++ [46] ++ dec (int (snd p))) _ _) with (3 := Ht).
    + intros ti. reflexivity.
    + intros [[[l p] t] a]. reflexivity.
  - set (h := fun q : bool * Z * Z => let '(v, g, ph) := q in if v then S_VCPU ++ dec g ++ [46; 42] else S_CPU ++ dec g ++ [46] ++ dec ph).
    assert (E : map (fun x => h ((fun x : cpu_info * Z => (ci_virtual (fst x), Z.of_nat (ci_loom (fst x)), if ci_virtual (fst x) then 0 else snd x)) x)) (combine (s_cpus sx) phy) =
                map (fun x => h ((fun x : Z * MetaDefs.name * option (Z * Z) => let '(g, _, c) := x in
                        match c with Some (_, ph) => (false, g, ph) | None => (true, g, 0) end) x)) (MetaDefs.cpu_list sys)).
    { rewrite <- (map_map _ h), <- (map_map _ h (MetaDefs.cpu_list sys)). now rewrite Hc. }
    etransitivity; [|etransitivity; [exact E|]]; apply map_ext.
    + intros [ci p]. unfold cpu_label, cpu_name, h. cbn [fst snd]. now destruct (ci_virtual ci).
    + intros [[g l] [[i ph]|]]; reflexivity.
Qed.

Lemma pcf_long_refused p id x l : MAXL <= slen l ->
  (forall p', pcf_add_type p id l <> Ok p') /\ (forall p', pcf_add_value p id x l <> Ok p').
Proof. intros H. split; [now apply pcf_add_type_long|now apply pcf_add_value_long]. Qed.
