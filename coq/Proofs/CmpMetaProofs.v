(* C15: the orders of the metadata model (Emu/MetaDefs.v) are the comparators of loom.c, proc.c and
   system.c as translated from the source on every run (coq/Gen/Cmp_meta_gen.v). *)
From Coq Require Import ZArith List Bool Lia String.
From Coq Require Import ZifyBool.
From OV Require Import Base.CInt Emu.CmpPre Gen.Cmp_meta_gen Proofs.CmpBase Emu.MetaDefs.
Import ListNotations.
Local Open Scope Z_scope.

Local Open Scope string_scope.
(* the statements that fetch the compared integers, and the signatures, are the ones the model was
   written against: which object, which field or accessor, which C type *)
Lemma meta_preludes_as_modelled :
  by_pid_prelude = ["int id1 = proc_get_pid(p1)"; "int id2 = proc_get_pid(p2)"] /\
  by_rank_prelude = ["int id1 = p1->rank"; "int id2 = p2->rank"; "int pid1 = proc_get_pid(p1)"; "int pid2 = proc_get_pid(p2)"] /\
  by_phyid_prelude = ["int id1 = cpu_get_phyid(c1)"; "int id2 = cpu_get_phyid(c2)"] /\
  by_tid_prelude = ["int id1 = thread_get_tid(t1)"; "int id2 = thread_get_tid(t2)"] /\
  cmp_loom_rank_prelude = ["int id1 = a->rank_min"; "int id2 = b->rank_min"] /\
  cmp_loom_id_prelude = [] /\
  by_pid_sig = "int (struct proc *, struct proc *) | struct proc * p1, struct proc * p2" /\
  by_rank_sig = "int (struct proc *, struct proc *) | struct proc * p1, struct proc * p2" /\
  by_phyid_sig = "int (struct cpu *, struct cpu *) | struct cpu * c1, struct cpu * c2" /\
  by_tid_sig = "int (struct thread *, struct thread *) | struct thread * t1, struct thread * t2" /\
  cmp_loom_rank_sig = "int (struct loom *, struct loom *) | struct loom * a, struct loom * b" /\
  cmp_loom_id_sig = "int (struct loom *, struct loom *) | struct loom * a, struct loom * b".
Proof. repeat split; reflexivity. Qed.
Local Close Scope string_scope.

Lemma by_pid_core_cmp3 a b : by_pid_core a b = cmp3 a b.       Proof. unfold by_pid_core. three. Qed.
(* rank, then PID (the tie-break of patches/fix-c15-rank-ties.diff) *)
Lemma by_rank_core_lex a b p q : by_rank_core a b p q = if a =? b then cmp3 p q else cmp3 a b.
Proof. unfold by_rank_core. destruct (a =? b) eqn:E; three. Qed.
Lemma by_phyid_core_cmp3 a b : by_phyid_core a b = cmp3 a b.   Proof. unfold by_phyid_core. three. Qed.
Lemma by_tid_core_cmp3 a b : by_tid_core a b = cmp3 a b.       Proof. unfold by_tid_core. three. Qed.
(* minimum rank, then name *)
Lemma cmp_loom_rank_core_lex a b x y : cmp_loom_rank_core a b x y = if a =? b then strcmp x y else cmp3 a b.
Proof. unfold cmp_loom_rank_core, get_id. destruct (a =? b) eqn:E; three. Qed.

Lemma strcmp_le_meta : forall a b, (strcmp a b <=? 0) = str_le a b.
Proof.
  induction a as [|x a IH]; intros [|y b]; cbn [strcmp str_le]; try reflexivity.
  destruct (x <? y) eqn:E1; [reflexivity|]. destruct (y <? x) eqn:E2; [reflexivity|]. apply IH.
Qed.
Lemma cmp_loom_id_is_model_order a b : (cmp_loom_id_core a b <=? 0) = str_le a b.
Proof. unfold cmp_loom_id_core, get_id. apply strcmp_le_meta. Qed.

Lemma isort_ext {A} (le1 le2 : A -> A -> bool) : (forall a b, le1 a b = le2 a b) ->
  forall l, isort le1 l = isort le2 l.
Proof.
  intros H l. unfold isort. induction l as [|x l IH]; cbn [fold_right]; [reflexivity|].
  rewrite IH. generalize (fold_right (insert le2) [] l). intro r.
  induction r as [|y r IHr]; cbn [insert]; [reflexivity|]. rewrite H, IHr. reflexivity.
Qed.

(* the four sorts of [sort_loom] / [finish], written with the comparators of the source *)
Lemma meta_threads_sorted_by_tid l :
  isort Z.leb l = isort (fun a b => by_tid_core a b <=? 0) l.
Proof. apply isort_ext. intros. rewrite by_tid_core_cmp3. symmetry. apply cmp3_le. Qed.

Lemma meta_cpus_sorted_by_phyid (l : list (Z * Z)) :
  isort (fun c d => snd c <=? snd d) l = isort (fun c d => by_phyid_core (snd c) (snd d) <=? 0) l.
Proof. apply isort_ext. intros. rewrite by_phyid_core_cmp3. symmetry. apply cmp3_le. Qed.

(* the order of the processes of a loom and of the looms, as the model defines them *)
Lemma proc_le_from_source st l p q :
  proc_le true st l p q =
  if rank_enabled st l then by_rank_core (rank_of st (l, p)) (rank_of st (l, q)) p q <=? 0 else by_pid_core p q <=? 0.
Proof.
  unfold proc_le. destruct (rank_enabled st l).
  - rewrite by_rank_core_lex. destruct (rank_of st (l, p) =? rank_of st (l, q)) eqn:E.
    + rewrite cmp3_le. apply Z.eqb_eq in E. rewrite E, Z.ltb_irrefl. reflexivity.
    + rewrite cmp3_le. cbn [andb]. rewrite orb_false_r. lia.
  - rewrite by_pid_core_cmp3, cmp3_le. reflexivity.
Qed.

Lemma loom_le_from_source st br a b :
  loom_le true st br a b =
  if br then cmp_loom_rank_core (rank_min st a) (rank_min st b) a b <=? 0 else cmp_loom_id_core a b <=? 0.
Proof.
  unfold loom_le. destruct br.
  - rewrite cmp_loom_rank_core_lex. destruct (rank_min st a =? rank_min st b) eqn:E.
    + rewrite strcmp_le_meta. apply Z.eqb_eq in E. rewrite E, Z.ltb_irrefl. reflexivity.
    + rewrite cmp3_le. cbn [andb]. rewrite orb_false_r. lia.
  - symmetry. apply cmp_loom_id_is_model_order.
Qed.

Lemma meta_looms_sorted_from_source st br l :
  isort (loom_le true st br) l =
  isort (fun a b => if br then cmp_loom_rank_core (rank_min st a) (rank_min st b) a b <=? 0 else cmp_loom_id_core a b <=? 0) l.
Proof. apply isort_ext. intros. apply loom_le_from_source. Qed.

(* [sort_loom] restated over the translated comparators *)
Lemma sort_loom_from_source st l :
  sort_loom st l =
  (l,
   map (fun p => (p, app_of st (l, p), isort (fun a b => by_tid_core a b <=? 0) (threads_of st (l, p))))
       (isort (fun p q => if rank_enabled st l then by_rank_core (rank_of st (l, p)) (rank_of st (l, q)) p q <=? 0
                          else by_pid_core p q <=? 0) (procs_of st l)),
   isort (fun c d => by_phyid_core (snd c) (snd d) <=? 0) (cpus_of st l)).
Proof.
  unfold sort_loom, sort_loom_gen.
  rewrite (isort_ext (proc_le true st l) _ (proc_le_from_source st l)).
  rewrite meta_cpus_sorted_by_phyid.
  f_equal. f_equal. apply map_ext. intro p. rewrite meta_threads_sorted_by_tid. reflexivity.
Qed.
