(* C17: the generated readers of the mark metadata (Gen/MarkRead_gen.v, unit markread) = the hand model Rt/MarkJsonDefs.v
   (parse_number, parse_labels, parse_mark_entry, parse_mark_json) composed with Emu/MarkDefs.v (merge_labels, merge_def). *)
From OV Require Import Base.CInt Emu.VersionDefs Emu.MarkDefs Proofs.MarkProofs Rt.RtMetaDefs Rt.MarkJsonDefs Emu.MarkReadPre Gen.MarkRead_gen.
From OV Require Emu.VParsePre Proofs.VParseProofs.
From Coq Require Import ZifyBool.
Local Open Scope Z_scope.

Definition nonul (s : list Z) : Prop := forall c, In c s -> c <> 0.

(* ------------------------------------------------------------------ the two strtol models coincide *)
Lemma skip_space_eq s : VersionDefs.skip_space s = MarkJsonDefs.skip_spaces s.
Proof. induction s as [|c r IH]; cbn [VersionDefs.skip_space skip_spaces]; [reflexivity|]. unfold VersionDefs.is_space, MarkJsonDefs.is_space. destruct ((c =? 32) || ((9 <=? c) && (c <=? 13))); [exact IH|reflexivity]. Qed.

Lemma digits_value_eq s : VersionDefs.digits_value s = MarkJsonDefs.digits_val s.
Proof. reflexivity. Qed.

Lemma span_all_digits s : forall ds rest, VersionDefs.span_digits s = (ds, rest) ->
  (forallb MarkJsonDefs.is_digit s = true -> ds = s /\ rest = []) /\
  (forallb MarkJsonDefs.is_digit s = false -> rest <> []) /\ s = ds ++ rest.
Proof.
  induction s as [|c r IH]; intros ds rest H; cbn [VersionDefs.span_digits] in H.
  - injection H as <- <-. split; [intros _; split; reflexivity|]. split; [intros F; discriminate F|reflexivity].
  - change (VersionDefs.is_digit c) with (MarkJsonDefs.is_digit c) in H. cbn [forallb].
    destruct (MarkJsonDefs.is_digit c) eqn:E.
    + destruct (VersionDefs.span_digits r) as [d' r'] eqn:S. injection H as <- <-. destruct (IH d' r' eq_refl) as (A & B & C). cbn [andb].
      split; [intros F; destruct (A F) as [-> ->]; auto|]. split; [exact B|]. cbn [app]. f_equal. exact C.
    + injection H as <- <-. cbn [andb]. split; [intros F; discriminate F|]. split; [intros _; discriminate|reflexivity].
Qed.

Lemma len_app_lt {A} (a b : list A) : a <> [] -> (length b < length (a ++ b))%nat.
Proof. intros H. destruct a; [contradiction|]. rewrite app_length. cbn [length]. lia. Qed.

Lemma skip_space_len s : (length (VersionDefs.skip_space s) <= length s)%nat.
Proof. induction s as [|x s IH]; cbn [VersionDefs.skip_space length]; [lia|]. destruct (VersionDefs.is_space x); cbn [length]; lia. Qed.
Lemma skip_space_in s c : In c (VersionDefs.skip_space s) -> In c s.
Proof. induction s as [|x s IH]; cbn [VersionDefs.skip_space]; [tauto|]. destruct (VersionDefs.is_space x); cbn [In]; tauto. Qed.

Lemma parse_number_alt s : MarkJsonDefs.parse_number s =
  (let '(neg, s2) := VersionDefs.strip_sign (VersionDefs.skip_space s) in
   match s2 with
   | [] => None
   | _ :: _ =>
     if forallb MarkJsonDefs.is_digit s2 then
       let v := if neg then - MarkJsonDefs.digits_val s2 else MarkJsonDefs.digits_val s2 in
       if (- 2 ^ 63 <=? v) && (v <? 2 ^ 63) then Some v else None
     else None
   end).
Proof.
  unfold MarkJsonDefs.parse_number. cbv zeta. rewrite <- (skip_space_eq s).
  destruct (VersionDefs.skip_space s) as [|c r]; [reflexivity|]. cbn [VersionDefs.strip_sign].
  destruct (c =? 45); [reflexivity|]. destruct (c =? 43); reflexivity.
Qed.

(* parse_number: strtoll, errno / endptr checks, the out cell *)
Definition out_state (st : mrstate) (e v : Z) : mrstate := mkR (r_tbl st) (r_pt st) (r_pl st) e v (r_n st) (r_lk st).

(* errno = 0; strtol(s, &endptr, 10); the errno / endptr / trailing byte test; then the continuation on the number
   (parse_number and parse_mark start with these same statements) *)
Definition num_prefix {R} (s : ptr_str) (k : Z -> M R) : M R :=
  bind_ (set_errno 0)
    (bind (strtol_c s 10) (fun r_1 =>
       bind get_errno (fun errno_2 =>
         ite (orb (orb (negb (Z.eqb errno_2 0)) (ptr_eqb (snd r_1) s)) (negb (Z.eqb (char_at (snd r_1) 0) 0)))
           (fail E_FAIL) (k (fst r_1))))).
Definition errno_state (st : mrstate) (e : Z) : mrstate := mkR (r_tbl st) (r_pt st) (r_pl st) e (r_out st) (r_n st) (r_lk st).

Lemma num_prefix_spec {R} (k : Z -> M R) : forall s st, nonul s ->
  num_prefix (Some s) k st =
  match MarkJsonDefs.parse_number s with
  | Some v => k v (errno_state st 0)
  | None => RErr E_FAIL
  end.
Proof.
  intros s st Hn. unfold num_prefix, bind_, bind, set_errno, MarkReadPre.strtol_c, as_vptr, VParsePre.strtol_c.
  cbn [r_errno r_tbl r_pt r_pl r_out r_n r_lk]. change (negb (10 =? 10)) with false. cbv beta iota.
  rewrite parse_number_alt.
  set (s0 := VersionDefs.skip_space s).
  assert (Hs0 : forall c, In c s0 -> c <> 0) by (intros c Hc; apply Hn; apply skip_space_in; exact Hc).
  pose proof (skip_space_len s) as Ls0. fold s0 in Ls0.
  pose proof (VParseProofs.strip_sign_len s0) as Ls2. pose proof (fun c => VParseProofs.strip_sign_in s0 c) as Hin2.
  destruct (VersionDefs.strip_sign s0) as [neg s2]. cbn [snd] in Ls2, Hin2.
  assert (Hs2 : forall c, In c s2 -> c <> 0) by (intros c Hc; apply Hs0; apply Hin2; exact Hc).
  destruct (VersionDefs.span_digits s2) as [ds rest] eqn:Sd.
  destruct (span_all_digits s2 ds rest Sd) as (A & B & C).
  destruct ds as [|d0 ds'].
  - (* no digit: endptr == str *)
    unfold VParsePre.ret, get_errno, ptr_eqb, as_vptr, VParsePre.ptr_eqb. cbn [VParsePre.v_errno fst snd r_errno]. rewrite Z.eqb_refl. cbn [negb orb ite].
    destruct s2 as [|c2 r2]; [reflexivity|]. cbn [app] in C. subst rest.
    destruct (forallb MarkJsonDefs.is_digit (c2 :: r2)) eqn:F; [|reflexivity]. destruct (A eq_refl) as [X _]. discriminate X.
  - set (v := if neg then - VersionDefs.digits_value (d0 :: ds') else VersionDefs.digits_value (d0 :: ds')).
    assert (Hne : (0 + (VParsePre.slen s - VParsePre.slen rest) =? 0) = false).
    { unfold VParsePre.slen. assert (length rest < length s2)%nat by (rewrite C; apply len_app_lt; discriminate). lia. }
    destruct s2 as [|c2 r2]; [discriminate C|].
    destruct (forallb MarkJsonDefs.is_digit (c2 :: r2)) eqn:F.
    + destruct (A eq_refl) as [E1 E2]. subst rest. rewrite <- E1. fold (VersionDefs.digits_value (d0 :: ds')). rewrite <- digits_value_eq. fold v.
      change VersionDefs.LONG_MAX with (2 ^ 63 - 1). change VersionDefs.LONG_MIN with (- 2 ^ 63).
      destruct (v >? 2 ^ 63 - 1) eqn:E3.
      * unfold VParsePre.bind_, VParsePre.bind, VParsePre.set_errno, VParsePre.ret, get_errno. cbn [VParsePre.v_errno r_errno fst snd].
        change (negb (VParsePre.ERANGE =? 0)) with true. cbn [orb ite]. replace ((- 2 ^ 63 <=? v) && (v <? 2 ^ 63)) with false by lia. reflexivity.
      * destruct (v <? - 2 ^ 63) eqn:E4.
        -- unfold VParsePre.bind_, VParsePre.bind, VParsePre.set_errno, VParsePre.ret, get_errno. cbn [VParsePre.v_errno r_errno fst snd].
           change (negb (VParsePre.ERANGE =? 0)) with true. cbn [orb ite]. replace ((- 2 ^ 63 <=? v) && (v <? 2 ^ 63)) with false by lia. reflexivity.
        -- unfold VParsePre.ret, get_errno, ptr_eqb, as_vptr, VParsePre.ptr_eqb, char_at, VParsePre.char_at. cbn [VParsePre.v_errno r_errno fst snd].
           rewrite Hne. change (0 =? 0) with true. change (0 <? 0) with false. cbn [negb orb Z.to_nat nth ite].
           replace ((- 2 ^ 63 <=? v) && (v <? 2 ^ 63)) with true by lia. reflexivity.
    + pose proof (B eq_refl) as Hr. destruct rest as [|c1 rest']; [contradiction|].
      assert (c1 <> 0) by (apply Hs2; rewrite C; apply in_or_app; right; left; reflexivity).
      change VersionDefs.LONG_MAX with (2 ^ 63 - 1). change VersionDefs.LONG_MIN with (- 2 ^ 63). fold v.
      destruct (v >? 2 ^ 63 - 1).
      * unfold VParsePre.bind_, VParsePre.bind, VParsePre.set_errno, VParsePre.ret, get_errno. cbn [VParsePre.v_errno r_errno fst snd].
        change (negb (VParsePre.ERANGE =? 0)) with true. cbn [orb ite]. reflexivity.
      * destruct (v <? - 2 ^ 63).
        -- unfold VParsePre.bind_, VParsePre.bind, VParsePre.set_errno, VParsePre.ret, get_errno. cbn [VParsePre.v_errno r_errno fst snd].
           change (negb (VParsePre.ERANGE =? 0)) with true. cbn [orb ite]. reflexivity.
        -- unfold VParsePre.ret, get_errno, char_at, VParsePre.char_at. cbn [VParsePre.v_errno r_errno fst snd].
           change (0 <? 0) with false. cbn [Z.to_nat nth]. replace (negb (c1 =? 0)) with true by lia. rewrite !orb_true_r. reflexivity.
Qed.

Theorem parse_number_from_source : forall s st, nonul s ->
  MarkRead_gen.parse_number (Some s) tt st =
  match MarkJsonDefs.parse_number s with
  | Some v => ROk (0, out_state st 0 v)
  | None => RErr E_FAIL
  end.
Proof.
  intros s st Hn. change (MarkRead_gen.parse_number (Some s) tt) with (num_prefix (Some s) (fun n => bind_ (set_out n) (ret 0))).
  rewrite (num_prefix_spec _ s st Hn). destruct (MarkJsonDefs.parse_number s); reflexivity.
Qed.

(* ------------------------------------------------------------------ handles, tables *)
From OV Require Import Proofs.MarkJsonProofs.

Definition hkey (st : mrstate) (h : thandle) : Z := match h with TTab ty => ty | TPend => mt_type (r_pt st) end.
Definition linked (st : mrstate) (h : thandle) : Prop := match h with TPend => r_lk st = true | TTab _ => True end.
(* what add_label / parse_labels leave alone *)
Definition frame (st st' : mrstate) : Prop := r_pt st' = r_pt st /\ r_lk st' = r_lk st /\ r_n st' = r_n st.

Lemma type_of_linked st h : linked st h -> type_of st h = find_mt (r_tbl st) (hkey st h).
Proof. destruct h; cbn [linked type_of hkey]; [reflexivity|]. intros ->. reflexivity. Qed.
Lemma set_type_linked st h m : linked st h -> set_type st h m = with_tbl st (replace_mt (r_tbl st) m).
Proof. destruct h; cbn [linked set_type]; [reflexivity|]. intros ->. reflexivity. Qed.

Lemma str_cmp_eq a : forall b, (str_cmp a b =? 0) = str_eqb a b.
Proof.
  induction a as [|x a IH]; intros [|y b]; cbn [str_cmp]; try reflexivity.
  destruct (x <? y) eqn:E1.
  - unfold str_eqb. destruct (list_eq_dec Z.eq_dec (x :: a) (y :: b)) as [E|E]; [injection E; lia|reflexivity].
  - destruct (y <? x) eqn:E2.
    + unfold str_eqb. destruct (list_eq_dec Z.eq_dec (x :: a) (y :: b)) as [E|E]; [injection E; lia|reflexivity].
    + rewrite IH. assert (x = y) by lia. subst y. unfold str_eqb.
      destruct (list_eq_dec Z.eq_dec a b) as [E|E]; destruct (list_eq_dec Z.eq_dec (x :: a) (x :: b)) as [E'|E']; try reflexivity.
      * subst. contradiction.
      * injection E' as ->. contradiction.
Qed.

Lemma replace_replace tbl m1 m2 : mt_type m1 = mt_type m2 -> replace_mt (replace_mt tbl m1) m2 = replace_mt tbl m2.
Proof.
  intros E. induction tbl as [|d r IH]; cbn [replace_mt]; [reflexivity|].
  destruct (mt_type d =? mt_type m1) eqn:E1; cbn [replace_mt]; rewrite <- E.
  - rewrite Z.eqb_refl, E1. reflexivity.
  - rewrite E1. rewrite IH. reflexivity.
Qed.

Lemma find_replace_same tbl m0 m : find_mt tbl (mt_type m) = Some m0 -> find_mt (replace_mt tbl m) (mt_type m) = Some m.
Proof. intros H. rewrite find_mt_replace, H, Z.eqb_refl. reflexivity. Qed.

(* ------------------------------------------------------------------ add_label *)
Lemma add_label_spec st h m v lab : linked st h -> find_mt (r_tbl st) (hkey st h) = Some m ->
  MarkRead_gen.add_label (Some h) v (Some lab) st =
  match lookup_label (mt_labels m) v with
  | Some s' => if str_eqb lab s' then ROk (0, st) else RErr E_FAIL
  | None => if 512 <=? Z.of_nat (length lab) then RErr E_FAIL
            else ROk (0, with_tbl (with_pl st (v, lab)) (replace_mt (r_tbl st) (upd_labels m (mt_labels m ++ [(v, lab)]))))
  end.
Proof.
  intros L F. unfold MarkRead_gen.add_label, MarkRead_gen.find_label, bind, bind_, hash_find_label, ret.
  rewrite (type_of_linked st h L), F.
  destruct (lookup_label (mt_labels m) v) as [s'|] eqn:Lk; cbn [is_null negb ite].
  - unfold rd_mark_label_label. rewrite (type_of_linked st h L), F, Lk. unfold strcmp_c. rewrite str_cmp_eq.
    assert (E : str_eqb s' lab = str_eqb lab s').
    { unfold str_eqb. destruct (list_eq_dec Z.eq_dec s' lab); destruct (list_eq_dec Z.eq_dec lab s'); congruence. }
    rewrite E. destruct (str_eqb lab s'); reflexivity.
  - cbv beta iota zeta delta [calloc_mark_label set_mark_label_value snprintf_mark_label_label hash_add_label with_pl is_null ite bind bind_ ret negb].
    cbn [r_tbl r_pt r_pl r_errno r_out r_n r_lk fst snd].
    rewrite Z.geb_leb. destruct (512 <=? Z.of_nat (length lab)) eqn:E; [reflexivity|].
    assert (Fn : firstn (Z.to_nat (512 - 1)) lab = lab) by (apply firstn_all2; lia). rewrite Fn.
    set (st1 := mkR (r_tbl st) (r_pt st) (v, lab) (r_errno st) (r_out st) (r_n st) (r_lk st)).
    assert (L1 : linked st1 h) by (destruct h; exact L).
    assert (K1 : hkey st1 h = hkey st h) by (destruct h; reflexivity).
    rewrite (type_of_linked st1 h L1), K1. change (r_tbl st1) with (r_tbl st). rewrite F.
    rewrite (set_type_linked st1 h _ L1). reflexivity.
Qed.

(* ------------------------------------------------------------------ parse_labels *)
Definition short (p : Z * str) : Prop := Z.of_nat (length (snd p)) < 512.

Definition label_step (t : ptr_mtype) (kv : str * json) : M unit :=
  let valuestr := Some (fst kv) in
  ite (is_null valuestr) (fail E_FAIL)
  (bind (MarkRead_gen.parse_number valuestr tt) (fun r_1 =>
     ite (negb (Z.eqb r_1 0)) (fail E_FAIL)
     (bind get_out (fun value =>
        let labelval := Some (snd kv) in
        ite (is_null labelval) (fail E_FAIL)
        (let label := json_value_get_string_c labelval in
         ite (is_null label) (fail E_FAIL)
         (bind (MarkRead_gen.add_label t value label) (fun r_2 =>
            ite (negb (Z.eqb r_2 0)) (fail E_FAIL) (ret tt)))))))).

Fixpoint seqm {A} (step : A -> M unit) (l : list A) : M unit :=
  match l with [] => ret tt | a :: r => bind_ (step a) (seqm step r) end.

Lemma for_count_members {A} (body : Z -> M unit) (step : A -> M unit) (all : list A) :
  (forall i a, nth_error all i = Some a -> body (Z.of_nat i) = step a) ->
  forall l pre, all = pre ++ l -> for_count_n (length l) (Z.of_nat (length pre)) body = seqm step l.
Proof.
  intros H. induction l as [|a l IH]; intros pre E; cbn [length for_count_n seqm]; [reflexivity|].
  rewrite (H (length pre) a).
  2:{ rewrite E, nth_error_app2, Nat.sub_diag by lia. reflexivity. }
  f_equal. replace (Z.of_nat (length pre) + 1) with (Z.of_nat (length (pre ++ [a]))) by (rewrite app_length; cbn [length]; lia).
  apply IH. rewrite <- app_assoc. exact E.
Qed.

Lemma parse_labels_shape t ls :
  MarkRead_gen.parse_labels t (Some ls) = bind_ (seqm (label_step t) ls) (ret 0).
Proof.
  unfold MarkRead_gen.parse_labels, for_count, json_object_get_count_c. f_equal.
  rewrite Z.sub_0_r, Nat2Z.id.
  apply (for_count_members _ (label_step t) ls) with (pre := []); [|reflexivity].
  intros i kv H. unfold label_step, json_object_get_name_c, json_object_get_value_at_c, nth_member.
  assert (E : (Z.of_nat i <? 0) = false) by lia. rewrite E, Nat2Z.id, H. reflexivity.
Qed.

Lemma parse_label_short kv v lab : parse_label kv = Some (v, lab) -> short (v, lab).
Proof.
  unfold parse_label, short. destruct (MarkJsonDefs.parse_number (fst kv)); [|discriminate].
  destruct (snd kv) as [|b|z0|s|l|o]; try discriminate.
  unfold slen, MAX_PCF_LABEL. destruct (Z.of_nat (length s) <? 512) eqn:E; [|discriminate]. intros H. injection H as <- <-. cbn [snd]. lia.
Qed.

Lemma lookup_in l v s : lookup_label l v = Some s -> In (v, s) l.
Proof.
  induction l as [|[v' s'] r IH]; cbn [lookup_label]; [discriminate|].
  destruct (v' =? v) eqn:E; [intros H; injection H as ->; left; f_equal; lia|intros H; right; exact (IH H)].
Qed.

Lemma bind_run {A B} (m : M A) (f : A -> M B) st :
  bind m f st = match m st with ROk (a, st') => f a st' | RErr e => RErr e end.
Proof. reflexivity. Qed.
Lemma bind__run {A B} (m : M A) (k : M B) st :
  bind_ m k st = match m st with ROk (_, st') => k st' | RErr e => RErr e end.
Proof. reflexivity. Qed.

Ltac rwu H := let H' := fresh in pose proof H as H';
  unfold fields in H' |- *; unfold RtMetaDefs.str, MarkDefs.str in H' |- *; rewrite H'; clear H'.

Lemma label_step_spec st h m kv : nonul (fst kv) -> linked st h -> find_mt (r_tbl st) (hkey st h) = Some m ->
  Forall short (mt_labels m) ->
  label_step (Some h) kv st =
  match parse_label kv with
  | None => RErr E_FAIL
  | Some (v, lab) =>
    match lookup_label (mt_labels m) v with
    | Some s' => if str_eqb lab s' then ROk (tt, out_state st 0 v) else RErr E_FAIL
    | None => ROk (tt, with_tbl (with_pl (out_state st 0 v) (v, lab))
                         (replace_mt (r_tbl st) (upd_labels m (mt_labels m ++ [(v, lab)]))))
    end
  end.
Proof.
  intros NN L F SH. destruct kv as [k jv]. unfold label_step, parse_label. cbn [fst snd is_null ite].
  rewrite bind_run.
  match goal with |- context[MarkRead_gen.parse_number ?a tt st] =>
    replace (MarkRead_gen.parse_number a tt st) with
      (match MarkJsonDefs.parse_number k with Some v => ROk (0, out_state st 0 v) | None => @RErr (Z * mrstate) E_FAIL end)
      by (symmetry; exact (parse_number_from_source k st NN)) end.
  destruct (MarkJsonDefs.parse_number k) as [v|]; [|reflexivity].
  cbn [Z.eqb negb ite]. rewrite bind_run. unfold get_out at 1. cbn [out_state r_out].
  unfold json_value_get_string_c, jv_string.
  destruct jv as [|b|z|s|l|o]; cbn [is_null ite]; try reflexivity.
  set (st1 := out_state st 0 v).
  assert (L1 : linked st1 h) by (destruct h; exact L).
  assert (F1 : find_mt (r_tbl st1) (hkey st1 h) = Some m) by (destruct h; exact F).
  rewrite bind_run. fold st1. rwu (add_label_spec st1 h m v s L1 F1).
  unfold slen, MAX_PCF_LABEL.
  destruct (Z.of_nat (length s) <? 512) eqn:E.
  - assert (E' : (512 <=? Z.of_nat (length s)) = false) by lia. rewrite E'.
    destruct (lookup_label (mt_labels m) v) as [s'|] eqn:Lk; [|reflexivity].
    destruct (str_eqb s s'); reflexivity.
  - assert (E' : (512 <=? Z.of_nat (length s)) = true) by lia. rewrite E'.
    destruct (lookup_label (mt_labels m) v) as [s'|] eqn:Lk; [|reflexivity].
    assert (N : str_eqb s s' = false).
    { unfold str_eqb. destruct (list_eq_dec Z.eq_dec s s') as [->|]; [|reflexivity].
      apply lookup_in in Lk. rewrite Forall_forall in SH. apply SH in Lk. unfold short in Lk. cbn [snd] in Lk. lia. }
    rewrite N. reflexivity.
Qed.

Lemma replace_same tbl m : find_mt tbl (mt_type m) = Some m -> replace_mt tbl m = tbl.
Proof.
  induction tbl as [|d r IH]; cbn [find_mt replace_mt]; [reflexivity|].
  destruct (mt_type d =? mt_type m) eqn:E; [intros H; injection H as ->; reflexivity|].
  intros H. rewrite (IH H). reflexivity.
Qed.
Lemma upd_labels_id m : upd_labels m (mt_labels m) = m.
Proof. destruct m; reflexivity. Qed.

Lemma frame_refl st : frame st st. Proof. repeat split. Qed.

Lemma labels_loop h : forall l st m,
  Forall (fun kv : str * json => nonul (fst kv)) l -> linked st h ->
  find_mt (r_tbl st) (hkey st h) = Some m -> Forall short (mt_labels m) ->
  match all_some (map parse_label l) with
  | None => seqm (label_step (Some h)) l st = RErr E_FAIL
  | Some pl =>
    match merge_labels (mt_labels m) pl with
    | None => seqm (label_step (Some h)) l st = RErr E_FAIL
    | Some ls' => exists st', seqm (label_step (Some h)) l st = ROk (tt, st') /\
        r_tbl st' = replace_mt (r_tbl st) (upd_labels m ls') /\ frame st st' /\ Forall short ls'
    end
  end.
Proof.
  induction l as [|kv l IH]; intros st m NN L F SH.
  - cbn [map all_some merge_labels seqm]. exists st. split; [reflexivity|]. split.
    + rewrite upd_labels_id. symmetry. apply replace_same. rewrite (find_mt_type _ _ _ F). exact F.
    + split; [apply frame_refl|exact SH].
  - inversion NN as [|? ? N1 N2]; subst.
    cbn [map all_some seqm]. rewrite bind__run, (label_step_spec st h m kv N1 L F SH).
    destruct (parse_label kv) as [[v lab]|] eqn:PL; [|reflexivity].
    destruct (lookup_label (mt_labels m) v) as [s'|] eqn:Lk.
    + destruct (str_eqb lab s') eqn:Eq.
      * set (st1 := out_state st 0 v).
        assert (L1 : linked st1 h) by (destruct h; exact L).
        assert (F1 : find_mt (r_tbl st1) (hkey st1 h) = Some m) by (destruct h; exact F).
        specialize (IH st1 m N2 L1 F1 SH).
        destruct (all_some (map parse_label l)) as [pl|]; [|exact IH].
        cbn [merge_labels]. rewrite Lk, Eq.
        destruct (merge_labels (mt_labels m) pl) as [ls'|]; [|exact IH].
        destruct IH as (st' & A & B & (C1 & C2 & C3) & D). exists st'. split; [exact A|]. split; [exact B|].
        split; [|exact D]. split; [exact C1|]. split; [exact C2|exact C3].
      * destruct (all_some (map parse_label l)) as [pl|]; [|reflexivity].
        cbn [merge_labels]. rewrite Lk, Eq. reflexivity.
    + set (m1 := upd_labels m (mt_labels m ++ [(v, lab)])).
      set (st1 := with_tbl (with_pl (out_state st 0 v) (v, lab)) (replace_mt (r_tbl st) m1)).
      assert (L1 : linked st1 h) by (destruct h; exact L).
      assert (K1 : hkey st1 h = hkey st h) by (destruct h; reflexivity).
      assert (T1 : mt_type m1 = hkey st h) by exact (find_mt_type _ _ _ F).
      assert (F1 : find_mt (r_tbl st1) (hkey st1 h) = Some m1).
      { rewrite K1, <- T1. change (r_tbl st1) with (replace_mt (r_tbl st) m1).
        apply find_replace_same with (m0 := m). rewrite T1. exact F. }
      assert (SH1 : Forall short (mt_labels m1)).
      { change (mt_labels m1) with (mt_labels m ++ [(v, lab)]). apply Forall_app. split; [exact SH|].
        constructor; [exact (parse_label_short kv v lab PL)|constructor]. }
      specialize (IH st1 m1 N2 L1 F1 SH1).
      destruct (all_some (map parse_label l)) as [pl|]; [|exact IH].
      cbn [merge_labels]. rewrite Lk.
      match goal with |- match ?x with _ => _ end => change x with (merge_labels (mt_labels m1) pl) end.
      destruct (merge_labels (mt_labels m1) pl) as [ls'|]; [|exact IH].
      destruct IH as (st' & A & B & (C1 & C2 & C3) & D). exists st'. split; [exact A|]. split.
      * rewrite B. change (r_tbl st1) with (replace_mt (r_tbl st) m1).
        change (upd_labels m1 ls') with (upd_labels m ls'). apply replace_replace. reflexivity.
      * split; [|exact D]. split; [exact C1|]. split; [exact C2|exact C3].
Qed.

(* generated parse_labels = MarkJsonDefs.parse_labels then MarkDefs.merge_labels on the labels the type already has *)
Theorem parse_labels_from_source h ls st m :
  Forall (fun kv : str * json => nonul (fst kv)) ls -> linked st h ->
  find_mt (r_tbl st) (hkey st h) = Some m -> Forall short (mt_labels m) ->
  match MarkJsonDefs.parse_labels ls with
  | None => MarkRead_gen.parse_labels (Some h) (Some ls) st = RErr E_FAIL
  | Some pl =>
    match merge_labels (mt_labels m) pl with
    | None => MarkRead_gen.parse_labels (Some h) (Some ls) st = RErr E_FAIL
    | Some ls' => exists st', MarkRead_gen.parse_labels (Some h) (Some ls) st = ROk (0, st') /\
        r_tbl st' = replace_mt (r_tbl st) (upd_labels m ls') /\ frame st st' /\ Forall short ls'
    end
  end.
Proof.
  intros NN L F SH. rewrite parse_labels_shape, bind__run. unfold MarkJsonDefs.parse_labels.
  pose proof (labels_loop h ls st m NN L F SH) as H.
  destruct (all_some (map parse_label ls)) as [pl|]; [|rewrite H; reflexivity].
  destruct (merge_labels (mt_labels m) pl) as [ls'|]; [|rewrite H; reflexivity].
  destruct H as (st' & A & B & C & D). exists st'. rewrite A. split; [reflexivity|]. split; [exact B|]. split; [exact C|exact D].
Qed.

(* ------------------------------------------------------------------ parse_mark *)
Definition mt_ok (m : mtype) : Prop := Z.of_nat (length (mt_title m)) < 512 /\ Forall short (mt_labels m).
Definition tbl_ok (tbl : list mtype) : Prop := Forall mt_ok tbl.

Definition labels_block (t : ptr_mtype) (mark : ptr_jobj) : M unit :=
  ite (negb (Z.eqb (json_object_has_value_c mark (str_lit [108; 97; 98; 101; 108; 115])) 0))
    (let labels := json_object_get_object_c mark (str_lit [108; 97; 98; 101; 108; 115]) in
     ite (is_null labels) (fail E_FAIL)
       (bind (MarkRead_gen.parse_labels t labels) (fun r_5 => ite (negb (Z.eqb r_5 0)) (fail E_FAIL) (ret tt))))
    (ret tt).
Definition type_block (ty ctype : Z) (title : ptr_str) (t : ptr_mtype) : M ptr_mtype :=
  ite (is_null t)
    (bind (MarkRead_gen.create_mark_type tt ty ctype title) (fun t => ite (is_null t) (fail E_FAIL) (ret t)))
    (bind (rd_mark_type_title t) (fun title_3 =>
       ite (negb (Z.eqb (strcmp_c title_3 title) 0)) (fail E_FAIL)
         (bind (rd_mark_type_ctype t) (fun ctype_4 => ite (negb (Z.eqb ctype_4 ctype)) (fail E_FAIL) (ret t))))).
Definition ctype_block (chan_type : ptr_str) : M Z :=
  ite (Z.eqb (strcmp_c chan_type (str_lit [115; 105; 110; 103; 108; 101])) 0) (ret (cast_uint32 c_CHAN_SINGLE))
    (ite (Z.eqb (strcmp_c chan_type (str_lit [115; 116; 97; 99; 107])) 0) (ret (cast_uint32 c_CHAN_STACK)) (fail E_FAIL)).
Definition mark_body (type_ : Z) (markval : ptr_jval) : M Z :=
  ite (orb (Z.ltb type_ 0) (Z.geb type_ 100)) (fail E_FAIL)
    (let mark := json_value_get_object_c markval in
     ite (is_null mark) (fail E_FAIL)
       (let title := json_object_get_string_c mark (str_lit [116; 105; 116; 108; 101]) in
        ite (is_null title) (fail E_FAIL)
          (let chan_type := json_object_get_string_c mark (str_lit [99; 104; 97; 110; 95; 116; 121; 112; 101]) in
           ite (is_null chan_type) (fail E_FAIL)
             (bind (ctype_block chan_type) (fun ctype =>
                bind (MarkRead_gen.find_mark_type tt type_) (fun t =>
                  bind (type_block type_ ctype title t) (fun t =>
                    bind_ (labels_block t mark) (ret 0)))))))).

Lemma parse_mark_shape s mv : MarkRead_gen.parse_mark tt s mv = num_prefix s (fun ty => mark_body ty mv).
Proof. reflexivity. Qed.

Lemma ctype_block_spec ct st :
  ctype_block (Some ct) st = match chan_type_of ct with Some b => ROk (code_of_stack b, st) | None => RErr E_FAIL end.
Proof.
  unfold ctype_block, str_lit, strcmp_c. rewrite !str_cmp_eq. unfold chan_type_of, str_eqb, str_dec, s_single, s_stack.
  destruct (list_eq_dec Z.eq_dec ct [115; 105; 110; 103; 108; 101]); [reflexivity|].
  destruct (list_eq_dec Z.eq_dec ct [115; 116; 97; 99; 107]); reflexivity.
Qed.

Lemma find_mark_type_run ty st :
  MarkRead_gen.find_mark_type tt ty st = ROk (match find_mt (r_tbl st) ty with Some _ => Some (TTab ty) | None => None end, st).
Proof. reflexivity. Qed.

Lemma create_spec st ty ctype ti : find_mt (r_tbl st) ty = None ->
  if 512 <=? Z.of_nat (length ti)
  then exists st', MarkRead_gen.create_mark_type tt ty ctype (Some ti) st = ROk (None, st')
  else exists st', MarkRead_gen.create_mark_type tt ty ctype (Some ti) st = ROk (Some TPend, st') /\
       r_tbl st' = r_tbl st ++ [{| mt_type := ty; mt_title := ti; mt_stack := (ctype =? CODE_STACK); mt_labels := [] |}] /\
       r_lk st' = true /\ mt_type (r_pt st') = ty.
Proof.
  intros F. unfold MarkRead_gen.create_mark_type. rewrite bind_run, find_mark_type_run, F.
  cbv beta iota zeta delta [ret is_null negb ite bind bind_ calloc_mark_type set_mark_type_type set_mark_type_ctype
    set_mark_type_prvtype rd_ovni_mark_emu_ntypes set_mark_type_index snprintf_mark_type_title wr_pend_type hash_add_type
    set_ovni_mark_emu_ntypes with_pt mt0].
  cbn [r_tbl r_pt r_pl r_errno r_out r_n r_lk mt_type mt_title mt_stack mt_labels].
  rewrite Z.geb_leb. destruct (512 <=? Z.of_nat (length ti)) eqn:E.
  - eexists. reflexivity.
  - assert (Fn : firstn (Z.to_nat (512 - 1)) ti = ti) by (apply firstn_all2; lia).
    eexists. split; [reflexivity|]. cbn [r_tbl r_lk r_pt mt_type]. rewrite Fn. repeat split.
Qed.

Definition labels_of (mk : fields) : option (list (Z * str)) :=
  match fget mk k_labels with None => Some [] | Some (jobj ls) => MarkJsonDefs.parse_labels ls | Some _ => None end.
Definition labels_keys_ok (mk : fields) : Prop :=
  match fget mk k_labels with Some (jobj ls) => Forall (fun kv : str * json => nonul (fst kv)) ls | _ => True end.

Lemma labels_block_spec h mk st m : labels_keys_ok mk -> linked st h ->
  find_mt (r_tbl st) (hkey st h) = Some m -> Forall short (mt_labels m) ->
  match labels_of mk with
  | None => labels_block (Some h) (Some mk) st = RErr E_FAIL
  | Some pl =>
    match merge_labels (mt_labels m) pl with
    | None => labels_block (Some h) (Some mk) st = RErr E_FAIL
    | Some ls' => exists st', labels_block (Some h) (Some mk) st = ROk (tt, st') /\
        r_tbl st' = replace_mt (r_tbl st) (upd_labels m ls') /\ Forall short ls'
    end
  end.
Proof.
  intros KO L F SH. unfold labels_block, labels_of, labels_keys_ok in *.
  unfold json_object_has_value_c, json_object_get_object_c, obj_get, str_lit. unfold k_labels in *.
  destruct (fget mk [108; 97; 98; 101; 108; 115]) as [[|b|z|s|l|ls]|] eqn:FL; cbn [Z.eqb negb ite jv_object is_null]; try reflexivity.
  - pose proof (parse_labels_from_source h ls st m KO L F SH) as H. rewrite bind_run.
    destruct (MarkJsonDefs.parse_labels ls) as [pl|]; [|rewrite H; reflexivity].
    destruct (merge_labels (mt_labels m) pl) as [ls'|]; [|rewrite H; reflexivity].
    destruct H as (st' & A & B & C & D). exists st'. rewrite A. split; [reflexivity|]. split; [exact B|exact D].
  - cbn [merge_labels]. exists st. split; [reflexivity|]. split; [|exact SH].
    rewrite upd_labels_id. symmetry. apply replace_same. rewrite (find_mt_type _ _ _ F). exact F.
Qed.

Definition entry_of (t : Z) (jv : json) : option mdef :=
  if (t <? 0) || (100 <=? t) then None else
  match jv with
  | jobj m =>
    match fget m k_title, fget m k_chan_type with
    | Some (jstr ti), Some (jstr ct) =>
      match chan_type_of ct with
      | None => None
      | Some stack =>
        if negb (slen ti <? MAX_PCF_LABEL) then None else
        match labels_of m with
        | Some l => Some {| md_type := t; md_title := ti; md_stack := stack; md_labels := l |}
        | None => None
        end
      end
    | _, _ => None
    end
  | _ => None
  end.

Lemma parse_mark_entry_eq kv :
  parse_mark_entry kv = match MarkJsonDefs.parse_number (fst kv) with None => None | Some t => entry_of t (snd kv) end.
Proof.
  unfold parse_mark_entry, entry_of, labels_of. destruct (MarkJsonDefs.parse_number (fst kv)) as [t|]; [|reflexivity].
  destruct ((t <? 0) || (100 <=? t)); [reflexivity|]. destruct (snd kv) as [|?|?|?|?|m]; try reflexivity.
  destruct (fget m k_title) as [[|?|?|ti|?|?]|]; try reflexivity.
  destruct (fget m k_chan_type) as [[|?|?|ct|?|?]|]; try reflexivity.
  destruct (chan_type_of ct); [|reflexivity]. destruct (negb (slen ti <? MAX_PCF_LABEL)); [reflexivity|].
  destruct (fget m k_labels) as [[|?|?|?|?|o]|]; try reflexivity.
Qed.

Definition entry_keys_ok (jv : json) : Prop := match jv with jobj mk => labels_keys_ok mk | _ => True end.

Lemma replace_app_last tbl x y : find_mt tbl (mt_type x) = None -> mt_type y = mt_type x -> replace_mt (tbl ++ [x]) y = tbl ++ [y].
Proof.
  intros F E. induction tbl as [|a r IH]; cbn [app replace_mt find_mt] in *.
  - rewrite E, Z.eqb_refl. reflexivity.
  - rewrite E. destruct (mt_type a =? mt_type x); [discriminate F|]. rewrite (IH F). reflexivity.
Qed.
Lemma Forall_replace (P : mtype -> Prop) tbl m : Forall P tbl -> P m -> Forall P (replace_mt tbl m).
Proof.
  intros H Pm. induction H as [|a r Pa Hr IH]; cbn [replace_mt]; [constructor|].
  destruct (mt_type a =? mt_type m); constructor; assumption.
Qed.
Lemma str_eqb_true a b : str_eqb a b = true -> a = b.
Proof. unfold str_eqb. destruct (list_eq_dec Z.eq_dec a b); [auto|discriminate]. Qed.
Lemma code_eqb a b : (code_of_stack a =? code_of_stack b) = Bool.eqb a b.
Proof. destruct a, b; reflexivity. Qed.
Lemma code_stack b : (code_of_stack b =? CODE_STACK) = b.
Proof. destruct b; reflexivity. Qed.

Lemma ret_run {A} (a : A) st : ret a st = ROk (a, st).
Proof. reflexivity. Qed.

Lemma mark_body_spec st t jv : tbl_ok (r_tbl st) -> entry_keys_ok jv ->
  match entry_of t jv with
  | None => mark_body t (Some jv) st = RErr E_FAIL
  | Some d =>
    match merge_def (r_tbl st) d with
    | None => mark_body t (Some jv) st = RErr E_FAIL
    | Some tbl' => exists st', mark_body t (Some jv) st = ROk (0, st') /\ r_tbl st' = tbl' /\ tbl_ok tbl'
    end
  end.
Proof.
  intros OK KO. unfold mark_body, entry_of. rewrite Z.geb_leb.
  destruct ((t <? 0) || (100 <=? t)) eqn:R; [reflexivity|]. cbn [ite].
  destruct jv as [|?|?|?|?|mk]; try reflexivity. cbv zeta. cbn [json_value_get_object_c jv_object is_null ite].
  unfold json_object_get_string_c, obj_get, str_lit, k_title, k_chan_type. cbn [entry_keys_ok] in KO.
  destruct (fget mk [116; 105; 116; 108; 101]) as [[|?|?|ti|?|?]|]; cbn [jv_string is_null ite]; try reflexivity.
  destruct (fget mk [99; 104; 97; 110; 95; 116; 121; 112; 101]) as [[|?|?|ct|?|?]|]; cbn [jv_string is_null ite]; try reflexivity.
  rewrite bind_run, ctype_block_spec. destruct (chan_type_of ct) as [stk|]; [|reflexivity].
  rewrite bind_run, find_mark_type_run, bind_run. unfold slen, MAX_PCF_LABEL.
  destruct (find_mt (r_tbl st) t) as [m0|] eqn:FM.
  - (* the type exists: same title, same channel type, the labels are merged *)
    assert (OK0 : mt_ok m0) by (unfold tbl_ok in OK; rewrite Forall_forall in OK; apply OK; exact (find_mt_in _ _ _ FM)).
    unfold type_block. cbn [is_null ite]. rewrite bind_run. unfold rd_mark_type_title, rd_type. cbn [type_of]. rewrite FM.
    unfold strcmp_c. rewrite str_cmp_eq.
    destruct (str_eqb (mt_title m0) ti) eqn:ET; cbn [negb ite].
    + pose proof (str_eqb_true _ _ ET) as Eti. rewrite bind_run. unfold rd_mark_type_ctype, rd_type. cbn [type_of]. rewrite FM.
      rewrite code_eqb.
      assert (Sh : (Z.of_nat (length ti) <? 512) = true) by (destruct OK0 as [T _]; rewrite <- Eti; lia). rewrite Sh. cbn [negb].
      assert (L : linked st (TTab t)) by exact I.
      pose proof (labels_block_spec (TTab t) mk st m0 KO L FM (proj2 OK0)) as LB.
      destruct (labels_of mk) as [pl|].
      * unfold merge_def. cbn [md_type md_title md_stack md_labels]. rewrite R, FM, ET. cbn [negb].
        destruct (Bool.eqb (mt_stack m0) stk); cbn [negb ite]; [|reflexivity].
        rewrite ret_run. 
        destruct (merge_labels (mt_labels m0) pl) as [ls'|].
        -- destruct LB as (st' & A & B & D). exists st'. rewrite bind__run; rwu A. split; [reflexivity|]. split; [exact B|].
           apply Forall_replace; [exact OK|]. split; [exact (proj1 OK0)|exact D].
        -- rewrite bind__run; rwu LB. reflexivity.
      * destruct (Bool.eqb (mt_stack m0) stk); cbn [negb ite]; [|reflexivity].
        rewrite ret_run. rewrite bind__run; rwu LB. reflexivity.
    + destruct (negb (Z.of_nat (length ti) <? 512)); [reflexivity|]. destruct (labels_of mk) as [pl|]; [|reflexivity].
      unfold merge_def. cbn [md_type md_title md_stack md_labels]. rewrite R, FM, ET. reflexivity.
  - (* a new type *)
    unfold type_block. cbn [is_null ite]. rewrite bind_run.
    pose proof (create_spec st t (code_of_stack stk) ti FM) as CS.
    destruct (512 <=? Z.of_nat (length ti)) eqn:E.
    + destruct CS as (st' & A). rwu A. cbn [is_null ite].
      assert (Sh : (Z.of_nat (length ti) <? 512) = false) by lia. rewrite Sh. reflexivity.
    + destruct CS as (st' & A & B & C & D). rwu A. cbn [is_null ite]. rewrite ret_run.
      assert (Sh : (Z.of_nat (length ti) <? 512) = true) by lia. rewrite Sh. cbn [negb].
      rewrite code_stack in B.
      set (m1 := {| mt_type := t; mt_title := ti; mt_stack := stk; mt_labels := [] |}) in *.
      assert (L : linked st' TPend) by exact C.
      assert (F1 : find_mt (r_tbl st') (hkey st' TPend) = Some m1).
      { cbn [hkey]. rewrite D, B, find_mt_app, FM. cbn [m1 mt_type]. rewrite Z.eqb_refl. reflexivity. }
      pose proof (labels_block_spec TPend mk st' m1 KO L F1 (Forall_nil _)) as LB.
      destruct (labels_of mk) as [pl|]; [|rewrite bind__run; rwu LB; reflexivity].
      unfold merge_def. cbn [md_type md_title md_stack md_labels]. rewrite R, FM.
      change (mt_labels m1) with (@nil (Z * MarkDefs.str)) in LB.
      destruct (merge_labels [] pl) as [ls'|]; [|rewrite bind__run; rwu LB; reflexivity].
      destruct LB as (st'' & A2 & B2 & D2). exists st''. rewrite bind__run; rwu A2. split; [reflexivity|]. split.
      * rewrite B2, B. apply replace_app_last; [exact FM|reflexivity].
      * apply Forall_app. split; [exact OK|]. constructor; [|constructor]. split; [cbn [mt_title]; lia|exact D2].
Qed.

Definition entry_ok (kv : str * json) : Prop := nonul (fst kv) /\ entry_keys_ok (snd kv).

(* generated parse_mark = MarkJsonDefs.parse_mark_entry then MarkDefs.merge_def on the table *)
Theorem parse_mark_from_source st kv : entry_ok kv -> tbl_ok (r_tbl st) ->
  match parse_mark_entry kv with
  | None => MarkRead_gen.parse_mark tt (Some (fst kv)) (Some (snd kv)) st = RErr E_FAIL
  | Some d =>
    match merge_def (r_tbl st) d with
    | None => MarkRead_gen.parse_mark tt (Some (fst kv)) (Some (snd kv)) st = RErr E_FAIL
    | Some tbl' => exists st', MarkRead_gen.parse_mark tt (Some (fst kv)) (Some (snd kv)) st = ROk (0, st') /\
        r_tbl st' = tbl' /\ tbl_ok tbl'
    end
  end.
Proof.
  intros [NN KO] OK. rewrite parse_mark_shape, (num_prefix_spec _ (fst kv) st NN), parse_mark_entry_eq.
  destruct (MarkJsonDefs.parse_number (fst kv)) as [t|]; [|reflexivity].
  exact (mark_body_spec (errno_state st 0) t (snd kv) OK KO).
Qed.

(* ------------------------------------------------------------------ scan_thread *)
Definition mark_step (kv : str * json) : M unit :=
  let typestr := Some (fst kv) in
  ite (is_null typestr) (fail E_FAIL)
    (let markval := Some (snd kv) in
     ite (is_null markval) (fail E_FAIL)
       (bind (MarkRead_gen.parse_mark tt typestr markval) (fun r_1 => ite (negb (Z.eqb r_1 0)) (fail E_FAIL) (ret tt)))).

Lemma scan_thread_shape fs :
  MarkRead_gen.scan_thread tt (Some fs) =
  match pget fs [k_ovni; k_mark] with Some (jobj ms) => bind_ (seqm mark_step ms) (ret 0) | _ => ret 0 end.
Proof.
  unfold MarkRead_gen.scan_thread, get_thread_meta, json_object_dotget_object_c, str_lit, dotget.
  change (split_dots [111; 118; 110; 105; 46; 109; 97; 114; 107]) with [k_ovni; k_mark].
  destruct (pget fs [k_ovni; k_mark]) as [[|?|?|?|?|ms]|]; try reflexivity.
  cbn [jv_object is_null ite]. cbv zeta. unfold for_count, json_object_get_count_c. f_equal.
  rewrite Z.sub_0_r, Nat2Z.id.
  apply (for_count_members _ mark_step ms) with (pre := []); [|reflexivity].
  intros i kv H. unfold mark_step, json_object_get_name_c, json_object_get_value_at_c, nth_member.
  assert (E : (Z.of_nat i <? 0) = false) by lia. rewrite E, Nat2Z.id, H. reflexivity.
Qed.

Lemma mark_step_run kv st :
  mark_step kv st = match MarkRead_gen.parse_mark tt (Some (fst kv)) (Some (snd kv)) st with
                    | ROk (r, st') => ite (negb (r =? 0)) (fail E_FAIL) (ret tt) st'
                    | RErr e => RErr e
                    end.
Proof. reflexivity. Qed.

Ltac unf_all := unfold fields in *; unfold RtMetaDefs.str, MarkDefs.str in *.

Lemma marks_loop : forall ms st, Forall entry_ok ms -> tbl_ok (r_tbl st) ->
  match all_some (map parse_mark_entry ms) with
  | None => seqm mark_step ms st = RErr E_FAIL
  | Some ds =>
    match merge_defs (r_tbl st) ds with
    | None => seqm mark_step ms st = RErr E_FAIL
    | Some tbl' => exists st', seqm mark_step ms st = ROk (tt, st') /\ r_tbl st' = tbl' /\ tbl_ok tbl'
    end
  end.
Proof.
  induction ms as [|kv ms IH]; intros st EO OK.
  - cbn [map all_some merge_defs seqm]. exists st. split; [reflexivity|]. split; [reflexivity|exact OK].
  - inversion EO as [|? ? E1 E2]; subst. cbn [map all_some seqm]. rewrite bind__run.
    rewrite mark_step_run.
    pose proof (parse_mark_from_source st kv E1 OK) as H.
    destruct (parse_mark_entry kv) as [d|]; [|rwu H; reflexivity].
    destruct (merge_def (r_tbl st) d) as [tbl1|] eqn:MD.
    + destruct H as (st1 & A & B & C). rwu A. cbn [Z.eqb negb ite]. rewrite ret_run. subst tbl1.
      specialize (IH st1 E2 C). unf_all.
      match type of IH with match ?x with _ => _ end => destruct x as [ds|] end; [|exact IH].
      cbn [merge_defs]. rewrite MD. exact IH.
    + cbv beta iota in H. rwu H.
      match goal with |- match match ?x with _ => _ end with _ => _ end => destruct x as [ds|] end; [|reflexivity].
      cbn [merge_defs]. rewrite MD. reflexivity.
Qed.

Definition tree_ok (j : json) : Prop :=
  match j with
  | jobj fs => match pget fs [k_ovni; k_mark] with Some (jobj ms) => Forall entry_ok ms | _ => True end
  | _ => True
  end.

(* generated scan_thread = MarkJsonDefs.parse_mark_json then MarkDefs.merge_defs on the table *)
Theorem scan_thread_from_source fs st : tree_ok (jobj fs) -> tbl_ok (r_tbl st) ->
  match parse_mark_json (jobj fs) with
  | None => MarkRead_gen.scan_thread tt (Some fs) st = RErr E_FAIL
  | Some ds =>
    match merge_defs (r_tbl st) ds with
    | None => MarkRead_gen.scan_thread tt (Some fs) st = RErr E_FAIL
    | Some tbl' => exists st', MarkRead_gen.scan_thread tt (Some fs) st = ROk (0, st') /\ r_tbl st' = tbl' /\ tbl_ok tbl'
    end
  end.
Proof.
  intros TO OK. rewrite scan_thread_shape. cbn [parse_mark_json tree_ok] in *.
  destruct (pget fs [k_ovni; k_mark]) as [[|?|?|?|?|ms]|];
    try (cbn [merge_defs]; exists st; split; [reflexivity|]; split; [reflexivity|exact OK]).
  pose proof (marks_loop ms st TO OK) as H. rewrite bind__run.
  destruct (all_some (map parse_mark_entry ms)) as [ds|]; [|rewrite H; reflexivity].
  destruct (merge_defs (r_tbl st) ds) as [tbl'|]; [|rewrite H; reflexivity].
  destruct H as (st' & A & B & C). exists st'. rewrite A. split; [reflexivity|]. split; [exact B|exact C].
Qed.

(* ------------------------------------------------------------------ mark_create: the loop over the threads *)
(* for (t = sys->threads; t; t = t->gnext) if (scan_thread(memu, t) != 0) return -1;  a stream.json that is not an
   object never reaches mark_create (the loader refuses it), modelled as a refusal here *)
Fixpoint run_threads (ts : list json) (st : mrstate) : option (list mtype) :=
  match ts with
  | [] => Some (r_tbl st)
  | j :: r =>
    match j with
    | jobj fs => match MarkRead_gen.scan_thread tt (Some fs) st with
                 | ROk (rc, st') => if rc =? 0 then run_threads r st' else None
                 | RErr _ => None
                 end
    | _ => None
    end
  end.

Lemma merge_defs_app : forall a acc b,
  merge_defs acc (a ++ b) = match merge_defs acc a with Some acc' => merge_defs acc' b | None => None end.
Proof.
  induction a as [|d a IH]; intros acc b; cbn [app merge_defs]; [reflexivity|].
  destruct (merge_def acc d); [apply IH|reflexivity].
Qed.

Lemma threads_loop : forall ts st, Forall tree_ok ts -> tbl_ok (r_tbl st) ->
  run_threads ts st =
  match all_some (map parse_mark_json ts) with Some l => merge_defs (r_tbl st) (concat l) | None => None end.
Proof.
  induction ts as [|j ts IH]; intros st TO OK.
  - reflexivity.
  - inversion TO as [|? ? T1 T2]; subst. cbn [map all_some run_threads].
    destruct j as [|?|?|?|?|fs]; try reflexivity.
    pose proof (scan_thread_from_source fs st T1 OK) as H.
    destruct (parse_mark_json (jobj fs)) as [ds|]; [|rewrite H; reflexivity].
    destruct (merge_defs (r_tbl st) ds) as [tbl1|] eqn:MD.
    + destruct H as (st1 & A & B & C). rewrite A. cbn [Z.eqb]. subst tbl1. rewrite (IH st1 T2 C).
      destruct (all_some (map parse_mark_json ts)) as [l|]; [|reflexivity].
      cbn [concat]. rewrite merge_defs_app, MD. reflexivity.
    + rewrite H. destruct (all_some (map parse_mark_json ts)) as [l|]; [|reflexivity].
      cbn [concat]. rewrite merge_defs_app, MD. reflexivity.
Qed.

Theorem mark_readers_from_source : forall ts, Forall tree_ok ts ->
  run_threads ts r0 = emu_types_of_trees ts.
Proof.
  intros ts TO. rewrite (threads_loop ts r0 TO (Forall_nil _)). reflexivity.
Qed.

(* ------------------------------------------------------------------ what the hand model accepts has NUL-free keys *)
Lemma skip_space_nonul s : nonul (VersionDefs.skip_space s) -> nonul s.
Proof.
  induction s as [|c r IH]; cbn [VersionDefs.skip_space]; [auto|].
  destruct (VersionDefs.is_space c) eqn:E; [|auto].
  intros H x [->|Hx]; [unfold VersionDefs.is_space in E; lia|exact (IH H x Hx)].
Qed.
Lemma strip_sign_nonul s : nonul (snd (VersionDefs.strip_sign s)) -> nonul s.
Proof.
  destruct s as [|c r]; [auto|]. cbn [VersionDefs.strip_sign].
  destruct (c =? 45) eqn:E1; [cbn [snd]; intros H x [->|Hx]; [lia|exact (H x Hx)]|].
  destruct (c =? 43) eqn:E2; [cbn [snd]; intros H x [->|Hx]; [lia|exact (H x Hx)]|auto].
Qed.
Lemma digits_nonul s : forallb MarkJsonDefs.is_digit s = true -> nonul s.
Proof. intros F x Hx. rewrite forallb_forall in F. specialize (F x Hx). unfold MarkJsonDefs.is_digit in F. lia. Qed.

Lemma parse_number_nonul s v : MarkJsonDefs.parse_number s = Some v -> nonul s.
Proof.
  rewrite parse_number_alt. intros H. apply skip_space_nonul, strip_sign_nonul.
  destruct (VersionDefs.strip_sign (VersionDefs.skip_space s)) as [neg s2]. cbn [snd].
  destruct s2 as [|c2 r2]; [discriminate H|].
  destruct (forallb MarkJsonDefs.is_digit (c2 :: r2)) eqn:F; [|discriminate H]. exact (digits_nonul _ F).
Qed.

Lemma all_some_Forall {A B} (f : A -> option B) : forall l r, all_some (map f l) = Some r -> Forall (fun x => exists y, f x = Some y) l.
Proof.
  induction l as [|a l IH]; intros r H; [constructor|]. cbn [map all_some] in H.
  destruct (f a) as [y|] eqn:E; [|discriminate H]. destruct (all_some (map f l)) as [r'|]; [|discriminate H].
  constructor; [exists y; exact E|exact (IH r' eq_refl)].
Qed.

Lemma parse_labels_keys ls pl : MarkJsonDefs.parse_labels ls = Some pl -> Forall (fun kv : str * json => nonul (fst kv)) ls.
Proof.
  intros H. apply all_some_Forall in H. eapply Forall_impl; [|exact H]. intros kv [y Hy]. unfold parse_label in Hy.
  destruct (MarkJsonDefs.parse_number (fst kv)) as [v|] eqn:PN; [|discriminate Hy]. exact (parse_number_nonul _ _ PN).
Qed.

Lemma entry_parse_ok kv d : parse_mark_entry kv = Some d -> entry_ok kv.
Proof.
  rewrite parse_mark_entry_eq. destruct (MarkJsonDefs.parse_number (fst kv)) as [t|] eqn:PN; [|discriminate].
  intros H. split; [exact (parse_number_nonul _ _ PN)|]. unfold entry_of in H.
  destruct ((t <? 0) || (100 <=? t)); [discriminate H|]. destruct (snd kv) as [|?|?|?|?|m]; try exact I.
  cbn [entry_keys_ok]. destruct (fget m k_title) as [[|?|?|ti|?|?]|]; try discriminate H.
  destruct (fget m k_chan_type) as [[|?|?|ct|?|?]|]; try discriminate H.
  destruct (chan_type_of ct); [|discriminate H]. destruct (negb (slen ti <? MAX_PCF_LABEL)); [discriminate H|].
  unfold labels_of in H. unfold labels_keys_ok. destruct (fget m k_labels) as [[|?|?|?|?|ls]|]; try exact I.
  destruct (MarkJsonDefs.parse_labels ls) as [pl|] eqn:PL; [|discriminate H]. exact (parse_labels_keys ls pl PL).
Qed.

Lemma tree_parse_ok j ds : parse_mark_json j = Some ds -> tree_ok j.
Proof.
  destruct j as [|?|?|?|?|fs]; try (intros; exact I). cbn [parse_mark_json tree_ok].
  destruct (pget fs [k_ovni; k_mark]) as [[|?|?|?|?|ms]|]; try (intros; exact I).
  intros H. apply all_some_Forall in H. eapply Forall_impl; [|exact H]. intros kv [d Hd]. exact (entry_parse_ok kv d Hd).
Qed.

(* no hypothesis on the trees when the hand model reads every thread *)
Theorem mark_readers_accepted : forall ts l, all_some (map parse_mark_json ts) = Some l ->
  run_threads ts r0 = emu_types_of_trees ts.
Proof.
  intros ts l H. apply mark_readers_from_source. apply all_some_Forall in H.
  eapply Forall_impl; [|exact H]. intros j [ds Hd]. exact (tree_parse_ok j ds Hd).
Qed.

(* the composition runtime -> stream.json -> emulator, with the GENERATED readers on the emulator side *)
Theorem compose_through_generated_readers : forall (ths : list (fields * list mcall)) (finals : list rtm),
  Forall thread_ok ths ->
  Forall2 (fun p s => rt_calls rtm_init (snd p) = Ret s) ths finals ->
  exists trees, Forall2 (fun p fs => tree_calls (fst p) (snd p) = Some fs) ths trees /\
    run_threads (map jobj trees) r0 = merge_threads (map rt_defs finals).
Proof.
  intros ths finals O R.
  assert (G : exists trees, Forall2 (fun p fs => tree_calls (fst p) (snd p) = Some fs) ths trees /\
            all_some (map parse_mark_json (map jobj trees)) = Some (map rt_defs finals)).
  { induction R as [|p s ths finals Rp R IH].
    - exists []. split; [constructor|reflexivity].
    - inversion O as [|x y Op Or]; subst. destruct (IH Or) as (trees & F & A). destruct Op as (B & T & Cf).
      pose proof (mark_metadata_roundtrip (fst p) (snd p) B T) as M. rewrite Rp in M. destruct M as (fs & Hc & Hp).
      destruct (Hp Cf) as [P1 P2]. exists (fs :: trees). split; [constructor; assumption|]. cbn [map all_some]. rewrite P1, A. reflexivity. }
  destruct G as (trees & F & A). exists trees. split; [exact F|].
  rewrite (mark_readers_accepted _ _ A). unfold emu_types_of_trees. rewrite A. reflexivity.
Qed.

(* a member that parse_mark refuses makes the generated loop fail *)
Theorem malformed_refused_by_generated_readers : forall ts fs ms kv, Forall tree_ok ts ->
  In (jobj fs) ts -> pget fs [k_ovni; k_mark] = Some (jobj ms) -> In kv ms -> bad_member kv ->
  run_threads ts r0 = None.
Proof.
  intros ts fs ms kv TO I1 P I2 Bm. rewrite (mark_readers_from_source ts TO).
  exact (proj1 (proj2 (malformed_mark_metadata_refused ts fs ms kv I1 P I2 Bm))).
Qed.

Theorem pcf_through_generated_readers : forall ts, Forall tree_ok ts ->
  emu_pcf_of_trees ts = match run_threads ts r0 with Some ms => pcf_of_types_with no_cast ms | None => None end.
Proof. intros ts TO. rewrite (mark_readers_from_source ts TO). reflexivity. Qed.

(* ------------------------------------------------------------------ examples, by computation on the generated code *)
Lemma ex_readers_two_threads :
  run_threads [jobj (ex_tree ex_calls1); jobj (ex_tree ex_calls2)] r0 =
    Some [ {| mt_type := 3; mt_title := sP; mt_stack := true; mt_labels := [(1, sA); (2, sB); (9, sC)] |};
           {| mt_type := 7; mt_title := sQ; mt_stack := false; mt_labels := [(40, sC)] |};
           {| mt_type := 1; mt_title := sQ; mt_stack := false; mt_labels := [] |} ].
Proof. vm_compute. reflexivity. Qed.
Lemma ex_readers_conflicts :
  run_threads [jobj (ex_tree ex_calls1); jobj (ex_tree [MType 3 false (Some sP)])] r0 = None /\
  run_threads [jobj (ex_tree ex_calls1); jobj (ex_tree [MType 3 true (Some sQ)])] r0 = None /\
  run_threads [jobj (ex_tree ex_calls1); jobj (ex_tree [MType 3 true (Some sP); MLabel 3 2 (Some sC)])] r0 = None.
Proof. vm_compute. repeat split. Qed.
(* keys that strtol accepts and the runtime never writes ("07", " +7", label "-3"); "ovni.mark" that is not an object *)
Lemma ex_readers_odd_keys :
  run_threads [jobj [(k_ovni, jobj [(k_mark, jobj ex_odd_mark)])]] r0 = emu_types_of_trees [jobj [(k_ovni, jobj [(k_mark, jobj ex_odd_mark)])]] /\
  run_threads [jobj [(k_ovni, jobj [(k_mark, jobj ex_odd_mark)])]] r0 <> None /\
  run_threads [jobj [(k_ovni, jobj [(k_mark, jstr sA)])]] r0 = Some [].
Proof. vm_compute. repeat split. discriminate. Qed.
