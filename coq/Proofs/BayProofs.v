(* bay_propagate on a well-formed two-level wiring: the dirty phase computes, for every mux, the
   emission rule (output written iff its select or its selected input is dirty; value = mux function
   of the select and input values; selected / enabled callbacks follow the select function). *)
From Coq Require Import ZArith List Bool Lia PeanoNat.
From OV Require Import Emu.EmuCoreDefs Emu.BayDefs Proofs.EmitProofs Proofs.BayBasics Proofs.BayMux.
Import ListNotations.
Local Open Scope nat_scope.

(* ---------------------------------------------------------------- small facts *)

Lemma written_twice ch v v' : out_written (out_written ch v) v' = out_written ch v'.
Proof. reflexivity. Qed.

Lemma Cbs_same b b' : b_dcbs b' = b_dcbs b -> b_muxes b' = b_muxes b -> Cbs b -> Cbs b'.
Proof.
  intros Hd Hm G.
  assert (Ed : forall c, dcbs_of b' c = dcbs_of b c) by (intros c; unfold dcbs_of; rewrite Hd; reflexivity).
  assert (Ei : forall m mx, imux b' m mx <-> imux b m mx) by (intros m mx; unfold imux, mux_at; rewrite Hm; tauto).
  constructor.
  - intros c m. rewrite Ed, (g_sel _ G). split; intros (mx & A & B); exists mx; (split; [apply Ei; exact A|exact B]).
  - intros c m i. rewrite Ed, (g_in _ G). split; intros (mx & A & B); exists mx; (split; [apply Ei; exact A|exact B]).
  - intros c m. rewrite Ed. apply (g_res _ G).
  - intros c. rewrite Ed. apply (g_nodup _ G).
  - intros m mx i Hi. apply (g_one _ G m mx i). apply Ei. exact Hi.
  - intros m mx i Hi. apply (g_range _ G m mx i). apply Ei. exact Hi.
Qed.

(* the bay after chan_set on an output *)
Definition out_set (b : bay) (c : nat) (ch : chan) (dl : list nat) : bay := set_dirty_list (set_chan b c ch) dl.

Lemma out_set_chan_same b c ch dl : c < length (b_chans b) -> chan_at (out_set b c ch dl) c = Some ch.
Proof. intros H. unfold out_set. change (chan_at (set_chan b c ch) c = Some ch). apply chan_at_set_chan_same. exact H. Qed.
Lemma out_set_chan_other b c ch dl c' : c <> c' -> chan_at (out_set b c ch dl) c' = chan_at b c'.
Proof. intros H. unfold out_set. change (chan_at (set_chan b c ch) c' = chan_at b c'). apply chan_at_set_chan_other. exact H. Qed.

(* value of the mux for a selection, read from bay b *)
Definition mux_value (b : bay) (mx : mux) (oi : option nat) : value :=
  match oi with
  | Some i => match nth_error (mx_ins mx) i with
              | Some ic => match chan_at b ic with Some ch => chan_read ch | None => None end
              | None => None
              end
  | None => mx_def mx
  end.

(* the select function applied to the current value of the select channel *)
Definition sel_res (b : bay) (mx : mux) : result (option nat) :=
  match chan_at b (mx_sel mx) with
  | Some sch => run_select_in b mx (chan_read sch)
  | None => Err E_WIRING
  end.

(* ---------------------------------------------------------------- cb_input, cb_select *)

Lemma cb_input_spec b m mx i ic ich och :
  imux b m mx -> nth_error (mx_ins mx) i = Some ic -> chan_at b ic = Some ich ->
  chan_at b (mx_out mx) = Some och -> out_props och ->
  cb_input b m i = Ok (out_set b (mx_out mx) (out_written och (chan_read ich))
                         (if c_dirty och then b_dirty b else b_dirty b ++ [mx_out mx])).
Proof.
  intros [Hm _] Hi Hc Ho Hp. unfold cb_input. unfold mux_at in Hm. rewrite Hm, Hi.
  unfold read_chan. unfold chan_at in Hc. rewrite Hc. apply chan_set_out'; assumption.
Qed.

Lemma cb_select_spec b m mx oi och :
  Shape b -> Cbs b -> imux b m mx ->
  sel_res b mx = Ok oi ->
  chan_at b (mx_out mx) = Some och ->
  exists b1 mx',
    MuxUpd b b1 m mx mx' /\ Cbs b1 /\
    (forall j, en_at mx' j <-> oi = Some j) /\ mx_selected mx' = oi /\
    cb_select b m = Ok (out_set b1 (mx_out mx) (out_written och (mux_value b mx oi))
                          (if c_dirty och then b_dirty b else b_dirty b ++ [mx_out mx])).
Proof.
  intros S G Hi Hsel Ho.
  destruct (sh_out _ S m mx Hi) as (och' & Ho' & Hp). rewrite Ho in Ho'. inversion Ho'; subst och'. clear Ho'.
  unfold sel_res in Hsel. destruct (chan_at b (mx_sel mx)) as [sch|] eqn:Hsc; [|discriminate].
  destruct (clear_previous b m mx S G Hi) as (b1 & mx1 & E1 & U1 & Hno & Hs1).
  pose proof (imux_upd_m _ _ _ _ _ Hi U1) as Hi1.
  destruct (mstat_fields _ _ (mu_stat _ _ _ _ _ U1)) as (_ & _ & F3 & _ & _ & F6 & _).
  assert (G1 : Cbs b1).
  { apply (Cbs_upd b b1 m mx mx1 G Hi U1).
    - intros j He. exfalso. apply (Hno j He).
    - intros j He. congruence. }
  assert (S1 : Shape b1) by (apply (Shape_skel b b1); [apply (mu_skel _ _ _ _ _ U1)|apply (mu_len _ _ _ _ _ U1)|exact S]).
  unfold cb_select. destruct Hi as [Hm Hinit]. unfold mux_at in Hm. rewrite Hm, Hinit. cbn [negb].
  unfold read_chan at 1. unfold chan_at in Hsc. rewrite Hsc. rewrite E1, (run_select_in_chans b b1 mx _ (mu_chans _ _ _ _ _ U1)), Hsel.
  assert (Hi : imux b m mx) by (split; assumption).
  destruct oi as [i|].
  - pose proof (run_select_in_lt _ _ _ _ Hsel) as Hlt.
    assert (Hlt1 : i < length (mx_ins mx1)) by (rewrite F6; exact Hlt).
    destruct (select_new b1 m mx1 i S1 G1 Hi1 Hno Hlt1) as (b2 & mx2 & E2 & U2 & Honly & Hs2).
    rewrite E2.
    destruct (nth_error (mx_ins mx) i) as [ic|] eqn:Hic.
    2:{ apply nth_error_None in Hic. lia. }
    pose proof (MuxUpd_trans _ _ _ _ _ _ _ U1 U2) as U.
    set (b3 := set_selected b2 m (Some i)) in *.
    destruct (sh_ins _ S m mx i ic Hi Hic) as [Hicl _].
    destruct (nth_error (b_chans b) ic) as [ich|] eqn:Hich.
    2:{ apply nth_error_None in Hich. lia. }
    unfold read_chan. rewrite (mu_chans _ _ _ _ _ U), Hich.
    assert (Ho3 : chan_at b3 (mx_out mx) = Some och) by (unfold chan_at; rewrite (mu_chans _ _ _ _ _ U); exact Ho).
    rewrite (chan_set_out' b3 (mx_out mx) (chan_read ich) och Ho3 Hp).
    rewrite (mu_dirty _ _ _ _ _ U).
    exists b3, mx2. split; [exact U|]. split.
    { apply (Cbs_upd b b3 m mx mx2 G Hi U).
      - intros j He. apply Honly in He. subst. exact Hs2.
      - intros j He. rewrite Hs2 in He. inversion He; subst.
        destruct (mstat_fields _ _ (mu_stat _ _ _ _ _ U)) as (_ & _ & _ & _ & _ & F6' & _). rewrite F6'. exact Hlt. }
    split; [intros j; rewrite (Honly j); split; congruence|].
    split; [exact Hs2|].
    unfold out_set, mux_value. rewrite Hic. unfold chan_at. rewrite Hich. reflexivity.
  - assert (Ho1 : chan_at b1 (mx_out mx) = Some och) by (unfold chan_at; rewrite (mu_chans _ _ _ _ _ U1); exact Ho).
    rewrite (chan_set_out' b1 (mx_out mx) (mx_def mx) och Ho1 Hp). rewrite (mu_dirty _ _ _ _ _ U1).
    exists b1, mx1. split; [exact U1|]. split; [exact G1|].
    split; [intros j; split; [intros He; exfalso; apply (Hno j He)|discriminate]|].
    split; [exact Hs1|reflexivity].
Qed.

(* ---------------------------------------------------------------- the dirty phase *)

Section Phase.
  Variable b0 : bay.                         (* the bay when bay_propagate starts *)
  Hypothesis S0 : Shape b0.
  Hypothesis G0 : Cbs b0.
  (* the handlers only write level-0 channels: every output is clean and off the dirty list *)
  Hypothesis outs_clean : forall m mx, imux b0 m mx ->
    exists och, chan_at b0 (mx_out mx) = Some och /\ c_dirty och = false /\ ~ In (mx_out mx) (b_dirty b0).
  (* the select function is defined on the value of every dirty select channel *)
  Hypothesis sel_ok : forall m mx, imux b0 m mx -> In (mx_sel mx) (b_dirty b0) -> exists oi, sel_res b0 mx = Ok oi.

  Definition touched (Q : list dcb) (m : nat) : Prop := In (DSelect m) Q \/ exists i, In (DInput m i) Q.

  (* state after the callbacks Q have run *)
  Record Inv (Q : list dcb) (cur : bay) : Prop := {
    i_skel : skel cur = skel b0;
    i_len : length (b_dcbs cur) = length (b_dcbs b0);
    i_cbs : Cbs cur;
    i_lvl0 : forall c, ~ is_out b0 c -> chan_at cur c = chan_at b0 c;
    i_mux : forall m mx, imux b0 m mx -> exists mx', imux cur m mx' /\ mstat mx' = mstat mx /\
              (In (DSelect m) Q -> exists oi, sel_res b0 mx = Ok oi /\ (forall j, en_at mx' j <-> oi = Some j) /\ mx_selected mx' = oi) /\
              (~ In (DSelect m) Q -> mx' = mx);
    i_out : forall m mx och, imux b0 m mx -> chan_at b0 (mx_out mx) = Some och ->
              (touched Q m -> exists v, chan_at cur (mx_out mx) = Some (out_written och v) /\
                 (In (DSelect m) Q -> exists oi, sel_res b0 mx = Ok oi /\ v = mux_value b0 mx oi) /\
                 (~ In (DSelect m) Q -> forall i, In (DInput m i) Q -> v = mux_value b0 mx (Some i))) /\
              (~ touched Q m -> chan_at cur (mx_out mx) = Some och);
    i_qin : forall m i, In (DInput m i) Q -> In (DSelect m) Q \/ (exists mx, imux b0 m mx /\ en_at mx i);
    i_dirty : exists O, b_dirty cur = b_dirty b0 ++ O /\ NoDup O /\
              forall c, In c O <-> exists m mx, imux b0 m mx /\ mx_out mx = c /\ touched Q m
  }.

  Lemma Inv_init : Inv [] b0.
  Proof.
    constructor; try reflexivity; try assumption.
    - intros m mx Hi. exists mx. split; [exact Hi|]. split; [reflexivity|]. split; [intros []|reflexivity].
    - intros m mx och Hi Ho. split.
      + intros [[]|[i []]].
      + intros _. exact Ho.
    - intros m i [].
    - exists []. split; [rewrite app_nil_r; reflexivity|]. split; [constructor|].
      intros c. split; [intros []|]. intros (m & mx & _ & _ & [[]|[i []]]).
  Qed.

  Lemma Inv_shape Q cur : Inv Q cur -> Shape cur.
  Proof. intros I. apply (Shape_skel b0 cur); [apply (i_skel _ _ I)|apply (i_len _ _ I)|exact S0]. Qed.

  Lemma imux_cur Q cur m mx' : Inv Q cur -> imux cur m mx' -> exists mx, imux b0 m mx /\ mstat mx = mstat mx'.
  Proof. intros I Hi. apply (skel_imux b0 cur m mx' (i_skel _ _ I) Hi). Qed.

  Lemma imux_fun b m mx mx' : imux b m mx -> imux b m mx' -> mx = mx'.
  Proof. intros [A _] [B _]. rewrite A in B. inversion B. reflexivity. Qed.

  Lemma out_is_out m mx : imux b0 m mx -> is_out b0 (mx_out mx).
  Proof. intros Hi. exists m, mx. split; [exact Hi|reflexivity]. Qed.

  Lemma in_dec_dcb (d : dcb) (Q : list dcb) : {In d Q} + {~ In d Q}.
  Proof. apply in_dec. apply dcb_eq_dec. Qed.

  Lemma touched_dec Q m : {touched Q m} + {~ touched Q m}.
  Proof.
    destruct (in_dec_dcb (DSelect m) Q) as [H|H]; [left; left; exact H|].
    destruct (existsb (fun d => match d with DInput m' _ => Nat.eqb m' m | _ => false end) Q) eqn:E.
    - left. right. apply existsb_exists in E. destruct E as (d & Hd & Hm). destruct d as [|m' i|]; try discriminate.
      apply Nat.eqb_eq in Hm. subst m'. exists i. exact Hd.
    - right. intros [Hs|(i & Hq)]; [contradiction|].
      assert (X : existsb (fun d => match d with DInput m' _ => Nat.eqb m' m | _ => false end) Q = true).
      { apply existsb_exists. exists (DInput m i). split; [exact Hq|apply Nat.eqb_refl]. }
      rewrite X in E. discriminate.
  Qed.

  (* common part of the two callbacks: mux m's output is (re)written with v in a bay b1 that has cur's channels *)
  Lemma mux_value_cur Q cur m mx mx' oi : Inv Q cur -> imux b0 m mx -> mstat mx' = mstat mx ->
    mux_value cur mx' oi = mux_value b0 mx oi.
  Proof.
    intros I Hi E. destruct (mstat_fields _ _ E) as (_ & _ & _ & _ & E5 & E6 & _).
    unfold mux_value. destruct oi as [i|]; [|exact E5]. rewrite E6.
    destruct (nth_error (mx_ins mx) i) as [ic|] eqn:Hic; [|reflexivity].
    destruct (sh_ins _ S0 m mx i ic Hi Hic) as [_ Hno]. rewrite (i_lvl0 _ _ I ic Hno). reflexivity.
  Qed.

  Lemma sel_res_cur Q cur m mx mx' : Inv Q cur -> imux b0 m mx -> mstat mx' = mstat mx -> sel_res cur mx' = sel_res b0 mx.
  Proof.
    intros I Hi E. destruct (mstat_fields _ _ E) as (_ & E2 & _ & E4 & _ & E6 & _).
    unfold sel_res. rewrite E2. destruct (sh_sel _ S0 m mx Hi) as [_ Hno]. rewrite (i_lvl0 _ _ I _ Hno).
    destruct (chan_at b0 (mx_sel mx)) as [sch|]; [|reflexivity].
    unfold run_select_in, input_values. rewrite E4, E6.
    assert (Ev : map (fun c => match nth_error (b_chans cur) c with Some ch => chan_read ch | None => None end) (mx_ins mx) =
                 map (fun c => match nth_error (b_chans b0) c with Some ch => chan_read ch | None => None end) (mx_ins mx)).
    { apply map_ext_in. intros c Hc. apply In_nth_error in Hc. destruct Hc as (j & Hj).
      destruct (sh_ins _ S0 m mx j c Hi Hj) as [_ Hnoc]. pose proof (i_lvl0 _ _ I c Hnoc) as Ec. unfold chan_at in Ec. rewrite Ec. reflexivity. }
    rewrite Ev. reflexivity.
  Qed.

  (* the output channel of m in cur, and whether it is already dirty *)
  Lemma out_cur Q cur m mx och : Inv Q cur -> imux b0 m mx -> chan_at b0 (mx_out mx) = Some och -> c_dirty och = false ->
    exists ochc, chan_at cur (mx_out mx) = Some ochc /\ out_props ochc /\
      ((touched Q m /\ c_dirty ochc = true /\ exists v, ochc = out_written och v) \/ (~ touched Q m /\ c_dirty ochc = false /\ ochc = och)).
  Proof.
    intros I Hi Ho Hcl. destruct (sh_out _ S0 m mx Hi) as (och' & Ho' & Hp). rewrite Ho in Ho'. inversion Ho'; subst och'.
    destruct (i_out _ _ I m mx och Hi Ho) as [A B].
    destruct (touched_dec Q m) as [T|T].
    - destruct (A T) as (v & Hc & _). exists (out_written och v). split; [exact Hc|]. split; [exact Hp|].
      left. split; [exact T|]. split; [reflexivity|]. exists v. reflexivity.
    - exists och. split; [apply (B T)|]. split; [exact Hp|]. right. split; [exact T|]. split; [exact Hcl|reflexivity].
  Qed.

  (* Inv after mux m's output was written with v by callback d of mux m, in a bay b1 = cur up to mux m *)
  Lemma Inv_written Q cur d m mx och ochc b1 v :
    Inv Q cur -> imux b0 m mx -> chan_at b0 (mx_out mx) = Some och -> c_dirty och = false ->
    (d = DSelect m \/ exists i, d = DInput m i) ->
    chan_at cur (mx_out mx) = Some ochc ->
    ((touched Q m /\ c_dirty ochc = true /\ exists v0, ochc = out_written och v0) \/ (~ touched Q m /\ c_dirty ochc = false /\ ochc = och)) ->
    b_chans b1 = b_chans cur -> b_dirty b1 = b_dirty cur -> skel b1 = skel cur -> length (b_dcbs b1) = length (b_dcbs cur) -> Cbs b1 ->
    (* the muxes of b1 satisfy i_mux for d :: Q *)
    (forall m0 mx0, imux b0 m0 mx0 -> exists mx', imux b1 m0 mx' /\ mstat mx' = mstat mx0 /\
        (In (DSelect m0) (d :: Q) -> exists oi, sel_res b0 mx0 = Ok oi /\ (forall j, en_at mx' j <-> oi = Some j) /\ mx_selected mx' = oi) /\
        (~ In (DSelect m0) (d :: Q) -> mx' = mx0)) ->
    (In (DSelect m) (d :: Q) -> exists oi, sel_res b0 mx = Ok oi /\ v = mux_value b0 mx oi) ->
    (~ In (DSelect m) (d :: Q) -> forall i, In (DInput m i) (d :: Q) -> v = mux_value b0 mx (Some i)) ->
    (forall i, d = DInput m i -> In (DSelect m) Q \/ en_at mx i) ->
    Inv (d :: Q) (out_set b1 (mx_out mx) (out_written ochc v) (if c_dirty ochc then b_dirty cur else b_dirty cur ++ [mx_out mx])).
  Proof.
    intros I Hi Ho Hcl Hd Hoc Hst Ech Edl Esk Elen G1 Hmux Hv1 Hv2 Hq.
    remember (mx_out mx) as out eqn:Eout.
    assert (Houtlt : out < length (b_chans b1)).
    { rewrite Ech. apply (nth_error_Some_lt _ _ ochc). exact Hoc. }
    assert (Hdm : forall m0, m0 <> m -> (touched (d :: Q) m0 <-> touched Q m0)).
    { intros m0 Hne. unfold touched. cbn [In]. split.
      - intros [[H|H]|(i & [H|H])]; try (destruct Hd as [->|(i' & ->)]; inversion H; congruence).
        + left. exact H.
        + right. exists i. exact H.
      - intros [H|(i & H)]; [left; right; exact H|right; exists i; right; exact H]. }
    assert (Htm : touched (d :: Q) m).
    { destruct Hd as [->|(i & ->)]; [left; left; reflexivity|right; exists i; left; reflexivity]. }
    assert (Hw : out_written ochc v = out_written och v).
    { destruct Hst as [(_ & _ & v0 & ->)|(_ & _ & ->)]; reflexivity. }
    constructor.
    - unfold out_set. rewrite skel_set_dirty_list.
      rewrite (skel_set_chan b1 out _ ochc); [rewrite Esk; apply (i_skel _ _ I)| |reflexivity].
      unfold chan_at. rewrite Ech. exact Hoc.
    - unfold out_set. cbn. rewrite Elen. apply (i_len _ _ I).
    - apply (Cbs_same b1); [reflexivity|reflexivity|exact G1].
    - intros c Hno. rewrite out_set_chan_other.
      + unfold chan_at. rewrite Ech. apply (i_lvl0 _ _ I c Hno).
      + intros E. apply Hno. rewrite <- E, Eout. apply (out_is_out m mx Hi).
    - intros m0 mx0 Hi0. destruct (Hmux m0 mx0 Hi0) as (mx' & A & B). exists mx'. split; [|exact B].
      destruct A as [A1 A2]. split; [exact A1|exact A2].
    - intros m0 mx0 och0 Hi0 Ho0. destruct (Nat.eq_dec m0 m) as [->|Hne].
      + pose proof (imux_fun _ _ _ _ Hi Hi0) as Em. subst mx0. rewrite <- Eout in Ho0. rewrite Ho in Ho0. inversion Ho0; subst och0.
        split; [|intros T; contradiction].
        intros _. exists v. rewrite <- Eout. split; [rewrite out_set_chan_same by exact Houtlt; rewrite Hw; reflexivity|].
        split; assumption.
      + assert (Hoo : mx_out mx0 <> out).
        { intros E. apply Hne. rewrite Eout in E. apply (sh_out_inj _ S0 m0 m mx0 mx Hi0 Hi E). }
        rewrite out_set_chan_other by congruence.
        replace (chan_at b1 (mx_out mx0)) with (chan_at cur (mx_out mx0)) by (unfold chan_at; rewrite Ech; reflexivity).
        destruct (i_out _ _ I m0 mx0 och0 Hi0 Ho0) as [A B]. split.
        * intros T. apply (Hdm m0 Hne) in T. destruct (A T) as (v0 & C1 & C2 & C3). exists v0. split; [exact C1|]. split.
          -- intros [H|H]; [destruct Hd as [->|(i' & ->)]; inversion H; congruence|apply C2; exact H].
          -- intros Hn i [H|H]; [destruct Hd as [->|(i' & ->)]; inversion H; congruence|].
             apply C3; [|exact H]. intros Hs. apply Hn. right. exact Hs.
        * intros T. apply B. intros T'. apply T. apply (Hdm m0 Hne). exact T'.
    - intros m0 i [H|H].
      + subst d. destruct Hd as [H|(i' & H)]; [discriminate|]. inversion H; subst m0 i'.
        destruct (Hq i eq_refl) as [Hs|He]; [left; right; exact Hs|right; exists mx; split; assumption].
      + destruct (i_qin _ _ I m0 i H) as [Hs|He]; [left; right; exact Hs|right; exact He].
    - destruct (i_dirty _ _ I) as (O & EO & HndO & HO).
      destruct Hst as [(T & Hdy & _)|(T & Hdy & _)]; rewrite Hdy.
      + exists O. split; [exact EO|]. split; [exact HndO|]. intros c. rewrite (HO c). split.
        * intros (m0 & mx0 & A & B & Cc). exists m0, mx0. split; [exact A|]. split; [exact B|].
          destruct (Nat.eq_dec m0 m) as [->|Hne]; [exact Htm|apply (Hdm m0 Hne); exact Cc].
        * intros (m0 & mx0 & A & B & Cc). exists m0, mx0. split; [exact A|]. split; [exact B|].
          destruct (Nat.eq_dec m0 m) as [->|Hne]; [exact T|apply (Hdm m0 Hne); exact Cc].
      + exists (O ++ [out]). split; [rewrite EO, app_assoc; reflexivity|]. split.
        * apply NoDup_app_single'; [exact HndO|]. intros Hin. apply (HO out) in Hin.
          destruct Hin as (m0 & mx0 & A & B & Cc). apply T.
          rewrite Eout in B. assert (m0 = m) by (apply (sh_out_inj _ S0 m0 m mx0 mx A Hi B)). subst m0. exact Cc.
        * intros c. rewrite in_app_iff, (HO c). cbn [In]. split.
          -- intros [(m0 & mx0 & A & B & Cc)|[<-|[]]].
             ++ exists m0, mx0. split; [exact A|]. split; [exact B|].
                destruct (Nat.eq_dec m0 m) as [->|Hne]; [exact Htm|apply (Hdm m0 Hne); exact Cc].
             ++ exists m, mx. split; [exact Hi|]. split; [symmetry; exact Eout|exact Htm].
          -- intros (m0 & mx0 & A & B & Cc). destruct (Nat.eq_dec m0 m) as [->|Hne].
             ++ right. left. pose proof (imux_fun _ _ _ _ Hi A). subst mx0. rewrite Eout. exact B.
             ++ left. exists m0, mx0. split; [exact A|]. split; [exact B|apply (Hdm m0 Hne); exact Cc].
  Qed.

  (* one callback *)
  Lemma step_dcb Q cur d c :
    Inv Q cur -> ~ In d Q -> In d (dcbs_of cur c) -> In c (b_dirty b0) ->
    exists cur', run_dcb cur d = Ok cur' /\ Inv (d :: Q) cur' /\ dcbs_of cur' c = dcbs_of cur c.
  Proof.
    intros I Hnq Hin Hcd. pose proof (Inv_shape _ _ I) as Sc. pose proof (i_cbs _ _ I) as Gc.
    destruct d as [m|m i|m].
    - (* cb_select *)
      apply (g_sel _ Gc) in Hin. destruct Hin as (mxc & Hic & Hselc).
      destruct (imux_cur _ _ _ _ I Hic) as (mx & Hi & E).
      destruct (i_mux _ _ I m mx Hi) as (mx' & Hi' & E' & _ & Hsame).
      pose proof (imux_fun _ _ _ _ Hic Hi'). subst mx'. clear Hi'.
      assert (mxc = mx) by (apply Hsame; exact Hnq). subst mxc.
      destruct (outs_clean m mx Hi) as (och & Ho & Hcl & _).
      destruct (out_cur _ _ _ _ _ I Hi Ho Hcl) as (ochc & Hoc & Hpc & Hst).
      assert (Hsd : In (mx_sel mx) (b_dirty b0)) by (rewrite Hselc; exact Hcd).
      destruct (sel_ok m mx Hi Hsd) as (oi & Hoi).
      assert (Hoic : sel_res cur mx = Ok oi) by (rewrite (sel_res_cur _ _ _ _ _ I Hi eq_refl); exact Hoi).
      destruct (cb_select_spec cur m mx oi ochc Sc Gc Hic Hoic Hoc) as (b1 & mx2 & U & G1 & Hen & Hs2 & Ecb).
      eexists. split; [exact Ecb|]. rewrite (mux_value_cur _ _ _ _ _ oi I Hi eq_refl). split.
      + apply (Inv_written Q cur (DSelect m) m mx och ochc b1); try assumption.
        * left. reflexivity.
        * apply (mu_chans _ _ _ _ _ U).
        * apply (mu_dirty _ _ _ _ _ U).
        * apply (mu_skel _ _ _ _ _ U).
        * apply (mu_len _ _ _ _ _ U).
        * intros m0 mx0 Hi0. destruct (Nat.eq_dec m0 m) as [->|Hne].
          -- pose proof (imux_fun _ _ _ _ Hi Hi0). subst mx0. exists mx2.
             split; [apply (imux_upd_m _ _ _ _ _ Hic U)|]. split; [apply (mu_stat _ _ _ _ _ U)|]. split.
             ++ intros _. exists oi. split; [exact Hoi|]. split; [exact Hen|exact Hs2].
             ++ intros Hn. exfalso. apply Hn. left. reflexivity.
          -- destruct (i_mux _ _ I m0 mx0 Hi0) as (mx' & A & B & C1 & C2). exists mx'.
             split; [apply (imux_upd_other _ _ _ _ _ _ _ U Hne A)|]. split; [exact B|]. split.
             ++ intros [H|H]; [inversion H; congruence|apply C1; exact H].
             ++ intros Hn. apply C2. intros H. apply Hn. right. exact H.
        * intros _. exists oi. split; [exact Hoi|reflexivity].
        * intros Hn. exfalso. apply Hn. left. reflexivity.
        * intros i H. discriminate.
      + (* the list of the select channel is not touched *)
        unfold out_set. change (dcbs_of b1 c = dcbs_of cur c). apply (mu_same _ _ _ _ _ U).
        intros j Hj. rewrite <- Hselc in Hj. apply (sh_sel_in _ Sc m m mx mx j Hic Hic Hj).
    - (* cb_input *)
      apply (g_in _ Gc) in Hin. destruct Hin as (mxc & Hic & Hinc & Henc).
      destruct (imux_cur _ _ _ _ I Hic) as (mx & Hi & E).
      destruct (mstat_fields _ _ E) as (_ & _ & E3 & _ & _ & E6 & _).
      destruct (i_mux _ _ I m mx Hi) as (mx' & Hi' & E' & Hsel & Hsame).
      pose proof (imux_fun _ _ _ _ Hic Hi'). subst mx'. clear Hi'.
      destruct (outs_clean m mx Hi) as (och & Ho & Hcl & _).
      destruct (out_cur _ _ _ _ _ I Hi Ho Hcl) as (ochc & Hoc & Hpc & Hst).
      assert (Hin0 : nth_error (mx_ins mx) i = Some c) by (rewrite E6; exact Hinc).
      destruct (sh_ins _ S0 m mx i c Hi Hin0) as [Hclt Hcno].
      destruct (nth_error (b_chans b0) c) as [ich|] eqn:Hich.
      2:{ apply nth_error_None in Hich. lia. }
      assert (Hichc : chan_at cur c = Some ich) by (rewrite (i_lvl0 _ _ I c Hcno); exact Hich).
      assert (Hocc : chan_at cur (mx_out mxc) = Some ochc) by (rewrite <- E3; exact Hoc).
      pose proof (cb_input_spec cur m mxc i c ich ochc Hic Hinc Hichc Hocc Hpc) as Ecb. rewrite <- E3 in Ecb.
      eexists. split; [exact Ecb|]. split; [|reflexivity].
      assert (Hval : chan_read ich = mux_value b0 mx (Some i)).
      { unfold mux_value. rewrite Hin0. unfold chan_at. rewrite Hich. reflexivity. }
      apply (Inv_written Q cur (DInput m i) m mx och ochc cur); try assumption; try reflexivity.
      + right. exists i. reflexivity.
      + intros m0 mx0 Hi0. destruct (i_mux _ _ I m0 mx0 Hi0) as (mx' & A & B & C1 & C2). exists mx'.
        split; [exact A|]. split; [exact B|]. split.
        * intros [H|H]; [discriminate|apply C1; exact H].
        * intros Hn. apply C2. intros H. apply Hn. right. exact H.
      + intros [H|H]; [discriminate|]. destruct (Hsel H) as (oi & Hoi & Hen & _). exists oi. split; [exact Hoi|].
        rewrite Hval. apply Hen in Henc. subst oi. reflexivity.
      + intros Hn i' [H|H]; [inversion H; subst; exact Hval|].
        assert (Hns : ~ In (DSelect m) Q) by (intros Hs; apply Hn; right; exact Hs).
        assert (mxc = mx) by (apply Hsame; exact Hns). subst mxc.
        destruct (i_qin _ _ I m i' H) as [Hs|(mx1 & Hi1 & He1)]; [contradiction|].
        pose proof (imux_fun _ _ _ _ Hi Hi1). subst mx1.
        pose proof (g_one _ G0 m mx i Hi Henc) as A. pose proof (g_one _ G0 m mx i' Hi He1) as B.
        rewrite A in B. inversion B; subst. exact Hval.
      + intros i' H. inversion H; subst i'. destruct (in_dec_dcb (DSelect m) Q) as [Hs|Hs]; [left; exact Hs|].
        right. assert (mxc = mx) by (apply Hsame; exact Hs). subst mxc. exact Henc.
    - exfalso. apply (g_res _ Gc c m Hin).
  Qed.

  (* propagate_chan: the walk over the callbacks of one dirty channel *)
  Lemma next_after_mid pre d rest : ~ In d pre -> next_after d (pre ++ d :: rest) = Some (match rest with y :: _ => Some y | [] => None end).
  Proof.
    intros Hn. induction pre as [|x pre IH]; cbn.
    - rewrite dcb_eqb_refl. reflexivity.
    - destruct (dcb_eqb d x) eqn:E; [apply dcb_eqb_eq in E; subst; exfalso; apply Hn; left; reflexivity|].
      apply IH. intros H. apply Hn. right. exact H.
  Qed.

  Lemma walk_from_spec c : forall rest pre d Q cur fuel,
    Inv Q cur -> In c (b_dirty b0) -> dcbs_of cur c = pre ++ d :: rest -> NoDup (pre ++ d :: rest) -> length rest < fuel ->
    (forall d', In d' (d :: rest) -> ~ In d' Q) ->
    exists cur', walk_from fuel cur c d = Ok cur' /\ Inv (rev (d :: rest) ++ Q) cur' /\ dcbs_of cur' c = pre ++ d :: rest.
  Proof.
    induction rest as [|d2 rest IH]; intros pre d Q cur fuel I Hcd Hl Hnd Hf Hq; (destruct fuel as [|fuel]; [lia|]).
    - destruct (step_dcb Q cur d c I (Hq d (or_introl eq_refl))) as (cur1 & E1 & I1 & Hsame); [rewrite Hl; apply in_or_app; right; left; reflexivity|exact Hcd|].
      cbn [walk_from]. rewrite E1, Hsame, Hl, next_after_mid.
      + exists cur1. split; [reflexivity|]. split; [exact I1|rewrite Hsame; exact Hl].
      + apply NoDup_remove_2 in Hnd. intros H. apply Hnd. apply in_or_app. left. exact H.
    - destruct (step_dcb Q cur d c I (Hq d (or_introl eq_refl))) as (cur1 & E1 & I1 & Hsame); [rewrite Hl; apply in_or_app; right; left; reflexivity|exact Hcd|].
      cbn [walk_from]. rewrite E1, Hsame, Hl, next_after_mid.
      2:{ apply NoDup_remove_2 in Hnd. intros H. apply Hnd. apply in_or_app. left. exact H. }
      assert (Hl1 : dcbs_of cur1 c = (pre ++ [d]) ++ d2 :: rest) by (rewrite Hsame, Hl, <- app_assoc; reflexivity).
      assert (Hnd1 : NoDup ((pre ++ [d]) ++ d2 :: rest)) by (rewrite <- app_assoc; exact Hnd).
      destruct (IH (pre ++ [d]) d2 (d :: Q) cur1 fuel I1 Hcd Hl1 Hnd1) as (cur' & E2 & I2 & Hs2).
      + cbn [length] in Hf. lia.
      + intros d' Hd' [H|H].
        * subst d'. apply NoDup_remove_2 in Hnd. apply Hnd. apply in_or_app. right. exact Hd'.
        * apply (Hq d' (or_intror Hd') H).
      + exists cur'. split; [exact E2|]. split; [|rewrite Hs2, <- app_assoc; reflexivity].
        cbn [rev] in *. rewrite <- !app_assoc in *. cbn [app] in *. exact I2.
  Qed.

  Lemma walk c Q cur :
    Inv Q cur -> In c (b_dirty b0) -> NoDup (dcbs_of cur c) -> (forall d, In d (dcbs_of cur c) -> ~ In d Q) ->
    exists cur', run_cbs cur c = Ok cur' /\ Inv (rev (dcbs_of cur c) ++ Q) cur' /\ dcbs_of cur' c = dcbs_of cur c.
  Proof.
    intros I Hcd Hnd Hq. unfold run_cbs. destruct (dcbs_of cur c) as [|d rest] eqn:El.
    - exists cur. split; [reflexivity|]. split; [exact I|exact El].
    - apply (walk_from_spec c rest [] d Q cur (walk_fuel cur c) I Hcd El Hnd); [|exact Hq].
      unfold walk_fuel. rewrite El. cbn [length]. lia.
  Qed.

  (* ---------------------------------------------------------------- the walk over the dirty list *)

  Hypothesis dirty_nodup : NoDup (b_dirty b0).
  Hypothesis dirty_lvl0 : forall c, In c (b_dirty b0) -> c < length (b_chans b0) /\ ~ is_out b0 c.

  (* P = the level-0 channels walked so far, Q = the callbacks that ran *)
  Record Link (P : list nat) (Q : list dcb) : Prop := {
    l_sel : forall m mx, imux b0 m mx -> In (mx_sel mx) P -> In (DSelect m) Q;
    l_in : forall m mx j c, imux b0 m mx -> nth_error (mx_ins mx) j = Some c -> In c P -> en_at mx j ->
             In (DSelect m) Q \/ In (DInput m j) Q;
    l_qsel : forall m, In (DSelect m) Q -> exists mx, imux b0 m mx /\ In (mx_sel mx) P;
    l_qin : forall m j, In (DInput m j) Q -> exists mx c, imux b0 m mx /\ nth_error (mx_ins mx) j = Some c /\ In c P;
    l_nores : forall m, ~ In (DReselect m) Q
  }.

  Lemma Link_init : Link [] [].
  Proof. constructor; unfold not; intros; match goal with H : In _ [] |- _ => destruct H end. Qed.

  Lemma dirty_cur_nodup Q cur : Inv Q cur -> NoDup (b_dirty cur) /\ (forall c, In c (b_dirty cur) -> c < length (b_chans b0)).
  Proof.
    intros I. destruct (i_dirty _ _ I) as (O & EO & HndO & HO). rewrite EO. split.
    - apply NoDup_app_disjoint'; [exact dirty_nodup|exact HndO|].
      intros c H1 H2. apply (HO c) in H2. destruct H2 as (m & mx & Hi & Ho & _).
      destruct (dirty_lvl0 c H1) as [_ Hno]. apply Hno. exists m, mx. split; assumption.
    - intros c Hin. apply in_app_or in Hin. destruct Hin as [H|H]; [apply (dirty_lvl0 c H)|].
      apply (HO c) in H. destruct H as (m & mx & Hi & Ho & _).
      destruct (sh_out _ S0 m mx Hi) as (och & Hc & _). rewrite <- Ho. apply (nth_error_Some_lt _ _ och). exact Hc.
  Qed.

  Lemma dirty_cur_len Q cur : Inv Q cur -> length (b_dirty cur) <= length (b_chans b0).
  Proof.
    intros I. destruct (dirty_cur_nodup _ _ I) as [Hnd Hlt].
    rewrite <- (seq_length (length (b_chans b0)) 0). apply NoDup_incl_length; [exact Hnd|].
    intros c Hc. apply in_seq. split; [lia|]. cbn. apply Hlt. exact Hc.
  Qed.

  Lemma phaseA : forall R P Q cur fuel,
    b_dirty b0 = P ++ R -> Inv Q cur -> Link P Q -> length (b_chans b0) + 1 <= fuel + length P ->
    exists b1 Q1 fuel1,
      dirty_phase fuel (length P) cur = dirty_phase fuel1 (length (b_dirty b0)) b1 /\
      Inv Q1 b1 /\ Link (b_dirty b0) Q1 /\ length (b_chans b0) + 1 <= fuel1 + length (b_dirty b0).
  Proof.
    induction R as [|c R IH]; intros P Q cur fuel EP I L Hf.
    - rewrite app_nil_r in EP. subst P. exists cur, Q, fuel. split; [reflexivity|]. split; [exact I|]. split; [exact L|exact Hf].
    - assert (Hcd : In c (b_dirty b0)) by (rewrite EP; apply in_or_app; right; left; reflexivity).
      pose proof (dirty_cur_len _ _ I) as Hlen.
      destruct (i_dirty _ _ I) as (O & EO & HndO & HO).
      assert (Hnth : nth_error (b_dirty cur) (length P) = Some c).
      { rewrite EO, EP, <- app_assoc. rewrite nth_error_app2 by lia. rewrite Nat.sub_diag. reflexivity. }
      assert (HPlt : length P < length (b_dirty cur)) by (apply (nth_error_Some_lt _ _ c); exact Hnth).
      destruct fuel as [|fuel]; [lia|].
      cbn [dirty_phase]. rewrite Hnth.
      pose proof (i_cbs _ _ I) as Gc.
      assert (HcP : ~ In c P).
      { intros H. rewrite EP in dirty_nodup. apply NoDup_remove_2 in dirty_nodup. apply dirty_nodup. apply in_or_app. left. exact H. }
      destruct (walk c Q cur I Hcd (g_nodup _ Gc c)) as (cur1 & E1 & I1 & _).
      { intros d Hd. intros Hq. destruct d as [m|m j|m].
        - destruct (l_qsel _ _ L m Hq) as (mx & Hi & Hp).
          apply (g_sel _ Gc) in Hd. destruct Hd as (mxc & Hic & Hs).
          destruct (imux_cur _ _ _ _ I Hic) as (mx2 & Hi2 & E). pose proof (imux_fun _ _ _ _ Hi Hi2). subst mx2.
          destruct (mstat_fields _ _ E) as (_ & E2 & _). apply HcP. rewrite <- Hs, <- E2. exact Hp.
        - destruct (l_qin _ _ L m j Hq) as (mx & c' & Hi & Hn & Hp).
          apply (g_in _ Gc) in Hd. destruct Hd as (mxc & Hic & Hn' & _).
          destruct (imux_cur _ _ _ _ I Hic) as (mx2 & Hi2 & E). pose proof (imux_fun _ _ _ _ Hi Hi2). subst mx2.
          destruct (mstat_fields _ _ E) as (_ & _ & _ & _ & _ & E6 & _). rewrite <- E6, Hn in Hn'. inversion Hn'; subst c'. contradiction.
        - apply (g_res _ Gc c m Hd). }
      rewrite E1.
      assert (EP' : b_dirty b0 = (P ++ [c]) ++ R) by (rewrite <- app_assoc; exact EP).
      assert (L1 : Link (P ++ [c]) (rev (dcbs_of cur c) ++ Q)).
      { constructor.
        - intros m mx Hi Hin. apply in_app_or in Hin. apply in_or_app. destruct Hin as [H|[H|[]]].
          + right. apply (l_sel _ _ L m mx Hi H).
          + left. apply -> in_rev. apply (g_sel _ Gc).
            destruct (i_mux _ _ I m mx Hi) as (mx' & Hi' & E & _). exists mx'. split; [exact Hi'|].
            destruct (mstat_fields _ _ E) as (_ & E2 & _). congruence.
        - intros m mx j c' Hi Hn Hin Hen. apply in_app_or in Hin. destruct Hin as [H|[H|[]]].
          + destruct (l_in _ _ L m mx j c' Hi Hn H Hen) as [A|A]; [left|right]; apply in_or_app; right; exact A.
          + subst c'. destruct (in_dec_dcb (DSelect m) Q) as [Hs|Hs]; [left; apply in_or_app; right; exact Hs|].
            right. apply in_or_app. left. apply -> in_rev. apply (g_in _ Gc).
            destruct (i_mux _ _ I m mx Hi) as (mx' & Hi' & E & _ & Hsame). pose proof (Hsame Hs). subst mx'.
            exists mx. split; [exact Hi'|]. split; assumption.
        - intros m Hin. apply in_app_or in Hin. destruct Hin as [H|H].
          + apply in_rev in H. apply (g_sel _ Gc) in H. destruct H as (mxc & Hic & Hs).
            destruct (imux_cur _ _ _ _ I Hic) as (mx & Hi & E). exists mx. split; [exact Hi|].
            destruct (mstat_fields _ _ E) as (_ & E2 & _). rewrite E2, Hs. apply in_or_app. right. left. reflexivity.
          + destruct (l_qsel _ _ L m H) as (mx & Hi & Hp). exists mx. split; [exact Hi|apply in_or_app; left; exact Hp].
        - intros m j Hin. apply in_app_or in Hin. destruct Hin as [H|H].
          + apply in_rev in H. apply (g_in _ Gc) in H. destruct H as (mxc & Hic & Hn & _).
            destruct (imux_cur _ _ _ _ I Hic) as (mx & Hi & E). exists mx, c. split; [exact Hi|].
            destruct (mstat_fields _ _ E) as (_ & _ & _ & _ & _ & E6 & _). rewrite E6. split; [exact Hn|apply in_or_app; right; left; reflexivity].
          + destruct (l_qin _ _ L m j H) as (mx & c' & Hi & Hn & Hp). exists mx, c'. split; [exact Hi|]. split; [exact Hn|apply in_or_app; left; exact Hp].
        - intros m Hin. apply in_app_or in Hin. destruct Hin as [H|H].
          + apply in_rev in H. apply (g_res _ Gc c m H).
          + apply (l_nores _ _ L m H). }
      destruct (IH (P ++ [c]) _ cur1 fuel EP' I1 L1) as (b1 & Q1 & fuel1 & E & I2 & L2 & Hf2).
      { rewrite app_length. cbn. lia. }
      exists b1, Q1, fuel1. split; [|split; [exact I2|split; [exact L2|exact Hf2]]].
      rewrite <- E. rewrite app_length. cbn. rewrite Nat.add_1_r. reflexivity.
  Qed.

  (* the outputs appended to the dirty list have no dirty callbacks: nothing more happens *)
  Lemma phaseB Q b1 : Inv Q b1 -> forall k j fuel O,
    b_dirty b1 = b_dirty b0 ++ O -> j + k = length O -> k + 1 <= fuel ->
    (forall c, In c O -> is_out b0 c) ->
    dirty_phase fuel (length (b_dirty b0) + j) b1 = Ok b1.
  Proof.
    intros I. induction k as [|k IH]; intros j fuel O EO Hjk Hf HO.
    - destruct fuel as [|fuel]; [lia|]. cbn [dirty_phase].
      assert (E : nth_error (b_dirty b1) (length (b_dirty b0) + j) = None).
      { apply nth_error_None. rewrite EO, app_length. lia. }
      rewrite E. reflexivity.
    - destruct fuel as [|fuel]; [lia|]. cbn [dirty_phase].
      destruct (nth_error (b_dirty b1) (length (b_dirty b0) + j)) as [c|] eqn:E; [|reflexivity].
      assert (Hc : In c O).
      { rewrite EO, nth_error_app2 in E by lia. apply (nth_error_In O (length (b_dirty b0) + j - length (b_dirty b0))). exact E. }
      assert (Hout : is_out b1 c).
      { destruct (HO c Hc) as (m & mx & Hi & Ho). destruct (i_mux _ _ I m mx Hi) as (mx' & Hi' & Es & _).
        destruct (mstat_fields _ _ Es) as (_ & _ & E3 & _). exists m, mx'. split; [exact Hi'|congruence]. }
      unfold run_cbs. rewrite (out_no_cbs b1 c (Inv_shape _ _ I) (i_cbs _ _ I) Hout).
      replace (S (length (b_dirty b0) + j)) with (length (b_dirty b0) + S j) by lia.
      apply (IH (S j) fuel O EO); [lia|lia|exact HO].
  Qed.

  Theorem dirty_phase_inv :
    exists b1 Q, dirty_phase (S (length (b_chans b0))) 0 b0 = Ok b1 /\ Inv Q b1 /\ Link (b_dirty b0) Q.
  Proof.
    destruct (phaseA (b_dirty b0) [] [] b0 (S (length (b_chans b0))) eq_refl Inv_init Link_init) as (b1 & Q & fuel1 & E & I & L & Hf).
    { cbn. lia. }
    exists b1, Q. split; [|split; [exact I|exact L]].
    cbn [length] in E. rewrite E.
    destruct (i_dirty _ _ I) as (O & EO & HndO & HO).
    pose proof (dirty_cur_len _ _ I) as Hlen. rewrite EO, app_length in Hlen.
    replace (length (b_dirty b0)) with (length (b_dirty b0) + 0) at 1 by lia.
    apply (phaseB Q b1 I (length O) 0 fuel1 O EO); [lia|lia|].
    intros c Hc. apply (HO c) in Hc. destruct Hc as (m & mx & Hi & Ho & _). exists m, mx. split; assumption.
  Qed.
End Phase.
