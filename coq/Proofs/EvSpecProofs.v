(* C18, decode clause: proofs about the model of ev_spec.c (Tools/EvSpecDefs.v). *)
From Coq Require Import ZArith List Bool Lia ZifyBool.
From OV Require Import Tools.EvSpecDefs Gen.Tables_gen.
Import ListNotations.
Local Open Scope Z_scope.
Ltac Zify.zify_post_hook ::= Z.div_mod_to_equations.

(* ------------------------------------------------------------------ lists, C strings *)

Lemma list_eqb_eq a b : list_eqb a b = true <-> a = b.
Proof.
  revert b; induction a as [|x a IH]; intros [|y b]; cbn [list_eqb]; split; intros H;
    try reflexivity; try discriminate.
  - apply andb_true_iff in H. destruct H as [H1 H2]. apply Z.eqb_eq in H1. apply IH in H2. congruence.
  - injection H as -> ->. rewrite Z.eqb_refl. cbn [andb]. apply IH. reflexivity.
Qed.

Lemma list_eqb_refl a : list_eqb a a = true.
Proof. apply list_eqb_eq. reflexivity. Qed.

Definition no_nul (s : list Z) : Prop := Forall (fun c => c <> 0) s.

Lemma cstr_app_nul s r : no_nul s -> cstr (s ++ 0 :: r) = s.
Proof.
  induction 1 as [|c s Hc Hs IH]; cbn [cstr app].
  - reflexivity.
  - destruct (c =? 0) eqn:E; [lia|]. rewrite IH. reflexivity.
Qed.

Lemma existsb_nul_app s r : existsb (fun c => c =? 0) (s ++ 0 :: r) = true.
Proof.
  apply existsb_exists. exists 0. split; [apply in_or_app; right; left; reflexivity | reflexivity].
Qed.

Lemma str_ok_no_nul s : forallb (fun c => (1 <=? c) && (c <=? 255)) s = true -> no_nul s.
Proof.
  intros H. apply Forall_forall. intros c Hc.
  rewrite forallb_forall in H. specialize (H c Hc). lia.
Qed.

(* ------------------------------------------------------------------ numbers as text *)

Definition digit_val (c : Z) : Z := if c <? 58 then c - 48 else c - 87.

Fixpoint undigits_le (base : Z) (l : list Z) : Z :=
  match l with
  | [] => 0
  | c :: r => digit_val c + base * undigits_le base r
  end.

Lemma digit_val_char d : 0 <= d < 16 -> digit_val (digit_char d) = d.
Proof. intros H. unfold digit_val, digit_char. destruct (d <? 10) eqn:E; destruct (_ <? 58) eqn:F; lia. Qed.

(* the digits denote the number (so running out of fuel cannot go unnoticed) *)
Lemma digits_le_value base fuel : 2 <= base <= 16 ->
  forall n, 0 <= n < base ^ Z.of_nat fuel -> undigits_le base (digits_le fuel base n) = n.
Proof.
  intros Hb. induction fuel as [|f IH]; intros n Hn.
  - change (Z.of_nat 0) with 0 in Hn. rewrite Z.pow_0_r in Hn. cbn [digits_le undigits_le]. lia.
  - cbn [digits_le undigits_le].
    rewrite digit_val_char by (pose proof (Z.mod_pos_bound n base); lia).
    destruct (n <? base) eqn:E.
    + cbn [undigits_le]. rewrite Z.mod_small; lia.
    + rewrite IH.
      * pose proof (Z.div_mod n base). lia.
      * rewrite Nat2Z.inj_succ, Z.pow_succ_r in Hn by lia.
        split; [apply Z.div_pos; lia | apply Z.div_lt_upper_bound; lia].
Qed.

Definition is_dec_digit (c : Z) : Prop := 48 <= c <= 57.
Definition is_hex_digit (c : Z) : Prop := 48 <= c <= 57 \/ 97 <= c <= 102.

Lemma digits_le_chars base fuel n : 2 <= base <= 16 -> 0 <= n ->
  Forall (fun c => exists d, 0 <= d < base /\ c = digit_char d) (digits_le fuel base n).
Proof.
  intros Hb. revert n. induction fuel as [|f IH]; intros n Hn; cbn [digits_le].
  - constructor.
  - constructor.
    + exists (n mod base). split; [apply Z.mod_pos_bound; lia | reflexivity].
    + destruct (n <? base); [constructor | apply IH; apply Z.div_pos; lia].
Qed.

Lemma udec_value n : 0 <= n < 2 ^ 64 -> undigits_le 10 (rev (udec n)) = n.
Proof.
  intros H. unfold udec. rewrite rev_involutive. apply digits_le_value; [lia|].
  change (10 ^ Z.of_nat 20) with 100000000000000000000. change (2 ^ 64) with 18446744073709551616 in H. lia.
Qed.

Lemma uhex_value n : 0 <= n < 2 ^ 64 -> undigits_le 16 (rev (uhex n)) = n.
Proof.
  intros H. unfold uhex. rewrite rev_involutive. apply digits_le_value; [lia|].
  change (16 ^ Z.of_nat 16) with 18446744073709551616. change (2 ^ 64) with 18446744073709551616 in H. lia.
Qed.

Lemma udec_digits n : 0 <= n -> Forall is_dec_digit (udec n).
Proof.
  intros H. unfold udec. apply Forall_rev.
  eapply Forall_impl; [|apply (digits_le_chars 10 20 n); lia].
  intros c [d [Hd ->]]. unfold is_dec_digit, digit_char. destruct (d <? 10) eqn:E; lia.
Qed.

Lemma uhex_digits n : 0 <= n -> Forall is_hex_digit (uhex n).
Proof.
  intros H. unfold uhex. apply Forall_rev.
  eapply Forall_impl; [|apply (digits_le_chars 16 16 n); lia].
  intros c [d [Hd ->]]. unfold is_hex_digit, digit_char. destruct (d <? 10) eqn:E; lia.
Qed.

(* ------------------------------------------------------------------ little endian *)

Lemma le_bytes_length n z : length (le_bytes n z) = n.
Proof. revert z; induction n as [|n IH]; intros z; cbn [le_bytes length]; [reflexivity | rewrite IH; reflexivity]. Qed.

Lemma le_val_le_bytes n z : le_val (le_bytes n z) = z mod 256 ^ Z.of_nat n.
Proof.
  revert z; induction n as [|n IH]; intros z.
  - cbn [le_bytes le_val]. change (256 ^ Z.of_nat 0) with 1. rewrite Z.mod_1_r. reflexivity.
  - cbn [le_bytes le_val]. rewrite IH, Nat2Z.inj_succ, Z.pow_succ_r by lia.
    rewrite Z.rem_mul_r by (try apply Z.pow_pos_nonneg; lia). reflexivity.
Qed.

Lemma le_bytes_range n z : Forall (fun b => 0 <= b <= 255) (le_bytes n z).
Proof.
  revert z; induction n as [|n IH]; intros z; cbn [le_bytes]; constructor; [|apply IH].
  pose proof (Z.mod_pos_bound z 256). lia.
Qed.

Lemma dec_int_enc t z : ty_is_str t = false -> val_okb t (VInt z) = true ->
  dec_int t (le_bytes (ty_size t) z) = z.
Proof.
  intros Hs H. unfold dec_int. rewrite le_val_le_bytes.
  destruct t; try discriminate Hs; cbn [ty_size ty_signed ty_bits andb] in *;
    unfold val_okb in H; cbn [ty_signed ty_bits] in H.
  - change (256 ^ Z.of_nat 1) with 256. change (2 ^ 8) with 256 in H. lia.
  - change (256 ^ Z.of_nat 2) with 65536. change (2 ^ 16) with 65536 in H. lia.
  - change (256 ^ Z.of_nat 4) with 4294967296. change (2 ^ 32) with 4294967296 in H. lia.
  - change (256 ^ Z.of_nat 8) with 18446744073709551616. change (2 ^ 64) with 18446744073709551616 in H. lia.
  - change (256 ^ Z.of_nat 1) with 256. change (2 ^ (8 - 1)) with 128 in *. change (2 ^ 8) with 256.
    destruct (128 <=? z mod 256) eqn:E; lia.
  - change (256 ^ Z.of_nat 2) with 65536. change (2 ^ (16 - 1)) with 32768 in *. change (2 ^ 16) with 65536.
    destruct (32768 <=? z mod 65536) eqn:E; lia.
  - change (256 ^ Z.of_nat 4) with 4294967296. change (2 ^ (32 - 1)) with 2147483648 in *. change (2 ^ 32) with 4294967296.
    destruct (2147483648 <=? z mod 4294967296) eqn:E; lia.
  - change (256 ^ Z.of_nat 8) with 18446744073709551616. change (2 ^ (64 - 1)) with 9223372036854775808 in *.
    change (2 ^ 64) with 18446744073709551616.
    destruct (9223372036854775808 <=? z mod 18446744073709551616) eqn:E; lia.
Qed.

(* ------------------------------------------------------------------ compile: shape of the result *)

(* offsets are the running sums of the sizes *)
Fixpoint offsets_from (start : nat) (l : list arg) : Prop :=
  match l with
  | [] => True
  | a :: r => a_off a = start /\ a_size a = ty_size (a_type a) /\ offsets_from (start + a_size a) r
  end.

Lemma parse_arg_props tok off a : parse_arg tok off = Some a ->
  a_off a = off /\ a_size a = ty_size (a_type a) /\ (length (a_name a) < 64)%nat.
Proof.
  unfold parse_arg. destruct (tokens _ tok) as [|ty [|name rest]]; try discriminate.
  destruct (NAME_BUF <=? length name)%nat eqn:E; try discriminate.
  destruct (parse_type ty); try discriminate. intros H; injection H as <-.
  cbn [a_off a_size a_type a_name]. unfold NAME_BUF in E. repeat split. lia.
Qed.

Lemma parse_args_from_offsets toks : forall n off l,
  parse_args_from toks n off = Some l ->
  offsets_from off l /\ Forall (fun a => (length (a_name a) < 64)%nat) l /\ (l = [] \/ (n + length l <= 16)%nat).
Proof.
  induction toks as [|t r IH]; intros n off l H; cbn [parse_args_from] in H.
  - injection H as <-. cbn [offsets_from]. auto.
  - destruct (MAX_ARGS <=? n)%nat eqn:En; try discriminate.
    destruct (parse_arg t off) as [a|] eqn:Ea; try discriminate.
    destruct (parse_args_from r (S n) (off + a_size a)) as [l'|] eqn:El; try discriminate.
    injection H as <-. apply IH in El. destruct El as [H1 [H2 H3]].
    apply parse_arg_props in Ea. destruct Ea as [Ha [Hb Hc]].
    cbn [offsets_from length]. unfold MAX_ARGS in En. repeat split; auto.
    right. destruct H3 as [-> | H3]; cbn [length]; lia.
Qed.

Definition spec_wf (sp : spec) : Prop :=
  offsets_from (if s_jumbo sp then 4%nat else 0%nat) (s_args sp) /\
  Forall (fun a => (length (a_name a) < 64)%nat) (s_args sp) /\
  (length (s_args sp) <= 16)%nat /\
  (s_args sp = [] -> s_jumbo sp = false) /\
  s_psize sp = ((if s_jumbo sp then 4 else 0) + sum_sizes (s_args sp))%nat.

Lemma compile_wf sig sp : compile sig = Some sp -> spec_wf sp.
Proof.
  unfold compile. destruct (SIG_BUF <=? _)%nat; try discriminate.
  destruct (cstr sig) as [|m [|c [|v rest]]]; try discriminate.
  destruct (isgraph m && isgraph c && isgraph v); try discriminate.
  assert (G : forall (jumbo : bool) (next : list Z),
    match next with
    | [] => if jumbo then @None spec else Some (mkspec (m, c, v) false [] 0)
    | p :: r =>
      if p =? CH_LPAR then
        match parse_args_from (tokens (fun c => (c =? CH_COMMA) || (c =? CH_RPAR)) r) 0 (if jumbo then 4%nat else 0%nat) with
        | None => @None spec
        | Some [] => None
        | Some args => Some (mkspec (m, c, v) jumbo args ((if jumbo then 4%nat else 0%nat) + sum_sizes args))
        end
      else None
    end = Some sp -> spec_wf sp).
  { intros jumbo next H. destruct next as [|p r].
    - destruct jumbo; try discriminate. injection H as <-. unfold spec_wf; cbn. auto 10 with arith.
    - destruct (p =? CH_LPAR); try discriminate.
      destruct (parse_args_from _ 0 _) as [[|a l]|] eqn:E; try discriminate.
      injection H as <-. apply parse_args_from_offsets in E. destruct E as [H1 [H2 H3]].
      unfold spec_wf. cbn [s_jumbo s_args s_psize].
      split; [exact H1|]. split; [exact H2|]. split; [destruct H3 as [H3|H3]; [discriminate | lia]|].
      split; [discriminate | reflexivity]. }
  cbv zeta. destruct rest as [|p r].
  - cbn [fst snd]. apply (G false []).
  - destruct (p =? CH_PLUS); cbn [fst snd]; [apply (G true r) | apply (G false (p :: r))].
Qed.

Lemma compile_mcv_graph sig sp : compile sig = Some sp ->
  match s_mcv sp with (m, c, v) => isgraph m = true /\ isgraph c = true /\ isgraph v = true end.
Proof.
  unfold compile. destruct (SIG_BUF <=? _)%nat; try discriminate.
  destruct (cstr sig) as [|m [|c [|v rest]]]; try discriminate.
  destruct (isgraph m && isgraph c && isgraph v) eqn:E; try discriminate.
  apply andb_true_iff in E. destruct E as [E E3]. apply andb_true_iff in E. destruct E as [E1 E2].
  cbv zeta. intros H.
  assert (s_mcv sp = (m, c, v)).
  { destruct (snd _) as [|p r] in H.
    - destruct (fst _) in H; try discriminate. injection H as <-. reflexivity.
    - destruct (p =? CH_LPAR) in H; try discriminate.
      destruct (parse_args_from _ _ _) as [[|a l]|] in H; try discriminate. injection H as <-. reflexivity. }
  rewrite H0. auto.
Qed.

(* ------------------------------------------------------------------ layout round trip *)

Definition vals_ok (ts : list aty) (vs : list value) : Prop :=
  Forall2 (fun t v => val_okb t v = true) ts vs.

Lemma vals_okb_iff ts vs : vals_okb ts vs = true <-> vals_ok ts vs.
Proof.
  revert vs; induction ts as [|t ts IH]; intros [|v vs]; cbn [vals_okb]; split; intros H;
    try discriminate; try (constructor; fail); try (inversion H; fail).
  - apply andb_true_iff in H. destruct H as [H1 H2]. constructor; [exact H1 | apply IH; exact H2].
  - inversion H; subst. apply andb_true_iff. split; [assumption | apply IH; assumption].
Qed.

Lemma enc_val_length t v : ty_is_str t = false -> length (enc_val t v) = ty_size t.
Proof. intros H. destruct t; try discriminate H; destruct v; cbn [enc_val]; apply le_bytes_length. Qed.

Lemma skipn_app_exact {A} (pre x : list A) : skipn (length pre) (pre ++ x) = x.
Proof. induction pre as [|a pre IH]; cbn [length skipn app]; [reflexivity | exact IH]. Qed.

Lemma firstn_app_exact {A} (x y : list A) : firstn (length x) (x ++ y) = x.
Proof. induction x as [|a x IH]; cbn [length firstn app]; [reflexivity | rewrite IH; reflexivity]. Qed.

Lemma str_last_tail a b r : str_last (a :: b :: r) = true -> ty_is_str (a_type a) = false /\ str_last (b :: r) = true.
Proof.
  cbn [str_last]. intros H. apply andb_true_iff in H. destruct H as [H1 H2].
  split; [destruct (ty_is_str (a_type a)); [discriminate | reflexivity] | exact H2].
Qed.

(* decoding the i-th argument of an encoded payload at its computed offset gives the i-th value *)
Lemma decode_encode : forall args pre vals,
  offsets_from (length pre) args -> str_last args = true -> vals_ok (map a_type args) vals ->
  forall i a v, nth_error args i = Some a -> nth_error vals i = Some v ->
  decode_arg a (pre ++ encode (combine (map a_type args) vals)) = Some v.
Proof.
  induction args as [|a0 r IH]; intros pre vals Ho Hs Hv i a v Ha Hvv.
  - destruct i; discriminate Ha.
  - cbn [map] in Hv. inversion Hv as [|t0 v0 ts vs Hv0 Hvs]; subst.
    cbn [map combine]. unfold encode. cbn [flat_map fst snd]. fold (encode (combine (map a_type r) vs)).
    destruct Ho as [Hoff [Hsz Hrest]].
    destruct i as [|j].
    + cbn [nth_error] in Ha, Hvv. injection Ha as <-. injection Hvv as <-.
      unfold decode_arg. rewrite Hoff, skipn_app_exact.
      destruct (ty_is_str (a_type a0)) eqn:Ts.
      * destruct (a_type a0) eqn:T; try discriminate Ts.
        destruct v0 as [z|s]; [discriminate Hv0|]. cbn [val_okb] in Hv0. cbn [enc_val].
        rewrite Hsz. cbn [ty_size]. rewrite !app_length.
        destruct (_ <? _)%nat eqn:L; [lia|].
        rewrite <- app_assoc. cbn [app]. rewrite existsb_nul_app, cstr_app_nul by (apply str_ok_no_nul; exact Hv0).
        reflexivity.
      * assert (Hz : exists z, v0 = VInt z).
        { destruct v0 as [z|s]; [eauto|]. destruct (a_type a0); discriminate. }
        destruct Hz as [z ->].
        pose proof (enc_val_length (a_type a0) (VInt z) Ts) as Hl.
        rewrite !app_length. destruct (_ <? _)%nat eqn:L; [lia|].
        rewrite Hsz, <- Hl, firstn_app_exact.
        pose proof (dec_int_enc (a_type a0) z Ts Hv0) as Hd.
        destruct (a_type a0) eqn:T; try discriminate Ts; cbn [enc_val]; rewrite Hd; reflexivity.
    + cbn [nth_error] in Ha, Hvv.
      destruct r as [|a1 r']; [destruct j; discriminate Ha|].
      apply str_last_tail in Hs. destruct Hs as [Ts Hs].
      rewrite app_assoc. apply (IH (pre ++ enc_val (a_type a0) v0) vs) with (i := j); auto.
      rewrite app_length, enc_val_length by exact Ts. rewrite <- Hsz. exact Hrest.
Qed.

Lemma payload_of_some sp vals : s_args sp <> [] ->
  payload_of sp vals =
  Some ((if s_jumbo sp then le_bytes 4 (Z.of_nat (length (encode (combine (map a_type (s_args sp)) vals)))) else [])
        ++ encode (combine (map a_type (s_args sp)) vals)).
Proof. unfold payload_of. destruct (s_args sp); [congruence | reflexivity]. Qed.

Theorem layout_roundtrip sig sp vals :
  compile sig = Some sp -> str_last (s_args sp) = true -> vals_ok (map a_type (s_args sp)) vals ->
  forall i a v, nth_error (s_args sp) i = Some a -> nth_error vals i = Some v ->
  exists p, payload_of sp vals = Some p /\ decode_arg a p = Some v.
Proof.
  intros Hc Hs Hv i a v Ha Hvv. apply compile_wf in Hc. destruct Hc as [Ho _].
  rewrite payload_of_some by (intros E; rewrite E in Ha; destruct i; discriminate Ha).
  eexists. split; [reflexivity|].
  apply decode_encode with (i := i); auto.
  destruct (s_jumbo sp); [rewrite le_bytes_length|]; exact Ho.
Qed.

(* ------------------------------------------------------------------ render = substitution *)

Lemma find_lookup args : forall vals nm a, length args = length vals ->
  find (fun a => list_eqb (a_name a) nm) args = Some a ->
  exists i v, nth_error args i = Some a /\ nth_error vals i = Some v /\
              lookup nm (combine (map a_name args) vals) = Some v.
Proof.
  induction args as [|a0 r IH]; intros [|v0 vs] nm a Hl Hf; try discriminate.
  cbn [find] in Hf. cbn [map combine lookup].
  destruct (list_eqb (a_name a0) nm) eqn:E.
  - injection Hf as <-. exists 0%nat, v0. auto.
  - cbn [length] in Hl. destruct (IH vs nm a ltac:(lia) Hf) as [i [v [H1 [H2 H3]]]].
    exists (S i), v. auto.
Qed.

(* the payload holds, for every declared name, the value the environment gives it *)
Definition decodes (sp : spec) (pl : option (list Z)) (env : list Z -> option value) : Prop :=
  forall nm a, find_arg sp nm = Some a ->
  exists p v, pl = Some p /\ env nm = Some v /\ decode_arg a p = Some v.

Lemma parse_region_not_lit r c r' : parse_region r = Some (Lit c, r') -> False.
Proof.
  unfold parse_region. destruct r as [|x r0]; try discriminate.
  destruct (x =? CH_PCT); try discriminate.
  destruct (if x =? CH_LBRACE then _ else _) as [[fmt r1]|]; try discriminate.
  destruct r1 as [|d r2]; try discriminate.
  destruct (d =? CH_RBRACE); try discriminate.
  destruct (scan_name _ _ _) as [[nm r3]|]; discriminate.
Qed.

Lemma subst_cons p ps env : subst (p :: ps) env = piece_text env p ++ subst ps env.
Proof. reflexivity. Qed.

Lemma render_loop_spec sp pl env : decodes sp pl env ->
  forall fuel inp ps len, parse_fuel fuel inp = Some ps -> supported sp ps = true ->
  render_loop fuel sp pl inp len = if fits len ps env then Ok (subst ps env) else Err.
Proof.
  intros Hdec. induction fuel as [|f IH]; intros inp ps len Hp Hs.
  - destruct inp; [|discriminate Hp]. injection Hp as <-. reflexivity.
  - destruct inp as [|c r]; [injection Hp as <-; reflexivity|].
    cbn [parse_fuel] in Hp. cbn [render_loop].
    destruct (c =? CH_PCT) eqn:Ec.
    + destruct (parse_region r) as [[p r']|] eqn:Er; [|discriminate Hp].
      destruct (parse_fuel f r') as [ps'|] eqn:Ep; [|discriminate Hp].
      cbn [option_map] in Hp. injection Hp as <-.
      unfold supported in Hs. cbn [forallb] in Hs. apply andb_true_iff in Hs. destruct Hs as [Hs1 Hs2].
      fold (supported sp ps') in Hs2.
      unfold format_region. rewrite Er. rewrite subst_cons. cbn [fits].
      destruct p as [c0| |fmt nm].
      * exfalso. eapply parse_region_not_lit; eauto.
      * cbn [is_arg piece_text length]. change (Z.of_nat 1) with 1.
        rewrite (IH r' ps' (len - 1) Ep Hs2).
        destruct (len <=? 0) eqn:L0; destruct (1 <=? len) eqn:L1; try lia; cbn [andb]; [reflexivity|].
        destruct (fits (len - 1) ps' env); reflexivity.
      * destruct (find_arg sp nm) as [a|] eqn:Ef; [|discriminate Hs1].
        destruct (Hdec nm a Ef) as [p [v [-> [Hv Hd]]]].
        cbn [is_arg piece_text]. rewrite Hv. unfold print_arg. rewrite Hd, Hs1.
        destruct (len <=? 0) eqn:L0.
        { destruct (Z.of_nat (length (show fmt v)) <? len) eqn:L1; [lia|reflexivity]. }
        destruct (Z.of_nat (length (show fmt v)) <? len) eqn:L1; cbn [andb]; [|reflexivity].
        rewrite (IH r' ps' _ Ep Hs2).
        destruct (fits _ ps' env); reflexivity.
    + destruct (parse_fuel f r) as [ps'|] eqn:Ep; [|discriminate Hp].
      cbn [option_map] in Hp. injection Hp as <-.
      unfold supported in Hs. cbn [forallb] in Hs. fold (supported sp ps') in Hs.
      rewrite subst_cons. cbn [fits is_arg piece_text length]. change (Z.of_nat 1) with 1.
      rewrite (IH r ps' (len - 1) Ep Hs).
      destruct (len <=? 0) eqn:L0; destruct (1 <=? len) eqn:L1; try lia; cbn [andb]; [reflexivity|].
      destruct (fits (len - 1) ps' env); reflexivity.
Qed.

(* ---- the room test in closed form *)

Lemma piece_len_nonarg env p : is_arg p = false -> length (piece_text env p) = 1%nat.
Proof. destruct p; [reflexivity | reflexivity | discriminate]. Qed.

Lemma fits_lt ps env : forall len, Z.of_nat (length (subst ps env)) < len -> fits len ps env = true.
Proof.
  induction ps as [|p r IH]; intros len H; [reflexivity|].
  rewrite subst_cons, app_length, Nat2Z.inj_add in H. cbn [fits].
  apply andb_true_iff. split.
  - destruct (is_arg p) eqn:A; [lia|]. rewrite (piece_len_nonarg env p A) in H. lia.
  - apply IH. lia.
Qed.

Lemma arg_prefix_cons p r :
  arg_prefix (p :: r) = match arg_prefix r with [] => if is_arg p then [p] else [] | l => p :: l end.
Proof. reflexivity. Qed.

Lemma fits_closed_eq ps env : forall len, 0 <= len -> fits len ps env = fits_closed len ps env.
Proof.
  induction ps as [|p r IH]; intros len Hl.
  - unfold fits_closed. cbn [fits subst flat_map arg_prefix length]. change (Z.of_nat 0) with 0.
    destruct (0 <=? len) eqn:E; [reflexivity | lia].
  - cbn [fits]. unfold fits_closed. rewrite arg_prefix_cons, subst_cons, app_length, Nat2Z.inj_add.
    set (n := Z.of_nat (length (piece_text env p))).
    set (R := Z.of_nat (length (subst r env))).
    assert (Hn : 0 <= n) by (unfold n; lia). assert (HR : 0 <= R) by (unfold R; lia).
    destruct (Z_le_gt_dec n len) as [Hle|Hgt].
    + rewrite (IH (len - n)) by lia. unfold fits_closed. fold R.
      destruct (arg_prefix r) as [|q l] eqn:P.
      * destruct (is_arg p) eqn:A.
        { cbn [subst flat_map]. rewrite app_nil_r. fold n.
          apply eq_true_iff_eq. rewrite !andb_true_iff, !Z.leb_le, !Z.ltb_lt. lia. }
        { assert (n = 1) by (unfold n; rewrite (piece_len_nonarg env p A); reflexivity).
          apply eq_true_iff_eq. rewrite !andb_true_iff, !Z.leb_le. lia. }
      * change (subst (p :: q :: l) env) with (piece_text env p ++ subst (q :: l) env).
        rewrite app_length, Nat2Z.inj_add. fold n.
        set (L := Z.of_nat (length (subst (q :: l) env))). cbv iota.
        assert (HL : 0 <= L) by (unfold L; lia).
        destruct (is_arg p) eqn:A.
        { apply eq_true_iff_eq. rewrite !andb_true_iff, !Z.leb_le, !Z.ltb_lt. lia. }
        { assert (n = 1) by (unfold n; rewrite (piece_len_nonarg env p A); reflexivity).
          apply eq_true_iff_eq. rewrite !andb_true_iff, !Z.leb_le, !Z.ltb_lt. lia. }
    + assert (E1 : (if is_arg p then n <? len else 1 <=? len) = false).
      { destruct (is_arg p) eqn:A; [lia|].
        assert (n = 1) by (unfold n; rewrite (piece_len_nonarg env p A); reflexivity). lia. }
      rewrite E1. cbn [andb].
      destruct (n + R <=? len) eqn:E2; [lia | reflexivity].
Qed.

(* ---- the theorems *)

Lemma Forall2_len {A B} (R : A -> B -> Prop) l1 l2 : Forall2 R l1 l2 -> length l1 = length l2.
Proof. induction 1; cbn [length]; congruence. Qed.

Lemma enc_val_nonempty t v : enc_val t v <> [].
Proof.
  destruct t, v; cbn [enc_val ty_size le_bytes]; try discriminate.
  destruct s; discriminate.
Qed.

Lemma payload_decodes sig sp vals :
  compile sig = Some sp -> str_last (s_args sp) = true -> vals_ok (map a_type (s_args sp)) vals ->
  decodes sp (norm_payload (payload_of sp vals)) (env_of sp vals).
Proof.
  intros Hc Hs Hv nm a Hf. unfold find_arg in Hf.
  assert (Hlen : length (s_args sp) = length vals).
  { apply Forall2_len in Hv. rewrite map_length in Hv. exact Hv. }
  destruct (find_lookup _ vals nm a Hlen Hf) as [i [v [H1 [H2 H3]]]].
  destruct (layout_roundtrip sig sp vals Hc Hs Hv i a v H1 H2) as [p [Hp Hd]].
  exists p, v. split; [|split; [exact H3 | exact Hd]].
  rewrite Hp. destruct p as [|b p']; [|reflexivity].
  exfalso. rewrite payload_of_some in Hp by (intros E; rewrite E in H1; destruct i; discriminate H1).
  injection Hp as Hp. apply app_eq_nil in Hp. destruct Hp as [_ Hp].
  destruct (s_args sp) as [|a0 r]; [destruct i; discriminate H1|].
  destruct vals as [|v0 vs]; [destruct i; discriminate H2|].
  cbn [map combine] in Hp. unfold encode in Hp. cbn [flat_map fst snd] in Hp.
  apply app_eq_nil in Hp. destruct Hp as [Hp _]. exact (enc_val_nonempty _ _ Hp).
Qed.

(* exact: the dump is the substituted description when it passes the room test of the code,
   otherwise UNKNOWN *)
Theorem render_exact sig sp desc ps vals :
  compile sig = Some sp -> str_last (s_args sp) = true -> vals_ok (map a_type (s_args sp)) vals ->
  parse desc = Some ps -> supported sp ps = true ->
  render sp desc (payload_of sp vals) =
  if fits_closed (OUTLEN - 1) ps (env_of sp vals) then Ok (subst ps (env_of sp vals)) else Err.
Proof.
  intros Hc Hs Hv Hp Hsup. unfold render, parse in *.
  rewrite <- fits_closed_eq by (unfold OUTLEN; lia).
  apply render_loop_spec; auto. eapply payload_decodes; eauto.
Qed.

Theorem render_subst sig sp desc ps vals :
  compile sig = Some sp -> str_last (s_args sp) = true -> vals_ok (map a_type (s_args sp)) vals ->
  parse desc = Some ps -> supported sp ps = true ->
  Z.of_nat (length (subst ps (env_of sp vals))) < OUTLEN - 1 ->
  render sp desc (payload_of sp vals) = Ok (subst ps (env_of sp vals)).
Proof.
  intros Hc Hs Hv Hp Hsup Hl. rewrite (render_exact sig sp desc ps vals) by assumption.
  rewrite <- fits_closed_eq by (unfold OUTLEN; lia). rewrite fits_lt by exact Hl. reflexivity.
Qed.

(* an event declared without arguments: the description, whatever payload comes with it *)
Theorem render_noargs sp desc ps pl :
  s_args sp = [] -> parse desc = Some ps -> supported sp ps = true ->
  render sp desc pl =
  if Z.of_nat (length (subst ps (fun _ => None))) <=? OUTLEN - 1 then Ok (subst ps (fun _ => None)) else Err.
Proof.
  intros Ha Hp Hsup. unfold render, parse in *.
  assert (D : decodes sp (norm_payload pl) (fun _ => None)).
  { intros nm a Hf. unfold find_arg in Hf. rewrite Ha in Hf. discriminate Hf. }
  rewrite (render_loop_spec sp _ _ D _ _ ps _ Hp Hsup).
  rewrite fits_closed_eq by (unfold OUTLEN; lia). unfold fits_closed.
  assert (P : arg_prefix ps = []).
  { clear Hp. induction ps as [|p r IH]; [reflexivity|].
    unfold supported in Hsup. cbn [forallb] in Hsup. apply andb_true_iff in Hsup. destruct Hsup as [H1 H2].
    rewrite arg_prefix_cons, (IH H2). destruct p as [| |f n]; try reflexivity.
    unfold find_arg in H1. rewrite Ha in H1. discriminate H1. }
  rewrite P, andb_true_r. reflexivity.
Qed.

(* an event whose description names an argument but which comes without payload: UNKNOWN
   (before /repo commit 0435199 this was a NULL dereference) *)
Lemma render_loop_no_payload sp : forall fuel inp ps len,
  parse_fuel fuel inp = Some ps -> existsb is_arg ps = true -> render_loop fuel sp None inp len = Err.
Proof.
  induction fuel as [|f IH]; intros inp ps len Hp He.
  - destruct inp; [|discriminate Hp]. injection Hp as <-. discriminate He.
  - destruct inp as [|c r]; [injection Hp as <-; discriminate He|].
    cbn [parse_fuel] in Hp. cbn [render_loop].
    destruct (len <=? 0); [reflexivity|].
    destruct (c =? CH_PCT).
    + destruct (parse_region r) as [[p r']|] eqn:Er; [|discriminate Hp].
      destruct (parse_fuel f r') as [ps'|] eqn:Ep; [|discriminate Hp].
      cbn [option_map] in Hp. injection Hp as <-. unfold format_region. rewrite Er.
      destruct p as [c0| |fmt nm]; [reflexivity| |].
      * cbn [existsb is_arg orb] in He. rewrite (IH r' ps' _ Ep He). reflexivity.
      * destruct (find_arg sp nm); reflexivity.
    + destruct (parse_fuel f r) as [ps'|] eqn:Ep; [|discriminate Hp].
      cbn [option_map] in Hp. injection Hp as <-. cbn [existsb is_arg orb] in He.
      rewrite (IH r ps' _ Ep He). reflexivity.
Qed.

Theorem render_missing_payload sp desc ps :
  parse desc = Some ps -> existsb is_arg ps = true -> render sp desc None = Err.
Proof. intros Hp He. unfold render, parse in *. cbn [norm_payload]. eapply render_loop_no_payload; eauto. Qed.

(* the model never runs out of fuel *)
Lemma parse_region_shorter r p r' : parse_region r = Some (p, r') -> (length r' < length r)%nat.
Proof.
  assert (SF : forall l i acc f r1, scan_fmt l i acc = Some (f, r1) -> (length r1 < length l)%nat).
  { induction l as [|c l IH]; intros i acc f r1 H; cbn [scan_fmt] in H; [discriminate|].
    destruct (c =? CH_LBRACE); [injection H as _ <-; cbn [length]; lia|].
    destruct (_ <=? i)%nat; [discriminate|]. apply IH in H. cbn [length]. lia. }
  assert (SN : forall l i acc f r1, scan_name l i acc = Some (f, r1) -> (length r1 < length l)%nat).
  { induction l as [|c l IH]; intros i acc f r1 H; cbn [scan_name] in H; [discriminate|].
    destruct (c =? CH_RBRACE); [injection H as _ <-; cbn [length]; lia|].
    destruct (negb (isalnum c)); [discriminate|].
    destruct (_ <=? i)%nat; [discriminate|]. apply IH in H. cbn [length]. lia. }
  unfold parse_region. destruct r as [|x r0]; [discriminate|].
  destruct (x =? CH_PCT); [intros H; injection H as _ <-; cbn [length]; lia|].
  destruct (x =? CH_LBRACE).
  - destruct r0 as [|d r2]; [discriminate|]. destruct (d =? CH_RBRACE); [discriminate|].
    destruct (scan_name _ _ _) as [[nm r3]|] eqn:E; [|discriminate].
    intros H; injection H as _ <-. apply SN in E. cbn [length] in *. lia.
  - destruct (scan_fmt _ _ _) as [[f r1]|] eqn:E; [|discriminate]. apply SF in E.
    destruct r1 as [|d r2]; [discriminate|]. destruct (d =? CH_RBRACE); [discriminate|].
    destruct (scan_name _ _ _) as [[nm r3]|] eqn:E'; [|discriminate].
    intros H; injection H as _ <-. apply SN in E'. cbn [length] in *. lia.
Qed.

(* fuel: any amount >= the length of the input gives the same result, so the out-of-fuel
   branches of parse_fuel and render_loop are never taken by parse and render *)
Lemma parse_fuel_enough : forall f1 f2 inp, (length inp <= f1)%nat -> (length inp <= f2)%nat ->
  parse_fuel f1 inp = parse_fuel f2 inp.
Proof.
  induction f1 as [|f1 IH]; intros f2 inp H1 H2.
  - destruct inp; [destruct f2; reflexivity | cbn [length] in H1; lia].
  - destruct inp as [|c r]; [destruct f2; reflexivity|].
    destruct f2 as [|f2]; [cbn [length] in H2; lia|].
    cbn [length] in H1, H2. cbn [parse_fuel].
    destruct (c =? CH_PCT).
    + destruct (parse_region r) as [[p r']|] eqn:Er; [|reflexivity].
      apply parse_region_shorter in Er. rewrite (IH f2 r') by lia. reflexivity.
    + rewrite (IH f2 r) by lia. reflexivity.
Qed.

Lemma render_loop_enough sp pl : forall f1 f2 inp len, (length inp <= f1)%nat -> (length inp <= f2)%nat ->
  render_loop f1 sp pl inp len = render_loop f2 sp pl inp len.
Proof.
  induction f1 as [|f1 IH]; intros f2 inp len H1 H2.
  - destruct inp; [destruct f2; reflexivity | cbn [length] in H1; lia].
  - destruct inp as [|c r]; [destruct f2; reflexivity|].
    destruct f2 as [|f2]; [cbn [length] in H2; lia|].
    cbn [length] in H1, H2. cbn [render_loop].
    destruct (len <=? 0); [reflexivity|].
    destruct (c =? CH_PCT).
    + unfold format_region. destruct (parse_region r) as [[p r']|] eqn:Er; [|reflexivity].
      apply parse_region_shorter in Er.
      destruct p as [c0| |fmt nm]; [reflexivity| |].
      * rewrite (IH f2 r') by lia. reflexivity.
      * destruct (find_arg sp nm) as [a|]; [|reflexivity].
        destruct (print_arg a fmt pl len); try reflexivity.
        rewrite (IH f2 r') by lia. reflexivity.
    + rewrite (IH f2 r) by lia. reflexivity.
Qed.

Theorem render_fuel_irrelevant sp desc pl extra :
  render sp desc pl = render_loop (length (cstr desc) + extra) sp (norm_payload pl) (cstr desc) (OUTLEN - 1).
Proof. unfold render. apply render_loop_enough; lia. Qed.

Theorem parse_fuel_irrelevant desc extra :
  parse desc = parse_fuel (length (cstr desc) + extra) (cstr desc).
Proof. unfold parse. apply parse_fuel_enough; lia. Qed.

(* ------------------------------------------------------------------ the declared events *)

Lemma decls_ok_evdescs : decls_ok evdescs = true.
Proof. vm_compute. reflexivity. Qed.

Lemma custom_formats_evdescs : forallb (fun f => list_eqb f FMT_LLX) (custom_formats evdescs) = true.
Proof. vm_compute. reflexivity. Qed.

Lemma decl_ok_in m sig desc : In (m, sig, desc) evdescs ->
  exists sp ps, compile sig = Some sp /\ fst3 (s_mcv sp) = m /\ str_last (s_args sp) = true /\
                parse desc = Some ps /\ supported sp ps = true.
Proof.
  intros Hin. pose proof decls_ok_evdescs as H. unfold decls_ok in H.
  apply andb_true_iff in H. destruct H as [H _]. rewrite forallb_forall in H.
  specialize (H _ Hin). unfold decl_ok in H.
  destruct (compile sig) as [sp|]; [|discriminate H].
  apply andb_true_iff in H. destruct H as [H H3]. apply andb_true_iff in H. destruct H as [H1 H2].
  destruct (parse desc) as [ps|]; [|discriminate H3].
  exists sp, ps. repeat split; auto. lia.
Qed.

(* every listed event: its signature compiles, the model character is that of its model, and
   for ALL argument values in range ovnidump prints the description with the values
   substituted when that text passes the room test, UNKNOWN otherwise *)
Theorem listed_events_dump m sig desc : In (m, sig, desc) evdescs ->
  exists sp ps, compile sig = Some sp /\ fst3 (s_mcv sp) = m /\ parse desc = Some ps /\
  forall vals, vals_ok (map a_type (s_args sp)) vals ->
    dump sig desc (payload_of sp vals) =
    if fits_closed (OUTLEN - 1) ps (env_of sp vals) then DText (subst ps (env_of sp vals)) else DUnknown.
Proof.
  intros Hin. destruct (decl_ok_in m sig desc Hin) as [sp [ps [Hc [Hm [Hs [Hp Hsup]]]]]].
  exists sp, ps. repeat split; auto. intros vals Hv.
  unfold dump. rewrite Hc, (render_exact sig sp desc ps vals) by assumption.
  destruct (fits_closed _ _ _); reflexivity.
Qed.

Corollary listed_events_dump_short m sig desc : In (m, sig, desc) evdescs ->
  exists sp ps, compile sig = Some sp /\ parse desc = Some ps /\
  forall vals, vals_ok (map a_type (s_args sp)) vals ->
    Z.of_nat (length (subst ps (env_of sp vals))) < OUTLEN - 1 ->
    dump sig desc (payload_of sp vals) = DText (subst ps (env_of sp vals)).
Proof.
  intros Hin. destruct (decl_ok_in m sig desc Hin) as [sp [ps [Hc [Hm [Hs [Hp Hsup]]]]]].
  exists sp, ps. repeat split; auto. intros vals Hv Hl.
  unfold dump. rewrite Hc, (render_subst sig sp desc ps vals) by assumption. reflexivity.
Qed.

(* no two declarations of a model have the same MCV *)
Definition decl_key (e : Z * list Z * list Z) : Z * list Z := (fst (fst e), decl_mcv e).

Lemma nodup_mcv_spec l : nodup_mcv l = true -> NoDup (map decl_key l).
Proof.
  induction l as [|e r IH]; intros H; cbn [map]; [constructor|].
  cbn [nodup_mcv] in H. apply andb_true_iff in H. destruct H as [H1 H2].
  constructor; [|apply IH; exact H2].
  intros Hin. apply in_map_iff in Hin. destruct Hin as [e' [Hk He']].
  apply negb_true_iff in H1. rewrite <- not_true_iff_false in H1. apply H1.
  apply existsb_exists. exists e'. split; [exact He'|].
  unfold decl_key in Hk. injection Hk as Hk1 Hk2.
  rewrite Hk1, Hk2, Z.eqb_refl, list_eqb_refl. reflexivity.
Qed.

Theorem listed_mcv_unique : NoDup (map decl_key evdescs).
Proof.
  apply nodup_mcv_spec. pose proof decls_ok_evdescs as H. unfold decls_ok in H.
  apply andb_true_iff in H. exact (proj2 H).
Qed.

(* ------------------------------------------------------------------ the refutation *)

Definition long_label : list value := [VInt 7; VStr (repeat 65 1100)].

Definition long_decl := find (fun e => list_eqb (decl_mcv e) [86; 89; 99]) evdescs.

Lemma long_label_computed :
  match long_decl with
  | Some (m, sig, desc) =>
    match compile sig with
    | Some sp =>
      str_last (s_args sp) && vals_okb (map a_type (s_args sp)) long_label &&
      match render sp desc (payload_of sp long_label) with Err => true | _ => false end
    | None => false
    end
  | None => false
  end = true.
Proof. vm_compute. reflexivity. Qed.

(* "decodes every listed event with a payload of the declared shape" fails for the declared
   event VYc (and 6Yc) as soon as the label does not fit ev_spec_print's 1024-byte buffer:
   ovnidump prints UNKNOWN for a legal event *)
Theorem dump_unbounded_refuted :
  exists m sig desc sp vals,
    In (m, sig, desc) evdescs /\ compile sig = Some sp /\ str_last (s_args sp) = true /\
    vals_ok (map a_type (s_args sp)) vals /\
    render sp desc (payload_of sp vals) = Err /\ dump sig desc (payload_of sp vals) = DUnknown.
Proof.
  pose proof long_label_computed as H. unfold long_decl in H.
  destruct (find _ evdescs) as [[[m sig] desc]|] eqn:E; [|discriminate H].
  apply find_some in E. destruct E as [Hin _].
  destruct (compile sig) as [sp|] eqn:C; [|discriminate H].
  apply andb_true_iff in H. destruct H as [H H3]. apply andb_true_iff in H. destruct H as [H1 H2].
  exists m, sig, desc, sp, long_label.
  split; [exact Hin|]. split; [exact C|]. split; [exact H1|]. split; [apply vals_okb_iff; exact H2|].
  unfold dump. rewrite C.
  destruct (render sp desc (payload_of sp long_label)); try discriminate H3. split; reflexivity.
Qed.
