(* What single generated connect functions (Gen/Connect_gen.v, unit connect) do, for EVERY state. *)
From Coq Require Import ZArith List Bool Lia String.
From OV Require Import Base.CInt Emu.EmuCoreDefs Emu.ConnectPre.
From OV Require Emu.BayDefs Gen.Connect_gen.
Import ListNotations.
Local Open Scope Z_scope.

Module G := Connect_gen.

(* ---- what single generated functions do, for every state *)
Ltac munf := cbv beta delta [bind_ bind ite need eval ret fail].

(* the CPU muxes select on the CPU's th_running channel *)
Lemma cpu_get_th_chan_is_thrun sx st c : G.cpu_get_th_chan sx st (Some c) = Some (ASysCpu c B.X_THRUN).
Proof. reflexivity. Qed.

(* track_th_input_chan: TRACK_TH_ANY follows the input, no mux; RUN / ACT: a mux on the given select with
   thread_select_running / thread_select_active, one input, the track's scratch channel as output *)
Lemma track_th_input_chan_any b i sel inp sx st o : track_at st (Some (b, i)) = Some o -> tk_mode o = TRACK_ANY ->
  G.track_th_input_chan (Some (b, i)) sel inp sx st = set_track_out (Some (b, i)) (fun _ _ => inp) sx st.
Proof.
  intros Ht Hm. unfold G.track_th_input_chan. munf. unfold get_track__mode. rewrite Ht, Hm. cbn [is_null negb].
  change (Z.eqb TRACK_ANY G.c_TRACK_TH_ANY) with true. cbv iota.
  destruct (set_track_out (Some (b, i)) (fun _ _ => inp) sx st) as [[[] st']|]; reflexivity.
Qed.

Definition mux_mode (mode : Z) : option selfn :=
  if mode =? TRACK_RUN then Some FRunning else if mode =? TRACK_ACT then Some FActive else None.

Lemma track_th_input_chan_mux b i sel inp sx st o f : track_at st (Some (b, i)) = Some o -> mux_mode (tk_mode o) = Some f ->
  G.track_th_input_chan (Some (b, i)) sel inp sx st =
  bind_ (mux_init (Some (MTrk b i)) (tk_bay o) sel (Some (ATrk b i)) (Some f) 1)
        (bind_ (set_track_out (Some (b, i)) (fun _ _ => Some (ATrk b i))) (mux_set_input (Some (MTrk b i)) 0 inp)) sx st.
Proof.
  intros Ht Hm. unfold G.track_th_input_chan, G.track_set_select, G.track_set_input. munf.
  unfold get_track__mode, get_track__bay, addr_track_mux, addr_track_ch. rewrite Ht. cbn [is_null negb].
  unfold mux_mode in Hm.
  destruct (tk_mode o =? TRACK_ANY) eqn:E0.
  { apply Z.eqb_eq in E0. rewrite E0 in Hm. discriminate. }
  change G.c_TRACK_TH_ANY with TRACK_ANY. rewrite E0.
  change G.c_TRACK_TH_RUN with TRACK_RUN. change G.c_TRACK_TH_ACT with TRACK_ACT.
  destruct (tk_mode o =? TRACK_RUN) eqn:E1.
  - injection Hm as <-. unfold fn_thread_select_running. cbv iota beta. unfold get_track__bay. rewrite Ht.
    destruct (mux_init (Some (MTrk b i)) (tk_bay o) sel (Some (ATrk b i)) (Some FRunning) 1 sx st) as [[[] st1]|]; [|reflexivity].
    destruct (set_track_out (Some (b, i)) (fun _ _ => Some (ATrk b i)) sx st1) as [[[] st2]|]; [|reflexivity].
    destruct (mux_set_input (Some (MTrk b i)) 0 inp sx st2) as [[[] st3]|]; reflexivity.
  - destruct (tk_mode o =? TRACK_ACT) eqn:E2; [|discriminate]. injection Hm as <-. unfold fn_thread_select_active. cbv iota beta. unfold get_track__bay. rewrite Ht.
    destruct (mux_init (Some (MTrk b i)) (tk_bay o) sel (Some (ATrk b i)) (Some FActive) 1 sx st) as [[[] st1]|]; [|reflexivity].
    destruct (set_track_out (Some (b, i)) (fun _ _ => Some (ATrk b i)) sx st1) as [[[] st2]|]; [|reflexivity].
    destruct (mux_set_input (Some (MTrk b i)) 0 inp sx st2) as [[[] st3]|]; reflexivity.
Qed.

(* any other mode is refused *)
Lemma track_th_input_chan_bad_mode b i sel inp sx st o : track_at st (Some (b, i)) = Some o ->
  tk_mode o <> TRACK_ANY -> mux_mode (tk_mode o) = None -> G.track_th_input_chan (Some (b, i)) sel inp sx st = Err E_FAIL.
Proof.
  intros Ht Hn Hm. unfold G.track_th_input_chan. munf. unfold get_track__mode. rewrite Ht. cbn [is_null negb].
  change G.c_TRACK_TH_ANY with TRACK_ANY. change G.c_TRACK_TH_RUN with TRACK_RUN. change G.c_TRACK_TH_ACT with TRACK_ACT.
  destruct (tk_mode o =? TRACK_ANY) eqn:E0; [apply Z.eqb_eq in E0; contradiction|].
  unfold mux_mode in Hm. destruct (tk_mode o =? TRACK_RUN); [discriminate|]. destruct (tk_mode o =? TRACK_ACT); [discriminate|]. reflexivity.
Qed.
